#!/bin/sh
# Build the framework from files on disk only (no network): all Lean proofs + the model
# driver, then the Go harness against /repo's working tree.
set -e
cd "$(dirname "$0")"
export GOFLAGS=-mod=mod GOPROXY=off GOSUMDB=off GOTOOLCHAIN=local CGO_ENABLED=0
mkdir -p .build evidence replays lean/Mxj/Generated lean/Mxj/Audit
if [ -f extract/main.go ]; then
  (cd extract && go build -o ../.build/extract . && ../.build/extract -repo "${VERIF_REPO:-/repo}" -out ../lean/Mxj/Generated/Facts.lean -json ../.build/facts.json)
fi
(cd lean && lake build mxjdriver)
# pre-build every property's theorems (each check rebuilds its own incrementally)
for f in lean/Mxj/Props/C*.lean; do
  m=$(basename "$f" .lean)
  (cd lean && lake build "Mxj.Props.$m") || echo "setup: WARNING: Mxj.Props.$m does not build"
done
cp "${VERIF_REPO:-/repo}/go.sum" harness/go.sum 2>/dev/null || true
(cd harness && go build -tags verif -o ../.build/mxjverif .)
echo setup-ok
