/-
  Mxj.Lemmas.FilesXml — helper lemmas for the XML part of C19 (Props/C19ExtXml.lean):
  (1) `fileToks docs trail`: the token stream of a file of several documents, each preceded by a
      separator of non-start tokens, followed by `trail`;
  (2) `readMapsXml_file`: the loop of `NewMapsFromXmlFile` reads the documents one by one (each
      round is `decodeTop` on what the previous round left unread) and goes on with `trail`;
  (3) `parseElem_cut` / `decodeTop_cut`: a token stream that ends inside an element never closes
      it — the decoder runs off the end (io.EOF or the tokenizer's error, according to `fin`);
  (4) `handleXml`: the loop of `HandleXmlReader` with a handler that stops after a number of Maps.
-/
import Mxj.Lemmas.Decode
import Mxj.Model.FilesXml
namespace Mxj.Files
open Mxj Mxj.Dec

/-- element nodes (what a document's root is) -/
def isElem : Node → Bool
  | .elem .. => true
  | _ => false

/-- the token stream of a file: each document `d.2` preceded by its separator `d.1`
    (white-space text, comments, PIs, directives), `trail` after the last document -/
def fileToks : List (List Tok × Node) → List Tok → List Tok
  | [], trail => trail
  | d :: ds, trail => d.1 ++ flatten d.2 ++ fileToks ds trail

/-- a well-formed file: separators hold no start token, every document is an element -/
def WfDocs (docs : List (List Tok × Node)) : Prop :=
  ∀ d ∈ docs, (∀ t ∈ d.1, ¬ isStart t) ∧ isElem d.2 = true

/-- how a run that consumes every token ends: io.EOF, or the tokenizer's error -/
def endOut (fin : StreamEnd) : Outcome (Val × List Tok) :=
  match fin with
  | .eof => .eof
  | .bad => .syntax

theorem fileToks_nil (trail : List Tok) : fileToks [] trail = trail := rfl

theorem fileToks_cons (d : List Tok × Node) (ds : List (List Tok × Node)) (trail : List Tok) :
    fileToks (d :: ds) trail = d.1 ++ flatten d.2 ++ fileToks ds trail := rfl

theorem fileToks_append : ∀ (ds es : List (List Tok × Node)) (trail : List Tok),
    fileToks (ds ++ es) trail = fileToks ds (fileToks es trail)
  | [], _, _ => rfl
  | d :: ds, es, trail => by
      simp only [List.cons_append, fileToks_cons, fileToks_append ds es trail]

theorem WfDocs.tail {d : List Tok × Node} {ds : List (List Tok × Node)} (h : WfDocs (d :: ds)) :
    WfDocs ds := fun e he => h e (List.mem_cons_of_mem _ he)

theorem WfDocs.take {ds : List (List Tok × Node)} (h : WfDocs ds) (k : Nat) : WfDocs (ds.take k) :=
  fun e he => h e (List.mem_of_mem_take he)

/-! ### one round -/

/-- `decodeTop` with the loop's fuel on separator + document + anything: the document's Map, and
    exactly the tokens after the root's end tag left unread -/
theorem decodeTop_doc (cfg : DecCfg) (S : Strconv) (fin : StreamEnd) (sep : List Tok)
    (hsep : ∀ t ∈ sep, ¬ isStart t) (sp name : Str) (attrs : List Attr) (kids : List Node)
    (rest : List Tok) (f : Nat)
    (hf : (sep ++ flatten (.elem sp name attrs kids) ++ rest).length ≤ f) :
    decodeTop cfg S fin f (sep ++ flatten (.elem sp name attrs kids) ++ rest)
      = .ok (Fold.doc cfg S (.elem sp name attrs kids), rest) := by
  obtain ⟨g, rfl⟩ : ∃ g, f = sep.length + g := ⟨f - sep.length, by
    simp only [List.length_append] at hf; omega⟩
  rw [List.append_assoc, decodeTop_skip cfg S fin sep hsep]
  refine decodeTop_tree cfg S fin sp name attrs kids rest g ?_
  simp only [List.length_append, length_flatten_elem] at hf
  omega

/-- `decodeTop` on non-start tokens only: nothing to decode, the stream's end is reported -/
theorem decodeTop_sep (cfg : DecCfg) (S : Strconv) (fin : StreamEnd) (sep : List Tok)
    (hsep : ∀ t ∈ sep, ¬ isStart t) (f : Nat) (hf : sep.length < f) :
    decodeTop cfg S fin f sep = endOut fin := by
  obtain ⟨g, rfl⟩ : ∃ g, f = sep.length + (g + 1) := ⟨f - sep.length - 1, by omega⟩
  have h := decodeTop_skip cfg S fin sep hsep (g + 1) []
  rw [List.append_nil] at h
  rw [h]
  cases fin <;> rfl

/-! ### the loop -/

/-- the loop over a well-formed file followed by ANY tokens `trail`: every document is read —
    exactly `Fold.doc` of it, in order — and the loop goes on with `trail` -/
theorem readMapsXml_file (cfg : DecCfg) (S : Strconv) (fin : StreamEnd) :
    ∀ (docs : List (List Tok × Node)), WfDocs docs → ∀ (f : Nat) (trail : List Tok) (acc : List Val),
      readMapsXml cfg S fin (docs.length + f) (fileToks docs trail) acc
        = readMapsXml cfg S fin f trail ((docs.map (fun d => Fold.doc cfg S d.2)).reverse ++ acc)
  | [], _, f, trail, acc => by simp [fileToks]
  | (sep, t) :: ds, h, f, trail, acc => by
      have hd := h (sep, t) (List.mem_cons_self ..)
      have ih := readMapsXml_file cfg S fin ds h.tail f trail (Fold.doc cfg S t :: acc)
      cases t with
      | elem sp name attrs kids =>
        have e : ((sep, Node.elem sp name attrs kids) :: ds).length + f = (ds.length + f) + 1 := by
          simp only [List.length_cons]; omega
        rw [e, readMapsXml, fileToks_cons]
        rw [decodeTop_doc cfg S fin sep hd.1 sp name attrs kids (fileToks ds trail) _ (Nat.le_succ _)]
        simp only [ih, List.map_cons, List.reverse_cons, List.append_assoc, List.cons_append,
          List.nil_append]
      | text _ => exact absurd hd.2 (by simp [isElem])
      | comment _ => exact absurd hd.2 (by simp [isElem])
      | procinst _ _ => exact absurd hd.2 (by simp [isElem])
      | directive _ => exact absurd hd.2 (by simp [isElem])

/-- the last round: only non-start tokens are left -/
theorem readMapsXml_end (cfg : DecCfg) (S : Strconv) (fin : StreamEnd) (f : Nat) (trail : List Tok)
    (htrail : ∀ t ∈ trail, ¬ isStart t) (acc : List Val) :
    readMapsXml cfg S fin (f + 1) trail acc = ⟨acc.reverse, decide (fin = .bad)⟩ := by
  rw [readMapsXml, decodeTop_sep cfg S fin trail htrail _ (Nat.lt_succ_self _)]
  cases fin <;> rfl

/-- the last round in general: whatever does not decode and is not io.EOF is an error -/
theorem readMapsXml_fail (cfg : DecCfg) (S : Strconv) (fin : StreamEnd) (f : Nat) (toks : List Tok)
    (acc : List Val)
    (hbad : match decodeTop cfg S fin (toks.length + 1) toks with
      | .ok _ => False
      | .eof => False
      | _ => True) :
    readMapsXml cfg S fin (f + 1) toks acc = ⟨acc.reverse, true⟩ := by
  rw [readMapsXml]
  generalize decodeTop cfg S fin (toks.length + 1) toks = x at hbad
  cases x with
  | ok a => exact absurd hbad id
  | eof => exact absurd hbad id
  | «syntax» => rfl
  | err k => rfl
  | panic s => rfl

/-! ### a stream that ends inside an element -/

/-- the element loop on a prefix of the children's tokens (the end tag not reached): it runs off
    the end of the stream, whatever its state -/
theorem parseElem_cut (cfg : DecCfg) (S : Strconv) (fin : StreamEnd) :
    ∀ (f : Nat) (ks : List Node) (p tail : List Tok), p ++ tail = flattenKids ks → p.length < f →
      ∀ (skey : Str) (na : Entries) (n : Option Val) (seq : Nat) (pend : Option Str),
        parseElem cfg S fin f skey na n seq pend p = endOut fin := by
  intro f
  induction f with
  | zero => intro ks p tail _ hf; omega
  | succ f ih =>
    intro ks p tail hp hf skey na n seq pend
    cases p with
    | nil => cases fin <;> rfl
    | cons tok p' =>
      simp only [List.length_cons] at hf
      have hf' : p'.length < f := by omega
      cases ks with
      | nil => simp [flattenKids] at hp
      | cons k ks' =>
        cases k with
        | text s =>
          simp only [flattenKids, flatten, List.cons_append, List.nil_append, List.cons.injEq] at hp
          obtain ⟨rfl, hp'⟩ := hp
          simp only [parseElem]
          exact ih ks' p' tail hp' hf' _ _ _ _ _
        | comment s =>
          simp only [flattenKids, flatten, List.cons_append, List.nil_append, List.cons.injEq] at hp
          obtain ⟨rfl, hp'⟩ := hp
          simp only [parseElem]
          exact ih ks' p' tail hp' hf' _ _ _ _ _
        | procinst a b =>
          simp only [flattenKids, flatten, List.cons_append, List.nil_append, List.cons.injEq] at hp
          obtain ⟨rfl, hp'⟩ := hp
          simp only [parseElem]
          exact ih ks' p' tail hp' hf' _ _ _ _ _
        | directive s =>
          simp only [flattenKids, flatten, List.cons_append, List.nil_append, List.cons.injEq] at hp
          obtain ⟨rfl, hp'⟩ := hp
          simp only [parseElem]
          exact ih ks' p' tail hp' hf' _ _ _ _ _
        | elem sp' name attrs ks'' =>
          simp only [flattenKids, flatten, List.cons_append, List.nil_append, List.append_assoc,
            List.cons.injEq] at hp
          obtain ⟨rfl, hp'⟩ := hp
          simp only [parseElem]
          rcases List.append_eq_append_iff.mp hp' with ⟨a', ha, _⟩ | ⟨c', hc, hc2⟩
          · -- the stream ends inside the child element
            rw [ih ks'' p' a' ha.symm hf' _ _ _ _ _]
            cases fin <;> rfl
          · cases c' with
            | nil =>
              rw [ih ks'' p' [] (by simp [hc]) hf' _ _ _ _ _]
              cases fin <;> rfl
            | cons c c'' =>
              -- the child element is complete; the stream ends among the later siblings
              simp only [List.cons_append, List.cons.injEq] at hc2
              obtain ⟨rfl, hc2⟩ := hc2
              subst hc
              simp only [List.length_append, List.length_cons] at hf'
              have h1 := parse_tree cfg S fin (.elem sp' name attrs ks'')
              simp only at h1
              rw [h1 c'' f (by omega)]
              simp only
              exact ih ks' c'' tail hc2.symm (by omega) _ _ _ _ _

/-- the first call on a non-empty proper prefix of an element's tokens: the root's end tag is
    never reached, the decoder runs off the end of the stream -/
theorem decodeTop_cut (cfg : DecCfg) (S : Strconv) (fin : StreamEnd) (sp name : Str)
    (attrs : List Attr) (kids : List Node) (cut tail : List Tok)
    (hcut : cut ++ tail = flatten (.elem sp name attrs kids)) (hne : cut ≠ []) (htail : tail ≠ [])
    (f : Nat) (hf : cut.length < f) :
    decodeTop cfg S fin f cut = endOut fin := by
  cases cut with
  | nil => exact absurd rfl hne
  | cons tok p =>
    obtain ⟨f, rfl⟩ : ∃ g, f = g + 1 := ⟨f - 1, by omega⟩
    simp only [List.length_cons] at hf
    simp only [flatten, List.cons_append, List.cons.injEq] at hcut
    obtain ⟨rfl, hp⟩ := hcut
    simp only [decodeTop]
    have key : ∃ tl, p ++ tl = flattenKids kids := by
      rcases List.append_eq_append_iff.mp hp with ⟨a', ha, _⟩ | ⟨c', hc, hc2⟩
      · exact ⟨a', ha.symm⟩
      · cases c' with
        | nil => exact ⟨[], by simp [hc]⟩
        | cons c c'' =>
          simp only [List.cons_append, List.cons.injEq] at hc2
          have : c'' ++ tail = [] := hc2.2.symm
          simp only [List.append_eq_nil_iff] at this
          exact absurd this.2 htail
    obtain ⟨tl, htl⟩ := key
    rw [parseElem_cut cfg S fin f kids p tl htl (by omega)]
    cases fin <;> rfl

/-- … behind a separator, with the loop's fuel -/
theorem decodeTop_sep_cut (cfg : DecCfg) (S : Strconv) (fin : StreamEnd) (sep : List Tok)
    (hsep : ∀ t ∈ sep, ¬ isStart t) (sp name : Str)
    (attrs : List Attr) (kids : List Node) (cut tail : List Tok)
    (hcut : cut ++ tail = flatten (.elem sp name attrs kids)) (hne : cut ≠ []) (htail : tail ≠ [])
    (f : Nat) (hf : (sep ++ cut).length < f) :
    decodeTop cfg S fin f (sep ++ cut) = endOut fin := by
  obtain ⟨g, rfl⟩ : ∃ g, f = sep.length + g := ⟨f - sep.length, by
    simp only [List.length_append] at hf; omega⟩
  rw [decodeTop_skip cfg S fin sep hsep]
  refine decodeTop_cut cfg S fin sp name attrs kids cut tail hcut hne htail g ?_
  simp only [List.length_append] at hf
  omega

/-- the round that meets the end of the stream, whatever was left: Maps read so far, and an
    error exactly when the stream ended with the tokenizer's error -/
theorem readMapsXml_endOut (cfg : DecCfg) (S : Strconv) (fin : StreamEnd) (f : Nat)
    (toks : List Tok) (acc : List Val)
    (h : decodeTop cfg S fin (toks.length + 1) toks = endOut fin) :
    readMapsXml cfg S fin (f + 1) toks acc = ⟨acc.reverse, decide (fin = .bad)⟩ := by
  rw [readMapsXml, h]
  cases fin <;> rfl

/-- a proper prefix (possibly empty) of a document's tokens behind its separator: the round
    meets the end of the stream -/
theorem decodeTop_sep_prefix (cfg : DecCfg) (S : Strconv) (fin : StreamEnd) (sep : List Tok)
    (hsep : ∀ t ∈ sep, ¬ isStart t) (t : Node) (ht : isElem t = true) (cut : List Tok)
    (hpre : cut <+: flatten t) (hproper : cut ≠ flatten t) (f : Nat) (hf : (sep ++ cut).length < f) :
    decodeTop cfg S fin f (sep ++ cut) = endOut fin := by
  obtain ⟨tail, htail⟩ := hpre
  have htne : tail ≠ [] := by
    rintro rfl
    rw [List.append_nil] at htail
    exact hproper htail
  by_cases hne : cut = []
  · subst hne
    rw [List.append_nil] at hf ⊢
    exact decodeTop_sep cfg S fin sep hsep f hf
  · cases t with
    | elem sp name attrs kids =>
      exact decodeTop_sep_cut cfg S fin sep hsep sp name attrs kids cut tail htail hne htne f hf
    | text _ => simp [isElem] at ht
    | comment _ => simp [isElem] at ht
    | procinst _ _ => simp [isElem] at ht
    | directive _ => simp [isElem] at ht

/-- truncation: the stream is cut inside (or right before) document `k` — after the first `k`
    documents and the `k`-th separator comes a proper prefix of the `k`-th document's tokens -/
theorem readMapsXml_truncated (cfg : DecCfg) (S : Strconv) (fin : StreamEnd)
    (docs : List (List Tok × Node)) (hwf : WfDocs docs) (k : Nat) (hk : k < docs.length)
    (cut : List Tok) (hpre : cut <+: flatten docs[k].2) (hproper : cut ≠ flatten docs[k].2)
    (f : Nat) (hf : k < f) (acc : List Val) :
    readMapsXml cfg S fin f (fileToks (docs.take k) (docs[k].1 ++ cut)) acc
      = ⟨(((docs.take k).map (fun d => Fold.doc cfg S d.2)).reverse ++ acc).reverse,
          decide (fin = .bad)⟩ := by
  have hlen : (docs.take k).length = k := by rw [List.length_take]; omega
  obtain ⟨g, rfl⟩ : ∃ g, f = (docs.take k).length + (g + 1) := ⟨f - k - 1, by omega⟩
  have hd := hwf docs[k] (List.getElem_mem hk)
  rw [readMapsXml_file cfg S fin (docs.take k) (hwf.take k) (g + 1) _ acc]
  exact readMapsXml_endOut cfg S fin g _ _
    (decodeTop_sep_prefix cfg S fin docs[k].1 hd.1 docs[k].2 hd.2 cut hpre hproper _
      (Nat.lt_succ_self _))

/-! ### the handler form -/

/-- the loop of `HandleXmlReader` with a Map handler that accepts `budget` Maps in all (it
    returns `false` on the `budget`-th, which ends the loop without another read) and an error
    handler that returns `false` (the first error ends the loop); `maps` are the Maps handed to
    the handler -/
def handleXml (cfg : DecCfg) (S : Strconv) (fin : StreamEnd) :
    Nat → Nat → List Tok → List Val → ReadRes
  | 0, _, _, acc => ⟨acc.reverse, true⟩
  | _ + 1, 0, _, acc => ⟨acc.reverse, false⟩
  | f + 1, b + 1, toks, acc =>
    match decodeTop cfg S fin (toks.length + 1) toks with
    | .ok (v, rest) => handleXml cfg S fin f b rest (v :: acc)
    | .eof => ⟨acc.reverse, false⟩
    | _ => ⟨acc.reverse, true⟩

/-- the handler's loop over a well-formed file with budget for every document: like the file
    loop, and it goes on with `trail` and the remaining budget -/
theorem handleXml_file (cfg : DecCfg) (S : Strconv) (fin : StreamEnd) :
    ∀ (docs : List (List Tok × Node)), WfDocs docs →
      ∀ (f b : Nat) (trail : List Tok) (acc : List Val),
      handleXml cfg S fin (docs.length + f) (docs.length + b) (fileToks docs trail) acc
        = handleXml cfg S fin f b trail ((docs.map (fun d => Fold.doc cfg S d.2)).reverse ++ acc)
  | [], _, f, b, trail, acc => by simp [fileToks]
  | (sep, t) :: ds, h, f, b, trail, acc => by
      have hd := h (sep, t) (List.mem_cons_self ..)
      have ih := handleXml_file cfg S fin ds h.tail f b trail (Fold.doc cfg S t :: acc)
      cases t with
      | elem sp name attrs kids =>
        have e : ((sep, Node.elem sp name attrs kids) :: ds).length + f = (ds.length + f) + 1 := by
          simp only [List.length_cons]; omega
        have e' : ((sep, Node.elem sp name attrs kids) :: ds).length + b = (ds.length + b) + 1 := by
          simp only [List.length_cons]; omega
        rw [e, e', handleXml, fileToks_cons]
        rw [decodeTop_doc cfg S fin sep hd.1 sp name attrs kids (fileToks ds trail) _ (Nat.le_succ _)]
        simp only [ih, List.map_cons, List.reverse_cons, List.append_assoc, List.cons_append,
          List.nil_append]
      | text _ => exact absurd hd.2 (by simp [isElem])
      | comment _ => exact absurd hd.2 (by simp [isElem])
      | procinst _ _ => exact absurd hd.2 (by simp [isElem])
      | directive _ => exact absurd hd.2 (by simp [isElem])

/-- with budget left the handler's loop is the file loop (same fuel) -/
theorem handleXml_end (cfg : DecCfg) (S : Strconv) (fin : StreamEnd) (f b : Nat) (trail : List Tok)
    (htrail : ∀ t ∈ trail, ¬ isStart t) (acc : List Val) :
    handleXml cfg S fin (f + 1) (b + 1) trail acc = ⟨acc.reverse, decide (fin = .bad)⟩ := by
  rw [handleXml, decodeTop_sep cfg S fin trail htrail _ (Nat.lt_succ_self _)]
  cases fin <;> rfl

/-- the handler stops after `b` Maps: what follows the `b`-th document is never read -/
theorem handleXml_stops (cfg : DecCfg) (S : Strconv) (fin : StreamEnd)
    (docs : List (List Tok × Node)) (hwf : WfDocs docs) (b : Nat) (hb : b ≤ docs.length)
    (trail : List Tok) (f : Nat) (hf : b < f) (acc : List Val) :
    handleXml cfg S fin f b (fileToks docs trail) acc
      = ⟨(((docs.take b).map (fun d => Fold.doc cfg S d.2)).reverse ++ acc).reverse, false⟩ := by
  have hlen : (docs.take b).length = b := by rw [List.length_take]; omega
  obtain ⟨g, hg⟩ : ∃ g, f = (docs.take b).length + (g + 1) := ⟨f - b - 1, by omega⟩
  have hb' : b = (docs.take b).length + 0 := by omega
  have hsplit : fileToks docs trail = fileToks (docs.take b) (fileToks (docs.drop b) trail) := by
    rw [← fileToks_append, List.take_append_drop]
  rw [hsplit, hg]
  conv => lhs; arg 5; rw [hb']
  rw [handleXml_file cfg S fin (docs.take b) (hwf.take b) (g + 1) 0 _ acc]
  rfl

/-! ### fixtures for the non-vacuity examples of Props/C19ExtXml -/

/-- `<?xml version="1.0"?>␤` -/
def exSep0 : List Tok := [.procinst "xml".toList "version=\"1.0\"".toList, .text "\n".toList]

/-- `␤<!--second-->␤` -/
def exSep1 : List Tok := [.text "\n".toList, .comment "second".toList, .text "\n  ".toList]

/-- `<s><k a="b"/>tail<k>2</k></s>` -/
def exDoc2 : Node :=
  .elem [] "s".toList []
    [ .elem [] "k".toList [⟨[], "a".toList, "b".toList⟩] [], .text "tail".toList,
      .elem [] "k".toList [] [.text "2".toList] ]

/-- three documents: C01's sample tree, `exDoc2` behind a comment, and (directly adjacent, no
    separator) the sample tree with its text first -/
def exDocs : List (List Tok × Node) :=
  [(exSep0, sampleTree), (exSep1, exDoc2), ([], sampleTreeTextFirst)]

/-- `␤<!DOCTYPE x>` after the last document -/
def exTrail : List Tok := [.text "\n".toList, .directive "DOCTYPE x".toList]

end Mxj.Files
