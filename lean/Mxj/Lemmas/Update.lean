/-
  Mxj.Lemmas.Update — helper lemmas for C10 (UpdateValuesForPath).

  Everything lives in `Mxj.Upd` so that the small association-list facts proved here cannot
  clash with same-named lemmas of other lemma files.
-/
import Mxj.Model.Update
import Mxj.Lemmas.PathIdx
namespace Mxj.Upd
open Mxj

/-! ### association lists -/

theorem lookup_insert_self (k : Str) (v : Val) : ∀ kvs : Entries,
    lookup k (insert k v kvs) = some v
  | [] => by simp [insert, lookup]
  | (k', v') :: rest => by
    by_cases h : k = k'
    · simp [insert, lookup, h]
    · simp [insert, lookup, h, lookup_insert_self k v rest]

theorem lookup_insert_ne (k k' : Str) (v : Val) (hne : k' ≠ k) : ∀ kvs : Entries,
    lookup k' (insert k v kvs) = lookup k' kvs
  | [] => by simp [insert, lookup, hne]
  | (k₀, v₀) :: rest => by
    by_cases h : k = k₀
    · subst h; simp [insert, lookup, hne]
    · by_cases h' : k' = k₀
      · simp [insert, lookup, h, h']
      · simp [insert, lookup, h, h', lookup_insert_ne k k' v hne rest]

theorem insert_of_lookup_same (k : Str) (v : Val) : ∀ kvs : Entries,
    lookup k kvs = some v → insert k v kvs = kvs
  | [] => by simp [lookup]
  | (k₀, v₀) :: rest => by
    by_cases h : k = k₀
    · subst h; simp [insert, lookup]; intro e; exact e.symm
    · simp only [insert, lookup, h, if_false]
      intro hl
      rw [insert_of_lookup_same k v rest hl]

theorem insert_insert (k : Str) (a b : Val) : ∀ kvs : Entries,
    insert k b (insert k a kvs) = insert k b kvs
  | [] => by simp [insert]
  | (k₀, v₀) :: rest => by
    by_cases h : k = k₀
    · simp [insert, h]
    · simp [insert, h, insert_insert k a b rest]

theorem keys_insert_of_lookup (k : Str) (v w : Val) : ∀ kvs : Entries,
    lookup k kvs = some w → keys (insert k v kvs) = keys kvs
  | [] => by simp [lookup]
  | (k₀, v₀) :: rest => by
    by_cases h : k = k₀
    · subst h; simp [insert, keys]
    · simp only [insert, lookup, h, if_false, keys, List.map_cons]
      intro hl
      have := keys_insert_of_lookup k v w rest hl
      simp only [keys] at this
      rw [this]

theorem lookup_isSome_of_mem_keys (k : Str) : ∀ kvs : Entries, k ∈ keys kvs → ∃ v, lookup k kvs = some v
  | [] => by simp [keys]
  | (k₀, v₀) :: rest => by
    by_cases h : k = k₀
    · subst h; intro _; exact ⟨v₀, by simp [lookup]⟩
    · intro hm
      simp only [keys, List.map_cons, List.mem_cons, h, false_or] at hm
      obtain ⟨v, hv⟩ := lookup_isSome_of_mem_keys k rest (by simpa [keys] using hm)
      exact ⟨v, by simp [lookup, h, hv]⟩

/-! ### `mapCount` / `mapEntriesCount` -/

theorem mapCount_fst (f : Val → Val × Nat) : ∀ xs : List Val,
    (mapCount f xs).1 = xs.map (fun x => (f x).1)
  | [] => rfl
  | x :: xs => by simp only [mapCount, List.map_cons, mapCount_fst f xs]

theorem mapCount_snd (f : Val → Val × Nat) : ∀ xs : List Val,
    (mapCount f xs).2 = (xs.map (fun x => (f x).2)).sum
  | [] => rfl
  | x :: xs => by simp only [mapCount, List.map_cons, List.sum_cons, mapCount_snd f xs]

theorem mapEntriesCount_fst (f : Val → Val × Nat) : ∀ kvs : Entries,
    (mapEntriesCount f kvs).1 = kvs.map (fun e => (e.1, (f e.2).1))
  | [] => rfl
  | (k, v) :: rest => by simp only [mapEntriesCount, List.map_cons, mapEntriesCount_fst f rest]

theorem mapEntriesCount_snd (f : Val → Val × Nat) : ∀ kvs : Entries,
    (mapEntriesCount f kvs).2 = (kvs.map (fun e => (f e.2).2)).sum
  | [] => rfl
  | (k, v) :: rest => by
    simp only [mapEntriesCount, List.map_cons, List.sum_cons, mapEntriesCount_snd f rest]

/-- a zero total means every element was returned unchanged, provided `f` has that property -/
theorem mapCount_zero (f : Val → Val × Nat) (xs : List Val)
    (hf : ∀ x ∈ xs, (f x).2 = 0 → (f x).1 = x) (h : (mapCount f xs).2 = 0) :
    (mapCount f xs).1 = xs := by
  rw [mapCount_snd, List.sum_eq_zero_iff_forall_eq_nat] at h
  rw [mapCount_fst]
  conv => rhs; rw [← List.map_id xs]
  apply List.map_congr_left
  intro x hx
  exact hf x hx (h _ (List.mem_map.2 ⟨x, hx, rfl⟩))

theorem mapEntriesCount_zero (f : Val → Val × Nat) (kvs : Entries)
    (hf : ∀ e ∈ kvs, (f e.2).2 = 0 → (f e.2).1 = e.2) (h : (mapEntriesCount f kvs).2 = 0) :
    (mapEntriesCount f kvs).1 = kvs := by
  rw [mapEntriesCount_snd, List.sum_eq_zero_iff_forall_eq_nat] at h
  rw [mapEntriesCount_fst]
  conv => rhs; rw [← List.map_id kvs]
  apply List.map_congr_left
  intro e he
  have := hf e he (h _ (List.mem_map.2 ⟨e, he, rfl⟩))
  simp only [this, id]

/-! ### a count of zero leaves everything untouched -/

theorem replaceMembers_zero (value : Val) (subs : SubKeys) (xs : List Val)
    (h : (replaceMembers value subs xs).2 = 0) : (replaceMembers value subs xs).1 = xs := by
  unfold replaceMembers at *
  refine mapCount_zero _ xs ?_ h
  intro x _
  by_cases hs : hasSubKeys x subs = true <;> simp [hs]

theorem setInMembers_zero (key : Str) (value : Val) (subs : SubKeys) (xs : List Val)
    (h : (setInMembers key value subs xs).2 = 0) : (setInMembers key value subs xs).1 = xs := by
  unfold setInMembers at *
  refine mapCount_zero _ xs ?_ h
  intro x _
  cases x with
  | map vv =>
    by_cases hs : ((lookup key vv).isSome && hasSubKeys (Val.map vv) subs) = true <;> simp [hs]
  | _ => simp

/-- the new value (and count) for the entry `k0 ↦ endVal` of a parent map whose own sub-key
    test came out as `hs` — the body of `updAt` without the store -/
def updEnd (key : Str) (value : Val) (subs : SubKeys) (hs : Bool) (k0 : Str) (endVal : Val) :
    Val × Nat :=
  if key = k0 then
    match endVal with
    | .list xs =>
        if hs then (value, 1)
        else (.list (replaceMembers value subs xs).1, (replaceMembers value subs xs).2)
    | _ => if hs then (value, 1) else (endVal, 0)
  else
    match endVal with
    | .map ekvs =>
        if hasSubKeys (.map ekvs) subs && (lookup key ekvs).isSome
        then (.map (insert key value ekvs), 1) else (endVal, 0)
    | .list xs => (.list (setInMembers key value subs xs).1, (setInMembers key value subs xs).2)
    | _ => (endVal, 0)

theorem updEnd_zero (key : Str) (value : Val) (subs : SubKeys) (hs : Bool) (k0 : Str) (e : Val)
    (h : (updEnd key value subs hs k0 e).2 = 0) : (updEnd key value subs hs k0 e).1 = e := by
  unfold updEnd at *
  by_cases hk : key = k0
  · simp only [hk, if_true] at h ⊢
    cases hs
    · cases e with
      | list xs =>
        simp only [Bool.false_eq_true, if_false] at h ⊢
        rw [replaceMembers_zero value subs xs h]
      | _ => simp
    · cases e <;> simp at h
  · simp only [hk, if_false] at h ⊢
    cases e with
    | map ekvs =>
      by_cases hc : (hasSubKeys (Val.map ekvs) subs && (lookup key ekvs).isSome) = true
      · simp [hc] at h
      · simp [hc]
    | list xs =>
      simp only at h ⊢
      rw [setInMembers_zero key value subs xs h]
    | _ => simp

theorem updAt_eq (key : Str) (value : Val) (subs : SubKeys) (kvs : Entries) (k0 : Str) :
    updAt key value subs kvs k0 = match lookup k0 kvs with
      | none => (kvs, 0)
      | some e =>
        (insert k0 (updEnd key value subs (hasSubKeys (.map kvs) subs) k0 e).1 kvs,
         (updEnd key value subs (hasSubKeys (.map kvs) subs) k0 e).2) := by
  unfold updAt
  cases hl : lookup k0 kvs with
  | none => rfl
  | some e =>
    simp only
    have hzero : ∀ c : Nat, ∀ w : Val, (c = 0 → w = e) →
        (if c > 0 then insert k0 w kvs else kvs) = insert k0 w kvs := by
      intro c w hw
      by_cases hc : c > 0
      · simp [hc]
      · have : c = 0 := by omega
        simp only [hc, if_false]
        rw [hw this, insert_of_lookup_same k0 e kvs hl]
    have hsame : insert k0 e kvs = kvs := insert_of_lookup_same k0 e kvs hl
    unfold updEnd
    by_cases hk : key = k0
    · simp only [hk, if_true]
      by_cases hs : hasSubKeys (Val.map kvs) subs = true
      · cases e <;> simp [hs]
      · cases e with
        | list xs =>
          simp only [hs]
          rw [hzero _ _ (fun hc => by rw [replaceMembers_zero value subs xs hc])]
          simp
        | _ => simp [hs, hsame]
    · simp only [hk, if_false]
      cases e with
      | map ekvs =>
        by_cases hc : (hasSubKeys (Val.map ekvs) subs && (lookup key ekvs).isSome) = true
        · simp [hc]
        · simp [hc, hsame]
      | list xs =>
        simp only
        rw [hzero _ _ (fun hc => by rw [setInMembers_zero key value subs xs hc])]
      | _ => simp [hsame]

theorem updAt_zero (key : Str) (value : Val) (subs : SubKeys) (kvs : Entries) (k0 : Str)
    (h : (updAt key value subs kvs k0).2 = 0) : (updAt key value subs kvs k0).1 = kvs := by
  rw [updAt_eq] at h ⊢
  cases hl : lookup k0 kvs with
  | none => rfl
  | some e =>
    simp only [hl] at h ⊢
    rw [updEnd_zero _ _ _ _ _ _ h, insert_of_lookup_same k0 e kvs hl]

/-- one iteration of the `*` loop of `updateValue` -/
def updStep (key : Str) (value : Val) (subs : SubKeys) (acc : Entries × Nat) (k : Str) :
    Entries × Nat :=
  ((updAt key value subs acc.1 k).1, acc.2 + (updAt key value subs acc.1 k).2)

theorem updMap_star (key : Str) (value : Val) (subs : SubKeys) (kvs : Entries) :
    updMap key value subs kvs ['*'] = (keys kvs).foldl (updStep key value subs) (kvs, 0) := by
  simp only [updMap, if_true]
  rfl

theorem updMap_ne_star (key : Str) (value : Val) (subs : SubKeys) (kvs : Entries) (k0 : Str)
    (h : k0 ≠ ['*']) : updMap key value subs kvs k0 = updAt key value subs kvs k0 := by
  simp only [updMap, h, if_false]

theorem updFold_mono (key : Str) (value : Val) (subs : SubKeys) : ∀ (l : List Str) (a : Entries)
    (c : Nat), c ≤ (l.foldl (updStep key value subs) (a, c)).2
  | [], a, c => by simp
  | k :: l, a, c => by
    simp only [List.foldl_cons]
    have := updFold_mono key value subs l (updStep key value subs (a, c) k).1
      (updStep key value subs (a, c) k).2
    simp only [updStep] at this ⊢
    omega

theorem updFold_zero (key : Str) (value : Val) (subs : SubKeys) : ∀ (l : List Str) (a : Entries)
    (c : Nat), (l.foldl (updStep key value subs) (a, c)).2 = c →
      (l.foldl (updStep key value subs) (a, c)).1 = a
  | [], a, c => by simp
  | k :: l, a, c => by
    simp only [List.foldl_cons]
    intro h
    have hm := updFold_mono key value subs l (updStep key value subs (a, c) k).1
      (updStep key value subs (a, c) k).2
    have h0 : (updAt key value subs a k).2 = 0 := by
      simp only [updStep] at hm h
      omega
    have h1 : updStep key value subs (a, c) k = (a, c) := by
      simp only [updStep, h0, updAt_zero key value subs a k h0, Nat.add_zero]
    rw [h1] at h ⊢
    exact updFold_zero key value subs l a c h

theorem updMap_zero (key : Str) (value : Val) (subs : SubKeys) (kvs : Entries) (k0 : Str)
    (h : (updMap key value subs kvs k0).2 = 0) : (updMap key value subs kvs k0).1 = kvs := by
  by_cases hk : k0 = ['*']
  · subst hk
    rw [updMap_star] at h ⊢
    exact updFold_zero key value subs _ kvs 0 h
  · rw [updMap_ne_star _ _ _ _ _ hk] at h ⊢
    exact updAt_zero key value subs kvs k0 h

theorem updValue_zero (key : Str) (value : Val) (subs : SubKeys) (m : Val) (k0 : Str)
    (h : (updValue key value subs m k0).2 = 0) : (updValue key value subs m k0).1 = m := by
  cases m with
  | map kvs =>
    simp only [updValue] at h ⊢
    rw [updMap_zero key value subs kvs k0 h]
  | list xs =>
    simp only [updValue] at h ⊢
    congr 1
    refine mapCount_zero _ xs ?_ h
    intro x _
    cases x with
    | map vv =>
      simp only
      intro hx
      rw [updMap_zero key value subs vv k0 hx]
    | _ => simp
  | _ => simp [updValue]

theorem updPath_zero (key : Str) (value : Val) (subs : SubKeys) : ∀ (ks : List Str) (m : Val),
    (updPath key value subs m ks).2 = 0 → (updPath key value subs m ks).1 = m
  | [], m => by simp [updPath]
  | [k0], m => by
    simp only [updPath]
    exact updValue_zero key value subs m k0
  | k :: k' :: ks, m => by
    have ih := updPath_zero key value subs (k' :: ks)
    by_cases hk : k = ['*']
    · subst hk
      cases m with
      | map kvs =>
        simp only [updPath, if_true]
        intro h
        rw [mapEntriesCount_zero _ kvs (fun e _ => ih e.2) h]
      | list xs =>
        simp only [updPath, if_true]
        intro h
        congr 1
        refine mapCount_zero _ xs ?_ h
        intro x _
        cases x with
        | map kvs =>
          simp only
          intro hx
          rw [mapEntriesCount_zero _ kvs (fun e _ => ih e.2) hx]
        | _ => simp only; exact ih _
      | _ => simp [updPath]
    · cases m with
      | map kvs =>
        simp only [updPath, hk, if_false]
        cases hl : lookup k kvs with
        | none => simp
        | some v =>
          simp only
          intro h
          rw [ih v h, insert_of_lookup_same k v kvs hl]
      | list xs =>
        simp only [updPath, hk, if_false]
        intro h
        congr 1
        refine mapCount_zero _ xs ?_ h
        intro x _
        cases x with
        | map kvs =>
          simp only
          cases hl : lookup k kvs with
          | none => simp
          | some v =>
            simp only
            intro h
            rw [ih v h, insert_of_lookup_same k v kvs hl]
        | _ => simp
      | _ => simp [updPath, hk]

/-! ### the query after the update (no sub-keys, path ends in the key) -/

theorem flatMap_replicate_sum {α : Type} (value : Val) (g : α → List Val) (c : α → Nat) :
    ∀ l : List α, (∀ x ∈ l, g x = List.replicate (c x) value) →
      l.flatMap g = List.replicate (l.map c).sum value
  | [], _ => by simp
  | x :: l, h => by
    simp only [List.flatMap_cons, List.map_cons, List.sum_cons]
    rw [h x (List.mem_cons_self ..), flatMap_replicate_sum value g c l
      (fun y hy => h y (List.mem_cons_of_mem _ hy)), List.replicate_append_replicate]

theorem mapCount_flatMap_replicate (f : Val → Val × Nat) (g : Val → List Val) (value : Val)
    (xs : List Val) (h : ∀ x ∈ xs, g (f x).1 = List.replicate (f x).2 value) :
    (mapCount f xs).1.flatMap g = List.replicate (mapCount f xs).2 value := by
  rw [mapCount_fst, mapCount_snd, List.flatMap_map]
  exact flatMap_replicate_sum value _ (fun x => (f x).2) xs h

theorem mapEntriesCount_flatMap_replicate (f : Val → Val × Nat) (g : Val → List Val) (value : Val)
    (kvs : Entries) (h : ∀ e ∈ kvs, g (f e.2).1 = List.replicate (f e.2).2 value) :
    (mapEntriesCount f kvs).1.flatMap (fun e => g e.2) =
      List.replicate (mapEntriesCount f kvs).2 value := by
  rw [mapEntriesCount_fst, mapEntriesCount_snd, List.flatMap_map]
  exact flatMap_replicate_sum value _ (fun e => (f e.2).2) kvs h

theorem updEnd_self_true (key : Str) (value : Val) (subs : SubKeys) (e : Val) :
    updEnd key value subs true key e = (value, 1) := by
  cases e <;> simp [updEnd]

theorem loadLeaf_none_notList (v : Val) (h : v.isList = false) : loadLeaf none v = [v] := by
  cases v <;> simp [loadLeaf, passSubs, Val.isList] at h ⊢

/-- last step, on the entries of one map -/
theorem query_last_entries (key : Str) (value : Val) (hnl : value.isList = false) (kvs : Entries) :
    (match lookup key (updAt key value [] kvs key).1 with
      | some v => loadLeaf none v
      | none => []) = List.replicate (updAt key value [] kvs key).2 value := by
  rw [updAt_eq]
  cases hl : lookup key kvs with
  | none => simp [hl]
  | some e =>
    simp only [hasSubKeys_nil, updEnd_self_true, lookup_insert_self,
      loadLeaf_none_notList value hnl]
    rfl

theorem query_last (key : Str) (value : Val) (hkey : key ≠ ['*']) (hnl : value.isList = false)
    (m : Val) : walk none (updValue key value [] m key).1 [key] =
      List.replicate (updValue key value [] m key).2 value := by
  cases m with
  | map kvs =>
    simp only [updValue, updMap_ne_star _ _ _ _ _ hkey, walk, hkey, if_false]
    exact query_last_entries key value hnl kvs
  | list xs =>
    simp only [updValue, walk, hkey, if_false]
    refine mapCount_flatMap_replicate _ _ value xs ?_
    intro x _
    cases x with
    | map vv =>
      simp only [updMap_ne_star _ _ _ _ _ hkey]
      exact query_last_entries key value hnl vv
    | _ => simp
  | _ => simp [updValue, walk]

theorem updPath_scalar (key : Str) (value : Val) (subs : SubKeys) (m : Val) (ks : List Str)
    (hm : m.isMap = false) (hl : m.isList = false) : updPath key value subs m ks = (m, 0) := by
  match ks with
  | [] => simp [updPath]
  | [k0] => cases m <;> simp [updPath, updValue, Val.isMap, Val.isList] at hm hl ⊢
  | k :: k' :: ks =>
    by_cases hk : k = ['*'] <;>
      cases m <;> simp [updPath, hk, Val.isMap, Val.isList] at hm hl ⊢

theorem updPath_list (key : Str) (value : Val) (subs : SubKeys) (ys : List Val) (ks : List Str) :
    ∃ r, (updPath key value subs (Val.list ys) ks).1 = Val.list r := by
  match ks with
  | [] => exact ⟨ys, by simp [updPath]⟩
  | [k0] => simp only [updPath, updValue]; exact ⟨_, rfl⟩
  | k :: k' :: ks =>
    by_cases hk : k = ['*']
    · simp only [updPath, hk, if_true]; exact ⟨_, rfl⟩
    · simp only [updPath, hk, if_false]; exact ⟨_, rfl⟩

theorem query_agrees (key : Str) (value : Val) (hkey : key ≠ ['*']) (hnl : value.isList = false) :
    ∀ (ks : List Str) (m : Val), ks.getLast? = some key →
      walk none (updPath key value [] m ks).1 ks =
        List.replicate (updPath key value [] m ks).2 value
  | [], m => by simp
  | [k0], m => by
    intro h
    simp only [List.getLast?_singleton, Option.some.injEq] at h
    subst h
    simp only [updPath]
    exact query_last k0 value hkey hnl m
  | k :: k' :: ks, m => by
    intro h
    rw [List.getLast?_cons_cons] at h
    have ih := fun v => query_agrees key value hkey hnl (k' :: ks) v h
    by_cases hk : k = ['*']
    · subst hk
      cases m with
      | map kvs =>
        simp only [updPath, walk, if_true]
        exact mapEntriesCount_flatMap_replicate _ (fun v => walk none v (k' :: ks)) value kvs
          (fun e _ => ih e.2)
      | list xs =>
        simp only [updPath, walk, if_true]
        refine mapCount_flatMap_replicate _ _ value xs ?_
        intro x _
        cases x with
        | map kvs =>
          simp only
          exact mapEntriesCount_flatMap_replicate _ (fun v => walk none v (k' :: ks)) value kvs
            (fun e _ => ih e.2)
        | list ys =>
          have := ih (Val.list ys)
          obtain ⟨r, hr⟩ := updPath_list key value [] ys (k' :: ks)
          simp only [hr] at this ⊢
          exact this
        | _ =>
          simp only
          rw [updPath_scalar _ _ _ _ _ (by rfl) (by rfl)]
          simp [walk]
      | _ => simp [updPath, walk]
    · cases m with
      | map kvs =>
        simp only [updPath, hk, if_false]
        cases hl : lookup k kvs with
        | none => simp [walk, hk, hl]
        | some v =>
          simp only [walk, hk, if_false, lookup_insert_self]
          exact ih v
      | list xs =>
        simp only [updPath, walk, hk, if_false]
        refine mapCount_flatMap_replicate _ _ value xs ?_
        intro x _
        cases x with
        | map kvs =>
          simp only
          cases hl : lookup k kvs with
          | none => simp [hl]
          | some v =>
            simp only [lookup_insert_self]
            exact ih v
        | _ => simp
      | _ => simp [updPath, walk, hk]

/-! ### ghost model: the written locations -/

/-- write `value` at a location (no-op when the location does not exist) -/
def writeLoc (value : Val) : Val → List Seg → Val
  | _, [] => value
  | .map kvs, .key k :: rest => match lookup k kvs with
      | some v => .map (insert k (writeLoc value v rest) kvs)
      | none => .map kvs
  | .list xs, .idx i :: rest => match xs[i]? with
      | some v => .list (xs.set i (writeLoc value v rest))
      | none => .list xs
  | v, _ => v

/-- write `value` at every location of a list, left to right -/
def writeAll (value : Val) (m : Val) (ls : List (List Seg)) : Val :=
  ls.foldl (writeLoc value) m

/-- neither location is above (or equal to) the other -/
def Incomp (a b : List Seg) : Prop := ¬ a <+: b ∧ ¬ b <+: a

theorem Incomp.symm {a b : List Seg} (h : Incomp a b) : Incomp b a := ⟨h.2, h.1⟩

theorem incomp_cons (s : Seg) (a b : List Seg) : Incomp (s :: a) (s :: b) ↔ Incomp a b := by
  simp [Incomp, List.cons_prefix_cons]

theorem incomp_cons_ne (s t : Seg) (a b : List Seg) (h : s ≠ t) : Incomp (s :: a) (t :: b) := by
  constructor
  · simp [List.cons_prefix_cons, h]
  · simp [List.cons_prefix_cons, Ne.symm h]

theorem getLoc_nil (m : Val) : getLoc m [] = some m := by cases m <;> rfl

theorem writeLoc_nil (value m : Val) : writeLoc value m [] = value := by cases m <;> rfl

theorem getLoc_writeLoc_self (value : Val) : ∀ (l : List Seg) (m : Val),
    (getLoc m l).isSome = true → getLoc (writeLoc value m l) l = some value
  | [], m, _ => by rw [writeLoc_nil, getLoc_nil]
  | .key k :: rest, .map kvs, h => by
    simp only [getLoc, writeLoc] at h ⊢
    cases hl : lookup k kvs with
    | none => simp [hl] at h
    | some v =>
      simp only [hl] at h ⊢
      simp only [getLoc, lookup_insert_self]
      exact getLoc_writeLoc_self value rest v h
  | .idx i :: rest, .list xs, h => by
    simp only [getLoc, writeLoc] at h ⊢
    cases hl : xs[i]? with
    | none => simp [hl] at h
    | some v =>
      simp only [hl] at h ⊢
      have hi : i < xs.length := by
        have := List.getElem?_eq_some_iff.1 hl
        exact this.1
      simp only [getLoc, List.getElem?_set_self hi]
      exact getLoc_writeLoc_self value rest v h
  | .idx i :: rest, .map kvs, h => by simp [getLoc] at h
  | .key k :: rest, .list xs, h => by simp [getLoc] at h
  | _ :: _, .null, h => by simp [getLoc] at h
  | _ :: _, .bool _, h => by simp [getLoc] at h
  | _ :: _, .num _, h => by simp [getLoc] at h
  | _ :: _, .str _, h => by simp [getLoc] at h

theorem getLoc_writeLoc_incomp (value : Val) : ∀ (l q : List Seg) (m : Val),
    Incomp l q → getLoc (writeLoc value m l) q = getLoc m q
  | [], q, m, h => absurd List.nil_prefix h.1
  | _ :: _, [], m, h => absurd List.nil_prefix h.2
  | .key k :: rest, t :: q, .map kvs, h => by
    simp only [writeLoc]
    cases hl : lookup k kvs with
    | none => rfl
    | some v =>
      simp only
      cases t with
      | idx j => simp [getLoc]
      | key k2 =>
        by_cases hk : k2 = k
        · subst hk
          simp only [getLoc, lookup_insert_self, hl]
          exact getLoc_writeLoc_incomp value rest q v ((incomp_cons _ _ _).1 h)
        · simp only [getLoc, lookup_insert_ne k k2 _ hk]
  | .idx i :: rest, t :: q, .list xs, h => by
    simp only [writeLoc]
    cases hl : xs[i]? with
    | none => rfl
    | some v =>
      simp only
      cases t with
      | key k2 => simp [getLoc]
      | idx j =>
        by_cases hj : i = j
        · subst hj
          have hi : i < xs.length := (List.getElem?_eq_some_iff.1 hl).1
          simp only [getLoc, List.getElem?_set_self hi, hl]
          exact getLoc_writeLoc_incomp value rest q v ((incomp_cons _ _ _).1 h)
        · simp only [getLoc, List.getElem?_set_ne hj]
  | .idx i :: rest, _ :: _, .map kvs, _ => by simp [writeLoc]
  | .key k :: rest, _ :: _, .list xs, _ => by simp [writeLoc]
  | _ :: _, _ :: _, .null, _ => by simp [writeLoc]
  | _ :: _, _ :: _, .bool _, _ => by simp [writeLoc]
  | _ :: _, _ :: _, .num _, _ => by simp [writeLoc]
  | _ :: _, _ :: _, .str _, _ => by simp [writeLoc]

theorem writeAll_nil (value m : Val) : writeAll value m [] = m := rfl

theorem writeAll_cons (value m : Val) (l : List Seg) (ls : List (List Seg)) :
    writeAll value m (l :: ls) = writeAll value (writeLoc value m l) ls := rfl

theorem writeAll_append (value m : Val) (a b : List (List Seg)) :
    writeAll value m (a ++ b) = writeAll value (writeAll value m a) b := by
  simp only [writeAll, List.foldl_append]

/-- frame: a location incomparable with everything written keeps its value -/
theorem getLoc_writeAll_incomp (value : Val) (q : List Seg) : ∀ (ls : List (List Seg)) (m : Val),
    (∀ l ∈ ls, Incomp l q) → getLoc (writeAll value m ls) q = getLoc m q
  | [], m, _ => rfl
  | l :: ls, m, h => by
    rw [writeAll_cons, getLoc_writeAll_incomp value q ls _
      (fun l' hl' => h l' (List.mem_cons_of_mem _ hl')),
      getLoc_writeLoc_incomp value l q m (h l (List.mem_cons_self ..))]

/-- every written location holds `value` afterwards -/
theorem getLoc_writeAll_mem (value : Val) : ∀ (ls : List (List Seg)) (m : Val),
    ls.Pairwise Incomp → (∀ l ∈ ls, (getLoc m l).isSome = true) →
      ∀ l ∈ ls, getLoc (writeAll value m ls) l = some value
  | [], _, _, _, l, hl => by simp at hl
  | a :: ls, m, hp, hv, l, hl => by
    rw [List.pairwise_cons] at hp
    rw [writeAll_cons]
    rcases List.mem_cons.1 hl with rfl | hl'
    · rw [getLoc_writeAll_incomp value l ls _ (fun l' hl' => (hp.1 l' hl').symm)]
      exact getLoc_writeLoc_self value l m (hv l (List.mem_cons_self ..))
    · refine getLoc_writeAll_mem value ls _ hp.2 ?_ l hl'
      intro l' hl''
      rw [getLoc_writeLoc_incomp value a l' m (hp.1 l' hl'')]
      exact hv l' (List.mem_cons_of_mem _ hl'')

/-! ### locus combinators -/

/-- loci of the members of a list: member `i`'s loci prefixed by `idx i` (`n` = index of the head) -/
def lociList (f : Val → List (List Seg)) : Nat → List Val → List (List Seg)
  | _, [] => []
  | i, x :: xs => (f x).map (Seg.idx i :: ·) ++ lociList f (i + 1) xs

/-- loci of the entries of a map: entry `k`'s loci prefixed by `key k` -/
def lociEntries (g : Str → Val → List (List Seg)) : Entries → List (List Seg)
  | [] => []
  | (k, v) :: rest => (g k v).map (Seg.key k :: ·) ++ lociEntries g rest

theorem mem_lociList (f : Val → List (List Seg)) (l : List Seg) : ∀ (xs : List Val) (n : Nat),
    l ∈ lociList f n xs → ∃ i x l', xs[i]? = some x ∧ l' ∈ f x ∧ l = Seg.idx (n + i) :: l'
  | [], _, h => by simp [lociList] at h
  | x :: xs, n, h => by
    simp only [lociList, List.mem_append, List.mem_map] at h
    rcases h with ⟨l', hl', rfl⟩ | h
    · exact ⟨0, x, l', by simp, hl', by simp⟩
    · obtain ⟨i, y, l', h1, h2, h3⟩ := mem_lociList f l xs (n + 1) h
      refine ⟨i + 1, y, l', by simpa using h1, h2, ?_⟩
      rw [h3]; congr 2; omega

theorem mem_lociEntries (g : Str → Val → List (List Seg)) (l : List Seg) : ∀ (kvs : Entries),
    l ∈ lociEntries g kvs → ∃ e ∈ kvs, ∃ l' ∈ g e.1 e.2, l = Seg.key e.1 :: l'
  | [], h => by simp [lociEntries] at h
  | (k, v) :: rest, h => by
    simp only [lociEntries, List.mem_append, List.mem_map] at h
    rcases h with ⟨l', hl', rfl⟩ | h
    · exact ⟨(k, v), List.mem_cons_self .., l', hl', rfl⟩
    · obtain ⟨e, he, l', hl', h3⟩ := mem_lociEntries g l rest h
      exact ⟨e, List.mem_cons_of_mem _ he, l', hl', h3⟩

theorem length_lociList (f : Val → List (List Seg)) : ∀ (xs : List Val) (n : Nat),
    (lociList f n xs).length = (xs.map (fun x => (f x).length)).sum
  | [], _ => rfl
  | x :: xs, n => by
    simp only [lociList, List.length_append, List.length_map, List.map_cons, List.sum_cons,
      length_lociList f xs (n + 1)]

theorem length_lociEntries (g : Str → Val → List (List Seg)) : ∀ (kvs : Entries),
    (lociEntries g kvs).length = (kvs.map (fun e => (g e.1 e.2).length)).sum
  | [] => rfl
  | (k, v) :: rest => by
    simp only [lociEntries, List.length_append, List.length_map, List.map_cons, List.sum_cons,
      length_lociEntries g rest]

theorem writeAll_key (value : Val) (k : Str) : ∀ (ls : List (List Seg)) (kvs : Entries) (v : Val),
    lookup k kvs = some v →
      writeAll value (.map kvs) (ls.map (Seg.key k :: ·)) =
        .map (insert k (writeAll value v ls) kvs)
  | [], kvs, v, h => by
    simp only [List.map_nil, writeAll_nil, insert_of_lookup_same k v kvs h]
  | l :: ls, kvs, v, h => by
    simp only [List.map_cons, writeAll_cons, writeLoc, h]
    rw [writeAll_key value k ls _ _ (lookup_insert_self k _ kvs), insert_insert]

theorem writeAll_idx (value : Val) (i : Nat) : ∀ (ls : List (List Seg)) (xs : List Val) (v : Val),
    xs[i]? = some v →
      writeAll value (.list xs) (ls.map (Seg.idx i :: ·)) =
        .list (xs.set i (writeAll value v ls))
  | [], xs, v, h => by
    obtain ⟨hi, hv⟩ := List.getElem?_eq_some_iff.1 h
    simp only [List.map_nil, writeAll_nil, ← hv, List.set_getElem_self]
  | l :: ls, xs, v, h => by
    have hi : i < xs.length := (List.getElem?_eq_some_iff.1 h).1
    simp only [List.map_cons, writeAll_cons, writeLoc, h]
    rw [writeAll_idx value i ls _ _ (List.getElem?_set_self hi), List.set_set]

theorem lookup_append (k : Str) (b : Entries) : ∀ a : Entries,
    lookup k (a ++ b) = match lookup k a with | some v => some v | none => lookup k b
  | [] => rfl
  | (k₀, v₀) :: rest => by
    by_cases h : k = k₀
    · simp [lookup, h]
    · simp only [List.cons_append, lookup, h, if_false]
      exact lookup_append k b rest

theorem insert_append_none (k : Str) (v : Val) (b : Entries) : ∀ a : Entries,
    lookup k a = none → insert k v (a ++ b) = a ++ insert k v b
  | [], _ => rfl
  | (k₀, v₀) :: rest, h => by
    by_cases hk : k = k₀
    · simp [lookup, hk] at h
    · simp only [lookup, hk, if_false] at h
      simp only [List.cons_append, insert, hk, if_false, insert_append_none k v b rest h]

theorem distinctKeys_cons (k : Str) (v : Val) (rest : Entries)
    (h : distinctKeys ((k, v) :: rest) = true) :
    (∀ e ∈ rest, e.1 ≠ k) ∧ distinctKeys rest = true := by
  simp only [distinctKeys, Bool.and_eq_true, Bool.not_eq_true', List.any_eq_false,
    beq_iff_eq] at h
  exact ⟨fun e he => h.1 e he, h.2⟩

theorem lookup_none_of_forall_ne (k : Str) : ∀ kvs : Entries, (∀ e ∈ kvs, e.1 ≠ k) →
    lookup k kvs = none
  | [], _ => rfl
  | (k₀, v₀) :: rest, h => by
    have h0 : k ≠ k₀ := fun e => h (k₀, v₀) (List.mem_cons_self ..) e.symm
    simp only [lookup, h0, if_false]
    exact lookup_none_of_forall_ne k rest (fun e he => h e (List.mem_cons_of_mem _ he))

theorem lookup_of_mem_distinct : ∀ (kvs : Entries) (e : Str × Val), distinctKeys kvs = true →
    e ∈ kvs → lookup e.1 kvs = some e.2
  | [], _, _, h => by simp at h
  | (k₀, v₀) :: rest, e, hd, h => by
    obtain ⟨h1, h2⟩ := distinctKeys_cons k₀ v₀ rest hd
    rcases List.mem_cons.1 h with rfl | h'
    · simp [lookup]
    · have : e.1 ≠ k₀ := h1 e h'
      simp only [lookup, this, if_false]
      exact lookup_of_mem_distinct rest e h2 h'

theorem writeAll_entries_aux (value : Val) (g : Str → Val → List (List Seg)) :
    ∀ (rest pre : Entries), (∀ e ∈ rest, lookup e.1 pre = none) → distinctKeys rest = true →
      writeAll value (.map (pre ++ rest)) (lociEntries g rest) =
        .map (pre ++ rest.map (fun e => (e.1, writeAll value e.2 (g e.1 e.2))))
  | [], pre, _, _ => by simp [lociEntries, writeAll_nil]
  | (k, v) :: rest, pre, hpre, hd => by
    obtain ⟨hne, hd'⟩ := distinctKeys_cons k v rest hd
    have hk : lookup k pre = none := hpre (k, v) (List.mem_cons_self ..)
    have hl : lookup k (pre ++ (k, v) :: rest) = some v := by
      rw [lookup_append, hk]; simp [lookup]
    simp only [lociEntries, writeAll_append]
    rw [writeAll_key value k _ _ _ hl, insert_append_none k _ _ pre hk]
    have e1 : insert k (writeAll value v (g k v)) ((k, v) :: rest)
        = (k, writeAll value v (g k v)) :: rest := by simp [insert]
    rw [e1]
    have e2 : pre ++ (k, writeAll value v (g k v)) :: rest
        = (pre ++ [(k, writeAll value v (g k v))]) ++ rest := by simp
    rw [e2, writeAll_entries_aux value g rest _ ?_ hd']
    · simp
    · intro e he
      have hek : e.1 ≠ k := hne e he
      rw [lookup_append, hpre e (List.mem_cons_of_mem _ he)]
      simp [lookup, hek]

theorem writeAll_entries (value : Val) (g : Str → Val → List (List Seg)) (kvs : Entries)
    (hd : distinctKeys kvs = true) :
    writeAll value (.map kvs) (lociEntries g kvs) =
      .map (kvs.map (fun e => (e.1, writeAll value e.2 (g e.1 e.2)))) := by
  have := writeAll_entries_aux value g kvs [] (fun _ _ => rfl) hd
  simpa using this

theorem writeAll_list_aux (value : Val) (f : Val → List (List Seg)) :
    ∀ (xs pre : List Val),
      writeAll value (.list (pre ++ xs)) (lociList f pre.length xs) =
        .list (pre ++ xs.map (fun x => writeAll value x (f x)))
  | [], pre => by simp [lociList, writeAll_nil]
  | x :: xs, pre => by
    have hl : (pre ++ x :: xs)[pre.length]? = some x := by
      rw [List.getElem?_append_right (Nat.le_refl _)]; simp
    simp only [lociList, writeAll_append]
    rw [writeAll_idx value _ _ _ _ hl, List.set_append_right _ _ (Nat.le_refl _)]
    simp only [Nat.sub_self, List.set_cons_zero]
    have e2 : pre ++ writeAll value x (f x) :: xs = (pre ++ [writeAll value x (f x)]) ++ xs := by
      simp
    have e3 : pre.length + 1 = (pre ++ [writeAll value x (f x)]).length := by simp
    rw [e2, e3, writeAll_list_aux value f xs _]
    simp

theorem writeAll_list (value : Val) (f : Val → List (List Seg)) (xs : List Val) :
    writeAll value (.list xs) (lociList f 0 xs) =
      .list (xs.map (fun x => writeAll value x (f x))) := by
  have := writeAll_list_aux value f xs []
  simpa using this

theorem pairwise_lociEntries (g : Str → Val → List (List Seg)) : ∀ (kvs : Entries),
    distinctKeys kvs = true → (∀ e ∈ kvs, (g e.1 e.2).Pairwise Incomp) →
      (lociEntries g kvs).Pairwise Incomp
  | [], _, _ => by simp [lociEntries]
  | (k, v) :: rest, hd, h => by
    obtain ⟨hne, hd'⟩ := distinctKeys_cons k v rest hd
    simp only [lociEntries]
    rw [List.pairwise_append]
    refine ⟨?_, pairwise_lociEntries g rest hd' (fun e he => h e (List.mem_cons_of_mem _ he)), ?_⟩
    · rw [List.pairwise_map]
      simp only [incomp_cons]
      exact h (k, v) (List.mem_cons_self ..)
    · intro a ha b hb
      obtain ⟨a', _, rfl⟩ := List.mem_map.1 ha
      obtain ⟨e, he, b', _, rfl⟩ := mem_lociEntries g b rest hb
      refine incomp_cons_ne _ _ _ _ ?_
      intro heq
      cases heq
      exact hne e he rfl

theorem pairwise_lociList (f : Val → List (List Seg)) : ∀ (xs : List Val) (n : Nat),
    (∀ x ∈ xs, (f x).Pairwise Incomp) → (lociList f n xs).Pairwise Incomp
  | [], _, _ => by simp [lociList]
  | x :: xs, n, h => by
    simp only [lociList]
    rw [List.pairwise_append]
    refine ⟨?_, pairwise_lociList f xs (n + 1) (fun y hy => h y (List.mem_cons_of_mem _ hy)), ?_⟩
    · rw [List.pairwise_map]
      simp only [incomp_cons]
      exact h x (List.mem_cons_self ..)
    · intro a ha b hb
      obtain ⟨a', _, rfl⟩ := List.mem_map.1 ha
      obtain ⟨i, y, b', _, _, rfl⟩ := mem_lociList f b xs (n + 1) hb
      refine incomp_cons_ne _ _ _ _ ?_
      intro heq
      have := Seg.idx.inj heq
      omega

/-- `r` is `m` with `value` written at exactly the locations `ls` (which exist in `m` and are
    pairwise incomparable), and the count is their number -/
structure Realizes (value : Val) (m : Val) (r : Val × Nat) (ls : List (List Seg)) : Prop where
  count : r.2 = ls.length
  tree : r.1 = writeAll value m ls
  valid : ∀ l ∈ ls, (getLoc m l).isSome = true
  incomp : ls.Pairwise Incomp

theorem Realizes.nil (value m : Val) : Realizes value m (m, 0) [] :=
  ⟨rfl, rfl, by simp, List.Pairwise.nil⟩

theorem Realizes.root (value m : Val) : Realizes value m (value, 1) [[]] :=
  ⟨rfl, by simp [writeAll, writeLoc_nil], by simp [getLoc_nil], by simp⟩

theorem Realizes.key {value v : Val} {r : Val × Nat} {ls : List (List Seg)} (k : Str)
    (kvs : Entries) (h : lookup k kvs = some v) (hr : Realizes value v r ls) :
    Realizes value (.map kvs) (.map (insert k r.1 kvs), r.2) (ls.map (Seg.key k :: ·)) := by
  refine ⟨by simp [hr.count], ?_, ?_, ?_⟩
  · simp only [writeAll_key value k ls kvs v h, hr.tree]
  · intro l hl
    obtain ⟨l', hl', rfl⟩ := List.mem_map.1 hl
    simp only [getLoc, h]
    exact hr.valid l' hl'
  · rw [List.pairwise_map]
    simp only [incomp_cons]
    exact hr.incomp

theorem Realizes.entries (value : Val) (F : Str → Val → Val × Nat)
    (g : Str → Val → List (List Seg)) (kvs : Entries) (hd : distinctKeys kvs = true)
    (h : ∀ e ∈ kvs, Realizes value e.2 (F e.1 e.2) (g e.1 e.2)) :
    Realizes value (.map kvs)
      (.map (kvs.map fun e => (e.1, (F e.1 e.2).1)), (kvs.map fun e => (F e.1 e.2).2).sum)
      (lociEntries g kvs) := by
  refine ⟨?_, ?_, ?_, ?_⟩
  · rw [length_lociEntries]
    simp only
    congr 1
    exact List.map_congr_left (fun e he => (h e he).count)
  · rw [writeAll_entries value g kvs hd]
    simp only
    congr 1
    exact List.map_congr_left (fun e he => by rw [(h e he).tree])
  · intro l hl
    obtain ⟨e, he, l', hl', rfl⟩ := mem_lociEntries g l kvs hl
    simp only [getLoc, lookup_of_mem_distinct kvs e hd he]
    exact (h e he).valid l' hl'
  · exact pairwise_lociEntries g kvs hd (fun e he => (h e he).incomp)

theorem Realizes.list (value : Val) (F : Val → Val × Nat) (f : Val → List (List Seg))
    (xs : List Val) (h : ∀ x ∈ xs, Realizes value x (F x) (f x)) :
    Realizes value (.list xs)
      (.list (xs.map fun x => (F x).1), (xs.map fun x => (F x).2).sum) (lociList f 0 xs) := by
  refine ⟨?_, ?_, ?_, ?_⟩
  · rw [length_lociList]
    simp only
    congr 1
    exact List.map_congr_left (fun x hx => (h x hx).count)
  · rw [writeAll_list value f xs]
    simp only
    congr 1
    exact List.map_congr_left (fun x hx => by rw [(h x hx).tree])
  · intro l hl
    obtain ⟨i, x, l', hx, hl', rfl⟩ := mem_lociList f l xs 0 hl
    simp only [Nat.zero_add, getLoc, hx]
    exact (h x (List.mem_of_getElem? hx)).valid l' hl'
  · exact pairwise_lociList f xs 0 (fun x hx => (h x hx).incomp)

/-- `mapCount` version of `Realizes.list` -/
theorem Realizes.mapCount (value : Val) (F : Val → Val × Nat) (f : Val → List (List Seg))
    (xs : List Val) (h : ∀ x ∈ xs, Realizes value x (F x) (f x)) :
    Realizes value (.list xs) (.list (mapCount F xs).1, (mapCount F xs).2) (lociList f 0 xs) := by
  rw [mapCount_fst, mapCount_snd]
  exact Realizes.list value F f xs h

/-- `mapEntriesCount` version of `Realizes.entries` -/
theorem Realizes.mapEntriesCount (value : Val) (F : Val → Val × Nat)
    (g : Val → List (List Seg)) (kvs : Entries) (hd : distinctKeys kvs = true)
    (h : ∀ e ∈ kvs, Realizes value e.2 (F e.2) (g e.2)) :
    Realizes value (.map kvs) (.map (mapEntriesCount F kvs).1, (mapEntriesCount F kvs).2)
      (lociEntries (fun _ v => g v) kvs) := by
  rw [mapEntriesCount_fst, mapEntriesCount_snd]
  exact Realizes.entries value (fun _ v => F v) (fun _ v => g v) kvs hd h

/-! ### the `*` loop of `updateValue` is an entry-wise map (on distinct keys) -/

theorem distinctKeys_iff_nodup : ∀ kvs : Entries, distinctKeys kvs = true ↔ (keys kvs).Nodup
  | [] => by simp [distinctKeys, keys]
  | (k, v) :: rest => by
    have ih := distinctKeys_iff_nodup rest
    simp only [keys] at ih
    simp only [distinctKeys, keys, List.map_cons, List.nodup_cons, Bool.and_eq_true,
      Bool.not_eq_true', List.any_eq_false, beq_iff_eq, List.mem_map, not_exists, not_and, ih]

/-- what a sub-key condition can see of a value -/
def obs : Val → Option SubVal
  | .str s => some (.str s)
  | .bool b => some (.bool b)
  | .num t => some (.num t)
  | _ => none

theorem subCond_congr (mv mv' : Entries) (k : Str) (sv : SubVal)
    (h : ∀ k', (lookup k' mv).map obs = (lookup k' mv').map obs) :
    subCond mv k sv = subCond mv' k sv := by
  unfold subCond
  simp only
  have hk := h (if hasPrefix ['!'] k = true then List.drop 1 k else k)
  cases h1 : lookup (if hasPrefix ['!'] k = true then List.drop 1 k else k) mv with
  | none =>
    cases h2 : lookup (if hasPrefix ['!'] k = true then List.drop 1 k else k) mv' with
    | none => rfl
    | some b => rw [h1, h2] at hk; simp at hk
  | some a =>
    cases h2 : lookup (if hasPrefix ['!'] k = true then List.drop 1 k else k) mv' with
    | none => rw [h1, h2] at hk; simp at hk
    | some b =>
      rw [h1, h2] at hk
      simp only [Option.map_some, Option.some.injEq] at hk
      simp only
      by_cases hs : sv = SubVal.str ['*']
      · simp [hs]
      · simp only [hs, decide_false, Bool.false_eq_true, if_false]
        cases a <;> cases b <;> (try simp [obs] at hk) <;> cases sv <;> simp_all

theorem hasSubKeys_map_congr (mv mv' : Entries) (subs : SubKeys)
    (h : ∀ k', (lookup k' mv).map obs = (lookup k' mv').map obs) :
    hasSubKeys (.map mv) subs = hasSubKeys (.map mv') subs := by
  unfold hasSubKeys
  by_cases he : subs.isEmpty = true
  · simp [he]
  · simp only [he]
    have : (fun x : Str × SubVal => subCond mv x.fst x.snd)
        = fun x => subCond mv' x.fst x.snd := by
      funext e
      exact subCond_congr mv mv' e.1 e.2 h
    simp only [this]

theorem updEnd_hs_irrel (key : Str) (value : Val) (subs : SubKeys) (hs hs' : Bool) (k0 : Str)
    (e : Val) (h : key ≠ k0) : updEnd key value subs hs k0 e = updEnd key value subs hs' k0 e := by
  simp only [updEnd, h, if_false]

theorem obs_updEnd (key : Str) (value : Val) (subs : SubKeys) (hs : Bool) (k0 : Str)
    (e : Val) (h : key ≠ k0) : obs (updEnd key value subs hs k0 e).1 = obs e := by
  simp only [updEnd, h, if_false]
  cases e with
  | map ekvs =>
    by_cases hc : (hasSubKeys (Val.map ekvs) subs && (lookup key ekvs).isSome) = true <;>
      simp [hc, obs]
  | _ => simp [obs]

/-- entry transformer of the `*` loop -/
def updEntry (key : Str) (value : Val) (subs : SubKeys) (hs : Bool) (e : Str × Val) : Str × Val :=
  (e.1, (updEnd key value subs hs e.1 e.2).1)

theorem lookup_updEntry_obs (key : Str) (value : Val) (subs : SubKeys) (hs : Bool)
    (tail : Entries) (k' : Str) : ∀ pre : Entries, (∀ e ∈ pre, key ≠ e.1) →
      (lookup k' (pre.map (updEntry key value subs hs) ++ tail)).map obs =
        (lookup k' (pre ++ tail)).map obs
  | [], _ => rfl
  | (k₀, v₀) :: pre, h => by
    have h0 : key ≠ k₀ := h (k₀, v₀) (List.mem_cons_self ..)
    by_cases hk : k' = k₀
    · simp [lookup, updEntry, hk, obs_updEnd key value subs hs k₀ v₀ h0]
    · simp only [List.map_cons, List.cons_append, lookup, updEntry, hk, if_false]
      exact lookup_updEntry_obs key value subs hs tail k' pre
        (fun e he => h e (List.mem_cons_of_mem _ he))

theorem updFold_eq (key : Str) (value : Val) (subs : SubKeys) (hs : Bool) :
    ∀ (rest pre : Entries) (c : Nat), (keys (pre ++ rest)).Nodup →
      hs = hasSubKeys (.map (pre ++ rest)) subs →
      (keys rest).foldl (updStep key value subs)
          (pre.map (updEntry key value subs hs) ++ rest, c) =
        (pre.map (updEntry key value subs hs) ++ rest.map (updEntry key value subs hs),
          c + (rest.map (fun e => (updEnd key value subs hs e.1 e.2).2)).sum)
  | [], pre, c, _, _ => by simp [keys]
  | (k, e) :: rest, pre, c, hnd, hhs => by
    have hpre : ∀ e' ∈ pre, e'.1 ≠ k := by
      intro e' he' heq
      simp only [keys, List.map_append, List.map_cons] at hnd
      have := (List.nodup_append.1 hnd).2.2 e'.1 (List.mem_map.2 ⟨e', he', rfl⟩) k
        (List.mem_cons_self ..)
      exact this heq
    have hlk0 : lookup k (pre.map (updEntry key value subs hs)) = none := by
      apply lookup_none_of_forall_ne
      intro e' he'
      obtain ⟨e'', he'', rfl⟩ := List.mem_map.1 he'
      exact hpre e'' he''
    have hlk : lookup k (pre.map (updEntry key value subs hs) ++ (k, e) :: rest) = some e := by
      rw [lookup_append, hlk0]; simp [lookup]
    have hX : updEnd key value subs
        (hasSubKeys (.map (pre.map (updEntry key value subs hs) ++ (k, e) :: rest)) subs) k e
        = updEnd key value subs hs k e := by
      by_cases hk : key = k
      · refine congrArg (fun b => updEnd key value subs b k e) ?_
        refine Eq.trans (hasSubKeys_map_congr _ _ subs ?_) hhs.symm
        intro k'
        exact lookup_updEntry_obs key value subs hs _ k' pre
          (fun e' he' => by rw [hk]; exact fun h => hpre e' he' h.symm)
      · exact updEnd_hs_irrel key value subs _ _ k e hk
    have hstep : updStep key value subs
        (pre.map (updEntry key value subs hs) ++ (k, e) :: rest, c) k =
        ((pre ++ [(k, e)]).map (updEntry key value subs hs) ++ rest,
          c + (updEnd key value subs hs k e).2) := by
      simp only [updStep, updAt_eq, hlk, hX]
      rw [insert_append_none k _ _ _ hlk0]
      simp [insert, updEntry]
    simp only [keys, List.map_cons, List.foldl_cons]
    rw [hstep]
    have ih := updFold_eq key value subs hs rest (pre ++ [(k, e)])
      (c + (updEnd key value subs hs k e).2) (by simpa using hnd) (by simpa using hhs)
    simp only [keys] at ih
    rw [ih]
    simp [updEntry, Nat.add_assoc]

theorem updMap_star_eq (key : Str) (value : Val) (subs : SubKeys) (kvs : Entries)
    (hd : distinctKeys kvs = true) :
    updMap key value subs kvs ['*'] =
      (kvs.map (fun e => (e.1, (updEnd key value subs (hasSubKeys (.map kvs) subs) e.1 e.2).1)),
       (kvs.map (fun e => (updEnd key value subs (hasSubKeys (.map kvs) subs) e.1 e.2).2)).sum) := by
  rw [updMap_star]
  have := updFold_eq key value subs (hasSubKeys (.map kvs) subs) kvs [] 0
    (by simpa using (distinctKeys_iff_nodup kvs).1 hd) (by simp)
  unfold updEntry at this
  simpa using this

/-! ### well-formedness helpers -/

theorem wfEntries_mem : ∀ (kvs : Entries) (e : Str × Val), Val.wfEntries kvs = true → e ∈ kvs →
    e.2.wf = true
  | [], _, _, h => by simp at h
  | (k, v) :: rest, e, hw, h => by
    simp only [Val.wfEntries, Bool.and_eq_true] at hw
    rcases List.mem_cons.1 h with rfl | h'
    · exact hw.1
    · exact wfEntries_mem rest e hw.2 h'

theorem wfEntries_lookup (k : Str) (v : Val) : ∀ kvs : Entries, Val.wfEntries kvs = true →
    lookup k kvs = some v → v.wf = true
  | [], _, h => by simp [lookup] at h
  | (k₀, v₀) :: rest, hw, h => by
    simp only [Val.wfEntries, Bool.and_eq_true] at hw
    by_cases hk : k = k₀
    · simp only [lookup, hk, if_true, Option.some.injEq] at h
      rw [← h]; exact hw.1
    · simp only [lookup, hk, if_false] at h
      exact wfEntries_lookup k v rest hw.2 h

theorem wfList_mem : ∀ (xs : List Val) (x : Val), Val.wfList xs = true → x ∈ xs → x.wf = true
  | [], _, _, h => by simp at h
  | y :: ys, x, hw, h => by
    simp only [Val.wfList, Bool.and_eq_true] at hw
    rcases List.mem_cons.1 h with rfl | h'
    · exact hw.1
    · exact wfList_mem ys x hw.2 h'

theorem wf_map (kvs : Entries) (h : (Val.map kvs).wf = true) :
    Val.wfEntries kvs = true ∧ distinctKeys kvs = true := by
  simpa [Val.wf] using h

theorem wf_list (xs : List Val) (h : (Val.list xs).wf = true) : Val.wfList xs = true := by
  simpa [Val.wf] using h

/-! ### the written locations of the model, independent of the new value -/

/-- `replaceMembers`: the members satisfying the sub-keys -/
def replaceLoci (subs : SubKeys) (xs : List Val) : List (List Seg) :=
  lociList (fun v => if hasSubKeys v subs then [[]] else []) 0 xs

/-- `setInMembers`: entry `key` of the map members holding it and satisfying the sub-keys -/
def setInLoci (key : Str) (subs : SubKeys) (xs : List Val) : List (List Seg) :=
  lociList (fun v => match v with
    | .map vv => if (lookup key vv).isSome && hasSubKeys (.map vv) subs
        then [[Seg.key key]] else []
    | _ => []) 0 xs

/-- loci of `updEnd`, relative to the entry's value -/
def updEndLoci (key : Str) (subs : SubKeys) (hs : Bool) (k0 : Str) (endVal : Val) :
    List (List Seg) :=
  if key = k0 then
    match endVal with
    | .list xs => if hs then [[]] else replaceLoci subs xs
    | _ => if hs then [[]] else []
  else
    match endVal with
    | .map ekvs =>
        if hasSubKeys (.map ekvs) subs && (lookup key ekvs).isSome then [[Seg.key key]] else []
    | .list xs => setInLoci key subs xs
    | _ => []

/-- loci of `updMap` -/
def updMapLoci (key : Str) (subs : SubKeys) (kvs : Entries) (keys0 : Str) : List (List Seg) :=
  if keys0 = ['*'] then
    lociEntries (fun k e => updEndLoci key subs (hasSubKeys (.map kvs) subs) k e) kvs
  else match lookup keys0 kvs with
    | none => []
    | some e => (updEndLoci key subs (hasSubKeys (.map kvs) subs) keys0 e).map (Seg.key keys0 :: ·)

/-- loci of `updValue` -/
def updValueLoci (key : Str) (subs : SubKeys) (m : Val) (keys0 : Str) : List (List Seg) :=
  match m with
  | .map kvs => updMapLoci key subs kvs keys0
  | .list xs => lociList (fun v => match v with
      | .map vv => updMapLoci key subs vv keys0
      | _ => []) 0 xs
  | _ => []

/-- ghost version of `updPath`: the locations it writes (in the order it writes them) -/
def updPathLoci (key : Str) (subs : SubKeys) : Val → List Str → List (List Seg)
  | _, [] => []
  | m, [k0] => updValueLoci key subs m k0
  | m, k :: k' :: ks =>
    if k = ['*'] then
      match m with
      | .map kvs => lociEntries (fun _ v => updPathLoci key subs v (k' :: ks)) kvs
      | .list xs => lociList (fun x => match x with
          | .map kvs => lociEntries (fun _ v => updPathLoci key subs v (k' :: ks)) kvs
          | v => updPathLoci key subs v (k' :: ks)) 0 xs
      | _ => []
    else
      match m with
      | .map kvs => match lookup k kvs with
          | some v => (updPathLoci key subs v (k' :: ks)).map (Seg.key k :: ·)
          | none => []
      | .list xs => lociList (fun x => match x with
          | .map kvs => match lookup k kvs with
              | some v => (updPathLoci key subs v (k' :: ks)).map (Seg.key k :: ·)
              | none => []
          | _ => []) 0 xs
      | _ => []
termination_by _ ks => ks.length
decreasing_by all_goals simp_wf <;> omega

/-! ### the model realises its loci -/

theorem realizes_replaceMembers (value : Val) (subs : SubKeys) (xs : List Val) :
    Realizes value (.list xs)
      (.list (replaceMembers value subs xs).1, (replaceMembers value subs xs).2)
      (replaceLoci subs xs) := by
  unfold replaceMembers replaceLoci
  refine Realizes.mapCount value _ _ xs ?_
  intro x _
  by_cases hs : hasSubKeys x subs = true
  · simp only [hs, if_true]; exact Realizes.root value x
  · simp only [hs]; exact Realizes.nil value x

theorem realizes_setKey (value : Val) (key : Str) (vv : Entries)
    (h : (lookup key vv).isSome = true) :
    Realizes value (.map vv) (.map (insert key value vv), 1) [[Seg.key key]] := by
  obtain ⟨w, hw⟩ := Option.isSome_iff_exists.1 h
  exact Realizes.key key vv hw (Realizes.root value w)

theorem realizes_setInMembers (key : Str) (value : Val) (subs : SubKeys) (xs : List Val) :
    Realizes value (.list xs)
      (.list (setInMembers key value subs xs).1, (setInMembers key value subs xs).2)
      (setInLoci key subs xs) := by
  unfold setInMembers setInLoci
  refine Realizes.mapCount value _ _ xs ?_
  intro x _
  cases x with
  | map vv =>
    by_cases hc : ((lookup key vv).isSome && hasSubKeys (Val.map vv) subs) = true
    · simp only [hc, if_true]
      simp only [Bool.and_eq_true] at hc
      exact realizes_setKey value key vv hc.1
    · simp only [hc]; exact Realizes.nil value _
  | _ => exact Realizes.nil value _

theorem realizes_updEnd (key : Str) (value : Val) (subs : SubKeys) (hs : Bool) (k0 : Str)
    (e : Val) : Realizes value e (updEnd key value subs hs k0 e) (updEndLoci key subs hs k0 e) := by
  unfold updEnd updEndLoci
  by_cases hk : key = k0
  · simp only [hk, if_true]
    cases hs
    · cases e with
      | list xs =>
        simp only [Bool.false_eq_true, if_false]
        exact realizes_replaceMembers value subs xs
      | _ => simp only [Bool.false_eq_true, if_false]; exact Realizes.nil value _
    · cases e <;> simp only [if_true] <;> exact Realizes.root value _
  · simp only [hk, if_false]
    cases e with
    | map ekvs =>
      by_cases hc : (hasSubKeys (Val.map ekvs) subs && (lookup key ekvs).isSome) = true
      · simp only [hc, if_true]
        simp only [Bool.and_eq_true] at hc
        exact realizes_setKey value key ekvs hc.2
      · simp only [hc]; exact Realizes.nil value _
    | list xs => exact realizes_setInMembers key value subs xs
    | _ => exact Realizes.nil value _

theorem realizes_updMap (key : Str) (value : Val) (subs : SubKeys) (kvs : Entries) (k0 : Str)
    (hd : distinctKeys kvs = true) :
    Realizes value (.map kvs)
      (.map (updMap key value subs kvs k0).1, (updMap key value subs kvs k0).2)
      (updMapLoci key subs kvs k0) := by
  unfold updMapLoci
  by_cases hk : k0 = ['*']
  · subst hk
    simp only [if_true, updMap_star_eq key value subs kvs hd]
    exact Realizes.entries value
      (fun k e => updEnd key value subs (hasSubKeys (.map kvs) subs) k e) _ kvs hd
      (fun e _ => realizes_updEnd key value subs _ e.1 e.2)
  · simp only [hk, if_false, updMap_ne_star _ _ _ _ _ hk, updAt_eq]
    cases hl : lookup k0 kvs with
    | none => exact Realizes.nil value _
    | some e => exact Realizes.key k0 kvs hl (realizes_updEnd key value subs _ k0 e)

theorem realizes_updValue (key : Str) (value : Val) (subs : SubKeys) (m : Val) (k0 : Str)
    (hw : m.wf = true) :
    Realizes value m (updValue key value subs m k0) (updValueLoci key subs m k0) := by
  unfold updValue updValueLoci
  cases m with
  | map kvs => exact realizes_updMap key value subs kvs k0 (wf_map kvs hw).2
  | list xs =>
    refine Realizes.mapCount value _ _ xs ?_
    intro x hx
    cases x with
    | map vv =>
      exact realizes_updMap key value subs vv k0 (wf_map vv (wfList_mem xs _ (wf_list xs hw) hx)).2
    | _ => exact Realizes.nil value _
  | _ => exact Realizes.nil value _

theorem realizes_updPath (key : Str) (value : Val) (subs : SubKeys) : ∀ (ks : List Str) (m : Val),
    m.wf = true →
      Realizes value m (updPath key value subs m ks) (updPathLoci key subs m ks)
  | [], m, _ => by
    simp only [updPath, updPathLoci]
    exact Realizes.nil value m
  | [k0], m, hw => by
    simp only [updPath, updPathLoci]
    exact realizes_updValue key value subs m k0 hw
  | k :: k' :: ks, m, hw => by
    have ih := realizes_updPath key value subs (k' :: ks)
    by_cases hk : k = ['*']
    · subst hk
      cases m with
      | map kvs =>
        obtain ⟨hwe, hd⟩ := wf_map kvs hw
        simp only [updPath, updPathLoci, if_true]
        exact Realizes.mapEntriesCount value _ _ kvs hd
          (fun e he => ih e.2 (wfEntries_mem kvs e hwe he))
      | list xs =>
        have hwl := wf_list xs hw
        simp only [updPath, updPathLoci, if_true]
        refine Realizes.mapCount value _ _ xs ?_
        intro x hx
        have hwx := wfList_mem xs x hwl hx
        cases x with
        | map kvs =>
          obtain ⟨hwe, hd⟩ := wf_map kvs hwx
          exact Realizes.mapEntriesCount value _ _ kvs hd
            (fun e he => ih e.2 (wfEntries_mem kvs e hwe he))
        | _ => exact ih _ hwx
      | _ =>
        simp only [updPath, updPathLoci, if_true]
        exact Realizes.nil value _
    · cases m with
      | map kvs =>
        obtain ⟨hwe, hd⟩ := wf_map kvs hw
        simp only [updPath, updPathLoci, hk, if_false]
        cases hl : lookup k kvs with
        | none => exact Realizes.nil value _
        | some v => exact Realizes.key k kvs hl (ih v (wfEntries_lookup k v kvs hwe hl))
      | list xs =>
        have hwl := wf_list xs hw
        simp only [updPath, updPathLoci, hk, if_false]
        refine Realizes.mapCount value _ _ xs ?_
        intro x hx
        have hwx := wfList_mem xs x hwl hx
        cases x with
        | map kvs =>
          obtain ⟨hwe, hd⟩ := wf_map kvs hwx
          simp only
          cases hl : lookup k kvs with
          | none => exact Realizes.nil value _
          | some v => exact Realizes.key k kvs hl (ih v (wfEntries_lookup k v kvs hwe hl))
        | _ => exact Realizes.nil value _
      | _ =>
        simp only [updPath, updPathLoci, hk, if_false]
        exact Realizes.nil value _

/-! ### every written locus is an entry named `key`, or a member of the list stored there -/

/-- the location is `… .key` or `… .key[i]` -/
def underKey (key : Str) (l : List Seg) : Prop :=
  (∃ pre, l = pre ++ [Seg.key key]) ∨ (∃ pre i, l = pre ++ [Seg.key key, Seg.idx i])

theorem underKey_cons (key : Str) (s : Seg) (l : List Seg) (h : underKey key l) :
    underKey key (s :: l) := by
  rcases h with ⟨pre, rfl⟩ | ⟨pre, i, rfl⟩
  · exact Or.inl ⟨s :: pre, rfl⟩
  · exact Or.inr ⟨s :: pre, i, rfl⟩

theorem underKey_lociList (key : Str) (f : Val → List (List Seg)) (xs : List Val) (n : Nat)
    (h : ∀ x ∈ xs, ∀ l ∈ f x, underKey key l) : ∀ l ∈ lociList f n xs, underKey key l := by
  intro l hl
  obtain ⟨i, x, l', hx, hl', rfl⟩ := mem_lociList f l xs n hl
  exact underKey_cons key _ _ (h x (List.mem_of_getElem? hx) l' hl')

theorem underKey_lociEntries (key : Str) (g : Str → Val → List (List Seg)) (kvs : Entries)
    (h : ∀ e ∈ kvs, ∀ l ∈ g e.1 e.2, underKey key l) :
    ∀ l ∈ lociEntries g kvs, underKey key l := by
  intro l hl
  obtain ⟨e, he, l', hl', rfl⟩ := mem_lociEntries g l kvs hl
  exact underKey_cons key _ _ (h e he l' hl')

theorem underKey_updEndLoci (key : Str) (subs : SubKeys) (hs : Bool) (k0 : Str) (e : Val) :
    ∀ l ∈ updEndLoci key subs hs k0 e, underKey key (Seg.key k0 :: l) := by
  intro l hl
  unfold updEndLoci at hl
  by_cases hk : key = k0
  · subst hk
    simp only [if_true] at hl
    have hroot : ∀ l : List Seg, l ∈ [([] : List Seg)] → underKey key (Seg.key key :: l) := by
      intro l hl
      simp only [List.mem_singleton] at hl
      subst hl
      exact Or.inl ⟨[], rfl⟩
    cases hs
    · cases e with
      | list xs =>
        simp only [Bool.false_eq_true, if_false, replaceLoci] at hl
        obtain ⟨i, x, l', _, hl', rfl⟩ := mem_lociList _ l xs 0 hl
        by_cases hc : hasSubKeys x subs = true
        · simp only [hc, if_true, List.mem_singleton] at hl'
          subst hl'
          exact Or.inr ⟨[], _, rfl⟩
        · simp [hc] at hl'
      | _ => simp at hl
    · cases e <;> exact hroot l (by simpa using hl)
  · simp only [hk, if_false] at hl
    apply underKey_cons
    cases e with
    | map ekvs =>
      by_cases hc : (hasSubKeys (Val.map ekvs) subs && (lookup key ekvs).isSome) = true
      · simp only [hc, if_true, List.mem_singleton] at hl
        subst hl
        exact Or.inl ⟨[], rfl⟩
      · simp [hc] at hl
    | list xs =>
      simp only [setInLoci] at hl
      refine underKey_lociList key _ xs 0 ?_ l hl
      intro x _ l' hl'
      cases x with
      | map vv =>
        by_cases hc : ((lookup key vv).isSome && hasSubKeys (Val.map vv) subs) = true
        · simp only [hc, if_true, List.mem_singleton] at hl'
          subst hl'
          exact Or.inl ⟨[], rfl⟩
        · simp [hc] at hl'
      | _ => simp at hl'
    | _ => simp at hl

theorem underKey_updMapLoci (key : Str) (subs : SubKeys) (kvs : Entries) (k0 : Str) :
    ∀ l ∈ updMapLoci key subs kvs k0, underKey key l := by
  intro l hl
  unfold updMapLoci at hl
  by_cases hk : k0 = ['*']
  · simp only [hk, if_true] at hl
    obtain ⟨e, _, l', hl', rfl⟩ := mem_lociEntries _ l kvs hl
    exact underKey_updEndLoci key subs _ e.1 e.2 l' hl'
  · simp only [hk, if_false] at hl
    cases hlk : lookup k0 kvs with
    | none => simp [hlk] at hl
    | some e =>
      simp only [hlk, List.mem_map] at hl
      obtain ⟨l', hl', rfl⟩ := hl
      exact underKey_updEndLoci key subs _ k0 e l' hl'

theorem underKey_updValueLoci (key : Str) (subs : SubKeys) (m : Val) (k0 : Str) :
    ∀ l ∈ updValueLoci key subs m k0, underKey key l := by
  unfold updValueLoci
  cases m with
  | map kvs => exact underKey_updMapLoci key subs kvs k0
  | list xs =>
    refine underKey_lociList key _ xs 0 ?_
    intro x _
    cases x with
    | map vv => exact underKey_updMapLoci key subs vv k0
    | _ => simp
  | _ => simp

theorem underKey_updPathLoci (key : Str) (subs : SubKeys) : ∀ (ks : List Str) (m : Val),
    ∀ l ∈ updPathLoci key subs m ks, underKey key l
  | [], m => by simp [updPathLoci]
  | [k0], m => by
    simp only [updPathLoci]
    exact underKey_updValueLoci key subs m k0
  | k :: k' :: ks, m => by
    have ih := underKey_updPathLoci key subs (k' :: ks)
    have hmap : ∀ (k : Str) (v : Val), ∀ l ∈ (updPathLoci key subs v (k' :: ks)).map (Seg.key k :: ·),
        underKey key l := by
      intro k v l hl
      obtain ⟨l', hl', rfl⟩ := List.mem_map.1 hl
      exact underKey_cons key _ _ (ih v l' hl')
    by_cases hk : k = ['*']
    · subst hk
      cases m with
      | map kvs =>
        simp only [updPathLoci, if_true]
        exact underKey_lociEntries key _ kvs (fun e _ => ih e.2)
      | list xs =>
        simp only [updPathLoci, if_true]
        refine underKey_lociList key _ xs 0 ?_
        intro x _
        cases x with
        | map kvs => exact underKey_lociEntries key _ kvs (fun e _ => ih e.2)
        | _ => exact ih _
      | _ => simp [updPathLoci]
    · cases m with
      | map kvs =>
        simp only [updPathLoci, hk, if_false]
        cases hl : lookup k kvs with
        | none => simp
        | some v => exact hmap k v
      | list xs =>
        simp only [updPathLoci, hk, if_false]
        refine underKey_lociList key _ xs 0 ?_
        intro x _
        cases x with
        | map kvs =>
          simp only
          cases hl : lookup k kvs with
          | none => simp
          | some v => exact hmap k v
        | _ => simp
      | _ => simp [updPathLoci, hk]

/-! ### the count in terms of the nodes the path addresses (last path key ≠ the new key) -/

/-- a node that gets its `key` entry replaced: a map holding `key` and satisfying the sub-keys -/
def holds (key : Str) (subs : SubKeys) : Val → Bool
  | .map vv => (lookup key vv).isSome && hasSubKeys (.map vv) subs
  | _ => false

theorem mapCount_count (f : Val → Val × Nat) (g : Val → List Val) (P : Val → Bool) :
    ∀ xs : List Val, (∀ x ∈ xs, (f x).2 = ((g x).filter P).length) →
      (mapCount f xs).2 = ((xs.flatMap g).filter P).length
  | [], _ => rfl
  | x :: xs, h => by
    simp only [mapCount, List.flatMap_cons, List.filter_append, List.length_append]
    rw [h x (List.mem_cons_self ..),
      mapCount_count f g P xs (fun y hy => h y (List.mem_cons_of_mem _ hy))]

theorem mapEntriesCount_count (f : Val → Val × Nat) (g : Val → List Val) (P : Val → Bool) :
    ∀ kvs : Entries, (∀ e ∈ kvs, (f e.2).2 = ((g e.2).filter P).length) →
      (mapEntriesCount f kvs).2 = ((kvs.flatMap fun e => g e.2).filter P).length
  | [], _ => rfl
  | (k, v) :: rest, h => by
    simp only [mapEntriesCount, List.flatMap_cons, List.filter_append, List.length_append]
    rw [h (k, v) (List.mem_cons_self ..),
      mapEntriesCount_count f g P rest (fun y hy => h y (List.mem_cons_of_mem _ hy))]

theorem setInMembers_count (key : Str) (value : Val) (subs : SubKeys) (xs : List Val) :
    (setInMembers key value subs xs).2 = (xs.filter (holds key subs)).length := by
  unfold setInMembers
  refine (mapCount_count _ (fun x => [x]) (holds key subs) xs ?_).trans (by simp)
  intro x _
  cases x with
  | map vv =>
    by_cases hc : ((lookup key vv).isSome && hasSubKeys (Val.map vv) subs) = true
    · simp [hc, holds]
    · simp [hc, holds]
  | _ => simp [holds]

/-- last step, on the entries of one map -/
theorem count_last_entries (key : Str) (value : Val) (subs : SubKeys) (k0 : Str)
    (hne : key ≠ k0) (kvs : Entries) :
    (updAt key value subs kvs k0).2 =
      ((match lookup k0 kvs with
        | some v => loadLeaf none v
        | none => []).filter (holds key subs)).length := by
  rw [updAt_eq]
  cases hl : lookup k0 kvs with
  | none => rfl
  | some e =>
    simp only [updEnd, hne, if_false]
    cases e with
    | map ekvs =>
      by_cases hc : (hasSubKeys (Val.map ekvs) subs && (lookup key ekvs).isSome) = true
      · have hc' : holds key subs (Val.map ekvs) = true := by
          simp only [holds]; rw [Bool.and_comm]; exact hc
        simp [hc, loadLeaf, passSubs, hc']
      · have hc' : holds key subs (Val.map ekvs) = false := by
          simp only [holds]; rw [Bool.and_comm]; simpa using hc
        simp [hc, loadLeaf, passSubs, hc']
    | list xs =>
      have hx : xs.filter (passSubs none) = xs := List.filter_eq_self.2 (fun _ _ => rfl)
      simp only [setInMembers_count, loadLeaf, hx]
    | _ => simp [loadLeaf, holds]

theorem count_last (key : Str) (value : Val) (subs : SubKeys) (k0 : Str) (hk0 : k0 ≠ ['*'])
    (hne : key ≠ k0) (m : Val) :
    (updValue key value subs m k0).2 = ((walk none m [k0]).filter (holds key subs)).length := by
  cases m with
  | map kvs =>
    simp only [updValue, updMap_ne_star _ _ _ _ _ hk0, walk, hk0, if_false]
    exact count_last_entries key value subs k0 hne kvs
  | list xs =>
    simp only [updValue, walk, hk0, if_false]
    refine mapCount_count _ _ _ xs ?_
    intro x _
    cases x with
    | map vv =>
      simp only [updMap_ne_star _ _ _ _ _ hk0]
      exact count_last_entries key value subs k0 hne vv
    | _ => simp
  | _ => simp [updValue, walk]

theorem count_addressed (key : Str) (value : Val) (subs : SubKeys) (k0 : Str) (hk0 : k0 ≠ ['*'])
    (hne : key ≠ k0) : ∀ (ks : List Str) (m : Val), ks.getLast? = some k0 →
      (updPath key value subs m ks).2 = ((walk none m ks).filter (holds key subs)).length
  | [], m => by simp
  | [k], m => by
    intro h
    simp only [List.getLast?_singleton, Option.some.injEq] at h
    subst h
    simp only [updPath]
    exact count_last key value subs k hk0 hne m
  | k :: k' :: ks, m => by
    intro h
    rw [List.getLast?_cons_cons] at h
    have ih := fun v => count_addressed key value subs k0 hk0 hne (k' :: ks) v h
    by_cases hk : k = ['*']
    · subst hk
      cases m with
      | map kvs =>
        simp only [updPath, walk, if_true]
        exact mapEntriesCount_count _ (fun v => walk none v (k' :: ks)) _ kvs (fun e _ => ih e.2)
      | list xs =>
        simp only [updPath, walk, if_true]
        refine mapCount_count _ _ _ xs ?_
        intro x _
        cases x with
        | map kvs =>
          simp only
          exact mapEntriesCount_count _ (fun v => walk none v (k' :: ks)) _ kvs
            (fun e _ => ih e.2)
        | _ => exact ih _
      | _ => simp [updPath, walk]
    · cases m with
      | map kvs =>
        simp only [updPath, walk, hk, if_false]
        cases hl : lookup k kvs with
        | none => simp
        | some v => exact ih v
      | list xs =>
        simp only [updPath, walk, hk, if_false]
        refine mapCount_count _ _ _ xs ?_
        intro x _
        cases x with
        | map kvs =>
          simp only
          cases hl : lookup k kvs with
          | none => simp
          | some v => exact ih v
        | _ => simp
      | _ => simp [updPath, walk, hk]
