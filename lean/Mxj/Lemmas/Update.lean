/-
  Mxj.Lemmas.Update — helper lemmas for C10 (UpdateValuesForPath).

  Everything lives in `Mxj.Upd` so that the small association-list facts proved here cannot
  clash with same-named lemmas of other lemma files.
-/
import Mxj.Model.Update
import Mxj.Lemmas.PathIdx
namespace Mxj.Upd
open Mxj

/-! ### association lists -/

theorem lookup_insert_self (k : Str) (v : Val) : ∀ kvs : Entries,
    lookup k (insert k v kvs) = some v
  | [] => by simp [insert, lookup]
  | (k', v') :: rest => by
    by_cases h : k = k'
    · simp [insert, lookup, h]
    · simp [insert, lookup, h, lookup_insert_self k v rest]

theorem lookup_insert_ne (k k' : Str) (v : Val) (hne : k' ≠ k) : ∀ kvs : Entries,
    lookup k' (insert k v kvs) = lookup k' kvs
  | [] => by simp [insert, lookup, hne]
  | (k₀, v₀) :: rest => by
    by_cases h : k = k₀
    · subst h; simp [insert, lookup, hne]
    · by_cases h' : k' = k₀
      · simp [insert, lookup, h, h']
      · simp [insert, lookup, h, h', lookup_insert_ne k k' v hne rest]

theorem insert_of_lookup_same (k : Str) (v : Val) : ∀ kvs : Entries,
    lookup k kvs = some v → insert k v kvs = kvs
  | [] => by simp [lookup]
  | (k₀, v₀) :: rest => by
    by_cases h : k = k₀
    · subst h; simp [insert, lookup]; intro e; exact e.symm
    · simp only [insert, lookup, h, if_false]
      intro hl
      rw [insert_of_lookup_same k v rest hl]

theorem insert_insert (k : Str) (a b : Val) : ∀ kvs : Entries,
    insert k b (insert k a kvs) = insert k b kvs
  | [] => by simp [insert]
  | (k₀, v₀) :: rest => by
    by_cases h : k = k₀
    · simp [insert, h]
    · simp [insert, h, insert_insert k a b rest]

theorem keys_insert_of_lookup (k : Str) (v w : Val) : ∀ kvs : Entries,
    lookup k kvs = some w → keys (insert k v kvs) = keys kvs
  | [] => by simp [lookup]
  | (k₀, v₀) :: rest => by
    by_cases h : k = k₀
    · subst h; simp [insert, keys]
    · simp only [insert, lookup, h, if_false, keys, List.map_cons]
      intro hl
      have := keys_insert_of_lookup k v w rest hl
      simp only [keys] at this
      rw [this]

theorem lookup_isSome_of_mem_keys (k : Str) : ∀ kvs : Entries, k ∈ keys kvs → ∃ v, lookup k kvs = some v
  | [] => by simp [keys]
  | (k₀, v₀) :: rest => by
    by_cases h : k = k₀
    · subst h; intro _; exact ⟨v₀, by simp [lookup]⟩
    · intro hm
      simp only [keys, List.map_cons, List.mem_cons, h, false_or] at hm
      obtain ⟨v, hv⟩ := lookup_isSome_of_mem_keys k rest (by simpa [keys] using hm)
      exact ⟨v, by simp [lookup, h, hv]⟩

/-! ### `mapCount` / `mapEntriesCount` -/

theorem mapCount_fst (f : Val → Val × Nat) : ∀ xs : List Val,
    (mapCount f xs).1 = xs.map (fun x => (f x).1)
  | [] => rfl
  | x :: xs => by simp only [mapCount, List.map_cons, mapCount_fst f xs]

theorem mapCount_snd (f : Val → Val × Nat) : ∀ xs : List Val,
    (mapCount f xs).2 = (xs.map (fun x => (f x).2)).sum
  | [] => rfl
  | x :: xs => by simp only [mapCount, List.map_cons, List.sum_cons, mapCount_snd f xs]

theorem mapEntriesCount_fst (f : Val → Val × Nat) : ∀ kvs : Entries,
    (mapEntriesCount f kvs).1 = kvs.map (fun e => (e.1, (f e.2).1))
  | [] => rfl
  | (k, v) :: rest => by simp only [mapEntriesCount, List.map_cons, mapEntriesCount_fst f rest]

theorem mapEntriesCount_snd (f : Val → Val × Nat) : ∀ kvs : Entries,
    (mapEntriesCount f kvs).2 = (kvs.map (fun e => (f e.2).2)).sum
  | [] => rfl
  | (k, v) :: rest => by
    simp only [mapEntriesCount, List.map_cons, List.sum_cons, mapEntriesCount_snd f rest]

/-- a zero total means every element was returned unchanged, provided `f` has that property -/
theorem mapCount_zero (f : Val → Val × Nat) (xs : List Val)
    (hf : ∀ x ∈ xs, (f x).2 = 0 → (f x).1 = x) (h : (mapCount f xs).2 = 0) :
    (mapCount f xs).1 = xs := by
  rw [mapCount_snd, List.sum_eq_zero_iff_forall_eq_nat] at h
  rw [mapCount_fst]
  conv => rhs; rw [← List.map_id xs]
  apply List.map_congr_left
  intro x hx
  exact hf x hx (h _ (List.mem_map.2 ⟨x, hx, rfl⟩))

theorem mapEntriesCount_zero (f : Val → Val × Nat) (kvs : Entries)
    (hf : ∀ e ∈ kvs, (f e.2).2 = 0 → (f e.2).1 = e.2) (h : (mapEntriesCount f kvs).2 = 0) :
    (mapEntriesCount f kvs).1 = kvs := by
  rw [mapEntriesCount_snd, List.sum_eq_zero_iff_forall_eq_nat] at h
  rw [mapEntriesCount_fst]
  conv => rhs; rw [← List.map_id kvs]
  apply List.map_congr_left
  intro e he
  have := hf e he (h _ (List.mem_map.2 ⟨e, he, rfl⟩))
  simp only [this, id]

/-! ### a count of zero leaves everything untouched -/

theorem replaceMembers_zero (value : Val) (subs : SubKeys) (xs : List Val)
    (h : (replaceMembers value subs xs).2 = 0) : (replaceMembers value subs xs).1 = xs := by
  unfold replaceMembers at *
  refine mapCount_zero _ xs ?_ h
  intro x _
  by_cases hs : hasSubKeys x subs = true <;> simp [hs]

theorem setInMembers_zero (key : Str) (value : Val) (subs : SubKeys) (xs : List Val)
    (h : (setInMembers key value subs xs).2 = 0) : (setInMembers key value subs xs).1 = xs := by
  unfold setInMembers at *
  refine mapCount_zero _ xs ?_ h
  intro x _
  cases x with
  | map vv =>
    by_cases hs : ((lookup key vv).isSome && hasSubKeys (Val.map vv) subs) = true <;> simp [hs]
  | _ => simp

/-- the new value (and count) for the entry `k0 ↦ endVal` of a parent map whose own sub-key
    test came out as `hs` — the body of `updAt` without the store -/
def updEnd (key : Str) (value : Val) (subs : SubKeys) (hs : Bool) (k0 : Str) (endVal : Val) :
    Val × Nat :=
  if key = k0 then
    match endVal with
    | .list xs =>
        if hs then (value, 1)
        else (.list (replaceMembers value subs xs).1, (replaceMembers value subs xs).2)
    | _ => if hs then (value, 1) else (endVal, 0)
  else
    match endVal with
    | .map ekvs =>
        if hasSubKeys (.map ekvs) subs && (lookup key ekvs).isSome
        then (.map (insert key value ekvs), 1) else (endVal, 0)
    | .list xs => (.list (setInMembers key value subs xs).1, (setInMembers key value subs xs).2)
    | _ => (endVal, 0)

theorem updEnd_zero (key : Str) (value : Val) (subs : SubKeys) (hs : Bool) (k0 : Str) (e : Val)
    (h : (updEnd key value subs hs k0 e).2 = 0) : (updEnd key value subs hs k0 e).1 = e := by
  unfold updEnd at *
  by_cases hk : key = k0
  · simp only [hk, if_true] at h ⊢
    cases hs
    · cases e with
      | list xs =>
        simp only [Bool.false_eq_true, if_false] at h ⊢
        rw [replaceMembers_zero value subs xs h]
      | _ => simp
    · cases e <;> simp at h
  · simp only [hk, if_false] at h ⊢
    cases e with
    | map ekvs =>
      by_cases hc : (hasSubKeys (Val.map ekvs) subs && (lookup key ekvs).isSome) = true
      · simp [hc] at h
      · simp [hc]
    | list xs =>
      simp only at h ⊢
      rw [setInMembers_zero key value subs xs h]
    | _ => simp

theorem updAt_eq (key : Str) (value : Val) (subs : SubKeys) (kvs : Entries) (k0 : Str) :
    updAt key value subs kvs k0 = match lookup k0 kvs with
      | none => (kvs, 0)
      | some e =>
        (insert k0 (updEnd key value subs (hasSubKeys (.map kvs) subs) k0 e).1 kvs,
         (updEnd key value subs (hasSubKeys (.map kvs) subs) k0 e).2) := by
  unfold updAt
  cases hl : lookup k0 kvs with
  | none => rfl
  | some e =>
    simp only
    have hzero : ∀ c : Nat, ∀ w : Val, (c = 0 → w = e) →
        (if c > 0 then insert k0 w kvs else kvs) = insert k0 w kvs := by
      intro c w hw
      by_cases hc : c > 0
      · simp [hc]
      · have : c = 0 := by omega
        simp only [hc, if_false]
        rw [hw this, insert_of_lookup_same k0 e kvs hl]
    have hsame : insert k0 e kvs = kvs := insert_of_lookup_same k0 e kvs hl
    unfold updEnd
    by_cases hk : key = k0
    · simp only [hk, if_true]
      by_cases hs : hasSubKeys (Val.map kvs) subs = true
      · cases e <;> simp [hs]
      · cases e with
        | list xs =>
          simp only [hs]
          rw [hzero _ _ (fun hc => by rw [replaceMembers_zero value subs xs hc])]
          simp
        | _ => simp [hs, hsame]
    · simp only [hk, if_false]
      cases e with
      | map ekvs =>
        by_cases hc : (hasSubKeys (Val.map ekvs) subs && (lookup key ekvs).isSome) = true
        · simp [hc]
        · simp [hc, hsame]
      | list xs =>
        simp only
        rw [hzero _ _ (fun hc => by rw [setInMembers_zero key value subs xs hc])]
      | _ => simp [hsame]

theorem updAt_zero (key : Str) (value : Val) (subs : SubKeys) (kvs : Entries) (k0 : Str)
    (h : (updAt key value subs kvs k0).2 = 0) : (updAt key value subs kvs k0).1 = kvs := by
  rw [updAt_eq] at h ⊢
  cases hl : lookup k0 kvs with
  | none => rfl
  | some e =>
    simp only [hl] at h ⊢
    rw [updEnd_zero _ _ _ _ _ _ h, insert_of_lookup_same k0 e kvs hl]

/-- one iteration of the `*` loop of `updateValue` -/
def updStep (key : Str) (value : Val) (subs : SubKeys) (acc : Entries × Nat) (k : Str) :
    Entries × Nat :=
  ((updAt key value subs acc.1 k).1, acc.2 + (updAt key value subs acc.1 k).2)

theorem updMap_star (key : Str) (value : Val) (subs : SubKeys) (kvs : Entries) :
    updMap key value subs kvs ['*'] = (keys kvs).foldl (updStep key value subs) (kvs, 0) := by
  simp only [updMap, if_true]
  rfl

theorem updMap_ne_star (key : Str) (value : Val) (subs : SubKeys) (kvs : Entries) (k0 : Str)
    (h : k0 ≠ ['*']) : updMap key value subs kvs k0 = updAt key value subs kvs k0 := by
  simp only [updMap, h, if_false]

theorem updFold_mono (key : Str) (value : Val) (subs : SubKeys) : ∀ (l : List Str) (a : Entries)
    (c : Nat), c ≤ (l.foldl (updStep key value subs) (a, c)).2
  | [], a, c => by simp
  | k :: l, a, c => by
    simp only [List.foldl_cons]
    have := updFold_mono key value subs l (updStep key value subs (a, c) k).1
      (updStep key value subs (a, c) k).2
    simp only [updStep] at this ⊢
    omega

theorem updFold_zero (key : Str) (value : Val) (subs : SubKeys) : ∀ (l : List Str) (a : Entries)
    (c : Nat), (l.foldl (updStep key value subs) (a, c)).2 = c →
      (l.foldl (updStep key value subs) (a, c)).1 = a
  | [], a, c => by simp
  | k :: l, a, c => by
    simp only [List.foldl_cons]
    intro h
    have hm := updFold_mono key value subs l (updStep key value subs (a, c) k).1
      (updStep key value subs (a, c) k).2
    have h0 : (updAt key value subs a k).2 = 0 := by
      simp only [updStep] at hm h
      omega
    have h1 : updStep key value subs (a, c) k = (a, c) := by
      simp only [updStep, h0, updAt_zero key value subs a k h0, Nat.add_zero]
    rw [h1] at h ⊢
    exact updFold_zero key value subs l a c h

theorem updMap_zero (key : Str) (value : Val) (subs : SubKeys) (kvs : Entries) (k0 : Str)
    (h : (updMap key value subs kvs k0).2 = 0) : (updMap key value subs kvs k0).1 = kvs := by
  by_cases hk : k0 = ['*']
  · subst hk
    rw [updMap_star] at h ⊢
    exact updFold_zero key value subs _ kvs 0 h
  · rw [updMap_ne_star _ _ _ _ _ hk] at h ⊢
    exact updAt_zero key value subs kvs k0 h

theorem updValue_zero (key : Str) (value : Val) (subs : SubKeys) (m : Val) (k0 : Str)
    (h : (updValue key value subs m k0).2 = 0) : (updValue key value subs m k0).1 = m := by
  cases m with
  | map kvs =>
    simp only [updValue] at h ⊢
    rw [updMap_zero key value subs kvs k0 h]
  | list xs =>
    simp only [updValue] at h ⊢
    congr 1
    refine mapCount_zero _ xs ?_ h
    intro x _
    cases x with
    | map vv =>
      simp only
      intro hx
      rw [updMap_zero key value subs vv k0 hx]
    | _ => simp
  | _ => simp [updValue]

theorem updPath_zero (key : Str) (value : Val) (subs : SubKeys) : ∀ (ks : List Str) (m : Val),
    (updPath key value subs m ks).2 = 0 → (updPath key value subs m ks).1 = m
  | [], m => by simp [updPath]
  | [k0], m => by
    simp only [updPath]
    exact updValue_zero key value subs m k0
  | k :: k' :: ks, m => by
    have ih := updPath_zero key value subs (k' :: ks)
    by_cases hk : k = ['*']
    · subst hk
      cases m with
      | map kvs =>
        simp only [updPath, if_true]
        intro h
        rw [mapEntriesCount_zero _ kvs (fun e _ => ih e.2) h]
      | list xs =>
        simp only [updPath, if_true]
        intro h
        congr 1
        refine mapCount_zero _ xs ?_ h
        intro x _
        cases x with
        | map kvs =>
          simp only
          intro hx
          rw [mapEntriesCount_zero _ kvs (fun e _ => ih e.2) hx]
        | _ => simp only; exact ih _
      | _ => simp [updPath]
    · cases m with
      | map kvs =>
        simp only [updPath, hk, if_false]
        cases hl : lookup k kvs with
        | none => simp
        | some v =>
          simp only
          intro h
          rw [ih v h, insert_of_lookup_same k v kvs hl]
      | list xs =>
        simp only [updPath, hk, if_false]
        intro h
        congr 1
        refine mapCount_zero _ xs ?_ h
        intro x _
        cases x with
        | map kvs =>
          simp only
          cases hl : lookup k kvs with
          | none => simp
          | some v =>
            simp only
            intro h
            rw [ih v h, insert_of_lookup_same k v kvs hl]
        | _ => simp
      | _ => simp [updPath, hk]

/-! ### the query after the update (no sub-keys, path ends in the key) -/

theorem flatMap_replicate_sum {α : Type} (value : Val) (g : α → List Val) (c : α → Nat) :
    ∀ l : List α, (∀ x ∈ l, g x = List.replicate (c x) value) →
      l.flatMap g = List.replicate (l.map c).sum value
  | [], _ => by simp
  | x :: l, h => by
    simp only [List.flatMap_cons, List.map_cons, List.sum_cons]
    rw [h x (List.mem_cons_self ..), flatMap_replicate_sum value g c l
      (fun y hy => h y (List.mem_cons_of_mem _ hy)), List.replicate_append_replicate]

theorem mapCount_flatMap_replicate (f : Val → Val × Nat) (g : Val → List Val) (value : Val)
    (xs : List Val) (h : ∀ x ∈ xs, g (f x).1 = List.replicate (f x).2 value) :
    (mapCount f xs).1.flatMap g = List.replicate (mapCount f xs).2 value := by
  rw [mapCount_fst, mapCount_snd, List.flatMap_map]
  exact flatMap_replicate_sum value _ (fun x => (f x).2) xs h

theorem mapEntriesCount_flatMap_replicate (f : Val → Val × Nat) (g : Val → List Val) (value : Val)
    (kvs : Entries) (h : ∀ e ∈ kvs, g (f e.2).1 = List.replicate (f e.2).2 value) :
    (mapEntriesCount f kvs).1.flatMap (fun e => g e.2) =
      List.replicate (mapEntriesCount f kvs).2 value := by
  rw [mapEntriesCount_fst, mapEntriesCount_snd, List.flatMap_map]
  exact flatMap_replicate_sum value _ (fun e => (f e.2).2) kvs h

theorem updEnd_self_true (key : Str) (value : Val) (subs : SubKeys) (e : Val) :
    updEnd key value subs true key e = (value, 1) := by
  cases e <;> simp [updEnd]

theorem loadLeaf_none_notList (v : Val) (h : v.isList = false) : loadLeaf none v = [v] := by
  cases v <;> simp [loadLeaf, passSubs, Val.isList] at h ⊢

/-- last step, on the entries of one map -/
theorem query_last_entries (key : Str) (value : Val) (hnl : value.isList = false) (kvs : Entries) :
    (match lookup key (updAt key value [] kvs key).1 with
      | some v => loadLeaf none v
      | none => []) = List.replicate (updAt key value [] kvs key).2 value := by
  rw [updAt_eq]
  cases hl : lookup key kvs with
  | none => simp [hl]
  | some e =>
    simp only [hasSubKeys_nil, updEnd_self_true, lookup_insert_self,
      loadLeaf_none_notList value hnl]
    rfl

theorem query_last (key : Str) (value : Val) (hkey : key ≠ ['*']) (hnl : value.isList = false)
    (m : Val) : walk none (updValue key value [] m key).1 [key] =
      List.replicate (updValue key value [] m key).2 value := by
  cases m with
  | map kvs =>
    simp only [updValue, updMap_ne_star _ _ _ _ _ hkey, walk, hkey, if_false]
    exact query_last_entries key value hnl kvs
  | list xs =>
    simp only [updValue, walk, hkey, if_false]
    refine mapCount_flatMap_replicate _ _ value xs ?_
    intro x _
    cases x with
    | map vv =>
      simp only [updMap_ne_star _ _ _ _ _ hkey]
      exact query_last_entries key value hnl vv
    | _ => simp
  | _ => simp [updValue, walk]

theorem updPath_scalar (key : Str) (value : Val) (subs : SubKeys) (m : Val) (ks : List Str)
    (hm : m.isMap = false) (hl : m.isList = false) : updPath key value subs m ks = (m, 0) := by
  match ks with
  | [] => simp [updPath]
  | [k0] => cases m <;> simp [updPath, updValue, Val.isMap, Val.isList] at hm hl ⊢
  | k :: k' :: ks =>
    by_cases hk : k = ['*'] <;>
      cases m <;> simp [updPath, hk, Val.isMap, Val.isList] at hm hl ⊢

theorem updPath_list (key : Str) (value : Val) (subs : SubKeys) (ys : List Val) (ks : List Str) :
    ∃ r, (updPath key value subs (Val.list ys) ks).1 = Val.list r := by
  match ks with
  | [] => exact ⟨ys, by simp [updPath]⟩
  | [k0] => simp only [updPath, updValue]; exact ⟨_, rfl⟩
  | k :: k' :: ks =>
    by_cases hk : k = ['*']
    · simp only [updPath, hk, if_true]; exact ⟨_, rfl⟩
    · simp only [updPath, hk, if_false]; exact ⟨_, rfl⟩

theorem query_agrees (key : Str) (value : Val) (hkey : key ≠ ['*']) (hnl : value.isList = false) :
    ∀ (ks : List Str) (m : Val), ks.getLast? = some key →
      walk none (updPath key value [] m ks).1 ks =
        List.replicate (updPath key value [] m ks).2 value
  | [], m => by simp
  | [k0], m => by
    intro h
    simp only [List.getLast?_singleton, Option.some.injEq] at h
    subst h
    simp only [updPath]
    exact query_last k0 value hkey hnl m
  | k :: k' :: ks, m => by
    intro h
    rw [List.getLast?_cons_cons] at h
    have ih := fun v => query_agrees key value hkey hnl (k' :: ks) v h
    by_cases hk : k = ['*']
    · subst hk
      cases m with
      | map kvs =>
        simp only [updPath, walk, if_true]
        exact mapEntriesCount_flatMap_replicate _ (fun v => walk none v (k' :: ks)) value kvs
          (fun e _ => ih e.2)
      | list xs =>
        simp only [updPath, walk, if_true]
        refine mapCount_flatMap_replicate _ _ value xs ?_
        intro x _
        cases x with
        | map kvs =>
          simp only
          exact mapEntriesCount_flatMap_replicate _ (fun v => walk none v (k' :: ks)) value kvs
            (fun e _ => ih e.2)
        | list ys =>
          have := ih (Val.list ys)
          obtain ⟨r, hr⟩ := updPath_list key value [] ys (k' :: ks)
          simp only [hr] at this ⊢
          exact this
        | _ =>
          simp only
          rw [updPath_scalar _ _ _ _ _ (by rfl) (by rfl)]
          simp [walk]
      | _ => simp [updPath, walk]
    · cases m with
      | map kvs =>
        simp only [updPath, hk, if_false]
        cases hl : lookup k kvs with
        | none => simp [walk, hk, hl]
        | some v =>
          simp only [walk, hk, if_false, lookup_insert_self]
          exact ih v
      | list xs =>
        simp only [updPath, walk, hk, if_false]
        refine mapCount_flatMap_replicate _ _ value xs ?_
        intro x _
        cases x with
        | map kvs =>
          simp only
          cases hl : lookup k kvs with
          | none => simp [hl]
          | some v =>
            simp only [lookup_insert_self]
            exact ih v
        | _ => simp
      | _ => simp [updPath, walk, hk]

/-! ### ghost model: the written locations -/

/-- write `value` at a location (no-op when the location does not exist) -/
def writeLoc (value : Val) : Val → List Seg → Val
  | _, [] => value
  | .map kvs, .key k :: rest => match lookup k kvs with
      | some v => .map (insert k (writeLoc value v rest) kvs)
      | none => .map kvs
  | .list xs, .idx i :: rest => match xs[i]? with
      | some v => .list (xs.set i (writeLoc value v rest))
      | none => .list xs
  | v, _ => v

/-- write `value` at every location of a list, left to right -/
def writeAll (value : Val) (m : Val) (ls : List (List Seg)) : Val :=
  ls.foldl (writeLoc value) m

/-- neither location is above (or equal to) the other -/
def Incomp (a b : List Seg) : Prop := ¬ a <+: b ∧ ¬ b <+: a

theorem Incomp.symm {a b : List Seg} (h : Incomp a b) : Incomp b a := ⟨h.2, h.1⟩

theorem incomp_cons (s : Seg) (a b : List Seg) : Incomp (s :: a) (s :: b) ↔ Incomp a b := by
  simp [Incomp, List.cons_prefix_cons]

theorem incomp_cons_ne (s t : Seg) (a b : List Seg) (h : s ≠ t) : Incomp (s :: a) (t :: b) := by
  constructor
  · simp [List.cons_prefix_cons, h]
  · simp [List.cons_prefix_cons, Ne.symm h]

theorem getLoc_nil (m : Val) : getLoc m [] = some m := by cases m <;> rfl

theorem writeLoc_nil (value m : Val) : writeLoc value m [] = value := by cases m <;> rfl

theorem getLoc_writeLoc_self (value : Val) : ∀ (l : List Seg) (m : Val),
    (getLoc m l).isSome = true → getLoc (writeLoc value m l) l = some value
  | [], m, _ => by rw [writeLoc_nil, getLoc_nil]
  | .key k :: rest, .map kvs, h => by
    simp only [getLoc, writeLoc] at h ⊢
    cases hl : lookup k kvs with
    | none => simp [hl] at h
    | some v =>
      simp only [hl] at h ⊢
      simp only [getLoc, lookup_insert_self]
      exact getLoc_writeLoc_self value rest v h
  | .idx i :: rest, .list xs, h => by
    simp only [getLoc, writeLoc] at h ⊢
    cases hl : xs[i]? with
    | none => simp [hl] at h
    | some v =>
      simp only [hl] at h ⊢
      have hi : i < xs.length := by
        have := List.getElem?_eq_some_iff.1 hl
        exact this.1
      simp only [getLoc, List.getElem?_set_self hi]
      exact getLoc_writeLoc_self value rest v h
  | .idx i :: rest, .map kvs, h => by simp [getLoc] at h
  | .key k :: rest, .list xs, h => by simp [getLoc] at h
  | _ :: _, .null, h => by simp [getLoc] at h
  | _ :: _, .bool _, h => by simp [getLoc] at h
  | _ :: _, .num _, h => by simp [getLoc] at h
  | _ :: _, .str _, h => by simp [getLoc] at h

theorem getLoc_writeLoc_incomp (value : Val) : ∀ (l q : List Seg) (m : Val),
    Incomp l q → getLoc (writeLoc value m l) q = getLoc m q
  | [], q, m, h => absurd List.nil_prefix h.1
  | _ :: _, [], m, h => absurd List.nil_prefix h.2
  | .key k :: rest, t :: q, .map kvs, h => by
    simp only [writeLoc]
    cases hl : lookup k kvs with
    | none => rfl
    | some v =>
      simp only
      cases t with
      | idx j => simp [getLoc]
      | key k2 =>
        by_cases hk : k2 = k
        · subst hk
          simp only [getLoc, lookup_insert_self, hl]
          exact getLoc_writeLoc_incomp value rest q v ((incomp_cons _ _ _).1 h)
        · simp only [getLoc, lookup_insert_ne k k2 _ hk]
  | .idx i :: rest, t :: q, .list xs, h => by
    simp only [writeLoc]
    cases hl : xs[i]? with
    | none => rfl
    | some v =>
      simp only
      cases t with
      | key k2 => simp [getLoc]
      | idx j =>
        by_cases hj : i = j
        · subst hj
          have hi : i < xs.length := (List.getElem?_eq_some_iff.1 hl).1
          simp only [getLoc, List.getElem?_set_self hi, hl]
          exact getLoc_writeLoc_incomp value rest q v ((incomp_cons _ _ _).1 h)
        · simp only [getLoc, List.getElem?_set_ne hj]
  | .idx i :: rest, _ :: _, .map kvs, _ => by simp [writeLoc]
  | .key k :: rest, _ :: _, .list xs, _ => by simp [writeLoc]
  | _ :: _, _ :: _, .null, _ => by simp [writeLoc]
  | _ :: _, _ :: _, .bool _, _ => by simp [writeLoc]
  | _ :: _, _ :: _, .num _, _ => by simp [writeLoc]
  | _ :: _, _ :: _, .str _, _ => by simp [writeLoc]

theorem writeAll_nil (value m : Val) : writeAll value m [] = m := rfl

theorem writeAll_cons (value m : Val) (l : List Seg) (ls : List (List Seg)) :
    writeAll value m (l :: ls) = writeAll value (writeLoc value m l) ls := rfl

theorem writeAll_append (value m : Val) (a b : List (List Seg)) :
    writeAll value m (a ++ b) = writeAll value (writeAll value m a) b := by
  simp only [writeAll, List.foldl_append]

/-- frame: a location incomparable with everything written keeps its value -/
theorem getLoc_writeAll_incomp (value : Val) (q : List Seg) : ∀ (ls : List (List Seg)) (m : Val),
    (∀ l ∈ ls, Incomp l q) → getLoc (writeAll value m ls) q = getLoc m q
  | [], m, _ => rfl
  | l :: ls, m, h => by
    rw [writeAll_cons, getLoc_writeAll_incomp value q ls _
      (fun l' hl' => h l' (List.mem_cons_of_mem _ hl')),
      getLoc_writeLoc_incomp value l q m (h l (List.mem_cons_self ..))]

/-- every written location holds `value` afterwards -/
theorem getLoc_writeAll_mem (value : Val) : ∀ (ls : List (List Seg)) (m : Val),
    ls.Pairwise Incomp → (∀ l ∈ ls, (getLoc m l).isSome = true) →
      ∀ l ∈ ls, getLoc (writeAll value m ls) l = some value
  | [], _, _, _, l, hl => by simp at hl
  | a :: ls, m, hp, hv, l, hl => by
    rw [List.pairwise_cons] at hp
    rw [writeAll_cons]
    rcases List.mem_cons.1 hl with rfl | hl'
    · rw [getLoc_writeAll_incomp value l ls _ (fun l' hl' => (hp.1 l' hl').symm)]
      exact getLoc_writeLoc_self value l m (hv l (List.mem_cons_self ..))
    · refine getLoc_writeAll_mem value ls _ hp.2 ?_ l hl'
      intro l' hl''
      rw [getLoc_writeLoc_incomp value a l' m (hp.1 l' hl'')]
      exact hv l' (List.mem_cons_of_mem _ hl'')

/-! ### locus combinators -/

/-- loci of the members of a list: member `i`'s loci prefixed by `idx i` (`n` = index of the head) -/
def lociList (f : Val → List (List Seg)) : Nat → List Val → List (List Seg)
  | _, [] => []
  | i, x :: xs => (f x).map (Seg.idx i :: ·) ++ lociList f (i + 1) xs

/-- loci of the entries of a map: entry `k`'s loci prefixed by `key k` -/
def lociEntries (g : Str → Val → List (List Seg)) : Entries → List (List Seg)
  | [] => []
  | (k, v) :: rest => (g k v).map (Seg.key k :: ·) ++ lociEntries g rest

theorem mem_lociList (f : Val → List (List Seg)) (l : List Seg) : ∀ (xs : List Val) (n : Nat),
    l ∈ lociList f n xs → ∃ i x l', xs[i]? = some x ∧ l' ∈ f x ∧ l = Seg.idx (n + i) :: l'
  | [], _, h => by simp [lociList] at h
  | x :: xs, n, h => by
    simp only [lociList, List.mem_append, List.mem_map] at h
    rcases h with ⟨l', hl', rfl⟩ | h
    · exact ⟨0, x, l', by simp, hl', by simp⟩
    · obtain ⟨i, y, l', h1, h2, h3⟩ := mem_lociList f l xs (n + 1) h
      refine ⟨i + 1, y, l', by simpa using h1, h2, ?_⟩
      rw [h3]; congr 2; omega

theorem mem_lociEntries (g : Str → Val → List (List Seg)) (l : List Seg) : ∀ (kvs : Entries),
    l ∈ lociEntries g kvs → ∃ e ∈ kvs, ∃ l' ∈ g e.1 e.2, l = Seg.key e.1 :: l'
  | [], h => by simp [lociEntries] at h
  | (k, v) :: rest, h => by
    simp only [lociEntries, List.mem_append, List.mem_map] at h
    rcases h with ⟨l', hl', rfl⟩ | h
    · exact ⟨(k, v), List.mem_cons_self .., l', hl', rfl⟩
    · obtain ⟨e, he, l', hl', h3⟩ := mem_lociEntries g l rest h
      exact ⟨e, List.mem_cons_of_mem _ he, l', hl', h3⟩

theorem length_lociList (f : Val → List (List Seg)) : ∀ (xs : List Val) (n : Nat),
    (lociList f n xs).length = (xs.map (fun x => (f x).length)).sum
  | [], _ => rfl
  | x :: xs, n => by
    simp only [lociList, List.length_append, List.length_map, List.map_cons, List.sum_cons,
      length_lociList f xs (n + 1)]

theorem length_lociEntries (g : Str → Val → List (List Seg)) : ∀ (kvs : Entries),
    (lociEntries g kvs).length = (kvs.map (fun e => (g e.1 e.2).length)).sum
  | [] => rfl
  | (k, v) :: rest => by
    simp only [lociEntries, List.length_append, List.length_map, List.map_cons, List.sum_cons,
      length_lociEntries g rest]

theorem writeAll_key (value : Val) (k : Str) : ∀ (ls : List (List Seg)) (kvs : Entries) (v : Val),
    lookup k kvs = some v →
      writeAll value (.map kvs) (ls.map (Seg.key k :: ·)) =
        .map (insert k (writeAll value v ls) kvs)
  | [], kvs, v, h => by
    simp only [List.map_nil, writeAll_nil, insert_of_lookup_same k v kvs h]
  | l :: ls, kvs, v, h => by
    simp only [List.map_cons, writeAll_cons, writeLoc, h]
    rw [writeAll_key value k ls _ _ (lookup_insert_self k _ kvs), insert_insert]

theorem writeAll_idx (value : Val) (i : Nat) : ∀ (ls : List (List Seg)) (xs : List Val) (v : Val),
    xs[i]? = some v →
      writeAll value (.list xs) (ls.map (Seg.idx i :: ·)) =
        .list (xs.set i (writeAll value v ls))
  | [], xs, v, h => by
    obtain ⟨hi, hv⟩ := List.getElem?_eq_some_iff.1 h
    simp only [List.map_nil, writeAll_nil, ← hv, List.set_getElem_self]
  | l :: ls, xs, v, h => by
    have hi : i < xs.length := (List.getElem?_eq_some_iff.1 h).1
    simp only [List.map_cons, writeAll_cons, writeLoc, h]
    rw [writeAll_idx value i ls _ _ (List.getElem?_set_self hi), List.set_set]

theorem lookup_append (k : Str) (b : Entries) : ∀ a : Entries,
    lookup k (a ++ b) = match lookup k a with | some v => some v | none => lookup k b
  | [] => rfl
  | (k₀, v₀) :: rest => by
    by_cases h : k = k₀
    · simp [lookup, h]
    · simp only [List.cons_append, lookup, h, if_false]
      exact lookup_append k b rest

theorem insert_append_none (k : Str) (v : Val) (b : Entries) : ∀ a : Entries,
    lookup k a = none → insert k v (a ++ b) = a ++ insert k v b
  | [], _ => rfl
  | (k₀, v₀) :: rest, h => by
    by_cases hk : k = k₀
    · simp [lookup, hk] at h
    · simp only [lookup, hk, if_false] at h
      simp only [List.cons_append, insert, hk, if_false, insert_append_none k v b rest h]

theorem distinctKeys_cons (k : Str) (v : Val) (rest : Entries)
    (h : distinctKeys ((k, v) :: rest) = true) :
    (∀ e ∈ rest, e.1 ≠ k) ∧ distinctKeys rest = true := by
  simp only [distinctKeys, Bool.and_eq_true, Bool.not_eq_true', List.any_eq_false,
    beq_iff_eq] at h
  exact ⟨fun e he => h.1 e he, h.2⟩

theorem lookup_none_of_forall_ne (k : Str) : ∀ kvs : Entries, (∀ e ∈ kvs, e.1 ≠ k) →
    lookup k kvs = none
  | [], _ => rfl
  | (k₀, v₀) :: rest, h => by
    have h0 : k ≠ k₀ := fun e => h (k₀, v₀) (List.mem_cons_self ..) e.symm
    simp only [lookup, h0, if_false]
    exact lookup_none_of_forall_ne k rest (fun e he => h e (List.mem_cons_of_mem _ he))

theorem lookup_of_mem_distinct : ∀ (kvs : Entries) (e : Str × Val), distinctKeys kvs = true →
    e ∈ kvs → lookup e.1 kvs = some e.2
  | [], _, _, h => by simp at h
  | (k₀, v₀) :: rest, e, hd, h => by
    obtain ⟨h1, h2⟩ := distinctKeys_cons k₀ v₀ rest hd
    rcases List.mem_cons.1 h with rfl | h'
    · simp [lookup]
    · have : e.1 ≠ k₀ := h1 e h'
      simp only [lookup, this, if_false]
      exact lookup_of_mem_distinct rest e h2 h'

theorem writeAll_entries_aux (value : Val) (g : Str → Val → List (List Seg)) :
    ∀ (rest pre : Entries), (∀ e ∈ rest, lookup e.1 pre = none) → distinctKeys rest = true →
      writeAll value (.map (pre ++ rest)) (lociEntries g rest) =
        .map (pre ++ rest.map (fun e => (e.1, writeAll value e.2 (g e.1 e.2))))
  | [], pre, _, _ => by simp [lociEntries, writeAll_nil]
  | (k, v) :: rest, pre, hpre, hd => by
    obtain ⟨hne, hd'⟩ := distinctKeys_cons k v rest hd
    have hk : lookup k pre = none := hpre (k, v) (List.mem_cons_self ..)
    have hl : lookup k (pre ++ (k, v) :: rest) = some v := by
      rw [lookup_append, hk]; simp [lookup]
    simp only [lociEntries, writeAll_append]
    rw [writeAll_key value k _ _ _ hl, insert_append_none k _ _ pre hk]
    have e1 : insert k (writeAll value v (g k v)) ((k, v) :: rest)
        = (k, writeAll value v (g k v)) :: rest := by simp [insert]
    rw [e1]
    have e2 : pre ++ (k, writeAll value v (g k v)) :: rest
        = (pre ++ [(k, writeAll value v (g k v))]) ++ rest := by simp
    rw [e2, writeAll_entries_aux value g rest _ ?_ hd']
    · simp
    · intro e he
      have hek : e.1 ≠ k := hne e he
      rw [lookup_append, hpre e (List.mem_cons_of_mem _ he)]
      simp [lookup, hek]

theorem writeAll_entries (value : Val) (g : Str → Val → List (List Seg)) (kvs : Entries)
    (hd : distinctKeys kvs = true) :
    writeAll value (.map kvs) (lociEntries g kvs) =
      .map (kvs.map (fun e => (e.1, writeAll value e.2 (g e.1 e.2)))) := by
  have := writeAll_entries_aux value g kvs [] (fun _ _ => rfl) hd
  simpa using this

theorem writeAll_list_aux (value : Val) (f : Val → List (List Seg)) :
    ∀ (xs pre : List Val),
      writeAll value (.list (pre ++ xs)) (lociList f pre.length xs) =
        .list (pre ++ xs.map (fun x => writeAll value x (f x)))
  | [], pre => by simp [lociList, writeAll_nil]
  | x :: xs, pre => by
    have hl : (pre ++ x :: xs)[pre.length]? = some x := by
      rw [List.getElem?_append_right (Nat.le_refl _)]; simp
    simp only [lociList, writeAll_append]
    rw [writeAll_idx value _ _ _ _ hl, List.set_append_right _ _ (Nat.le_refl _)]
    simp only [Nat.sub_self, List.set_cons_zero]
    have e2 : pre ++ writeAll value x (f x) :: xs = (pre ++ [writeAll value x (f x)]) ++ xs := by
      simp
    have e3 : pre.length + 1 = (pre ++ [writeAll value x (f x)]).length := by simp
    rw [e2, e3, writeAll_list_aux value f xs _]
    simp

theorem writeAll_list (value : Val) (f : Val → List (List Seg)) (xs : List Val) :
    writeAll value (.list xs) (lociList f 0 xs) =
      .list (xs.map (fun x => writeAll value x (f x))) := by
  have := writeAll_list_aux value f xs []
  simpa using this
