/-
  Mxj.Lemmas.EscDec1 — decoder-side escaping (`XMLEscapeCharsDecoder`), part 1: the decoder.

  `mapLeaves f` applies `f` to every string leaf of a value (text and attribute values alike;
  keys, numbers, booleans and nil are left alone).  `EscPair d d0`: `d` and `d0` are the same
  decoding conventions, `d` with decoder-side escaping on, `d0` with it off, the cast flag off on
  both sides (then the skip set and the other cast sub-flags are inert).  Main results:

    * `value_pair` / `doc_pair`: the conventions under `d` give the Map of the conventions under
      `d0` with `escapeChars` applied to every string leaf — for EVERY tree (no domain
      hypothesis) and every setting of attribute prefix, text key, key folding, keep-spaces,
      simple-values-as-map and tag sequence numbers;
    * `inDomain_pair`: the C01 domain is the same on both sides;
    * `norm_mapLeaves` / `equiv_mapLeaves`: `mapLeaves` commutes with `Val.norm`, hence respects
      "equal up to the order of map entries".
-/
import Mxj.Lemmas.EncodeSym
namespace Mxj.EscDec
open Mxj Mxj.Enc Mxj.EncSym

/-! ### `mapLeaves` -/

mutual
/-- apply `f` to every string leaf -/
def mapLeaves (f : Str → Str) : Val → Val
  | .str s => .str (f s)
  | .list xs => .list (mapLeavesList f xs)
  | .map kvs => .map (mapLeavesEntries f kvs)
  | .null => .null
  | .bool b => .bool b
  | .num t => .num t
def mapLeavesList (f : Str → Str) : List Val → List Val
  | [] => []
  | x :: xs => mapLeaves f x :: mapLeavesList f xs
def mapLeavesEntries (f : Str → Str) : Entries → Entries
  | [] => []
  | (k, v) :: rest => (k, mapLeaves f v) :: mapLeavesEntries f rest
end

/-- one `(key, value)` pair -/
def mapPair (f : Str → Str) (e : Str × Val) : Str × Val := (e.1, mapLeaves f e.2)

theorem mapLeavesList_eq (f : Str → Str) : ∀ (xs : List Val),
    mapLeavesList f xs = xs.map (mapLeaves f)
  | [] => rfl
  | x :: xs => by simp only [mapLeavesList, List.map_cons, mapLeavesList_eq f xs]

theorem mapLeavesEntries_eq (f : Str → Str) : ∀ (kvs : Entries),
    mapLeavesEntries f kvs = kvs.map (mapPair f)
  | [] => rfl
  | (k, v) :: rest => by
      simp only [mapLeavesEntries, List.map_cons, mapLeavesEntries_eq f rest, mapPair]

theorem mapLeavesEntries_eq' (f : Str → Str) (kvs : Entries) :
    mapLeavesEntries f kvs = kvs.map (fun x => (x.1, mapLeaves f x.2)) :=
  mapLeavesEntries_eq f kvs

theorem mapLeaves_str (f : Str → Str) (s : Str) : mapLeaves f (.str s) = .str (f s) := rfl
theorem mapLeaves_num (f : Str → Str) (t : Str) : mapLeaves f (.num t) = .num t := rfl
theorem mapLeaves_list (f : Str → Str) (xs : List Val) :
    mapLeaves f (.list xs) = .list (mapLeavesList f xs) := rfl
theorem mapLeaves_map (f : Str → Str) (kvs : Entries) :
    mapLeaves f (.map kvs) = .map (mapLeavesEntries f kvs) := rfl

theorem isList_mapLeaves (f : Str → Str) (v : Val) : (mapLeaves f v).isList = v.isList := by
  cases v <;> rfl

theorem lookup_mapLeaves (f : Str → Str) (k : Str) : ∀ (kvs : Entries),
    lookup k (mapLeavesEntries f kvs) = (lookup k kvs).map (mapLeaves f)
  | [] => rfl
  | (k', v) :: rest => by
      simp only [mapLeavesEntries, lookup]
      split
      · rfl
      · exact lookup_mapLeaves f k rest

theorem insert_mapLeaves (f : Str → Str) (k : Str) (v : Val) : ∀ (kvs : Entries),
    insert k (mapLeaves f v) (mapLeavesEntries f kvs) = mapLeavesEntries f (insert k v kvs)
  | [] => rfl
  | (k', v') :: rest => by
      simp only [mapLeavesEntries, insert]
      split
      · simp only [mapLeavesEntries]
      · simp only [mapLeavesEntries, insert_mapLeaves f k v rest]

theorem isEmpty_mapLeavesEntries (f : Str → Str) (kvs : Entries) :
    (mapLeavesEntries f kvs).isEmpty = kvs.isEmpty := by
  cases kvs with
  | nil => rfl
  | cons e r => obtain ⟨k, v⟩ := e; rfl

theorem keys_mapLeavesEntries (f : Str → Str) : ∀ (kvs : Entries),
    keys (mapLeavesEntries f kvs) = keys kvs
  | [] => rfl
  | (k, v) :: rest => by
      simp only [mapLeavesEntries, keys_cons, keys_mapLeavesEntries f rest]

/-! ### the pieces of the conventions -/

/-- the same conventions with decoder-side escaping on (`d`) and off (`d0`); cast flag off -/
structure EscPair (d d0 : DecCfg) : Prop where
  pfx : d.attrPrefix = d0.attrPrefix
  lc : d.lowerCase = d0.lowerCase
  sn : d.snake = d0.snake
  asMap : d.asMap = d0.asMap
  seq : d.seqNum = d0.seqNum
  ks : d.keepSpace = d0.keepSpace
  txt : d.textK = d0.textK
  esc : d.escDec = true
  esc0 : d0.escDec = false
  cast : d.cast.r = false
  cast0 : d0.cast.r = false

/-- the plain counterpart of a configuration: decoder-side escaping off, cast off -/
def plainOf (d : DecCfg) : DecCfg := { d with escDec := false, cast := {} }

theorem EscPair_plainOf (d : DecCfg) (hesc : d.escDec = true) (hc : d.cast.r = false) :
    EscPair d (plainOf d) :=
  ⟨rfl, rfl, rfl, rfl, rfl, rfl, rfl, hesc, rfl, hc, rfl⟩

/-- … or just the switch turned off -/
theorem EscPair_switch (d : DecCfg) (hesc : d.escDec = true) (hc : d.cast.r = false) :
    EscPair d { d with escDec := false } :=
  ⟨rfl, rfl, rfl, rfl, rfl, rfl, rfl, hesc, rfl, hc, hc⟩

/-- with the cast flag off a value is stored as the string it is -/
theorem cast_off (S : Strconv) (c : CastCfg) (h : c.r = false) (s k : Str) :
    cast S c s k = .str s := by
  unfold cast; simp [h]

theorem elemKey_pair {d d0 : DecCfg} (h : EscPair d d0) (S : Strconv) (n : Str) :
    elemKey d S n = elemKey d0 S n := by
  unfold elemKey; rw [h.lc, h.sn]

theorem attrKey_pair {d d0 : DecCfg} (h : EscPair d d0) (S : Strconv) (n : Str) :
    attrKey d S n = attrKey d0 S n := by
  unfold attrKey; rw [h.lc, h.sn, h.pfx]

theorem trimSet_pair {d d0 : DecCfg} (h : EscPair d d0) : trimSet d = trimSet d0 := by
  unfold trimSet; rw [h.ks]

theorem textOf_pair {d d0 : DecCfg} (h : EscPair d d0) (s : Str) :
    Conv.textOf d s = escapeChars (Conv.textOf d0 s) := by
  unfold Conv.textOf escDecIf
  rw [trimSet_pair h]
  simp [h.esc, h.esc0]

theorem loadAttrs_pair {d d0 : DecCfg} (h : EscPair d d0) (S : Strconv) (attrs : List Attr) :
    loadAttrs d S attrs = mapLeavesEntries escapeChars (loadAttrs d0 S attrs) := by
  unfold loadAttrs
  suffices hs : ∀ (acc : Entries),
      attrs.foldl (fun na a =>
        let key := attrKey d S a.name
        insert key (cast S d.cast (escDecIf d a.value) key) na) (mapLeavesEntries escapeChars acc)
      = mapLeavesEntries escapeChars (attrs.foldl (fun na a =>
        let key := attrKey d0 S a.name
        insert key (cast S d0.cast (escDecIf d0 a.value) key) na) acc) from hs []
  induction attrs with
  | nil => intro acc; rfl
  | cons a as ih =>
    intro acc
    simp only [List.foldl_cons]
    have hstep : insert (attrKey d S a.name)
          (cast S d.cast (escDecIf d a.value) (attrKey d S a.name)) (mapLeavesEntries escapeChars acc)
        = mapLeavesEntries escapeChars (insert (attrKey d0 S a.name)
          (cast S d0.cast (escDecIf d0 a.value) (attrKey d0 S a.name)) acc) := by
      rw [cast_off S d.cast h.cast, cast_off S d0.cast h.cast0, attrKey_pair h,
        ← insert_mapLeaves, mapLeaves_str]
      simp [escDecIf, h.esc, h.esc0]
    rw [hstep]
    exact ih _

theorem seqDecorate_pair {d d0 : DecCfg} (h : EscPair d d0) (f : Str → Str) (seq : Nat) (v : Val) :
    seqDecorate d seq (mapLeaves f v)
      = (mapLeaves f (seqDecorate d0 seq v).1, (seqDecorate d0 seq v).2) := by
  unfold seqDecorate
  rw [h.seq, h.txt]
  cases d0.seqNum
  · rfl
  · cases v with
    | list xs => rfl
    | null => rfl
    | map kvs =>
      simp only [mapLeaves, Bool.not_true, Bool.false_eq_true, if_false]
      rw [← insert_mapLeaves, mapLeaves_num]
    | str s =>
      simp only [mapLeaves, Bool.not_true, Bool.false_eq_true, if_false, ← insert_mapLeaves,
        mapLeavesEntries]
    | num t =>
      simp only [mapLeaves, Bool.not_true, Bool.false_eq_true, if_false, ← insert_mapLeaves,
        mapLeavesEntries]
    | bool b =>
      simp only [mapLeaves, Bool.not_true, Bool.false_eq_true, if_false, ← insert_mapLeaves,
        mapLeavesEntries]

theorem collect_mapLeaves (f : Str → Str) (old : Option Val) (vs : List Val) :
    Conv.collect (old.map (mapLeaves f)) (vs.map (mapLeaves f))
      = (Conv.collect old vs).map (mapLeaves f) := by
  cases old with
  | none =>
    match vs with
    | [] => rfl
    | [v] => rfl
    | v :: w :: r =>
      simp only [Option.map_none, List.map_cons, Conv.collect, Option.map_some, mapLeaves,
        mapLeavesList_eq]
  | some o =>
    match vs with
    | [] => rfl
    | v :: r =>
      cases o <;>
        simp only [Option.map_some, List.map_cons, Conv.collect, mapLeaves, mapLeavesList_eq,
          List.map_append]

/-- the values recorded under key `k` -/
theorem filterVals_map (f : Str → Str) (k : Str) : ∀ (l : List (Str × Val)),
    ((l.map (mapPair f)).filter (·.1 = k)).map (·.2)
      = ((l.filter (·.1 = k)).map (·.2)).map (mapLeaves f)
  | [] => rfl
  | e :: rest => by
      have ih := filterVals_map f k rest
      simp only [List.map_cons, List.filter_cons]
      have : (mapPair f e).1 = e.1 := rfl
      rw [this]
      split
      · simp only [List.map_cons, ih]; rfl
      · exact ih

theorem groupOnto_pair (f : Str → Str) (b : Entries) (l : List (Str × Val)) :
    Conv.groupOnto (mapLeavesEntries f b) (l.map (mapPair f))
      = mapLeavesEntries f (Conv.groupOnto b l) := by
  unfold Conv.groupOnto
  have hk : (l.map (mapPair f)).map (·.1) = l.map (·.1) := by
    rw [List.map_map]; rfl
  rw [hk]
  generalize (l.map (·.1)).eraseDups = ks
  induction ks generalizing b with
  | nil => rfl
  | cons k ks ih =>
    simp only [List.foldl_cons]
    rw [lookup_mapLeaves, filterVals_map, collect_mapLeaves]
    cases Conv.collect (lookup k b) ((l.filter (·.1 = k)).map (·.2)) with
    | none => exact ih b
    | some val =>
      simp only [Option.map_some]
      rw [insert_mapLeaves]
      exact ih _

/-- a text run with its value escaped -/
def escRun (r : Conv.TextRun) : Conv.TextRun := ⟨escapeChars r.value, r.early⟩

theorem textRuns_pair {d d0 : DecCfg} (h : EscPair d d0) : ∀ (kids : List Node) (seen : Bool),
    Conv.textRuns d seen kids = (Conv.textRuns d0 seen kids).map escRun
  | [], _ => rfl
  | .text s :: rest, seen => by
      have ih := textRuns_pair h rest seen
      simp only [Conv.textRuns]
      rw [textOf_pair h, escapeChars_isEmpty]
      split
      · exact ih
      · simp only [List.map_cons, ih, escRun]
  | .elem .. :: rest, _ => by
      simp only [Conv.textRuns]; exact textRuns_pair h rest true
  | .comment _ :: rest, seen => by
      simp only [Conv.textRuns]; exact textRuns_pair h rest seen
  | .procinst _ _ :: rest, seen => by
      simp only [Conv.textRuns]; exact textRuns_pair h rest seen
  | .directive _ :: rest, seen => by
      simp only [Conv.textRuns]; exact textRuns_pair h rest seen

/-! ### the conventions under decoder-side escaping -/

mutual
/-- the element value under `d` is the element value under `d0` with every string leaf escaped -/
theorem value_pair {d d0 : DecCfg} (h : EscPair d d0) (S : Strconv) : ∀ (t : Node),
    Conv.value d S t = mapLeaves escapeChars (Conv.value d0 S t)
  | .elem sp name attrs kids => by
      have hC := childVals_pair h S kids 0
      simp only [Conv.value]
      rw [loadAttrs_pair h S attrs, hC, groupOnto_pair, isEmpty_mapLeavesEntries,
        isEmpty_mapLeavesEntries, h.asMap, textRuns_pair h, h.txt]
      simp only [cast_off S d.cast h.cast, cast_off S d0.cast h.cast0]
      cases Conv.textRuns d0 (!(loadAttrs d0 S attrs).isEmpty || d0.asMap) kids with
      | nil =>
        simp only [List.map_nil]
        split <;> rfl
      | cons t ts =>
        simp only [List.map_cons, escRun]
        cases t.early <;>
          cases (Conv.groupOnto (loadAttrs d0 S attrs) (Conv.childVals d0 S 0 kids)).isEmpty <;>
          simp only [Bool.false_eq_true, if_false, if_true, mapLeaves, ← insert_mapLeaves]
  | .text _ => rfl
  | .comment _ => rfl
  | .procinst _ _ => rfl
  | .directive _ => rfl
theorem childVals_pair {d d0 : DecCfg} (h : EscPair d d0) (S : Strconv) :
    ∀ (ks : List Node) (seq : Nat),
    Conv.childVals d S seq ks = (Conv.childVals d0 S seq ks).map (mapPair escapeChars)
  | [], _ => rfl
  | .elem sp name attrs kids :: rest, seq => by
      have hv := value_pair h S (.elem sp name attrs kids)
      simp only [Conv.childVals, List.map_cons]
      rw [hv, seqDecorate_pair h, elemKey_pair h]
      simp only [mapPair]
      rw [childVals_pair h S rest]
  | .text _ :: rest, seq => by
      simp only [Conv.childVals]; exact childVals_pair h S rest seq
  | .comment _ :: rest, seq => by
      simp only [Conv.childVals]; exact childVals_pair h S rest seq
  | .procinst _ _ :: rest, seq => by
      simp only [Conv.childVals]; exact childVals_pair h S rest seq
  | .directive _ :: rest, seq => by
      simp only [Conv.childVals]; exact childVals_pair h S rest seq
end

/-- the Map of a document, for every node -/
theorem doc_pair {d d0 : DecCfg} (h : EscPair d d0) (S : Strconv) (t : Node) :
    Conv.doc d S t = mapLeaves escapeChars (Conv.doc d0 S t) := by
  cases t with
  | elem sp name attrs kids =>
    simp only [Conv.doc]
    rw [value_pair h S, elemKey_pair h]
    rfl
  | text _ => rfl
  | comment _ => rfl
  | procinst _ _ => rfl
  | directive _ => rfl

/-! ### the C01 domain is the same on both sides -/

mutual
theorem inDomain_pair {d d0 : DecCfg} (h : EscPair d d0) (S : Strconv) : ∀ (t : Node),
    Conv.inDomain d S t = Conv.inDomain d0 S t
  | .elem sp name attrs kids => by
      simp only [Conv.inDomain]
      rw [textRuns_pair h, List.length_map, inDomainKids_pair h S kids, h.txt, h.seq]
      simp only [attrKey_pair h]
  | .text _ => rfl
  | .comment _ => rfl
  | .procinst _ _ => rfl
  | .directive _ => rfl
theorem inDomainKids_pair {d d0 : DecCfg} (h : EscPair d d0) (S : Strconv) : ∀ (ks : List Node),
    Conv.inDomainKids d S ks = Conv.inDomainKids d0 S ks
  | [] => rfl
  | .elem sp name attrs kids :: rest => by
      simp only [Conv.inDomainKids]
      rw [inDomain_pair h S (.elem sp name attrs kids), inDomainKids_pair h S rest,
        elemKey_pair h, h.txt, h.seq]
  | .text _ :: rest => by
      simp only [Conv.inDomainKids]; exact inDomainKids_pair h S rest
  | .comment _ :: rest => by
      simp only [Conv.inDomainKids]; exact inDomainKids_pair h S rest
  | .procinst _ _ :: rest => by
      simp only [Conv.inDomainKids]; exact inDomainKids_pair h S rest
  | .directive _ :: rest => by
      simp only [Conv.inDomainKids]; exact inDomainKids_pair h S rest
end

mutual
theorem NamesOkG_pair {d d0 : DecCfg} (h : EscPair d d0) (S : Strconv) (e : EncCfg) :
    ∀ (t : Node), NamesOkG d S e t = NamesOkG d0 S e t
  | .elem sp name attrs kids => by
      simp only [NamesOkG]
      rw [NamesOkKidsG_pair h S e kids]
      simp only [attrKey_pair h]
  | .text _ => rfl
  | .comment _ => rfl
  | .procinst _ _ => rfl
  | .directive _ => rfl
theorem NamesOkKidsG_pair {d d0 : DecCfg} (h : EscPair d d0) (S : Strconv) (e : EncCfg) :
    ∀ (ks : List Node), NamesOkKidsG d S e ks = NamesOkKidsG d0 S e ks
  | [] => rfl
  | .elem sp name attrs kids :: rest => by
      simp only [NamesOkKidsG]
      rw [NamesOkG_pair h S e (.elem sp name attrs kids), NamesOkKidsG_pair h S e rest,
        elemKey_pair h]
  | .text _ :: rest => by
      simp only [NamesOkKidsG]; exact NamesOkKidsG_pair h S e rest
  | .comment _ :: rest => by
      simp only [NamesOkKidsG]; exact NamesOkKidsG_pair h S e rest
  | .procinst _ _ :: rest => by
      simp only [NamesOkKidsG]; exact NamesOkKidsG_pair h S e rest
  | .directive _ :: rest => by
      simp only [NamesOkKidsG]; exact NamesOkKidsG_pair h S e rest
end

/-! ### `mapLeaves` and the order of map entries -/

mutual
theorem norm_mapLeaves (f : Str → Str) : ∀ (v : Val),
    (mapLeaves f v).norm = mapLeaves f v.norm
  | .null => rfl
  | .bool _ => rfl
  | .num _ => rfl
  | .str _ => rfl
  | .list xs => by
      simp only [mapLeaves, Val.norm, normList_mapLeaves f xs]
  | .map kvs => by
      simp only [mapLeaves, Val.norm, normEntries_mapLeaves f kvs]
      rw [mapLeavesEntries_eq' f (Val.normEntries kvs), mapLeavesEntries_eq' f (sortByKey _),
        sortByKey_map]
theorem normList_mapLeaves (f : Str → Str) : ∀ (xs : List Val),
    Val.normList (mapLeavesList f xs) = mapLeavesList f (Val.normList xs)
  | [] => rfl
  | x :: xs => by
      simp only [mapLeavesList, Val.normList, norm_mapLeaves f x, normList_mapLeaves f xs]
theorem normEntries_mapLeaves (f : Str → Str) : ∀ (kvs : Entries),
    Val.normEntries (mapLeavesEntries f kvs) = mapLeavesEntries f (Val.normEntries kvs)
  | [] => rfl
  | (k, v) :: rest => by
      simp only [mapLeavesEntries, Val.normEntries, norm_mapLeaves f v,
        normEntries_mapLeaves f rest]
end

/-- `mapLeaves` respects "equal up to the order of map entries" -/
theorem equiv_mapLeaves (f : Str → Str) {a b : Val} (h : a ≈ᵥ b) :
    mapLeaves f a ≈ᵥ mapLeaves f b := by
  unfold Val.equiv at h ⊢
  rw [norm_mapLeaves, norm_mapLeaves, h]

end Mxj.EscDec
