/- Mxj.Lemmas.Key — helper lemmas for C08 (ValuesForKey / PathsForKey / sub-key conditions). -/
import Mxj.Model.KeySpec
import Mxj.Model.Denote
namespace Mxj
open KeySpec

/-! ### sub-key conditions -/

theorem subCond_pos (mv : Entries) (k : Str) (sv : SubVal) (h : hasPrefix ['!'] k = false) :
    subCond mv k sv = (if sv = SubVal.str ['*'] then (lookup k mv).isSome
      else match lookup k mv with
        | some v => typedEq sv v
        | none => false) := by
  unfold subCond
  simp only [h, Bool.false_eq_true, if_false, Bool.false_and, Bool.not_false]
  cases lookup k mv with
  | none => simp
  | some vv =>
    by_cases hs : sv = SubVal.str ['*']
    · simp [hs]
    · simp only [hs, decide_false, Bool.false_eq_true, if_false, Option.isSome_some]
      cases sv <;> cases vv <;> simp [typedEq] <;> exact Bool.eq_iff_iff.2 (by simp)

theorem subCond_neg (mv : Entries) (k : Str) (sv : SubVal) :
    subCond mv ('!' :: k) sv = (if sv = SubVal.str ['*'] then (lookup k mv).isNone
      else match lookup k mv with
        | some v => !typedEq sv v
        | none => false) := by
  unfold subCond
  have h : hasPrefix ['!'] ('!' :: k) = true := by simp [hasPrefix, List.isPrefixOf]
  simp only [h, if_true, List.drop_succ_cons, List.drop_zero, Bool.true_and, Bool.not_true]
  cases lookup k mv with
  | none => simp
  | some vv =>
    by_cases hs : sv = SubVal.str ['*']
    · simp [hs]
    · simp only [hs, decide_false, Bool.false_eq_true, if_false, Option.isNone_some]
      cases sv <;> cases vv <;> simp [typedEq] <;> exact Bool.eq_iff_iff.2 (by simp)

theorem subCond_eq_condHolds (mv : Entries) (k : Str) (sv : SubVal) :
    subCond mv k sv = condHolds mv (k, sv) := by
  unfold condHolds
  split
  · rename_i k' heq
    simp only at heq
    subst heq
    exact subCond_neg mv k' sv
  · rename_i hne
    simp only at hne
    apply subCond_pos
    cases k with
    | nil => simp [hasPrefix, List.isPrefixOf]
    | cons c cs =>
      by_cases hc : c = '!'
      · subst hc; exact absurd rfl (hne cs)
      · have hb : (('!' : Char) == c) = false := by
          simp only [beq_eq_false_iff_ne, ne_eq]; exact fun e => hc e.symm
        simp [hasPrefix, List.isPrefixOf, hb]

theorem hasSubKeys_eq_subPred (v : Val) (subs : SubKeys) : hasSubKeys v subs = subPred subs v := by
  unfold hasSubKeys subPred
  cases hs : subs.isEmpty
  · simp only [Bool.false_eq_true, if_false, Bool.false_or]
    cases v with
    | map mv =>
      simp only
      congr 1
      funext c
      obtain ⟨k, sv⟩ := c
      exact subCond_eq_condHolds mv k sv
    | _ => rfl
  · simp

theorem hasSubKeys_nil (v : Val) : hasSubKeys v [] = true := by
  simp [hasSubKeys]

/-! ### ValuesForKey -/

theorem hasSubKeys_scalar (v : Val) (subs : SubKeys) (hm : v.isMap = false) :
    hasSubKeys v subs = subs.isEmpty := by
  unfold hasSubKeys
  cases hs : subs.isEmpty
  · cases v <;> simp_all [Val.isMap]
  · simp

theorem loadKeyVal_nil (v : Val) : loadKeyVal [] v = members v := by
  cases v <;> simp [loadKeyVal, members, hasSubKeys_nil]

theorem loadKeyVal_filter (subs : SubKeys) (v : Val) :
    loadKeyVal subs v = (members v).filter (fun x => hasSubKeys x subs) := by
  cases v with
  | map kvs =>
    simp only [loadKeyVal, members, List.filter_cons, List.filter_nil]
  | list xs => simp only [loadKeyVal, members]
  | null => cases subs <;> simp [loadKeyVal, members, hasSubKeys]
  | bool b => cases subs <;> simp [loadKeyVal, members, hasSubKeys]
  | num t => cases subs <;> simp [loadKeyVal, members, hasSubKeys]
  | str t => cases subs <;> simp [loadKeyVal, members, hasSubKeys]

mutual
theorem hasKey_filter (key : Str) (subs : SubKeys) : ∀ v : Val,
    hasKey key subs v = (hasKey key [] v).filter (fun x => hasSubKeys x subs)
  | .map kvs => by
      simp only [hasKey, List.filter_append, ← hasKeyEntries_filter key subs kvs]
      congr 1
      congr 1
      · cases lookup key kvs with
        | none => rfl
        | some v => simp only [loadKeyVal_filter subs v, loadKeyVal_nil]
      · by_cases hk : key = ['*']
        · simp only [hk, if_true, List.filter_flatMap, loadKeyVal_nil]
          congr 1; funext e; exact loadKeyVal_filter subs e.2
        · simp only [hk, if_false, List.filter_nil]
  | .list xs => by simp only [hasKey]; exact hasKeyList_filter key subs xs
  | .null => by simp [hasKey]
  | .bool _ => by simp [hasKey]
  | .num _ => by simp [hasKey]
  | .str _ => by simp [hasKey]
theorem hasKeyList_filter (key : Str) (subs : SubKeys) : ∀ xs : List Val,
    hasKeyList key subs xs = (hasKeyList key [] xs).filter (fun x => hasSubKeys x subs)
  | [] => by simp [hasKeyList]
  | x :: xs => by
      simp only [hasKeyList, List.filter_append, ← hasKey_filter key subs x,
        ← hasKeyList_filter key subs xs]
theorem hasKeyEntries_filter (key : Str) (subs : SubKeys) : ∀ kvs : Entries,
    hasKeyEntries key subs kvs = (hasKeyEntries key [] kvs).filter (fun x => hasSubKeys x subs)
  | [] => by simp [hasKeyEntries]
  | (k, v) :: rest => by
      simp only [hasKeyEntries, List.filter_append, ← hasKey_filter key subs v,
        ← hasKeyEntries_filter key subs rest]
end

/-- with distinct keys the literal lookup is the filter of the entries carrying that key -/
theorem lookup_filter (key : Str) : ∀ kvs : Entries, distinctKeys kvs = true →
    (match lookup key kvs with
      | some v => members v
      | none => []) = (kvs.filter fun e => e.1 = key).flatMap fun e => members e.2
  | [], _ => by simp [lookup]
  | (k, v) :: rest, h => by
      simp only [distinctKeys, Bool.and_eq_true, Bool.not_eq_true', List.any_eq_false,
        beq_iff_eq] at h
      by_cases hk : key = k
      · subst hk
        have hnone : rest.filter (fun e => decide (e.1 = key)) = [] := by
          rw [List.filter_eq_nil_iff]
          intro e he; simpa using h.1 e he
        simp only [lookup, if_true, List.filter_cons, decide_true, hnone, List.flatMap_cons,
          List.flatMap_nil, List.append_nil]
      · have hk' : ¬ k = key := fun e => hk e.symm
        simp only [lookup, hk, if_false, List.filter_cons, hk', decide_false,
          Bool.false_eq_true]
        exact lookup_filter key rest h.2

theorem lookup_star_none : ∀ kvs : Entries, noStarKeyEntries kvs = true → lookup ['*'] kvs = none
  | [], _ => rfl
  | (k, v) :: rest, h => by
      simp only [noStarKeyEntries, Bool.and_eq_true, bne_iff_ne, ne_eq] at h
      have hk : ¬ ['*'] = k := fun e => h.1.1 e.symm
      simp only [lookup, hk, if_false]
      exact lookup_star_none rest h.2

/-- the per-node hits of `hasKey` are exactly the values the specification says are stored there -/
theorem hits_eq_storedAt (key : Str) (kvs : Entries) (hd : distinctKeys kvs = true)
    (hstar : key = ['*'] → noStarKeyEntries kvs = true) :
    (match lookup key kvs with
      | some v => loadKeyVal [] v
      | none => [])
    ++ (if key = ['*'] then kvs.flatMap (fun e => loadKeyVal [] e.2) else [])
      = storedAt key (.map kvs) := by
  by_cases hk : key = ['*']
  · subst hk
    simp only [lookup_star_none kvs (hstar rfl), if_true, List.nil_append, storedAt,
      decide_true, Bool.true_or, loadKeyVal_nil]
    rw [List.filter_eq_self.2 (fun _ _ => rfl)]
  · simp only [hk, if_false, List.append_nil, storedAt, decide_false, Bool.false_or,
      loadKeyVal_nil]
    exact lookup_filter key kvs hd

mutual
theorem hasKey_eq_nodes (key : Str) : ∀ v : Val, v.wf = true →
    (key = ['*'] → noStarKey v = true) →
    hasKey key [] v = (nodes v).flatMap (storedAt key)
  | .map kvs, hwf, hstar => by
      simp only [Val.wf, Bool.and_eq_true] at hwf
      simp only [noStarKey] at hstar
      simp only [hasKey, nodes, List.flatMap_cons]
      rw [← hasKeyEntries_eq_nodes key kvs hwf.1 hstar]
      have h := hits_eq_storedAt key kvs hwf.2 hstar
      cases hl : lookup key kvs <;> simp only [hl] at h ⊢ <;> rw [h]
  | .list xs, hwf, hstar => by
      simp only [Val.wf] at hwf
      simp only [noStarKey] at hstar
      simp only [hasKey, nodes, List.flatMap_cons, storedAt, List.nil_append]
      exact hasKeyList_eq_nodes key xs hwf hstar
  | .null, _, _ => by simp [hasKey, nodes, storedAt]
  | .bool _, _, _ => by simp [hasKey, nodes, storedAt]
  | .num _, _, _ => by simp [hasKey, nodes, storedAt]
  | .str _, _, _ => by simp [hasKey, nodes, storedAt]
theorem hasKeyList_eq_nodes (key : Str) : ∀ xs : List Val, Val.wfList xs = true →
    (key = ['*'] → noStarKeyList xs = true) →
    hasKeyList key [] xs = (nodesList xs).flatMap (storedAt key)
  | [], _, _ => by simp [hasKeyList, nodesList]
  | x :: xs, hwf, hstar => by
      simp only [Val.wfList, Bool.and_eq_true] at hwf
      simp only [noStarKeyList, Bool.and_eq_true] at hstar
      simp only [hasKeyList, nodesList, List.flatMap_append]
      rw [hasKey_eq_nodes key x hwf.1 (fun h => (hstar h).1),
        hasKeyList_eq_nodes key xs hwf.2 (fun h => (hstar h).2)]
theorem hasKeyEntries_eq_nodes (key : Str) : ∀ kvs : Entries, Val.wfEntries kvs = true →
    (key = ['*'] → noStarKeyEntries kvs = true) →
    hasKeyEntries key [] kvs = (nodesEntries kvs).flatMap (storedAt key)
  | [], _, _ => by simp [hasKeyEntries, nodesEntries]
  | (k, v) :: rest, hwf, hstar => by
      simp only [Val.wfEntries, Bool.and_eq_true] at hwf
      simp only [noStarKeyEntries, Bool.and_eq_true] at hstar
      simp only [hasKeyEntries, nodesEntries, List.flatMap_append]
      rw [hasKey_eq_nodes key v hwf.1 (fun h => (hstar h).1.2),
        hasKeyEntries_eq_nodes key rest hwf.2 (fun h => (hstar h).2)]
end

/-! ### PathsForKey -/

theorem joinWith_concat (sep : Str) (k : Str) : ∀ xs : List Str, xs ≠ [] →
    joinWith sep (xs ++ [k]) = joinWith sep xs ++ sep ++ k
  | [], h => absurd rfl h
  | [x], _ => by simp [joinWith]
  | x :: y :: rest, _ => by
      have ih := joinWith_concat sep k (y :: rest) (by simp)
      simp only [List.cons_append] at ih
      simp only [List.cons_append, joinWith, ih, List.append_assoc]

theorem joinDot_ne_nil : ∀ pre : List Str, pre ≠ [] → (∀ k ∈ pre, k ≠ []) → joinDot pre ≠ []
  | [], h, _ => absurd rfl h
  | [x], _, hk => by simpa [joinDot, joinWith] using hk x (by simp)
  | x :: y :: rest, _, hk => by
      have hx : x ≠ [] := hk x (by simp)
      simp [joinDot, joinWith, hx]

theorem crumb_joinDot (pre : List Str) (k : Str) (hpre : ∀ x ∈ pre, x ≠ []) :
    crumb (joinDot pre) k = joinDot (pre ++ [k]) := by
  unfold crumb
  cases pre with
  | nil => simp [joinDot, joinWith]
  | cons x rest =>
    have hne : joinDot (x :: rest) ≠ [] := joinDot_ne_nil _ (by simp) hpre
    have he : (joinDot (x :: rest)).isEmpty = false := by
      cases h : joinDot (x :: rest) with
      | nil => exact absurd h hne
      | cons _ _ => rfl
    simp only [he, Bool.false_eq_true, if_false]
    exact (joinWith_concat ['.'] k (x :: rest) (by simp)).symm

theorem keySafe_ne_nil (k : Str) (h : keySafe k = true) : k ≠ [] := by
  intro e; subst e; simp [keySafe] at h

mutual
theorem keyPaths_ne_nil : ∀ (v : Val) (q : List Str), q ∈ keyPaths v → q ≠ []
  | .map kvs, q, h => keyPathsEntries_ne_nil kvs q (by simpa [keyPaths] using h)
  | .list xs, q, h => keyPathsList_ne_nil xs q (by simpa [keyPaths] using h)
  | .null, q, h => by simp [keyPaths] at h
  | .bool _, q, h => by simp [keyPaths] at h
  | .num _, q, h => by simp [keyPaths] at h
  | .str _, q, h => by simp [keyPaths] at h
theorem keyPathsList_ne_nil : ∀ (xs : List Val) (q : List Str), q ∈ keyPathsList xs → q ≠ []
  | [], q, h => by simp [keyPathsList] at h
  | x :: xs, q, h => by
      simp only [keyPathsList, List.mem_append] at h
      cases h with
      | inl h => exact keyPaths_ne_nil x q h
      | inr h => exact keyPathsList_ne_nil xs q h
theorem keyPathsEntries_ne_nil : ∀ (kvs : Entries) (q : List Str), q ∈ keyPathsEntries kvs → q ≠ []
  | [], q, h => by simp [keyPathsEntries] at h
  | (k, v) :: rest, q, h => by
      simp only [keyPathsEntries, List.mem_append, List.mem_cons, List.mem_map] at h
      rcases h with (h | ⟨q', _, h⟩) | h
      · subst h; simp
      · subst h; simp
      · exact keyPathsEntries_ne_nil rest q h
end

theorem getLast?_cons_of_ne_nil {α} (a : α) (l : List α) (h : l ≠ []) :
    (a :: l).getLast? = l.getLast? := by
  cases l with
  | nil => exact absurd rfl h
  | cons b l => simp [List.getLast?_cons]

theorem lookup_cons_isSome (key k : Str) (v : Val) (rest : Entries) :
    (lookup key ((k, v) :: rest)).isSome = (decide (key = k) || (lookup key rest).isSome) := by
  by_cases h : key = k <;> simp [lookup, h]

mutual
theorem mem_hasKeyPath (key : Str) : ∀ (v : Val) (pre : List Str), (∀ k ∈ pre, k ≠ []) →
    pathSafe v = true → ∀ p : Str,
    (p ∈ hasKeyPath key (joinDot pre) v ↔
      ∃ q, q ∈ keyPaths v ∧ q.getLast? = some key ∧ p = joinDot (pre ++ q))
  | .map kvs, pre, hpre, hs, p => by
      simp only [pathSafe] at hs
      simp only [hasKeyPath, keyPaths, List.mem_append]
      rw [← mem_hasKeyPathEntries key kvs pre hpre hs p, crumb_joinDot pre key hpre, Or.comm]
      cases (lookup key kvs).isSome <;> simp
  | .list xs, pre, hpre, hs, p => by
      simp only [pathSafe] at hs
      simp only [hasKeyPath, keyPaths]
      exact mem_hasKeyPathList key xs pre hpre hs p
  | .null, _, _, _, _ => by simp [hasKeyPath, keyPaths]
  | .bool _, _, _, _, _ => by simp [hasKeyPath, keyPaths]
  | .num _, _, _, _, _ => by simp [hasKeyPath, keyPaths]
  | .str _, _, _, _, _ => by simp [hasKeyPath, keyPaths]
theorem mem_hasKeyPathList (key : Str) : ∀ (xs : List Val) (pre : List Str),
    (∀ k ∈ pre, k ≠ []) → pathSafeList xs = true → ∀ p : Str,
    (p ∈ hasKeyPathList key (joinDot pre) xs ↔
      ∃ q, q ∈ keyPathsList xs ∧ q.getLast? = some key ∧ p = joinDot (pre ++ q))
  | [], _, _, _, _ => by simp [hasKeyPathList, keyPathsList]
  | x :: xs, pre, hpre, hs, p => by
      simp only [pathSafeList, Bool.and_eq_true] at hs
      simp only [hasKeyPathList, keyPathsList, List.mem_append,
        mem_hasKeyPath key x pre hpre hs.1 p, mem_hasKeyPathList key xs pre hpre hs.2 p]
      constructor
      · rintro (⟨q, h1, h2⟩ | ⟨q, h1, h2⟩)
        · exact ⟨q, Or.inl h1, h2⟩
        · exact ⟨q, Or.inr h1, h2⟩
      · rintro ⟨q, h1 | h1, h2⟩
        · exact Or.inl ⟨q, h1, h2⟩
        · exact Or.inr ⟨q, h1, h2⟩
theorem mem_hasKeyPathEntries (key : Str) : ∀ (kvs : Entries) (pre : List Str),
    (∀ k ∈ pre, k ≠ []) → pathSafeEntries kvs = true → ∀ p : Str,
    ((p ∈ hasKeyPathEntries key (joinDot pre) kvs
        ∨ ((lookup key kvs).isSome = true ∧ p = joinDot (pre ++ [key]))) ↔
      ∃ q, q ∈ keyPathsEntries kvs ∧ q.getLast? = some key ∧ p = joinDot (pre ++ q))
  | [], _, _, _, _ => by simp [hasKeyPathEntries, keyPathsEntries, lookup]
  | (k, v) :: rest, pre, hpre, hs, p => by
      simp only [pathSafeEntries, Bool.and_eq_true] at hs
      have hk : k ≠ [] := keySafe_ne_nil k hs.1.1
      have hpre' : ∀ x ∈ pre ++ [k], x ≠ [] := by
        intro x hx
        simp only [List.mem_append, List.mem_singleton] at hx
        cases hx with
        | inl hx => exact hpre x hx
        | inr hx => subst hx; exact hk
      have ihv := mem_hasKeyPath key v (pre ++ [k]) hpre' hs.1.2 p
      have ihr := mem_hasKeyPathEntries key rest pre hpre hs.2 p
      simp only [hasKeyPathEntries, List.mem_append, crumb_joinDot pre k hpre,
        lookup_cons_isSome, Bool.or_eq_true, decide_eq_true_eq]
      constructor
      · rintro ((h | h) | ⟨h | h, hp⟩)
        · obtain ⟨q', hq', hl, hp⟩ := ihv.1 h
          refine ⟨k :: q', ?_, ?_, ?_⟩
          · simp only [keyPathsEntries, List.mem_append, List.mem_cons, List.mem_map]
            exact Or.inl (Or.inr ⟨q', hq', rfl⟩)
          · rw [getLast?_cons_of_ne_nil k q' (keyPaths_ne_nil v q' hq')]; exact hl
          · rw [hp, List.append_assoc]; rfl
        · obtain ⟨q, hq, hl, hp⟩ := ihr.1 (Or.inl h)
          refine ⟨q, ?_, hl, hp⟩
          simp only [keyPathsEntries, List.mem_append]
          exact Or.inr hq
        · subst h
          refine ⟨[key], ?_, rfl, hp⟩
          simp [keyPathsEntries]
        · obtain ⟨q, hq, hl, hp⟩ := ihr.1 (Or.inr ⟨h, hp⟩)
          refine ⟨q, ?_, hl, hp⟩
          simp only [keyPathsEntries, List.mem_append]
          exact Or.inr hq
      · rintro ⟨q, hq, hl, hp⟩
        simp only [keyPathsEntries, List.mem_append, List.mem_cons, List.mem_map] at hq
        rcases hq with (hq | ⟨q', hq', hq⟩) | hq
        · subst hq
          simp only [List.getLast?_singleton, Option.some.injEq] at hl
          subst hl
          exact Or.inr ⟨Or.inl rfl, hp⟩
        · subst hq
          rw [getLast?_cons_of_ne_nil k q' (keyPaths_ne_nil v q' hq')] at hl
          refine Or.inl (Or.inl (ihv.2 ⟨q', hq', hl, ?_⟩))
          rw [hp, List.append_assoc]; rfl
        · rcases ihr.2 ⟨q, hq, hl, hp⟩ with h | ⟨h, hp⟩
          · exact Or.inl (Or.inr h)
          · exact Or.inr ⟨Or.inr h, hp⟩
end

theorem nodup_eraseDups_aux {α} [BEq α] [LawfulBEq α] : ∀ (n : Nat) (l : List α),
    l.length ≤ n → l.eraseDups.Nodup
  | _, [], _ => by simp
  | 0, a :: as, h => by simp at h
  | n + 1, a :: as, h => by
      rw [List.eraseDups_cons, List.nodup_cons]
      constructor
      · simp [List.mem_eraseDups, List.mem_filter]
      · apply nodup_eraseDups_aux n
        have := List.length_filter_le (fun b => !b == a) as
        simp only [List.length_cons] at h
        omega

theorem nodup_eraseDups {α} [BEq α] [LawfulBEq α] (l : List α) : l.eraseDups.Nodup :=
  nodup_eraseDups_aux l.length l (Nat.le_refl _)

/-! ### PathForKeyShortest -/

theorem shortest_fold : ∀ (ps : List Str) (p : Str),
    let r := ps.foldl (fun best q => if segCount q < segCount best then q else best) p
    (r = p ∨ r ∈ ps) ∧ segCount r ≤ segCount p ∧ ∀ q ∈ ps, segCount r ≤ segCount q
  | [], p => by simp
  | a :: ps, p => by
      intro r
      have ih := shortest_fold ps (if segCount a < segCount p then a else p)
      simp only [] at ih
      have hr : r = ps.foldl (fun best q => if segCount q < segCount best then q else best)
          (if segCount a < segCount p then a else p) := rfl
      rw [← hr] at ih
      obtain ⟨h1, h2, h3⟩ := ih
      by_cases hlt : segCount a < segCount p
      · simp only [hlt, if_true] at h1 h2
        refine ⟨Or.inr ?_, by omega, ?_⟩
        · cases h1 with
          | inl h => simp [h]
          | inr h => simp [h]
        · intro q hq
          simp only [List.mem_cons] at hq
          cases hq with
          | inl h => subst h; exact h2
          | inr h => exact h3 q h
      · simp only [hlt, if_false] at h1 h2
        refine ⟨?_, h2, ?_⟩
        · cases h1 with
          | inl h => exact Or.inl h
          | inr h => exact Or.inr (by simp [h])
        · intro q hq
          simp only [List.mem_cons] at hq
          cases hq with
          | inl h => subst h; omega
          | inr h => exact h3 q h

/-! ### paths vs. values (C08_paths_values) -/

theorem splitGo_noDot : ∀ (x : Str) (acc rest : Str), (∀ c ∈ x, c ≠ '.') →
    splitGo ['.'] (x ++ rest) 0 acc = splitGo ['.'] rest 0 (x.reverse ++ acc)
  | [], acc, rest, _ => by simp
  | c :: x, acc, rest, h => by
      have hc : c ≠ '.' := h c (by simp)
      have hb : (('.' : Char) == c) = false := by
        simp only [beq_eq_false_iff_ne, ne_eq]; exact fun e => hc e.symm
      have ih := splitGo_noDot x (c :: acc) rest (fun d hd => h d (by simp [hd]))
      simp only [List.cons_append, splitGo, List.isPrefixOf, hb, Bool.false_and,
        Bool.false_eq_true, if_false, ih, List.reverse_cons, List.append_assoc, List.nil_append]

theorem splitGo_dot (rest acc : Str) :
    splitGo ['.'] ('.' :: rest) 0 acc = acc.reverse :: splitGo ['.'] rest 0 [] := by
  simp [splitGo, List.isPrefixOf]

theorem splitDot_joinDot : ∀ q : List Str, q ≠ [] → (∀ k ∈ q, ∀ c ∈ k, c ≠ '.') →
    splitDot (joinDot q) = q
  | [], h, _ => absurd rfl h
  | [x], _, hq => by
      have h := splitGo_noDot x [] [] (hq x (by simp))
      simp only [List.append_nil] at h
      simp only [splitDot, splitOn, joinDot, joinWith, h, splitGo, List.reverse_reverse]
  | x :: y :: r, _, hq => by
      have ih := splitDot_joinDot (y :: r) (by simp) (fun k hk => hq k (by simp [hk]))
      have h := splitGo_noDot x [] ('.' :: joinDot (y :: r)) (hq x (by simp))
      simp only [splitDot, splitOn, joinDot] at ih
      simp only [splitDot, splitOn, joinDot, joinWith, List.append_assoc, List.cons_append,
        List.nil_append]
      simp only [joinDot] at h
      rw [h, splitGo_dot, List.append_nil, List.reverse_reverse, ih]

theorem keySafe_noDot (k : Str) (h : keySafe k = true) : ∀ c ∈ k, c ≠ '.' := by
  intro c hc e
  subst e
  simp only [keySafe, Bool.and_eq_true, Bool.not_eq_true', List.contains_eq_mem,
    decide_eq_false_iff_not] at h
  exact h.1.1.2 hc

theorem keySafe_ne_star (k : Str) (h : keySafe k = true) : k ≠ ['*'] := by
  intro e
  subst e
  simp [keySafe] at h

theorem pathKeys_joinDot (q : List Str) (hne : q ≠ []) (hq : ∀ k ∈ q, keySafe k = true) :
    pathKeys (joinDot q) = q := by
  unfold pathKeys
  rw [splitDot_joinDot q hne (fun k hk => keySafe_noDot k (hq k hk))]
  unfold dropTrailingEmpty
  split
  · rename_i hl
    have hm : ([] : Str) ∈ q := List.mem_of_getLast? hl
    exact absurd rfl (keySafe_ne_nil [] (hq [] hm))
  · rfl

mutual
theorem keyPaths_safe : ∀ (v : Val), pathSafe v = true → ∀ q ∈ keyPaths v, ∀ k ∈ q, keySafe k = true
  | .map kvs, hs, q, h => keyPathsEntries_safe kvs (by simpa [pathSafe] using hs) q
      (by simpa [keyPaths] using h)
  | .list xs, hs, q, h => keyPathsList_safe xs (by simpa [pathSafe] using hs) q
      (by simpa [keyPaths] using h)
  | .null, _, q, h => by simp [keyPaths] at h
  | .bool _, _, q, h => by simp [keyPaths] at h
  | .num _, _, q, h => by simp [keyPaths] at h
  | .str _, _, q, h => by simp [keyPaths] at h
theorem keyPathsList_safe : ∀ (xs : List Val), pathSafeList xs = true →
    ∀ q ∈ keyPathsList xs, ∀ k ∈ q, keySafe k = true
  | [], _, q, h => by simp [keyPathsList] at h
  | x :: xs, hs, q, h => by
      simp only [pathSafeList, Bool.and_eq_true] at hs
      simp only [keyPathsList, List.mem_append] at h
      cases h with
      | inl h => exact keyPaths_safe x hs.1 q h
      | inr h => exact keyPathsList_safe xs hs.2 q h
theorem keyPathsEntries_safe : ∀ (kvs : Entries), pathSafeEntries kvs = true →
    ∀ q ∈ keyPathsEntries kvs, ∀ k ∈ q, keySafe k = true
  | [], _, q, h => by simp [keyPathsEntries] at h
  | (k, v) :: rest, hs, q, h => by
      simp only [pathSafeEntries, Bool.and_eq_true] at hs
      simp only [keyPathsEntries, List.mem_append, List.mem_cons, List.mem_map] at h
      rcases h with (h | ⟨q', hq', h⟩) | h
      · subst h; intro k' hk'; simp only [List.mem_singleton] at hk'; subst hk'; exact hs.1.1
      · subst h
        intro k' hk'
        simp only [List.mem_cons] at hk'
        cases hk' with
        | inl e => subst e; exact hs.1.1
        | inr hm => exact keyPaths_safe v hs.1.2 q' hq' k' hm
      · exact keyPathsEntries_safe rest hs.2 q h
end

theorem flatMap_congr_mem {α β} {l : List α} {f g : α → List β} (h : ∀ a ∈ l, f a = g a) :
    l.flatMap f = l.flatMap g := by
  induction l with
  | nil => rfl
  | cons a l ih =>
    simp only [List.flatMap_cons]
    rw [h a (by simp), ih (fun b hb => h b (by simp [hb]))]

theorem perm_4 {α} (a b c d : List α) : ((a ++ b) ++ (c ++ d)).Perm ((a ++ c) ++ (b ++ d)) := by
  simp only [List.append_assoc]
  apply List.Perm.append_left
  rw [← List.append_assoc, ← List.append_assoc]
  exact List.Perm.append_right d List.perm_append_comm

theorem flatMap_append_fun_perm {α β} (g h : α → List β) : ∀ l : List α,
    (l.flatMap fun b => g b ++ h b).Perm (l.flatMap g ++ l.flatMap h)
  | [] => by simp
  | b :: l => by
      simp only [List.flatMap_cons]
      exact (List.Perm.append_left _ (flatMap_append_fun_perm g h l)).trans (perm_4 _ _ _ _)

theorem flatMap_swap_perm {α β γ} (f : α → β → List γ) (l2 : List β) : ∀ l1 : List α,
    (l1.flatMap fun a => l2.flatMap (f a)).Perm (l2.flatMap fun b => l1.flatMap fun a => f a b)
  | [] => by simp
  | a :: l1 => by
      simp only [List.flatMap_cons]
      exact (List.Perm.append_left _ (flatMap_swap_perm f l2 l1)).trans
        (flatMap_append_fun_perm (f a) (fun b => l1.flatMap fun a => f a b) l2).symm

theorem walk_nil_members (v : Val) : walk none v [] = members v := by
  cases v <;> simp [walk, loadLeaf, passSubs, members]

theorem noLL_members_cons (x : Val) (xs : List Val) (h : Denote.noLL_members (x :: xs) = true) :
    x.isList = false ∧ Denote.noListInList x = true ∧ Denote.noLL_members xs = true := by
  cases x <;> simp_all [Denote.noLL_members, Val.isList]

theorem walk_list_eq (k : Str) (ks : List Str) (hk : k ≠ ['*']) : ∀ xs : List Val,
    Denote.noLL_members xs = true →
    walk none (.list xs) (k :: ks) = xs.flatMap (fun x => walk none x (k :: ks)) := by
  intro xs h
  simp only [walk, hk, if_false]
  induction xs with
  | nil => rfl
  | cons x xs ih =>
    obtain ⟨hx, _, hxs⟩ := noLL_members_cons x xs h
    simp only [List.flatMap_cons, ih hxs]
    congr 1
    cases x <;> simp_all [walk, Val.isList]

/-- with distinct keys, a lookup-and-continue is a sum over the entries carrying that key -/
theorem lookup_flatMap {β} (f : Val → List β) (key : Str) : ∀ kvs : Entries,
    distinctKeys kvs = true →
    (match lookup key kvs with
      | some v => f v
      | none => []) = kvs.flatMap fun e => if e.1 = key then f e.2 else []
  | [], _ => by simp [lookup]
  | (k, v) :: rest, h => by
      simp only [distinctKeys, Bool.and_eq_true, Bool.not_eq_true', List.any_eq_false,
        beq_iff_eq] at h
      by_cases hk : key = k
      · subst hk
        have hnone : (rest.flatMap fun e => if e.1 = key then f e.2 else []) = [] := by
          rw [List.flatMap_eq_nil_iff]
          intro e he
          simp [h.1 e he]
        simp only [lookup, if_true, List.flatMap_cons, hnone, List.append_nil]
      · have hk' : ¬ k = key := fun e => hk e.symm
        simp only [lookup, hk, if_false, List.flatMap_cons, hk', List.nil_append]
        exact lookup_flatMap f key rest h.2

/-- the tails of the key sequences in `D` that start with `k` -/
def tailsOf (k : Str) (D : List (List Str)) : List (List Str) :=
  D.filterMap fun q => match q with
    | k' :: t => if k' = k then some t else none
    | [] => none

theorem mem_tailsOf (k : Str) (D : List (List Str)) (t : List Str) :
    t ∈ tailsOf k D ↔ k :: t ∈ D := by
  unfold tailsOf
  rw [List.mem_filterMap]
  constructor
  · rintro ⟨q, hq, h⟩
    cases q with
    | nil => simp at h
    | cons k' t' =>
      simp only at h
      split at h
      · rename_i hk; subst hk; cases h; exact hq
      · cases h
  · intro h
    exact ⟨k :: t, h, by simp⟩

theorem nodup_tailsOf (k : Str) : ∀ D : List (List Str), D.Nodup → (tailsOf k D).Nodup
  | [], _ => by simp [tailsOf]
  | q :: D, h => by
      rw [List.nodup_cons] at h
      have ih := nodup_tailsOf k D h.2
      cases q with
      | nil => simpa [tailsOf] using ih
      | cons k' t =>
        by_cases hk : k' = k
        · subst hk
          have : tailsOf k' ((k' :: t) :: D) = t :: tailsOf k' D := by simp [tailsOf]
          rw [this, List.nodup_cons]
          exact ⟨fun hm => h.1 ((mem_tailsOf k' D t).1 hm), ih⟩
        · have : tailsOf k ((k' :: t) :: D) = tailsOf k D := by simp [tailsOf, hk]
          rw [this]; exact ih

theorem flatMap_tailsOf {β} (k : Str) (g : List Str → List β) : ∀ D : List (List Str),
    (D.flatMap fun q => match q with
      | k' :: t => if k' = k then g t else []
      | [] => []) = (tailsOf k D).flatMap g
  | [] => by simp [tailsOf]
  | q :: D => by
      have ih := flatMap_tailsOf k g D
      cases q with
      | nil =>
        have : tailsOf k ([] :: D) = tailsOf k D := by simp [tailsOf]
        simp only [List.flatMap_cons, this, List.nil_append, ih]
      | cons k' t =>
        by_cases hk : k' = k
        · subst hk
          have : tailsOf k' ((k' :: t) :: D) = t :: tailsOf k' D := by simp [tailsOf]
          simp only [List.flatMap_cons, this, if_true, ih]
        · have : tailsOf k ((k' :: t) :: D) = tailsOf k D := by simp [tailsOf, hk]
          simp only [List.flatMap_cons, this, hk, if_false, List.nil_append, ih]

theorem flatMap_filter_isEmpty {β} (g : List Str → List β) : ∀ T : List (List Str), T.Nodup →
    (T.filter (fun t => t.isEmpty)).flatMap g = if [] ∈ T then g [] else []
  | [], _ => by simp
  | t :: T, h => by
      rw [List.nodup_cons] at h
      have ih := flatMap_filter_isEmpty g T h.2
      cases t with
      | nil =>
        have hn : ([] : List Str) ∉ T := h.1
        simp only [hn, if_false] at ih
        simp [ih]
      | cons a t =>
        simp only [List.filter_cons, List.isEmpty_cons, Bool.false_eq_true, if_false, ih,
          List.mem_cons]
        simp

/-- the admissible path sets: non-empty key sequences without `*`, all ending in `key` -/
def GoodD (key : Str) (D : List (List Str)) : Prop :=
  ∀ q ∈ D, q ≠ [] ∧ q.getLast? = some key ∧ ∀ k ∈ q, k ≠ ['*']

/-- one entry's share of `walk none (.map kvs) q` -/
def entryWalk (e : Str × Val) (q : List Str) : List Val :=
  match q with
  | k' :: t => if k' = e.1 then walk none e.2 t else []
  | [] => []

theorem walk_map_entries (kvs : Entries) (hd : distinctKeys kvs = true) (q : List Str)
    (hne : q ≠ []) (hstar : ∀ k ∈ q, k ≠ ['*']) :
    walk none (.map kvs) q = kvs.flatMap fun e => entryWalk e q := by
  cases q with
  | nil => exact absurd rfl hne
  | cons k t =>
    have hk : k ≠ ['*'] := hstar k (by simp)
    simp only [walk, hk, if_false, entryWalk]
    have h := lookup_flatMap (fun v => walk none v t) k kvs hd
    simp only [eq_comm (a := k)]
    rw [← h]
    cases lookup k kvs <;> rfl

mutual
theorem walk_paths_perm (key : Str) (hkey : key ≠ ['*']) : ∀ (v : Val) (D : List (List Str)),
    D.Nodup → GoodD key D →
    (∀ q ∈ keyPaths v, q.getLast? = some key → q ∈ D) →
    v.wf = true → Denote.noListInList v = true →
    (D.flatMap (walk none v)).Perm (hasKey key [] v)
  | .map kvs, D, hnd, hg, hsup, hwf, hn => by
      simp only [Val.wf, Bool.and_eq_true] at hwf
      simp only [Denote.noListInList] at hn
      simp only [keyPaths] at hsup
      have h1 : D.flatMap (walk none (.map kvs))
          = D.flatMap (fun q => kvs.flatMap fun e => entryWalk e q) :=
        flatMap_congr_mem (fun q hq => walk_map_entries kvs hwf.2 q (hg q hq).1 (hg q hq).2.2)
      have h2 := walk_paths_perm_entries key hkey kvs D hnd hg hsup hwf.1 hn
      have h3 : hasKey key [] (.map kvs)
          = (kvs.flatMap fun e => if e.1 = key then members e.2 else [])
            ++ hasKeyEntries key [] kvs := by
        have hl := lookup_flatMap members key kvs hwf.2
        simp only [hasKey, hkey, if_false, List.append_nil]
        rw [← hl]
        cases lookup key kvs <;> simp [loadKeyVal_nil]
      rw [h1, h3]
      exact (flatMap_swap_perm (fun q e => entryWalk e q) kvs D).trans h2
  | .list xs, D, hnd, hg, hsup, hwf, hn => by
      simp only [Val.wf] at hwf
      simp only [Denote.noListInList] at hn
      simp only [keyPaths] at hsup
      have h1 : D.flatMap (walk none (.list xs))
          = D.flatMap (fun q => xs.flatMap fun x => walk none x q) := by
        apply flatMap_congr_mem
        intro q hq
        obtain ⟨hne, _, hst⟩ := hg q hq
        cases q with
        | nil => exact absurd rfl hne
        | cons k t => exact walk_list_eq k t (hst k (by simp)) xs hn
      rw [h1]
      simp only [hasKey]
      exact (flatMap_swap_perm (fun q x => walk none x q) xs D).trans
        (walk_paths_perm_list key hkey xs D hnd hg hsup hwf hn)
  | .null, D, _, hg, _, _, _ => by
      have : D.flatMap (walk none .null) = D.flatMap (fun _ => ([] : List Val)) :=
        flatMap_congr_mem (fun q hq => by
          cases q with
          | nil => exact absurd rfl (hg [] hq).1
          | cons k t => simp [walk])
      rw [this]; simp [hasKey]
  | .bool b, D, _, hg, _, _, _ => by
      have : D.flatMap (walk none (.bool b)) = D.flatMap (fun _ => ([] : List Val)) :=
        flatMap_congr_mem (fun q hq => by
          cases q with
          | nil => exact absurd rfl (hg [] hq).1
          | cons k t => simp [walk])
      rw [this]; simp [hasKey]
  | .num t, D, _, hg, _, _, _ => by
      have : D.flatMap (walk none (.num t)) = D.flatMap (fun _ => ([] : List Val)) :=
        flatMap_congr_mem (fun q hq => by
          cases q with
          | nil => exact absurd rfl (hg [] hq).1
          | cons k t => simp [walk])
      rw [this]; simp [hasKey]
  | .str t, D, _, hg, _, _, _ => by
      have : D.flatMap (walk none (.str t)) = D.flatMap (fun _ => ([] : List Val)) :=
        flatMap_congr_mem (fun q hq => by
          cases q with
          | nil => exact absurd rfl (hg [] hq).1
          | cons k t => simp [walk])
      rw [this]; simp [hasKey]
theorem walk_paths_perm_list (key : Str) (hkey : key ≠ ['*']) : ∀ (xs : List Val)
    (D : List (List Str)), D.Nodup → GoodD key D →
    (∀ q ∈ keyPathsList xs, q.getLast? = some key → q ∈ D) →
    Val.wfList xs = true → Denote.noLL_members xs = true →
    (xs.flatMap fun x => D.flatMap (walk none x)).Perm (hasKeyList key [] xs)
  | [], _, _, _, _, _, _ => by simp [hasKeyList]
  | x :: xs, D, hnd, hg, hsup, hwf, hn => by
      simp only [Val.wfList, Bool.and_eq_true] at hwf
      obtain ⟨_, hnx, hnxs⟩ := noLL_members_cons x xs hn
      simp only [keyPathsList, List.mem_append] at hsup
      simp only [List.flatMap_cons, hasKeyList]
      exact List.Perm.append
        (walk_paths_perm key hkey x D hnd hg (fun q hq => hsup q (Or.inl hq)) hwf.1 hnx)
        (walk_paths_perm_list key hkey xs D hnd hg (fun q hq => hsup q (Or.inr hq)) hwf.2 hnxs)
theorem walk_paths_perm_entries (key : Str) (hkey : key ≠ ['*']) : ∀ (kvs : Entries)
    (D : List (List Str)), D.Nodup → GoodD key D →
    (∀ q ∈ keyPathsEntries kvs, q.getLast? = some key → q ∈ D) →
    Val.wfEntries kvs = true → Denote.noLL_entries kvs = true →
    (kvs.flatMap fun e => D.flatMap (entryWalk e)).Perm
      ((kvs.flatMap fun e => if e.1 = key then members e.2 else []) ++ hasKeyEntries key [] kvs)
  | [], _, _, _, _, _, _ => by simp [hasKeyEntries]
  | (k, v) :: rest, D, hnd, hg, hsup, hwf, hn => by
      simp only [Val.wfEntries, Bool.and_eq_true] at hwf
      simp only [Denote.noLL_entries, Bool.and_eq_true] at hn
      have hsup_rest : ∀ q ∈ keyPathsEntries rest, q.getLast? = some key → q ∈ D := by
        intro q hq hl
        apply hsup q _ hl
        simp only [keyPathsEntries, List.mem_append]
        exact Or.inr hq
      have ihr := walk_paths_perm_entries key hkey rest D hnd hg hsup_rest hwf.2 hn.2
      -- the entry (k, v)
      have hT : D.flatMap (entryWalk (k, v)) = (tailsOf k D).flatMap (walk none v) :=
        flatMap_tailsOf k (walk none v) D
      have hTnd := nodup_tailsOf k D hnd
      have hsplit := (List.filter_append_perm (fun t : List Str => t.isEmpty) (tailsOf k D))
      have hmem : ([] ∈ tailsOf k D) ↔ k = key := by
        rw [mem_tailsOf]
        constructor
        · intro h
          have := (hg [k] h).2.1
          simpa using this
        · intro h
          apply hsup [k] _ (by simp [h])
          simp [keyPathsEntries]
      have hA : ((tailsOf k D).filter (fun t => t.isEmpty)).flatMap (walk none v)
          = if k = key then members v else [] := by
        rw [flatMap_filter_isEmpty (walk none v) _ hTnd, walk_nil_members]
        by_cases h : k = key
        · have hm := hmem.2 h
          rw [if_pos hm, if_pos h]
        · have hm : [] ∉ tailsOf k D := fun hm => h (hmem.1 hm)
          simp only [hm, h, if_false]
      have hB : (((tailsOf k D).filter (fun t => !t.isEmpty)).flatMap (walk none v)).Perm
          (hasKey key [] v) := by
        apply walk_paths_perm key hkey v _ (List.Nodup.sublist List.filter_sublist hTnd)
        · intro t ht
          simp only [List.mem_filter, mem_tailsOf, Bool.not_eq_true', List.isEmpty_eq_false_iff]
            at ht
          obtain ⟨_, hl, hst⟩ := hg (k :: t) ht.1
          refine ⟨ht.2, ?_, fun k' hk' => hst k' (by simp [hk'])⟩
          rw [getLast?_cons_of_ne_nil k t ht.2] at hl
          exact hl
        · intro q hq hl
          have hqne := keyPaths_ne_nil v q hq
          simp only [List.mem_filter, mem_tailsOf, Bool.not_eq_true', List.isEmpty_eq_false_iff]
          refine ⟨hsup (k :: q) ?_ ?_, hqne⟩
          · simp only [keyPathsEntries, List.mem_append, List.mem_cons, List.mem_map]
            exact Or.inl (Or.inr ⟨q, hq, rfl⟩)
          · rw [getLast?_cons_of_ne_nil k q hqne]; exact hl
        · exact hwf.1
        · exact hn.1
      have hkv : (D.flatMap (entryWalk (k, v))).Perm
          ((if k = key then members v else []) ++ hasKey key [] v) := by
        rw [hT]
        refine (List.Perm.flatMap_right (walk none v) hsplit.symm).trans ?_
        rw [List.flatMap_append, hA]
        exact List.Perm.append_left _ hB
      simp only [List.flatMap_cons, hasKeyEntries]
      exact (List.Perm.append hkv ihr).trans (perm_4 _ _ _ _)
end

theorem nodup_map_on {α β} (f : α → β) : ∀ l : List α,
    (∀ a ∈ l, ∀ b ∈ l, f a = f b → a = b) → l.Nodup → (l.map f).Nodup
  | [], _, _ => by simp
  | a :: l, hinj, h => by
      rw [List.nodup_cons] at h
      rw [List.map_cons, List.nodup_cons]
      refine ⟨?_, nodup_map_on f l (fun x hx y hy => hinj x (by simp [hx]) y (by simp [hy])) h.2⟩
      intro hm
      obtain ⟨b, hb, hfb⟩ := List.mem_map.1 hm
      have := hinj b (by simp [hb]) a (by simp) hfb
      subst this
      exact h.1 hb

theorem mem_pathsForKey (m : Val) (key : Str) (hs : pathSafe m = true) (p : Str) :
    p ∈ Mxj.pathsForKey m key ↔
      ∃ q, q ∈ keyPaths m ∧ q.getLast? = some key ∧ p = joinDot q := by
  unfold Mxj.pathsForKey
  have h := mem_hasKeyPath key m [] (by simp) hs p
  simp only [List.nil_append] at h
  have hj : joinDot [] = ([] : Str) := rfl
  rw [hj] at h
  rw [List.mem_eraseDups, h]

theorem paths_values_perm (m : Val) (key : Str) (hwf : m.wf = true) (hs : pathSafe m = true)
    (hn : Denote.noListInList m = true) (hk : keySafe key = true) :
    List.Perm ((Mxj.pathsForKey m key).flatMap fun p => oldValues none m p) (hasKey key [] m) := by
  have hP := mem_pathsForKey m key hs
  have hpk : ∀ q ∈ keyPaths m, pathKeys (joinDot q) = q := fun q hq =>
    pathKeys_joinDot q (keyPaths_ne_nil m q hq) (keyPaths_safe m hs q hq)
  have h1 : ((Mxj.pathsForKey m key).flatMap fun p => oldValues none m p)
      = ((Mxj.pathsForKey m key).map pathKeys).flatMap (walk none m) := by
    rw [List.flatMap_map]; rfl
  rw [h1]
  apply walk_paths_perm key (keySafe_ne_star key hk) m
  · apply nodup_map_on pathKeys _ _ (nodup_eraseDups _)
    intro a ha b hb hab
    obtain ⟨qa, hqa, _, rfl⟩ := (hP a).1 ha
    obtain ⟨qb, hqb, _, rfl⟩ := (hP b).1 hb
    rw [hpk qa hqa, hpk qb hqb] at hab
    rw [hab]
  · intro q hq
    obtain ⟨p, hp, rfl⟩ := List.mem_map.1 hq
    obtain ⟨q', hq', hl, rfl⟩ := (hP p).1 hp
    rw [hpk q' hq']
    exact ⟨keyPaths_ne_nil m q' hq', hl,
      fun k hk' => keySafe_ne_star k (keyPaths_safe m hs q' hq' k hk')⟩
  · intro q hq hl
    apply List.mem_map.2
    exact ⟨joinDot q, (hP (joinDot q)).2 ⟨q, hq, hl, rfl⟩, hpk q hq⟩
  · exact hwf
  · exact hn

end Mxj
