/- Mxj.Lemmas.Key — helper lemmas for C08 (ValuesForKey / PathsForKey / sub-key conditions). -/
import Mxj.Model.KeySpec
import Mxj.Model.Denote
namespace Mxj
open KeySpec

/-! ### sub-key conditions -/

theorem subCond_pos (mv : Entries) (k : Str) (sv : SubVal) (h : hasPrefix ['!'] k = false) :
    subCond mv k sv = (if sv = SubVal.str ['*'] then (lookup k mv).isSome
      else match lookup k mv with
        | some v => typedEq sv v
        | none => false) := by
  unfold subCond
  simp only [h, Bool.false_eq_true, if_false, Bool.false_and, Bool.not_false]
  cases lookup k mv with
  | none => simp
  | some vv =>
    by_cases hs : sv = SubVal.str ['*']
    · simp [hs]
    · simp only [hs, decide_false, Bool.false_eq_true, if_false, Option.isSome_some]
      cases sv <;> cases vv <;> simp [typedEq] <;> exact Bool.eq_iff_iff.2 (by simp)

theorem subCond_neg (mv : Entries) (k : Str) (sv : SubVal) :
    subCond mv ('!' :: k) sv = (if sv = SubVal.str ['*'] then (lookup k mv).isNone
      else match lookup k mv with
        | some v => !typedEq sv v
        | none => false) := by
  unfold subCond
  have h : hasPrefix ['!'] ('!' :: k) = true := by simp [hasPrefix, List.isPrefixOf]
  simp only [h, if_true, List.drop_succ_cons, List.drop_zero, Bool.true_and, Bool.not_true]
  cases lookup k mv with
  | none => simp
  | some vv =>
    by_cases hs : sv = SubVal.str ['*']
    · simp [hs]
    · simp only [hs, decide_false, Bool.false_eq_true, if_false, Option.isNone_some]
      cases sv <;> cases vv <;> simp [typedEq] <;> exact Bool.eq_iff_iff.2 (by simp)

theorem subCond_eq_condHolds (mv : Entries) (k : Str) (sv : SubVal) :
    subCond mv k sv = condHolds mv (k, sv) := by
  unfold condHolds
  split
  · rename_i k' heq
    simp only at heq
    subst heq
    exact subCond_neg mv k' sv
  · rename_i hne
    simp only at hne
    apply subCond_pos
    cases k with
    | nil => simp [hasPrefix, List.isPrefixOf]
    | cons c cs =>
      by_cases hc : c = '!'
      · subst hc; exact absurd rfl (hne cs)
      · have hb : (('!' : Char) == c) = false := by
          simp only [beq_eq_false_iff_ne, ne_eq]; exact fun e => hc e.symm
        simp [hasPrefix, List.isPrefixOf, hb]

theorem hasSubKeys_eq_subPred (v : Val) (subs : SubKeys) : hasSubKeys v subs = subPred subs v := by
  unfold hasSubKeys subPred
  cases hs : subs.isEmpty
  · simp only [Bool.false_eq_true, if_false, Bool.false_or]
    cases v with
    | map mv =>
      simp only
      congr 1
      funext c
      obtain ⟨k, sv⟩ := c
      exact subCond_eq_condHolds mv k sv
    | _ => rfl
  · simp

theorem hasSubKeys_nil (v : Val) : hasSubKeys v [] = true := by
  simp [hasSubKeys]

/-! ### ValuesForKey -/

theorem hasSubKeys_scalar (v : Val) (subs : SubKeys) (hm : v.isMap = false) :
    hasSubKeys v subs = subs.isEmpty := by
  unfold hasSubKeys
  cases hs : subs.isEmpty
  · cases v <;> simp_all [Val.isMap]
  · simp

theorem loadKeyVal_nil (v : Val) : loadKeyVal [] v = members v := by
  cases v <;> simp [loadKeyVal, members, hasSubKeys_nil]

theorem loadKeyVal_filter (subs : SubKeys) (v : Val) :
    loadKeyVal subs v = (members v).filter (fun x => hasSubKeys x subs) := by
  cases v with
  | map kvs =>
    simp only [loadKeyVal, members, List.filter_cons, List.filter_nil]
  | list xs => simp only [loadKeyVal, members]
  | null => cases subs <;> simp [loadKeyVal, members, hasSubKeys]
  | bool b => cases subs <;> simp [loadKeyVal, members, hasSubKeys]
  | num t => cases subs <;> simp [loadKeyVal, members, hasSubKeys]
  | str t => cases subs <;> simp [loadKeyVal, members, hasSubKeys]

mutual
theorem hasKey_filter (key : Str) (subs : SubKeys) : ∀ v : Val,
    hasKey key subs v = (hasKey key [] v).filter (fun x => hasSubKeys x subs)
  | .map kvs => by
      simp only [hasKey, List.filter_append, ← hasKeyEntries_filter key subs kvs]
      congr 1
      congr 1
      · cases lookup key kvs with
        | none => rfl
        | some v => simp only [loadKeyVal_filter subs v, loadKeyVal_nil]
      · by_cases hk : key = ['*']
        · simp only [hk, if_true, List.filter_flatMap, loadKeyVal_nil]
          congr 1; funext e; exact loadKeyVal_filter subs e.2
        · simp only [hk, if_false, List.filter_nil]
  | .list xs => by simp only [hasKey]; exact hasKeyList_filter key subs xs
  | .null => by simp [hasKey]
  | .bool _ => by simp [hasKey]
  | .num _ => by simp [hasKey]
  | .str _ => by simp [hasKey]
theorem hasKeyList_filter (key : Str) (subs : SubKeys) : ∀ xs : List Val,
    hasKeyList key subs xs = (hasKeyList key [] xs).filter (fun x => hasSubKeys x subs)
  | [] => by simp [hasKeyList]
  | x :: xs => by
      simp only [hasKeyList, List.filter_append, ← hasKey_filter key subs x,
        ← hasKeyList_filter key subs xs]
theorem hasKeyEntries_filter (key : Str) (subs : SubKeys) : ∀ kvs : Entries,
    hasKeyEntries key subs kvs = (hasKeyEntries key [] kvs).filter (fun x => hasSubKeys x subs)
  | [] => by simp [hasKeyEntries]
  | (k, v) :: rest => by
      simp only [hasKeyEntries, List.filter_append, ← hasKey_filter key subs v,
        ← hasKeyEntries_filter key subs rest]
end

/-- with distinct keys the literal lookup is the filter of the entries carrying that key -/
theorem lookup_filter (key : Str) : ∀ kvs : Entries, distinctKeys kvs = true →
    (match lookup key kvs with
      | some v => members v
      | none => []) = (kvs.filter fun e => e.1 = key).flatMap fun e => members e.2
  | [], _ => by simp [lookup]
  | (k, v) :: rest, h => by
      simp only [distinctKeys, Bool.and_eq_true, Bool.not_eq_true', List.any_eq_false,
        beq_iff_eq] at h
      by_cases hk : key = k
      · subst hk
        have hnone : rest.filter (fun e => decide (e.1 = key)) = [] := by
          rw [List.filter_eq_nil_iff]
          intro e he; simpa using h.1 e he
        simp only [lookup, if_true, List.filter_cons, decide_true, hnone, List.flatMap_cons,
          List.flatMap_nil, List.append_nil]
      · have hk' : ¬ k = key := fun e => hk e.symm
        simp only [lookup, hk, if_false, List.filter_cons, hk', decide_false,
          Bool.false_eq_true]
        exact lookup_filter key rest h.2

theorem lookup_star_none : ∀ kvs : Entries, noStarKeyEntries kvs = true → lookup ['*'] kvs = none
  | [], _ => rfl
  | (k, v) :: rest, h => by
      simp only [noStarKeyEntries, Bool.and_eq_true, bne_iff_ne, ne_eq] at h
      have hk : ¬ ['*'] = k := fun e => h.1.1 e.symm
      simp only [lookup, hk, if_false]
      exact lookup_star_none rest h.2

/-- the per-node hits of `hasKey` are exactly the values the specification says are stored there -/
theorem hits_eq_storedAt (key : Str) (kvs : Entries) (hd : distinctKeys kvs = true)
    (hstar : key = ['*'] → noStarKeyEntries kvs = true) :
    (match lookup key kvs with
      | some v => loadKeyVal [] v
      | none => [])
    ++ (if key = ['*'] then kvs.flatMap (fun e => loadKeyVal [] e.2) else [])
      = storedAt key (.map kvs) := by
  by_cases hk : key = ['*']
  · subst hk
    simp only [lookup_star_none kvs (hstar rfl), if_true, List.nil_append, storedAt,
      decide_true, Bool.true_or, loadKeyVal_nil]
    rw [List.filter_eq_self.2 (fun _ _ => rfl)]
  · simp only [hk, if_false, List.append_nil, storedAt, decide_false, Bool.false_or,
      loadKeyVal_nil]
    exact lookup_filter key kvs hd

mutual
theorem hasKey_eq_nodes (key : Str) : ∀ v : Val, v.wf = true →
    (key = ['*'] → noStarKey v = true) →
    hasKey key [] v = (nodes v).flatMap (storedAt key)
  | .map kvs, hwf, hstar => by
      simp only [Val.wf, Bool.and_eq_true] at hwf
      simp only [noStarKey] at hstar
      simp only [hasKey, nodes, List.flatMap_cons]
      rw [← hasKeyEntries_eq_nodes key kvs hwf.1 hstar]
      have h := hits_eq_storedAt key kvs hwf.2 hstar
      cases hl : lookup key kvs <;> simp only [hl] at h ⊢ <;> rw [h]
  | .list xs, hwf, hstar => by
      simp only [Val.wf] at hwf
      simp only [noStarKey] at hstar
      simp only [hasKey, nodes, List.flatMap_cons, storedAt, List.nil_append]
      exact hasKeyList_eq_nodes key xs hwf hstar
  | .null, _, _ => by simp [hasKey, nodes, storedAt]
  | .bool _, _, _ => by simp [hasKey, nodes, storedAt]
  | .num _, _, _ => by simp [hasKey, nodes, storedAt]
  | .str _, _, _ => by simp [hasKey, nodes, storedAt]
theorem hasKeyList_eq_nodes (key : Str) : ∀ xs : List Val, Val.wfList xs = true →
    (key = ['*'] → noStarKeyList xs = true) →
    hasKeyList key [] xs = (nodesList xs).flatMap (storedAt key)
  | [], _, _ => by simp [hasKeyList, nodesList]
  | x :: xs, hwf, hstar => by
      simp only [Val.wfList, Bool.and_eq_true] at hwf
      simp only [noStarKeyList, Bool.and_eq_true] at hstar
      simp only [hasKeyList, nodesList, List.flatMap_append]
      rw [hasKey_eq_nodes key x hwf.1 (fun h => (hstar h).1),
        hasKeyList_eq_nodes key xs hwf.2 (fun h => (hstar h).2)]
theorem hasKeyEntries_eq_nodes (key : Str) : ∀ kvs : Entries, Val.wfEntries kvs = true →
    (key = ['*'] → noStarKeyEntries kvs = true) →
    hasKeyEntries key [] kvs = (nodesEntries kvs).flatMap (storedAt key)
  | [], _, _ => by simp [hasKeyEntries, nodesEntries]
  | (k, v) :: rest, hwf, hstar => by
      simp only [Val.wfEntries, Bool.and_eq_true] at hwf
      simp only [noStarKeyEntries, Bool.and_eq_true] at hstar
      simp only [hasKeyEntries, nodesEntries, List.flatMap_append]
      rw [hasKey_eq_nodes key v hwf.1 (fun h => (hstar h).1.2),
        hasKeyEntries_eq_nodes key rest hwf.2 (fun h => (hstar h).2)]
end

/-! ### PathsForKey -/

theorem joinWith_concat (sep : Str) (k : Str) : ∀ xs : List Str, xs ≠ [] →
    joinWith sep (xs ++ [k]) = joinWith sep xs ++ sep ++ k
  | [], h => absurd rfl h
  | [x], _ => by simp [joinWith]
  | x :: y :: rest, _ => by
      have ih := joinWith_concat sep k (y :: rest) (by simp)
      simp only [List.cons_append] at ih
      simp only [List.cons_append, joinWith, ih, List.append_assoc]

theorem joinDot_ne_nil : ∀ pre : List Str, pre ≠ [] → (∀ k ∈ pre, k ≠ []) → joinDot pre ≠ []
  | [], h, _ => absurd rfl h
  | [x], _, hk => by simpa [joinDot, joinWith] using hk x (by simp)
  | x :: y :: rest, _, hk => by
      have hx : x ≠ [] := hk x (by simp)
      simp [joinDot, joinWith, hx]

theorem crumb_joinDot (pre : List Str) (k : Str) (hpre : ∀ x ∈ pre, x ≠ []) :
    crumb (joinDot pre) k = joinDot (pre ++ [k]) := by
  unfold crumb
  cases pre with
  | nil => simp [joinDot, joinWith]
  | cons x rest =>
    have hne : joinDot (x :: rest) ≠ [] := joinDot_ne_nil _ (by simp) hpre
    have he : (joinDot (x :: rest)).isEmpty = false := by
      cases h : joinDot (x :: rest) with
      | nil => exact absurd h hne
      | cons _ _ => rfl
    simp only [he, Bool.false_eq_true, if_false]
    exact (joinWith_concat ['.'] k (x :: rest) (by simp)).symm

theorem keySafe_ne_nil (k : Str) (h : keySafe k = true) : k ≠ [] := by
  intro e; subst e; simp [keySafe] at h

mutual
theorem keyPaths_ne_nil : ∀ (v : Val) (q : List Str), q ∈ keyPaths v → q ≠ []
  | .map kvs, q, h => keyPathsEntries_ne_nil kvs q (by simpa [keyPaths] using h)
  | .list xs, q, h => keyPathsList_ne_nil xs q (by simpa [keyPaths] using h)
  | .null, q, h => by simp [keyPaths] at h
  | .bool _, q, h => by simp [keyPaths] at h
  | .num _, q, h => by simp [keyPaths] at h
  | .str _, q, h => by simp [keyPaths] at h
theorem keyPathsList_ne_nil : ∀ (xs : List Val) (q : List Str), q ∈ keyPathsList xs → q ≠ []
  | [], q, h => by simp [keyPathsList] at h
  | x :: xs, q, h => by
      simp only [keyPathsList, List.mem_append] at h
      cases h with
      | inl h => exact keyPaths_ne_nil x q h
      | inr h => exact keyPathsList_ne_nil xs q h
theorem keyPathsEntries_ne_nil : ∀ (kvs : Entries) (q : List Str), q ∈ keyPathsEntries kvs → q ≠ []
  | [], q, h => by simp [keyPathsEntries] at h
  | (k, v) :: rest, q, h => by
      simp only [keyPathsEntries, List.mem_append, List.mem_cons, List.mem_map] at h
      rcases h with (h | ⟨q', _, h⟩) | h
      · subst h; simp
      · subst h; simp
      · exact keyPathsEntries_ne_nil rest q h
end

theorem getLast?_cons_of_ne_nil {α} (a : α) (l : List α) (h : l ≠ []) :
    (a :: l).getLast? = l.getLast? := by
  cases l with
  | nil => exact absurd rfl h
  | cons b l => simp [List.getLast?_cons]

theorem lookup_cons_isSome (key k : Str) (v : Val) (rest : Entries) :
    (lookup key ((k, v) :: rest)).isSome = (decide (key = k) || (lookup key rest).isSome) := by
  by_cases h : key = k <;> simp [lookup, h]

mutual
theorem mem_hasKeyPath (key : Str) : ∀ (v : Val) (pre : List Str), (∀ k ∈ pre, k ≠ []) →
    pathSafe v = true → ∀ p : Str,
    (p ∈ hasKeyPath key (joinDot pre) v ↔
      ∃ q, q ∈ keyPaths v ∧ q.getLast? = some key ∧ p = joinDot (pre ++ q))
  | .map kvs, pre, hpre, hs, p => by
      simp only [pathSafe] at hs
      simp only [hasKeyPath, keyPaths, List.mem_append]
      rw [← mem_hasKeyPathEntries key kvs pre hpre hs p, crumb_joinDot pre key hpre, Or.comm]
      cases (lookup key kvs).isSome <;> simp
  | .list xs, pre, hpre, hs, p => by
      simp only [pathSafe] at hs
      simp only [hasKeyPath, keyPaths]
      exact mem_hasKeyPathList key xs pre hpre hs p
  | .null, _, _, _, _ => by simp [hasKeyPath, keyPaths]
  | .bool _, _, _, _, _ => by simp [hasKeyPath, keyPaths]
  | .num _, _, _, _, _ => by simp [hasKeyPath, keyPaths]
  | .str _, _, _, _, _ => by simp [hasKeyPath, keyPaths]
theorem mem_hasKeyPathList (key : Str) : ∀ (xs : List Val) (pre : List Str),
    (∀ k ∈ pre, k ≠ []) → pathSafeList xs = true → ∀ p : Str,
    (p ∈ hasKeyPathList key (joinDot pre) xs ↔
      ∃ q, q ∈ keyPathsList xs ∧ q.getLast? = some key ∧ p = joinDot (pre ++ q))
  | [], _, _, _, _ => by simp [hasKeyPathList, keyPathsList]
  | x :: xs, pre, hpre, hs, p => by
      simp only [pathSafeList, Bool.and_eq_true] at hs
      simp only [hasKeyPathList, keyPathsList, List.mem_append,
        mem_hasKeyPath key x pre hpre hs.1 p, mem_hasKeyPathList key xs pre hpre hs.2 p]
      constructor
      · rintro (⟨q, h1, h2⟩ | ⟨q, h1, h2⟩)
        · exact ⟨q, Or.inl h1, h2⟩
        · exact ⟨q, Or.inr h1, h2⟩
      · rintro ⟨q, h1 | h1, h2⟩
        · exact Or.inl ⟨q, h1, h2⟩
        · exact Or.inr ⟨q, h1, h2⟩
theorem mem_hasKeyPathEntries (key : Str) : ∀ (kvs : Entries) (pre : List Str),
    (∀ k ∈ pre, k ≠ []) → pathSafeEntries kvs = true → ∀ p : Str,
    ((p ∈ hasKeyPathEntries key (joinDot pre) kvs
        ∨ ((lookup key kvs).isSome = true ∧ p = joinDot (pre ++ [key]))) ↔
      ∃ q, q ∈ keyPathsEntries kvs ∧ q.getLast? = some key ∧ p = joinDot (pre ++ q))
  | [], _, _, _, _ => by simp [hasKeyPathEntries, keyPathsEntries, lookup]
  | (k, v) :: rest, pre, hpre, hs, p => by
      simp only [pathSafeEntries, Bool.and_eq_true] at hs
      have hk : k ≠ [] := keySafe_ne_nil k hs.1.1
      have hpre' : ∀ x ∈ pre ++ [k], x ≠ [] := by
        intro x hx
        simp only [List.mem_append, List.mem_singleton] at hx
        cases hx with
        | inl hx => exact hpre x hx
        | inr hx => subst hx; exact hk
      have ihv := mem_hasKeyPath key v (pre ++ [k]) hpre' hs.1.2 p
      have ihr := mem_hasKeyPathEntries key rest pre hpre hs.2 p
      simp only [hasKeyPathEntries, List.mem_append, crumb_joinDot pre k hpre,
        lookup_cons_isSome, Bool.or_eq_true, decide_eq_true_eq]
      constructor
      · rintro ((h | h) | ⟨h | h, hp⟩)
        · obtain ⟨q', hq', hl, hp⟩ := ihv.1 h
          refine ⟨k :: q', ?_, ?_, ?_⟩
          · simp only [keyPathsEntries, List.mem_append, List.mem_cons, List.mem_map]
            exact Or.inl (Or.inr ⟨q', hq', rfl⟩)
          · rw [getLast?_cons_of_ne_nil k q' (keyPaths_ne_nil v q' hq')]; exact hl
          · rw [hp, List.append_assoc]; rfl
        · obtain ⟨q, hq, hl, hp⟩ := ihr.1 (Or.inl h)
          refine ⟨q, ?_, hl, hp⟩
          simp only [keyPathsEntries, List.mem_append]
          exact Or.inr hq
        · subst h
          refine ⟨[key], ?_, rfl, hp⟩
          simp [keyPathsEntries]
        · obtain ⟨q, hq, hl, hp⟩ := ihr.1 (Or.inr ⟨h, hp⟩)
          refine ⟨q, ?_, hl, hp⟩
          simp only [keyPathsEntries, List.mem_append]
          exact Or.inr hq
      · rintro ⟨q, hq, hl, hp⟩
        simp only [keyPathsEntries, List.mem_append, List.mem_cons, List.mem_map] at hq
        rcases hq with (hq | ⟨q', hq', hq⟩) | hq
        · subst hq
          simp only [List.getLast?_singleton, Option.some.injEq] at hl
          subst hl
          exact Or.inr ⟨Or.inl rfl, hp⟩
        · subst hq
          rw [getLast?_cons_of_ne_nil k q' (keyPaths_ne_nil v q' hq')] at hl
          refine Or.inl (Or.inl (ihv.2 ⟨q', hq', hl, ?_⟩))
          rw [hp, List.append_assoc]; rfl
        · rcases ihr.2 ⟨q, hq, hl, hp⟩ with h | ⟨h, hp⟩
          · exact Or.inl (Or.inr h)
          · exact Or.inr ⟨Or.inr h, hp⟩
end

theorem nodup_eraseDups_aux {α} [BEq α] [LawfulBEq α] : ∀ (n : Nat) (l : List α),
    l.length ≤ n → l.eraseDups.Nodup
  | _, [], _ => by simp
  | 0, a :: as, h => by simp at h
  | n + 1, a :: as, h => by
      rw [List.eraseDups_cons, List.nodup_cons]
      constructor
      · simp [List.mem_eraseDups, List.mem_filter]
      · apply nodup_eraseDups_aux n
        have := List.length_filter_le (fun b => !b == a) as
        simp only [List.length_cons] at h
        omega

theorem nodup_eraseDups {α} [BEq α] [LawfulBEq α] (l : List α) : l.eraseDups.Nodup :=
  nodup_eraseDups_aux l.length l (Nat.le_refl _)

/-! ### PathForKeyShortest -/

theorem shortest_fold : ∀ (ps : List Str) (p : Str),
    let r := ps.foldl (fun best q => if segCount q < segCount best then q else best) p
    (r = p ∨ r ∈ ps) ∧ segCount r ≤ segCount p ∧ ∀ q ∈ ps, segCount r ≤ segCount q
  | [], p => by simp
  | a :: ps, p => by
      intro r
      have ih := shortest_fold ps (if segCount a < segCount p then a else p)
      simp only [] at ih
      have hr : r = ps.foldl (fun best q => if segCount q < segCount best then q else best)
          (if segCount a < segCount p then a else p) := rfl
      rw [← hr] at ih
      obtain ⟨h1, h2, h3⟩ := ih
      by_cases hlt : segCount a < segCount p
      · simp only [hlt, if_true] at h1 h2
        refine ⟨Or.inr ?_, by omega, ?_⟩
        · cases h1 with
          | inl h => simp [h]
          | inr h => simp [h]
        · intro q hq
          simp only [List.mem_cons] at hq
          cases hq with
          | inl h => subst h; exact h2
          | inr h => exact h3 q h
      · simp only [hlt, if_false] at h1 h2
        refine ⟨?_, h2, ?_⟩
        · cases h1 with
          | inl h => exact Or.inl h
          | inr h => exact Or.inr (by simp [h])
        · intro q hq
          simp only [List.mem_cons] at hq
          cases hq with
          | inl h => subst h; omega
          | inr h => exact h3 q h

end Mxj
