/- Mxj.Lemmas.Key — helper lemmas for C08 (ValuesForKey / PathsForKey / sub-key conditions). -/
import Mxj.Model.KeySpec
import Mxj.Model.Denote
namespace Mxj
open KeySpec

/-! ### sub-key conditions -/

theorem subCond_pos (mv : Entries) (k : Str) (sv : SubVal) (h : hasPrefix ['!'] k = false) :
    subCond mv k sv = (if sv = SubVal.str ['*'] then (lookup k mv).isSome
      else match lookup k mv with
        | some v => typedEq sv v
        | none => false) := by
  unfold subCond
  simp only [h, Bool.false_eq_true, if_false, Bool.false_and, Bool.not_false]
  cases lookup k mv with
  | none => simp
  | some vv =>
    by_cases hs : sv = SubVal.str ['*']
    · simp [hs]
    · simp only [hs, decide_false, Bool.false_eq_true, if_false, Option.isSome_some]
      cases sv <;> cases vv <;> simp [typedEq] <;> exact Bool.eq_iff_iff.2 (by simp)

theorem subCond_neg (mv : Entries) (k : Str) (sv : SubVal) :
    subCond mv ('!' :: k) sv = (if sv = SubVal.str ['*'] then (lookup k mv).isNone
      else match lookup k mv with
        | some v => !typedEq sv v
        | none => false) := by
  unfold subCond
  have h : hasPrefix ['!'] ('!' :: k) = true := by simp [hasPrefix, List.isPrefixOf]
  simp only [h, if_true, List.drop_succ_cons, List.drop_zero, Bool.true_and, Bool.not_true]
  cases lookup k mv with
  | none => simp
  | some vv =>
    by_cases hs : sv = SubVal.str ['*']
    · simp [hs]
    · simp only [hs, decide_false, Bool.false_eq_true, if_false, Option.isNone_some]
      cases sv <;> cases vv <;> simp [typedEq] <;> exact Bool.eq_iff_iff.2 (by simp)

theorem subCond_eq_condHolds (mv : Entries) (k : Str) (sv : SubVal) :
    subCond mv k sv = condHolds mv (k, sv) := by
  unfold condHolds
  split
  · rename_i k' heq
    simp only at heq
    subst heq
    exact subCond_neg mv k' sv
  · rename_i hne
    simp only at hne
    apply subCond_pos
    cases k with
    | nil => simp [hasPrefix, List.isPrefixOf]
    | cons c cs =>
      by_cases hc : c = '!'
      · subst hc; exact absurd rfl (hne cs)
      · have hb : (('!' : Char) == c) = false := by
          simp only [beq_eq_false_iff_ne, ne_eq]; exact fun e => hc e.symm
        simp [hasPrefix, List.isPrefixOf, hb]

theorem hasSubKeys_eq_subPred (v : Val) (subs : SubKeys) : hasSubKeys v subs = subPred subs v := by
  unfold hasSubKeys subPred
  cases hs : subs.isEmpty
  · simp only [Bool.false_eq_true, if_false, Bool.false_or]
    cases v with
    | map mv =>
      simp only
      congr 1
      funext c
      obtain ⟨k, sv⟩ := c
      exact subCond_eq_condHolds mv k sv
    | _ => rfl
  · simp

theorem hasSubKeys_nil (v : Val) : hasSubKeys v [] = true := by
  simp [hasSubKeys]

end Mxj
