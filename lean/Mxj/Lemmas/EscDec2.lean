/-
  Mxj.Lemmas.EscDec2 — decoder-side escaping (`XMLEscapeCharsDecoder`), part 2: the encoder
  and the tokenizer's view of raw text.

    * `mapNode f`: `f` on every text node and attribute value of a tree; `nodeVals`: those
      strings, in document order.
    * `StrOnly v`: every leaf of `v` is a string (what the decoder stores with the cast flag off
      and no tag sequence numbers); `DecodedG_StrOnly` gets it from the shape invariant.
    * `encTree_mapLeaves`: on such values the encoder's tree commutes with `mapLeaves`:
      the tree of `mapLeaves f v` is `mapNode f` of the tree of `v` (for `f` that keeps empty /
      non-empty, as `escapeChars` does).
    * `rawView`: what the tokenizer hands over for a tree whose text and attribute values were
      written RAW (the encoder's own escaping off): every value `r` is read as `unesc r`; a bare
      '&', an unknown entity or a raw '<' is a syntax error (`none`).
      `rawView_mapNode_escape`: on escaped values it gives the original tree back.
    * `render_mapNode_escape`: rendering the escaped tree raw = rendering the tree with the
      encoder's escaping on.
-/
import Mxj.Lemmas.EscDec1
namespace Mxj.EscDec
open Mxj Mxj.Enc Mxj.EncSym

/-! ### trees -/

def mapAttr (f : Str → Str) (a : Attr) : Attr := ⟨a.space, a.name, f a.value⟩

mutual
/-- `f` on every text node and every attribute value -/
def mapNode (f : Str → Str) : Node → Node
  | .elem sp name attrs kids => .elem sp name (attrs.map (mapAttr f)) (mapKids f kids)
  | .text s => .text (f s)
  | .comment s => .comment s
  | .procinst t i => .procinst t i
  | .directive s => .directive s
def mapKids (f : Str → Str) : List Node → List Node
  | [] => []
  | k :: ks => mapNode f k :: mapKids f ks
end

theorem mapKids_eq (f : Str → Str) : ∀ (ks : List Node), mapKids f ks = ks.map (mapNode f)
  | [] => rfl
  | k :: ks => by simp only [mapKids, List.map_cons, mapKids_eq f ks]

theorem mapKids_append (f : Str → Str) (a b : List Node) :
    mapKids f (a ++ b) = mapKids f a ++ mapKids f b := by
  simp only [mapKids_eq, List.map_append]

theorem mapKids_isEmpty (f : Str → Str) (ks : List Node) : (mapKids f ks).isEmpty = ks.isEmpty := by
  cases ks <;> rfl

mutual
/-- the text nodes and attribute values of a tree, in document order -/
def nodeVals : Node → List Str
  | .elem _ _ attrs kids => attrs.map (·.value) ++ kidsVals kids
  | .text s => [s]
  | _ => []
def kidsVals : List Node → List Str
  | [] => []
  | k :: ks => nodeVals k ++ kidsVals ks
end

mutual
theorem nodeVals_mapNode (f : Str → Str) : ∀ (n : Node),
    nodeVals (mapNode f n) = (nodeVals n).map f
  | .elem sp name attrs kids => by
      simp only [mapNode, nodeVals, List.map_append, List.map_map, kidsVals_mapKids f kids]
      rfl
  | .text _ => rfl
  | .comment _ => rfl
  | .procinst _ _ => rfl
  | .directive _ => rfl
theorem kidsVals_mapKids (f : Str → Str) : ∀ (ks : List Node),
    kidsVals (mapKids f ks) = (kidsVals ks).map f
  | [] => rfl
  | k :: ks => by
      simp only [mapKids, kidsVals, List.map_append, nodeVals_mapNode f k, kidsVals_mapKids f ks]
end

/-! ### values whose leaves are all strings -/

mutual
def StrOnly : Val → Bool
  | .str _ => true
  | .list xs => StrOnlyList xs
  | .map kvs => StrOnlyEntries kvs
  | _ => false
def StrOnlyList : List Val → Bool
  | [] => true
  | x :: xs => StrOnly x && StrOnlyList xs
def StrOnlyEntries : Entries → Bool
  | [] => true
  | (_, v) :: rest => StrOnly v && StrOnlyEntries rest
end

theorem StrOnly_lookup (k : Str) : ∀ (kvs : Entries) (v : Val), StrOnlyEntries kvs = true →
    lookup k kvs = some v → StrOnly v = true
  | [], _, _, h => by simp [lookup] at h
  | (k', v') :: rest, v, hs, h => by
      simp only [StrOnlyEntries, Bool.and_eq_true] at hs
      simp only [lookup] at h
      split at h
      · simp only [Option.some.injEq] at h; subst h; exact hs.1
      · exact StrOnly_lookup k rest v hs.2 h

mutual
theorem StrOnly_mapLeaves (f : Str → Str) : ∀ (v : Val), StrOnly (mapLeaves f v) = StrOnly v
  | .null => rfl
  | .bool _ => rfl
  | .num _ => rfl
  | .str _ => rfl
  | .list xs => by simp only [mapLeaves, StrOnly, StrOnlyList_mapLeaves f xs]
  | .map kvs => by simp only [mapLeaves, StrOnly, StrOnlyEntries_mapLeaves f kvs]
theorem StrOnlyList_mapLeaves (f : Str → Str) : ∀ (xs : List Val),
    StrOnlyList (mapLeavesList f xs) = StrOnlyList xs
  | [] => rfl
  | x :: xs => by
      simp only [mapLeavesList, StrOnlyList, StrOnly_mapLeaves f x, StrOnlyList_mapLeaves f xs]
theorem StrOnlyEntries_mapLeaves (f : Str → Str) : ∀ (kvs : Entries),
    StrOnlyEntries (mapLeavesEntries f kvs) = StrOnlyEntries kvs
  | [] => rfl
  | (k, v) :: rest => by
      simp only [mapLeavesEntries, StrOnlyEntries, StrOnly_mapLeaves f v,
        StrOnlyEntries_mapLeaves f rest]
end

/-- with the cast flag off an attribute / text entry of the decoded shape is a string -/
theorem attrOk_str (d : DecCfg) (S : Strconv) (hc : d.cast.r = false) (v : Val)
    (h : attrOk d S v = true) : StrOnly v = true := by
  unfold attrOk at h
  simp only [Bool.and_eq_true, decide_eq_true_eq] at h
  have h2 := h.2
  unfold lf at h2
  rw [cast_off S d.cast hc] at h2
  rw [← h2]; rfl

theorem textOk_str (d : DecCfg) (S : Strconv) (hc : d.cast.r = false) (v : Val)
    (h : textOk d S v = true) : StrOnly v = true := by
  unfold textOk at h
  simp only [Bool.and_eq_true] at h
  exact attrOk_str d S hc v h.1.1

theorem leafChildOk_str (d : DecCfg) (S : Strconv) (hc : d.cast.r = false) (v : Val)
    (h : leafChildOk d S v = true) : StrOnly v = true := by
  unfold leafChildOk at h
  simp only [Bool.or_eq_true, decide_eq_true_eq, Bool.and_eq_true] at h
  rcases h with h | h
  · subst h; rfl
  · exact textOk_str d S hc v h.2

mutual
/-- with the cast flag off a value of the decoded shape has only string leaves -/
theorem DecodedChildG_StrOnly (d : DecCfg) (S : Strconv) (e : EncCfg) (hc : d.cast.r = false) :
    ∀ (v : Val), DecodedChildG d S e v = true → StrOnly v = true
  | .str s, _ => rfl
  | .num t, h => by
      simp only [DecodedChildG] at h
      exact leafChildOk_str d S hc _ h
  | .bool b, h => by
      simp only [DecodedChildG] at h
      exact leafChildOk_str d S hc _ h
  | .null, h => by simp [DecodedChildG] at h
  | .map kvs, h => by
      simp only [DecodedChildG, Bool.and_eq_true] at h
      simp only [StrOnly]
      exact DecodedEntriesG_StrOnly d S e hc kvs h.2
  | .list xs, h => by
      simp only [DecodedChildG, Bool.and_eq_true] at h
      simp only [StrOnly]
      exact DecodedListG_StrOnly d S e hc xs h.2
theorem DecodedListG_StrOnly (d : DecCfg) (S : Strconv) (e : EncCfg) (hc : d.cast.r = false) :
    ∀ (xs : List Val), DecodedListG d S e xs = true → StrOnlyList xs = true
  | [], _ => rfl
  | x :: xs, h => by
      simp only [DecodedListG, Bool.and_eq_true] at h
      simp only [StrOnlyList, Bool.and_eq_true]
      exact ⟨DecodedChildG_StrOnly d S e hc x h.1.2, DecodedListG_StrOnly d S e hc xs h.2⟩
theorem DecodedEntriesG_StrOnly (d : DecCfg) (S : Strconv) (e : EncCfg) (hc : d.cast.r = false) :
    ∀ (kvs : Entries), DecodedEntriesG d S e kvs = true → StrOnlyEntries kvs = true
  | [], _ => rfl
  | (k, v) :: rest, h => by
      simp only [DecodedEntriesG, Bool.and_eq_true] at h
      simp only [StrOnlyEntries, Bool.and_eq_true]
      refine ⟨?_, DecodedEntriesG_StrOnly d S e hc rest h.2⟩
      have h1 := h.1
      split at h1
      · simp only [Bool.and_eq_true] at h1
        exact attrOk_str d S hc v h1.1
      · split at h1
        · exact textOk_str d S hc v h1
        · simp only [Bool.and_eq_true] at h1
          exact DecodedChildG_StrOnly d S e hc v h1.2
end

theorem DecodedG_StrOnly (d : DecCfg) (S : Strconv) (e : EncCfg) (hc : d.cast.r = false) (v : Val)
    (h : DecodedG d S e v = true) : StrOnly v = true := by
  unfold DecodedG at h
  simp only [Bool.and_eq_true] at h
  exact DecodedChildG_StrOnly d S e hc v h.2

/-! ### the encoder's tree commutes with `mapLeaves` -/

theorem attrValue_mapLeaves (f : Str → Str) (v : Val) (h : StrOnly v = true) :
    attrValue (mapLeaves f v) = (attrValue v).map f := by
  cases v with
  | str s => rfl
  | list xs => rfl
  | map kvs => rfl
  | null => simp [StrOnly] at h
  | num t => simp [StrOnly] at h
  | bool b => simp [StrOnly] at h

theorem fmtV_mapLeaves (f : Str → Str) (v : Val) (h : StrOnly v = true) :
    fmtV (mapLeaves f v) = (fmtV v).map f := by
  cases v with
  | str s => rfl
  | list xs => rfl
  | map kvs => rfl
  | null => simp [StrOnly] at h
  | num t => simp [StrOnly] at h
  | bool b => simp [StrOnly] at h

theorem encAttr_mapLeaves (e : EncCfg) (f : Str → Str) (k : Str) (v : Val)
    (h : StrOnly v = true) :
    encAttr e k (mapLeaves f v) = (encAttr e k v).map (mapAttr f) := by
  unfold encAttr
  rw [attrValue_mapLeaves f v h]
  cases attrValue v <;> rfl

theorem encAttrs_mapLeaves (e : EncCfg) (f : Str → Str) : ∀ (kvs : Entries),
    StrOnlyEntries kvs = true →
    encAttrs e (mapLeavesEntries f kvs) = (encAttrs e kvs).map (List.map (mapAttr f))
  | [], _ => rfl
  | (k, v) :: rest, h => by
      simp only [StrOnlyEntries, Bool.and_eq_true] at h
      simp only [mapLeavesEntries, encAttrs]
      rw [encAttr_mapLeaves e f k v h.1, encAttrs_mapLeaves e f rest h.2]
      split
      · cases encAttr e k v <;> cases encAttrs e rest <;> rfl
      · rfl

theorem countAttrs_mapLeaves (e : EncCfg) (f : Str → Str) : ∀ (kvs : Entries),
    countAttrs e (mapLeavesEntries f kvs) = countAttrs e kvs
  | [] => rfl
  | (k, v) :: rest => by
      have ih := countAttrs_mapLeaves e f rest
      unfold countAttrs at ih ⊢
      simp only [mapLeavesEntries, List.filter_cons]
      split
      · simp only [List.length_cons, ih]
      · exact ih

theorem length_mapLeavesEntries (f : Str → Str) (kvs : Entries) :
    (mapLeavesEntries f kvs).length = kvs.length := by
  rw [mapLeavesEntries_eq, List.length_map]

theorem mapLeavesList_isEmpty (f : Str → Str) (xs : List Val) :
    (mapLeavesList f xs).isEmpty = xs.isEmpty := by
  cases xs <;> rfl

/-- the list of sibling trees, mapped -/
abbrev mapSibs (f : Str → Str) (r : Except ErrKind (List Node)) : Except ErrKind (List Node) :=
  r.map (mapKids f)

mutual
/-- on values with only string leaves, the encoder's tree of `mapLeaves f v` is `mapNode f` of
    the encoder's tree of `v` (same success / failure) -/
theorem encTree_mapLeaves (e : EncCfg) (f : Str → Str) (hf : ∀ s, (f s).isEmpty = s.isEmpty) :
    ∀ (key : Str) (v : Val), StrOnly v = true →
    encTree e key (mapLeaves f v) = mapSibs f (encTree e key v)
  | key, .map vv, h => by
      simp only [StrOnly] at h
      simp only [mapLeaves, encTree]
      rw [encAttrs_mapLeaves e f vv h, countAttrs_mapLeaves, length_mapLeavesEntries,
        lookup_mapLeaves, encElems_mapLeaves e f hf vv h]
      cases hA : encAttrs e vv with
      | error err => rfl
      | ok attrs =>
        simp only [Except.map]
        by_cases hn : countAttrs e vv = vv.length
        · simp only [hn, if_true]; rfl
        · simp only [hn, if_false]
          cases hl : lookup e.textK vv with
          | none =>
            simp only [Option.map_none]
            cases encElems e vv <;> rfl
          | some tv =>
            simp only [Option.map_some]
            rw [fmtV_mapLeaves f tv (StrOnly_lookup _ vv tv h hl)]
            cases fmtV tv with
            | none => rfl
            | some txt =>
              simp only [Option.map_some]
              by_cases hn1 : countAttrs e vv + 1 = vv.length
              · simp only [hn1, if_true]; rfl
              · simp only [hn1, if_false]
                cases encElems e vv <;> rfl
  | key, .list xs, h => by
      simp only [StrOnly] at h
      simp only [mapLeaves, encTree]
      rw [mapLeavesList_isEmpty, encMembers_mapLeaves e f hf key xs h]
      split <;> rfl
  | key, .str s, _ => by
      simp only [mapLeaves, encTree, hf s]
      split <;> rfl
  | _, .null, h => by simp [StrOnly] at h
  | _, .num _, h => by simp [StrOnly] at h
  | _, .bool _, h => by simp [StrOnly] at h
theorem encMembers_mapLeaves (e : EncCfg) (f : Str → Str) (hf : ∀ s, (f s).isEmpty = s.isEmpty)
    (key : Str) : ∀ (xs : List Val), StrOnlyList xs = true →
    encMembers e key (mapLeavesList f xs) = mapSibs f (encMembers e key xs)
  | [], _ => rfl
  | x :: xs, h => by
      simp only [StrOnlyList, Bool.and_eq_true] at h
      simp only [mapLeavesList, encMembers]
      rw [encTree_mapLeaves e f hf key x h.1, encMembers_mapLeaves e f hf key xs h.2]
      cases encTree e key x with
      | error err => rfl
      | ok a =>
        cases encMembers e key xs with
        | error err => rfl
        | ok r => simp only [mapSibs, Except.map, mapKids_append]
theorem encElems_mapLeaves (e : EncCfg) (f : Str → Str) (hf : ∀ s, (f s).isEmpty = s.isEmpty) :
    ∀ (kvs : Entries), StrOnlyEntries kvs = true →
    encElems e (mapLeavesEntries f kvs) = mapSibs f (encElems e kvs)
  | [], _ => rfl
  | (k, v) :: rest, h => by
      simp only [StrOnlyEntries, Bool.and_eq_true] at h
      simp only [mapLeavesEntries, encElems]
      rw [encTree_mapLeaves e f hf k v h.1, encElems_mapLeaves e f hf rest h.2]
      split
      · rfl
      · cases encTree e k v with
        | error err => rfl
        | ok a =>
          cases encElems e rest with
          | error err => rfl
          | ok r => simp only [mapSibs, Except.map, mapKids_append]
end

/-- the single-tree form: if `v` encodes to the one tree `n`, `mapLeaves f v` encodes to
    `mapNode f n` -/
theorem encTree_mapLeaves_single (e : EncCfg) (f : Str → Str)
    (hf : ∀ s, (f s).isEmpty = s.isEmpty) (key : Str) (v : Val) (n : Node)
    (hs : StrOnly v = true) (h : encTree e key v = .ok [n]) :
    encTree e key (mapLeaves f v) = .ok [mapNode f n] := by
  rw [encTree_mapLeaves e f hf key v hs, h]; rfl

/-! ### the tokenizer's view of raw text -/

/-- attribute values written raw, as the tokenizer reads them -/
def rawAttrs : List Attr → Option (List Attr)
  | [] => some []
  | a :: as =>
    match unesc a.value, rawAttrs as with
    | some v, some r => some (⟨a.space, a.name, v⟩ :: r)
    | _, _ => none

mutual
/-- what the tokenizer returns for a tree whose text nodes and attribute values were written
    raw: each value `r` is read as `unesc r`; `none` = syntax error (bare '&', unknown entity,
    raw '<') -/
def rawView : Node → Option Node
  | .elem sp name attrs kids =>
    match rawAttrs attrs, rawViewKids kids with
    | some a, some k => some (.elem sp name a k)
    | _, _ => none
  | .text s => (unesc s).map Node.text
  | .comment s => some (.comment s)
  | .procinst t i => some (.procinst t i)
  | .directive s => some (.directive s)
def rawViewKids : List Node → Option (List Node)
  | [] => some []
  | k :: ks =>
    match rawView k, rawViewKids ks with
    | some a, some r => some (a :: r)
    | _, _ => none
end

theorem rawAttrs_escape : ∀ (as : List Attr), rawAttrs (as.map (mapAttr escapeChars)) = some as
  | [] => rfl
  | a :: as => by
      simp only [List.map_cons, rawAttrs, mapAttr, unesc_escapeChars, rawAttrs_escape as]

mutual
/-- reading the escaped values back gives the original tree (`unesc ∘ escapeChars = id`, C05) -/
theorem rawView_mapNode_escape : ∀ (n : Node), rawView (mapNode escapeChars n) = some n
  | .elem sp name attrs kids => by
      simp only [mapNode, rawView, rawAttrs_escape attrs, rawViewKids_mapKids_escape kids]
  | .text s => by simp only [mapNode, rawView, unesc_escapeChars, Option.map_some]
  | .comment _ => rfl
  | .procinst _ _ => rfl
  | .directive _ => rfl
theorem rawViewKids_mapKids_escape : ∀ (ks : List Node),
    rawViewKids (mapKids escapeChars ks) = some ks
  | [] => rfl
  | k :: ks => by
      simp only [mapKids, rawViewKids, rawView_mapNode_escape k, rawViewKids_mapKids_escape ks]
end

/-! ### raw rendering of the escaped tree = escaped rendering of the tree -/

/-- the encoder configuration with its own value escaping on / off -/
def escOn (e : EncCfg) : EncCfg := { e with escape := true }
def escOff (e : EncCfg) : EncCfg := { e with escape := false }

theorem renderAttrs_escape (e : EncCfg) (h : e.escape = false) : ∀ (as : List Attr),
    renderAttrs e (as.map (mapAttr escapeChars)) = renderAttrs (escOn e) as
  | [] => rfl
  | a :: as => by
      simp only [List.map_cons, renderAttrs, renderAttrs_escape e h as]
      simp [escIf, h, escOn, mapAttr]

mutual
/-- with the encoder's escaping off, the bytes of the tree with escaped values are the bytes the
    encoder with escaping ON writes for the original tree -/
theorem render_mapNode_escape (e : EncCfg) (h : e.escape = false) : ∀ (n : Node),
    render e (mapNode escapeChars n) = render (escOn e) n
  | .elem sp name attrs kids => by
      simp only [mapNode, render, renderAttrs_escape e h attrs, mapKids_isEmpty,
        renderKids_mapKids_escape e h kids]
      rfl
  | .text s => by simp [mapNode, render, escIf, h, escOn]
  | .comment _ => rfl
  | .procinst _ _ => rfl
  | .directive _ => rfl
theorem renderKids_mapKids_escape (e : EncCfg) (h : e.escape = false) : ∀ (ks : List Node),
    renderKids e (mapKids escapeChars ks) = renderKids (escOn e) ks
  | [] => rfl
  | k :: ks => by
      simp only [mapKids, renderKids, render_mapNode_escape e h k,
        renderKids_mapKids_escape e h ks]
end

/-! ### such values are `Plain` (bytes = rendering of the tree), and their string leaves -/

theorem nullTextOk_StrOnly (e : EncCfg) (k : Str) (v : Val) (h : StrOnly v = true) :
    nullTextOk e k v = true := by
  cases v with
  | null => simp [StrOnly] at h
  | str _ | num _ | bool _ | list _ | map _ => rfl

mutual
theorem StrOnly_Plain (e : EncCfg) : ∀ (v : Val), StrOnly v = true → Plain e v = true
  | .str _, _ => by simp only [Plain]
  | .list xs, h => by
      simp only [StrOnly] at h
      simp only [Plain]
      exact StrOnlyList_Plain e xs h
  | .map kvs, h => by
      simp only [StrOnly] at h
      simp only [Plain]
      exact StrOnlyEntries_Plain e kvs h
  | .null, h => by simp [StrOnly] at h
  | .num _, h => by simp [StrOnly] at h
  | .bool _, h => by simp [StrOnly] at h
theorem StrOnlyList_Plain (e : EncCfg) : ∀ (xs : List Val), StrOnlyList xs = true →
    PlainList e xs = true
  | [], _ => rfl
  | x :: xs, h => by
      simp only [StrOnlyList, Bool.and_eq_true] at h
      simp only [PlainList, Bool.and_eq_true]
      exact ⟨StrOnly_Plain e x h.1, StrOnlyList_Plain e xs h.2⟩
theorem StrOnlyEntries_Plain (e : EncCfg) : ∀ (kvs : Entries), StrOnlyEntries kvs = true →
    PlainEntries e kvs = true
  | [], _ => rfl
  | (k, v) :: rest, h => by
      simp only [StrOnlyEntries, Bool.and_eq_true] at h
      simp only [PlainEntries, Bool.and_eq_true]
      exact ⟨⟨nullTextOk_StrOnly e k v h.1, StrOnly_Plain e v h.1⟩, StrOnlyEntries_Plain e rest h.2⟩
end

mutual
/-- the string leaves of a value (text and attribute values), in entry order -/
def leaves : Val → List Str
  | .str s => [s]
  | .list xs => leavesList xs
  | .map kvs => leavesEntries kvs
  | _ => []
def leavesList : List Val → List Str
  | [] => []
  | x :: xs => leaves x ++ leavesList xs
def leavesEntries : Entries → List Str
  | [] => []
  | (_, v) :: rest => leaves v ++ leavesEntries rest
end

mutual
theorem leaves_mapLeaves (f : Str → Str) : ∀ (v : Val),
    leaves (mapLeaves f v) = (leaves v).map f
  | .null => rfl
  | .bool _ => rfl
  | .num _ => rfl
  | .str _ => rfl
  | .list xs => by simp only [mapLeaves, leaves, leavesList_mapLeaves f xs]
  | .map kvs => by simp only [mapLeaves, leaves, leavesEntries_mapLeaves f kvs]
theorem leavesList_mapLeaves (f : Str → Str) : ∀ (xs : List Val),
    leavesList (mapLeavesList f xs) = (leavesList xs).map f
  | [] => rfl
  | x :: xs => by
      simp only [mapLeavesList, leavesList, List.map_append, leaves_mapLeaves f x,
        leavesList_mapLeaves f xs]
theorem leavesEntries_mapLeaves (f : Str → Str) : ∀ (kvs : Entries),
    leavesEntries (mapLeavesEntries f kvs) = (leavesEntries kvs).map f
  | [] => rfl
  | (k, v) :: rest => by
      simp only [mapLeavesEntries, leavesEntries, List.map_append, leaves_mapLeaves f v,
        leavesEntries_mapLeaves f rest]
end

/-! ### raw values the tokenizer can read back: no raw '<', '>' or '"' -/

/-- no raw '<' (markup), '>' (so no "]]>") and '"' (the attribute delimiter) in a raw value -/
def rawSafeStr (r : Str) : Bool := r.all (fun c => c != '<' && c != '>' && c != '"')

def rawSafe (n : Node) : Bool := (nodeVals n).all rawSafeStr

theorem rawSafeStr_escape (s : Str) : rawSafeStr (escapeChars s) = true := by
  unfold rawSafeStr
  rw [List.all_eq_true]
  intro c hc
  rw [escapeChars_flatMap, List.mem_flatMap] at hc
  obtain ⟨a, _, hca⟩ := hc
  have := escOne_no_specials a c hca
  simp [this.1, this.2.1, this.2.2.1]

theorem rawSafe_mapNode_escape (n : Node) : rawSafe (mapNode escapeChars n) = true := by
  unfold rawSafe
  rw [nodeVals_mapNode, List.all_eq_true]
  intro r hr
  obtain ⟨v, _, rfl⟩ := List.mem_map.1 hr
  exact rawSafeStr_escape v

end Mxj.EscDec
