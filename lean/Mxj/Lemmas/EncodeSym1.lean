/-
  Mxj.Lemmas.EncodeSym1 — C02 for symmetric NON-DEFAULT option pairs, part 1:
  vocabulary (`Sym`, `FoldLaw`, `LeafLaw`, `DecodedG`, `imageG`, `NamesOkG`) and the exact
  computation "decoding the encoder's tree gives the image" for an arbitrary symmetric pair
  `(d, e)` of decoder / encoder configurations.

  This is the development of Lemmas/Encode.lean (§ "decoding the encoder's tree computes the
  image") with `dc`/`ec` replaced by a pair `(d, e)` that agrees on attribute prefix and text
  key; the option-independent lemmas of that file are reused as they are.
-/
import Mxj.Lemmas.Encode
namespace Mxj.EncSym
open Mxj Mxj.Enc

/-! ### symmetric option pairs -/

/-- a symmetric decoder / encoder option pair, as far as the TREE level is concerned (the
    encoder's `escape` / `goEmpty` only matter for bytes): same attribute prefix; same text
    key, which is not itself an attribute key; no tag sequence numbers, no decoder-side
    escaping, no `checkTagToSkip` set.  (The prefix may be empty: then `NamesOkG` only admits
    attribute-free trees.) -/
structure Sym (d : DecCfg) (e : EncCfg) : Prop where
  pfx : e.attrPrefix = d.attrPrefix
  txt : e.textK = d.textK
  txt_not_attr : isAttrK e e.textK = false
  seq : d.seqNum = false
  esc : d.escDec = false
  skip : d.cast.skipSet = false

/-- the leaf conversion of the decoder (`cast`), key-independent without a skip set -/
def lf (d : DecCfg) (S : Strconv) (s : Str) : Val := cast S d.cast s []

/-- `strings.Trim` with the cut set of the configuration -/
def trimG (d : DecCfg) (s : Str) : Str := trimChars (trimSet d) s

/-- the folding applied to an attribute's local name -/
def attrFold (d : DecCfg) (S : Strconv) (name : Str) : Str :=
  let l := if d.snake then snakeCase name else name
  if d.lowerCase then S.lower l else l

theorem attrKey_eq (d : DecCfg) (S : Strconv) (n : Str) :
    attrKey d S n = d.attrPrefix ++ attrFold d S n := rfl

/-- key folding is idempotent (what `FoldLaw` asks of `strings.ToLower`, see `LowerLaw`) -/
structure FoldLaw (d : DecCfg) (S : Strconv) : Prop where
  elem_idem : ∀ s, elemKey d S (elemKey d S s) = elemKey d S s
  attr_idem : ∀ s, attrFold d S (attrFold d S s) = attrFold d S s

/-- the text the encoder writes for a cast leaf is cast back to the same leaf, and is clean
    (trimmed, non-empty) when it came from a trimmed non-empty text -/
structure LeafLaw (d : DecCfg) (S : Strconv) : Prop where
  scalar : ∀ s, isScalar (lf d S s) = true
  reparse : ∀ s, lf d S (leafText (lf d S s)) = lf d S s
  clean : ∀ s, trimG d s = s → s ≠ [] →
    trimG d (leafText (lf d S s)) = leafText (lf d S s) ∧ leafText (lf d S s) ≠ []

theorem cast_key (S : Strconv) (c : CastCfg) (h : c.skipSet = false) (s k : Str) :
    cast S c s k = cast S c s [] := by
  unfold cast; simp [h]

theorem textOf_eq (d : DecCfg) (h : d.escDec = false) (s : Str) : Conv.textOf d s = trimG d s := by
  unfold Conv.textOf escDecIf trimG; simp [h]

theorem seqDecorate_off (d : DecCfg) (h : d.seqNum = false) (seq : Nat) (v : Val) :
    seqDecorate d seq v = (v, seq) := by
  unfold seqDecorate; simp [h]

/-! ### attribute keys -/

theorem isAttrK_drop (e : EncCfg) (k : Str) (h : isAttrK e k = true) :
    e.attrPrefix ++ k.drop e.attrPrefix.length = k := by
  unfold isAttrK at h
  simp only [Bool.and_eq_true] at h
  exact List.prefix_iff_eq_append.1 (List.isPrefixOf_iff_prefix.1 h.2)

theorem isAttrK_append (e : EncCfg) (hne : e.attrPrefix ≠ []) (x : Str) :
    isAttrK e (e.attrPrefix ++ x) = !x.isEmpty := by
  unfold isAttrK
  have h1 : e.attrPrefix.isEmpty = false := by
    cases h : e.attrPrefix with
    | nil => exact absurd h hne
    | cons _ _ => rfl
  have h2 : e.attrPrefix.isPrefixOf (e.attrPrefix ++ x) = true :=
    List.isPrefixOf_iff_prefix.2 (List.prefix_append _ _)
  rw [h1, h2]
  cases x with
  | nil => simp
  | cons c r => simp

/-! ### the shape of decoded values, for a pair `(d, e)` -/

/-- an attribute entry: a scalar that is the cast of its own text -/
def attrOk (d : DecCfg) (S : Strconv) (v : Val) : Bool :=
  isScalar v && decide (lf d S (leafText v) = v)

/-- a text entry / simple element value: additionally its text is trimmed and non-empty -/
def textOk (d : DecCfg) (S : Strconv) (v : Val) : Bool :=
  attrOk d S v && (trimG d (leafText v) == leafText v) && !(leafText v).isEmpty

/-- a leaf in child position: `""` (empty element) or — unless simple values decode as maps —
    a text value -/
def leafChildOk (d : DecCfg) (S : Strconv) (v : Val) : Bool :=
  decide (v = .str []) || (!d.asMap && textOk d S v)

mutual
/-- the shape of what the decoder stores under a key, for the options `d` (and the encoder's
    `e` to classify keys): see `Mxj.DecodedChild` for the default options.  In addition every
    key is a fixed point of the key folding. -/
def DecodedChildG (d : DecCfg) (S : Strconv) (e : EncCfg) : Val → Bool
  | .str s => leafChildOk d S (.str s)
  | .num t => leafChildOk d S (.num t)
  | .bool b => leafChildOk d S (.bool b)
  | .null => false
  | .map kvs =>
      distinctKeys kvs
      && (kvs.any (fun x => x.1 != e.textK) || (d.asMap && !kvs.isEmpty))
      && DecodedEntriesG d S e kvs
  | .list xs => decide (2 ≤ xs.length) && DecodedListG d S e xs
def DecodedListG (d : DecCfg) (S : Strconv) (e : EncCfg) : List Val → Bool
  | [] => true
  | x :: xs => !x.isList && DecodedChildG d S e x && DecodedListG d S e xs
def DecodedEntriesG (d : DecCfg) (S : Strconv) (e : EncCfg) : Entries → Bool
  | [] => true
  | (k, v) :: rest =>
      (if isAttrK e k then
         attrOk d S v && decide (attrKey d S (k.drop e.attrPrefix.length) = k)
       else if k = e.textK then textOk d S v
       else decide (elemKey d S k = k) && DecodedChildG d S e v)
      && DecodedEntriesG d S e rest
end

/-- the shape of an element's value: as above, but not a list -/
def DecodedG (d : DecCfg) (S : Strconv) (e : EncCfg) (v : Val) : Bool :=
  !v.isList && DecodedChildG d S e v

mutual
/-- names of a tree that survive decode → encode: every attribute key is recognised as an
    attribute key by the encoder (its folded local name is non-empty), and no child element's
    key is (it does not properly extend the attribute prefix) -/
def NamesOkG (d : DecCfg) (S : Strconv) (e : EncCfg) : Node → Bool
  | .elem _ _ attrs kids =>
      attrs.all (fun a => isAttrK e (attrKey d S a.name)) && NamesOkKidsG d S e kids
  | _ => true
def NamesOkKidsG (d : DecCfg) (S : Strconv) (e : EncCfg) : List Node → Bool
  | [] => true
  | .elem sp name attrs kids :: rest =>
      !isAttrK e (elemKey d S name) && NamesOkG d S e (.elem sp name attrs kids)
      && NamesOkKidsG d S e rest
  | _ :: rest => NamesOkKidsG d S e rest
end

/-! ### the image of a value under encode-then-decode with `(e, d)` -/

/-- attribute entries come back cast (untrimmed) under the same key -/
def imageAttrsG (d : DecCfg) (S : Strconv) (e : EncCfg) : Entries → Entries
  | [] => []
  | (k, v) :: rest =>
      if isAttrK e k then (k, lf d S ((attrValue v).getD [])) :: imageAttrsG d S e rest
      else imageAttrsG d S e rest

/-- what a text comes back as: nothing when trimming leaves nothing, else the cast -/
def textImg (d : DecCfg) (S : Strconv) (s : Str) : Option Val :=
  if (trimG d s).isEmpty then none else some (lf d S (trimG d s))

def imageTextG (d : DecCfg) (S : Strconv) (e : EncCfg) (kvs : Entries) : Option Val :=
  match lookup e.textK kvs with
  | some tv => textImg d S (leafText tv)
  | none => none

/-- an element with nothing in it is `""`; with only text it is the text (a `{text key: text}`
    map under simple-values-as-map); otherwise a map -/
def finishImageG (d : DecCfg) (e : EncCfg) (base : Entries) (txt : Option Val) : Val :=
  match txt with
  | none => if base.isEmpty then .str [] else .map base
  | some t => if base.isEmpty && !d.asMap then t else .map (base ++ [(e.textK, t)])

mutual
def imageSibsG (d : DecCfg) (S : Strconv) (e : EncCfg) : Val → List Val
  | .list xs => if xs.isEmpty then [.str []] else imageMembersG d S e xs
  | .map kvs =>
      [finishImageG d e (imageAttrsG d S e kvs ++ imageElemsG d S e kvs) (imageTextG d S e kvs)]
  | .null => [.str []]
  | .str s => [finishImageG d e [] (textImg d S s)]
  | .num t => [finishImageG d e [] (textImg d S (numText t))]
  | .bool b => [finishImageG d e [] (textImg d S (leafText (.bool b)))]
def imageMembersG (d : DecCfg) (S : Strconv) (e : EncCfg) : List Val → List Val
  | [] => []
  | x :: xs => imageSibsG d S e x ++ imageMembersG d S e xs
def imageElemsG (d : DecCfg) (S : Strconv) (e : EncCfg) : Entries → Entries
  | [] => []
  | (k, v) :: rest =>
      if k = e.textK || isAttrK e k then imageElemsG d S e rest
      else (k, collectV (imageSibsG d S e v)) :: imageElemsG d S e rest
end

/-- what a value stored under some key comes back as -/
def imageG (d : DecCfg) (S : Strconv) (e : EncCfg) (v : Val) : Val :=
  collectV (imageSibsG d S e v)

/-! ### the pieces of the image of a map -/

def isElemKG (e : EncCfg) (k : Str) : Bool := !(k = e.textK || isAttrK e k)

def elemPairsG (d : DecCfg) (S : Strconv) (e : EncCfg) : Entries → List (Str × Val)
  | [] => []
  | (k, v) :: rest =>
      if k = e.textK || isAttrK e k then elemPairsG d S e rest
      else (imageSibsG d S e v).map (k, ·) ++ elemPairsG d S e rest

mutual
theorem imageSibsG_ne_nil (d : DecCfg) (S : Strconv) (e : EncCfg) :
    ∀ (v : Val), imageSibsG d S e v ≠ []
  | .null => by simp [imageSibsG]
  | .bool _ => by simp [imageSibsG]
  | .num _ => by simp [imageSibsG]
  | .str _ => by simp [imageSibsG]
  | .map _ => by simp [imageSibsG]
  | .list xs => by
      simp only [imageSibsG]
      split
      · simp
      · rename_i h
        exact imageMembersG_ne_nil d S e xs (by intro e; subst e; simp at h)
theorem imageMembersG_ne_nil (d : DecCfg) (S : Strconv) (e : EncCfg) :
    ∀ (xs : List Val), xs ≠ [] → imageMembersG d S e xs ≠ []
  | [], h => absurd rfl h
  | x :: xs, _ => by
      simp only [imageMembersG]
      have := imageSibsG_ne_nil d S e x
      simp [this]
end

theorem keys_imageAttrsG_sub (d : DecCfg) (S : Strconv) (e : EncCfg) :
    ∀ (kvs : Entries) (q : Str), q ∈ keys (imageAttrsG d S e kvs) →
    q ∈ keys kvs ∧ isAttrK e q = true
  | [], _, h => by simp [imageAttrsG, keys] at h
  | (k, v) :: rest, q, h => by
      simp only [imageAttrsG] at h
      split at h
      · rename_i ha
        simp only [keys_cons, List.mem_cons] at h ⊢
        rcases h with rfl | h
        · exact ⟨.inl rfl, ha⟩
        · exact ⟨.inr (keys_imageAttrsG_sub d S e rest q h).1, (keys_imageAttrsG_sub d S e rest q h).2⟩
      · simp only [keys_cons, List.mem_cons]
        exact ⟨.inr (keys_imageAttrsG_sub d S e rest q h).1, (keys_imageAttrsG_sub d S e rest q h).2⟩

theorem keys_imageElemsG_sub (d : DecCfg) (S : Strconv) (e : EncCfg) :
    ∀ (kvs : Entries) (q : Str), q ∈ keys (imageElemsG d S e kvs) →
    q ∈ keys kvs ∧ isElemKG e q = true
  | [], _, h => by simp [imageElemsG, keys] at h
  | (k, v) :: rest, q, h => by
      simp only [imageElemsG] at h
      split at h
      · simp only [keys_cons, List.mem_cons]
        exact ⟨.inr (keys_imageElemsG_sub d S e rest q h).1, (keys_imageElemsG_sub d S e rest q h).2⟩
      · rename_i ha
        simp only [keys_cons, List.mem_cons] at h ⊢
        rcases h with rfl | h
        · exact ⟨.inl rfl, by unfold isElemKG; simpa using ha⟩
        · exact ⟨.inr (keys_imageElemsG_sub d S e rest q h).1, (keys_imageElemsG_sub d S e rest q h).2⟩

theorem keys_elemPairsG_sub (d : DecCfg) (S : Strconv) (e : EncCfg) :
    ∀ (kvs : Entries) (q : Str), q ∈ keys (elemPairsG d S e kvs) → q ∈ keys kvs
  | [], _, h => by simp [elemPairsG, keys] at h
  | (k, v) :: rest, q, h => by
      simp only [elemPairsG] at h
      simp only [keys_cons, List.mem_cons]
      split at h
      · exact .inr (keys_elemPairsG_sub d S e rest q h)
      · rw [keys_append, List.mem_append] at h
        rcases h with h | h
        · left
          obtain ⟨x, hx, rfl⟩ := mem_keys.1 h
          obtain ⟨_, _, rfl⟩ := List.mem_map.1 hx
          rfl
        · exact .inr (keys_elemPairsG_sub d S e rest q h)

/-- grouping the children of a map element: one entry per element key, in entry order -/
theorem groupOnto_elemPairsG (d : DecCfg) (S : Strconv) (e : EncCfg) :
    ∀ (kvs : Entries) (base : Entries), (keys kvs).Nodup →
    (∀ q ∈ keys kvs, isElemKG e q = true → q ∉ keys base) →
    Conv.groupOnto base (elemPairsG d S e kvs) = base ++ imageElemsG d S e kvs
  | [], base, _, _ => by simp [elemPairsG, imageElemsG, groupOnto_nil]
  | (k, v) :: rest, base, hd, hb => by
      simp only [keys_cons, List.nodup_cons] at hd
      have hb' : ∀ q ∈ keys rest, isElemKG e q = true → q ∉ keys base :=
        fun q hq => hb q (List.mem_cons_of_mem _ hq)
      simp only [elemPairsG, imageElemsG]
      split
      · exact groupOnto_elemPairsG d S e rest base hd.2 hb'
      · rename_i hk
        have hk' : isElemKG e k = true := by unfold isElemKG; simpa using hk
        rw [groupOnto_block base k _ _ (imageSibsG_ne_nil d S e v)
          (hb k (List.mem_cons_self ..) hk')
          (fun h => hd.1 (keys_elemPairsG_sub d S e rest k h))]
        rw [groupOnto_elemPairsG d S e rest _ hd.2, List.append_assoc]
        · rfl
        · intro q hq he
          rw [keys_append, List.mem_append, not_or]
          refine ⟨hb' q hq he, ?_⟩
          simp only [keys, List.map_cons, List.map_nil, List.mem_singleton]
          intro e; subst e; exact hd.1 hq

/-! ### attributes -/

theorem loadAttrs_eqG (d : DecCfg) (S : Strconv) (hesc : d.escDec = false)
    (hskip : d.cast.skipSet = false) (attrs : List Attr) :
    loadAttrs d S attrs
      = attrs.foldl (fun na a => insert (attrKey d S a.name) (lf d S a.value) na) [] := by
  unfold loadAttrs
  congr 1
  funext na a
  simp only [escDecIf, hesc, Bool.false_eq_true, if_false, lf]
  rw [cast_key S d.cast hskip]

theorem foldl_insert_freshG (f : Attr → Str) (g : Attr → Val) :
    ∀ (attrs : List Attr) (acc : Entries),
    (keys acc ++ attrs.map f).Nodup →
    attrs.foldl (fun na a => insert (f a) (g a) na) acc = acc ++ attrs.map (fun a => (f a, g a))
  | [], acc, _ => by simp
  | a :: as, acc, h => by
      have hk : f a ∉ keys acc := by
        intro hm
        have := (List.nodup_append.1 h).2.2 _ hm _ (List.mem_map.2 ⟨a, List.mem_cons_self .., rfl⟩)
        exact this rfl
      rw [List.foldl_cons, insert_of_not_mem _ _ _ hk, foldl_insert_freshG f g as]
      · simp
      · rw [keys_append]
        simp only [keys, List.map_nil, List.map_cons, List.append_assoc,
          List.singleton_append] at h ⊢
        exact h

theorem mem_foldl_insertG (f : Attr → Str) (g : Attr → Val) :
    ∀ (attrs : List Attr) (acc : Entries) (x : Str × Val),
    x ∈ attrs.foldl (fun na a => insert (f a) (g a) na) acc →
    x ∈ acc ∨ ∃ a ∈ attrs, x = (f a, g a)
  | [], _, _, h => .inl h
  | a :: as, acc, x, h => by
      rw [List.foldl_cons] at h
      rcases mem_foldl_insertG f g as _ x h with h | ⟨b, hb, he⟩
      · rcases mem_insert h with h | h
        · exact .inr ⟨a, List.mem_cons_self .., h⟩
        · exact .inl h
      · exact .inr ⟨b, List.mem_cons_of_mem _ hb, he⟩

theorem nodup_foldl_insertG (f : Attr → Str) (g : Attr → Val) :
    ∀ (attrs : List Attr) (acc : Entries), (keys acc).Nodup →
    (keys (attrs.foldl (fun na a => insert (f a) (g a) na) acc)).Nodup
  | [], _, h => h
  | a :: as, acc, h => by
      rw [List.foldl_cons]
      exact nodup_foldl_insertG f g as _ (nodup_keys_insert _ _ _ h)

theorem nodup_keys_loadAttrsG (d : DecCfg) (S : Strconv) (attrs : List Attr) :
    (keys (loadAttrs d S attrs)).Nodup := by
  unfold loadAttrs
  exact nodup_foldl_insertG (fun a => attrKey d S a.name)
    (fun a => cast S d.cast (escDecIf d a.value) (attrKey d S a.name)) attrs [] (by simp [keys])

theorem mem_loadAttrsG (d : DecCfg) (S : Strconv) (hesc : d.escDec = false)
    (hskip : d.cast.skipSet = false) (attrs : List Attr) (x : Str × Val)
    (h : x ∈ loadAttrs d S attrs) : ∃ a ∈ attrs, x = (attrKey d S a.name, lf d S a.value) := by
  rw [loadAttrs_eqG d S hesc hskip] at h
  rcases mem_foldl_insertG _ _ attrs [] x h with h | h
  · simp at h
  · exact h

/-- the attribute keys of the entries are fixed points of the attribute-key folding -/
def AttrKeysFixed (d : DecCfg) (S : Strconv) (e : EncCfg) (kvs : Entries) : Prop :=
  ∀ x ∈ kvs, isAttrK e x.1 = true → attrKey d S (x.1.drop e.attrPrefix.length) = x.1

theorem AttrKeysFixed_tail {d : DecCfg} {S : Strconv} {e : EncCfg} {x : Str × Val} {rest : Entries}
    (h : AttrKeysFixed d S e (x :: rest)) : AttrKeysFixed d S e rest :=
  fun y hy => h y (List.mem_cons_of_mem _ hy)

/-- decoding the encoder's attributes gives back the attribute entries, cast -/
theorem encAttrs_imageG (d : DecCfg) (S : Strconv) (e : EncCfg) :
    ∀ (kvs : Entries) (attrs : List Attr), AttrKeysFixed d S e kvs →
    encAttrs e kvs = .ok attrs →
    attrs.map (fun a => (attrKey d S a.name, lf d S a.value)) = imageAttrsG d S e kvs
  | [], attrs, _, h => by
      simp only [encAttrs, Except.ok.injEq] at h; subst h; rfl
  | (k, v) :: rest, attrs, hf, h => by
      simp only [encAttrs] at h
      simp only [imageAttrsG]
      split at h
      · rename_i ha
        simp only [ha, if_true]
        cases hA : encAttr e k v with
        | error err => rw [hA] at h; simp at h
        | ok a =>
          cases hR : encAttrs e rest with
          | error err => rw [hA, hR] at h; simp at h
          | ok r =>
            rw [hA, hR] at h
            simp only [Except.ok.injEq] at h
            subst h
            unfold encAttr at hA
            cases hv : attrValue v with
            | none => rw [hv] at hA; simp at hA
            | some s =>
              rw [hv] at hA
              simp only [Except.ok.injEq] at hA
              subst hA
              simp only [List.map_cons, Option.getD_some,
                encAttrs_imageG d S e rest r (AttrKeysFixed_tail hf) hR]
              congr 2
              exact hf (k, v) (List.mem_cons_self ..) ha
      · rename_i ha
        simp only [ha, Bool.false_eq_true, if_false]
        exact encAttrs_imageG d S e rest attrs (AttrKeysFixed_tail hf) h

theorem nodup_keys_imageAttrsG (d : DecCfg) (S : Strconv) (e : EncCfg) (kvs : Entries)
    (hd : (keys kvs).Nodup) : (keys (imageAttrsG d S e kvs)).Nodup := by
  induction kvs with
  | nil => simp [imageAttrsG, keys]
  | cons x rest ih =>
    obtain ⟨k, v⟩ := x
    simp only [keys_cons, List.nodup_cons] at hd
    simp only [imageAttrsG]
    split
    · simp only [keys_cons, List.nodup_cons]
      exact ⟨fun h => hd.1 (keys_imageAttrsG_sub d S e rest k h).1, ih hd.2⟩
    · exact ih hd.2

theorem loadAttrs_encAttrsG (d : DecCfg) (S : Strconv) (e : EncCfg) (hesc : d.escDec = false)
    (hskip : d.cast.skipSet = false) (kvs : Entries) (attrs : List Attr)
    (hd : (keys kvs).Nodup) (hf : AttrKeysFixed d S e kvs) (h : encAttrs e kvs = .ok attrs) :
    loadAttrs d S attrs = imageAttrsG d S e kvs := by
  have hi := encAttrs_imageG d S e kvs attrs hf h
  rw [loadAttrs_eqG d S hesc hskip,
    foldl_insert_freshG (fun a => attrKey d S a.name) (fun a => lf d S a.value) attrs []]
  · simpa using hi
  · have := nodup_keys_imageAttrsG d S e kvs hd
    rw [← hi] at this
    simpa [keys, Function.comp_def] using this

/-! ### `Conv.childVals` without sequence numbers -/

theorem childVals_appendG (d : DecCfg) (S : Strconv) (hseq : d.seqNum = false) :
    ∀ (a b : List Node) (seq : Nat),
    Conv.childVals d S seq (a ++ b) = Conv.childVals d S seq a ++ Conv.childVals d S seq b
  | [], _, _ => by simp [Conv.childVals]
  | n :: a, b, seq => by
      cases n <;>
        simp only [List.cons_append, Conv.childVals, seqDecorate_off d hseq,
          childVals_appendG d S hseq a b, List.cons_append]

theorem childVals_textG (d : DecCfg) (S : Strconv) (s : Str) (ks : List Node) (seq : Nat) :
    Conv.childVals d S seq (.text s :: ks) = Conv.childVals d S seq ks := by
  simp only [Conv.childVals]

theorem childVals_elemG (d : DecCfg) (S : Strconv) (hseq : d.seqNum = false) (sp name : Str)
    (attrs : List Attr) (kids ks : List Node) (seq : Nat) :
    Conv.childVals d S seq (.elem sp name attrs kids :: ks)
      = (elemKey d S name, Conv.value d S (.elem sp name attrs kids))
          :: Conv.childVals d S seq ks := by
  simp only [Conv.childVals, seqDecorate_off d hseq]

/-! ### the map clause of `encTree`, uniformly -/

theorem lookup_all_attrsG (e : EncCfg) (hta : isAttrK e e.textK = false) :
    ∀ (vv : Entries), countAttrs e vv = vv.length → lookup e.textK vv = none
  | [], _ => rfl
  | (k, v) :: rest, h => by
      rw [countAttrs_cons] at h
      have := countAttrs_le e rest
      simp only [List.length_cons] at h
      by_cases ha : isAttrK e k = true
      · simp only [ha, if_true] at h
        have hk : ¬ e.textK = k := by
          intro he; rw [← he, hta] at ha; simp at ha
        simp only [lookup, hk, if_false]
        exact lookup_all_attrsG e hta rest (by omega)
      · simp only [ha, Bool.false_eq_true, if_false] at h
        omega

theorem encElems_text_attrsG (e : EncCfg) (hta : isAttrK e e.textK = false) :
    ∀ (vv : Entries) (tv : Val), countAttrs e vv + 1 = vv.length →
    lookup e.textK vv = some tv → encElems e vv = .ok []
  | [], _, h, _ => by simp [countAttrs] at h
  | (k, v) :: rest, tv, h, hl => by
      rw [countAttrs_cons] at h
      have := countAttrs_le e rest
      simp only [List.length_cons] at h
      by_cases ha : isAttrK e k = true
      · simp only [ha, if_true] at h
        have hk : ¬ e.textK = k := by
          intro he; rw [← he, hta] at ha; simp at ha
        simp only [lookup, hk, if_false] at hl
        simp only [encElems, ha, Bool.or_true, if_true]
        exact encElems_text_attrsG e hta rest tv (by omega) hl
      · simp only [ha, Bool.false_eq_true, if_false, Nat.zero_add] at h
        have hc : countAttrs e rest = rest.length := by omega
        by_cases hk : k = e.textK
        · simp only [encElems, hk, decide_true, Bool.true_or, if_true]
          exact encElems_all_attrs e rest hc
        · have hk' : ¬ e.textK = k := fun he => hk he.symm
          simp only [lookup, hk', if_false, lookup_all_attrsG e hta rest hc] at hl
          simp at hl

/-- the text child of a map element -/
def textNodesG (e : EncCfg) (vv : Entries) : List Node :=
  match lookup e.textK vv with
  | some tv => [.text (leafText tv)]
  | none => []

theorem encTree_mapG (e : EncCfg) (hta : isAttrK e e.textK = false) (key : Str) (vv : Entries)
    (ns : List Node) (h : encTree e key (.map vv) = .ok ns) :
    ∃ attrs kids, encAttrs e vv = .ok attrs ∧ encElems e vv = .ok kids
      ∧ ns = [.elem [] key attrs (textNodesG e vv ++ kids)] := by
  simp only [encTree] at h
  cases hA : encAttrs e vv with
  | error err => rw [hA] at h; simp at h
  | ok attrs =>
    rw [hA] at h
    simp only at h
    by_cases hn : countAttrs e vv = vv.length
    · simp only [hn, if_true, Except.ok.injEq] at h
      refine ⟨attrs, [], rfl, encElems_all_attrs e vv hn, ?_⟩
      simp only [textNodesG, lookup_all_attrsG e hta vv hn]
      exact h.symm
    · simp only [hn, if_false] at h
      cases hl : lookup e.textK vv with
      | some tv =>
        rw [hl] at h
        simp only at h
        cases hf : fmtV tv with
        | none => rw [hf] at h; simp at h
        | some txt =>
          rw [hf] at h
          simp only at h
          have htn : textNodesG e vv = [.text txt] := by
            simp only [textNodesG, hl, leafText, hf, Option.getD_some]
          by_cases hn1 : countAttrs e vv + 1 = vv.length
          · simp only [hn1, if_true, Except.ok.injEq] at h
            refine ⟨attrs, [], rfl, encElems_text_attrsG e hta vv tv hn1 hl, ?_⟩
            rw [htn]; exact h.symm
          · simp only [hn1, if_false] at h
            cases hE : encElems e vv with
            | error err => rw [hE] at h; simp at h
            | ok kids =>
              rw [hE] at h
              simp only [Except.ok.injEq] at h
              refine ⟨attrs, kids, rfl, rfl, ?_⟩
              rw [htn]; exact h.symm
      | none =>
        rw [hl] at h
        simp only at h
        cases hE : encElems e vv with
        | error err => rw [hE] at h; simp at h
        | ok kids =>
          rw [hE] at h
          simp only [Except.ok.injEq] at h
          refine ⟨attrs, kids, rfl, rfl, ?_⟩
          simp only [textNodesG, hl]
          exact h.symm

end Mxj.EncSym
