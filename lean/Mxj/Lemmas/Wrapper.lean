/-
  Mxj.Lemmas.Wrapper — helper lemmas relating the walkers of x2j-wrapper
  (`Mxj.Model.Wrapper`) to the core walker `walk` (C20).
-/
import Mxj.Model.Wrapper
import Mxj.Lemmas.PathIdx
namespace Mxj.Wrapper
open Mxj

/-! ### generic list facts -/

theorem flatMap_filter_eq {α β} (p : α → Bool) (f : α → List β) (l : List α) :
    (l.filter p).flatMap f = l.flatMap (fun x => if p x then f x else []) := by
  induction l with
  | nil => rfl
  | cons a l ih =>
    by_cases h : p a = true
    · simp [h, ih]
    · simp [h, ih]

/-! ### leaves -/

theorem wLeaf_eq (m : Val) : wLeaf m = loadLeaf none m := by
  cases m with
  | list xs =>
    simp only [wLeaf, loadLeaf]
    exact (List.filter_eq_self.2 (fun _ _ => rfl)).symm
  | _ => simp [wLeaf, loadLeaf, passSubs]

theorem wWalk_nil (g : Bool) (m : Val) : wWalk g m [] = wLeaf m := by
  cases m <;> simp [wWalk]

theorem walkNoAttrs_nil (m : Val) : walkNoAttrs m [] = loadLeaf none m := by
  cases m <;> simp [walkNoAttrs]

/-! ### attributes requested: the wrapper's walker is the core walker -/

theorem wWalk_true : ∀ (ks : List Str) (m : Val), wWalk true m ks = walk none m ks := by
  intro ks
  induction ks with
  | nil => intro m; rw [wWalk_nil, walk_nil, wLeaf_eq]
  | cons k ks ih =>
    intro m
    cases m with
    | map kvs =>
      by_cases hk : k = ['*']
      · subst hk
        simp only [wWalk, walk, if_true, Bool.not_true, Bool.and_false, Bool.false_eq_true,
          if_false, ih]
      · simp only [wWalk, walk, hk, if_false, ih]
        rfl
    | list xs =>
      by_cases hk : k = ['*']
      · subst hk
        simp only [wWalk, walk, if_true, Bool.not_true, Bool.and_false, Bool.false_eq_true,
          if_false, ih]
        rfl
      · simp only [wWalk, walk, hk, if_false, ih]
        rfl
    | _ => simp [wWalk, walk]

/-! ### default mode: attribute entries are skipped at wildcard steps -/

theorem wWalk_false : ∀ (ks : List Str) (m : Val), wWalk false m ks = walkNoAttrs m ks := by
  intro ks
  induction ks with
  | nil => intro m; rw [wWalk_nil, walkNoAttrs_nil, wLeaf_eq]
  | cons k ks ih =>
    intro m
    cases m with
    | map kvs =>
      by_cases hk : k = ['*']
      · subst hk
        simp only [wWalk, walkNoAttrs, if_true, Bool.not_false, Bool.and_true, ih,
          flatMap_filter_eq]
        congr 1; funext e
        cases isDashKey e.1 <;> simp
      · simp only [wWalk, walkNoAttrs, hk, if_false, ih]
    | list xs =>
      by_cases hk : k = ['*']
      · subst hk
        simp only [wWalk, walkNoAttrs, if_true, Bool.not_false, Bool.and_true, ih,
          flatMap_filter_eq]
        congr 1; funext x
        cases x with
        | map kvs =>
          simp only
          congr 1; funext e
          cases isDashKey e.1 <;> simp
        | _ => rfl
      · simp only [wWalk, walkNoAttrs, hk, if_false, ih]
    | _ => simp [wWalk, walkNoAttrs]

/-! ### Maps without attribute entries -/

mutual
/-- no map anywhere inside the value has a key starting with '-' -/
def noDashKeys : Val → Bool
  | .list xs => noDashList xs
  | .map kvs => noDashEntries kvs
  | _ => true
def noDashList : List Val → Bool
  | [] => true
  | x :: xs => noDashKeys x && noDashList xs
def noDashEntries : Entries → Bool
  | [] => true
  | (k, v) :: rest => !isDashKey k && noDashKeys v && noDashEntries rest
end

theorem noDashEntries_mem : ∀ (kvs : Entries) (e : Str × Val), noDashEntries kvs = true →
    e ∈ kvs → isDashKey e.1 = false ∧ noDashKeys e.2 = true := by
  intro kvs
  induction kvs with
  | nil => intro e _ h; cases h
  | cons a rest ih =>
    intro e h he
    obtain ⟨k, v⟩ := a
    simp only [noDashEntries, Bool.and_eq_true, Bool.not_eq_true'] at h
    rcases List.mem_cons.1 he with rfl | he'
    · exact ⟨h.1.1, h.1.2⟩
    · exact ih e h.2 he'

theorem noDashList_mem : ∀ (xs : List Val) (x : Val), noDashList xs = true →
    x ∈ xs → noDashKeys x = true := by
  intro xs
  induction xs with
  | nil => intro x _ h; cases h
  | cons a rest ih =>
    intro x h hx
    simp only [noDashList, Bool.and_eq_true] at h
    rcases List.mem_cons.1 hx with rfl | hx'
    · exact h.1
    · exact ih x h.2 hx'

theorem noDashEntries_lookup : ∀ (kvs : Entries) (k : Str) (v : Val), noDashEntries kvs = true →
    lookup k kvs = some v → noDashKeys v = true := by
  intro kvs
  induction kvs with
  | nil => intro k v _ h; simp [lookup] at h
  | cons a rest ih =>
    intro k v h hl
    obtain ⟨k', v'⟩ := a
    simp only [noDashEntries, Bool.and_eq_true, Bool.not_eq_true'] at h
    simp only [lookup] at hl
    split at hl
    · cases hl; exact h.1.2
    · exact ih k v h.2 hl

theorem wWalk_noDash (g : Bool) : ∀ (ks : List Str) (m : Val), noDashKeys m = true →
    wWalk g m ks = walk none m ks := by
  intro ks
  induction ks with
  | nil => intro m _; rw [wWalk_nil, walk_nil, wLeaf_eq]
  | cons k ks ih =>
    intro m hm
    cases m with
    | map kvs =>
      simp only [noDashKeys] at hm
      by_cases hk : k = ['*']
      · subst hk
        simp only [wWalk, walk, if_true]
        apply flatMap_congr_mem
        intro e he
        have := noDashEntries_mem kvs e hm he
        simp [this.1, ih e.2 this.2]
      · simp only [wWalk, walk, hk, if_false]
        cases hl : lookup k kvs with
        | none => rfl
        | some v => exact ih v (noDashEntries_lookup kvs k v hm hl)
    | list xs =>
      simp only [noDashKeys] at hm
      by_cases hk : k = ['*']
      · subst hk
        simp only [wWalk, walk, if_true]
        apply flatMap_congr_mem
        intro x hx
        have hx' := noDashList_mem xs x hm hx
        cases x with
        | map kvs =>
          simp only [noDashKeys] at hx'
          simp only
          apply flatMap_congr_mem
          intro e he
          have := noDashEntries_mem kvs e hx' he
          simp [this.1, ih e.2 this.2]
        | _ => exact ih _ hx'
      · simp only [wWalk, walk, hk, if_false]
        apply flatMap_congr_mem
        intro x hx
        have hx' := noDashList_mem xs x hm hx
        cases x with
        | map kvs =>
          simp only [noDashKeys] at hx'
          simp only
          cases hl : lookup k kvs with
          | none => rfl
          | some v => exact ih v (noDashEntries_lookup kvs k v hx' hl)
        | _ => rfl
    | _ => simp [wWalk, walk]

/-! ### no wildcard in the path: the attribute switch is irrelevant -/

theorem wWalk_no_wild (g g' : Bool) : ∀ (ks : List Str) (m : Val), (∀ k ∈ ks, k ≠ ['*']) →
    wWalk g m ks = wWalk g' m ks := by
  intro ks
  induction ks with
  | nil => intro m _; rw [wWalk_nil, wWalk_nil]
  | cons k ks ih =>
    intro m h
    have hk : k ≠ ['*'] := h k (by simp)
    have ih' : ∀ m, wWalk g m ks = wWalk g' m ks :=
      fun m => ih m (fun k' hk' => h k' (by simp [hk']))
    cases m with
    | map kvs => simp only [wWalk, hk, if_false, ih']
    | list xs => simp only [wWalk, hk, if_false, ih']
    | _ => simp [wWalk]

/-! ### the shortest-path scan -/

/-- the scan keeps a member of the list … -/
theorem foldl_shortest_mem : ∀ (ps : List Str) (p : Str),
    ps.foldl (fun best q => if segCount q < segCount best then q else best) p ∈ p :: ps := by
  intro ps
  induction ps with
  | nil => intro p; simp
  | cons q ps ih =>
    intro p
    simp only [List.foldl_cons]
    by_cases hlt : segCount q < segCount p
    · simp only [hlt, if_true]
      exact List.mem_cons_of_mem _ (ih q)
    · simp only [hlt, if_false]
      rcases List.mem_cons.1 (ih p) with h | h
      · rw [h]; simp
      · exact List.mem_cons_of_mem _ (List.mem_cons_of_mem _ h)

/-- … whose segment count is no larger than any other member's -/
theorem foldl_shortest_le : ∀ (ps : List Str) (p : Str) (r : Str), r ∈ p :: ps →
    segCount (ps.foldl (fun best q => if segCount q < segCount best then q else best) p)
      ≤ segCount r := by
  intro ps
  induction ps with
  | nil => intro p r h; simp at h; subst h; simp
  | cons q ps ih =>
    intro p r h
    simp only [List.foldl_cons]
    by_cases hlt : segCount q < segCount p
    · simp only [hlt, if_true]
      rcases List.mem_cons.1 h with rfl | h'
      · exact Nat.le_trans (ih q q (by simp)) (Nat.le_of_lt hlt)
      · exact ih q r h'
    · simp only [hlt, if_false]
      rcases List.mem_cons.1 h with rfl | h'
      · exact ih r r (by simp)
      · rcases List.mem_cons.1 h' with rfl | h''
        · exact Nat.le_trans (ih p p (by simp)) (Nat.le_of_not_lt hlt)
        · exact ih p r (List.mem_cons_of_mem _ h'')

theorem shortestOf_mem (ps : List Str) (h : ps ≠ []) : shortestOf ps ∈ ps := by
  cases ps with
  | nil => exact absurd rfl h
  | cons p ps => exact foldl_shortest_mem ps p

theorem shortestOf_le (ps : List Str) (r : Str) (h : r ∈ ps) :
    segCount (shortestOf ps) ≤ segCount r := by
  cases ps with
  | nil => cases h
  | cons p ps => exact foldl_shortest_le ps p r h

/-! ### PathsForKey / PathForKeyShortest -/

/-- x2j-wrapper `PathsForKey` as repaired: its `hasKeyPath` is textually the core algorithm, the
    basket is a set -/
def wPathsForKey (m : Val) (key : Str) : List Str := (hasKeyPath key [] m).eraseDups

/-- values reached by `ValuesForPath` with no sub-key arguments on a bracket-free path -/
theorem valuesForPath_plain (m : Val) (path : Str) (h1 : path.contains '[' = false) :
    valuesForPath [':'] (fun _ => none) m path [] = .ok (walk none m (pathKeys path)) := by
  unfold valuesForPath
  rw [h1]
  simp [subKeyArg, oldValues]

theorem dropTrailingEmpty_of_last (ks : List Str) (h : ks.getLast? ≠ some []) :
    dropTrailingEmpty ks = ks := by
  unfold dropTrailingEmpty
  split
  · rename_i h'; exact absurd h' h
  · rfl

end Mxj.Wrapper
