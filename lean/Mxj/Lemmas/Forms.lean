/-
  Mxj.Lemmas.Forms — the two loop shapes of the `Maps` string forms (`mapsLoop`, `mapsLoopSep`,
  Mxj.Model.Forms) for an ARBITRARY byte-returning encoder `enc`: accumulator, success, first
  error, splitting the list, congruence.  Used by Mxj.Props.C16ExtForms.
-/
import Mxj.Model.Forms
namespace Mxj.Forms
open Mxj

/-- "\n" in front of every piece -/
def nlEach (xs : List Str) : Str := xs.flatMap (fun x => '\n' :: x)

theorem nlEach_nil : nlEach [] = [] := rfl
theorem nlEach_cons (x : Str) (xs : List Str) : nlEach (x :: xs) = '\n' :: x ++ nlEach xs := by
  simp [nlEach]
theorem nlEach_append (xs ys : List Str) : nlEach (xs ++ ys) = nlEach xs ++ nlEach ys := by
  simp [nlEach]

/-- `strings.Join(x :: xs, "\n")` -/
theorem joinNl_cons (x : Str) : ∀ (xs : List Str), joinWith ['\n'] (x :: xs) = x ++ nlEach xs
  | [] => by simp [joinWith, nlEach]
  | y :: ys => by
      rw [joinWith, joinNl_cons y ys, nlEach_cons]
      simp

theorem joinNl_append (xs ys : List Str) (hx : xs ≠ []) (hy : ys ≠ []) :
    joinWith ['\n'] (xs ++ ys) = joinWith ['\n'] xs ++ ['\n'] ++ joinWith ['\n'] ys := by
  match xs, ys, hx, hy with
  | x :: xs, y :: ys, _, _ =>
    rw [List.cons_append, joinNl_cons, joinNl_cons, joinNl_cons, nlEach_append, nlEach_cons]
    simp

/-! ### `mapsLoop` -/

theorem mapsLoop_acc (enc : Entries → Bytes) : ∀ (ms : Maps) (s : Str),
    mapsLoop enc ms s = (s ++ (mapsLoop enc ms []).1, (mapsLoop enc ms []).2)
  | [], s => by simp [mapsLoop]
  | v :: rest, s => by
      simp only [mapsLoop]
      cases enc v with
      | error e => simp
      | ok x =>
        simp only []
        rw [mapsLoop_acc enc rest (s ++ x), mapsLoop_acc enc rest ([] ++ x)]
        simp

theorem mapsLoop_ok (enc : Entries → Bytes) : ∀ (ms : Maps) (xs : List Str) (s : Str),
    Encodes enc ms xs → mapsLoop enc ms s = (s ++ xs.flatten, none)
  | [], _, s, h => by cases h; simp [mapsLoop]
  | m :: ms, _, s, h => by
      cases h with
      | cons hm hr =>
        simp only [mapsLoop, hm]
        rw [mapsLoop_ok enc ms _ _ hr]
        simp

theorem mapsLoop_first_error (enc : Entries → Bytes) (bad : Entries) (e : ErrKind) (tail : Maps)
    (hb : enc bad = .error e) : ∀ (pre : Maps) (xs : List Str) (s : Str),
    Encodes enc pre xs → mapsLoop enc (pre ++ bad :: tail) s = (s ++ xs.flatten, some e)
  | [], _, s, h => by cases h; simp [mapsLoop, hb]
  | m :: ms, _, s, h => by
      cases h with
      | cons hm hr =>
        simp only [List.cons_append, mapsLoop, hm]
        rw [mapsLoop_first_error enc bad e tail hb ms _ _ hr]
        simp

/-- the loop over `a ++ b` is the loop over `a`, and — unless that stopped with an error — the
    loop over `b` continued from the string accumulated so far -/
theorem mapsLoop_append (enc : Entries → Bytes) (b : Maps) : ∀ (a : Maps) (s : Str),
    mapsLoop enc (a ++ b) s
      = match mapsLoop enc a s with
        | (t, some e) => (t, some e)
        | (t, none) => mapsLoop enc b t
  | [], s => by simp [mapsLoop]
  | v :: rest, s => by
      simp only [List.cons_append, mapsLoop]
      cases enc v with
      | error e => rfl
      | ok x => exact mapsLoop_append enc b rest (s ++ x)

/-- the loop succeeds exactly when every member encodes -/
theorem mapsLoop_none_iff (enc : Entries → Bytes) : ∀ (ms : Maps) (s : Str),
    (mapsLoop enc ms s).2 = none ↔ ∃ xs, Encodes enc ms xs
  | [], s => by simp only [mapsLoop, true_iff]; exact ⟨[], All₂.nil⟩
  | v :: rest, s => by
      simp only [mapsLoop]
      cases hv : enc v with
      | error e =>
        simp only [reduceCtorEq, false_iff]
        rintro ⟨xs, h⟩
        cases h with
        | cons hm _ => rw [hv] at hm; cases hm
      | ok x =>
        simp only []
        rw [mapsLoop_none_iff enc rest (s ++ x)]
        constructor
        · rintro ⟨xs, h⟩; exact ⟨x :: xs, All₂.cons hv h⟩
        · rintro ⟨xs, h⟩
          cases h with
          | cons _ hr => exact ⟨_, hr⟩

theorem mapsLoop_congr (enc enc' : Entries → Bytes) : ∀ (ms ms' : Maps) (s : Str),
    All₂ (fun m m' => enc m = enc' m') ms ms' → mapsLoop enc ms s = mapsLoop enc' ms' s
  | [], _, s, h => by cases h; rfl
  | m :: ms, _, s, h => by
      cases h with
      | cons hm hr =>
        simp only [mapsLoop, hm]
        cases enc' _ with
        | error e => rfl
        | ok x => exact mapsLoop_congr enc enc' ms _ _ hr

/-- nothing after a failing member is looked at -/
theorem mapsLoop_tail_irrelevant (enc : Entries → Bytes) (bad : Entries) (e : ErrKind)
    (hb : enc bad = .error e) (pre tail tail' : Maps) (s : Str) :
    mapsLoop enc (pre ++ bad :: tail) s = mapsLoop enc (pre ++ bad :: tail') s := by
  rw [mapsLoop_append, mapsLoop_append]
  cases mapsLoop enc pre s with
  | mk t o => cases o <;> simp [mapsLoop, hb]

/-- the loop from the empty string over `a ++ b` -/
theorem mapsLoop_split (enc : Entries → Bytes) (a b : Maps) :
    mapsLoop enc (a ++ b) []
      = match mapsLoop enc a [] with
        | (t, some e) => (t, some e)
        | (t, none) => (t ++ (mapsLoop enc b []).1, (mapsLoop enc b []).2) := by
  rw [mapsLoop_append]
  cases mapsLoop enc a [] with
  | mk t o =>
    cases o with
    | some e => rfl
    | none => exact mapsLoop_acc enc b t

/-- Writer-form calls in a row on one Writer = the string loop continued from the Writer's
    content -/
theorem writeAll_eq_loop (enc : Entries → Bytes) : ∀ (ms : Maps) (w : Sink),
    writeAll (fun m => writerForm (enc m)) ms w
      = (⟨(mapsLoop enc ms w.written).1⟩, (mapsLoop enc ms w.written).2)
  | [], w => rfl
  | m :: ms, w => by
      simp only [writeAll, mapsLoop, writerForm]
      cases enc m with
      | error e => rfl
      | ok x => exact writeAll_eq_loop enc ms (w.write x)

theorem All₂.imp {α β : Type} {R S : α → β → Prop} (hrs : ∀ a b, R a b → S a b) :
    ∀ {as : List α} {bs : List β}, All₂ R as bs → All₂ S as bs
  | _, _, .nil => .nil
  | _, _, .cons h t => .cons (hrs _ _ h) (All₂.imp hrs t)

/-! ### `mapsLoopSep` -/

theorem mapsLoopSep_ok_true (enc : Entries → Bytes) : ∀ (ms : Maps) (xs : List Str) (s : Str),
    Encodes enc ms xs → mapsLoopSep enc ms true s = (s ++ nlEach xs, none)
  | [], _, s, h => by cases h; simp [mapsLoopSep, nlEach]
  | m :: ms, _, s, h => by
      cases h with
      | cons hm hr =>
        simp only [mapsLoopSep, hm, if_true]
        rw [mapsLoopSep_ok_true enc ms _ _ hr, nlEach_cons]
        simp

/-- from the initial state `haveFirst = false`: the pieces joined with "\n", no trailing "\n" -/
theorem mapsLoopSep_ok (enc : Entries → Bytes) (ms : Maps) (xs : List Str) (s : Str)
    (h : Encodes enc ms xs) : mapsLoopSep enc ms false s = (s ++ joinWith ['\n'] xs, none) := by
  cases h with
  | nil => simp [mapsLoopSep, joinWith]
  | cons hm hr =>
    simp only [mapsLoopSep, hm]
    rw [mapsLoopSep_ok_true enc _ _ _ hr, joinNl_cons]
    simp

theorem mapsLoopSep_first_error_true (enc : Entries → Bytes) (bad : Entries) (e : ErrKind)
    (tail : Maps) (hb : enc bad = .error e) : ∀ (pre : Maps) (xs : List Str) (s : Str),
    Encodes enc pre xs → mapsLoopSep enc (pre ++ bad :: tail) true s = (s ++ nlEach xs, some e)
  | [], _, s, h => by cases h; simp [mapsLoopSep, hb, nlEach]
  | m :: ms, _, s, h => by
      cases h with
      | cons hm hr =>
        simp only [List.cons_append, mapsLoopSep, hm, if_true]
        rw [mapsLoopSep_first_error_true enc bad e tail hb ms _ _ hr, nlEach_cons]
        simp

/-- the "\n" is written only after the next member has been encoded: on an error the string
    returned does not end in a separator -/
theorem mapsLoopSep_first_error (enc : Entries → Bytes) (bad : Entries) (e : ErrKind)
    (tail : Maps) (hb : enc bad = .error e) (pre : Maps) (xs : List Str) (s : Str)
    (h : Encodes enc pre xs) :
    mapsLoopSep enc (pre ++ bad :: tail) false s = (s ++ joinWith ['\n'] xs, some e) := by
  cases h with
  | nil => simp [mapsLoopSep, hb, joinWith]
  | cons hm hr =>
    simp only [List.cons_append, mapsLoopSep, hm]
    rw [mapsLoopSep_first_error_true enc bad e tail hb _ _ _ hr, joinNl_cons]
    simp

theorem mapsLoopSep_append (enc : Entries → Bytes) (b : Maps) : ∀ (a : Maps) (hf : Bool) (s : Str),
    mapsLoopSep enc (a ++ b) hf s
      = match mapsLoopSep enc a hf s with
        | (t, some e) => (t, some e)
        | (t, none) => mapsLoopSep enc b (hf || !a.isEmpty) t
  | [], hf, s => by simp [mapsLoopSep]
  | v :: rest, hf, s => by
      simp only [List.cons_append, mapsLoopSep]
      cases enc v with
      | error e => rfl
      | ok x =>
        simp only []
        rw [mapsLoopSep_append enc b rest true]
        simp

theorem mapsLoopSep_tail_irrelevant (enc : Entries → Bytes) (bad : Entries) (e : ErrKind)
    (hb : enc bad = .error e) (pre tail tail' : Maps) (hf : Bool) (s : Str) :
    mapsLoopSep enc (pre ++ bad :: tail) hf s = mapsLoopSep enc (pre ++ bad :: tail') hf s := by
  rw [mapsLoopSep_append, mapsLoopSep_append]
  cases mapsLoopSep enc pre hf s with
  | mk t o => cases o <;> simp [mapsLoopSep, hb]

theorem mapsLoopSep_congr (enc enc' : Entries → Bytes) : ∀ (ms ms' : Maps) (hf : Bool) (s : Str),
    All₂ (fun m m' => enc m = enc' m') ms ms' →
    mapsLoopSep enc ms hf s = mapsLoopSep enc' ms' hf s
  | [], _, _, s, h => by cases h; rfl
  | m :: ms, _, hf, s, h => by
      cases h with
      | cons hm hr =>
        simp only [mapsLoopSep, hm]
        cases enc' _ with
        | error e => rfl
        | ok x => exact mapsLoopSep_congr enc enc' ms _ _ _ hr

/-- an encoder that never fails: the member encodings are `ms.map f` -/
theorem encodes_total (f : Entries → Str) : ∀ (ms : Maps),
    Encodes (fun m => .ok (f m)) ms (ms.map f)
  | [] => All₂.nil
  | _ :: ms => All₂.cons rfl (encodes_total f ms)

/-! ### the file shape -/

theorem fileForm_ok (s : Str) (old : Sink) : fileForm (s, none) old = (⟨s⟩, none) := by
  simp [fileForm, Sink.write, Sink.empty]

theorem fileForm_err (s : Str) (e : ErrKind) (old : Sink) :
    fileForm (s, some e) old = (old, some e) := rfl

end Mxj.Forms
