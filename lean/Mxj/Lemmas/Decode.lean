/-
  Mxj.Lemmas.Decode — helper lemmas for C01 (Props/C01.lean):
  (1) the fuel-indexed token-stream parser `parseElem`/`decodeTop`/`newMapXml` is monotone in
      fuel and, on the tokens of a tree, computes the tree-recursive `Fold.value`/`Fold.doc`
      (explicit fuel bound: number of tokens + 1);
  (2) `strLe` is a total order, `sortByKey` is canonical on entry lists with distinct keys, so
      `≈ᵥ` of two maps follows from key-wise agreement of their lookups (`EqN`);
  (3) the insert/promote fold (`addChild`) agrees key-wise with the declarative grouping
      (`Conv.groupOnto`/`Conv.collect`), and `Fold.value` is `Conv.value` up to `≈ᵥ` on the domain.
-/
import Mxj.Model.Conv
import Mxj.Model.Perm
namespace Mxj

def isStart : Tok → Bool
  | .start .. => true
  | _ => false

namespace Dec

theorem parseElem_mono (cfg : DecCfg) (S : Strconv) (fin : StreamEnd) :
    ∀ (f : Nat) (skey : Str) (na : Entries) (n : Option Val) (seq : Nat) (pend : Option Str)
      (toks : List Tok) (r : Val × List Tok),
      parseElem cfg S fin f skey na n seq pend toks = .ok r →
      parseElem cfg S fin (f + 1) skey na n seq pend toks = .ok r := by
  intro f
  induction f with
  | zero => intro skey na n seq pend toks r h; simp [parseElem] at h
  | succ f ih =>
    intro skey na n seq pend toks r h
    match toks with
    | [] => cases fin <;> simp [parseElem] at h
    | .stop _ _ :: rest => simpa [parseElem] using h
    | .text s :: rest =>
      simp only [parseElem] at h ⊢
      exact ih _ _ _ _ _ _ _ h
    | .comment _ :: rest =>
      simp only [parseElem] at h ⊢
      exact ih _ _ _ _ _ _ _ h
    | .procinst _ _ :: rest =>
      simp only [parseElem] at h ⊢
      exact ih _ _ _ _ _ _ _ h
    | .directive _ :: rest =>
      simp only [parseElem] at h ⊢
      exact ih _ _ _ _ _ _ _ h
    | .start sp name attrs :: rest =>
      simp only [parseElem] at h ⊢
      cases hp : parseElem cfg S fin f (elemKey cfg S name) (loadAttrs cfg S attrs) none 0 none rest with
      | ok p =>
        obtain ⟨v, rest'⟩ := p
        simp only [hp] at h
        rw [ih _ _ _ _ _ _ _ hp]
        exact ih _ _ _ _ _ _ _ h
      | eof => simp [hp] at h
      | «syntax» => simp [hp] at h
      | err k => simp [hp] at h
      | panic s => simp [hp] at h


theorem parseElem_mono_le (cfg : DecCfg) (S : Strconv) (fin : StreamEnd) {f g : Nat} (hfg : f ≤ g)
    {skey : Str} {na : Entries} {n : Option Val} {seq : Nat} {pend : Option Str}
    {toks : List Tok} {r : Val × List Tok}
    (h : parseElem cfg S fin f skey na n seq pend toks = .ok r) :
    parseElem cfg S fin g skey na n seq pend toks = .ok r := by
  induction hfg with
  | refl => exact h
  | step _ ih => exact parseElem_mono cfg S fin _ _ _ _ _ _ _ _ ih

theorem length_flatten_elem (sp name : Str) (attrs : List Attr) (ks : List Node) :
    (flatten (.elem sp name attrs ks)).length = (flattenKids ks).length + 2 := by
  simp [flatten]

mutual
theorem parse_tree (cfg : DecCfg) (S : Strconv) (fin : StreamEnd) : ∀ (t : Node),
    match t with
    | .elem sp name attrs ks => ∀ (rest : List Tok) (f : Nat), (flattenKids ks).length + 1 ≤ f →
        parseElem cfg S fin f (elemKey cfg S name) (loadAttrs cfg S attrs) none 0 none
          (flattenKids ks ++ Tok.stop sp name :: rest) = .ok (Fold.value cfg S t, rest)
    | _ => True
  | .elem sp name attrs ks => by
      intro rest f hf
      have := parse_kids cfg S fin ks sp name (elemKey cfg S name) (loadAttrs cfg S attrs) none 0 none rest f hf
      simpa [Fold.value] using this
  | .text _ => trivial
  | .comment _ => trivial
  | .procinst _ _ => trivial
  | .directive _ => trivial
theorem parse_kids (cfg : DecCfg) (S : Strconv) (fin : StreamEnd) : ∀ (ks : List Node) (sp nm : Str)
    (skey : Str) (na : Entries) (n : Option Val) (seq : Nat) (pend : Option Str)
    (rest : List Tok) (f : Nat), (flattenKids ks).length + 1 ≤ f →
    parseElem cfg S fin f skey na n seq pend (flattenKids ks ++ Tok.stop sp nm :: rest) =
      .ok (finishElem cfg (Fold.kids' cfg S skey (na, n, seq, pend) ks).1
             (Fold.kids' cfg S skey (na, n, seq, pend) ks).2.1, rest)
  | [], sp, nm, skey, na, n, seq, pend, rest, f, hf => by
      obtain ⟨f, rfl⟩ : ∃ g, f = g + 1 := ⟨f - 1, by simp [flattenKids] at hf; omega⟩
      simp [flattenKids, parseElem, Fold.kids']
  | .text s :: ks, sp, nm, skey, na, n, seq, pend, rest, f, hf => by
      simp only [flattenKids, flatten, List.length_append, List.length_cons, List.length_nil] at hf
      obtain ⟨f, rfl⟩ : ∃ g, f = g + 1 := ⟨f - 1, by omega⟩
      have ih := parse_kids cfg S fin ks sp nm skey
        (onText cfg S skey na n (pend.getD [] ++ s)).1 (onText cfg S skey na n (pend.getD [] ++ s)).2
        seq (some (pend.getD [] ++ s)) rest f (by omega)
      simp only [flattenKids, flatten, List.cons_append, List.nil_append, parseElem, Fold.kids']
      exact ih
  | .comment s :: ks, sp, nm, skey, na, n, seq, pend, rest, f, hf => by
      simp only [flattenKids, flatten, List.length_append, List.length_cons, List.length_nil] at hf
      obtain ⟨f, rfl⟩ : ∃ g, f = g + 1 := ⟨f - 1, by omega⟩
      have ih := parse_kids cfg S fin ks sp nm skey na n seq none rest f (by omega)
      simp only [flattenKids, flatten, List.cons_append, List.nil_append, parseElem, Fold.kids']
      exact ih
  | .procinst a b :: ks, sp, nm, skey, na, n, seq, pend, rest, f, hf => by
      simp only [flattenKids, flatten, List.length_append, List.length_cons, List.length_nil] at hf
      obtain ⟨f, rfl⟩ : ∃ g, f = g + 1 := ⟨f - 1, by omega⟩
      have ih := parse_kids cfg S fin ks sp nm skey na n seq none rest f (by omega)
      simp only [flattenKids, flatten, List.cons_append, List.nil_append, parseElem, Fold.kids']
      exact ih
  | .directive s :: ks, sp, nm, skey, na, n, seq, pend, rest, f, hf => by
      simp only [flattenKids, flatten, List.length_append, List.length_cons, List.length_nil] at hf
      obtain ⟨f, rfl⟩ : ∃ g, f = g + 1 := ⟨f - 1, by omega⟩
      have ih := parse_kids cfg S fin ks sp nm skey na n seq none rest f (by omega)
      simp only [flattenKids, flatten, List.cons_append, List.nil_append, parseElem, Fold.kids']
      exact ih
  | .elem sp' name attrs ks' :: ks, sp, nm, skey, na, n, seq, pend, rest, f, hf => by
      simp only [flattenKids, flatten, List.length_append, List.length_cons, List.length_nil] at hf
      obtain ⟨f, rfl⟩ : ∃ g, f = g + 1 := ⟨f - 1, by omega⟩
      have h1 := parse_tree cfg S fin (.elem sp' name attrs ks')
      simp only at h1
      have h1' := h1 (flattenKids ks ++ Tok.stop sp nm :: rest) f (by omega)
      have h2 := parse_kids cfg S fin ks sp nm skey
        (addChild na (elemKey cfg S name) (seqDecorate cfg seq (Fold.value cfg S (.elem sp' name attrs ks'))).1)
        n (seqDecorate cfg seq (Fold.value cfg S (.elem sp' name attrs ks'))).2 none rest f (by omega)
      simp only [flattenKids, flatten, List.cons_append, List.nil_append, List.append_assoc, parseElem,
        Fold.kids']
      rw [h1']
      exact h2
end


theorem decodeTop_mono (cfg : DecCfg) (S : Strconv) (fin : StreamEnd) :
    ∀ (f : Nat) (toks : List Tok) (r : Val × List Tok),
      decodeTop cfg S fin f toks = .ok r → decodeTop cfg S fin (f + 1) toks = .ok r := by
  intro f
  induction f with
  | zero => intro toks r h; simp [decodeTop] at h
  | succ f ih =>
    intro toks r h
    match toks with
    | [] => cases fin <;> simp [decodeTop] at h
    | .stop _ _ :: rest => simp only [decodeTop] at h ⊢; exact ih _ _ h
    | .text s :: rest => simp only [decodeTop] at h ⊢; exact ih _ _ h
    | .comment _ :: rest => simp only [decodeTop] at h ⊢; exact ih _ _ h
    | .procinst _ _ :: rest => simp only [decodeTop] at h ⊢; exact ih _ _ h
    | .directive _ :: rest => simp only [decodeTop] at h ⊢; exact ih _ _ h
    | .start sp name attrs :: rest =>
      simp only [decodeTop] at h ⊢
      cases hp : parseElem cfg S fin f (elemKey cfg S name) (loadAttrs cfg S attrs) none 0 none rest with
      | ok p =>
        obtain ⟨v, rest'⟩ := p
        simp only [hp] at h
        rw [parseElem_mono cfg S fin _ _ _ _ _ _ _ _ hp]
        exact h
      | eof => simp [hp] at h
      | «syntax» => simp [hp] at h
      | err k => simp [hp] at h
      | panic s => simp [hp] at h

theorem decodeTop_mono_le (cfg : DecCfg) (S : Strconv) (fin : StreamEnd) {f g : Nat} (hfg : f ≤ g)
    {toks : List Tok} {r : Val × List Tok} (h : decodeTop cfg S fin f toks = .ok r) :
    decodeTop cfg S fin g toks = .ok r := by
  induction hfg with
  | refl => exact h
  | step _ ih => exact decodeTop_mono cfg S fin _ _ _ ih

/-- the first call on the tokens of an element: explicit fuel bound -/
theorem decodeTop_tree (cfg : DecCfg) (S : Strconv) (fin : StreamEnd)
    (sp name : Str) (attrs : List Attr) (kids : List Node) (rest : List Tok) (f : Nat)
    (hf : (flattenKids kids).length + 2 ≤ f) :
    decodeTop cfg S fin f (flatten (.elem sp name attrs kids) ++ rest)
      = .ok (Fold.doc cfg S (.elem sp name attrs kids), rest) := by
  obtain ⟨f, rfl⟩ : ∃ g, f = g + 1 := ⟨f - 1, by omega⟩
  have h := parse_tree cfg S fin (.elem sp name attrs kids)
  simp only at h
  have h' := h rest f (by omega)
  simp only [flatten, List.cons_append, List.append_assoc, List.nil_append, decodeTop, h', Fold.doc]

/-- a prolog of non-start tokens costs one unit of fuel per token and is otherwise ignored -/
theorem decodeTop_skip (cfg : DecCfg) (S : Strconv) (fin : StreamEnd) :
    ∀ (pre : List Tok), (∀ t ∈ pre, ¬ isStart t) → ∀ (f : Nat) (toks : List Tok),
      decodeTop cfg S fin (pre.length + f) (pre ++ toks) = decodeTop cfg S fin f toks
  | [], _, f, toks => by simp
  | t :: pre, h, f, toks => by
      have ih := decodeTop_skip cfg S fin pre (fun t ht => h t (List.mem_cons_of_mem _ ht)) f toks
      have ht := h t (List.mem_cons_self ..)
      have e : (t :: pre).length + f = (pre.length + f) + 1 := by simp; omega
      rw [e]
      cases t with
      | start _ _ _ => simp [isStart] at ht
      | stop _ _ => simpa only [List.cons_append, decodeTop] using ih
      | text _ => simpa only [List.cons_append, decodeTop] using ih
      | comment _ => simpa only [List.cons_append, decodeTop] using ih
      | procinst _ _ => simpa only [List.cons_append, decodeTop] using ih
      | directive _ => simpa only [List.cons_append, decodeTop] using ih

theorem newMapXml_tree (cfg : DecCfg) (S : Strconv) (fin : StreamEnd) (pre post : List Tok)
    (hpre : ∀ t ∈ pre, ¬ isStart t) (sp name : Str) (attrs : List Attr) (kids : List Node) :
    newMapXml cfg S (pre ++ flatten (.elem sp name attrs kids) ++ post) fin
      = .ok (Fold.doc cfg S (.elem sp name attrs kids)) := by
  have e : (pre ++ flatten (.elem sp name attrs kids) ++ post).length + 1
      = pre.length + ((flatten (.elem sp name attrs kids)).length + post.length + 1) := by
    simp only [List.length_append]; omega
  unfold newMapXml
  rw [e, List.append_assoc, decodeTop_skip cfg S fin pre hpre,
    decodeTop_tree cfg S fin sp name attrs kids post _ (by rw [length_flatten_elem]; omega)]


/-! ### `strLe` is a total order -/

theorem strLe_total : ∀ (a b : Str), strLe a b = true ∨ strLe b a = true
  | [], _ => by simp [strLe]
  | _ :: _, [] => by simp [strLe]
  | a :: as, b :: bs => by
      have ih := strLe_total as bs
      simp only [strLe, Bool.or_eq_true, decide_eq_true_eq, Bool.and_eq_true, beq_iff_eq]
      rcases ih with h | h
      · rcases Nat.lt_trichotomy a.toNat b.toNat with h1 | h1 | h1
        · exact .inl (.inl h1)
        · exact .inl (.inr ⟨h1, h⟩)
        · exact .inr (.inl h1)
      · rcases Nat.lt_trichotomy a.toNat b.toNat with h1 | h1 | h1
        · exact .inl (.inl h1)
        · exact .inr (.inr ⟨h1.symm, h⟩)
        · exact .inr (.inl h1)

theorem strLe_trans : ∀ (a b c : Str), strLe a b = true → strLe b c = true → strLe a c = true
  | [], _, _, _, _ => by simp [strLe]
  | _ :: _, [], _, h, _ => by simp [strLe] at h
  | _ :: _, _ :: _, [], _, h => by simp [strLe] at h
  | a :: as, b :: bs, c :: cs, h1, h2 => by
      have ih := strLe_trans as bs cs
      simp only [strLe, Bool.or_eq_true, decide_eq_true_eq, Bool.and_eq_true, beq_iff_eq] at h1 h2 ⊢
      rcases h1 with h1 | ⟨e1, h1⟩ <;> rcases h2 with h2 | ⟨e2, h2⟩
      · exact .inl (by omega)
      · exact .inl (by omega)
      · exact .inl (by omega)
      · exact .inr ⟨by omega, ih h1 h2⟩

theorem strLe_antisymm : ∀ (a b : Str), strLe a b = true → strLe b a = true → a = b
  | [], [], _, _ => rfl
  | [], _ :: _, _, h => by simp [strLe] at h
  | _ :: _, [], h, _ => by simp [strLe] at h
  | a :: as, b :: bs, h1, h2 => by
      have ih := strLe_antisymm as bs
      simp only [strLe, Bool.or_eq_true, decide_eq_true_eq, Bool.and_eq_true, beq_iff_eq] at h1 h2
      rcases h1 with h1 | ⟨e1, h1⟩ <;> rcases h2 with h2 | ⟨e2, h2⟩
      · omega
      · omega
      · omega
      · rw [Char.toNat_inj.1 e1, ih h1 h2]

/-! ### `sortByKey`: a permutation, sorted, canonical on lists with distinct keys -/

theorem insertByKey_perm (e : Str × Val) : ∀ (l : Entries), (insertByKey e l).Perm (e :: l)
  | [] => by simp [insertByKey]
  | x :: xs => by
      simp only [insertByKey]
      split
      · exact ((insertByKey_perm e xs).cons x).trans (List.Perm.swap e x xs)
      · exact List.Perm.refl _

theorem sortByKey_perm : ∀ (l : Entries), (sortByKey l).Perm l
  | [] => by simp [sortByKey]
  | x :: xs => by
      have ih := sortByKey_perm xs
      simp only [sortByKey, List.foldr_cons] at ih ⊢
      exact (insertByKey_perm x _).trans (ih.cons x)

def KeySorted (l : Entries) : Prop := l.Pairwise (fun a b => strLe a.1 b.1 = true)

theorem insertByKey_sorted (e : Str × Val) : ∀ (l : Entries), KeySorted l → KeySorted (insertByKey e l)
  | [], _ => by simp [insertByKey, KeySorted]
  | x :: xs, h => by
      unfold KeySorted at h ⊢
      rw [List.pairwise_cons] at h
      simp only [insertByKey]
      split
      · rename_i hx
        rw [List.pairwise_cons]
        refine ⟨?_, insertByKey_sorted e xs h.2⟩
        intro y hy
        rcases List.mem_cons.1 ((insertByKey_perm e xs).mem_iff.1 hy) with rfl | hy
        · exact hx
        · exact h.1 y hy
      · rename_i hx
        have hex : strLe e.1 x.1 = true := by
          rcases strLe_total e.1 x.1 with h' | h'
          · exact h'
          · exact absurd h' hx
        rw [List.pairwise_cons]
        refine ⟨?_, List.pairwise_cons.2 h⟩
        intro y hy
        rcases List.mem_cons.1 hy with rfl | hy
        · exact hex
        · exact strLe_trans _ _ _ hex (h.1 y hy)

theorem sortByKey_sorted : ∀ (l : Entries), KeySorted (sortByKey l)
  | [] => by simp [sortByKey, KeySorted]
  | x :: xs => by
      have ih := sortByKey_sorted xs
      simp only [sortByKey, List.foldr_cons] at ih ⊢
      exact insertByKey_sorted x _ ih

theorem keys_nodup_perm {l l' : Entries} (h : l.Perm l') : (keys l).Nodup ↔ (keys l').Nodup := by
  unfold keys
  exact (h.map (fun e => e.1)).nodup_iff

/-- two key-sorted permutations of each other with pairwise distinct keys are equal -/
theorem sorted_perm_eq {l l' : Entries} (hs : KeySorted l) (hs' : KeySorted l')
    (hd : (keys l).Nodup) (hp : l.Perm l') : l = l' := by
  have hd' : (keys l').Nodup := (keys_nodup_perm hp).1 hd
  have strict : ∀ {m : Entries}, KeySorted m → (keys m).Nodup →
      m.Pairwise (fun a b => strLe a.1 b.1 = true ∧ a.1 ≠ b.1) := by
    intro m hm hn
    refine List.Pairwise.and hm ?_
    unfold keys at hn
    exact List.pairwise_map.1 hn
  refine List.Perm.eq_of_pairwise ?_ (strict hs hd) (strict hs' hd') hp
  intro a b _ _ hab hba
  exact absurd (strLe_antisymm _ _ hab.1 hba.1) hab.2

theorem sortByKey_congr {l l' : Entries} (hd : (keys l).Nodup) (hp : l.Perm l') :
    sortByKey l = sortByKey l' := by
  refine sorted_perm_eq (sortByKey_sorted l) (sortByKey_sorted l') ?_ ?_
  · exact (keys_nodup_perm (sortByKey_perm l)).2 hd
  · exact (sortByKey_perm l).trans (hp.trans (sortByKey_perm l').symm)


/-! ### association lists: lookup / insert / erase -/

theorem lookup_insert (k k' : Str) (v : Val) : ∀ (l : Entries),
    lookup k (insert k' v l) = if k = k' then some v else lookup k l
  | [] => by simp [insert, lookup]
  | (k'', v'') :: rest => by
      have ih := lookup_insert k k' v rest
      simp only [insert]
      by_cases h : k' = k''
      · subst h
        by_cases h2 : k = k' <;> simp [lookup, h2]
      · simp only [h, if_false, lookup, ih]
        by_cases h2 : k = k''
        · subst h2
          have : ¬ k = k' := fun e => h e.symm
          simp [this]
        · simp [h2]

theorem mem_keys_insert (x k : Str) (v : Val) : ∀ (l : Entries),
    x ∈ keys (insert k v l) ↔ x = k ∨ x ∈ keys l
  | [] => by simp [insert, keys]
  | (k', v') :: rest => by
      have ih := mem_keys_insert x k v rest
      simp only [keys, List.map_cons, List.mem_cons] at ih ⊢
      simp only [insert]
      by_cases h : k = k'
      · subst h; simp
      · simp only [h, if_false, List.map_cons, List.mem_cons, ih]
        constructor
        · rintro (h1 | h1 | h1) <;> simp [h1]
        · rintro (h1 | h1 | h1) <;> simp [h1]

theorem nodup_keys_insert (k : Str) (v : Val) : ∀ (l : Entries),
    (keys l).Nodup → (keys (insert k v l)).Nodup
  | [], _ => by simp [insert, keys]
  | (k', v') :: rest, h => by
      have h' : k' ∉ keys rest ∧ (keys rest).Nodup := by simpa [keys] using h
      simp only [insert]
      by_cases hk : k = k'
      · subst hk; simpa [keys] using h
      · simp only [hk, if_false]
        have ih := nodup_keys_insert k v rest h'.2
        have hm := mem_keys_insert k' k v rest
        have : (keys ((k', v') :: insert k v rest)) = k' :: keys (insert k v rest) := by simp [keys]
        rw [this, List.nodup_cons]
        refine ⟨?_, ih⟩
        rw [hm]
        rintro (e | e)
        · exact hk e.symm
        · exact h'.1 e

theorem lookup_eq_none_iff (k : Str) : ∀ (l : Entries), lookup k l = none ↔ k ∉ keys l
  | [] => by simp [lookup, keys]
  | (k', v') :: rest => by
      have ih := lookup_eq_none_iff k rest
      simp only [keys] at ih
      by_cases h : k = k' <;> simp [lookup, keys, h, ih]

theorem isEmpty_iff_lookup (l : Entries) : l.isEmpty = true ↔ ∀ k, lookup k l = none := by
  cases l with
  | nil => simp [lookup]
  | cons e rest =>
    obtain ⟨k, v⟩ := e
    simp only [List.isEmpty_cons, Bool.false_eq_true, false_iff]
    intro h
    have := h k
    simp [lookup] at this

theorem perm_erase (k : Str) (v : Val) : ∀ (l : Entries), lookup k l = some v →
    l.Perm ((k, v) :: erase k l)
  | [], h => by simp [lookup] at h
  | (k', v') :: rest, h => by
      simp only [lookup] at h
      simp only [erase]
      by_cases hk : k = k'
      · subst hk
        simp only [if_true, Option.some.injEq] at h
        subst h
        simp
      · simp only [hk, if_false] at h ⊢
        exact ((perm_erase k v rest h).cons (k', v')).trans (List.Perm.swap _ _ _)

theorem lookup_erase_ne (k k' : Str) (h : k' ≠ k) : ∀ (l : Entries),
    lookup k' (erase k l) = lookup k' l
  | [] => by simp [erase]
  | (k'', v'') :: rest => by
      have ih := lookup_erase_ne k k' h rest
      simp only [erase]
      by_cases hk : k = k''
      · subst hk
        simp [lookup, h]
      · simp only [hk, if_false, lookup, ih]

theorem mem_keys_erase (x k : Str) : ∀ (l : Entries), x ∈ keys (erase k l) → x ∈ keys l
  | [], h => by simp [erase, keys] at h
  | (k', v') :: rest, h => by
      simp only [erase] at h
      by_cases hk : k = k'
      · subst hk
        simp only [if_true] at h
        simp only [keys, List.map_cons, List.mem_cons] at h ⊢
        exact .inr h
      · simp only [hk, if_false, keys, List.map_cons, List.mem_cons] at h ⊢
        rcases h with h | h
        · exact .inl h
        · exact .inr (mem_keys_erase x k rest h)

theorem nodup_keys_erase (k : Str) : ∀ (l : Entries), (keys l).Nodup →
    (keys (erase k l)).Nodup ∧ k ∉ keys (erase k l)
  | [], _ => by simp [erase, keys]
  | (k', v') :: rest, h => by
      have h' : k' ∉ keys rest ∧ (keys rest).Nodup := by simpa [keys] using h
      simp only [erase]
      by_cases hk : k = k'
      · subst hk
        simp only [if_true]
        exact ⟨h'.2, h'.1⟩
      · simp only [hk, if_false]
        have ih := nodup_keys_erase k rest h'.2
        have e : keys ((k', v') :: erase k rest) = k' :: keys (erase k rest) := by simp [keys]
        rw [e, List.nodup_cons, List.mem_cons]
        refine ⟨⟨fun hm => h'.1 (mem_keys_erase _ _ _ hm), ih.1⟩, ?_⟩
        rintro (e' | e')
        · exact hk e'
        · exact ih.2 e'

/-- extensionality: entry lists with distinct keys and the same lookups are permutations -/
theorem perm_of_lookup_eq : ∀ (l l' : Entries), (keys l).Nodup → (keys l').Nodup →
    (∀ k, lookup k l = lookup k l') → l.Perm l'
  | [], l', _, _, h => by
      have : l'.isEmpty = true := (isEmpty_iff_lookup l').2 (fun k => (h k).symm.trans (by simp [lookup]))
      cases l' with
      | nil => exact List.Perm.refl _
      | cons _ _ => simp at this
  | (k, v) :: t, l', hd, hd', h => by
      have hd1 : k ∉ keys t ∧ (keys t).Nodup := by simpa [keys] using hd
      have hk : lookup k l' = some v := by rw [← h k]; simp [lookup]
      have hp := perm_erase k v l' hk
      have he := nodup_keys_erase k l' hd'
      have ih := perm_of_lookup_eq t (erase k l') hd1.2 he.1 (by
        intro k'
        by_cases e : k' = k
        · subst e
          rw [(lookup_eq_none_iff _ _).2 hd1.1, (lookup_eq_none_iff _ _).2 he.2]
        · rw [lookup_erase_ne k k' e, ← h k']
          simp [lookup, e])
      exact (ih.cons (k, v)).trans hp.symm

/-! ### key-wise agreement up to `norm` -/

theorem lookup_normEntries (k : Str) : ∀ (l : Entries),
    lookup k (Val.normEntries l) = (lookup k l).map Val.norm
  | [] => by simp [Val.normEntries, lookup]
  | (k', v') :: rest => by
      have ih := lookup_normEntries k rest
      by_cases h : k = k' <;> simp [Val.normEntries, lookup, h, ih]

theorem keys_normEntries : ∀ (l : Entries), keys (Val.normEntries l) = keys l
  | [] => by simp [Val.normEntries, keys]
  | (k', v') :: rest => by
      have ih := keys_normEntries rest
      simp only [keys] at ih
      simp [Val.normEntries, keys, ih]

/-- the two entry lists hold `≈ᵥ` values under the same keys -/
def EqN (l l' : Entries) : Prop := ∀ k, (lookup k l).map Val.norm = (lookup k l').map Val.norm

theorem EqN.refl (l : Entries) : EqN l l := fun _ => rfl
theorem EqN.symm {l l' : Entries} (h : EqN l l') : EqN l' l := fun k => (h k).symm
theorem EqN.trans {a b c : Entries} (h1 : EqN a b) (h2 : EqN b c) : EqN a c :=
  fun k => (h1 k).trans (h2 k)
theorem EqN.of_lookup {l l' : Entries} (h : ∀ k, lookup k l = lookup k l') : EqN l l' :=
  fun k => by rw [h k]

theorem EqN.norm_map {l l' : Entries} (hd : (keys l).Nodup) (hd' : (keys l').Nodup)
    (h : EqN l l') : (Val.map l).norm = (Val.map l').norm := by
  simp only [Val.norm]
  congr 1
  refine sortByKey_congr (by rw [keys_normEntries]; exact hd) ?_
  refine perm_of_lookup_eq _ _ (by rw [keys_normEntries]; exact hd)
    (by rw [keys_normEntries]; exact hd') ?_
  intro k
  rw [lookup_normEntries, lookup_normEntries]
  exact h k

theorem EqN.isEmpty {l l' : Entries} (h : EqN l l') : l.isEmpty = l'.isEmpty := by
  have key : ∀ {a b : Entries}, EqN a b → a.isEmpty = true → b.isEmpty = true := by
    intro a b hab ha
    rw [isEmpty_iff_lookup] at ha ⊢
    intro k
    have := hab k
    rw [ha k] at this
    cases hb : lookup k b with
    | none => rfl
    | some x => rw [hb] at this; simp at this
  cases h1 : l.isEmpty <;> cases h2 : l'.isEmpty <;> try rfl
  · rw [key h.symm h2] at h1; cases h1
  · rw [key h h1] at h2; cases h2

theorem EqN.insert {l l' : Entries} (h : EqN l l') (k : Str) {v v' : Val}
    (hv : v.norm = v'.norm) : EqN (insert k v l) (insert k v' l') := by
  intro q
  rw [lookup_insert, lookup_insert]
  by_cases e : q = k
  · simp [e, hv]
  · simp only [e, if_false]; exact h q


/-! ### `addChild` = insert of the promoted value; iterated promotion = `Conv.collect` -/

/-- what `addChild` stores under the key, given what is there -/
def promote (o : Option Val) (v : Val) : Val :=
  match o with
  | some (.list xs) => .list (xs ++ [v])
  | some old => .list [old, v]
  | none => v

theorem addChild_eq (na : Entries) (k : Str) (v : Val) :
    addChild na k v = insert k (promote (lookup k na) v) na := by
  unfold addChild promote
  split <;> simp_all

theorem lookup_addChild (q : Str) (na : Entries) (k : Str) (v : Val) :
    lookup q (addChild na k v) = if q = k then some (promote (lookup k na) v) else lookup q na := by
  rw [addChild_eq, lookup_insert]

theorem nodup_keys_addChild (na : Entries) (k : Str) (v : Val) (h : (keys na).Nodup) :
    (keys (addChild na k v)).Nodup := by
  rw [addChild_eq]; exact nodup_keys_insert _ _ _ h

theorem addChild_ne_nil (na : Entries) (k : Str) (v : Val) : (addChild na k v).isEmpty = false := by
  rw [addChild_eq]
  cases na with
  | nil => simp [insert]
  | cons e rest => obtain ⟨k', v'⟩ := e; simp only [insert]; split <;> simp

theorem insert_ne_nil (k : Str) (v : Val) (na : Entries) : (insert k v na).isEmpty = false := by
  cases na with
  | nil => simp [insert]
  | cons e rest => obtain ⟨k', v'⟩ := e; simp only [insert]; split <;> simp

theorem normList_append : ∀ (xs ys : List Val),
    Val.normList (xs ++ ys) = Val.normList xs ++ Val.normList ys
  | [], ys => by simp [Val.normList]
  | x :: xs, ys => by simp [Val.normList, normList_append xs ys]

theorem norm_promote (o : Option Val) (v : Val) :
    (promote o v).norm = promote (o.map Val.norm) v.norm := by
  cases o with
  | none => simp [promote]
  | some old =>
    cases old <;> simp [promote, Val.norm, Val.normList, normList_append]

theorem EqN.addChild {l l' : Entries} (h : EqN l l') (k : Str) {v v' : Val}
    (hv : v.norm = v'.norm) : EqN (addChild l k v) (addChild l' k v') := by
  rw [addChild_eq, addChild_eq]
  refine EqN.insert h k ?_
  rw [norm_promote, norm_promote, h k, hv]

/-- adding the children `cs` (key, value) in order -/
def addAll (na : Entries) (cs : List (Str × Val)) : Entries :=
  cs.foldl (fun b c => addChild b c.1 c.2) na

theorem addAll_nil (na : Entries) : addAll na [] = na := rfl
theorem addAll_cons (na : Entries) (c : Str × Val) (cs : List (Str × Val)) :
    addAll na (c :: cs) = addAll (addChild na c.1 c.2) cs := rfl

theorem EqN.addAll : ∀ (cs : List (Str × Val)) {l l' : Entries}, EqN l l' →
    EqN (addAll l cs) (addAll l' cs)
  | [], _, _, h => h
  | c :: cs, _, _, h => by
      rw [addAll_cons, addAll_cons]
      exact EqN.addAll cs (EqN.addChild h c.1 rfl)

theorem nodup_keys_addAll : ∀ (cs : List (Str × Val)) (na : Entries), (keys na).Nodup →
    (keys (addAll na cs)).Nodup
  | [], _, h => h
  | c :: cs, na, h => by
      rw [addAll_cons]; exact nodup_keys_addAll cs _ (nodup_keys_addChild _ _ _ h)

/-- a later text-key insert commutes with adding children whose keys differ from the text key -/
theorem addAll_insert_comm (tk : Str) (x : Val) : ∀ (cs : List (Str × Val)) (na : Entries),
    (∀ c ∈ cs, c.1 ≠ tk) → EqN (addAll (insert tk x na) cs) (insert tk x (addAll na cs))
  | [], na, _ => EqN.refl _
  | c :: cs, na, h => by
      rw [addAll_cons, addAll_cons]
      have hc : c.1 ≠ tk := h c (List.mem_cons_self ..)
      have step : EqN (addChild (insert tk x na) c.1 c.2) (insert tk x (addChild na c.1 c.2)) := by
        apply EqN.of_lookup
        intro q
        simp only [lookup_addChild, lookup_insert, hc, if_false]
        by_cases e1 : q = c.1
        · have : ¬ q = tk := fun e => hc (e1 ▸ e)
          simp [e1, hc]
        · simp [e1]
      exact (EqN.addAll cs step).trans
        (addAll_insert_comm tk x cs _ (fun c' hc' => h c' (List.mem_cons_of_mem _ hc')))

/-- the values `cs` holds under key `k`, in order -/
def valsOf (k : Str) (cs : List (Str × Val)) : List Val := (cs.filter (·.1 = k)).map (·.2)

/-- iterated promotion -/
def promoteAll (o : Option Val) (vs : List Val) : Option Val :=
  vs.foldl (fun o v => some (promote o v)) o

theorem lookup_addAll (k : Str) : ∀ (cs : List (Str × Val)) (na : Entries),
    lookup k (addAll na cs) = promoteAll (lookup k na) (valsOf k cs)
  | [], na => by simp [addAll, promoteAll, valsOf]
  | c :: cs, na => by
      rw [addAll_cons, lookup_addAll k cs, lookup_addChild]
      by_cases e : k = c.1
      · subst e
        simp [valsOf, promoteAll]
      · have e' : ¬ c.1 = k := fun h => e h.symm
        simp [valsOf, e, e']

theorem promoteAll_list : ∀ (vs : List Val) (xs : List Val),
    promoteAll (some (.list xs)) vs = some (.list (xs ++ vs))
  | [], xs => by simp [promoteAll]
  | v :: vs, xs => by
      have ih := promoteAll_list vs (xs ++ [v])
      simp only [promoteAll, List.foldl_cons, promote] at ih ⊢
      rw [ih]; simp

theorem collect_eq_promoteAll (o : Option Val) (vs : List Val)
    (h : ∀ v ∈ vs, v.isList = false) : Conv.collect o vs = promoteAll o vs := by
  cases vs with
  | nil => cases o <;> simp [Conv.collect, promoteAll]
  | cons v vs' =>
    have step : promoteAll o (v :: vs') = promoteAll (some (promote o v)) vs' := rfl
    rw [step]
    cases o with
    | none =>
      cases vs' with
      | nil => simp [Conv.collect, promoteAll, promote]
      | cons v2 vs'' =>
        have hv : v.isList = false := h v (List.mem_cons_self ..)
        have step2 : promoteAll (some (promote none v)) (v2 :: vs'')
            = promoteAll (some (promote (some v) v2)) vs'' := rfl
        rw [step2]
        have : promote (some v) v2 = .list [v, v2] := by
          cases v <;> simp [promote, Val.isList] at hv ⊢
        rw [this, promoteAll_list]
        simp [Conv.collect]
    | some old =>
      cases old with
      | list xs => simp [promote, promoteAll_list, Conv.collect]
      | null => simp [promote, promoteAll_list, Conv.collect]
      | bool _ => simp [promote, promoteAll_list, Conv.collect]
      | num _ => simp [promote, promoteAll_list, Conv.collect]
      | str _ => simp [promote, promoteAll_list, Conv.collect]
      | map _ => simp [promote, promoteAll_list, Conv.collect]


/-! ### `Conv.groupOnto` key-wise -/

/-- one step of `groupOnto` -/
def gStep (cs : List (Str × Val)) (b : Entries) (k : Str) : Entries :=
  match Conv.collect (lookup k b) (valsOf k cs) with
  | some val => insert k val b
  | none => b

theorem groupOnto_eq (base : Entries) (cs : List (Str × Val)) :
    Conv.groupOnto base cs = ((cs.map (·.1)).eraseDups).foldl (gStep cs) base := rfl

theorem collect_eq_none {o : Option Val} {vs : List Val} (h : Conv.collect o vs = none) : o = none := by
  unfold Conv.collect at h
  split at h <;> simp_all

theorem lookup_gStep (cs : List (Str × Val)) (b : Entries) (k q : Str) :
    lookup q (gStep cs b k)
      = if q = k then Conv.collect (lookup k b) (valsOf k cs) else lookup q b := by
  unfold gStep
  split
  · rename_i val hval
    rw [lookup_insert]
    by_cases e : q = k <;> simp [e, hval]
  · rename_i hnone
    by_cases e : q = k
    · subst e
      simp only [if_true, hnone]
      exact collect_eq_none hnone
    · simp [e]

theorem nodup_keys_gStep (cs : List (Str × Val)) (b : Entries) (k : Str) (h : (keys b).Nodup) :
    (keys (gStep cs b k)).Nodup := by
  unfold gStep
  split
  · exact nodup_keys_insert _ _ _ h
  · exact h

theorem lookup_foldl_gStep (cs : List (Str × Val)) (q : Str) : ∀ (ks : List Str) (b : Entries),
    ks.Nodup → lookup q (ks.foldl (gStep cs) b)
      = if q ∈ ks then Conv.collect (lookup q b) (valsOf q cs) else lookup q b
  | [], b, _ => by simp
  | k :: ks, b, h => by
      rw [List.nodup_cons] at h
      rw [List.foldl_cons, lookup_foldl_gStep cs q ks _ h.2, lookup_gStep]
      by_cases e : q = k
      · subst e
        simp [h.1]
      · simp [e]

theorem nodup_keys_foldl_gStep (cs : List (Str × Val)) : ∀ (ks : List Str) (b : Entries),
    (keys b).Nodup → (keys (ks.foldl (gStep cs) b)).Nodup
  | [], _, h => h
  | k :: ks, b, h => by
      rw [List.foldl_cons]
      exact nodup_keys_foldl_gStep cs ks _ (nodup_keys_gStep cs b k h)

theorem nodup_eraseDups_aux : ∀ (n : Nat) (l : List Str), l.length ≤ n → l.eraseDups.Nodup
  | _, [], _ => by simp
  | 0, _ :: _, h => by simp at h
  | n + 1, a :: as, h => by
      rw [List.eraseDups_cons, List.nodup_cons]
      refine ⟨?_, nodup_eraseDups_aux n _ ?_⟩
      · rw [List.mem_eraseDups]; simp
      · have := List.length_filter_le (fun b => !b == a) as
        simp only [List.length_cons] at h
        omega

theorem nodup_eraseDups (l : List Str) : l.eraseDups.Nodup := nodup_eraseDups_aux _ l (Nat.le_refl _)

theorem valsOf_eq_nil {k : Str} {cs : List (Str × Val)} (h : k ∉ keys cs) : valsOf k cs = [] := by
  unfold valsOf
  simp only [List.map_eq_nil_iff, List.filter_eq_nil_iff, decide_eq_true_eq]
  intro c hc e
  exact h (by unfold keys; exact List.mem_map.2 ⟨c, hc, e⟩)

theorem lookup_groupOnto (base : Entries) (cs : List (Str × Val)) (q : Str) :
    lookup q (Conv.groupOnto base cs)
      = if q ∈ keys cs then Conv.collect (lookup q base) (valsOf q cs) else lookup q base := by
  rw [groupOnto_eq, lookup_foldl_gStep cs q _ _ (nodup_eraseDups _)]
  simp only [List.mem_eraseDups, keys]
  by_cases e : q ∈ List.map (fun x => x.fst) cs <;> simp [e]

theorem nodup_keys_groupOnto (base : Entries) (cs : List (Str × Val)) (h : (keys base).Nodup) :
    (keys (Conv.groupOnto base cs)).Nodup := by
  rw [groupOnto_eq]; exact nodup_keys_foldl_gStep cs _ _ h

/-- the declarative grouping and the insert/promote fold agree on every key, as long as no
    child value is itself a list -/
theorem lookup_groupOnto_eq_addAll (base : Entries) (cs : List (Str × Val))
    (h : ∀ c ∈ cs, c.2.isList = false) (q : Str) :
    lookup q (Conv.groupOnto base cs) = lookup q (addAll base cs) := by
  rw [lookup_groupOnto, lookup_addAll]
  by_cases e : q ∈ keys cs
  · simp only [e, if_true]
    apply collect_eq_promoteAll
    intro v hv
    unfold valsOf at hv
    obtain ⟨c, hc, rfl⟩ := List.mem_map.1 hv
    exact h c (List.mem_filter.1 hc).1
  · simp only [e, if_false, valsOf_eq_nil e]
    rfl


/-! ### values the decoder produces -/

/-- a string, number or bool -/
def scalar : Val → Bool
  | .str _ | .num _ | .bool _ => true
  | _ => false

theorem cast_scalar (S : Strconv) (c : CastCfg) (s t : Str) : scalar (cast S c s t) = true := by
  unfold cast
  split
  · rfl
  split
  · rfl
  split
  · rfl
  simp only
  split
  · rename_i v hv
    split at hv
    · split at hv
      · cases hv; rfl
      · cases h : S.parseUint s <;> simp [h] at hv
        subst hv; rfl
    · cases hv
  · split
    · rename_i v hv
      split at hv
      · split at hv
        · split at hv
          · cases hv
          · cases hv; rfl
        · cases hv
      · cases hv
    · rfl
    · split
      · split <;> rfl
      · rfl


theorem scalar_not_list {v : Val} (h : scalar v = true) : v.isList = false := by
  cases v <;> simp [scalar, Val.isList] at h ⊢

theorem scalar_norm {v : Val} (h : scalar v = true) : v.norm = v := by
  cases v <;> simp [scalar, Val.norm] at h ⊢

/-- the relation carried through the tree induction: maps with distinct keys holding `≈ᵥ`
    values under the same keys, or the same scalar -/
def Rel (a b : Val) : Prop :=
  (∃ l l', a = .map l ∧ b = .map l' ∧ (keys l).Nodup ∧ (keys l').Nodup ∧ EqN l l')
  ∨ (scalar a = true ∧ a = b)

theorem Rel.map {l l' : Entries} (h1 : (keys l).Nodup) (h2 : (keys l').Nodup) (h : EqN l l') :
    Rel (.map l) (.map l') := .inl ⟨l, l', rfl, rfl, h1, h2, h⟩

theorem Rel.scalar {a : Val} (h : scalar a = true) : Rel a a := .inr ⟨h, rfl⟩

theorem Rel.equiv {a b : Val} (h : Rel a b) : a ≈ᵥ b := by
  rcases h with ⟨l, l', rfl, rfl, h1, h2, h⟩ | ⟨_, rfl⟩
  · exact EqN.norm_map h1 h2 h
  · rfl

theorem Rel.not_list_right {a b : Val} (h : Rel a b) : b.isList = false := by
  rcases h with ⟨l, l', rfl, rfl, _⟩ | ⟨hs, rfl⟩
  · rfl
  · exact scalar_not_list hs

theorem Rel.seqDecorate (cfg : DecCfg) (seq : Nat) {a b : Val} (h : Rel a b) :
    Rel (seqDecorate cfg seq a).1 (seqDecorate cfg seq b).1
      ∧ (seqDecorate cfg seq a).2 = (seqDecorate cfg seq b).2 := by
  rcases h with ⟨l, l', rfl, rfl, h1, h2, h⟩ | ⟨hs, rfl⟩
  · unfold Mxj.seqDecorate
    cases cfg.seqNum
    · exact ⟨Rel.map h1 h2 h, rfl⟩
    · exact ⟨Rel.map (nodup_keys_insert _ _ _ h1) (nodup_keys_insert _ _ _ h2)
        (EqN.insert h _ rfl), rfl⟩
  · refine ⟨?_, rfl⟩
    unfold Mxj.seqDecorate
    cases cfg.seqNum
    · exact Rel.scalar hs
    · cases a <;> simp [Dec.scalar] at hs <;>
        exact Rel.map (nodup_keys_insert _ _ _ (by simp [keys]))
          (nodup_keys_insert _ _ _ (by simp [keys])) (EqN.refl _)

theorem seqDecorate_not_list (cfg : DecCfg) (seq : Nat) {v : Val} (h : v.isList = false) :
    (seqDecorate cfg seq v).1.isList = false := by
  unfold seqDecorate
  cases cfg.seqNum
  · exact h
  · cases v <;> simp [Val.isList] at h ⊢


/-! ### the fold keeps keys distinct -/

theorem nodup_keys_loadAttrs (cfg : DecCfg) (S : Strconv) (attrs : List Attr) :
    (keys (loadAttrs cfg S attrs)).Nodup := by
  unfold loadAttrs
  have : ∀ (as : List Attr) (na : Entries), (keys na).Nodup →
      (keys (as.foldl (fun na a =>
        let key := attrKey cfg S a.name
        insert key (cast S cfg.cast (escDecIf cfg a.value) key) na) na)).Nodup := by
    intro as
    induction as with
    | nil => intro na h; exact h
    | cons a as ih => intro na h; exact ih _ (nodup_keys_insert _ _ _ h)
  exact this attrs [] (by simp [keys])

theorem nodup_keys_onText (cfg : DecCfg) (S : Strconv) (skey : Str) (na : Entries) (n : Option Val)
    (s : Str) (h : (keys na).Nodup) : (keys (onText cfg S skey na n s).1).Nodup := by
  unfold onText
  simp only
  split
  · exact h
  · split
    · exact nodup_keys_insert _ _ _ h
    · exact h

theorem nodup_keys_kids' (cfg : DecCfg) (S : Strconv) (skey : Str) : ∀ (ks : List Node)
    (na : Entries) (n : Option Val) (seq : Nat) (pend : Option Str), (keys na).Nodup →
    (keys (Fold.kids' cfg S skey (na, n, seq, pend) ks).1).Nodup
  | [], na, n, seq, pend, h => by simpa [Fold.kids'] using h
  | .elem sp name attrs ks' :: rest, na, n, seq, pend, h => by
      simp only [Fold.kids']
      exact nodup_keys_kids' cfg S skey rest _ _ _ _ (nodup_keys_addChild _ _ _ h)
  | .text s :: rest, na, n, seq, pend, h => by
      simp only [Fold.kids']
      exact nodup_keys_kids' cfg S skey rest _ _ _ _ (nodup_keys_onText _ _ _ _ _ _ h)
  | .comment _ :: rest, na, n, seq, pend, h => by
      simp only [Fold.kids']
      exact nodup_keys_kids' cfg S skey rest _ _ _ _ h
  | .procinst _ _ :: rest, na, n, seq, pend, h => by
      simp only [Fold.kids']
      exact nodup_keys_kids' cfg S skey rest _ _ _ _ h
  | .directive _ :: rest, na, n, seq, pend, h => by
      simp only [Fold.kids']
      exact nodup_keys_kids' cfg S skey rest _ _ _ _ h

/-! ### the specification never yields a list for an element -/

theorem conv_value_not_list (cfg : DecCfg) (S : Strconv) (sp name : Str) (attrs : List Attr)
    (ks : List Node) : (Conv.value cfg S (.elem sp name attrs ks)).isList = false := by
  simp only [Conv.value]
  split
  · split <;> rfl
  · split
    · split
      · exact scalar_not_list (cast_scalar _ _ _ _)
      · rfl
    · rfl

theorem childVals_not_list (cfg : DecCfg) (S : Strconv) : ∀ (ks : List Node) (seq : Nat),
    ∀ c ∈ Conv.childVals cfg S seq ks, c.2.isList = false
  | [], seq, c, h => by simp [Conv.childVals] at h
  | .elem sp name attrs ks' :: rest, seq, c, h => by
      simp only [Conv.childVals, List.mem_cons] at h
      rcases h with rfl | h
      · exact seqDecorate_not_list _ _ (conv_value_not_list ..)
      · exact childVals_not_list cfg S rest _ c h
  | .text _ :: rest, seq, c, h => by
      simp only [Conv.childVals] at h; exact childVals_not_list cfg S rest _ c h
  | .comment _ :: rest, seq, c, h => by
      simp only [Conv.childVals] at h; exact childVals_not_list cfg S rest _ c h
  | .procinst _ _ :: rest, seq, c, h => by
      simp only [Conv.childVals] at h; exact childVals_not_list cfg S rest _ c h
  | .directive _ :: rest, seq, c, h => by
      simp only [Conv.childVals] at h; exact childVals_not_list cfg S rest _ c h

/-- every child key is the element key of some element child -/
theorem childVals_key (cfg : DecCfg) (S : Strconv) : ∀ (ks : List Node) (seq : Nat),
    ∀ c ∈ Conv.childVals cfg S seq ks,
      ∃ sp name attrs ks', Node.elem sp name attrs ks' ∈ ks ∧ c.1 = elemKey cfg S name
  | [], seq, c, h => by simp [Conv.childVals] at h
  | .elem sp name attrs ks' :: rest, seq, c, h => by
      simp only [Conv.childVals, List.mem_cons] at h
      rcases h with rfl | h
      · exact ⟨sp, name, attrs, ks', List.mem_cons_self .., rfl⟩
      · obtain ⟨a, b, c', d, hm, he⟩ := childVals_key cfg S rest _ c h
        exact ⟨a, b, c', d, List.mem_cons_of_mem _ hm, he⟩
  | .text _ :: rest, seq, c, h => by
      simp only [Conv.childVals] at h
      obtain ⟨a, b, c', d, hm, he⟩ := childVals_key cfg S rest _ c h
      exact ⟨a, b, c', d, List.mem_cons_of_mem _ hm, he⟩
  | .comment _ :: rest, seq, c, h => by
      simp only [Conv.childVals] at h
      obtain ⟨a, b, c', d, hm, he⟩ := childVals_key cfg S rest _ c h
      exact ⟨a, b, c', d, List.mem_cons_of_mem _ hm, he⟩
  | .procinst _ _ :: rest, seq, c, h => by
      simp only [Conv.childVals] at h
      obtain ⟨a, b, c', d, hm, he⟩ := childVals_key cfg S rest _ c h
      exact ⟨a, b, c', d, List.mem_cons_of_mem _ hm, he⟩
  | .directive _ :: rest, seq, c, h => by
      simp only [Conv.childVals] at h
      obtain ⟨a, b, c', d, hm, he⟩ := childVals_key cfg S rest _ c h
      exact ⟨a, b, c', d, List.mem_cons_of_mem _ hm, he⟩

/-! ### text runs -/

theorem textRuns_length (cfg : DecCfg) : ∀ (ks : List Node) (a b : Bool),
    (Conv.textRuns cfg a ks).length = (Conv.textRuns cfg b ks).length
  | [], a, b => by simp [Conv.textRuns]
  | .elem _ _ _ _ :: rest, a, b => by simp only [Conv.textRuns]
  | .text s :: rest, a, b => by
      simp only [Conv.textRuns]
      split
      · exact textRuns_length cfg rest a b
      · simp only [List.length_cons, textRuns_length cfg rest a b]
  | .comment _ :: rest, a, b => by simp only [Conv.textRuns]; exact textRuns_length cfg rest a b
  | .procinst _ _ :: rest, a, b => by simp only [Conv.textRuns]; exact textRuns_length cfg rest a b
  | .directive _ :: rest, a, b => by simp only [Conv.textRuns]; exact textRuns_length cfg rest a b

theorem textRuns_eq_nil (cfg : DecCfg) (ks : List Node) (a b : Bool)
    (h : (Conv.textRuns cfg a ks).length = 0) : Conv.textRuns cfg b ks = [] := by
  rw [textRuns_length cfg ks a b] at h
  exact List.length_eq_zero_iff.1 h

/-! ### no adjacent text nodes -/

theorem noAdjTextKids_tail {k : Node} {rest : List Node} (h : noAdjTextKids (k :: rest) = true) :
    noAdjTextKids rest = true := by
  unfold noAdjTextKids at h
  split at h
  · rename_i heq; cases heq
  · cases h
  · rename_i k' rest' _ heq
    cases heq
    simp only [Bool.and_eq_true] at h
    exact h.2

theorem noAdjTextKids_head {k : Node} {rest : List Node} (h : noAdjTextKids (k :: rest) = true) :
    noAdjText k = true := by
  unfold noAdjTextKids at h
  split at h
  · rename_i heq; cases heq
  · cases h
  · rename_i k' rest' _ heq
    cases heq
    simp only [Bool.and_eq_true] at h
    exact h.1

theorem noAdjTextKids_text {s : Str} {rest : List Node} (h : noAdjTextKids (.text s :: rest) = true) :
    ∀ s' r', rest ≠ .text s' :: r' := by
  intro s' r' e
  subst e
  simp [noAdjTextKids] at h


/-! ### the fold over the children against the declarative placement of the text -/

/-- `pend` is irrelevant: nothing pending, or the next node is not text -/
def pendOK (pend : Option Str) (ks : List Node) : Prop :=
  pend = none ∨ ∀ s rest, ks ≠ .text s :: rest

/-- what the conventions prescribe for `(n, na)` given the children entries `F` and the text runs -/
def expect (cfg : DecCfg) (S : Strconv) (skey : Str) (n : Option Val) (F : Entries)
    (runs : List Conv.TextRun) : Option Val × Entries :=
  match runs with
  | [] => (n, F)
  | t :: _ =>
      if t.early then (some (cast S cfg.cast t.value skey), F)
      else (n, insert cfg.textK (cast S cfg.cast t.value cfg.textK) F)

theorem expect_congr (cfg : DecCfg) (S : Strconv) (skey : Str) (n : Option Val) {F F' : Entries}
    (h : EqN F F') (runs : List Conv.TextRun) :
    (expect cfg S skey n F runs).1 = (expect cfg S skey n F' runs).1
      ∧ EqN (expect cfg S skey n F runs).2 (expect cfg S skey n F' runs).2 := by
  unfold expect
  cases runs with
  | nil => exact ⟨rfl, h⟩
  | cons t _ =>
    simp only
    split
    · exact ⟨rfl, h⟩
    · exact ⟨rfl, EqN.insert h _ rfl⟩

theorem kids_claim (cfg : DecCfg) (S : Strconv) (skey : Str) : ∀ (ks : List Node),
    (∀ sp name attrs ks', Node.elem sp name attrs ks' ∈ ks →
      Rel (Fold.value cfg S (.elem sp name attrs ks')) (Conv.value cfg S (.elem sp name attrs ks'))) →
    (∀ sp name attrs ks', Node.elem sp name attrs ks' ∈ ks → elemKey cfg S name ≠ cfg.textK) →
    noAdjTextKids ks = true →
    ∀ (na : Entries) (n : Option Val) (seq : Nat) (pend : Option Str), pendOK pend ks →
    (Conv.textRuns cfg false ks).length ≤ 1 →
    (Fold.kids' cfg S skey (na, n, seq, pend) ks).2.1
        = (expect cfg S skey n (addAll na (Conv.childVals cfg S seq ks))
            (Conv.textRuns cfg (!na.isEmpty || cfg.asMap) ks)).1
    ∧ EqN (Fold.kids' cfg S skey (na, n, seq, pend) ks).1
        (expect cfg S skey n (addAll na (Conv.childVals cfg S seq ks))
            (Conv.textRuns cfg (!na.isEmpty || cfg.asMap) ks)).2
  | [], _, _, _, na, n, seq, pend, _, _ => by
      simp only [Fold.kids', Conv.childVals, Conv.textRuns, expect, addAll_nil]
      exact ⟨trivial, EqN.refl _⟩
  | .elem sp name attrs ks' :: rest, hK, hkey, hadj, na, n, seq, pend, _, hlen => by
      have hrel := hK sp name attrs ks' (List.mem_cons_self ..)
      obtain ⟨hd1, hd2⟩ := Rel.seqDecorate cfg seq hrel
      have ih := kids_claim cfg S skey rest
        (fun a b c d hm => hK a b c d (List.mem_cons_of_mem _ hm))
        (fun a b c d hm => hkey a b c d (List.mem_cons_of_mem _ hm))
        (noAdjTextKids_tail hadj)
        (addChild na (elemKey cfg S name) (seqDecorate cfg seq (Fold.value cfg S (.elem sp name attrs ks'))).1)
        n (seqDecorate cfg seq (Fold.value cfg S (.elem sp name attrs ks'))).2 none (.inl rfl)
        (by simp only [Conv.textRuns] at hlen
            rw [textRuns_length cfg rest false true]; exact hlen)
      simp only [addChild_ne_nil, Bool.not_false, Bool.true_or] at ih
      simp only [Fold.kids', Conv.childVals, Conv.textRuns, addAll_cons]
      rw [← hd2]
      have hF : EqN
          (addAll (addChild na (elemKey cfg S name)
              (seqDecorate cfg seq (Fold.value cfg S (.elem sp name attrs ks'))).1)
            (Conv.childVals cfg S (seqDecorate cfg seq (Fold.value cfg S (.elem sp name attrs ks'))).2 rest))
          (addAll (addChild na (elemKey cfg S name)
              (seqDecorate cfg seq (Conv.value cfg S (.elem sp name attrs ks'))).1)
            (Conv.childVals cfg S (seqDecorate cfg seq (Fold.value cfg S (.elem sp name attrs ks'))).2 rest)) :=
        EqN.addAll _ (EqN.addChild (EqN.refl _) _ hd1.equiv)
      have hc := expect_congr cfg S skey n hF (Conv.textRuns cfg true rest)
      exact ⟨ih.1.trans hc.1, ih.2.trans hc.2⟩
  | .text s :: rest, hK, hkey, hadj, na, n, seq, pend, hp, hlen => by
      have hpend : pend = none := by
        rcases hp with h | h
        · exact h
        · exact absurd rfl (h s rest)
      subst hpend
      have hK' := fun a b c d hm => hK a b c d (List.mem_cons_of_mem (Node.text s) hm)
      have hkey' := fun a b c d hm => hkey a b c d (List.mem_cons_of_mem (Node.text s) hm)
      have hp' : ∀ raw, pendOK (some raw) rest := fun _ => .inr (noAdjTextKids_text hadj)
      simp only [Fold.kids', Conv.childVals, Conv.textRuns, Option.getD_none, List.nil_append]
      simp only [Conv.textRuns] at hlen
      by_cases hb : (Conv.textOf cfg s).isEmpty = true
      · -- blank run: nothing changes
        have hon : onText cfg S skey na n s = (na, n) := by
          have hb' : (escDecIf cfg (trimChars (trimSet cfg) s)).isEmpty = true := hb
          unfold onText; simp only; rw [if_pos hb']
        rw [if_pos hb] at hlen ⊢
        rw [hon]
        exact kids_claim cfg S skey rest hK' hkey' (noAdjTextKids_tail hadj) na n seq (some s)
          (hp' s) hlen
      · have hb' : ¬ (escDecIf cfg (trimChars (trimSet cfg) s)).isEmpty = true := hb
        rw [if_neg hb] at hlen ⊢
        simp only [List.length_cons] at hlen
        have hnil : ∀ b, Conv.textRuns cfg b rest = [] :=
          fun b => textRuns_eq_nil cfg rest false b (by omega)
        by_cases hseen : (!na.isEmpty || cfg.asMap) = true
        · have hon : onText cfg S skey na n s
              = (insert cfg.textK (cast S cfg.cast (Conv.textOf cfg s) cfg.textK) na, n) := by
            unfold onText; simp only; rw [if_neg hb', if_pos hseen]; rfl
          rw [hon]
          have ih := kids_claim cfg S skey rest hK' hkey' (noAdjTextKids_tail hadj)
            (insert cfg.textK (cast S cfg.cast (Conv.textOf cfg s) cfg.textK) na) n seq (some s)
            (hp' s) (by rw [hnil]; simp)
          rw [hnil] at ih ⊢
          simp only [expect, hseen, Bool.not_true, Bool.false_eq_true, if_false] at ih ⊢
          refine ⟨ih.1, ih.2.trans (addAll_insert_comm _ _ _ _ ?_)⟩
          intro c hc
          obtain ⟨a, b, c', d, hm, he⟩ := childVals_key cfg S rest seq c hc
          rw [he]; exact hkey' a b c' d hm
        · have hon : onText cfg S skey na n s
              = (na, some (cast S cfg.cast (Conv.textOf cfg s) skey)) := by
            unfold onText; simp only; rw [if_neg hb', if_neg hseen]; rfl
          rw [hon]
          have ih := kids_claim cfg S skey rest hK' hkey' (noAdjTextKids_tail hadj)
            na (some (cast S cfg.cast (Conv.textOf cfg s) skey)) seq (some s)
            (hp' s) (by rw [hnil]; simp)
          rw [hnil] at ih ⊢
          have hseen' : (!na.isEmpty || cfg.asMap) = false := by
            cases h : (!na.isEmpty || cfg.asMap) <;> simp_all
          simp only [expect, hseen', Bool.not_false, if_true] at ih ⊢
          exact ih
  | .comment x :: rest, hK, hkey, hadj, na, n, seq, pend, _, hlen => by
      simp only [Fold.kids', Conv.childVals, Conv.textRuns] at hlen ⊢
      exact kids_claim cfg S skey rest
        (fun a b c d hm => hK a b c d (List.mem_cons_of_mem _ hm))
        (fun a b c d hm => hkey a b c d (List.mem_cons_of_mem _ hm))
        (noAdjTextKids_tail hadj) na n seq none (.inl rfl) hlen
  | .procinst x y :: rest, hK, hkey, hadj, na, n, seq, pend, _, hlen => by
      simp only [Fold.kids', Conv.childVals, Conv.textRuns] at hlen ⊢
      exact kids_claim cfg S skey rest
        (fun a b c d hm => hK a b c d (List.mem_cons_of_mem _ hm))
        (fun a b c d hm => hkey a b c d (List.mem_cons_of_mem _ hm))
        (noAdjTextKids_tail hadj) na n seq none (.inl rfl) hlen
  | .directive x :: rest, hK, hkey, hadj, na, n, seq, pend, _, hlen => by
      simp only [Fold.kids', Conv.childVals, Conv.textRuns] at hlen ⊢
      exact kids_claim cfg S skey rest
        (fun a b c d hm => hK a b c d (List.mem_cons_of_mem _ hm))
        (fun a b c d hm => hkey a b c d (List.mem_cons_of_mem _ hm))
        (noAdjTextKids_tail hadj) na n seq none (.inl rfl) hlen


/-! ### one element, then the whole tree -/

theorem elem_rel (cfg : DecCfg) (S : Strconv) (sp name : Str) (attrs : List Attr) (ks : List Node)
    (hK : ∀ sp name attrs ks', Node.elem sp name attrs ks' ∈ ks →
      Rel (Fold.value cfg S (.elem sp name attrs ks')) (Conv.value cfg S (.elem sp name attrs ks')))
    (hkey : ∀ sp name attrs ks', Node.elem sp name attrs ks' ∈ ks → elemKey cfg S name ≠ cfg.textK)
    (hadj : noAdjTextKids ks = true) (hlen : (Conv.textRuns cfg false ks).length ≤ 1) :
    Rel (Fold.value cfg S (.elem sp name attrs ks)) (Conv.value cfg S (.elem sp name attrs ks)) := by
  obtain ⟨h1, h2⟩ := kids_claim cfg S (elemKey cfg S name) ks hK hkey hadj (loadAttrs cfg S attrs)
    none 0 none (.inl rfl) hlen
  have hnd := nodup_keys_kids' cfg S (elemKey cfg S name) ks (loadAttrs cfg S attrs) none 0 none
    (nodup_keys_loadAttrs ..)
  have hbase : EqN (addAll (loadAttrs cfg S attrs) (Conv.childVals cfg S 0 ks))
      (Conv.groupOnto (loadAttrs cfg S attrs) (Conv.childVals cfg S 0 ks)) :=
    EqN.of_lookup (fun q =>
      (lookup_groupOnto_eq_addAll _ _ (childVals_not_list cfg S ks 0) q).symm)
  have hbd := nodup_keys_groupOnto (loadAttrs cfg S attrs) (Conv.childVals cfg S 0 ks)
    (nodup_keys_loadAttrs ..)
  simp only [Fold.value, Conv.value]
  generalize Fold.kids' cfg S (elemKey cfg S name) (loadAttrs cfg S attrs, none, 0, none) ks = st
    at h1 h2 hnd ⊢
  generalize Conv.groupOnto (loadAttrs cfg S attrs) (Conv.childVals cfg S 0 ks) = base at hbase hbd ⊢
  generalize addAll (loadAttrs cfg S attrs) (Conv.childVals cfg S 0 ks) = F at h1 h2 hbase
  cases hr : Conv.textRuns cfg (!(loadAttrs cfg S attrs).isEmpty || cfg.asMap) ks with
  | nil =>
    rw [hr] at h1 h2
    simp only [expect] at h1 h2
    simp only
    have he := (h2.trans hbase).isEmpty
    rw [h1]
    unfold finishElem
    simp only [he]
    split
    · exact Rel.scalar rfl
    · exact Rel.map hnd hbd (h2.trans hbase)
  | cons t ts =>
    rw [hr] at h1 h2
    simp only [expect] at h1 h2
    simp only
    by_cases hearly : t.early = true
    · simp only [hearly, if_true] at h1 h2 ⊢
      have he := (h2.trans hbase).isEmpty
      rw [h1]
      unfold finishElem
      simp only [he]
      split
      · exact Rel.scalar (cast_scalar ..)
      · exact Rel.map (nodup_keys_insert _ _ _ hnd) (nodup_keys_insert _ _ _ hbd)
          (EqN.insert (h2.trans hbase) _ rfl)
    · simp only [hearly] at h1 h2 ⊢
      have h3 : EqN st.1 (insert cfg.textK (cast S cfg.cast t.value cfg.textK) base) :=
        h2.trans (EqN.insert hbase _ rfl)
      have he := h3.isEmpty
      rw [insert_ne_nil] at he
      rw [h1]
      unfold finishElem
      simp only [he]
      exact Rel.map hnd (nodup_keys_insert _ _ _ hbd) h3

theorem inDomain_elem {cfg : DecCfg} {S : Strconv} {sp name : Str} {attrs : List Attr}
    {ks : List Node} (h : Conv.inDomain cfg S (.elem sp name attrs ks) = true) :
    (Conv.textRuns cfg false ks).length ≤ 1 ∧ Conv.inDomainKids cfg S ks = true := by
  simp only [Conv.inDomain, Bool.and_eq_true, decide_eq_true_eq] at h
  exact ⟨h.1.1, h.2⟩

theorem inDomainKids_cons_elem {cfg : DecCfg} {S : Strconv} {sp name : Str} {attrs : List Attr}
    {ks rest : List Node} (h : Conv.inDomainKids cfg S (.elem sp name attrs ks :: rest) = true) :
    elemKey cfg S name ≠ cfg.textK ∧ Conv.inDomain cfg S (.elem sp name attrs ks) = true
      ∧ Conv.inDomainKids cfg S rest = true := by
  simp only [Conv.inDomainKids, Bool.and_eq_true, decide_eq_true_eq] at h
  exact ⟨h.1.1.1, h.1.2, h.2⟩

theorem inDomainKids_tail {cfg : DecCfg} {S : Strconv} {k : Node}
    {rest : List Node} (h : Conv.inDomainKids cfg S (k :: rest) = true) :
    Conv.inDomainKids cfg S rest = true := by
  cases k with
  | elem _ _ _ _ => exact (inDomainKids_cons_elem h).2.2
  | text _ => simpa only [Conv.inDomainKids] using h
  | comment _ => simpa only [Conv.inDomainKids] using h
  | procinst _ _ => simpa only [Conv.inDomainKids] using h
  | directive _ => simpa only [Conv.inDomainKids] using h

theorem inDomainKids_key (cfg : DecCfg) (S : Strconv) : ∀ (ks : List Node),
    Conv.inDomainKids cfg S ks = true →
    ∀ sp name attrs ks', Node.elem sp name attrs ks' ∈ ks → elemKey cfg S name ≠ cfg.textK
  | [], _, _, _, _, _, hm => by simp at hm
  | k :: rest, h, sp, name, attrs, ks', hm => by
      rcases List.mem_cons.1 hm with e | hm
      · subst e
        exact (inDomainKids_cons_elem h).1
      · exact inDomainKids_key cfg S rest (inDomainKids_tail h) sp name attrs ks' hm

mutual
theorem rel_node (cfg : DecCfg) (S : Strconv) : ∀ (t : Node),
    Conv.inDomain cfg S t = true → noAdjText t = true →
    match t with
    | .elem .. => Rel (Fold.value cfg S t) (Conv.value cfg S t)
    | _ => True
  | .elem sp name attrs ks, hd, hn => by
      have hd' := inDomain_elem hd
      have hn' : noAdjTextKids ks = true := by simpa only [noAdjText] using hn
      exact elem_rel cfg S sp name attrs ks (rel_kids cfg S ks hd'.2 hn')
        (inDomainKids_key cfg S ks hd'.2) hn' hd'.1
  | .text _, _, _ => trivial
  | .comment _, _, _ => trivial
  | .procinst _ _, _, _ => trivial
  | .directive _, _, _ => trivial
theorem rel_kids (cfg : DecCfg) (S : Strconv) : ∀ (ks : List Node),
    Conv.inDomainKids cfg S ks = true → noAdjTextKids ks = true →
    ∀ sp name attrs ks', Node.elem sp name attrs ks' ∈ ks →
      Rel (Fold.value cfg S (.elem sp name attrs ks')) (Conv.value cfg S (.elem sp name attrs ks'))
  | [], _, _, _, _, _, _, hm => by simp at hm
  | k :: rest, hd, hn, sp, name, attrs, ks', hm => by
      rcases List.mem_cons.1 hm with e | hm
      · subst e
        exact rel_node cfg S (.elem sp name attrs ks') (inDomainKids_cons_elem hd).2.1
          (noAdjTextKids_head hn)
      · exact rel_kids cfg S rest (inDomainKids_tail hd) (noAdjTextKids_tail hn) sp name attrs ks' hm
end

/-- the imperative fold is the convention, up to the order of map entries -/
theorem fold_equiv_conv (cfg : DecCfg) (S : Strconv) (t : Node)
    (hd : Conv.inDomain cfg S t = true) (hn : noAdjText t = true) :
    Fold.value cfg S t ≈ᵥ Conv.value cfg S t := by
  cases t with
  | elem sp name attrs ks => exact (rel_node cfg S (.elem sp name attrs ks) hd hn).equiv
  | text _ => simp [Fold.value, Conv.value, Val.equiv]
  | comment _ => simp [Fold.value, Conv.value, Val.equiv]
  | procinst _ _ => simp [Fold.value, Conv.value, Val.equiv]
  | directive _ => simp [Fold.value, Conv.value, Val.equiv]

theorem doc_equiv (cfg : DecCfg) (S : Strconv) (t : Node)
    (h : Fold.value cfg S t ≈ᵥ Conv.value cfg S t) : Fold.doc cfg S t ≈ᵥ Conv.doc cfg S t := by
  cases t with
  | elem sp name attrs ks =>
    unfold Val.equiv at h ⊢
    simp only [Fold.doc, Conv.doc, Val.norm, Val.normEntries, h]
  | text _ => rfl
  | comment _ => rfl
  | procinst _ _ => rfl
  | directive _ => rfl


/-! ### facts behind the option corollaries -/

theorem conv_value_shape (cfg : DecCfg) (S : Strconv) (sp name : Str) (attrs : List Attr)
    (ks : List Node) :
    scalar (Conv.value cfg S (.elem sp name attrs ks)) = true
      ∨ (Conv.value cfg S (.elem sp name attrs ks)).isMap = true := by
  simp only [Conv.value]
  split
  · split
    · exact .inl rfl
    · exact .inr rfl
  · split
    · split
      · exact .inl (cast_scalar _ _ _ _)
      · exact .inr rfl
    · exact .inr rfl

/-- numbering: a scalar or map value becomes a map carrying `_seq`, and the counter advances -/
theorem seqDecorate_spec (cfg : DecCfg) (seq : Nat) (v : Val) (hs : cfg.seqNum = true)
    (hv : scalar v = true ∨ v.isMap = true) :
    ∃ kvs, (seqDecorate cfg seq v).1 = .map kvs
      ∧ lookup "_seq".toList kvs = some (.num ("i:".toList ++ natToStr seq))
      ∧ (seqDecorate cfg seq v).2 = seq + 1 := by
  unfold seqDecorate
  rw [hs]
  cases v with
  | null => simp [scalar, Val.isMap] at hv
  | list _ => simp [scalar, Val.isMap] at hv
  | map kvs => exact ⟨_, rfl, by rw [lookup_insert]; simp, rfl⟩
  | str _ => exact ⟨_, rfl, by rw [lookup_insert]; simp, rfl⟩
  | num _ => exact ⟨_, rfl, by rw [lookup_insert]; simp, rfl⟩
  | bool _ => exact ⟨_, rfl, by rw [lookup_insert]; simp, rfl⟩

/-- under numbering the `i`-th element child carries `_seq = seq + i` -/
theorem childVals_seq_index (cfg : DecCfg) (S : Strconv) (hs : cfg.seqNum = true) :
    ∀ (ks : List Node) (seq i : Nat) (c : Str × Val),
      (Conv.childVals cfg S seq ks)[i]? = some c →
      ∃ kvs, c.2 = .map kvs
        ∧ lookup "_seq".toList kvs = some (.num ("i:".toList ++ natToStr (seq + i)))
  | [], seq, i, c, h => by simp [Conv.childVals] at h
  | .elem sp name attrs ks' :: rest, seq, i, c, h => by
      obtain ⟨kvs, h1, h2, h3⟩ := seqDecorate_spec cfg seq _ hs (conv_value_shape cfg S sp name attrs ks')
      simp only [Conv.childVals] at h
      cases i with
      | zero =>
        simp only [List.getElem?_cons_zero, Option.some.injEq] at h
        subst h
        exact ⟨kvs, h1, h2⟩
      | succ j =>
        simp only [List.getElem?_cons_succ] at h
        rw [h3] at h
        obtain ⟨kvs', h1', h2'⟩ := childVals_seq_index cfg S hs rest (seq + 1) j c h
        refine ⟨kvs', h1', ?_⟩
        rw [h2']
        have : seq + 1 + j = seq + (j + 1) := by omega
        rw [this]
  | .text _ :: rest, seq, i, c, h => by
      simp only [Conv.childVals] at h; exact childVals_seq_index cfg S hs rest seq i c h
  | .comment _ :: rest, seq, i, c, h => by
      simp only [Conv.childVals] at h; exact childVals_seq_index cfg S hs rest seq i c h
  | .procinst _ _ :: rest, seq, i, c, h => by
      simp only [Conv.childVals] at h; exact childVals_seq_index cfg S hs rest seq i c h
  | .directive _ :: rest, seq, i, c, h => by
      simp only [Conv.childVals] at h; exact childVals_seq_index cfg S hs rest seq i c h

/-- the local names of the element children, in document order -/
def elemNames : List Node → List Str
  | [] => []
  | .elem _ name _ _ :: rest => name :: elemNames rest
  | _ :: rest => elemNames rest

theorem childVals_keys (cfg : DecCfg) (S : Strconv) : ∀ (ks : List Node) (seq : Nat),
    keys (Conv.childVals cfg S seq ks) = (elemNames ks).map (elemKey cfg S)
  | [], seq => by simp [Conv.childVals, keys, elemNames]
  | .elem sp name attrs ks' :: rest, seq => by
      have ih := childVals_keys cfg S rest (seqDecorate cfg seq (Conv.value cfg S (.elem sp name attrs ks'))).2
      simp only [keys] at ih
      simp only [Conv.childVals, keys, elemNames, List.map_cons, ih]
  | .text _ :: rest, seq => by
      simp only [Conv.childVals, elemNames]; exact childVals_keys cfg S rest seq
  | .comment _ :: rest, seq => by
      simp only [Conv.childVals, elemNames]; exact childVals_keys cfg S rest seq
  | .procinst _ _ :: rest, seq => by
      simp only [Conv.childVals, elemNames]; exact childVals_keys cfg S rest seq
  | .directive _ :: rest, seq => by
      simp only [Conv.childVals, elemNames]; exact childVals_keys cfg S rest seq

theorem mem_keys_loadAttrs (cfg : DecCfg) (S : Strconv) (attrs : List Attr) (k : Str) :
    k ∈ keys (loadAttrs cfg S attrs) ↔ ∃ a ∈ attrs, k = attrKey cfg S a.name := by
  unfold loadAttrs
  have : ∀ (as : List Attr) (na : Entries),
      k ∈ keys (as.foldl (fun na a =>
        let key := attrKey cfg S a.name
        insert key (cast S cfg.cast (escDecIf cfg a.value) key) na) na)
      ↔ k ∈ keys na ∨ ∃ a ∈ as, k = attrKey cfg S a.name := by
    intro as
    induction as with
    | nil => intro na; simp
    | cons a as ih =>
      intro na
      rw [List.foldl_cons, ih, mem_keys_insert]
      simp only [List.mem_cons, exists_eq_or_imp]
      constructor
      · rintro ((h | h) | h)
        · exact .inr (.inl h)
        · exact .inl h
        · exact .inr (.inr h)
      · rintro (h | h | h)
        · exact .inl (.inr h)
        · exact .inl (.inl h)
        · exact .inr h
  rw [this]
  simp [keys]

theorem dropWhile_eq_self {α : Type} (p : α → Bool) : ∀ (l : List α), (∀ x ∈ l, p x = false) →
    l.dropWhile p = l
  | [], _ => rfl
  | x :: xs, h => by simp [List.dropWhile, h x (List.mem_cons_self ..)]

/-- `strings.Trim` leaves a string without cut-set characters alone -/
theorem trimChars_eq_self (cut : List Char) (s : Str) (h : ∀ c ∈ s, cut.contains c = false) :
    trimChars cut s = s := by
  unfold trimChars
  rw [dropWhile_eq_self _ s h, dropWhile_eq_self _ s.reverse (fun c hc => h c (List.mem_reverse.1 hc)),
    List.reverse_reverse]

/-! ### fixtures for the non-vacuity examples of Props/C01 -/

/-- a `Strconv` that parses nothing (every `cast` yields a string) -/
def S0 : Strconv :=
  { parseInt := fun _ => none, parseUint := fun _ => none, parseFloat := fun _ => none, lower := id }

/-- `<r id="1"><a x="1">t1</a>␤<b><c>deep</c></b><!--note--><a/> hello </r>`: depth 3, siblings
    a, b, a, attributes, one text run -/
def sampleTree : Node :=
  .elem [] "r".toList [⟨[], "id".toList, "1".toList⟩]
    [ .elem [] "a".toList [⟨[], "x".toList, "1".toList⟩] [.text "t1".toList],
      .text "\n  ".toList,
      .elem [] "b".toList [] [.elem [] "c".toList [] [.text "deep".toList]],
      .comment "note".toList,
      .elem [] "a".toList [] [],
      .text " hello ".toList ]

/-- the same with the text run before the children: the fold stores the text key first -/
def sampleTreeTextFirst : Node :=
  .elem [] "r".toList [⟨[], "id".toList, "1".toList⟩]
    [ .text " hello ".toList,
      .elem [] "a".toList [] [],
      .elem [] "b".toList [] [.elem [] "c".toList [] [.text "deep".toList]],
      .elem [] "a".toList [⟨[], "x".toList, "1".toList⟩] [.text "t1".toList] ]


/-- outside the domain: two non-blank text runs, `<r k="1">x<a/>y</r>` -/
def twoRunsTree : Node :=
  .elem [] "r".toList [⟨[], "k".toList, "1".toList⟩]
    [.text "x".toList, .elem [] "a".toList [] [], .text "y".toList]

/-- outside the domain: a child element whose key is the text key -/
def textKeyChildTree : Node :=
  .elem [] "r".toList [⟨[], "k".toList, "1".toList⟩]
    [.text "x".toList, .elem [] "#text".toList [] []]

end Dec
end Mxj
