/-
  Mxj.Lemmas.NewMap — facts about the model of `Map.NewMap` (`Mxj.Model.NewMap`):
  association-list algebra, `addNewVal` along a fresh path (get / frame / invariant),
  the pair parser of the loop as a spec-level function, and the loop as a fold.

  Everything lives in `Mxj.NM` so that helper names cannot clash with other lemma files.
-/
import Mxj.Model.NewMap
import Mxj.Model.Mutate
import Mxj.Lemmas.PathIdx
namespace Mxj.NM

/-! ### association lists (no distinctness needed) -/

theorem lookup_nil (k : Str) : lookup k [] = none := rfl

theorem lookup_insert_self (k : Str) (v : Val) (n : Entries) :
    lookup k (insert k v n) = some v := by
  induction n with
  | nil => simp [insert, lookup]
  | cons e rest ih =>
    obtain ⟨k', v'⟩ := e
    by_cases h : k = k'
    · simp [insert, lookup, h]
    · simp [insert, lookup, h, ih]

theorem lookup_insert_ne (k k' : Str) (v : Val) (n : Entries) (h : k' ≠ k) :
    lookup k' (insert k v n) = lookup k' n := by
  induction n with
  | nil => simp [insert, lookup, h]
  | cons e rest ih =>
    obtain ⟨k₀, v₀⟩ := e
    by_cases h0 : k = k₀
    · subst h0; simp [insert, lookup, h]
    · by_cases h1 : k' = k₀
      · simp [insert, lookup, h0, h1]
      · simp [insert, lookup, h0, h1, ih]

/-! ### `getPath` -/

theorem getPath_nil (v : Val) : getPath v [] = some v := by
  cases v <;> rfl

theorem getPath_map_cons (n : Entries) (k : Str) (ks : List Str) :
    getPath (.map n) (k :: ks) = match lookup k n with
      | some v => getPath v ks
      | none => none := by
  simp only [getPath]
  cases lookup k n <;> rfl

theorem getPath_empty (q : List Str) (hq : q ≠ []) : getPath (.map []) q = none := by
  cases q with
  | nil => exact absurd rfl hq
  | cons k ks => simp [getPath_map_cons, lookup]

/-- only a map can be descended into -/
theorem getPath_nonmap (v : Val) (q : List Str) (hv : v.isMap = false) (hq : q ≠ []) :
    getPath v q = none := by
  cases q with
  | nil => exact absurd rfl hq
  | cons k ks => cases v <;> simp_all [getPath, Val.isMap]

theorem getPath_insert_self (n : Entries) (k : Str) (v : Val) (ks : List Str) :
    getPath (.map (insert k v n)) (k :: ks) = getPath v ks := by
  simp [getPath_map_cons, lookup_insert_self]

theorem getPath_insert_ne (n : Entries) (k k' : Str) (v : Val) (ks : List Str) (h : k' ≠ k) :
    getPath (.map (insert k v n)) (k' :: ks) = getPath (.map n) (k' :: ks) := by
  simp [getPath_map_cons, lookup_insert_ne _ _ _ _ h]

/-! ### incomparable paths -/

/-- neither is a prefix of the other -/
def incomparable (p q : List Str) : Prop := ¬ p <+: q ∧ ¬ q <+: p

instance (p q : List Str) : Decidable (incomparable p q) := by
  unfold incomparable; exact inferInstance

theorem incomparable_symm {p q : List Str} (h : incomparable p q) : incomparable q p :=
  ⟨h.2, h.1⟩

theorem incomparable_comm (p q : List Str) : incomparable p q ↔ incomparable q p :=
  ⟨incomparable_symm, incomparable_symm⟩

theorem not_incomparable_nil_left (q : List Str) : ¬ incomparable [] q :=
  fun h => h.1 List.nil_prefix

theorem not_incomparable_nil_right (p : List Str) : ¬ incomparable p [] :=
  fun h => h.2 List.nil_prefix

theorem not_incomparable_self (p : List Str) : ¬ incomparable p p :=
  fun h => h.1 (List.prefix_refl p)

theorem incomparable_cons_cons (k j : Str) (p q : List Str) :
    incomparable (k :: p) (j :: q) ↔ k ≠ j ∨ incomparable p q := by
  unfold incomparable
  rw [List.cons_prefix_cons, List.cons_prefix_cons]
  by_cases h : k = j
  · subst h; simp
  · have h' : ¬ j = k := fun e => h e.symm
    simp [h, h']

theorem incomparable_ne_nil {p q : List Str} (h : incomparable p q) : p ≠ [] ∧ q ≠ [] :=
  ⟨fun e => not_incomparable_nil_left q (e ▸ h), fun e => not_incomparable_nil_right p (e ▸ h)⟩

/-! ### building into a fresh map -/

/-- building into a fresh map along a path creates exactly that path -/
def mkPath (v : Val) : List Str → Entries
  | [] => []
  | [k] => [(k, v)]
  | k :: k' :: ks => [(k, .map (mkPath v (k' :: ks)))]

theorem addNewVal_nil_eq_mkPath (nv : Val) : ∀ p : List Str, addNewVal nv [] p = mkPath nv p
  | [] => by simp [addNewVal, mkPath]
  | [k] => by simp [addNewVal, mkPath, storeNew, lookup, insert]
  | k :: k' :: ks => by
      have ih := addNewVal_nil_eq_mkPath nv (k' :: ks)
      simp only [addNewVal, lookup, mkPath, insert, ih]

/-- along `p` the map `n` has nothing (or nil), or maps only — what "no new path equals or
    extends another" gives -/
def clearAlong : Entries → List Str → Bool
  | _, [] => true
  | n, [k] => match lookup k n with
      | none => true
      | some .null => true
      | _ => false
  | n, k :: k' :: ks => match lookup k n with
      | none => true
      | some .null => true
      | some (.map mm) => clearAlong mm (k' :: ks)
      | _ => false

theorem clearAlong_nil : ∀ p : List Str, clearAlong [] p = true
  | [] => by simp [clearAlong]
  | [k] => by simp [clearAlong, lookup]
  | k :: k' :: ks => by simp [clearAlong, lookup]

/-! ### `addNewVal` along a clear path -/

/-- 1. the new value sits at the new path -/
theorem addNewVal_get (nv : Val) : ∀ (p : List Str) (n : Entries), p ≠ [] →
    clearAlong n p = true → getPath (.map (addNewVal nv n p)) p = some nv
  | [], _, hp, _ => absurd rfl hp
  | [k], n, _, hc => by
      cases hl : lookup k n with
      | none => simp [addNewVal, storeNew, hl, getPath_insert_self, getPath_nil]
      | some v =>
        cases v <;> simp [clearAlong, hl] at hc
        simp [addNewVal, storeNew, hl, getPath_insert_self, getPath_nil]
  | k :: k' :: ks, n, _, hc => by
      cases hl : lookup k n with
      | none =>
        simp only [addNewVal, hl, getPath_insert_self]
        exact addNewVal_get nv (k' :: ks) [] (by simp) (clearAlong_nil _)
      | some v =>
        cases v with
        | null =>
          simp only [addNewVal, hl, getPath_insert_self]
          exact addNewVal_get nv (k' :: ks) [] (by simp) (clearAlong_nil _)
        | map mm =>
          simp only [clearAlong, hl] at hc
          simp only [addNewVal, hl, getPath_insert_self]
          exact addNewVal_get nv (k' :: ks) mm (by simp) hc
        | bool b => simp [clearAlong, hl] at hc
        | num t => simp [clearAlong, hl] at hc
        | str t => simp [clearAlong, hl] at hc
        | list xs => simp [clearAlong, hl] at hc

/-- `storeNew` only writes key `k` -/
theorem lookup_storeNew_ne (nv : Val) (k k' : Str) (n : Entries) (h : k' ≠ k) :
    lookup k' (storeNew nv k n) = lookup k' n := by
  unfold storeNew
  split <;> simp [lookup_insert_ne _ _ _ _ h]

/-- `addNewVal` only writes the first key of the path -/
theorem lookup_addNewVal_ne (nv : Val) (k k' : Str) (ks : List Str) (n : Entries) (h : k' ≠ k) :
    lookup k' (addNewVal nv n (k :: ks)) = lookup k' n := by
  cases ks with
  | nil => simp only [addNewVal]; exact lookup_storeNew_ne nv k k' n h
  | cons k₂ ks =>
    simp only [addNewVal]
    split
    · exact lookup_insert_ne _ _ _ _ h
    · exact lookup_insert_ne _ _ _ _ h
    · exact lookup_insert_ne _ _ _ _ h
    · split <;> exact lookup_insert_ne _ _ _ _ h
    · exact lookup_insert_ne _ _ _ _ h

/-- 2. frame: every path incomparable with the new path keeps its value.  (No `clearAlong`
    hypothesis is needed: whatever `addNewVal` does below the first differing key, the
    other path either leaves `p` at a map that is rebuilt around it, or both sides are
    `none`.) -/
theorem addNewVal_frame (nv : Val) : ∀ (p q : List Str) (n : Entries), incomparable p q →
    getPath (.map (addNewVal nv n p)) q = getPath (.map n) q
  | [], q, _, h => absurd h (not_incomparable_nil_left q)
  | _ :: _, [], _, h => absurd h (not_incomparable_nil_right _)
  | [k], j :: more, n, h => by
      have hkj : k ≠ j := by
        rcases (incomparable_cons_cons k j [] more).1 h with h | h
        · exact h
        · exact absurd h (not_incomparable_nil_left _)
      have hjk : j ≠ k := fun e => hkj e.symm
      simp only [getPath_map_cons, lookup_addNewVal_ne nv k j [] n hjk]
  | k :: k' :: ks, j :: more, n, h => by
      by_cases hjk : j = k
      · subst hjk
        have h' : incomparable (k' :: ks) more := by
          rcases (incomparable_cons_cons j j (k' :: ks) more).1 h with h | h
          · exact absurd rfl h
          · exact h
        have hm : more ≠ [] := (incomparable_ne_nil h').2
        have hnm : ∀ v : Val, v.isMap = false → getPath v more = none :=
          fun v hv => getPath_nonmap v more hv hm
        have hfresh : getPath (.map (addNewVal nv [] (k' :: ks))) more = none := by
          rw [addNewVal_frame nv (k' :: ks) more [] h']; exact getPath_empty more hm
        cases hl : lookup j n with
        | none =>
          simp only [addNewVal, hl, getPath_insert_self, hfresh]
          simp [getPath_map_cons, hl]
        | some v =>
          cases v with
          | null =>
            simp only [addNewVal, hl, getPath_insert_self, hfresh]
            simp [getPath_map_cons, hl, hnm .null rfl]
          | map mm =>
            simp only [addNewVal, hl, getPath_insert_self]
            rw [addNewVal_frame nv (k' :: ks) more mm h']
            simp [getPath_map_cons, hl]
          | bool b =>
            simp only [addNewVal, hl, getPath_insert_self]
            simp only [getPath_map_cons, hl]
            rw [hnm (.list _) rfl, hnm (.bool b) rfl]
          | num t =>
            simp only [addNewVal, hl, getPath_insert_self]
            simp only [getPath_map_cons, hl]
            rw [hnm (.list _) rfl, hnm (.num t) rfl]
          | str t =>
            simp only [addNewVal, hl, getPath_insert_self]
            simp only [getPath_map_cons, hl]
            rw [hnm (.list _) rfl, hnm (.str t) rfl]
          | list xs =>
            simp only [addNewVal, hl]
            split <;>
              (simp only [getPath_insert_self]
               simp only [getPath_map_cons, hl]
               rw [hnm (.list _) rfl, hnm (.list xs) rfl])
      · simp only [getPath_map_cons, lookup_addNewVal_ne nv k j (k' :: ks) n hjk]

/-- `clearAlong` looks at the map only through `lookup` of the first key -/
theorem clearAlong_congr (n n' : Entries) (k : Str) (ks : List Str)
    (h : lookup k n' = lookup k n) : clearAlong n' (k :: ks) = clearAlong n (k :: ks) := by
  cases ks with
  | nil => simp only [clearAlong, h]
  | cons k₂ ks => simp only [clearAlong, h]

theorem clearAlong_insert_map (n mm : Entries) (k k' : Str) (ks : List Str) :
    clearAlong (insert k (.map mm) n) (k :: k' :: ks) = clearAlong mm (k' :: ks) := by
  simp only [clearAlong, lookup_insert_self]

/-- 3. the loop invariant is preserved: adding along `p` keeps every incomparable path `q`
    clear.  (`clearAlong n p` is not needed: where `p` and `q` share a prefix, clearness
    along `q` already forces the `none`/nil/map cases of `addNewVal`.) -/
theorem clearAlong_addNewVal (nv : Val) : ∀ (p q : List Str) (n : Entries),
    clearAlong n q = true → incomparable p q → clearAlong (addNewVal nv n p) q = true
  | [], q, _, _, h => absurd h (not_incomparable_nil_left q)
  | _ :: _, [], _, _, h => absurd h (not_incomparable_nil_right _)
  | [k], j :: more, n, hq, h => by
      have hkj : k ≠ j := by
        rcases (incomparable_cons_cons k j [] more).1 h with h | h
        · exact h
        · exact absurd h (not_incomparable_nil_left _)
      have hjk : j ≠ k := fun e => hkj e.symm
      rw [clearAlong_congr n _ j more (lookup_addNewVal_ne nv k j [] n hjk)]; exact hq
  | k :: k' :: ks, j :: more, n, hq, h => by
      by_cases hjk : j = k
      · subst hjk
        have h' : incomparable (k' :: ks) more := by
          rcases (incomparable_cons_cons j j (k' :: ks) more).1 h with h | h
          · exact absurd rfl h
          · exact h
        cases more with
        | nil => exact absurd h' (not_incomparable_nil_right _)
        | cons j' more' =>
          cases hl : lookup j n with
          | none =>
            simp only [addNewVal, hl, clearAlong_insert_map]
            exact clearAlong_addNewVal nv (k' :: ks) (j' :: more') [] (clearAlong_nil _) h'
          | some v =>
            cases v with
            | null =>
              simp only [addNewVal, hl, clearAlong_insert_map]
              exact clearAlong_addNewVal nv (k' :: ks) (j' :: more') [] (clearAlong_nil _) h'
            | map mm =>
              simp only [clearAlong, hl] at hq
              simp only [addNewVal, hl, clearAlong_insert_map]
              exact clearAlong_addNewVal nv (k' :: ks) (j' :: more') mm hq h'
            | bool b => simp [clearAlong, hl] at hq
            | num t => simp [clearAlong, hl] at hq
            | str t => simp [clearAlong, hl] at hq
            | list xs => simp [clearAlong, hl] at hq
      · rw [clearAlong_congr n _ j more (lookup_addNewVal_ne nv k j (k' :: ks) n hjk)]; exact hq

/-! ### splitting: number of parts -/

theorem splitGo1_length (d : Char) : ∀ (s acc : Str),
    (splitGo [d] s 0 acc).length = s.count d + 1 := by
  intro s
  induction s with
  | nil => intro acc; simp [splitGo1_nil]
  | cons c cs ih =>
    intro acc
    by_cases hc : c = d
    · subst hc; rw [splitGo1_sep]; simp [ih]
    · rw [splitGo1_ne d c cs acc hc, ih]; simp [hc]

/-- `strings.Split(s, d)` has one more part than `s` has occurrences of `d` -/
theorem splitOn_length (d : Char) (s : Str) : (splitOn [d] s).length = s.count d + 1 :=
  splitGo1_length d s []

theorem splitOn_of_not_mem (d : Char) (s : Str) (h : d ∉ s) : splitOn [d] s = [s] := by
  unfold splitOn; rw [splitGo1_chunk_end d s [] h]; simp

theorem splitOn_singleton (d : Char) (s a : Str) (h : splitOn [d] s = [a]) : a = s ∧ d ∉ s := by
  have hl := splitOn_length d s
  rw [h] at hl
  have hc : s.count d = 0 := by simpa using hl.symm
  have hd : d ∉ s := List.count_eq_zero.1 hc
  rw [splitOn_of_not_mem d s hd] at h
  exact ⟨by simpa using h.symm, hd⟩

theorem dropTrailingEmpty_ne_nil (xs : List Str)
    (h : 2 ≤ xs.length ∨ ∃ x, xs = [x] ∧ x ≠ []) : dropTrailingEmpty xs ≠ [] := by
  unfold dropTrailingEmpty
  split
  · rename_i hl
    rcases h with h | ⟨x, rfl, hx⟩
    · intro e
      have := congrArg List.length e
      simp at this; omega
    · simp at hl; exact absurd hl hx
  · rcases h with h | ⟨x, rfl, _⟩
    · intro e; rw [e] at h; simp at h
    · simp

/-- 6. a non-empty new key has a non-empty path -/
theorem newKeyPath_ne_nil (nw : Str) (h : nw ≠ []) : newKeyPath nw ≠ [] := by
  unfold newKeyPath splitDot
  apply dropTrailingEmpty_ne_nil
  by_cases hd : '.' ∈ nw
  · left
    rw [splitOn_length]
    have : 0 < nw.count '.' := List.count_pos_iff.2 hd
    omega
  · right; exact ⟨nw, splitOn_of_not_mem '.' nw hd, h⟩

/-! ### the pair parser -/

/-- the pair parser of the loop, as a spec-level function -/
def pairOf (v : Str) : Option (Str × Str) :=
  match splitOn [':'] v with
  | [a] => some (a, a)
  | [a, b] => some (a, b)
  | _ => none

def validPair (v : Str) : Bool :=
  match pairOf v with
  | some (o, nw) => !nw.contains '*' && !nw.contains '[' && !(o.isEmpty || nw.isEmpty)
  | none => false

/-- more than one ':', an empty old or new part, or a new part containing '*' or '[' -/
def malformed (v : Str) : Prop :=
  v.count ':' > 1 ∨
  (∃ a b, splitOn [':'] v = [a, b] ∧ (a = [] ∨ b = [] ∨ '*' ∈ b ∨ '[' ∈ b)) ∨
  (∃ a, splitOn [':'] v = [a] ∧ ('*' ∈ a ∨ '[' ∈ a))

theorem validPair_some (v : Str) (h : validPair v = true) :
    ∃ o nw, pairOf v = some (o, nw) ∧ o ≠ [] ∧ nw ≠ [] ∧ '*' ∉ nw ∧ '[' ∉ nw := by
  unfold validPair at h
  cases hp : pairOf v with
  | none => simp [hp] at h
  | some c =>
    obtain ⟨o, nw⟩ := c
    simp [hp] at h
    exact ⟨o, nw, rfl, h.2.1, h.2.2, h.1.1, h.1.2⟩

theorem validPair_false_iff (v : Str) (hv : v ≠ []) : validPair v = false ↔ malformed v := by
  have hlen := splitOn_length ':' v
  unfold malformed validPair pairOf
  cases hs : splitOn [':'] v with
  | nil => rw [hs] at hlen; simp at hlen
  | cons a t =>
    cases t with
    | nil =>
      obtain ⟨rfl, hc⟩ := splitOn_singleton ':' v a hs
      have hc0 : a.count ':' = 0 := List.count_eq_zero.2 hc
      simp [hc0, hv]
      by_cases h : '*' ∈ a <;> simp [h]
    | cons b t =>
      cases t with
      | nil =>
        rw [hs] at hlen
        have hc1 : v.count ':' = 1 := by simpa using hlen.symm
        simp [hc1]
        constructor
        · intro h
          refine ⟨a, b, ⟨rfl, rfl⟩, ?_⟩
          by_cases h1 : a = []
          · exact Or.inl h1
          · by_cases h2 : '*' ∈ b
            · exact Or.inr (Or.inr (Or.inl h2))
            · by_cases h3 : '[' ∈ b
              · exact Or.inr (Or.inr (Or.inr h3))
              · exact Or.inr (Or.inl (h h2 h3 h1))
        · rintro ⟨a', b', ⟨rfl, rfl⟩, h⟩ h1 h2 h3
          rcases h with h | h | h | h
          · exact absurd h h3
          · exact h
          · exact absurd h h1
          · exact absurd h h2
      | cons c t =>
        rw [hs] at hlen
        have : v.count ':' > 1 := by simp at hlen; omega
        simp [this]

/-! ### the loop -/

section Loop
variable (vfp : Str → Except ErrKind (List Val))

theorem newMapLoop_nil (n : Entries) : newMapLoop vfp [] n = (n, none) := by
  simp [newMapLoop]

/-- "" pairs are skipped -/
theorem newMapLoop_empty_pair (rest : List Str) (n : Entries) :
    newMapLoop vfp ([] :: rest) n = newMapLoop vfp rest n := by
  simp [newMapLoop]

/-- 5. one step of the loop on a non-empty pair string -/
theorem newMapLoop_cons (v : Str) (rest : List Str) (n : Entries) (hv : v ≠ []) :
    newMapLoop vfp (v :: rest) n =
      if validPair v = true then
        match pairOf v with
        | some (o, nw) =>
          (match vfp o with
            | .error e => (n, some e)
            | .ok [] => newMapLoop vfp rest n
            | .ok vs => newMapLoop vfp rest (addNewVal (singleOrList vs) n (newKeyPath nw)))
        | none => (n, some .keypair)
      else (n, some .keypair) := by
  have hve : v.isEmpty = false := by cases v <;> simp_all
  rw [newMapLoop]
  simp only [hve]
  unfold validPair pairOf
  cases hs : splitOn [':'] v with
  | nil => simp
  | cons a t =>
    cases t with
    | nil =>
      simp only [Bool.false_eq_true, if_false]
      cases a.contains '*' <;> cases a.contains '[' <;> cases a.isEmpty <;> simp <;>
        (cases vfp a with
          | error e => rfl
          | ok l => cases l <;> rfl)
    | cons b t =>
      cases t with
      | nil =>
        simp only [Bool.false_eq_true, if_false]
        cases b.contains '*' <;> cases b.contains '[' <;> cases a.isEmpty <;>
          cases b.isEmpty <;> simp <;>
          (cases vfp a with
            | error e => rfl
            | ok l => cases l <;> rfl)
      | cons c t => simp

theorem newMapLoop_invalid (v : Str) (rest : List Str) (n : Entries) (hv : v ≠ [])
    (h : validPair v = false) : newMapLoop vfp (v :: rest) n = (n, some .keypair) := by
  rw [newMapLoop_cons vfp v rest n hv]; simp [h]

theorem newMapLoop_error (v : Str) (rest : List Str) (n : Entries) (hv : v ≠ [])
    (hval : validPair v = true) (o nw : Str) (hp : pairOf v = some (o, nw)) (e : ErrKind)
    (he : vfp o = .error e) : newMapLoop vfp (v :: rest) n = (n, some e) := by
  rw [newMapLoop_cons vfp v rest n hv]; simp [hval, hp, he]

theorem newMapLoop_skip (v : Str) (rest : List Str) (n : Entries) (hv : v ≠ [])
    (hval : validPair v = true) (o nw : Str) (hp : pairOf v = some (o, nw))
    (he : vfp o = .ok []) : newMapLoop vfp (v :: rest) n = newMapLoop vfp rest n := by
  rw [newMapLoop_cons vfp v rest n hv]; simp [hval, hp, he]

theorem newMapLoop_add (v : Str) (rest : List Str) (n : Entries) (hv : v ≠ [])
    (hval : validPair v = true) (o nw : Str) (hp : pairOf v = some (o, nw)) (vs : List Val)
    (he : vfp o = .ok vs) (hvs : vs ≠ []) :
    newMapLoop vfp (v :: rest) n =
      newMapLoop vfp rest (addNewVal (singleOrList vs) n (newKeyPath nw)) := by
  rw [newMapLoop_cons vfp v rest n hv]
  cases vs with
  | nil => exact absurd rfl hvs
  | cons x xs => simp [hval, hp, he]

/-- 4. the loop over a concatenation: run the first part; continue unless it failed -/
theorem newMapLoop_append (pre post : List Str) : ∀ n : Entries,
    newMapLoop vfp (pre ++ post) n =
      match newMapLoop vfp pre n with
      | (n', none) => newMapLoop vfp post n'
      | r => r := by
  induction pre with
  | nil => intro n; simp [newMapLoop_nil]
  | cons v pre ih =>
    intro n
    by_cases hv : v = []
    · subst hv
      rw [List.cons_append, newMapLoop_empty_pair, newMapLoop_empty_pair]; exact ih n
    · rw [List.cons_append]
      cases hval : validPair v with
      | false =>
        rw [newMapLoop_invalid vfp v _ n hv hval, newMapLoop_invalid vfp v _ n hv hval]
      | true =>
        obtain ⟨o, nw, hp, -⟩ := validPair_some v hval
        cases he : vfp o with
        | error e =>
          rw [newMapLoop_error vfp v _ n hv hval o nw hp e he,
            newMapLoop_error vfp v _ n hv hval o nw hp e he]
        | ok vs =>
          cases vs with
          | nil =>
            rw [newMapLoop_skip vfp v _ n hv hval o nw hp he,
              newMapLoop_skip vfp v _ n hv hval o nw hp he]
            exact ih n
          | cons x xs =>
            rw [newMapLoop_add vfp v _ n hv hval o nw hp _ he (by simp),
              newMapLoop_add vfp v _ n hv hval o nw hp _ he (by simp)]
            exact ih _

/-! ### the loop on valid input is a fold over the contributing pairs -/

/-- the contributions of the pairs: new path and value to store, in order; pairs that are
    empty, unparsable, or whose old path fails or yields nothing contribute nothing -/
def contrib : List Str → List (List Str × Val)
  | [] => []
  | v :: rest =>
    if v.isEmpty then contrib rest
    else match pairOf v with
      | some (o, nw) =>
        (match vfp o with
          | .ok (x :: xs) => (newKeyPath nw, singleOrList (x :: xs)) :: contrib rest
          | _ => contrib rest)
      | none => contrib rest

/-- the contributing new paths -/
def contribPaths (pairs : List Str) : List (List Str) := (contrib vfp pairs).map (·.1)

theorem mem_contrib (pairs : List Str) (p : List Str) (val : Val) :
    (p, val) ∈ contrib vfp pairs ↔
      ∃ v ∈ pairs, v ≠ [] ∧ ∃ o nw vs, pairOf v = some (o, nw) ∧ vfp o = .ok vs ∧ vs ≠ [] ∧
        p = newKeyPath nw ∧ val = singleOrList vs := by
  induction pairs with
  | nil => simp [contrib]
  | cons v rest ih =>
    by_cases hv : v = []
    · subst hv; simp [contrib, ih]
    · have hve : v.isEmpty = false := by cases v <;> simp_all
      simp only [contrib, hve, Bool.false_eq_true, if_false, List.mem_cons, exists_eq_or_imp]
      cases hp : pairOf v with
      | none => simp [ih]
      | some c =>
        obtain ⟨o, nw⟩ := c
        dsimp only
        cases he : vfp o with
        | error e => simp [ih, hv, he]
        | ok vs =>
          cases vs with
          | nil => simp [ih, hv, he]
          | cons x xs =>
            simp only [List.mem_cons, ih, Prod.mk.injEq, Option.some.injEq]
            constructor
            · rintro (⟨rfl, rfl⟩ | h)
              · exact Or.inl ⟨hv, o, nw, x :: xs, ⟨rfl, rfl⟩, he, by simp, rfl, rfl⟩
              · exact Or.inr h
            · rintro (⟨-, o', nw', vs, ⟨rfl, rfl⟩, he', -, rfl, rfl⟩ | h)
              · rw [he] at he'; cases he'; exact Or.inl ⟨rfl, rfl⟩
              · exact Or.inr h

theorem mem_contribPaths (pairs : List Str) (p : List Str) :
    p ∈ contribPaths vfp pairs ↔
      ∃ v ∈ pairs, v ≠ [] ∧ ∃ o nw vs, pairOf v = some (o, nw) ∧ vfp o = .ok vs ∧ vs ≠ [] ∧
        p = newKeyPath nw := by
  unfold contribPaths
  rw [List.mem_map]
  constructor
  · rintro ⟨⟨p', val⟩, hm, rfl⟩
    obtain ⟨v, hvm, hv, o, nw, vs, h1, h2, h3, h4, -⟩ := (mem_contrib vfp pairs p' val).1 hm
    exact ⟨v, hvm, hv, o, nw, vs, h1, h2, h3, h4⟩
  · rintro ⟨v, hvm, hv, o, nw, vs, h1, h2, h3, h4⟩
    exact ⟨(p, singleOrList vs),
      (mem_contrib vfp pairs p _).2 ⟨v, hvm, hv, o, nw, vs, h1, h2, h3, h4, rfl⟩, rfl⟩

/-- insert all contributions in order -/
def addAll (n : Entries) (cs : List (List Str × Val)) : Entries :=
  cs.foldl (fun n c => addNewVal c.2 n c.1) n

theorem addAll_nil (n : Entries) : addAll n [] = n := rfl

theorem addAll_cons (n : Entries) (c : List Str × Val) (cs : List (List Str × Val)) :
    addAll n (c :: cs) = addAll (addNewVal c.2 n c.1) cs := rfl

/-- on valid input whose old paths all evaluate, the loop cannot fail and is the fold -/
theorem newMapLoop_eq_addAll : ∀ (pairs : List Str) (n : Entries),
    (∀ v ∈ pairs, v ≠ [] → validPair v = true) →
    (∀ v ∈ pairs, v ≠ [] → ∀ o nw, pairOf v = some (o, nw) → ∃ vs, vfp o = .ok vs) →
    newMapLoop vfp pairs n = (addAll n (contrib vfp pairs), none) := by
  intro pairs
  induction pairs with
  | nil => intro n _ _; simp [newMapLoop_nil, contrib, addAll_nil]
  | cons v rest ih =>
    intro n hvalid hok
    have hvalid' : ∀ v ∈ rest, v ≠ [] → validPair v = true :=
      fun w hw => hvalid w (List.mem_cons_of_mem _ hw)
    have hok' : ∀ v ∈ rest, v ≠ [] → ∀ o nw, pairOf v = some (o, nw) → ∃ vs, vfp o = .ok vs :=
      fun w hw => hok w (List.mem_cons_of_mem _ hw)
    by_cases hv : v = []
    · subst hv
      rw [newMapLoop_empty_pair, ih n hvalid' hok']; simp [contrib]
    · have hve : v.isEmpty = false := by cases v <;> simp_all
      have hval := hvalid v (List.mem_cons_self) hv
      obtain ⟨o, nw, hp, -⟩ := validPair_some v hval
      obtain ⟨vs, he⟩ := hok v (List.mem_cons_self) hv o nw hp
      cases vs with
      | nil =>
        rw [newMapLoop_skip vfp v _ n hv hval o nw hp he, ih n hvalid' hok']
        simp [contrib, hve, hp, he]
      | cons x xs =>
        rw [newMapLoop_add vfp v _ n hv hval o nw hp _ he (by simp), ih _ hvalid' hok']
        simp [contrib, hve, hp, he, addAll_cons]

end Loop

/-! ### the fold: frame and content -/

/-- paths incomparable with every inserted path keep their value (no side conditions) -/
theorem addAll_frame (q : List Str) : ∀ (cs : List (List Str × Val)) (n : Entries),
    (∀ c ∈ cs, incomparable c.1 q) →
    getPath (.map (addAll n cs)) q = getPath (.map n) q := by
  intro cs
  induction cs with
  | nil => intro n _; rfl
  | cons c cs ih =>
    intro n h
    rw [addAll_cons, ih _ (fun c' hc' => h c' (List.mem_cons_of_mem _ hc'))]
    exact addNewVal_frame c.2 c.1 q n (h c List.mem_cons_self)

/-- pairwise incomparable non-empty paths, all clear in the start map: every inserted value
    is found at its path afterwards -/
theorem addAll_get : ∀ (cs : List (List Str × Val)) (n : Entries),
    (∀ c ∈ cs, c.1 ≠ []) →
    List.Pairwise incomparable (cs.map (·.1)) →
    (∀ c ∈ cs, clearAlong n c.1 = true) →
    ∀ c ∈ cs, getPath (.map (addAll n cs)) c.1 = some c.2 := by
  intro cs
  induction cs with
  | nil => intro n _ _ _ c hc; simp at hc
  | cons c₀ cs ih =>
    intro n hne hpw hclear c hc
    rw [List.map_cons, List.pairwise_cons] at hpw
    have hinc : ∀ c' ∈ cs, incomparable c₀.1 c'.1 :=
      fun c' hc' => hpw.1 c'.1 (List.mem_map_of_mem hc')
    rw [addAll_cons]
    rcases List.mem_cons.1 hc with rfl | hc
    · rw [addAll_frame c.1 cs _ (fun c' hc' => incomparable_symm (hinc c' hc'))]
      exact addNewVal_get c.2 c.1 n (hne c List.mem_cons_self) (hclear c List.mem_cons_self)
    · refine ih _ (fun c' hc' => hne c' (List.mem_cons_of_mem _ hc')) hpw.2 ?_ c hc
      intro c' hc'
      exact clearAlong_addNewVal c₀.2 c₀.1 c'.1 n (hclear c' (List.mem_cons_of_mem _ hc'))
        (hinc c' hc')

end Mxj.NM
