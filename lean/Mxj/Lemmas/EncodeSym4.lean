/-
  Mxj.Lemmas.EncodeSym4 — C02 for symmetric non-default option pairs, part 4: what the
  decoding conventions produce has the decoded shape, and the tree-level fixed point.
-/
import Mxj.Lemmas.EncodeSym3
namespace Mxj.EncSym
open Mxj Mxj.Enc

/-! ### text runs -/

theorem trimG_trimG (d : DecCfg) (s : Str) : trimG d (trimG d s) = trimG d s :=
  trimChars_idem _ s

theorem textRuns_trimmedG (d : DecCfg) (hesc : d.escDec = false) :
    ∀ (ks : List Node) (seen : Bool), ∀ t ∈ Conv.textRuns d seen ks,
    trimG d t.value = t.value ∧ t.value ≠ []
  | [], _, _, h => by simp [Conv.textRuns] at h
  | n :: ks, seen, t, h => by
      cases n with
      | text s =>
        simp only [Conv.textRuns, textOf_eq d hesc] at h
        by_cases hte : (trimG d s).isEmpty = true
        · simp only [hte, if_true] at h
          exact textRuns_trimmedG d hesc ks seen t h
        · simp only [hte, Bool.false_eq_true, if_false] at h
          rcases List.mem_cons.1 h with rfl | h
          · refine ⟨trimG_trimG d s, ?_⟩
            intro he; simp only at he; rw [he] at hte; simp at hte
          · exact textRuns_trimmedG d hesc ks seen t h
      | elem _ _ _ _ =>
        simp only [Conv.textRuns] at h
        exact textRuns_trimmedG d hesc ks true t h
      | comment _ | procinst _ _ | directive _ =>
        simp only [Conv.textRuns] at h
        exact textRuns_trimmedG d hesc ks seen t h

theorem textRuns_lateG (d : DecCfg) (S : Strconv) (hseq : d.seqNum = false) :
    ∀ (ks : List Node) (seen : Bool) (seq : Nat),
    ∀ t ∈ Conv.textRuns d seen ks, t.early = false →
    seen = true ∨ Conv.childVals d S seq ks ≠ []
  | [], _, _, _, h, _ => by simp [Conv.textRuns] at h
  | n :: ks, seen, seq, t, h, he => by
      cases n with
      | text s =>
        simp only [Conv.textRuns] at h
        rw [childVals_textG]
        by_cases hte : (Conv.textOf d s).isEmpty = true
        · simp only [hte, if_true] at h
          exact textRuns_lateG d S hseq ks seen seq t h he
        · simp only [hte, Bool.false_eq_true, if_false] at h
          rcases List.mem_cons.1 h with rfl | h
          · left; simpa using he
          · exact textRuns_lateG d S hseq ks seen seq t h he
      | elem _ _ _ _ =>
        right; rw [childVals_elemG d S hseq]; simp
      | comment _ | procinst _ _ | directive _ =>
        simp only [Conv.textRuns] at h
        simp only [Conv.childVals]
        exact textRuns_lateG d S hseq ks seen seq t h he

theorem textRuns_earlyG (d : DecCfg) :
    ∀ (ks : List Node) (seen : Bool), ∀ t ∈ Conv.textRuns d seen ks, t.early = true →
    seen = false
  | [], _, _, h, _ => by simp [Conv.textRuns] at h
  | n :: ks, seen, t, h, he => by
      cases n with
      | text s =>
        simp only [Conv.textRuns] at h
        by_cases hte : (Conv.textOf d s).isEmpty = true
        · simp only [hte, if_true] at h
          exact textRuns_earlyG d ks seen t h he
        · simp only [hte, Bool.false_eq_true, if_false] at h
          rcases List.mem_cons.1 h with rfl | h
          · simpa using he
          · exact textRuns_earlyG d ks seen t h he
      | elem _ _ _ _ =>
        simp only [Conv.textRuns] at h
        have := textRuns_earlyG d ks true t h he
        simp at this
      | comment _ | procinst _ _ | directive _ =>
        simp only [Conv.textRuns] at h
        exact textRuns_earlyG d ks seen t h he

/-! ### what the conventions produce has the decoded shape -/

theorem textOk_lf (d : DecCfg) (S : Strconv) (hL : LeafLaw d S) (s : Str)
    (ht : trimG d s = s) (hne : s ≠ []) : textOk d S (lf d S s) = true := by
  have hc := hL.clean s ht hne
  simp only [textOk, attrOk, hL.scalar s, hL.reparse s, decide_true, Bool.and_self, hc.1,
    beq_self_eq_true, Bool.true_and, Bool.not_eq_true']
  cases h : leafText (lf d S s) with
  | nil => exact absurd h hc.2
  | cons _ _ => rfl

theorem attrOk_lf (d : DecCfg) (S : Strconv) (hL : LeafLaw d S) (s : Str) :
    attrOk d S (lf d S s) = true := by
  simp only [attrOk, hL.scalar s, hL.reparse s, decide_true, Bool.and_self]

theorem DecodedListG_of_all (d : DecCfg) (S : Strconv) (e : EncCfg) :
    ∀ (vs : List Val), (∀ x ∈ vs, DecodedG d S e x = true) → DecodedListG d S e vs = true
  | [], _ => rfl
  | x :: xs, h => by
      have hx := h x (List.mem_cons_self ..)
      unfold DecodedG at hx
      simp only [DecodedListG, hx, Bool.true_and]
      exact DecodedListG_of_all d S e xs (fun y hy => h y (List.mem_cons_of_mem _ hy))

theorem DecodedChildG_collectV (d : DecCfg) (S : Strconv) (e : EncCfg) (vs : List Val)
    (hne : vs ≠ []) (h : ∀ x ∈ vs, DecodedG d S e x = true) :
    DecodedChildG d S e (collectV vs) = true := by
  match vs, hne, h with
  | [x], _, h =>
    have := h x (List.mem_cons_self ..)
    unfold DecodedG at this
    simp only [Bool.and_eq_true] at this
    exact this.2
  | a :: b :: r, _, h =>
    simp only [collectV, DecodedChildG, List.length_cons, Bool.and_eq_true, decide_eq_true_eq]
    exact ⟨by omega, DecodedListG_of_all d S e _ h⟩

/-- the element clause of `Conv.value`, given the children's values have the decoded shape
    under folded element keys, and the attribute keys are attribute keys -/
theorem value_decoded_coreG (d : DecCfg) (S : Strconv) (e : EncCfg) (hs : Sym d e)
    (hF : FoldLaw d S) (hL : LeafLaw d S) (sp name : Str) (attrs : List Attr) (kids : List Node)
    (hattr : ∀ a ∈ attrs, isAttrK e (attrKey d S a.name) = true)
    (hcs : ∀ c ∈ Conv.childVals d S 0 kids,
      DecodedG d S e c.2 = true ∧ isElemKG e c.1 = true ∧ elemKey d S c.1 = c.1) :
    DecodedG d S e (Conv.value d S (.elem sp name attrs kids)) = true := by
  -- attribute entries
  have hA : ∀ x ∈ loadAttrs d S attrs, isAttrK e x.1 = true ∧ attrOk d S x.2 = true
      ∧ attrKey d S (x.1.drop e.attrPrefix.length) = x.1 := by
    intro x hx
    obtain ⟨a, ha, rfl⟩ := mem_loadAttrsG d S hs.esc hs.skip attrs x hx
    refine ⟨hattr a ha, attrOk_lf d S hL _, ?_⟩
    simp only [attrKey_eq, hs.pfx, List.drop_left, hF.attr_idem]
  have hAnd := nodup_keys_loadAttrsG d S attrs
  have hBnd := nodup_keys_groupOnto (loadAttrs d S attrs) (Conv.childVals d S 0 kids) hAnd
  -- entries of the grouped base
  have hB : ∀ x ∈ Conv.groupOnto (loadAttrs d S attrs) (Conv.childVals d S 0 kids),
      entryDecodedG d S e x = true ∧ x.1 ≠ e.textK := by
    rintro ⟨k, v⟩ hx
    have hl := (mem_iff_lookup _ hBnd k v).1 hx
    rw [lookup_groupOnto] at hl
    split at hl
    · rename_i hk
      obtain ⟨c, hc, rfl⟩ := mem_keys.1 hk
      have hek := (hcs c hc).2.1
      have hfix := (hcs c hc).2.2
      have hnone : lookup c.1 (loadAttrs d S attrs) = none := by
        cases hla : lookup c.1 (loadAttrs d S attrs) with
        | none => rfl
        | some w =>
          have := (hA _ ((mem_iff_lookup _ hAnd c.1 w).2 hla)).1
          simp [isElemKG, this] at hek
      rw [hnone, collect_none _ (valsOf_ne_nil hk)] at hl
      obtain rfl := Option.some.inj hl
      have hdc : DecodedChildG d S e (collectV (valsOf c.1 (Conv.childVals d S 0 kids))) = true :=
        DecodedChildG_collectV d S e _ (valsOf_ne_nil hk) (fun x hx => (hcs _ (mem_valsOf hx)).1)
      simp only [isElemKG, Bool.not_eq_true', Bool.or_eq_false_iff, decide_eq_false_iff_not] at hek
      exact ⟨by simp only [entryDecodedG, hek.2, hek.1, Bool.false_eq_true, if_false, hdc, hfix,
        decide_true, Bool.and_self], hek.1⟩
    · have hm := (mem_iff_lookup _ hAnd k v).2 hl
      have := hA _ hm
      refine ⟨by simp only [entryDecodedG, this.1, if_true, this.2.1, this.2.2, decide_true,
        Bool.and_self], ?_⟩
      intro he
      have h1 := this.1
      have he' : k = e.textK := he
      rw [he', hs.txt_not_attr] at h1
      simp at h1
  -- a non-empty base is a decoded map
  have hmap : ∀ (l : Entries), (keys l).Nodup →
      (∀ x ∈ l, entryDecodedG d S e x = true) →
      ((∃ x ∈ l, x.1 ≠ e.textK) ∨ (d.asMap = true ∧ l.isEmpty = false)) →
      DecodedG d S e (.map l) = true := by
    intro l hnd hall hex
    unfold DecodedG
    simp only [Val.isList, Bool.not_false, Bool.true_and, DecodedChildG, Bool.and_eq_true]
    refine ⟨⟨(distinctKeys_iff l).2 hnd, ?_⟩, (DecodedEntriesG_iff d S e l).2 hall⟩
    apply Bool.or_eq_true_iff.2
    rcases hex with ⟨x, hx, hk⟩ | ⟨hm, hne⟩
    · left
      rw [List.any_eq_true]
      exact ⟨x, hx, by simpa using hk⟩
    · right; simp [hm, hne]
  have hfirst : ∀ (l : Entries), l.isEmpty = false → (∀ x ∈ l, x.1 ≠ e.textK) →
      ∃ x ∈ l, x.1 ≠ e.textK := by
    intro l hne h
    cases l with
    | nil => simp at hne
    | cons x r => exact ⟨x, List.mem_cons_self .., h x (List.mem_cons_self ..)⟩
  -- base with a text entry
  have htext : ∀ (tv : Val), textOk d S tv = true →
      ((Conv.groupOnto (loadAttrs d S attrs) (Conv.childVals d S 0 kids)).isEmpty = false
        ∨ d.asMap = true) →
      DecodedG d S e (.map (insert d.textK tv
        (Conv.groupOnto (loadAttrs d S attrs) (Conv.childVals d S 0 kids)))) = true := by
    intro tv ht hbne
    have hnot : d.textK ∉ keys (Conv.groupOnto (loadAttrs d S attrs) (Conv.childVals d S 0 kids)) := by
      intro hm
      obtain ⟨x, hx, hk⟩ := mem_keys.1 hm
      exact (hB x hx).2 (by rw [hs.txt]; exact hk)
    apply hmap
    · exact nodup_keys_insert _ _ _ hBnd
    · intro x hx
      rcases mem_insert hx with rfl | hx
      · simp only [entryDecodedG, ← hs.txt, hs.txt_not_attr, Bool.false_eq_true, if_false, if_true,
          ht]
      · exact (hB x hx).1
    · rw [insert_of_not_mem _ _ _ hnot]
      rcases hbne with hbne | hm
      · left
        obtain ⟨x, hx, hk⟩ := hfirst _ hbne (fun x hx => (hB x hx).2)
        exact ⟨x, List.mem_append_left _ hx, hk⟩
      · right
        refine ⟨hm, ?_⟩
        cases Conv.groupOnto (loadAttrs d S attrs) (Conv.childVals d S 0 kids) <;> rfl
  cases hruns : Conv.textRuns d (!(loadAttrs d S attrs).isEmpty || d.asMap) kids with
  | nil =>
    rw [value_elem_nil d S _ _ _ _ hruns]
    split
    · unfold DecodedG
      simp [Val.isList, DecodedChildG, leafChildOk]
    · rename_i hbne
      have hbne' : (Conv.groupOnto (loadAttrs d S attrs) (Conv.childVals d S 0 kids)).isEmpty = false := by
        simpa using hbne
      exact hmap _ hBnd (fun x hx => (hB x hx).1)
        (.inl (hfirst _ hbne' (fun x hx => (hB x hx).2)))
  | cons t r =>
    have hmem : t ∈ Conv.textRuns d (!(loadAttrs d S attrs).isEmpty || d.asMap) kids := by
      rw [hruns]; exact List.mem_cons_self ..
    have htr := textRuns_trimmedG d hs.esc kids _ t hmem
    have hok : ∀ k, textOk d S (cast S d.cast t.value k) = true := by
      intro k
      rw [cast_key S d.cast hs.skip]
      exact textOk_lf d S hL t.value htr.1 htr.2
    rw [value_elem_cons d S _ _ _ _ t r hruns]
    split
    · rename_i hearly
      have hseen := textRuns_earlyG d kids _ t hmem hearly
      have hm : d.asMap = false := by
        cases hm : d.asMap
        · rfl
        · rw [hm] at hseen; simp at hseen
      split
      · have h1 := hok (elemKey d S name)
        have hsc : isScalar (cast S d.cast t.value (elemKey d S name)) = true := textOk_scalar h1
        unfold DecodedG
        cases hv : cast S d.cast t.value (elemKey d S name) with
        | null => rw [hv] at hsc; simp [isScalar, attrValue] at hsc
        | list _ => rw [hv] at hsc; simp [isScalar, attrValue] at hsc
        | map _ => rw [hv] at hsc; simp [isScalar, attrValue] at hsc
        | str _ | num _ | bool _ =>
          rw [hv] at h1
          simp [Val.isList, DecodedChildG, leafChildOk, hm, h1]
      · rename_i hbne
        exact htext _ (hok _) (.inl (by simpa using hbne))
    · rename_i hearly
      have hlate := textRuns_lateG d S hs.seq kids _ 0 t hmem (by simpa using hearly)
      apply htext _ (hok _)
      rcases hlate with h | h
      · simp only [Bool.or_eq_true, Bool.not_eq_true'] at h
        rcases h with h | h
        · left
          exact groupOnto_ne_nil _ _ (.inl h)
        · exact .inr h
      · left
        exact groupOnto_ne_nil _ _ (.inr h)

mutual
theorem value_decodedG (d : DecCfg) (S : Strconv) (e : EncCfg) (hs : Sym d e)
    (hF : FoldLaw d S) (hL : LeafLaw d S) : ∀ (t : Node), Conv.inDomain d S t = true →
    NamesOkG d S e t = true → isElem t = true → DecodedG d S e (Conv.value d S t) = true
  | .elem sp name attrs kids, hin, hn, _ => by
      simp only [Conv.inDomain, Bool.and_eq_true] at hin
      simp only [NamesOkG, Bool.and_eq_true, List.all_eq_true] at hn
      exact value_decoded_coreG d S e hs hF hL sp name attrs kids hn.1
        (childVals_decodedG d S e hs hF hL kids 0 hin.2 hn.2)
  | .text _, _, _, h => by simp [isElem] at h
  | .comment _, _, _, h => by simp [isElem] at h
  | .procinst _ _, _, _, h => by simp [isElem] at h
  | .directive _, _, _, h => by simp [isElem] at h
theorem childVals_decodedG (d : DecCfg) (S : Strconv) (e : EncCfg) (hs : Sym d e)
    (hF : FoldLaw d S) (hL : LeafLaw d S) : ∀ (ks : List Node) (seq : Nat),
    Conv.inDomainKids d S ks = true → NamesOkKidsG d S e ks = true →
    ∀ c ∈ Conv.childVals d S seq ks,
      DecodedG d S e c.2 = true ∧ isElemKG e c.1 = true ∧ elemKey d S c.1 = c.1
  | [], _, _, _, c, h => by simp [Conv.childVals] at h
  | .elem sp name attrs kids :: rest, seq, hin, hn, c, h => by
      simp only [Conv.inDomainKids, Bool.and_eq_true] at hin
      simp only [NamesOkKidsG, Bool.and_eq_true, Bool.not_eq_true'] at hn
      rw [childVals_elemG d S hs.seq] at h
      rcases List.mem_cons.1 h with rfl | h
      · refine ⟨value_decodedG d S e hs hF hL (.elem sp name attrs kids) hin.1.2 hn.1.2 rfl, ?_,
          hF.elem_idem name⟩
        have h1 : ¬ elemKey d S name = e.textK := by
          rw [hs.txt]; exact of_decide_eq_true hin.1.1.1
        simp only [isElemKG, h1, decide_false, hn.1.1, Bool.or_false, Bool.not_false]
      · exact childVals_decodedG d S e hs hF hL rest seq hin.2 hn.2 c h
  | .text _ :: rest, seq, hin, hn, c, h => by
      simp only [Conv.inDomainKids] at hin
      simp only [NamesOkKidsG] at hn
      simp only [Conv.childVals] at h
      exact childVals_decodedG d S e hs hF hL rest seq hin hn c h
  | .comment _ :: rest, seq, hin, hn, c, h => by
      simp only [Conv.inDomainKids] at hin
      simp only [NamesOkKidsG] at hn
      simp only [Conv.childVals] at h
      exact childVals_decodedG d S e hs hF hL rest seq hin hn c h
  | .procinst _ _ :: rest, seq, hin, hn, c, h => by
      simp only [Conv.inDomainKids] at hin
      simp only [NamesOkKidsG] at hn
      simp only [Conv.childVals] at h
      exact childVals_decodedG d S e hs hF hL rest seq hin hn c h
  | .directive _ :: rest, seq, hin, hn, c, h => by
      simp only [Conv.inDomainKids] at hin
      simp only [NamesOkKidsG] at hn
      simp only [Conv.childVals] at h
      exact childVals_decodedG d S e hs hF hL rest seq hin hn c h
end

/-! ### XML → Map → XML → Map, tree level -/

theorem imageSibsG_not_list (d : DecCfg) (S : Strconv) (e : EncCfg) (v : Val)
    (hl : v.isList = false) : imageSibsG d S e v = [imageG d S e v] := by
  cases v with
  | list _ => simp [Val.isList] at hl
  | null | bool _ | num _ | str _ | map _ => simp only [imageG, imageSibsG, collectV]

/-- for an in-domain tree `t`, encoding the value the conventions give and applying the
    conventions to the encoder's tree gives an equivalent value -/
theorem fixed_point_valueG (d : DecCfg) (S : Strconv) (e : EncCfg) (hs : Sym d e)
    (hF : FoldLaw d S) (hL : LeafLaw d S) (sp name : Str) (attrs : List Attr) (kids : List Node)
    (hd : Conv.inDomain d S (.elem sp name attrs kids) = true)
    (hn : NamesOkG d S e (.elem sp name attrs kids) = true) :
    ∃ n, encTree e (elemKey d S name) (Conv.value d S (.elem sp name attrs kids)).norm = .ok [n]
      ∧ Conv.doc d S n = .map [(elemKey d S name, Conv.value d S n)]
      ∧ Conv.value d S n ≈ᵥ Conv.value d S (.elem sp name attrs kids) := by
  have hD := value_decodedG d S e hs hF hL (.elem sp name attrs kids) hd hn rfl
  generalize Conv.value d S (.elem sp name attrs kids) = w at hD
  have hDn := DecodedG_norm d S e w hD
  have hwf : w.wf = true := by
    unfold DecodedG at hD
    simp only [Bool.and_eq_true] at hD
    exact DecodedChildG_wf d S e w hD.2
  unfold DecodedG at hDn
  simp only [Bool.and_eq_true, Bool.not_eq_true'] at hDn
  obtain ⟨hnl, hDc⟩ := hDn
  obtain ⟨ns, hns⟩ := encTree_okG d S e hs.txt_not_attr (elemKey d S name) w.norm hDc
  obtain ⟨a', k', rfl⟩ := encTree_single e (elemKey d S name) w.norm ns hnl hns
  refine ⟨_, hns, ?_, ?_⟩
  · simp only [Conv.doc, hF.elem_idem]
  · have hcv := childVals_encTreeG d S e hs (elemKey d S name) w.norm _ (hF.elem_idem name) hDc hns
    rw [childVals_singleG d S hs.seq, imageSibsG_not_list d S e _ hnl] at hcv
    simp only [List.map_cons, List.map_nil, List.cons.injEq, Prod.mk.injEq, and_true] at hcv
    rw [hcv.2]
    refine Val.equiv_trans (image_decodedG d S e hs.txt_not_attr _ ?_) (norm_idem w hwf)
    unfold DecodedG
    simp only [Bool.and_eq_true, Bool.not_eq_true']
    exact ⟨hnl, hDc⟩

end Mxj.EncSym
