/-
  Mxj.Lemmas.IndentCor — helper lemmas for the corollaries that carry C16 / C03 / C05 over to the
  indented encoders (Mxj.Props.C16ExtIndent, C03ExtIndent, C05ExtEnc).
    (1) namespace `Mxj.Enc`:  the root `Map.XmlIndent` picks under `≈ᵥ`; the trees `encTree ec`
        builds have no two adjacent text nodes; the domain `EncDomain` at the root;
    (2) namespace `Mxj.Enc`:  `escNode` (every text and attribute value escaped), `unescNode`
        (the tokenizer's entity expansion, value by value), `nodeValues`;
    (3) namespace `Mxj.SeqIL`: the indented sequence encoder `seqEncP` under `VPerm` (order of
        map entries at every level), `Val.depth` under `VPerm`, `VPerm v.norm v`.
-/
import Mxj.Lemmas.EncodeIndent
import Mxj.Lemmas.SeqIndent
set_option linter.unusedSimpArgs false
namespace Mxj
namespace Enc

/-! ### (1a) the root of `Map.XmlIndent` under `≈ᵥ` -/

theorem mapXmlIndentRoot_single (k : Str) (v : Val) :
    mapXmlIndentRoot [(k, v)] none
      = if v.isList then (defaultRootTag, .map [(k, v)]) else (k, v) := by
  cases v <;> rfl

theorem mapXmlIndentRoot_two (e1 e2 : Str × Val) (rest : Entries) :
    mapXmlIndentRoot (e1 :: e2 :: rest) none = (defaultRootTag, .map (e1 :: e2 :: rest)) := by
  obtain ⟨k, v⟩ := e1
  cases v <;> rfl

theorem length_of_equiv_map {m m' : Entries} (h : Val.map m ≈ᵥ Val.map m') :
    m.length = m'.length := by
  have h' : (Val.map m).norm = (Val.map m').norm := h
  have hn : sortByKey (Val.normEntries m) = sortByKey (Val.normEntries m') := by
    simpa [Val.norm] using h'
  have := congrArg List.length hn
  rw [(sortByKey_perm _).length_eq, (sortByKey_perm _).length_eq, normEntries_eq_map,
    normEntries_eq_map, List.length_map, List.length_map] at this
  exact this

/-- `≈ᵥ` Maps make `XmlIndent` pick the same root tag and `≈ᵥ` root values -/
theorem mapXmlIndentRoot_equiv (m m' : Entries) (rt : Option Str) (h : Val.map m ≈ᵥ Val.map m') :
    (mapXmlIndentRoot m rt).1 = (mapXmlIndentRoot m' rt).1
      ∧ (mapXmlIndentRoot m rt).2.norm = (mapXmlIndentRoot m' rt).2.norm := by
  have hlen := length_of_equiv_map h
  cases rt with
  | some r => exact ⟨rfl, h⟩
  | none =>
    match m, m', hlen, h with
    | [], [], _, _ => exact ⟨rfl, rfl⟩
    | [], _ :: _, hl, _ => simp at hl
    | _ :: _, [], hl, _ => simp at hl
    | [_], _ :: _ :: _, hl, _ => simp at hl
    | _ :: _ :: _, [_], hl, _ => simp at hl
    | _ :: _ :: _, _ :: _ :: _, _, h =>
      rw [mapXmlIndentRoot_two, mapXmlIndentRoot_two]; exact ⟨rfl, h⟩
    | [(k, v)], [(k', v')], _, h =>
      have h' : (Val.map [(k, v)]).norm = (Val.map [(k', v')]).norm := h
      have hkv : k = k' ∧ v.norm = v'.norm := by
        simpa [Val.norm, Val.normEntries, sortByKey, insertByKey] using h'
      obtain ⟨rfl, hv⟩ := hkv
      have hl : v.isList = v'.isList := by rw [← isList_norm v, hv, isList_norm]
      rw [mapXmlIndentRoot_single, mapXmlIndentRoot_single, ← hl]
      cases v.isList with
      | true => exact ⟨rfl, h⟩
      | false => exact ⟨rfl, hv⟩

/-! ### (1b) `EncDomain` / `wf` at the root -/

theorem mapXmlIndentRoot_domain (m : Entries) (rt : Option Str)
    (h : EncDomain (.map m) = true) : EncDomain (mapXmlIndentRoot m rt).2 = true := by
  rcases mapXmlIndentRoot_cases m rt with ⟨k, e⟩ | ⟨key, v, hm, _, e⟩
  · rw [e]; exact h
  · rw [e]
    subst hm
    simp only [EncDomain, EncDomainEntries, Bool.and_eq_true] at h
    have h1 := h.2.1
    split at h1
    · cases v <;> first | rfl | simp [isScalar, attrValue] at h1
    · exact h1

/-! ### (1c) the encoder's trees have no two adjacent text nodes -/

theorem noAdjTextKids_elems : ∀ (ns : List Node),
    (∀ n ∈ ns, isElem n = true ∧ noAdjText n = true) → noAdjTextKids ns = true
  | [], _ => by simp [noAdjTextKids]
  | n :: ns, h => by
      have h1 := h n (List.mem_cons_self ..)
      have h2 := noAdjTextKids_elems ns (fun x hx => h x (List.mem_cons_of_mem _ hx))
      cases n with
      | elem sp name attrs kids =>
        unfold noAdjTextKids
        simp only [h1.2, h2, Bool.and_self]
      | text _ => simp [isElem] at h1
      | comment _ => simp [isElem] at h1
      | procinst _ _ => simp [isElem] at h1
      | directive _ => simp [isElem] at h1

theorem noAdjTextKids_text_elems (s : Str) (ns : List Node)
    (h : ∀ n ∈ ns, isElem n = true ∧ noAdjText n = true) :
    noAdjTextKids (.text s :: ns) = true := by
  have h2 := noAdjTextKids_elems ns h
  cases ns with
  | nil => simp [noAdjTextKids, noAdjText]
  | cons n rest =>
    have h1 := (h n (List.mem_cons_self ..)).1
    cases n with
    | elem sp name attrs kids =>
      unfold noAdjTextKids
      simp only [noAdjText, Bool.true_and]
      exact h2
    | text _ => simp [isElem] at h1
    | comment _ => simp [isElem] at h1
    | procinst _ _ => simp [isElem] at h1
    | directive _ => simp [isElem] at h1

theorem noAdjTextKids_textNodes (vv : Entries) (ns : List Node)
    (h : ∀ n ∈ ns, isElem n = true ∧ noAdjText n = true) :
    noAdjTextKids (textNodes vv ++ ns) = true := by
  unfold textNodes
  split
  · exact noAdjTextKids_text_elems _ ns h
  · exact noAdjTextKids_elems ns h

/-- every sibling is an element without adjacent text nodes -/
def AdjOk (ns : List Node) : Prop := ∀ n ∈ ns, isElem n = true ∧ noAdjText n = true

theorem AdjOk.single_leaf (key : Str) (attrs : List Attr) (kids : List Node)
    (h : noAdjTextKids kids = true) : AdjOk [.elem [] key attrs kids] := by
  intro n hn
  rw [List.mem_singleton] at hn
  subst hn
  exact ⟨rfl, by simpa [noAdjText] using h⟩

theorem AdjOk.append {a b : List Node} (ha : AdjOk a) (hb : AdjOk b) : AdjOk (a ++ b) := by
  intro n hn
  rcases List.mem_append.1 hn with hn | hn
  · exact ha n hn
  · exact hb n hn

mutual
theorem encTree_adjOk : ∀ (key : Str) (v : Val) (ns : List Node),
    encTree ec key v = .ok ns → AdjOk ns
  | key, .null, ns, h => by
      simp only [encTree, Except.ok.injEq] at h; subst h
      exact AdjOk.single_leaf key _ _ rfl
  | key, .str s, ns, h => by
      simp only [encTree, Except.ok.injEq] at h; subst h
      apply AdjOk.single_leaf
      split <;> simp [noAdjTextKids, noAdjText]
  | key, .bool b, ns, h => by
      cases b <;> simp only [encTree, fmtV, Except.ok.injEq] at h <;> subst h <;>
        exact AdjOk.single_leaf key _ _ (by simp [noAdjTextKids, noAdjText])
  | key, .num t, ns, h => by
      simp only [encTree, fmtV, Except.ok.injEq] at h; subst h
      exact AdjOk.single_leaf key _ _ (by simp [noAdjTextKids, noAdjText])
  | key, .list xs, ns, h => by
      simp only [encTree] at h
      split at h
      · simp only [Except.ok.injEq] at h; subst h
        exact AdjOk.single_leaf key _ _ rfl
      · exact encMembers_adjOk key xs ns h
  | key, .map vv, ns, h => by
      obtain ⟨attrs, kids, _, hE, rfl⟩ := encTree_map_ec key vv ns h
      exact AdjOk.single_leaf key attrs _ (noAdjTextKids_textNodes vv kids (encElems_adjOk vv kids hE))
theorem encMembers_adjOk (key : Str) : ∀ (xs : List Val) (ns : List Node),
    encMembers ec key xs = .ok ns → AdjOk ns
  | [], ns, h => by
      simp only [encMembers, Except.ok.injEq] at h; subst h
      intro n hn; simp at hn
  | x :: xs, ns, h => by
      simp only [encMembers] at h
      split at h
      · simp at h
      · rename_i a ha
        split at h
        · simp at h
        · rename_i r hr
          simp only [Except.ok.injEq] at h
          subst h
          exact (encTree_adjOk key x a ha).append (encMembers_adjOk key xs r hr)
theorem encElems_adjOk : ∀ (kvs : Entries) (ns : List Node),
    encElems ec kvs = .ok ns → AdjOk ns
  | [], ns, h => by
      simp only [encElems, Except.ok.injEq] at h; subst h
      intro n hn; simp at hn
  | (k, v) :: rest, ns, h => by
      simp only [encElems] at h
      split at h
      · exact encElems_adjOk rest ns h
      · split at h
        · simp at h
        · rename_i a ha
          split at h
          · simp at h
          · rename_i r hr
            simp only [Except.ok.injEq] at h
            subst h
            exact (encTree_adjOk k v a ha).append (encElems_adjOk rest r hr)
end

/-- the tree the encoder builds (default configuration) has no two adjacent text nodes -/
theorem encTree_noAdjText (key : Str) (v : Val) (n : Node) (h : encTree ec key v = .ok [n]) :
    noAdjText n = true :=
  (encTree_adjOk key v [n] h n (List.mem_singleton.2 rfl)).2

/-! ### (1d) the document value of the encoder's single tree is the image -/

/-- for a value that is not a list the encoder builds ONE tree, and the decoding conventions
    applied to it as a document give `{key: image v}` -/
theorem doc_encTree (S : Strconv) (key : Str) (v : Val) (n : Node) (hwf : v.wf = true)
    (hl : v.isList = false) (h : encTree ec key v = .ok [n]) :
    Conv.doc dc S n = imageUnder key v := by
  obtain ⟨attrs, kids, e⟩ := encTree_single ec key v [n] hl h
  have e' : n = .elem [] key attrs kids := by simpa using e
  subst e'
  have hcv := childVals_encTree S key v _ hwf h
  rw [childVals_single, imageSibs_not_list _ hl] at hcv
  simp only [List.map_cons, List.map_nil, List.cons.injEq, Prod.mk.injEq, true_and, and_true] at hcv
  show Val.map [(key, Conv.value dc S (.elem [] key attrs kids))] = imageUnder key v
  rw [hcv]
  rfl

/-! ### (2) escaping as a tree transformation -/

/-- the attributes with `f` applied to every value -/
def mapAttrValues (f : Str → Str) : List Attr → List Attr
  | [] => []
  | a :: as => ⟨a.space, a.name, f a.value⟩ :: mapAttrValues f as

mutual
/-- the tree with `f` applied to every text node and every attribute value -/
def mapValues (f : Str → Str) : Node → Node
  | .elem sp n as ks => .elem sp n (mapAttrValues f as) (mapValuesKids f ks)
  | .text s => .text (f s)
  | n => n
def mapValuesKids (f : Str → Str) : List Node → List Node
  | [] => []
  | k :: ks => mapValues f k :: mapValuesKids f ks
end

/-- the tree as it stands on the wire: every text and attribute value escaped -/
def escNode (n : Node) : Node := mapValues escapeChars n

/-- the tokenizer's entity expansion `unesc`, attribute value by attribute value … -/
def unescAttrs : List Attr → Option (List Attr)
  | [] => some []
  | a :: as =>
    match unesc a.value, unescAttrs as with
    | some v, some r => some (⟨a.space, a.name, v⟩ :: r)
    | _, _ => none

mutual
/-- … and text node by text node (`none`: some value is not well-formed character data) -/
def unescNode : Node → Option Node
  | .elem sp n as ks =>
    match unescAttrs as, unescKids ks with
    | some as', some ks' => some (.elem sp n as' ks')
    | _, _ => none
  | .text s => (unesc s).map .text
  | n => some n
def unescKids : List Node → Option (List Node)
  | [] => some []
  | k :: ks =>
    match unescNode k, unescKids ks with
    | some k', some r => some (k' :: r)
    | _, _ => none
end

def attrValues : List Attr → List Str
  | [] => []
  | a :: as => a.value :: attrValues as

mutual
/-- every attribute value and every text of the tree, in document order -/
def nodeValues : Node → List Str
  | .elem _ _ as ks => attrValues as ++ nodeValuesKids ks
  | .text s => [s]
  | _ => []
def nodeValuesKids : List Node → List Str
  | [] => []
  | k :: ks => nodeValues k ++ nodeValuesKids ks
end

theorem mapValuesKids_isEmpty (f : Str → Str) (ks : List Node) :
    (mapValuesKids f ks).isEmpty = ks.isEmpty := by
  cases ks <;> rfl

/-- the empty-element epilogue does not look at the escape flag -/
theorem endOf_escape (cfg : EncCfg) (b : Bool) (name : Str) (n : Nat) :
    endOf { cfg with escape := b } name n = endOf cfg name n := rfl

theorem renderAttrs_mapAttrValues (cfg : EncCfg) (h : cfg.escape = true) : ∀ (as : List Attr),
    renderAttrs cfg as = renderAttrs { cfg with escape := false } (mapAttrValues escapeChars as)
  | [] => rfl
  | a :: as => by
      simp only [renderAttrs, mapAttrValues, escIf, h, if_true, Bool.false_eq_true, if_false,
        renderAttrs_mapAttrValues cfg h as]

mutual
/-- with escaping on, the canonical rendering is the RAW rendering of the escaped tree -/
theorem render_escNode (cfg : EncCfg) (h : cfg.escape = true) : ∀ (n : Node),
    render cfg n = render { cfg with escape := false } (mapValues escapeChars n)
  | .elem sp name as ks => by
      simp only [render, mapValues, mapValuesKids_isEmpty, endOf_escape,
        ← renderAttrs_mapAttrValues cfg h as, ← renderKids_escNode cfg h ks]
  | .text s => by simp only [render, mapValues, escIf, h, if_true, Bool.false_eq_true, if_false]
  | .comment _ => rfl
  | .procinst _ _ => rfl
  | .directive _ => rfl
theorem renderKids_escNode (cfg : EncCfg) (h : cfg.escape = true) : ∀ (ks : List Node),
    renderKids cfg ks = renderKids { cfg with escape := false } (mapValuesKids escapeChars ks)
  | [] => rfl
  | k :: ks => by
      simp only [renderKids, mapValuesKids, ← render_escNode cfg h k, ← renderKids_escNode cfg h ks]
end

theorem unescAttrs_esc : ∀ (as : List Attr), unescAttrs (mapAttrValues escapeChars as) = some as
  | [] => rfl
  | a :: as => by
      simp only [mapAttrValues, unescAttrs, unesc_escapeChars, unescAttrs_esc as]

mutual
/-- entity expansion, value by value, gives the original tree back -/
theorem unescNode_esc : ∀ (n : Node), unescNode (mapValues escapeChars n) = some n
  | .elem sp name as ks => by
      simp only [mapValues, unescNode, unescAttrs_esc as, unescKids_esc ks]
  | .text s => by simp only [mapValues, unescNode, unesc_escapeChars, Option.map_some]
  | .comment _ => rfl
  | .procinst _ _ => rfl
  | .directive _ => rfl
theorem unescKids_esc : ∀ (ks : List Node), unescKids (mapValuesKids escapeChars ks) = some ks
  | [] => rfl
  | k :: ks => by simp only [mapValuesKids, unescKids, unescNode_esc k, unescKids_esc ks]
end

theorem attrValues_map (f : Str → Str) : ∀ (as : List Attr),
    attrValues (mapAttrValues f as) = (attrValues as).map f
  | [] => rfl
  | a :: as => by simp only [mapAttrValues, attrValues, List.map_cons, attrValues_map f as]

mutual
theorem nodeValues_map (f : Str → Str) : ∀ (n : Node),
    nodeValues (mapValues f n) = (nodeValues n).map f
  | .elem sp name as ks => by
      simp only [mapValues, nodeValues, attrValues_map, nodeValuesKids_map f ks, List.map_append]
  | .text s => rfl
  | .comment _ => rfl
  | .procinst _ _ => rfl
  | .directive _ => rfl
theorem nodeValuesKids_map (f : Str → Str) : ∀ (ks : List Node),
    nodeValuesKids (mapValuesKids f ks) = (nodeValuesKids ks).map f
  | [] => rfl
  | k :: ks => by
      simp only [mapValuesKids, nodeValuesKids, nodeValues_map f k, nodeValuesKids_map f ks,
        List.map_append]
end

end Enc

/-! ### (3) the indented sequence encoder and the order of map entries -/

namespace SeqIL
open Mxj.SeqL Mxj.Dec

theorem vperm_isList {w v : Val} (h : VPerm w v) : w.isList = v.isList := by
  cases w with
  | null => simp only [VPerm] at h; rw [h]
  | bool _ => simp only [VPerm] at h; rw [h]
  | num _ => simp only [VPerm] at h; rw [h]
  | str _ => simp only [VPerm] at h; rw [h]
  | list _ => simp only [VPerm] at h; obtain ⟨ys, rfl, _⟩ := h; rfl
  | map _ => simp only [VPerm] at h; obtain ⟨m, b, rfl, _, _⟩ := h; rfl

theorem vperm_txtOf (esc : Bool) {w v : Val} (h : VPerm w v) : txtOf esc w = txtOf esc v := by
  cases w with
  | null => simp only [VPerm] at h; rw [h]
  | bool _ => simp only [VPerm] at h; rw [h]
  | num _ => simp only [VPerm] at h; rw [h]
  | str _ => simp only [VPerm] at h; rw [h]
  | list _ => simp only [VPerm] at h; obtain ⟨ys, rfl, _⟩ := h; rfl
  | map _ => simp only [VPerm] at h; obtain ⟨m, b, rfl, _, _⟩ := h; rfl

theorem seqAttrText_congr (c : SeqCfg) (esc : Bool) (k : Str) {v' v : Val} (hv : VPerm v' v)
    (hk : keysOk v) : seqAttrText c esc k v' = seqAttrText c esc k v := by
  cases v' with
  | null => simp only [VPerm] at hv; rw [hv]
  | bool _ => simp only [VPerm] at hv; rw [hv]
  | num _ => simp only [VPerm] at hv; rw [hv]
  | str _ => simp only [VPerm] at hv; rw [hv]
  | list _ => simp only [VPerm] at hv; obtain ⟨ys, rfl, _⟩ := hv; rfl
  | map a =>
    simp only [VPerm] at hv
    obtain ⟨m, b, rfl, hp, he⟩ := hv
    have hl : lookup c.textK m = lookup c.textK b := lookup_perm hp hk _
    rcases eperm_lookup c.textK he with ⟨h1, h2⟩ | ⟨x, y, h1, h2, hxy⟩
    · simp only [seqAttrText, h1, ← hl, h2]
    · simp only [seqAttrText, h1, ← hl, h2]
      cases x with
      | null => simp only [VPerm] at hxy; rw [hxy]
      | bool _ => simp only [VPerm] at hxy; rw [hxy]
      | num _ => simp only [VPerm] at hxy; rw [hxy]
      | str _ => simp only [VPerm] at hxy; rw [hxy]
      | list _ => simp only [VPerm] at hxy; obtain ⟨ys, rfl, _⟩ := hxy; rfl
      | map _ => simp only [VPerm] at hxy; obtain ⟨_, _, rfl, _, _⟩ := hxy; rfl

theorem seqAttrsText_congr (c : SeqCfg) (esc : Bool) : ∀ {l' l : List (Str × Val)},
    PW (fun _ v => keysOk v) l' l → seqAttrsText c esc l' = seqAttrsText c esc l
  | [], l, h => by simp only [PW] at h; subst h; rfl
  | (k', v') :: r', l, h => by
      simp only [PW] at h
      obtain ⟨⟨k, v⟩, r, rfl, hk, hv, hg, hr⟩ := h
      simp only at hk hv hg
      subst hk
      simp only [seqAttrsText, seqAttrText_congr c esc k' hv hg, seqAttrsText_congr c esc hr]

theorem attrsOutB_congr (c : SeqCfg) (esc : Bool) {a m : Entries} (he : EPerm a m)
    (hattr : ∀ av, lookup c.attrK m = some (.map av) → GoodAttrs c av) :
    attrsOutB c esc a = attrsOutB c esc m := by
  unfold attrsOutB
  rcases eperm_lookup c.attrK he with ⟨h1, h2⟩ | ⟨x, y, h1, h2, hxy⟩
  · rw [h1, h2]
  · rw [h1, h2]
    cases x with
    | null => simp only [VPerm] at hxy; rw [hxy]
    | bool _ => simp only [VPerm] at hxy; rw [hxy]
    | num _ => simp only [VPerm] at hxy; rw [hxy]
    | str _ => simp only [VPerm] at hxy; rw [hxy]
    | list _ => simp only [VPerm] at hxy; obtain ⟨ys, rfl, _⟩ := hxy; rfl
    | map a' =>
      simp only [VPerm] at hxy
      obtain ⟨m', b', rfl, hp', he'⟩ := hxy
      have hga := hattr b' h2
      have hgm : ∀ e ∈ m', keysOk e.2 := fun e hm => hga.2.2 e (hp'.mem_iff.1 hm)
      have h3 : seqAttrsText c esc (sortBySeq c a') = seqAttrsText c esc (sortBySeq c m') :=
        seqAttrsText_congr c esc (PW_sortBySeq c (fun _ v => keysOk v) (fun _ _ h => h)
          (PW_of_EPerm (fun _ v => keysOk v) he' hgm))
      have h4 : sortBySeq c m' = sortBySeq c b' := sortBySeq_congr c hp' hga.2.1
      simp only [h3, h4]

theorem kidsOf_congr (c : SeqCfg) (enc : Pretty → Str → Val → Outcome (List Piece)) (di : Bool)
    (p : Pretty)
    (IH : ∀ q key w v, VPerm w v → GoodAt c key v → enc q key w = enc q key v) :
    ∀ {l' l : List (Str × Val)}, PW (GoodAt c) l' l → kidsOf enc di p l' = kidsOf enc di p l
  | [], l, h => by simp only [PW] at h; subst h; rfl
  | (k', v') :: r', l, h => by
      simp only [PW] at h
      obtain ⟨⟨k, v⟩, r, rfl, hk, hv, hg, hr⟩ := h
      simp only at hk hv hg
      subst hk
      simp only [kidsOf, vperm_isList hv, IH _ k' v' v hv hg, kidsOf_congr c enc di p IH hr]

theorem membersOf_congr (c : SeqCfg) (enc : Pretty → Str → Val → Outcome (List Piece)) (di : Bool)
    (p : Pretty) (key : Str)
    (IH : ∀ q key w v, VPerm w v → GoodAt c key v → enc q key w = enc q key v) :
    ∀ {xs ys : List Val}, LPerm xs ys → GoodLAt c key ys →
      membersOf enc di p key xs = membersOf enc di p key ys
  | [], ys, h, _ => by simp only [LPerm] at h; subst h; rfl
  | x :: xs, ys, h, hg => by
      simp only [LPerm] at h
      obtain ⟨y, ys', rfl, hv, hr⟩ := h
      simp only [GoodLAt] at hg
      simp only [membersOf, IH _ key x y hv hg.1, membersOf_congr c enc di p key IH hr hg.2]

theorem bodyP_congr (esc ge di : Bool) (p : Pretty) (key atext : Str) (hv sq : Bool) (n : Nat)
    {ot' ot : Option Val} (h : LookRel ot' ot) (ko : Outcome (List Piece)) :
    bodyP esc ge di p key atext hv sq n ot' ko = bodyP esc ge di p key atext hv sq n ot ko := by
  rcases h with ⟨rfl, rfl⟩ | ⟨x, y, rfl, rfl, hxy⟩
  · rfl
  · simp only [bodyP, vperm_txtOf esc hxy]

/-- one level: the worker's pieces do not depend on the order of the map's entries -/
theorem seqEncP_perm (c : SeqCfg) (esc ge di : Bool) (f : Nat) (p : Pretty) (key : Str)
    {val val' : Entries} (hp : val'.Perm val) (hk : (keys val).Nodup)
    (hs : ((unrollEntries c val).map (fun e => seqOf c e.2)).Nodup) :
    seqEncP c esc ge di f p key (.map val') = seqEncP c esc ge di f p key (.map val) := by
  cases f with
  | zero => simp [seqEncP]
  | succ f =>
    simp only [seqEncP, lookup_perm hp hk, hp.length_eq,
      sortBySeq_congr c (unrollEntries_perm c hp) hs]

/-- all levels, both modes (`di`), every `pretty` state: the pieces `mapToXmlSeqIndent` writes do
    not depend on the order of the entries of ANY map of the value (hypothesis as for the
    compact encoder's tree, `seqEncTree_vperm`) -/
theorem seqEncP_vperm (c : SeqCfg) (esc ge di : Bool) : ∀ (f : Nat) (p : Pretty) (key : Str)
    (w v : Val), VPerm w v → GoodAt c key v →
    seqEncP c esc ge di f p key w = seqEncP c esc ge di f p key v := by
  intro f
  induction f with
  | zero => intro p key w v _ _; simp [seqEncP]
  | succ f ih =>
    intro p key w v hwv hg
    cases w with
    | null => simp only [VPerm] at hwv; rw [hwv]
    | bool _ => simp only [VPerm] at hwv; rw [hwv]
    | num _ => simp only [VPerm] at hwv; rw [hwv]
    | str _ => simp only [VPerm] at hwv; rw [hwv]
    | list xs =>
      simp only [VPerm] at hwv
      obtain ⟨ys, rfl, hl⟩ := hwv
      simp only [GoodAt] at hg
      rw [seqEncP_list, seqEncP_list]
      exact membersOf_congr c _ di p key ih hl hg
    | map a =>
      simp only [VPerm] at hwv
      obtain ⟨m, b, rfl, hp, he⟩ := hwv
      simp only [GoodAt] at hg
      obtain ⟨hk, hrest⟩ := hg
      have hlk : ∀ k, strOf (lookup k a) = strOf (lookup k b) := by
        intro k
        rw [lookRel_strOf (eperm_lookup k he), lookup_perm hp hk]
      by_cases h1 : key = c.commentK
      · subst h1
        simp only [seqEncP, if_true, hlk]
      by_cases h2 : key = c.directiveK
      · subst h2
        simp only [seqEncP, h1, if_true, if_false, hlk]
      by_cases h3 : key = c.procinstK
      · subst h3
        simp only [seqEncP, h1, h2, if_true, if_false, hlk]
      rcases hrest with hn | ⟨hs, hattr, hge⟩
      · rcases hn with hn | hn | hn
        · exact absurd hn h1
        · exact absurd hn h2
        · exact absurd hn h3
      rw [← seqEncP_perm c esc ge di (f + 1) p key hp hk hs]
      have hgm : GoodE c m := by
        rw [GoodE_iff] at hge ⊢
        exact fun e hm => hge e (hp.mem_iff.1 hm)
      have hattrm : ∀ av, lookup c.attrK m = some (.map av) → GoodAttrs c av := by
        intro av h; exact hattr av (by rw [← lookup_perm hp hk]; exact h)
      rw [seqEncP_map_eq c esc ge di f p key a h1 h2 h3,
        seqEncP_map_eq c esc ge di f p key m h1 h2 h3,
        attrsOutB_congr c esc he hattrm, lookRel_isSome (eperm_lookup c.seqK he), eperm_length he,
        kidsOf_congr c _ di p.deeper ih
          (PW_sortBySeq c (GoodAt c) (fun _ _ h => h.keysOk) (PW_unroll c he hgm))]
      cases attrsOutB c esc m with
      | ok q => exact bodyP_congr esc ge di p key q.1 q.2 _ _ (eperm_lookup c.textK he) _
      | eof => rfl
      | «syntax» => rfl
      | err _ => rfl
      | panic _ => rfl

/-! the fuel of `XmlIndent` -/

theorem depthEntries_perm {l l' : Entries} (h : l.Perm l') :
    Val.depthEntries l = Val.depthEntries l' := by
  induction h with
  | nil => rfl
  | cons x _ ih => obtain ⟨k, v⟩ := x; simp only [Val.depthEntries, ih]
  | swap x y l =>
    obtain ⟨k, v⟩ := x; obtain ⟨k', v'⟩ := y
    simp only [Val.depthEntries]
    omega
  | trans _ _ ih1 ih2 => exact ih1.trans ih2

mutual
theorem vperm_depth : ∀ (w v : Val), VPerm w v → Val.depth w = Val.depth v
  | .null, v, h => by simp only [VPerm] at h; rw [h]
  | .bool _, v, h => by simp only [VPerm] at h; rw [h]
  | .num _, v, h => by simp only [VPerm] at h; rw [h]
  | .str _, v, h => by simp only [VPerm] at h; rw [h]
  | .list xs, v, h => by
      simp only [VPerm] at h
      obtain ⟨ys, rfl, hl⟩ := h
      simp only [Val.depth, lperm_depth xs ys hl]
  | .map a, v, h => by
      simp only [VPerm] at h
      obtain ⟨m, b, rfl, hp, he⟩ := h
      simp only [Val.depth, eperm_depth a m he, depthEntries_perm hp]
theorem lperm_depth : ∀ (xs ys : List Val), LPerm xs ys → Val.depthList xs = Val.depthList ys
  | [], ys, h => by simp only [LPerm] at h; subst h; rfl
  | x :: xs, ys, h => by
      simp only [LPerm] at h
      obtain ⟨y, ys', rfl, hv, hr⟩ := h
      simp only [Val.depthList, vperm_depth x y hv, lperm_depth xs ys' hr]
theorem eperm_depth : ∀ (a m : Entries), EPerm a m → Val.depthEntries a = Val.depthEntries m
  | [], m, h => by simp only [EPerm] at h; subst h; rfl
  | (k, x) :: xs, m, h => by
      simp only [EPerm] at h
      obtain ⟨y, ys, rfl, hv, hr⟩ := h
      simp only [Val.depthEntries, vperm_depth x y hv, eperm_depth xs ys hr]
end

/-! the root of `XmlIndent` -/

theorem seqRootI_single (k : Str) (v : Val) :
    seqRootI [(k, v)] = if v.isList then (defaultRootTag, .map [(k, v)]) else (k, v) := by
  cases v <;> rfl

theorem seqRootI_two (e1 e2 : Str × Val) (rest : Entries) :
    seqRootI (e1 :: e2 :: rest) = (defaultRootTag, .map (e1 :: e2 :: rest)) := by
  obtain ⟨k, v⟩ := e1
  cases v <;> rfl

theorem seqRootI_vperm {m' m : Entries} (h : VPerm (.map m') (.map m)) :
    (seqRootI m').1 = (seqRootI m).1 ∧ VPerm (seqRootI m').2 (seqRootI m).2 := by
  have h0 := h
  simp only [VPerm] at h
  obtain ⟨mid, b, hb, hp, he⟩ := h
  cases hb
  match m', he with
  | [], he =>
    simp only [EPerm] at he; subst he
    have : m = [] := List.nil_perm.1 hp
    subst this
    exact ⟨rfl, h0⟩
  | [(k, x)], he =>
    simp only [EPerm] at he
    obtain ⟨y, ys, rfl, hv, hr⟩ := he
    subst hr
    have : m = [(k, y)] := (List.singleton_perm.1 hp).symm
    subst this
    rw [seqRootI_single, seqRootI_single, vperm_isList hv]
    cases y.isList with
    | true => exact ⟨rfl, h0⟩
    | false => exact ⟨rfl, hv⟩
  | e1 :: e2 :: rest, he =>
    have hl := (eperm_length he).trans hp.length_eq
    match m, hl with
    | f1 :: f2 :: rest', _ =>
      rw [seqRootI_two, seqRootI_two]
      exact ⟨rfl, h0⟩

/-- `msv.XmlIndent(prefix, indent)`: the pieces do not depend on the order of the entries of any
    map of the MapSeq, at any level -/
theorem mapSeqXmlIndentP_vperm (c : SeqCfg) (esc ge : Bool) (pfx ind : Str) {m' m : Entries}
    (h : VPerm (.map m') (.map m)) (hg : GoodAt c (seqRootI m).1 (seqRootI m).2) :
    mapSeqXmlIndentP c esc ge pfx ind m' = mapSeqXmlIndentP c esc ge pfx ind m := by
  obtain ⟨h1, h2⟩ := seqRootI_vperm h
  unfold mapSeqXmlIndentP
  rw [vperm_depth _ _ h, h1]
  exact seqEncP_vperm c esc ge true _ _ _ _ _ h2 hg

/-! `≈ᵥ` against `VPerm`: a value is its normal form with the entries in another order -/

theorem eperm_insertByKey {e' e : Str × Val} (hk : e'.1 = e.1) (hv : VPerm e'.2 e.2) :
    ∀ {l' l : Entries}, EPerm l' l → EPerm (insertByKey e' l') (insertByKey e l)
  | [], l, h => by
      simp only [EPerm] at h; subst h
      obtain ⟨k', x'⟩ := e'; obtain ⟨k, x⟩ := e
      simp only at hk hv; subst hk
      simp only [insertByKey, EPerm]
      exact ⟨x, [], rfl, hv, rfl⟩
  | (k1, x1) :: r', l, h => by
      simp only [EPerm] at h
      obtain ⟨y1, r, rfl, hv1, hr⟩ := h
      obtain ⟨k', x'⟩ := e'; obtain ⟨k, x⟩ := e
      simp only at hk hv; subst hk
      simp only [insertByKey]
      split
      · simp only [EPerm]
        exact ⟨y1, _, rfl, hv1, eperm_insertByKey (e' := (k', x')) (e := (k', x)) rfl hv hr⟩
      · simp only [EPerm]
        exact ⟨x, _, rfl, hv, y1, r, rfl, hv1, hr⟩

theorem eperm_sortByKey : ∀ {l' l : Entries}, EPerm l' l → EPerm (sortByKey l') (sortByKey l)
  | [], l, h => by simp only [EPerm] at h; subst h; simp [sortByKey, EPerm]
  | (k, x) :: r', l, h => by
      simp only [EPerm] at h
      obtain ⟨y, r, rfl, hv, hr⟩ := h
      rw [Enc.sortByKey_cons, Enc.sortByKey_cons]
      exact eperm_insertByKey (e' := (k, x)) (e := (k, y)) rfl hv (eperm_sortByKey hr)

mutual
theorem vperm_norm : ∀ (v : Val), VPerm v.norm v
  | .null => by simp [Val.norm, VPerm]
  | .bool _ => by simp [Val.norm, VPerm]
  | .num _ => by simp [Val.norm, VPerm]
  | .str _ => by simp [Val.norm, VPerm]
  | .list xs => by simp only [Val.norm, VPerm]; exact ⟨xs, rfl, lperm_norm xs⟩
  | .map kvs => by
      simp only [Val.norm, VPerm]
      exact ⟨sortByKey kvs, kvs, rfl, Enc.sortByKey_perm kvs, eperm_sortByKey (eperm_norm kvs)⟩
theorem lperm_norm : ∀ (xs : List Val), LPerm (Val.normList xs) xs
  | [] => by simp [Val.normList, LPerm]
  | x :: xs => by
      simp only [Val.normList, LPerm]
      exact ⟨x, xs, rfl, vperm_norm x, lperm_norm xs⟩
theorem eperm_norm : ∀ (kvs : Entries), EPerm (Val.normEntries kvs) kvs
  | [] => by simp [Val.normEntries, EPerm]
  | (k, x) :: xs => by
      simp only [Val.normEntries, EPerm]
      exact ⟨x, xs, rfl, vperm_norm x, eperm_norm xs⟩
end

end SeqIL
end Mxj
