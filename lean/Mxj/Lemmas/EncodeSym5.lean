/-
  Mxj.Lemmas.EncodeSym5 — C02 for symmetric non-default option pairs, part 5 (towards bytes):
  values of the decoded shape are `Plain`, and the encoder's trees for them are in the C01
  domain of the decoder configuration.
-/
import Mxj.Lemmas.EncodeSym4
namespace Mxj.EncSym
open Mxj Mxj.Enc

/-- the `%v` text of a number the decoder produced is non-empty and needs no escaping
    (Go writes it raw) -/
structure NumPlainLaw (d : DecCfg) (S : Strconv) (e : EncCfg) : Prop where
  plain : ∀ s t, lf d S s = .num t →
    (numText t).isEmpty = false ∧ plainText e (numText t) = true

theorem attrOk_plain (d : DecCfg) (S : Strconv) (e : EncCfg) (hP : NumPlainLaw d S e) (v : Val)
    (h : attrOk d S v = true) : Plain e v = true ∧ v ≠ .null := by
  simp only [attrOk, Bool.and_eq_true, decide_eq_true_eq] at h
  cases v with
  | null => simp [isScalar, attrValue] at h
  | list _ => simp [isScalar, attrValue] at h
  | map _ => simp [isScalar, attrValue] at h
  | str _ => exact ⟨rfl, by simp⟩
  | bool _ => exact ⟨rfl, by simp⟩
  | num t =>
    have := hP.plain _ t h.2
    exact ⟨by simp [Plain, this.1, this.2], by simp⟩

theorem leafChildOk_plain (d : DecCfg) (S : Strconv) (e : EncCfg) (hP : NumPlainLaw d S e)
    (v : Val) (h : leafChildOk d S v = true) : Plain e v = true := by
  simp only [leafChildOk, Bool.or_eq_true, decide_eq_true_eq, Bool.and_eq_true] at h
  rcases h with rfl | ⟨_, h⟩
  · rfl
  · simp only [textOk, Bool.and_eq_true] at h
    exact (attrOk_plain d S e hP v h.1.1).1

mutual
theorem DecodedChildG_Plain (d : DecCfg) (S : Strconv) (e : EncCfg) (hP : NumPlainLaw d S e) :
    ∀ (v : Val), DecodedChildG d S e v = true → Plain e v = true
  | .null, _ => rfl
  | .bool _, _ => rfl
  | .num t, h => by
      simp only [DecodedChildG] at h
      exact leafChildOk_plain d S e hP _ h
  | .str _, _ => rfl
  | .list xs, h => by
      simp only [DecodedChildG, Bool.and_eq_true] at h
      simp only [Plain, DecodedListG_Plain d S e hP xs h.2]
  | .map kvs, h => by
      simp only [DecodedChildG, Bool.and_eq_true] at h
      simp only [Plain, DecodedEntriesG_Plain d S e hP kvs h.2]
theorem DecodedListG_Plain (d : DecCfg) (S : Strconv) (e : EncCfg) (hP : NumPlainLaw d S e) :
    ∀ (xs : List Val), DecodedListG d S e xs = true → PlainList e xs = true
  | [], _ => rfl
  | x :: xs, h => by
      simp only [DecodedListG, Bool.and_eq_true] at h
      simp only [PlainList, DecodedChildG_Plain d S e hP x h.1.2,
        DecodedListG_Plain d S e hP xs h.2, Bool.and_self]
theorem DecodedEntriesG_Plain (d : DecCfg) (S : Strconv) (e : EncCfg) (hP : NumPlainLaw d S e) :
    ∀ (kvs : Entries), DecodedEntriesG d S e kvs = true → PlainEntries e kvs = true
  | [], _ => rfl
  | (k, v) :: rest, h => by
      simp only [DecodedEntriesG, Bool.and_eq_true] at h
      have h1 := h.1
      have hv : nullTextOk e k v = true ∧ Plain e v = true := by
        by_cases ha : isAttrK e k = true
        · simp only [ha, if_true, Bool.and_eq_true] at h1
          have := attrOk_plain d S e hP v h1.1
          refine ⟨?_, this.1⟩
          cases v <;> first | rfl | exact absurd rfl this.2
        · have ha' : isAttrK e k = false := by simpa using ha
          simp only [ha', Bool.false_eq_true, if_false] at h1
          by_cases hk : k = e.textK
          · simp only [hk, if_true, textOk, Bool.and_eq_true] at h1
            have := attrOk_plain d S e hP v h1.1.1
            refine ⟨?_, this.1⟩
            cases v <;> first | rfl | exact absurd rfl this.2
          · simp only [hk, if_false, Bool.and_eq_true] at h1
            refine ⟨?_, DecodedChildG_Plain d S e hP v h1.2⟩
            cases v <;> simp [nullTextOk, hk]
      simp only [PlainEntries, hv.1, hv.2, DecodedEntriesG_Plain d S e hP rest h.2, Bool.and_self]
end

theorem DecodedG_Plain (d : DecCfg) (S : Strconv) (e : EncCfg) (hP : NumPlainLaw d S e) (v : Val)
    (h : DecodedG d S e v = true) : Plain e v = true := by
  unfold DecodedG at h
  simp only [Bool.and_eq_true] at h
  exact DecodedChildG_Plain d S e hP v h.2

/-! ### the encoder's trees are in the C01 domain -/

theorem inDomainKids_appendG (d : DecCfg) (S : Strconv) : ∀ (a b : List Node),
    Conv.inDomainKids d S a = true → Conv.inDomainKids d S b = true →
    Conv.inDomainKids d S (a ++ b) = true
  | [], _, _, hb => hb
  | n :: a, b, ha, hb => by
      cases n <;> simp only [List.cons_append, Conv.inDomainKids, Bool.and_eq_true] at ha ⊢
      · exact ⟨ha.1, inDomainKids_appendG d S a b ha.2 hb⟩
      all_goals exact inDomainKids_appendG d S a b ha hb

/-- siblings named `key`, each in the domain -/
def SibsDomG (d : DecCfg) (S : Strconv) (key : Str) (ns : List Node) : Prop :=
  ∀ n ∈ ns, ∃ attrs kids, n = .elem [] key attrs kids ∧ Conv.inDomain d S n = true

theorem inDomainKids_of_sibsG (d : DecCfg) (S : Strconv) (hseq : d.seqNum = false) (key : Str)
    (hfix : elemKey d S key = key) (hk : key ≠ d.textK) :
    ∀ (ns : List Node), SibsDomG d S key ns → Conv.inDomainKids d S ns = true
  | [], _ => rfl
  | n :: ns, h => by
      obtain ⟨attrs, kids, rfl, hin⟩ := h n (List.mem_cons_self ..)
      simp only [Conv.inDomainKids, Bool.and_eq_true, hfix, hseq, Bool.not_false, Bool.true_or]
      refine ⟨⟨⟨decide_eq_true hk, trivial⟩, hin⟩, ?_⟩
      exact inDomainKids_of_sibsG d S hseq key hfix hk ns (fun m hm => h m (List.mem_cons_of_mem _ hm))

theorem SibsDomG_single (d : DecCfg) (S : Strconv) (key : Str) (n : Node) (attrs : List Attr)
    (kids : List Node) (he : n = .elem [] key attrs kids) (h : Conv.inDomain d S n = true) :
    SibsDomG d S key [n] := by
  intro m hm
  rw [List.mem_singleton] at hm
  subst hm
  exact ⟨attrs, kids, he, h⟩

theorem inDomain_emptyG (d : DecCfg) (S : Strconv) (key : Str) :
    Conv.inDomain d S (.elem [] key [] []) = true := rfl

theorem inDomain_leafG (d : DecCfg) (S : Strconv) (key t : Str) :
    Conv.inDomain d S (.elem [] key [] [.text t]) = true := by
  simp only [Conv.inDomain, Conv.inDomainKids, Conv.textRuns, List.all_nil, Bool.and_true]
  by_cases h : (Conv.textOf d t).isEmpty = true <;> simp [h]

theorem attrs_inDomainG (d : DecCfg) (S : Strconv) (e : EncCfg) (hs : Sym d e) (vv : Entries)
    (attrs : List Attr) (hf : AttrKeysFixed d S e vv) (hA : encAttrs e vv = .ok attrs) :
    attrs.all (fun a => decide (attrKey d S a.name ≠ d.textK)
      && (!d.seqNum || decide (attrKey d S a.name ≠ "_seq".toList))) = true := by
  rw [List.all_eq_true]
  intro a ha
  simp only [hs.seq, Bool.not_false, Bool.true_or, Bool.and_true]
  apply decide_eq_true
  intro he
  have hi := encAttrs_imageG d S e vv attrs hf hA
  have hm : attrKey d S a.name ∈ keys (imageAttrsG d S e vv) := by
    rw [← hi]
    exact mem_keys.2 ⟨_, List.mem_map.2 ⟨a, ha, rfl⟩, rfl⟩
  have := (keys_imageAttrsG_sub d S e vv _ hm).2
  rw [he, ← hs.txt, hs.txt_not_attr] at this
  simp at this

theorem inDomainKids_textNodesG (d : DecCfg) (S : Strconv) (e : EncCfg) (vv : Entries)
    (kids : List Node) :
    Conv.inDomainKids d S (textNodesG e vv ++ kids) = Conv.inDomainKids d S kids := by
  unfold textNodesG
  split
  · simp only [List.singleton_append, Conv.inDomainKids]
  · rfl

theorem textRuns_textNodesG (d : DecCfg) (e : EncCfg) (vv : Entries) (kids : List Node)
    (hk : ∀ n ∈ kids, isElem n = true) :
    (Conv.textRuns d false (textNodesG e vv ++ kids)).length ≤ 1 := by
  unfold textNodesG
  split
  · simp only [List.singleton_append, Conv.textRuns, textRuns_elems d kids _ hk]
    split <;> simp
  · simp [textRuns_elems d kids _ hk]

mutual
theorem encTree_domG (d : DecCfg) (S : Strconv) (e : EncCfg) (hs : Sym d e) :
    ∀ (key : Str) (v : Val) (ns : List Node), DecodedChildG d S e v = true →
    encTree e key v = .ok ns → SibsDomG d S key ns
  | key, .null, ns, _, h => by
      simp only [encTree, Except.ok.injEq] at h; subst h
      exact SibsDomG_single d S key _ _ _ rfl (inDomain_emptyG d S key)
  | key, .str [], ns, _, h => by
      simp only [encTree, Except.ok.injEq] at h; subst h
      exact SibsDomG_single d S key _ _ _ rfl (inDomain_emptyG d S key)
  | key, .str (c :: s), ns, _, h => by
      simp only [encTree, Except.ok.injEq] at h; subst h
      exact SibsDomG_single d S key _ _ _ rfl (inDomain_leafG d S key _)
  | key, .bool b, ns, _, h => by
      cases b <;> simp only [encTree, fmtV, Except.ok.injEq] at h <;> subst h <;>
        exact SibsDomG_single d S key _ _ _ rfl (inDomain_leafG d S key _)
  | key, .num t, ns, _, h => by
      simp only [encTree, fmtV, Except.ok.injEq] at h; subst h
      exact SibsDomG_single d S key _ _ _ rfl (inDomain_leafG d S key _)
  | key, .list xs, ns, hD, h => by
      simp only [DecodedChildG, Bool.and_eq_true] at hD
      simp only [encTree] at h
      split at h
      · simp only [Except.ok.injEq] at h; subst h
        exact SibsDomG_single d S key _ _ _ rfl (inDomain_emptyG d S key)
      · exact encMembers_domG d S e hs key xs ns hD.2 h
  | key, .map vv, ns, hD, h => by
      simp only [DecodedChildG, Bool.and_eq_true] at hD
      obtain ⟨attrs, kids, hA, hE, rfl⟩ := encTree_mapG e hs.txt_not_attr key vv ns h
      apply SibsDomG_single d S key _ attrs (textNodesG e vv ++ kids) rfl
      simp only [Conv.inDomain, Bool.and_eq_true, decide_eq_true_eq]
      refine ⟨⟨textRuns_textNodesG d e vv kids (encElems_isElem e vv kids hE),
        attrs_inDomainG d S e hs vv attrs (DecodedEntriesG_attrFixed d S e vv hD.2) hA⟩, ?_⟩
      rw [inDomainKids_textNodesG]
      exact encElems_domG d S e hs vv kids hD.2 hE
theorem encMembers_domG (d : DecCfg) (S : Strconv) (e : EncCfg) (hs : Sym d e) (key : Str) :
    ∀ (xs : List Val) (ns : List Node), DecodedListG d S e xs = true →
    encMembers e key xs = .ok ns → SibsDomG d S key ns
  | [], ns, _, h => by
      simp only [encMembers, Except.ok.injEq] at h; subst h
      intro n hn; simp at hn
  | x :: xs, ns, hD, h => by
      simp only [DecodedListG, Bool.and_eq_true] at hD
      simp only [encMembers] at h
      split at h
      · simp at h
      · rename_i a ha
        split at h
        · simp at h
        · rename_i r hr
          simp only [Except.ok.injEq] at h
          subst h
          intro n hn
          rcases List.mem_append.1 hn with hn | hn
          · exact encTree_domG d S e hs key x a hD.1.2 ha n hn
          · exact encMembers_domG d S e hs key xs r hD.2 hr n hn
theorem encElems_domG (d : DecCfg) (S : Strconv) (e : EncCfg) (hs : Sym d e) :
    ∀ (kvs : Entries) (ns : List Node), DecodedEntriesG d S e kvs = true →
    encElems e kvs = .ok ns → Conv.inDomainKids d S ns = true
  | [], ns, _, h => by
      simp only [encElems, Except.ok.injEq] at h; subst h; rfl
  | (k, v) :: rest, ns, hD, h => by
      simp only [DecodedEntriesG, Bool.and_eq_true] at hD
      simp only [encElems] at h
      split at h
      · exact encElems_domG d S e hs rest ns hD.2 h
      · rename_i hk
        have hk2 : ¬ k = e.textK ∧ isAttrK e k = false := by simpa using hk
        have h1 := hD.1
        simp only [hk2.1, hk2.2, Bool.false_eq_true, if_false, Bool.and_eq_true,
          decide_eq_true_eq] at h1
        split at h
        · simp at h
        · rename_i a ha
          split at h
          · simp at h
          · rename_i r hr
            simp only [Except.ok.injEq] at h
            subst h
            have hk' : k ≠ d.textK := by rw [← hs.txt]; exact hk2.1
            exact inDomainKids_appendG d S a r
              (inDomainKids_of_sibsG d S hs.seq k h1.1 hk' a
                (encTree_domG d S e hs k v a h1.2 ha))
              (encElems_domG d S e hs rest r hD.2 hr)
end

end Mxj.EncSym
