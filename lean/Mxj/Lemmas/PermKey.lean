/-
  Mxj.Lemmas.PermKey — invariance of `hasKey` (ValuesForKey) and `hasKeyPath` (PathsForKey) under
  `ValPerm` (the entries of every map, at every depth, permuted).
-/
import Mxj.Lemmas.PermQuery
namespace Mxj

theorem hasKeyList_flatMap (key : Str) (subs : SubKeys) : ∀ xs : List Val,
    hasKeyList key subs xs = xs.flatMap (hasKey key subs)
  | [] => by simp [hasKeyList]
  | x :: xs => by simp [hasKeyList, hasKeyList_flatMap key subs xs]

theorem hasKeyEntries_flatMap (key : Str) (subs : SubKeys) : ∀ kvs : Entries,
    hasKeyEntries key subs kvs = kvs.flatMap (fun e => hasKey key subs e.2)
  | [] => by simp [hasKeyEntries]
  | (k, v) :: rest => by simp [hasKeyEntries, hasKeyEntries_flatMap key subs rest]

/-- flatMap of a function of the entry VALUE over permuted-and-related entries -/
theorem entries_flatMap_permR {f : Val → List Val} {kvs mid kvs' : Entries}
    (p : List.Perm kvs mid) (a : EntAll2 ValPerm mid kvs')
    (hf : ∀ e ∈ kvs, ∀ w, ValPerm e.2 w → PermR (f e.2) (f w)) :
    PermR (kvs.flatMap (fun e => f e.2)) (kvs'.flatMap (fun e => f e.2)) := by
  refine PermR.of_perm_left (List.Perm.flatMap_right _ p) ?_
  have hf' : ∀ e ∈ mid, ∀ w, ValPerm e.2 w → PermR (f e.2) (f w) :=
    fun e he => hf e (p.mem_iff.2 he)
  clear hf p
  induction a with
  | nil => exact PermR.refl []
  | @cons k v w r r' hvw _ ih =>
    simp only [List.flatMap_cons]
    exact PermR.append (hf' (k, v) (by simp) w hvw)
      (ih (fun e he => hf' e (List.mem_cons_of_mem _ he)))

/-- the value-of-interest part keeps the order -/
theorem loadKeyVal_valperm (subs : SubKeys) {m m' : Val} (hw : m.wf = true)
    (h : ValPerm m m') : All2 ValPerm (loadKeyVal subs m) (loadKeyVal subs m') := by
  cases h with
  | refl => exact F2_refl _
  | list f =>
    simp only [loadKeyVal]
    exact F2_filter f (fun a b ha hab => hasSubKeys_valperm (wf_list hw a ha) hab subs)
  | map p a =>
    simp only [loadKeyVal, ← hasSubKeys_valperm hw (.map p a) subs]
    cases hasSubKeys (.map _) subs
    · simpa using All2.nil
    · simpa using All2.cons (ValPerm.map p a) .nil

theorem sizeOf_entry_lt {kvs : Entries} {e : Str × Val} (he : e ∈ kvs) :
    sizeOf e.2 < sizeOf (Val.map kvs) := by
  have := List.sizeOf_lt_of_mem he
  obtain ⟨k, v⟩ := e
  simp only [Val.map.sizeOf_spec, Prod.mk.sizeOf_spec] at *
  omega

theorem sizeOf_member_lt {xs : List Val} {x : Val} (hx : x ∈ xs) :
    sizeOf x < sizeOf (Val.list xs) := by
  have := List.sizeOf_lt_of_mem hx
  simp only [Val.list.sizeOf_spec]
  omega

theorem hasKey_valperm_aux (key : Str) (subs : SubKeys) : ∀ (n : Nat) (m m' : Val),
    sizeOf m < n → m.wf = true → ValPerm m m' →
    PermR (hasKey key subs m) (hasKey key subs m') := by
  intro n
  induction n with
  | zero => intro m m' h; omega
  | succ n ih =>
    intro m m' hn hw h
    cases h with
    | refl => exact PermR.refl _
    | @list xs ys f =>
      simp only [hasKey, hasKeyList_flatMap]
      exact F2_flatMap f (fun a b ha hab =>
        ih a b (by have := sizeOf_member_lt ha; omega) (wf_list hw a ha) hab)
    | @map kvs mid kvs' p a =>
      simp only [hasKey, hasKeyEntries_flatMap]
      refine PermR.append (PermR.append ?_ ?_) ?_
      · rcases lookup_valperm (k := key) (wf_map hw).1 p a with ⟨h1, h2⟩ | ⟨v, w, h1, h2, hvw⟩
        · rw [h1, h2]; exact PermR.refl _
        · rw [h1, h2]
          exact PermR.of_F2 (loadKeyVal_valperm subs (lookup_wf hw h1) hvw)
      · by_cases hk : key = ['*']
        · simp only [hk, if_true]
          exact entries_flatMap_permR (f := loadKeyVal subs) p a (fun e he w hew =>
            PermR.of_F2 (loadKeyVal_valperm subs ((wf_map hw).2 e he) hew))
        · simp only [hk, if_false]; exact PermR.refl _
      · exact entries_flatMap_permR (f := hasKey key subs) p a (fun e he w hew =>
          ih e.2 w (by have := sizeOf_entry_lt he; omega) ((wf_map hw).2 e he) hew)

/-- ValuesForKey's collector: the answers on a map-permuted value are a permutation of the
    answers on the value (each answer itself map-permuted) -/
theorem hasKey_valperm (key : Str) (subs : SubKeys) {m m' : Val} (hw : m.wf = true)
    (h : ValPerm m m') : PermR (hasKey key subs m) (hasKey key subs m') :=
  hasKey_valperm_aux key subs (sizeOf m + 1) m m' (Nat.lt_succ_self _) hw h

/-! ### PathsForKey -/

theorem hasKeyPathList_flatMap (key crumbs : Str) : ∀ xs : List Val,
    hasKeyPathList key crumbs xs = xs.flatMap (hasKeyPath key crumbs)
  | [] => by simp [hasKeyPathList]
  | x :: xs => by simp [hasKeyPathList, hasKeyPathList_flatMap key crumbs xs]

theorem hasKeyPathEntries_flatMap (key crumbs : Str) : ∀ kvs : Entries,
    hasKeyPathEntries key crumbs kvs
      = kvs.flatMap (fun e => hasKeyPath key (crumb crumbs e.1) e.2)
  | [] => by simp [hasKeyPathEntries]
  | (k, v) :: rest => by simp [hasKeyPathEntries, hasKeyPathEntries_flatMap key crumbs rest]

theorem all2_mem_left {R : Val → Val → Prop} {l l' : List Val} (h : All2 R l l') :
    ∀ a ∈ l, ∃ b ∈ l', R a b := by
  induction h with
  | nil => intro a ha; simp at ha
  | @cons a b l l' hab _ ih =>
    intro x hx
    rcases List.mem_cons.1 hx with e | e
    · subst e; exact ⟨b, by simp, hab⟩
    · obtain ⟨y, hy, hxy⟩ := ih x e; exact ⟨y, List.mem_cons_of_mem _ hy, hxy⟩

theorem all2_mem_right {R : Val → Val → Prop} {l l' : List Val} (h : All2 R l l') :
    ∀ b ∈ l', ∃ a ∈ l, R a b := by
  induction h with
  | nil => intro a ha; simp at ha
  | @cons a b l l' hab _ ih =>
    intro x hx
    rcases List.mem_cons.1 hx with e | e
    · subst e; exact ⟨a, by simp, hab⟩
    · obtain ⟨y, hy, hxy⟩ := ih x e; exact ⟨y, List.mem_cons_of_mem _ hy, hxy⟩

theorem entAll2_mem_left {R : Val → Val → Prop} {l l' : Entries} (h : EntAll2 R l l') :
    ∀ k v, (k, v) ∈ l → ∃ w, (k, w) ∈ l' ∧ R v w := by
  induction h with
  | nil => intro k v ha; simp at ha
  | @cons k0 v0 w0 r r' hab _ ih =>
    intro k v hx
    rcases List.mem_cons.1 hx with e | e
    · injection e with e1 e2; subst e1; subst e2; exact ⟨w0, by simp, hab⟩
    · obtain ⟨y, hy, hxy⟩ := ih k v e; exact ⟨y, List.mem_cons_of_mem _ hy, hxy⟩

theorem entAll2_mem_right {R : Val → Val → Prop} {l l' : Entries} (h : EntAll2 R l l') :
    ∀ k w, (k, w) ∈ l' → ∃ v, (k, v) ∈ l ∧ R v w := by
  induction h with
  | nil => intro k v ha; simp at ha
  | @cons k0 v0 w0 r r' hab _ ih =>
    intro k w hx
    rcases List.mem_cons.1 hx with e | e
    · injection e with e1 e2; subst e1; subst e2; exact ⟨v0, by simp, hab⟩
    · obtain ⟨y, hy, hxy⟩ := ih k w e; exact ⟨y, List.mem_cons_of_mem _ hy, hxy⟩

theorem hasKeyPath_valperm_aux (key : Str) : ∀ (n : Nat) (m m' : Val) (crumbs p : Str),
    sizeOf m < n → m.wf = true → ValPerm m m' →
    (p ∈ hasKeyPath key crumbs m ↔ p ∈ hasKeyPath key crumbs m') := by
  intro n
  induction n with
  | zero => intro m m' _ _ h; omega
  | succ n ih =>
    intro m m' crumbs q hn hw h
    cases h with
    | refl => exact Iff.rfl
    | @list xs ys f =>
      simp only [hasKeyPath, hasKeyPathList_flatMap, List.mem_flatMap]
      constructor
      · rintro ⟨a, ha, hq⟩
        obtain ⟨b, hb, hab⟩ := all2_mem_left f a ha
        exact ⟨b, hb, (ih a b crumbs q (by have := sizeOf_member_lt ha; omega)
          (wf_list hw a ha) hab).1 hq⟩
      · rintro ⟨b, hb, hq⟩
        obtain ⟨a, ha, hab⟩ := all2_mem_right f b hb
        exact ⟨a, ha, (ih a b crumbs q (by have := sizeOf_member_lt ha; omega)
          (wf_list hw a ha) hab).2 hq⟩
    | @map kvs mid kvs' p a =>
      simp only [hasKeyPath, hasKeyPathEntries_flatMap, List.mem_append, List.mem_flatMap]
      have hl : (lookup key kvs).isSome = (lookup key kvs').isSome := by
        rcases lookup_valperm (k := key) (wf_map hw).1 p a with ⟨h1, h2⟩ | ⟨v, w, h1, h2, _⟩
        · rw [h1, h2]
        · rw [h1, h2]; rfl
      rw [hl]
      apply or_congr Iff.rfl
      constructor
      · rintro ⟨⟨k, v⟩, he, hq⟩
        obtain ⟨w, hw', hvw⟩ := entAll2_mem_left a k v (p.mem_iff.1 he)
        exact ⟨(k, w), hw', (ih v w (crumb crumbs k) q
          (by have := sizeOf_entry_lt he; simp only at this; omega)
          ((wf_map hw).2 (k, v) he) hvw).1 hq⟩
      · rintro ⟨⟨k, w⟩, he, hq⟩
        obtain ⟨v, hv, hvw⟩ := entAll2_mem_right a k w he
        have hv' := p.mem_iff.2 hv
        exact ⟨(k, v), hv', (ih v w (crumb crumbs k) q
          (by have := sizeOf_entry_lt hv'; simp only at this; omega)
          ((wf_map hw).2 (k, v) hv') hvw).2 hq⟩

/-- PathsForKey's collector finds the same paths on a map-permuted value -/
theorem hasKeyPath_valperm (key crumbs p : Str) {m m' : Val} (hw : m.wf = true)
    (h : ValPerm m m') : p ∈ hasKeyPath key crumbs m ↔ p ∈ hasKeyPath key crumbs m' :=
  hasKeyPath_valperm_aux key (sizeOf m + 1) m m' crumbs p (Nat.lt_succ_self _) hw h

end Mxj
