/-
  Mxj.Lemmas.JsonIndent — the JSON text grammar of Mxj.Model.Json (`value` / `elements` /
  `members`) skips the layout that the indented encoder of Mxj.Model.Forms (`encNI`,
  `mapJsonIndent`: the model of `Map.JsonIndent`, i.e. of `json.Indent`) inserts, whenever prefix
  and indent consist of JSON white space only (`WsOnly`).

    `WsOnly s`                 every character of `s` is ' ', '\t', '\r' or '\n'
    `value_ws` …               leading white space is invisible to `value`, `elements`, `members`
    `rtI_value` (mutual)       `value f (encNI … d v ++ rest) = some (v, rest)` from fuel `sz v` on
    `sz_le_lengthI` (mutual)   the decoder's own fuel (text length + 1) is enough
    `newMapJson_of_brace`      the ONLY place where `newMapJson` is unfolded: a text whose first
                               character is '{' takes the branch without the array wrapper
    `newMapJson_mapJsonIndent` the Map-level round trip
    `noHtml_*`                 no raw '<', '>', '&' in the safe encodings (compact and indented)

  Used by Mxj.Props.C06ExtIndent.  Core Lean only.
-/
import Mxj.Lemmas.Json
import Mxj.Model.Forms
namespace Mxj.Json
open Mxj Mxj.Forms

/-! ### white space -/

/-- a string of JSON white space only: space, tab, carriage return, line feed -/
def WsOnly (s : Str) : Bool := s.all isWs

theorem wsOnly_nil : WsOnly [] = true := rfl

theorem wsOnly_cons (c : Char) (s : Str) :
    WsOnly (c :: s) = true ↔ isWs c = true ∧ WsOnly s = true := by
  simp [WsOnly]

theorem wsOnly_append (a b : Str) :
    WsOnly (a ++ b) = true ↔ WsOnly a = true ∧ WsOnly b = true := by
  simp only [WsOnly, List.all_append, Bool.and_eq_true]

theorem skipWs_ws_append : ∀ (w s : Str), WsOnly w = true → skipWs (w ++ s) = skipWs s
  | [], _, _ => rfl
  | c :: w, s, h => by
      have h' := (wsOnly_cons c w).1 h
      have ih := skipWs_ws_append w s h'.2
      simp only [skipWs] at ih ⊢
      rw [List.cons_append, List.dropWhile_cons, if_pos h'.1, ih]

theorem isWs_cases {c : Char} (h : isWs c = true) : c = ' ' ∨ c = '\t' ∨ c = '\n' ∨ c = '\r' := by
  simp only [isWs, Bool.or_eq_true, decide_eq_true_eq] at h
  rcases h with ((h | h) | h) | h
  · exact Or.inl h
  · exact Or.inr (Or.inl h)
  · exact Or.inr (Or.inr (Or.inl h))
  · exact Or.inr (Or.inr (Or.inr h))

/-- white space never continues a number literal -/
theorem numEnd_ws_append (w : Str) (c : Char) (r : Str) (hw : WsOnly w = true)
    (h : numEnd (c :: r) = true) : numEnd (w ++ c :: r) = true := by
  cases w with
  | nil => exact h
  | cons a w =>
    have ha := ((wsOnly_cons a w).1 hw).1
    rcases isWs_cases ha with h1 | h1 | h1 | h1 <;> subst h1 <;> rfl

theorem value_ws (f : Nat) (w s : Str) (hw : WsOnly w = true) : value f (w ++ s) = value f s := by
  cases f with
  | zero => simp [value]
  | succ f => rw [value, value, skipWs_ws_append w s hw]

theorem value_space (f : Nat) (s : Str) : value f (' ' :: s) = value f s :=
  value_ws f [' '] s (by decide)

theorem elements_ws (f : Nat) (w s : Str) (acc : List Val) (hw : WsOnly w = true) :
    elements f (w ++ s) acc = elements f s acc := by
  cases f with
  | zero => simp [elements]
  | succ f => rw [elements, elements, value_ws f w s hw]

theorem members_ws (f : Nat) (w s : Str) (acc : Entries) (hw : WsOnly w = true) :
    members f (w ++ s) acc = members f s acc := by
  cases f with
  | zero => simp [members]
  | succ f => rw [members, members, skipWs_ws_append w s hw]

/-- `[`, white space, then something that is neither white space nor `]`: the elements follow -/
theorem value_bracket_wsI (f : Nat) (w : Str) (c : Char) (tl : Str) (hw : WsOnly w = true)
    (h : isWs c = false) (h2 : c ≠ ']') :
    value (f + 1) ('[' :: (w ++ c :: tl)) = elements f (c :: tl) [] := by
  rw [value_bracket, skipWs_ws_append _ _ hw, skipWs_cons_of _ _ h]
  split
  · next heq => simp only [List.cons.injEq] at heq; exact absurd heq.1 h2
  · rfl

/-- `{`, white space, then a quote: the members follow -/
theorem value_brace_ws (f : Nat) (w : Str) (tl : Str) (hw : WsOnly w = true) :
    value (f + 1) ('{' :: (w ++ '"' :: tl)) = members f ('"' :: tl) [] := by
  rw [value_brace, skipWs_ws_append _ _ hw, skipWs_cons_of _ _ (by decide)]
  rfl

/-! ### the layout pieces -/

theorem wsOnly_nlIndent (pfx ind : Str) (hp : WsOnly pfx = true) (hi : WsOnly ind = true) :
    ∀ d, WsOnly (nlIndent pfx ind d) = true
  | 0 => by rw [nlIndent, wsOnly_cons]; exact ⟨by decide, hp⟩
  | d + 1 => by rw [nlIndent, wsOnly_append]; exact ⟨wsOnly_nlIndent pfx ind hp hi d, hi⟩

/-! ### the indented encoder, case by case -/

theorem encNI_null (html : Bool) (pfx ind : Str) (d : Nat) :
    encNI html pfx ind d .null = encN html .null := by simp [encNI]
theorem encNI_bool (html : Bool) (pfx ind : Str) (d : Nat) (b : Bool) :
    encNI html pfx ind d (.bool b) = encN html (.bool b) := by simp [encNI]
theorem encNI_num (html : Bool) (pfx ind : Str) (d : Nat) (t : Str) :
    encNI html pfx ind d (.num t) = encN html (.num t) := by simp [encNI]
theorem encNI_str (html : Bool) (pfx ind : Str) (d : Nat) (s : Str) :
    encNI html pfx ind d (.str s) = encN html (.str s) := by simp [encNI]
theorem encNI_list_nil (html : Bool) (pfx ind : Str) (d : Nat) :
    encNI html pfx ind d (.list []) = encN html (.list []) := by
  simp [encNI, encN, encList]
theorem encNI_map_nil (html : Bool) (pfx ind : Str) (d : Nat) :
    encNI html pfx ind d (.map []) = encN html (.map []) := by
  simp [encNI, encN, encEntries]
theorem encNI_list_cons (html : Bool) (pfx ind : Str) (d : Nat) (x : Val) (xs : List Val)
    (rest : Str) :
    encNI html pfx ind d (.list (x :: xs)) ++ rest
      = '[' :: (nlIndent pfx ind (d + 1) ++ (encListI html pfx ind (d + 1) (x :: xs)
          ++ (nlIndent pfx ind d ++ ']' :: rest))) := by
  simp [encNI]
theorem encNI_map_cons (html : Bool) (pfx ind : Str) (d : Nat) (e : Str × Val) (kvs : Entries)
    (rest : Str) :
    encNI html pfx ind d (.map (e :: kvs)) ++ rest
      = '{' :: (nlIndent pfx ind (d + 1) ++ (encEntriesI html pfx ind (d + 1) (e :: kvs)
          ++ (nlIndent pfx ind d ++ '}' :: rest))) := by
  simp [encNI]

/-- the first character of an indented value is no white space and no closing bracket -/
theorem encNI_head (html : Bool) (pfx ind : Str) (d : Nat) (v : Val) (hv : JsonShaped v = true) :
    ∃ c tl, encNI html pfx ind d v = c :: tl ∧ isWs c = false ∧ c ≠ ']' ∧ c ≠ '}' := by
  cases v with
  | null => rw [encNI_null]; exact encN_head html _ hv
  | bool b => rw [encNI_bool]; exact encN_head html _ hv
  | num t => rw [encNI_num]; exact encN_head html _ hv
  | str s => rw [encNI_str]; exact encN_head html _ hv
  | list xs =>
    cases xs with
    | nil => rw [encNI_list_nil]; exact encN_head html _ hv
    | cons x xs =>
      have := encNI_list_cons html pfx ind d x xs []
      rw [List.append_nil] at this
      exact ⟨'[', _, this, by decide⟩
  | map kvs =>
    cases kvs with
    | nil => rw [encNI_map_nil]; exact encN_head html _ hv
    | cons e kvs =>
      have := encNI_map_cons html pfx ind d e kvs []
      rw [List.append_nil] at this
      exact ⟨'{', _, this, by decide⟩

theorem encListI_head (html : Bool) (pfx ind : Str) (d : Nat) (x : Val) (xs : List Val)
    (hx : JsonShaped x = true) :
    ∃ c tl, encListI html pfx ind d (x :: xs) = c :: tl ∧ isWs c = false ∧ c ≠ ']' := by
  obtain ⟨c, tl, he, h1, h2, _⟩ := encNI_head html pfx ind d x hx
  cases xs with
  | nil => exact ⟨c, tl, by rw [encListI, he], h1, h2⟩
  | cons y r => exact ⟨c, _, by rw [encListI, he]; rfl, h1, h2⟩

theorem encEntriesI_head (html : Bool) (pfx ind : Str) (d : Nat) (e : Str × Val) (kvs : Entries) :
    ∃ tl, encEntriesI html pfx ind d (e :: kvs) = '"' :: tl := by
  obtain ⟨k, v⟩ := e
  cases kvs with
  | nil => exact ⟨_, by rw [encEntriesI, quote]; rfl⟩
  | cons y r => exact ⟨_, by rw [encEntriesI, quote]; rfl⟩

/-! ### the grammar reads an indented value back -/

mutual
theorem rtI_value : ∀ (v : Val) (html : Bool) (pfx ind : Str) (d : Nat) (rest : Str) (f : Nat),
    WsOnly pfx = true → WsOnly ind = true → JsonShaped v = true →
    (∀ t, v = .num t → numEnd rest = true) → sz v ≤ f →
    value f (encNI html pfx ind d v ++ rest) = some (v, rest)
  | .null, html, pfx, ind, d, rest, f, _, _, hv, hr, hf => by
      rw [encNI_null]; exact rt_value _ html rest f hv hr hf
  | .bool b, html, pfx, ind, d, rest, f, _, _, hv, hr, hf => by
      rw [encNI_bool]; exact rt_value _ html rest f hv hr hf
  | .num t, html, pfx, ind, d, rest, f, _, _, hv, hr, hf => by
      rw [encNI_num]; exact rt_value _ html rest f hv hr hf
  | .str s, html, pfx, ind, d, rest, f, _, _, hv, hr, hf => by
      rw [encNI_str]; exact rt_value _ html rest f hv hr hf
  | .list [], html, pfx, ind, d, rest, f, _, _, hv, hr, hf => by
      rw [encNI_list_nil]; exact rt_value _ html rest f hv hr hf
  | .list (x :: xs), html, pfx, ind, d, rest, f, hp, hi, hv, _, hf => by
      cases f with
      | zero => simp [sz] at hf
      | succ f =>
        have hx : JsonShaped x = true := by
          simp only [JsonShaped, JsonShapedList, Bool.and_eq_true] at hv; exact hv.1
        obtain ⟨c, tl, he, hc1, hc2⟩ := encListI_head html pfx ind (d + 1) x xs hx
        have hl := rtI_elements (x :: xs) html pfx ind (d + 1) (nlIndent pfx ind d) rest f [] hp hi
          (by simp) (wsOnly_nlIndent pfx ind hp hi d) (by simpa [JsonShaped] using hv)
          (by simp only [sz] at hf; omega)
        rw [he, List.cons_append] at hl
        rw [encNI_list_cons, he, List.cons_append,
          value_bracket_wsI f _ c _ (wsOnly_nlIndent pfx ind hp hi (d + 1)) hc1 hc2, hl]
        simp
  | .map [], html, pfx, ind, d, rest, f, _, _, hv, hr, hf => by
      rw [encNI_map_nil]; exact rt_value _ html rest f hv hr hf
  | .map ((k, v) :: kvs), html, pfx, ind, d, rest, f, hp, hi, hv, _, hf => by
      cases f with
      | zero => simp [sz] at hf
      | succ f =>
        obtain ⟨tl, he⟩ := encEntriesI_head html pfx ind (d + 1) (k, v) kvs
        simp only [JsonShaped, Bool.and_eq_true] at hv
        have hl := rtI_members ((k, v) :: kvs) html pfx ind (d + 1) (nlIndent pfx ind d) rest f []
          hp hi (by simp) (wsOnly_nlIndent pfx ind hp hi d) hv.1 (by simpa using hv.2)
          (by simp only [sz] at hf; omega)
        rw [he, List.cons_append] at hl
        rw [encNI_map_cons, he, List.cons_append,
          value_brace_ws f _ _ (wsOnly_nlIndent pfx ind hp hi (d + 1)), hl]
        simp
theorem rtI_elements : ∀ (xs : List Val) (html : Bool) (pfx ind : Str) (d : Nat) (w2 rest : Str)
    (f : Nat) (acc : List Val),
    WsOnly pfx = true → WsOnly ind = true → xs ≠ [] → WsOnly w2 = true →
    JsonShapedList xs = true → szList xs ≤ f →
    elements f (encListI html pfx ind d xs ++ (w2 ++ ']' :: rest)) acc
      = some (.list (acc.reverse ++ xs), rest)
  | [], _, _, _, _, _, _, _, _, _, _, hne, _, _, _ => absurd rfl hne
  | [x], html, pfx, ind, d, w2, rest, f, acc, hp, hi, _, hw, hv, hf => by
      cases f with
      | zero => simp [szList] at hf
      | succ f =>
        simp only [JsonShapedList, Bool.and_eq_true] at hv
        rw [elements, encListI,
          rtI_value x html pfx ind d (w2 ++ ']' :: rest) f hp hi hv.1
            (fun _ _ => numEnd_ws_append w2 ']' rest hw rfl)
            (by simp only [szList] at hf; omega)]
        simp only []
        rw [skipWs_ws_append _ _ hw, skipWs_cons_of _ _ (by decide)]
        simp
  | x :: y :: r, html, pfx, ind, d, w2, rest, f, acc, hp, hi, _, hw, hv, hf => by
      cases f with
      | zero => simp [szList] at hf
      | succ f =>
        simp only [JsonShapedList, Bool.and_eq_true] at hv
        have h2 := rtI_elements (y :: r) html pfx ind d w2 rest f (x :: acc) hp hi (by simp) hw
          (by simp [JsonShapedList, hv.2.1, hv.2.2]) (by simp only [szList] at hf ⊢; omega)
        rw [elements, encListI]
        simp only [List.append_assoc, List.cons_append, List.nil_append]
        rw [rtI_value x html pfx ind d
          (',' :: (nlIndent pfx ind d ++ (encListI html pfx ind d (y :: r) ++ (w2 ++ ']' :: rest))))
          f hp hi hv.1 (fun _ _ => rfl) (by simp only [szList] at hf; omega)]
        simp only []
        rw [skipWs_cons_of _ _ (by decide)]
        simp only []
        rw [elements_ws f _ _ _ (wsOnly_nlIndent pfx ind hp hi d), h2]; simp
theorem rtI_members : ∀ (kvs : Entries) (html : Bool) (pfx ind : Str) (d : Nat) (w2 rest : Str)
    (f : Nat) (acc : Entries),
    WsOnly pfx = true → WsOnly ind = true → kvs ≠ [] → WsOnly w2 = true →
    JsonShapedEntries kvs = true → distinctKeys (acc ++ kvs) = true → szEntries kvs ≤ f →
    members f (encEntriesI html pfx ind d kvs ++ (w2 ++ '}' :: rest)) acc
      = some (.map (acc ++ kvs), rest)
  | [], _, _, _, _, _, _, _, _, _, _, hne, _, _, _, _ => absurd rfl hne
  | [(k, v)], html, pfx, ind, d, w2, rest, f, acc, hp, hi, _, hw, hv, hd, hf => by
      cases f with
      | zero => simp [szEntries] at hf
      | succ f =>
        simp only [JsonShapedEntries, Bool.and_eq_true] at hv
        rw [encEntriesI]
        simp only [List.append_assoc, List.cons_append, List.nil_append]
        rw [members_step, value_space,
          rtI_value v html pfx ind d (w2 ++ '}' :: rest) f hp hi hv.1
            (fun _ _ => numEnd_ws_append w2 '}' rest hw rfl)
            (by simp only [szEntries] at hf; omega)]
        simp only []
        rw [skipWs_ws_append _ _ hw, skipWs_cons_of _ _ (by decide)]
        simp only []
        rw [insert_of_not_mem k v acc (distinct_mid acc k v [] hd)]
  | (k, v) :: e :: r, html, pfx, ind, d, w2, rest, f, acc, hp, hi, _, hw, hv, hd, hf => by
      cases f with
      | zero => simp [szEntries] at hf
      | succ f =>
        obtain ⟨k2, v2⟩ := e
        simp only [JsonShapedEntries, Bool.and_eq_true] at hv
        have h2 := rtI_members ((k2, v2) :: r) html pfx ind d w2 rest f (acc ++ [(k, v)]) hp hi
          (by simp) hw (by simp [JsonShapedEntries, hv.2.1, hv.2.2]) (by simpa using hd)
          (by simp only [szEntries] at hf ⊢; omega)
        rw [encEntriesI]
        simp only [List.append_assoc, List.cons_append, List.nil_append]
        rw [members_step, value_space,
          rtI_value v html pfx ind d
            (',' :: (nlIndent pfx ind d
              ++ (encEntriesI html pfx ind d ((k2, v2) :: r) ++ (w2 ++ '}' :: rest))))
            f hp hi hv.1 (fun _ _ => rfl) (by simp only [szEntries] at hf; omega)]
        simp only []
        rw [skipWs_cons_of _ _ (by decide)]
        simp only []
        rw [members_ws f _ _ _ (wsOnly_nlIndent pfx ind hp hi d),
          insert_of_not_mem k v acc (distinct_mid acc k v _ hd), h2]
        simp
end

/-! ### enough fuel: the length of the indented text -/

mutual
theorem sz_le_lengthI : ∀ (html : Bool) (pfx ind : Str) (d : Nat) (v : Val), JsonShaped v = true →
    sz v ≤ (encNI html pfx ind d v).length
  | html, pfx, ind, d, .null, hv => by rw [encNI_null]; exact sz_le_length html _ hv
  | html, pfx, ind, d, .bool b, hv => by rw [encNI_bool]; exact sz_le_length html _ hv
  | html, pfx, ind, d, .num t, hv => by rw [encNI_num]; exact sz_le_length html _ hv
  | html, pfx, ind, d, .str s, hv => by rw [encNI_str]; exact sz_le_length html _ hv
  | html, pfx, ind, d, .list [], hv => by rw [encNI_list_nil]; exact sz_le_length html _ hv
  | html, pfx, ind, d, .list (x :: xs), hv => by
      have := szListI_le_length html pfx ind (d + 1) (x :: xs) (by simpa [JsonShaped] using hv)
      have e := encNI_list_cons html pfx ind d x xs []
      rw [List.append_nil] at e
      rw [e]
      simp only [sz, List.length_append, List.length_cons, List.length_nil]; omega
  | html, pfx, ind, d, .map [], hv => by rw [encNI_map_nil]; exact sz_le_length html _ hv
  | html, pfx, ind, d, .map (e :: kvs), hv => by
      simp only [JsonShaped, Bool.and_eq_true] at hv
      have := szEntriesI_le_length html pfx ind (d + 1) (e :: kvs) hv.1
      have e' := encNI_map_cons html pfx ind d e kvs []
      rw [List.append_nil] at e'
      rw [e']
      simp only [sz, List.length_append, List.length_cons, List.length_nil]; omega
theorem szListI_le_length : ∀ (html : Bool) (pfx ind : Str) (d : Nat) (xs : List Val),
    JsonShapedList xs = true → szList xs ≤ (encListI html pfx ind d xs).length + 1
  | _, _, _, _, [], _ => by simp [szList]
  | html, pfx, ind, d, [x], hv => by
      simp only [JsonShapedList, Bool.and_eq_true] at hv
      have := sz_le_lengthI html pfx ind d x hv.1
      simp only [szList, encListI]; omega
  | html, pfx, ind, d, x :: y :: r, hv => by
      simp only [JsonShapedList, Bool.and_eq_true] at hv
      have h1 := sz_le_lengthI html pfx ind d x hv.1
      have h2 := szListI_le_length html pfx ind d (y :: r)
        (by simp [JsonShapedList, hv.2.1, hv.2.2])
      simp only [szList, encListI, List.length_append, List.length_cons, List.length_nil] at h2 ⊢
      omega
theorem szEntriesI_le_length : ∀ (html : Bool) (pfx ind : Str) (d : Nat) (kvs : Entries),
    JsonShapedEntries kvs = true → szEntries kvs ≤ (encEntriesI html pfx ind d kvs).length + 1
  | _, _, _, _, [], _ => by simp [szEntries]
  | html, pfx, ind, d, [(k, v)], hv => by
      simp only [JsonShapedEntries, Bool.and_eq_true] at hv
      have := sz_le_lengthI html pfx ind d v hv.1
      simp only [szEntries, encEntriesI, List.length_append, List.length_cons, List.length_nil]
      omega
  | html, pfx, ind, d, (k, v) :: e :: r, hv => by
      obtain ⟨k2, v2⟩ := e
      simp only [JsonShapedEntries, Bool.and_eq_true] at hv
      have h1 := sz_le_lengthI html pfx ind d v hv.1
      have h2 := szEntriesI_le_length html pfx ind d ((k2, v2) :: r)
        (by simp [JsonShapedEntries, hv.2.1, hv.2.2])
      simp only [szEntries, encEntriesI, List.length_append, List.length_cons, List.length_nil]
        at h2 ⊢
      omega
end

/-- the decoder's own fuel (text length + 1) is enough for the indented text -/
theorem firstValue_encNI (html : Bool) (pfx ind : Str) (d : Nat) (v : Val)
    (hp : WsOnly pfx = true) (hi : WsOnly ind = true) (hv : JsonShaped v = true) (rest : Str)
    (hr : ∀ t, v = .num t → numEnd rest = true) :
    firstValue (encNI html pfx ind d v ++ rest) = some v := by
  have := sz_le_lengthI html pfx ind d v hv
  unfold firstValue
  rw [rtI_value v html pfx ind d rest _ hp hi hv hr (by simp only [List.length_append]; omega)]
  rfl

/-! ### Map level -/

/-- THE place where `newMapJson` is unfolded: a text whose first character is '{' is not empty
    and does not take the array wrapper, so `NewMapJson` returns the object `firstValue` reads.
    (Everything about `Map.JsonIndent` below goes through this lemma only.) -/
theorem newMapJson_of_brace (r : Str) (m : Entries)
    (h : firstValue ('{' :: r) = some (.map m)) : newMapJson ('{' :: r) = some (.map m) := by
  have hs : skipWs ('{' :: r) = '{' :: r := skipWs_cons_of _ _ (by decide)
  simp [newMapJson, hs, h]

/-- a key-sorted normal form of a Map is a Map -/
theorem norm_map (m : Entries) : Val.norm (.map m) = .map (sortByKey (Val.normEntries m)) := by
  simp only [Val.norm]

/-- the indented (or, for empty prefix and indent, compact) bytes of a Map start with '{' -/
theorem mapJsonIndent_brace (safe : Bool) (pfx ind : Str) (m : Entries) :
    ∃ r, mapJsonIndent safe pfx ind (.map m) = '{' :: r := by
  unfold mapJsonIndent
  rw [norm_map]
  split
  · exact ⟨_, by simp only [encN]; rfl⟩
  · cases h : sortByKey (Val.normEntries m) with
    | nil => exact ⟨_, by rw [encNI_map_nil, encN]; rfl⟩
    | cons e kvs =>
      have := encNI_map_cons safe pfx ind 0 e kvs []
      rw [List.append_nil] at this
      exact ⟨_, this⟩

theorem firstValue_mapJsonIndent (safe : Bool) (pfx ind : Str) (m : Entries)
    (hp : WsOnly pfx = true) (hi : WsOnly ind = true) (hm : JsonShaped (.map m) = true) :
    firstValue (mapJsonIndent safe pfx ind (.map m)) = some (Val.norm (.map m)) := by
  have hn := jsonShaped_norm _ hm
  unfold mapJsonIndent
  split
  · have := firstValue_encN safe _ hn [] (fun _ _ => rfl)
    rwa [List.append_nil] at this
  · have := firstValue_encNI safe pfx ind 0 _ hp hi hn [] (fun _ _ => rfl)
    rwa [List.append_nil] at this

/-- `NewMapJson (JsonIndent m)` is the key-sorted normal form of `m` -/
theorem newMapJson_mapJsonIndent (safe : Bool) (pfx ind : Str) (m : Entries)
    (hp : WsOnly pfx = true) (hi : WsOnly ind = true) (hm : JsonShaped (.map m) = true) :
    newMapJson (mapJsonIndent safe pfx ind (.map m)) = some (Val.norm (.map m)) := by
  have hf := firstValue_mapJsonIndent safe pfx ind m hp hi hm
  obtain ⟨r, hr⟩ := mapJsonIndent_brace safe pfx ind m
  rw [hr] at hf ⊢
  rw [norm_map] at hf ⊢
  exact newMapJson_of_brace r _ hf

/-! ### no raw '<', '>', '&' in the safe encodings -/

/-- none of the three HTML characters occurs in `s` -/
def NoHtml (s : Str) : Prop := ∀ c ∈ s, c ≠ '<' ∧ c ≠ '>' ∧ c ≠ '&'

theorem noHtml_nil : NoHtml [] := by intro c hc; cases hc

theorem noHtml_append {a b : Str} (ha : NoHtml a) (hb : NoHtml b) : NoHtml (a ++ b) := by
  intro c hc
  rcases List.mem_append.1 hc with h | h
  · exact ha c h
  · exact hb c h

theorem noHtml_cons {c : Char} {s : Str} (hc : c ≠ '<' ∧ c ≠ '>' ∧ c ≠ '&') (hs : NoHtml s) :
    NoHtml (c :: s) := by
  intro x hx
  rcases List.mem_cons.1 hx with h | h
  · subst h; exact hc
  · exact hs x h

theorem isDigit_noHtml {c : Char} (h : isDigit c = true) : c ≠ '<' ∧ c ≠ '>' ∧ c ≠ '&' := by
  refine ⟨?_, ?_, ?_⟩ <;> (rintro rfl; revert h; decide)

theorem isWs_noHtml {c : Char} (h : isWs c = true) : c ≠ '<' ∧ c ≠ '>' ∧ c ≠ '&' := by
  rcases isWs_cases h with h1 | h1 | h1 | h1 <;> subst h1 <;> decide

theorem noHtml_of_wsOnly : ∀ (w : Str), WsOnly w = true → NoHtml w
  | [], _ => noHtml_nil
  | c :: w, h =>
      noHtml_cons (isWs_noHtml ((wsOnly_cons c w).1 h).1) (noHtml_of_wsOnly w ((wsOnly_cons c w).1 h).2)

theorem mem_takeWhile_true (p : Char → Bool) : ∀ (l : Str) (c : Char), c ∈ l.takeWhile p → p c = true
  | [], _, h => by cases h
  | a :: l, c, h => by
      rw [List.takeWhile_cons] at h
      split at h
      · next ha =>
        rcases List.mem_cons.1 h with h1 | h1
        · subst h1; exact ha
        · exact mem_takeWhile_true p l c h1
      · cases h

theorem noHtml_digits1 (s ds r : Str) (h : digits1 s = some (ds, r)) : NoHtml ds := by
  simp only [digits1] at h
  split at h
  · cases h
  · simp only [Option.some.injEq, Prod.mk.injEq] at h
    intro c hc
    rw [← h.1] at hc
    exact isDigit_noHtml (mem_takeWhile_true _ _ _ hc)

theorem noHtml_numSign (s : Str) : NoHtml (numSign s).1 := by
  unfold numSign
  split
  · exact noHtml_cons (by decide) noHtml_nil
  · exact noHtml_nil

theorem noHtml_numInt (s ip r : Str) (h : numInt s = some (ip, r)) : NoHtml ip := by
  unfold numInt at h
  split at h
  · simp only [Option.some.injEq, Prod.mk.injEq] at h
    rw [← h.1]; exact noHtml_cons (by decide) noHtml_nil
  · split at h
    · next ds r' hd =>
      simp only [Option.some.injEq, Prod.mk.injEq] at h
      rw [← h.1]; exact noHtml_digits1 _ _ _ hd
    · cases h

theorem noHtml_numFrac (s fp r : Str) (h : numFrac s = some (fp, r)) : NoHtml fp := by
  unfold numFrac at h
  split at h
  · split at h
    · next ds r' hd =>
      simp only [Option.some.injEq, Prod.mk.injEq] at h
      rw [← h.1]; exact noHtml_cons (by decide) (noHtml_digits1 _ _ _ hd)
    · cases h
  · simp only [Option.some.injEq, Prod.mk.injEq] at h
    rw [← h.1]; exact noHtml_nil

theorem noHtml_numExpSign (s : Str) : NoHtml (numExpSign s).1 := by
  unfold numExpSign
  split
  · exact noHtml_cons (by decide) noHtml_nil
  · exact noHtml_cons (by decide) noHtml_nil
  · exact noHtml_nil

theorem noHtml_numExp (s ep r : Str) (h : numExp s = some (ep, r)) : NoHtml ep := by
  unfold numExp at h
  split at h
  · next e r0 =>
    split at h
    · next he =>
      split at h
      · next ds r2 hd =>
        simp only [Option.some.injEq, Prod.mk.injEq] at h
        rw [← h.1]
        have hE : e ≠ '<' ∧ e ≠ '>' ∧ e ≠ '&' := by
          simp only [Bool.or_eq_true, decide_eq_true_eq] at he
          rcases he with he | he <;> subst he <;> decide
        exact noHtml_cons hE (noHtml_append (noHtml_numExpSign _) (noHtml_digits1 _ _ _ hd))
      · cases h
    · simp only [Option.some.injEq, Prod.mk.injEq] at h
      rw [← h.1]; exact noHtml_nil
  · simp only [Option.some.injEq, Prod.mk.injEq] at h
    rw [← h.1]; exact noHtml_nil

/-- a number literal the grammar recognises consists of sign, digits, '.', 'e'/'E' only -/
theorem noHtml_numberLit (s t r : Str) (h : numberLit s = some (t, r)) : NoHtml t := by
  rw [numberLit_eq] at h
  split at h
  · cases h
  · next ip s2 hi =>
    split at h
    · cases h
    · next fp s3 hf =>
      split at h
      · cases h
      · next ep s4 he =>
        simp only [Option.some.injEq, Prod.mk.injEq] at h
        rw [← h.1]
        exact noHtml_append (noHtml_append (noHtml_append (noHtml_numSign s)
          (noHtml_numInt _ _ _ hi)) (noHtml_numFrac _ _ _ hf)) (noHtml_numExp _ _ _ he)

theorem noHtml_quote (s : Str) : NoHtml (quote true s) := by
  intro c hc
  simp only [quote, List.mem_append, List.mem_cons, List.not_mem_nil, or_false,
    List.mem_flatMap] at hc
  rcases hc with (h | ⟨x, _, hx⟩) | h
  · subst h; decide
  · exact mem_quoteChar_safe x c hx
  · subst h; decide

mutual
/-- the compact safe encoding of a JSON-shaped value has no raw '<', '>', '&' -/
theorem noHtml_encN : ∀ v : Val, JsonShaped v = true → NoHtml (encN true v)
  | .null, _ => by intro c hc; revert c; decide
  | .bool true, _ => by intro c hc; revert c; decide
  | .bool false, _ => by intro c hc; revert c; decide
  | .num t, hv => by
      simp only [JsonShaped, Bool.and_eq_true] at hv
      rw [encN]; exact noHtml_numberLit _ _ _ ((NumOk_iff _).1 hv.2)
  | .str s, _ => by rw [encN]; exact noHtml_quote s
  | .list xs, hv => by
      rw [encN]
      exact noHtml_append (noHtml_append (noHtml_cons (by decide) noHtml_nil)
        (noHtml_encList xs (by simpa [JsonShaped] using hv))) (noHtml_cons (by decide) noHtml_nil)
  | .map kvs, hv => by
      simp only [JsonShaped, Bool.and_eq_true] at hv
      rw [encN]
      exact noHtml_append (noHtml_append (noHtml_cons (by decide) noHtml_nil)
        (noHtml_encEntries kvs hv.1)) (noHtml_cons (by decide) noHtml_nil)
theorem noHtml_encList : ∀ xs : List Val, JsonShapedList xs = true → NoHtml (encList true xs)
  | [], _ => by rw [encList]; exact noHtml_nil
  | [x], hv => by
      simp only [JsonShapedList, Bool.and_eq_true] at hv
      rw [encList]; exact noHtml_encN x hv.1
  | x :: y :: r, hv => by
      simp only [JsonShapedList, Bool.and_eq_true] at hv
      rw [encList]
      exact noHtml_append (noHtml_append (noHtml_encN x hv.1) (noHtml_cons (by decide) noHtml_nil))
        (noHtml_encList (y :: r) (by simp [JsonShapedList, hv.2.1, hv.2.2]))
theorem noHtml_encEntries : ∀ kvs : Entries, JsonShapedEntries kvs = true →
    NoHtml (encEntries true kvs)
  | [], _ => by rw [encEntries]; exact noHtml_nil
  | [(k, v)], hv => by
      simp only [JsonShapedEntries, Bool.and_eq_true] at hv
      rw [encEntries]
      exact noHtml_append (noHtml_append (noHtml_quote k) (noHtml_cons (by decide) noHtml_nil))
        (noHtml_encN v hv.1)
  | (k, v) :: e :: r, hv => by
      obtain ⟨k2, v2⟩ := e
      simp only [JsonShapedEntries, Bool.and_eq_true] at hv
      rw [encEntries]
      exact noHtml_append (noHtml_append (noHtml_append (noHtml_append (noHtml_quote k)
        (noHtml_cons (by decide) noHtml_nil)) (noHtml_encN v hv.1))
        (noHtml_cons (by decide) noHtml_nil))
        (noHtml_encEntries ((k2, v2) :: r) (by simp [JsonShapedEntries, hv.2.1, hv.2.2]))
end

theorem noHtml_nlIndent (pfx ind : Str) (hp : NoHtml pfx) (hi : NoHtml ind) :
    ∀ d, NoHtml (nlIndent pfx ind d)
  | 0 => by rw [nlIndent]; exact noHtml_cons (by decide) hp
  | d + 1 => by rw [nlIndent]; exact noHtml_append (noHtml_nlIndent pfx ind hp hi d) hi

mutual
/-- the indented safe encoding has no raw '<', '>', '&' when prefix and indent have none -/
theorem noHtml_encNI : ∀ (pfx ind : Str) (d : Nat) (v : Val), NoHtml pfx → NoHtml ind →
    JsonShaped v = true → NoHtml (encNI true pfx ind d v)
  | pfx, ind, d, .null, _, _, hv => by rw [encNI_null]; exact noHtml_encN _ hv
  | pfx, ind, d, .bool b, _, _, hv => by rw [encNI_bool]; exact noHtml_encN _ hv
  | pfx, ind, d, .num t, _, _, hv => by rw [encNI_num]; exact noHtml_encN _ hv
  | pfx, ind, d, .str s, _, _, hv => by rw [encNI_str]; exact noHtml_encN _ hv
  | pfx, ind, d, .list [], _, _, hv => by rw [encNI_list_nil]; exact noHtml_encN _ hv
  | pfx, ind, d, .list (x :: xs), hp, hi, hv => by
      have e := encNI_list_cons true pfx ind d x xs []
      rw [List.append_nil] at e
      rw [e]
      exact noHtml_cons (by decide) (noHtml_append (noHtml_nlIndent pfx ind hp hi (d + 1))
        (noHtml_append (noHtml_encListI pfx ind (d + 1) (x :: xs) hp hi
          (by simpa [JsonShaped] using hv))
          (noHtml_append (noHtml_nlIndent pfx ind hp hi d) (noHtml_cons (by decide) noHtml_nil))))
  | pfx, ind, d, .map [], _, _, hv => by rw [encNI_map_nil]; exact noHtml_encN _ hv
  | pfx, ind, d, .map (e :: kvs), hp, hi, hv => by
      simp only [JsonShaped, Bool.and_eq_true] at hv
      have e' := encNI_map_cons true pfx ind d e kvs []
      rw [List.append_nil] at e'
      rw [e']
      exact noHtml_cons (by decide) (noHtml_append (noHtml_nlIndent pfx ind hp hi (d + 1))
        (noHtml_append (noHtml_encEntriesI pfx ind (d + 1) (e :: kvs) hp hi hv.1)
          (noHtml_append (noHtml_nlIndent pfx ind hp hi d) (noHtml_cons (by decide) noHtml_nil))))
theorem noHtml_encListI : ∀ (pfx ind : Str) (d : Nat) (xs : List Val), NoHtml pfx → NoHtml ind →
    JsonShapedList xs = true → NoHtml (encListI true pfx ind d xs)
  | _, _, _, [], _, _, _ => by rw [encListI]; exact noHtml_nil
  | pfx, ind, d, [x], hp, hi, hv => by
      simp only [JsonShapedList, Bool.and_eq_true] at hv
      rw [encListI]; exact noHtml_encNI pfx ind d x hp hi hv.1
  | pfx, ind, d, x :: y :: r, hp, hi, hv => by
      simp only [JsonShapedList, Bool.and_eq_true] at hv
      rw [encListI]
      exact noHtml_append (noHtml_append (noHtml_append (noHtml_encNI pfx ind d x hp hi hv.1)
        (noHtml_cons (by decide) noHtml_nil)) (noHtml_nlIndent pfx ind hp hi d))
        (noHtml_encListI pfx ind d (y :: r) hp hi (by simp [JsonShapedList, hv.2.1, hv.2.2]))
theorem noHtml_encEntriesI : ∀ (pfx ind : Str) (d : Nat) (kvs : Entries), NoHtml pfx → NoHtml ind →
    JsonShapedEntries kvs = true → NoHtml (encEntriesI true pfx ind d kvs)
  | _, _, _, [], _, _, _ => by rw [encEntriesI]; exact noHtml_nil
  | pfx, ind, d, [(k, v)], hp, hi, hv => by
      simp only [JsonShapedEntries, Bool.and_eq_true] at hv
      rw [encEntriesI]
      exact noHtml_append (noHtml_append (noHtml_quote k)
        (noHtml_cons (by decide) (noHtml_cons (by decide) noHtml_nil)))
        (noHtml_encNI pfx ind d v hp hi hv.1)
  | pfx, ind, d, (k, v) :: e :: r, hp, hi, hv => by
      obtain ⟨k2, v2⟩ := e
      simp only [JsonShapedEntries, Bool.and_eq_true] at hv
      rw [encEntriesI]
      exact noHtml_append (noHtml_append (noHtml_append (noHtml_append (noHtml_append
        (noHtml_quote k) (noHtml_cons (by decide) (noHtml_cons (by decide) noHtml_nil)))
        (noHtml_encNI pfx ind d v hp hi hv.1)) (noHtml_cons (by decide) noHtml_nil))
        (noHtml_nlIndent pfx ind hp hi d))
        (noHtml_encEntriesI pfx ind d ((k2, v2) :: r) hp hi
          (by simp [JsonShapedEntries, hv.2.1, hv.2.2]))
end

theorem noHtml_mapJsonIndent (pfx ind : Str) (m : Val) (hp : NoHtml pfx) (hi : NoHtml ind)
    (hm : JsonShaped m = true) : NoHtml (mapJsonIndent true pfx ind m) := by
  have hn := jsonShaped_norm _ hm
  unfold mapJsonIndent
  split
  · exact noHtml_encN _ hn
  · exact noHtml_encNI pfx ind 0 _ hp hi hn

end Mxj.Json
