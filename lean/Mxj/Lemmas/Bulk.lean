/-
  Mxj.Lemmas.Bulk — facts about the bulk handler loop `handleJson` of Mxj.Model.Bulk, used by
  Mxj.Props.C13ExtBulk.

  Contents:
    * `spend_of`                   : the budget after a call that returned `true`
    * `getJson_rest_lt`            : a scanner call on a non-empty schedule consumes something
    * `getJson_lead_mapJson_sched` : separator + encoded Map, followed by ANY schedule
    * `handleJson_step_map`, `handleJson_bad`, `handleJson_trail`, `handleJson_scanErr`
                                   : one round of the loop
    * `handleJson_docs`            : a run of well-formed documents with budget for all of them
    * `handleJson_stop`            : … with budget `1 ≤ b ≤ docs.length`
    * `handleJson_eq_readMapsJson` : whenever the file loop ends without error the bulk loop with
                                     a map handler that never stops does the same
    * `handleJson_fuel`            : more fuel than `s.length` is never needed
-/
import Mxj.Model.Bulk
import Mxj.Lemmas.Files
namespace Mxj.Files
open Mxj Mxj.Stream Mxj.Json

/-! ### the budget -/

theorem spend_zero : spend 0 = some 0 := rfl
theorem spend_one : spend 1 = none := rfl

/-- a call that is not the last one: "never stops" stays, otherwise one less -/
theorem spend_of (b : Nat) (h : b = 0 ∨ 1 < b) : spend b = some (b - 1) := by
  match b, h with
  | 0, _ => rfl
  | 1, h => omega
  | b + 2, _ => rfl

/-! ### the scanner -/

/-- a scanner call on a non-empty schedule consumes at least one read -/
theorem getJson_rest_lt (s : Sched) (st : JState) (h : s ≠ []) :
    (getJson s st).2.length < s.length := by
  cases s with
  | nil => exact absurd rfl h
  | cons r s =>
    have hs := fun st' => (getJson_suffix s st').length_le
    cases r with
    | byte c e =>
      rw [getJson_byte]
      cases stepJ c st with
      | inl r => simp
      | inr st' => exact Nat.lt_succ_of_le (hs st')
    | zero => rw [getJson_zero]; exact Nat.lt_succ_of_le (hs st)
    | zeroEof => rw [getJson_zeroEof]; simp
    | fail => rw [getJson_fail]; simp

/-- separator text and an encoded Map followed by any schedule: the Map's text is returned and
    exactly that schedule is left unread -/
theorem getJson_lead_mapJson_sched (lead : Str)
    (hlead : ∀ c ∈ lead, c ≠ '{' ∧ c ≠ '}' ∧ c ≠ '"')
    (m : Entries) (hm : JsonShaped (.map m) = true) (s : Sched) :
    getJson (plain (lead ++ mapJson false (.map m)) ++ s) {}
      = (.doc (mapJson false (.map m)), s) := by
  have h := getJson_lead_mapJson lead hlead m hm []
  rw [List.append_nil, plain_nil] at h
  have := getJson_doc_append _ _ _ _ s h
  rwa [List.nil_append] at this

/-- a text whose scanner extent is the whole text, followed by any schedule -/
theorem getJson_extent_sched (bad raw : Str) (hext : getJson (plain bad) {} = (.doc raw, []))
    (s : Sched) : getJson (plain bad ++ s) {} = (.doc raw, s) := by
  have := getJson_doc_append _ _ _ _ s hext
  rwa [List.nil_append] at this

/-! ### one round of the loop -/

/-- a well-formed document: it is handed to the map handler as its normal form; the loop goes on
    behind it unless the handler says stop -/
theorem handleJson_step_map (cont : Bool) (lead : Str)
    (hlead : ∀ c ∈ lead, c ≠ '{' ∧ c ≠ '}' ∧ c ≠ '"')
    (m : Entries) (hm : JsonShaped (.map m) = true) (f b : Nat) (s : Sched) (acc : List Val)
    (e : Nat) :
    handleJson cont (f + 1) b (plain (lead ++ mapJson false (.map m)) ++ s) acc e
      = match spend b with
        | some b' => handleJson cont f b' s (Val.norm (.map m) :: acc) e
        | none => ⟨(Val.norm (.map m) :: acc).reverse, e, false⟩ := by
  rw [handleJson, getJson_lead_mapJson_sched lead hlead m hm s]
  simp only [newMapJson_mapJson false m hm, Val.norm]
  cases spend b <;> rfl

/-- a balanced text that does not decode: one error-handler call; stop or go on behind it -/
theorem handleJson_bad (cont : Bool) (bad raw : Str)
    (hext : getJson (plain bad) {} = (.doc raw, [])) (hbad : newMapJson raw = none)
    (f b : Nat) (s : Sched) (acc : List Val) (e : Nat) :
    handleJson cont (f + 1) b (plain bad ++ s) acc e
      = if cont then handleJson cont f b s acc (e + 1) else ⟨acc.reverse, e + 1, true⟩ := by
  rw [handleJson, getJson_extent_sched bad raw hext s]
  simp only [hbad]

/-- a scanner error (anything but a document and io.EOF): one error-handler call; stop or go on
    with what the scanner left unread -/
theorem handleJson_scanErr (cont : Bool) (f b : Nat) (s rest : Sched) (r : JRes)
    (h : getJson s {} = (r, rest)) (hdoc : ∀ raw, r ≠ .doc raw) (heof : ∀ raw, r ≠ .eof raw)
    (acc : List Val) (e : Nat) :
    handleJson cont (f + 1) b s acc e
      = if cont then handleJson cont f b rest acc (e + 1) else ⟨acc.reverse, e + 1, true⟩ := by
  rw [handleJson, h]
  cases r with
  | doc raw => exact absurd rfl (hdoc raw)
  | eof raw => exact absurd rfl (heof raw)
  | noClose raw => rfl
  | stray raw => rfl
  | ioerr raw => rfl

/-- only skippable characters up to the end of the stream: the loop ends without error -/
theorem handleJson_trail (cont : Bool) (trail : Str)
    (htrail : ∀ c ∈ trail, c ≠ '{' ∧ c ≠ '}' ∧ c ≠ '"') (f b : Nat) (acc : List Val) (e : Nat) :
    handleJson cont (f + 1) b (plain trail) acc e = ⟨acc.reverse, e, false⟩ := by
  rw [handleJson, getJson_trail trail htrail]

/-! ### runs of well-formed documents -/

theorem sepText_nil : sepText [] = [] := rfl
theorem sepText_cons (d : Str × Entries) (ds : List (Str × Entries)) :
    sepText (d :: ds) = d.1 ++ mapJson false (.map d.2) ++ sepText ds := rfl

theorem sepText_append (a b : List (Str × Entries)) :
    sepText (a ++ b) = sepText a ++ sepText b := by
  induction a with
  | nil => rfl
  | cons d ds ih => simp only [List.cons_append, sepText_cons, ih, List.append_assoc]

/-- a run of well-formed documents with budget for all of them (never stops, or more budget than
    documents), followed by any schedule: every Map is handed over, in order, and the loop goes
    on with that schedule and the remaining budget -/
theorem handleJson_docs (cont : Bool) (docs : List (Str × Entries)) :
    (∀ d ∈ docs, ∀ c ∈ d.1, c ≠ '{' ∧ c ≠ '}' ∧ c ≠ '"') →
    (∀ d ∈ docs, JsonShaped (.map d.2) = true) →
    ∀ (f b : Nat) (s : Sched) (acc : List Val) (e : Nat), (b = 0 ∨ docs.length < b) →
      handleJson cont (docs.length + f) b (plain (sepText docs) ++ s) acc e
        = handleJson cont f (b - docs.length) s
            ((docs.map (fun d => Val.norm (.map d.2))).reverse ++ acc) e := by
  induction docs with
  | nil => intro _ _ f b s acc e _; simp [sepText_nil, plain_nil]
  | cons d ds ih =>
    intro hlead hms f b s acc e hb
    have hd := hlead d (List.mem_cons_self ..)
    have hm := hms d (List.mem_cons_self ..)
    have hb1 : b = 0 ∨ 1 < b := by simp only [List.length_cons] at hb; omega
    have hb2 : b - 1 = 0 ∨ ds.length < b - 1 := by simp only [List.length_cons] at hb; omega
    have ih' := ih (fun x hx => hlead x (List.mem_cons_of_mem _ hx))
      (fun x hx => hms x (List.mem_cons_of_mem _ hx)) f (b - 1) s (Val.norm (.map d.2) :: acc) e hb2
    have e1 : (d :: ds).length + f = (ds.length + f) + 1 := by
      simp only [List.length_cons]; omega
    have e2 : b - (d :: ds).length = b - 1 - ds.length := by
      simp only [List.length_cons]; omega
    rw [e1, e2, sepText_cons, plain_append, List.append_assoc,
      handleJson_step_map cont d.1 hd d.2 hm, spend_of b hb1]
    simp only [ih', List.map_cons, List.reverse_cons, List.append_assoc, List.singleton_append]

/-- a run of well-formed documents with a budget `1 ≤ b ≤ docs.length`: the handler sees exactly
    the first `b` Maps, whatever follows -/
theorem handleJson_stop (cont : Bool) (docs : List (Str × Entries)) :
    (∀ d ∈ docs, ∀ c ∈ d.1, c ≠ '{' ∧ c ≠ '}' ∧ c ≠ '"') →
    (∀ d ∈ docs, JsonShaped (.map d.2) = true) →
    ∀ (f b : Nat) (s : Sched) (acc : List Val) (e : Nat), 1 ≤ b → b ≤ docs.length → b ≤ f →
      handleJson cont f b (plain (sepText docs) ++ s) acc e
        = ⟨acc.reverse ++ (docs.take b).map (fun d => Val.norm (.map d.2)), e, false⟩ := by
  induction docs with
  | nil => intro _ _ f b s acc e h1 h2 _; simp at h2; omega
  | cons d ds ih =>
    intro hlead hms f b s acc e h1 h2 hf
    have hd := hlead d (List.mem_cons_self ..)
    have hm := hms d (List.mem_cons_self ..)
    obtain ⟨f, rfl⟩ : ∃ g, f = g + 1 := ⟨f - 1, by omega⟩
    rw [sepText_cons, plain_append, List.append_assoc, handleJson_step_map cont d.1 hd d.2 hm]
    match b, h1 with
    | 1, _ => simp [spend_one]
    | b + 2, _ =>
      have ih' := ih (fun x hx => hlead x (List.mem_cons_of_mem _ hx))
        (fun x hx => hms x (List.mem_cons_of_mem _ hx)) f (b + 1) s (Val.norm (.map d.2) :: acc) e
        (by omega) (by simp only [List.length_cons] at h2; omega) (by omega)
      simp only [spend, ih', List.take_succ_cons, List.map_cons, List.reverse_cons,
        List.append_assoc, List.singleton_append]

/-! ### the bulk loop and the file loop -/

/-- whenever the file loop ends without error — on ANY schedule — the bulk loop with a map handler
    that never stops hands over exactly the Maps the file loop returns, calls the error handler
    not at all and returns no error, whatever the error handler would have answered -/
theorem handleJson_eq_readMapsJson (cont : Bool) : ∀ (f : Nat) (s : Sched) (acc : List Val)
    (e : Nat), (readMapsJson f s acc).failed = false →
    handleJson cont f 0 s acc e = ⟨(readMapsJson f s acc).maps, e, false⟩ := by
  intro f
  induction f with
  | zero => intro s acc e h; simp [readMapsJson] at h
  | succ f ih =>
    intro s acc e h
    rw [readMapsJson] at h ⊢
    rw [handleJson]
    generalize getJson s {} = x at h ⊢
    obtain ⟨r, rest⟩ := x
    cases r with
    | doc raw =>
      simp only at h ⊢
      cases hn : newMapJson raw with
      | none => simp [hn] at h
      | some v =>
        rw [hn] at h
        cases v with
        | map m => simp only [spend_zero] at h ⊢; exact ih rest _ e h
        | null => exact ih rest _ e h
        | bool b => exact ih rest _ e h
        | num t => exact ih rest _ e h
        | str t => exact ih rest _ e h
        | list xs => exact ih rest _ e h
    | eof raw => rfl
    | noClose raw => simp at h
    | stray raw => simp at h
    | ioerr raw => simp at h

/-! ### fuel -/

/-- `s.length + 1` rounds always suffice: with more fuel than reads in the schedule the result
    does not depend on the fuel (every round that does not end the loop consumes a read) -/
theorem handleJson_fuel (cont : Bool) : ∀ (f g b : Nat) (s : Sched) (acc : List Val) (e : Nat),
    s.length < f → s.length < g →
    handleJson cont f b s acc e = handleJson cont g b s acc e := by
  intro f
  induction f with
  | zero => intro g b s acc e hf _; omega
  | succ f ih =>
    intro g b s acc e hf hg
    cases g with
    | zero => omega
    | succ g =>
      cases s with
      | nil => simp [handleJson, getJson_nil, endRes]
      | cons r s =>
        have hlt := getJson_rest_lt (r :: s) {} (by simp)
        simp only [handleJson]
        generalize getJson (r :: s) {} = x at hlt
        obtain ⟨res, rest⟩ := x
        simp only [List.length_cons] at hlt hf hg
        have hr : ∀ (b : Nat) (acc : List Val) (e : Nat),
            handleJson cont f b rest acc e = handleJson cont g b rest acc e :=
          fun b acc e => ih g b rest acc e (by omega) (by omega)
        cases res <;> simp only [hr]

end Mxj.Files
