/-
  Mxj.Lemmas.Mutate — helper lemmas for C11 (SetValueForPath / Remove / RenameKey against
  the abstract get/set/erase algebra of Mxj.Model.Mutate).
-/
import Mxj.Model.Mutate
import Mxj.Lemmas.PathIdx
namespace Mxj

/-! ### association lists -/

theorem lookup_insert_self (k : Str) (v : Val) : ∀ kvs : Entries,
    lookup k (insert k v kvs) = some v := by
  intro kvs
  induction kvs with
  | nil => simp [insert, lookup]
  | cons e rest ih =>
    obtain ⟨k', v'⟩ := e
    by_cases h : k = k'
    · simp [insert, lookup, h]
    · simp [insert, lookup, h, ih]

theorem lookup_insert_ne (k k' : Str) (v : Val) (hne : k' ≠ k) : ∀ kvs : Entries,
    lookup k' (insert k v kvs) = lookup k' kvs := by
  intro kvs
  induction kvs with
  | nil => simp [insert, lookup, hne]
  | cons e rest ih =>
    obtain ⟨k₀, v₀⟩ := e
    by_cases h : k = k₀
    · subst h; simp [insert, lookup, hne]
    · by_cases h' : k' = k₀
      · simp [insert, lookup, h, h']
      · simp [insert, lookup, h, h', ih]

theorem lookup_erase_ne (k k' : Str) (hne : k' ≠ k) : ∀ kvs : Entries,
    lookup k' (erase k kvs) = lookup k' kvs := by
  intro kvs
  induction kvs with
  | nil => simp [erase, lookup]
  | cons e rest ih =>
    obtain ⟨k₀, v₀⟩ := e
    by_cases h : k = k₀
    · subst h; simp [erase, lookup, hne]
    · by_cases h' : k' = k₀
      · simp [erase, lookup, h, h']
      · simp [erase, lookup, h, h', ih]

theorem lookup_none_of_not_any (k : Str) : ∀ kvs : Entries,
    kvs.any (fun e => e.1 == k) = false → lookup k kvs = none := by
  intro kvs
  induction kvs with
  | nil => intro _; rfl
  | cons e rest ih =>
    obtain ⟨k₀, v₀⟩ := e
    intro h
    simp only [List.any_cons, Bool.or_eq_false_iff, beq_eq_false_iff_ne, ne_eq] at h
    have hk : ¬ k = k₀ := fun e => h.1 e.symm
    simp [lookup, hk, ih h.2]

theorem lookup_erase_self (k : Str) : ∀ kvs : Entries, distinctKeys kvs = true →
    lookup k (erase k kvs) = none := by
  intro kvs
  induction kvs with
  | nil => intro _; rfl
  | cons e rest ih =>
    obtain ⟨k₀, v₀⟩ := e
    intro hd
    simp only [distinctKeys, Bool.and_eq_true, Bool.not_eq_true'] at hd
    by_cases h : k = k₀
    · subst h
      simp only [erase, if_true]
      exact lookup_none_of_not_any k rest hd.1
    · simp [erase, lookup, h, ih hd.2]

theorem any_key_insert (k k' : Str) (v : Val) (hne : k ≠ k') : ∀ kvs : Entries,
    (insert k v kvs).any (fun e => e.1 == k') = kvs.any (fun e => e.1 == k') := by
  intro kvs
  induction kvs with
  | nil => simp [insert, hne]
  | cons e rest ih =>
    obtain ⟨k₀, v₀⟩ := e
    by_cases h : k = k₀
    · subst h; simp [insert]
    · simp [insert, h, ih]

theorem any_key_erase_false (k k' : Str) : ∀ kvs : Entries,
    kvs.any (fun e => e.1 == k') = false → (erase k kvs).any (fun e => e.1 == k') = false := by
  intro kvs
  induction kvs with
  | nil => intro _; rfl
  | cons e rest ih =>
    obtain ⟨k₀, v₀⟩ := e
    intro h
    simp only [List.any_cons, Bool.or_eq_false_iff] at h
    by_cases hk : k = k₀
    · simp [erase, hk, h.2]
    · simp [erase, hk, h.1, ih h.2]

theorem distinctKeys_insert (k : Str) (v : Val) : ∀ kvs : Entries,
    distinctKeys kvs = true → distinctKeys (insert k v kvs) = true := by
  intro kvs
  induction kvs with
  | nil => intro _; simp [insert, distinctKeys]
  | cons e rest ih =>
    obtain ⟨k₀, v₀⟩ := e
    intro hd
    simp only [distinctKeys, Bool.and_eq_true, Bool.not_eq_true'] at hd
    by_cases h : k = k₀
    · subst h
      simp [insert, distinctKeys, hd.1, hd.2]
    · simp only [insert, h, if_false, distinctKeys, Bool.and_eq_true, Bool.not_eq_true']
      exact ⟨by rw [any_key_insert k k₀ v h]; exact hd.1, ih hd.2⟩

theorem distinctKeys_erase (k : Str) : ∀ kvs : Entries,
    distinctKeys kvs = true → distinctKeys (erase k kvs) = true := by
  intro kvs
  induction kvs with
  | nil => intro _; rfl
  | cons e rest ih =>
    obtain ⟨k₀, v₀⟩ := e
    intro hd
    simp only [distinctKeys, Bool.and_eq_true, Bool.not_eq_true'] at hd
    by_cases h : k = k₀
    · simp [erase, h, hd.2]
    · simp only [erase, h, if_false, distinctKeys, Bool.and_eq_true, Bool.not_eq_true']
      exact ⟨any_key_erase_false k k₀ rest hd.1, ih hd.2⟩

theorem insert_insert (k : Str) (a b : Val) : ∀ kvs : Entries,
    insert k a (insert k b kvs) = insert k a kvs := by
  intro kvs
  induction kvs with
  | nil => simp [insert]
  | cons e rest ih =>
    obtain ⟨k₀, v₀⟩ := e
    by_cases h : k = k₀
    · simp [insert, h]
    · simp [insert, h, ih]

/-- `delete(m, old)` after `m[new] = v` is `m[new] = v` after `delete(m, old)` -/
theorem erase_insert_comm (old new : Str) (v : Val) (hne : old ≠ new) : ∀ kvs : Entries,
    erase old (insert new v kvs) = insert new v (erase old kvs) := by
  intro kvs
  have hne' : ¬ new = old := fun e => hne e.symm
  induction kvs with
  | nil => simp [insert, erase, hne]
  | cons e rest ih =>
    obtain ⟨k₀, v₀⟩ := e
    by_cases h : new = k₀
    · subst h
      simp [insert, erase, hne]
    · by_cases h' : old = k₀
      · subst h'
        simp [insert, erase, h]
      · simp [insert, erase, h, h', ih]

/-! ### well-formedness / no-empty-list descend along `lookup` and `getPath` -/

theorem wfEntries_lookup (k : Str) (v : Val) : ∀ kvs : Entries,
    Val.wfEntries kvs = true → lookup k kvs = some v → v.wf = true := by
  intro kvs
  induction kvs with
  | nil => intro _ h; simp [lookup] at h
  | cons e rest ih =>
    obtain ⟨k₀, v₀⟩ := e
    intro hw h
    simp only [Val.wfEntries, Bool.and_eq_true] at hw
    by_cases hk : k = k₀
    · simp [lookup, hk] at h; subst h; exact hw.1
    · simp [lookup, hk] at h; exact ih hw.2 h

theorem wf_lookup (kvs : Entries) (k : Str) (v : Val) (hw : (Val.map kvs).wf = true)
    (h : lookup k kvs = some v) : v.wf = true := by
  simp only [Val.wf, Bool.and_eq_true] at hw
  exact wfEntries_lookup k v kvs hw.1 h

theorem wf_distinct (kvs : Entries) (hw : (Val.map kvs).wf = true) : distinctKeys kvs = true := by
  simp only [Val.wf, Bool.and_eq_true] at hw
  exact hw.2

theorem noEmptyListE_lookup (k : Str) (v : Val) : ∀ kvs : Entries,
    noEmptyListE kvs = true → lookup k kvs = some v → noEmptyList v = true := by
  intro kvs
  induction kvs with
  | nil => intro _ h; simp [lookup] at h
  | cons e rest ih =>
    obtain ⟨k₀, v₀⟩ := e
    intro hw h
    simp only [noEmptyListE, Bool.and_eq_true] at hw
    by_cases hk : k = k₀
    · simp [lookup, hk] at h; subst h; exact hw.1
    · simp [lookup, hk] at h; exact ih hw.2 h

theorem noEmptyList_getPath : ∀ (ks : List Str) (m v : Val),
    noEmptyList m = true → getPath m ks = some v → noEmptyList v = true := by
  intro ks
  induction ks with
  | nil => intro m v hm h; simp [getPath] at h; subst h; exact hm
  | cons k ks ih =>
    intro m v hm h
    cases m with
    | map kvs =>
      simp only [getPath] at h
      cases hl : lookup k kvs with
      | none => simp [hl] at h
      | some c =>
        simp only [hl] at h
        simp only [noEmptyList] at hm
        exact ih c v (noEmptyListE_lookup k c kvs hm hl) h
    | _ => simp [getPath] at h

theorem wf_getPath : ∀ (ks : List Str) (m v : Val),
    m.wf = true → getPath m ks = some v → v.wf = true := by
  intro ks
  induction ks with
  | nil => intro m v hm h; simp [getPath] at h; subst h; exact hm
  | cons k ks ih =>
    intro m v hm h
    cases m with
    | map kvs =>
      simp only [getPath] at h
      cases hl : lookup k kvs with
      | none => simp [hl] at h
      | some c =>
        simp only [hl] at h
        exact ih c v (wf_lookup kvs k c hm hl) h
    | _ => simp [getPath] at h

/-- the leaf loader yields something for every value except the empty list -/
theorem loadLeaf_none_ne_nil (v : Val) (h : noEmptyList v = true) : loadLeaf none v ≠ [] := by
  cases v with
  | list xs =>
    cases xs with
    | nil => simp [noEmptyList] at h
    | cons x xs =>
      have : passSubs none x = true := rfl
      simp [loadLeaf, this]
  | map kvs => simp [loadLeaf, passSubs]
  | _ => simp [loadLeaf]

theorem loadLeaf_none_notList (v : Val) (h : v.isList = false) : loadLeaf none v = [v] := by
  cases v with
  | list xs => simp [Val.isList] at h
  | map kvs => simp [loadLeaf, passSubs]
  | _ => simp [loadLeaf]

/-! ### the abstract algebra: unfolding equations -/

theorem getPath_nil (m : Val) : getPath m [] = some m := by
  cases m <;> rfl

theorem getPath_map_cons (kvs : Entries) (k : Str) (ks : List Str) :
    getPath (.map kvs) (k :: ks) = (lookup k kvs).bind (fun v => getPath v ks) := by
  simp only [getPath]; cases lookup k kvs <;> rfl

theorem getPath_notMap_cons (m : Val) (k : Str) (ks : List Str) (h : m.isMap = false) :
    getPath m (k :: ks) = none := by
  cases m <;> first | rfl | simp [Val.isMap] at h

theorem getPath_append : ∀ (ks r : List Str) (m : Val),
    getPath m (ks ++ r) = (getPath m ks).bind (fun v => getPath v r) := by
  intro ks
  induction ks with
  | nil => intro r m; simp [getPath_nil]
  | cons k ks ih =>
    intro r m
    cases m with
    | map kvs =>
      simp only [List.cons_append, getPath_map_cons]
      cases lookup k kvs with
      | none => rfl
      | some c => simp [ih]
    | _ => simp [getPath]

theorem setPath_notMap (nv m : Val) (ks : List Str) (h : m.isMap = false) : setPath nv m ks = m := by
  cases m <;> first | (simp [Val.isMap] at h; done) | (unfold setPath; rfl)

theorem setPath_nil (nv m : Val) : setPath nv m [] = m := by
  cases m <;> (unfold setPath; rfl)

theorem setPath_cons_ne (nv : Val) (kvs : Entries) (k : Str) (ks : List Str) (h : ks ≠ []) :
    setPath nv (.map kvs) (k :: ks) = match lookup k kvs with
      | some v => .map (insert k (setPath nv v ks) kvs)
      | none => .map kvs := by
  cases ks with
  | nil => exact absurd rfl h
  | cons k' ks' => simp only [setPath]; cases lookup k kvs <;> rfl

theorem erasePath_notMap (m : Val) (ks : List Str) (h : m.isMap = false) : erasePath m ks = m := by
  cases m <;> first | (simp [Val.isMap] at h; done) | (unfold erasePath; rfl)

theorem erasePath_nil (m : Val) : erasePath m [] = m := by
  cases m <;> (unfold erasePath; rfl)

theorem erasePath_cons_ne (kvs : Entries) (k : Str) (ks : List Str) (h : ks ≠ []) :
    erasePath (.map kvs) (k :: ks) = match lookup k kvs with
      | some v => .map (insert k (erasePath v ks) kvs)
      | none => .map kvs := by
  cases ks with
  | nil => exact absurd rfl h
  | cons k' ks' => simp only [erasePath]; cases lookup k kvs <;> rfl

/-- `erasePath`/`setPath` never change which kind of value sits at the root -/
theorem erasePath_isList (m : Val) (ks : List Str) : (erasePath m ks).isList = m.isList := by
  cases m with
  | map kvs =>
    cases ks with
    | nil => rfl
    | cons k ks =>
      cases ks with
      | nil => rfl
      | cons k' ks' => simp only [erasePath]; cases lookup k kvs <;> rfl
  | _ => rw [erasePath_notMap _ _ rfl]

theorem setPath_isList (nv m : Val) (ks : List Str) : (setPath nv m ks).isList = m.isList := by
  cases m with
  | map kvs =>
    cases ks with
    | nil => rfl
    | cons k ks =>
      cases ks with
      | nil => rfl
      | cons k' ks' => simp only [setPath]; cases lookup k kvs <;> rfl
  | _ => rw [setPath_notMap _ _ _ rfl]

/-! ### "no list on the way" -/

/-- following `ks` from `m` through maps, no *proper* prefix of `ks` resolves to a list
    (a list met before the end is where `walk`/`walkLoc` leave the pure-map world). -/
def noListBefore (m : Val) (ks : List Str) : Prop :=
  ∀ pre xs, pre <+: ks → pre ≠ ks → getPath m pre ≠ some (.list xs)

theorem noListBefore_nil (m : Val) : noListBefore m [] := by
  intro pre xs hp hne
  exact absurd (List.prefix_nil.1 hp) hne

theorem noListBefore_map_cons (kvs : Entries) (k : Str) (ks : List Str) :
    noListBefore (.map kvs) (k :: ks) ↔ ∀ c, lookup k kvs = some c → noListBefore c ks := by
  constructor
  · intro h c hl pre xs hp hne hg
    refine h (k :: pre) xs (List.cons_prefix_cons.2 ⟨rfl, hp⟩) (by simpa using hne) ?_
    simp [getPath_map_cons, hl, hg]
  · intro h pre xs hp hne hg
    cases pre with
    | nil => simp [getPath_nil] at hg
    | cons k2 pre' =>
      obtain ⟨hk, hp'⟩ := List.cons_prefix_cons.1 hp
      subst hk
      rw [getPath_map_cons] at hg
      cases hl : lookup k2 kvs with
      | none => simp [hl] at hg
      | some c =>
        simp only [hl, Option.bind_some] at hg
        exact h c hl pre' xs hp' (by simpa using hne) hg

theorem noListBefore_list_cons (xs : List Val) (k : Str) (ks : List Str) :
    ¬ noListBefore (.list xs) (k :: ks) := fun h =>
  h [] xs List.nil_prefix (by simp) rfl

theorem noListBefore_of_getPath_some : ∀ (ks : List Str) (m v : Val),
    getPath m ks = some v → noListBefore m ks := by
  intro ks
  induction ks with
  | nil => intro m v _; exact noListBefore_nil m
  | cons k ks ih =>
    intro m v h
    cases m with
    | map kvs =>
      rw [noListBefore_map_cons]
      intro c hl
      rw [getPath_map_cons, hl] at h
      exact ih c v h
    | _ => simp [getPath] at h

theorem noListBefore_prefix (m : Val) (ks r : List Str) (h : noListBefore m (ks ++ r)) :
    noListBefore m ks := by
  intro pre xs hp hne hg
  refine h pre xs (List.IsPrefix.trans hp (List.prefix_append ks r)) ?_ hg
  intro e
  have hlen := List.IsPrefix.length_le hp
  rw [e, List.length_append] at hlen
  have h2 : r = [] := List.eq_nil_of_length_eq_zero (by omega)
  subst h2
  exact hne (by simpa using e)

/-! ### get / set / erase algebra -/

theorem getPath_setPath_ext (nv : Val) : ∀ (segs : List Str) (m pm : Val) (r : List Str),
    segs ≠ [] → getPath m segs.dropLast = some pm → pm.isMap = true →
    getPath (setPath nv m segs) (segs ++ r) = getPath nv r := by
  intro segs
  induction segs with
  | nil => intro m pm r h; exact absurd rfl h
  | cons k ks ih =>
    intro m pm r _ hp hpm
    cases ks with
    | nil =>
      simp only [List.dropLast_singleton, getPath_nil, Option.some.injEq] at hp
      subst hp
      cases m with
      | map kvs =>
        simp [setPath, getPath_map_cons, lookup_insert_self]
      | _ => simp [Val.isMap] at hpm
    | cons k' ks' =>
      rw [List.dropLast_cons_cons] at hp
      cases m with
      | map kvs =>
        rw [getPath_map_cons] at hp
        cases hl : lookup k kvs with
        | none => simp [hl] at hp
        | some c =>
          simp only [hl, Option.bind_some] at hp
          rw [setPath_cons_ne nv kvs k (k' :: ks') (by simp)]
          simp only [hl, List.cons_append]
          rw [getPath_map_cons, lookup_insert_self]
          exact ih c pm r (by simp) hp hpm
      | _ => simp [getPath] at hp

theorem getPath_setPath_frame (nv : Val) : ∀ (segs q : List Str) (m : Val),
    ¬ segs <+: q → ¬ q <+: segs → getPath (setPath nv m segs) q = getPath m q := by
  intro segs
  induction segs with
  | nil => intro q m h; exact absurd List.nil_prefix h
  | cons k ks ih =>
    intro q m h1 h2
    cases q with
    | nil => exact absurd List.nil_prefix h2
    | cons k2 qs =>
      cases m with
      | map kvs =>
        by_cases hk : k2 = k
        · subst hk
          have h1' : ¬ ks <+: qs := fun h => h1 (List.cons_prefix_cons.2 ⟨rfl, h⟩)
          have h2' : ¬ qs <+: ks := fun h => h2 (List.cons_prefix_cons.2 ⟨rfl, h⟩)
          have hne : ks ≠ [] := fun e => h1' (e ▸ List.nil_prefix)
          rw [setPath_cons_ne nv kvs k2 ks hne]
          cases hl : lookup k2 kvs with
          | none => rfl
          | some c =>
            simp only [getPath_map_cons, lookup_insert_self, hl, Option.bind_some]
            exact ih qs c h1' h2'
        · cases ks with
          | nil =>
            simp only [setPath, getPath_map_cons, lookup_insert_ne k k2 nv hk]
          | cons k' ks' =>
            rw [setPath_cons_ne nv kvs k (k' :: ks') (by simp)]
            cases hl : lookup k kvs with
            | none => rfl
            | some c => simp only [getPath_map_cons, lookup_insert_ne k k2 _ hk]
      | _ => rw [setPath_notMap _ _ _ rfl]

theorem getPath_setPath_prefix (nv : Val) : ∀ (q r : List Str) (m : Val), r ≠ [] →
    getPath (setPath nv m (q ++ r)) q = (getPath m q).map (fun sub => setPath nv sub r) := by
  intro q
  induction q with
  | nil => intro r m _; simp [getPath_nil]
  | cons k q ih =>
    intro r m hr
    cases m with
    | map kvs =>
      rw [List.cons_append, setPath_cons_ne nv kvs k (q ++ r) (by simp [hr])]
      cases hl : lookup k kvs with
      | none => simp [getPath_map_cons, hl]
      | some c =>
        simp only [getPath_map_cons, lookup_insert_self, hl, Option.bind_some]
        exact ih r c hr
    | _ => rw [setPath_notMap _ _ _ rfl, getPath_notMap_cons _ _ _ rfl]; rfl

theorem getPath_erasePath_ext : ∀ (segs : List Str) (m : Val) (r : List Str),
    segs ≠ [] → m.wf = true → getPath (erasePath m segs) (segs ++ r) = none := by
  intro segs
  induction segs with
  | nil => intro m r h; exact absurd rfl h
  | cons k ks ih =>
    intro m r _ hw
    cases m with
    | map kvs =>
      cases ks with
      | nil =>
        simp [erasePath, getPath_map_cons, lookup_erase_self k kvs (wf_distinct kvs hw)]
      | cons k' ks' =>
        rw [erasePath_cons_ne kvs k (k' :: ks') (by simp)]
        cases hl : lookup k kvs with
        | none => simp [getPath_map_cons, hl]
        | some c =>
          simp only [List.cons_append, getPath_map_cons, lookup_insert_self, Option.bind_some]
          exact ih c r (by simp) (wf_lookup kvs k c hw hl)
    | _ => rw [erasePath_notMap _ _ rfl]; exact getPath_notMap_cons _ _ _ rfl

theorem getPath_erasePath_frame : ∀ (segs q : List Str) (m : Val),
    ¬ segs <+: q → ¬ q <+: segs → getPath (erasePath m segs) q = getPath m q := by
  intro segs
  induction segs with
  | nil => intro q m h; exact absurd List.nil_prefix h
  | cons k ks ih =>
    intro q m h1 h2
    cases q with
    | nil => exact absurd List.nil_prefix h2
    | cons k2 qs =>
      cases m with
      | map kvs =>
        by_cases hk : k2 = k
        · subst hk
          have h1' : ¬ ks <+: qs := fun h => h1 (List.cons_prefix_cons.2 ⟨rfl, h⟩)
          have h2' : ¬ qs <+: ks := fun h => h2 (List.cons_prefix_cons.2 ⟨rfl, h⟩)
          have hne : ks ≠ [] := fun e => h1' (e ▸ List.nil_prefix)
          rw [erasePath_cons_ne kvs k2 ks hne]
          cases hl : lookup k2 kvs with
          | none => rfl
          | some c =>
            simp only [getPath_map_cons, lookup_insert_self, hl, Option.bind_some]
            exact ih qs c h1' h2'
        · cases ks with
          | nil =>
            simp only [erasePath, getPath_map_cons, lookup_erase_ne k k2 hk]
          | cons k' ks' =>
            rw [erasePath_cons_ne kvs k (k' :: ks') (by simp)]
            cases hl : lookup k kvs with
            | none => rfl
            | some c => simp only [getPath_map_cons, lookup_insert_ne k k2 _ hk]
      | _ => rw [erasePath_notMap _ _ rfl]

theorem getPath_erasePath_prefix : ∀ (q r : List Str) (m : Val), r ≠ [] →
    getPath (erasePath m (q ++ r)) q = (getPath m q).map (fun sub => erasePath sub r) := by
  intro q
  induction q with
  | nil => intro r m _; simp [getPath_nil]
  | cons k q ih =>
    intro r m hr
    cases m with
    | map kvs =>
      rw [List.cons_append, erasePath_cons_ne kvs k (q ++ r) (by simp [hr])]
      cases hl : lookup k kvs with
      | none => simp [getPath_map_cons, hl]
      | some c =>
        simp only [getPath_map_cons, lookup_insert_self, hl, Option.bind_some]
        exact ih r c hr
    | _ => rw [erasePath_notMap _ _ rfl, getPath_notMap_cons _ _ _ rfl]; rfl

end Mxj
