/-
  Mxj.Lemmas.Mutate — helper lemmas for C11 (SetValueForPath / Remove / RenameKey against
  the abstract get/set/erase algebra of Mxj.Model.Mutate).
-/
import Mxj.Model.Mutate
import Mxj.Lemmas.PathIdx
namespace Mxj

/-! ### association lists -/

theorem lookup_insert_self (k : Str) (v : Val) : ∀ kvs : Entries,
    lookup k (insert k v kvs) = some v := by
  intro kvs
  induction kvs with
  | nil => simp [insert, lookup]
  | cons e rest ih =>
    obtain ⟨k', v'⟩ := e
    by_cases h : k = k'
    · simp [insert, lookup, h]
    · simp [insert, lookup, h, ih]

theorem lookup_insert_ne (k k' : Str) (v : Val) (hne : k' ≠ k) : ∀ kvs : Entries,
    lookup k' (insert k v kvs) = lookup k' kvs := by
  intro kvs
  induction kvs with
  | nil => simp [insert, lookup, hne]
  | cons e rest ih =>
    obtain ⟨k₀, v₀⟩ := e
    by_cases h : k = k₀
    · subst h; simp [insert, lookup, hne]
    · by_cases h' : k' = k₀
      · simp [insert, lookup, h, h']
      · simp [insert, lookup, h, h', ih]

theorem lookup_erase_ne (k k' : Str) (hne : k' ≠ k) : ∀ kvs : Entries,
    lookup k' (erase k kvs) = lookup k' kvs := by
  intro kvs
  induction kvs with
  | nil => simp [erase, lookup]
  | cons e rest ih =>
    obtain ⟨k₀, v₀⟩ := e
    by_cases h : k = k₀
    · subst h; simp [erase, lookup, hne]
    · by_cases h' : k' = k₀
      · simp [erase, lookup, h, h']
      · simp [erase, lookup, h, h', ih]

theorem lookup_none_of_not_any (k : Str) : ∀ kvs : Entries,
    kvs.any (fun e => e.1 == k) = false → lookup k kvs = none := by
  intro kvs
  induction kvs with
  | nil => intro _; rfl
  | cons e rest ih =>
    obtain ⟨k₀, v₀⟩ := e
    intro h
    simp only [List.any_cons, Bool.or_eq_false_iff, beq_eq_false_iff_ne, ne_eq] at h
    have hk : ¬ k = k₀ := fun e => h.1 e.symm
    simp [lookup, hk, ih h.2]

theorem lookup_erase_self (k : Str) : ∀ kvs : Entries, distinctKeys kvs = true →
    lookup k (erase k kvs) = none := by
  intro kvs
  induction kvs with
  | nil => intro _; rfl
  | cons e rest ih =>
    obtain ⟨k₀, v₀⟩ := e
    intro hd
    simp only [distinctKeys, Bool.and_eq_true, Bool.not_eq_true'] at hd
    by_cases h : k = k₀
    · subst h
      simp only [erase, if_true]
      exact lookup_none_of_not_any k rest hd.1
    · simp [erase, lookup, h, ih hd.2]

theorem any_key_insert (k k' : Str) (v : Val) (hne : k ≠ k') : ∀ kvs : Entries,
    (insert k v kvs).any (fun e => e.1 == k') = kvs.any (fun e => e.1 == k') := by
  intro kvs
  induction kvs with
  | nil => simp [insert, hne]
  | cons e rest ih =>
    obtain ⟨k₀, v₀⟩ := e
    by_cases h : k = k₀
    · subst h; simp [insert]
    · simp [insert, h, ih]

theorem any_key_erase_false (k k' : Str) : ∀ kvs : Entries,
    kvs.any (fun e => e.1 == k') = false → (erase k kvs).any (fun e => e.1 == k') = false := by
  intro kvs
  induction kvs with
  | nil => intro _; rfl
  | cons e rest ih =>
    obtain ⟨k₀, v₀⟩ := e
    intro h
    simp only [List.any_cons, Bool.or_eq_false_iff] at h
    by_cases hk : k = k₀
    · simp [erase, hk, h.2]
    · simp [erase, hk, h.1, ih h.2]

theorem distinctKeys_insert (k : Str) (v : Val) : ∀ kvs : Entries,
    distinctKeys kvs = true → distinctKeys (insert k v kvs) = true := by
  intro kvs
  induction kvs with
  | nil => intro _; simp [insert, distinctKeys]
  | cons e rest ih =>
    obtain ⟨k₀, v₀⟩ := e
    intro hd
    simp only [distinctKeys, Bool.and_eq_true, Bool.not_eq_true'] at hd
    by_cases h : k = k₀
    · subst h
      simp [insert, distinctKeys, hd.1, hd.2]
    · simp only [insert, h, if_false, distinctKeys, Bool.and_eq_true, Bool.not_eq_true']
      exact ⟨by rw [any_key_insert k k₀ v h]; exact hd.1, ih hd.2⟩

theorem distinctKeys_erase (k : Str) : ∀ kvs : Entries,
    distinctKeys kvs = true → distinctKeys (erase k kvs) = true := by
  intro kvs
  induction kvs with
  | nil => intro _; rfl
  | cons e rest ih =>
    obtain ⟨k₀, v₀⟩ := e
    intro hd
    simp only [distinctKeys, Bool.and_eq_true, Bool.not_eq_true'] at hd
    by_cases h : k = k₀
    · simp [erase, h, hd.2]
    · simp only [erase, h, if_false, distinctKeys, Bool.and_eq_true, Bool.not_eq_true']
      exact ⟨any_key_erase_false k k₀ rest hd.1, ih hd.2⟩

theorem insert_insert (k : Str) (a b : Val) : ∀ kvs : Entries,
    insert k a (insert k b kvs) = insert k a kvs := by
  intro kvs
  induction kvs with
  | nil => simp [insert]
  | cons e rest ih =>
    obtain ⟨k₀, v₀⟩ := e
    by_cases h : k = k₀
    · simp [insert, h]
    · simp [insert, h, ih]

/-- `delete(m, old)` after `m[new] = v` is `m[new] = v` after `delete(m, old)` -/
theorem erase_insert_comm (old new : Str) (v : Val) (hne : old ≠ new) : ∀ kvs : Entries,
    erase old (insert new v kvs) = insert new v (erase old kvs) := by
  intro kvs
  have hne' : ¬ new = old := fun e => hne e.symm
  induction kvs with
  | nil => simp [insert, erase, hne]
  | cons e rest ih =>
    obtain ⟨k₀, v₀⟩ := e
    by_cases h : new = k₀
    · subst h
      simp [insert, erase, hne]
    · by_cases h' : old = k₀
      · subst h'
        simp [insert, erase, h]
      · simp [insert, erase, h, h', ih]

end Mxj
