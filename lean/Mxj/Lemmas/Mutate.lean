/-
  Mxj.Lemmas.Mutate — helper lemmas for C11 (SetValueForPath / Remove / RenameKey against
  the abstract get/set/erase algebra of Mxj.Model.Mutate).
-/
import Mxj.Model.Mutate
import Mxj.Model.KeySpec
import Mxj.Lemmas.PathIdx
namespace Mxj

/-! ### association lists -/

theorem lookup_insert_self (k : Str) (v : Val) : ∀ kvs : Entries,
    lookup k (insert k v kvs) = some v := by
  intro kvs
  induction kvs with
  | nil => simp [insert, lookup]
  | cons e rest ih =>
    obtain ⟨k', v'⟩ := e
    by_cases h : k = k'
    · simp [insert, lookup, h]
    · simp [insert, lookup, h, ih]

theorem lookup_insert_ne (k k' : Str) (v : Val) (hne : k' ≠ k) : ∀ kvs : Entries,
    lookup k' (insert k v kvs) = lookup k' kvs := by
  intro kvs
  induction kvs with
  | nil => simp [insert, lookup, hne]
  | cons e rest ih =>
    obtain ⟨k₀, v₀⟩ := e
    by_cases h : k = k₀
    · subst h; simp [insert, lookup, hne]
    · by_cases h' : k' = k₀
      · simp [insert, lookup, h, h']
      · simp [insert, lookup, h, h', ih]

theorem lookup_erase_ne (k k' : Str) (hne : k' ≠ k) : ∀ kvs : Entries,
    lookup k' (erase k kvs) = lookup k' kvs := by
  intro kvs
  induction kvs with
  | nil => simp [erase, lookup]
  | cons e rest ih =>
    obtain ⟨k₀, v₀⟩ := e
    by_cases h : k = k₀
    · subst h; simp [erase, lookup, hne]
    · by_cases h' : k' = k₀
      · simp [erase, lookup, h, h']
      · simp [erase, lookup, h, h', ih]

theorem lookup_none_of_not_any (k : Str) : ∀ kvs : Entries,
    kvs.any (fun e => e.1 == k) = false → lookup k kvs = none := by
  intro kvs
  induction kvs with
  | nil => intro _; rfl
  | cons e rest ih =>
    obtain ⟨k₀, v₀⟩ := e
    intro h
    simp only [List.any_cons, Bool.or_eq_false_iff, beq_eq_false_iff_ne, ne_eq] at h
    have hk : ¬ k = k₀ := fun e => h.1 e.symm
    simp [lookup, hk, ih h.2]

theorem lookup_erase_self (k : Str) : ∀ kvs : Entries, distinctKeys kvs = true →
    lookup k (erase k kvs) = none := by
  intro kvs
  induction kvs with
  | nil => intro _; rfl
  | cons e rest ih =>
    obtain ⟨k₀, v₀⟩ := e
    intro hd
    simp only [distinctKeys, Bool.and_eq_true, Bool.not_eq_true'] at hd
    by_cases h : k = k₀
    · subst h
      simp only [erase, if_true]
      exact lookup_none_of_not_any k rest hd.1
    · simp [erase, lookup, h, ih hd.2]

theorem any_key_insert (k k' : Str) (v : Val) (hne : k ≠ k') : ∀ kvs : Entries,
    (insert k v kvs).any (fun e => e.1 == k') = kvs.any (fun e => e.1 == k') := by
  intro kvs
  induction kvs with
  | nil => simp [insert, hne]
  | cons e rest ih =>
    obtain ⟨k₀, v₀⟩ := e
    by_cases h : k = k₀
    · subst h; simp [insert]
    · simp [insert, h, ih]

theorem any_key_erase_false (k k' : Str) : ∀ kvs : Entries,
    kvs.any (fun e => e.1 == k') = false → (erase k kvs).any (fun e => e.1 == k') = false := by
  intro kvs
  induction kvs with
  | nil => intro _; rfl
  | cons e rest ih =>
    obtain ⟨k₀, v₀⟩ := e
    intro h
    simp only [List.any_cons, Bool.or_eq_false_iff] at h
    by_cases hk : k = k₀
    · simp [erase, hk, h.2]
    · simp [erase, hk, h.1, ih h.2]

theorem distinctKeys_insert (k : Str) (v : Val) : ∀ kvs : Entries,
    distinctKeys kvs = true → distinctKeys (insert k v kvs) = true := by
  intro kvs
  induction kvs with
  | nil => intro _; simp [insert, distinctKeys]
  | cons e rest ih =>
    obtain ⟨k₀, v₀⟩ := e
    intro hd
    simp only [distinctKeys, Bool.and_eq_true, Bool.not_eq_true'] at hd
    by_cases h : k = k₀
    · subst h
      simp [insert, distinctKeys, hd.1, hd.2]
    · simp only [insert, h, if_false, distinctKeys, Bool.and_eq_true, Bool.not_eq_true']
      exact ⟨by rw [any_key_insert k k₀ v h]; exact hd.1, ih hd.2⟩

theorem distinctKeys_erase (k : Str) : ∀ kvs : Entries,
    distinctKeys kvs = true → distinctKeys (erase k kvs) = true := by
  intro kvs
  induction kvs with
  | nil => intro _; rfl
  | cons e rest ih =>
    obtain ⟨k₀, v₀⟩ := e
    intro hd
    simp only [distinctKeys, Bool.and_eq_true, Bool.not_eq_true'] at hd
    by_cases h : k = k₀
    · simp [erase, h, hd.2]
    · simp only [erase, h, if_false, distinctKeys, Bool.and_eq_true, Bool.not_eq_true']
      exact ⟨any_key_erase_false k k₀ rest hd.1, ih hd.2⟩

theorem insert_insert (k : Str) (a b : Val) : ∀ kvs : Entries,
    insert k a (insert k b kvs) = insert k a kvs := by
  intro kvs
  induction kvs with
  | nil => simp [insert]
  | cons e rest ih =>
    obtain ⟨k₀, v₀⟩ := e
    by_cases h : k = k₀
    · simp [insert, h]
    · simp [insert, h, ih]

/-- `delete(m, old)` after `m[new] = v` is `m[new] = v` after `delete(m, old)` -/
theorem erase_insert_comm (old new : Str) (v : Val) (hne : old ≠ new) : ∀ kvs : Entries,
    erase old (insert new v kvs) = insert new v (erase old kvs) := by
  intro kvs
  have hne' : ¬ new = old := fun e => hne e.symm
  induction kvs with
  | nil => simp [insert, erase, hne]
  | cons e rest ih =>
    obtain ⟨k₀, v₀⟩ := e
    by_cases h : new = k₀
    · subst h
      simp [insert, erase, hne]
    · by_cases h' : old = k₀
      · subst h'
        simp [insert, erase, h]
      · simp [insert, erase, h, h', ih]

/-! ### well-formedness / no-empty-list descend along `lookup` and `getPath` -/

theorem wfEntries_lookup (k : Str) (v : Val) : ∀ kvs : Entries,
    Val.wfEntries kvs = true → lookup k kvs = some v → v.wf = true := by
  intro kvs
  induction kvs with
  | nil => intro _ h; simp [lookup] at h
  | cons e rest ih =>
    obtain ⟨k₀, v₀⟩ := e
    intro hw h
    simp only [Val.wfEntries, Bool.and_eq_true] at hw
    by_cases hk : k = k₀
    · simp [lookup, hk] at h; subst h; exact hw.1
    · simp [lookup, hk] at h; exact ih hw.2 h

theorem wf_lookup (kvs : Entries) (k : Str) (v : Val) (hw : (Val.map kvs).wf = true)
    (h : lookup k kvs = some v) : v.wf = true := by
  simp only [Val.wf, Bool.and_eq_true] at hw
  exact wfEntries_lookup k v kvs hw.1 h

theorem wf_distinct (kvs : Entries) (hw : (Val.map kvs).wf = true) : distinctKeys kvs = true := by
  simp only [Val.wf, Bool.and_eq_true] at hw
  exact hw.2

theorem noEmptyListE_lookup (k : Str) (v : Val) : ∀ kvs : Entries,
    noEmptyListE kvs = true → lookup k kvs = some v → noEmptyList v = true := by
  intro kvs
  induction kvs with
  | nil => intro _ h; simp [lookup] at h
  | cons e rest ih =>
    obtain ⟨k₀, v₀⟩ := e
    intro hw h
    simp only [noEmptyListE, Bool.and_eq_true] at hw
    by_cases hk : k = k₀
    · simp [lookup, hk] at h; subst h; exact hw.1
    · simp [lookup, hk] at h; exact ih hw.2 h

theorem noEmptyList_getPath : ∀ (ks : List Str) (m v : Val),
    noEmptyList m = true → getPath m ks = some v → noEmptyList v = true := by
  intro ks
  induction ks with
  | nil => intro m v hm h; simp [getPath] at h; subst h; exact hm
  | cons k ks ih =>
    intro m v hm h
    cases m with
    | map kvs =>
      simp only [getPath] at h
      cases hl : lookup k kvs with
      | none => simp [hl] at h
      | some c =>
        simp only [hl] at h
        simp only [noEmptyList] at hm
        exact ih c v (noEmptyListE_lookup k c kvs hm hl) h
    | _ => simp [getPath] at h

theorem wf_getPath : ∀ (ks : List Str) (m v : Val),
    m.wf = true → getPath m ks = some v → v.wf = true := by
  intro ks
  induction ks with
  | nil => intro m v hm h; simp [getPath] at h; subst h; exact hm
  | cons k ks ih =>
    intro m v hm h
    cases m with
    | map kvs =>
      simp only [getPath] at h
      cases hl : lookup k kvs with
      | none => simp [hl] at h
      | some c =>
        simp only [hl] at h
        exact ih c v (wf_lookup kvs k c hm hl) h
    | _ => simp [getPath] at h

/-- the leaf loader yields something for every value except the empty list -/
theorem loadLeaf_none_ne_nil (v : Val) (h : noEmptyList v = true) : loadLeaf none v ≠ [] := by
  cases v with
  | list xs =>
    cases xs with
    | nil => simp [noEmptyList] at h
    | cons x xs =>
      have : passSubs none x = true := rfl
      simp [loadLeaf, this]
  | map kvs => simp [loadLeaf, passSubs]
  | _ => simp [loadLeaf]

theorem loadLeaf_none_notList (v : Val) (h : v.isList = false) : loadLeaf none v = [v] := by
  cases v with
  | list xs => simp [Val.isList] at h
  | map kvs => simp [loadLeaf, passSubs]
  | _ => simp [loadLeaf]

/-! ### the abstract algebra: unfolding equations -/

theorem getPath_nil (m : Val) : getPath m [] = some m := by
  cases m <;> rfl

theorem getPath_map_cons (kvs : Entries) (k : Str) (ks : List Str) :
    getPath (.map kvs) (k :: ks) = (lookup k kvs).bind (fun v => getPath v ks) := by
  simp only [getPath]; cases lookup k kvs <;> rfl

theorem getPath_notMap_cons (m : Val) (k : Str) (ks : List Str) (h : m.isMap = false) :
    getPath m (k :: ks) = none := by
  cases m <;> first | rfl | simp [Val.isMap] at h

theorem getPath_append : ∀ (ks r : List Str) (m : Val),
    getPath m (ks ++ r) = (getPath m ks).bind (fun v => getPath v r) := by
  intro ks
  induction ks with
  | nil => intro r m; simp [getPath_nil]
  | cons k ks ih =>
    intro r m
    cases m with
    | map kvs =>
      simp only [List.cons_append, getPath_map_cons]
      cases lookup k kvs with
      | none => rfl
      | some c => simp [ih]
    | _ => simp [getPath]

theorem setPath_notMap (nv m : Val) (ks : List Str) (h : m.isMap = false) : setPath nv m ks = m := by
  cases m <;> first | (simp [Val.isMap] at h; done) | (unfold setPath; rfl)

theorem setPath_nil (nv m : Val) : setPath nv m [] = m := by
  cases m <;> (unfold setPath; rfl)

theorem setPath_cons_ne (nv : Val) (kvs : Entries) (k : Str) (ks : List Str) (h : ks ≠ []) :
    setPath nv (.map kvs) (k :: ks) = match lookup k kvs with
      | some v => .map (insert k (setPath nv v ks) kvs)
      | none => .map kvs := by
  cases ks with
  | nil => exact absurd rfl h
  | cons k' ks' => simp only [setPath]; cases lookup k kvs <;> rfl

theorem erasePath_notMap (m : Val) (ks : List Str) (h : m.isMap = false) : erasePath m ks = m := by
  cases m <;> first | (simp [Val.isMap] at h; done) | (unfold erasePath; rfl)

theorem erasePath_nil (m : Val) : erasePath m [] = m := by
  cases m <;> (unfold erasePath; rfl)

theorem erasePath_cons_ne (kvs : Entries) (k : Str) (ks : List Str) (h : ks ≠ []) :
    erasePath (.map kvs) (k :: ks) = match lookup k kvs with
      | some v => .map (insert k (erasePath v ks) kvs)
      | none => .map kvs := by
  cases ks with
  | nil => exact absurd rfl h
  | cons k' ks' => simp only [erasePath]; cases lookup k kvs <;> rfl

/-- `erasePath`/`setPath` never change which kind of value sits at the root -/
theorem erasePath_isList (m : Val) (ks : List Str) : (erasePath m ks).isList = m.isList := by
  cases m with
  | map kvs =>
    cases ks with
    | nil => rfl
    | cons k ks =>
      cases ks with
      | nil => rfl
      | cons k' ks' => simp only [erasePath]; cases lookup k kvs <;> rfl
  | _ => rw [erasePath_notMap _ _ rfl]

theorem setPath_isList (nv m : Val) (ks : List Str) : (setPath nv m ks).isList = m.isList := by
  cases m with
  | map kvs =>
    cases ks with
    | nil => rfl
    | cons k ks =>
      cases ks with
      | nil => rfl
      | cons k' ks' => simp only [setPath]; cases lookup k kvs <;> rfl
  | _ => rw [setPath_notMap _ _ _ rfl]

/-! ### "no list on the way" -/

/-- following `ks` from `m` through maps, no *proper* prefix of `ks` resolves to a list
    (a list met before the end is where `walk`/`walkLoc` leave the pure-map world). -/
def noListBefore (m : Val) (ks : List Str) : Prop :=
  ∀ pre xs, pre <+: ks → pre ≠ ks → getPath m pre ≠ some (.list xs)

theorem noListBefore_nil (m : Val) : noListBefore m [] := by
  intro pre xs hp hne
  exact absurd (List.prefix_nil.1 hp) hne

theorem noListBefore_map_cons (kvs : Entries) (k : Str) (ks : List Str) :
    noListBefore (.map kvs) (k :: ks) ↔ ∀ c, lookup k kvs = some c → noListBefore c ks := by
  constructor
  · intro h c hl pre xs hp hne hg
    refine h (k :: pre) xs (List.cons_prefix_cons.2 ⟨rfl, hp⟩) (by simpa using hne) ?_
    simp [getPath_map_cons, hl, hg]
  · intro h pre xs hp hne hg
    cases pre with
    | nil => simp [getPath_nil] at hg
    | cons k2 pre' =>
      obtain ⟨hk, hp'⟩ := List.cons_prefix_cons.1 hp
      subst hk
      rw [getPath_map_cons] at hg
      cases hl : lookup k2 kvs with
      | none => simp [hl] at hg
      | some c =>
        simp only [hl, Option.bind_some] at hg
        exact h c hl pre' xs hp' (by simpa using hne) hg

theorem noListBefore_list_cons (xs : List Val) (k : Str) (ks : List Str) :
    ¬ noListBefore (.list xs) (k :: ks) := fun h =>
  h [] xs List.nil_prefix (by simp) rfl

theorem noListBefore_of_getPath_some : ∀ (ks : List Str) (m v : Val),
    getPath m ks = some v → noListBefore m ks := by
  intro ks
  induction ks with
  | nil => intro m v _; exact noListBefore_nil m
  | cons k ks ih =>
    intro m v h
    cases m with
    | map kvs =>
      rw [noListBefore_map_cons]
      intro c hl
      rw [getPath_map_cons, hl] at h
      exact ih c v h
    | _ => simp [getPath] at h

theorem noListBefore_prefix (m : Val) (ks r : List Str) (h : noListBefore m (ks ++ r)) :
    noListBefore m ks := by
  intro pre xs hp hne hg
  refine h pre xs (List.IsPrefix.trans hp (List.prefix_append ks r)) ?_ hg
  intro e
  have hlen := List.IsPrefix.length_le hp
  rw [e, List.length_append] at hlen
  have h2 : r = [] := List.eq_nil_of_length_eq_zero (by omega)
  subst h2
  exact hne (by simpa using e)

/-! ### get / set / erase algebra -/

theorem getPath_setPath_ext (nv : Val) : ∀ (segs : List Str) (m pm : Val) (r : List Str),
    segs ≠ [] → getPath m segs.dropLast = some pm → pm.isMap = true →
    getPath (setPath nv m segs) (segs ++ r) = getPath nv r := by
  intro segs
  induction segs with
  | nil => intro m pm r h; exact absurd rfl h
  | cons k ks ih =>
    intro m pm r _ hp hpm
    cases ks with
    | nil =>
      simp only [List.dropLast_singleton, getPath_nil, Option.some.injEq] at hp
      subst hp
      cases m with
      | map kvs =>
        simp [setPath, getPath_map_cons, lookup_insert_self]
      | _ => simp [Val.isMap] at hpm
    | cons k' ks' =>
      rw [List.dropLast_cons_cons] at hp
      cases m with
      | map kvs =>
        rw [getPath_map_cons] at hp
        cases hl : lookup k kvs with
        | none => simp [hl] at hp
        | some c =>
          simp only [hl, Option.bind_some] at hp
          rw [setPath_cons_ne nv kvs k (k' :: ks') (by simp)]
          simp only [hl, List.cons_append]
          rw [getPath_map_cons, lookup_insert_self]
          exact ih c pm r (by simp) hp hpm
      | _ => simp [getPath] at hp

theorem getPath_setPath_frame (nv : Val) : ∀ (segs q : List Str) (m : Val),
    ¬ segs <+: q → ¬ q <+: segs → getPath (setPath nv m segs) q = getPath m q := by
  intro segs
  induction segs with
  | nil => intro q m h; exact absurd List.nil_prefix h
  | cons k ks ih =>
    intro q m h1 h2
    cases q with
    | nil => exact absurd List.nil_prefix h2
    | cons k2 qs =>
      cases m with
      | map kvs =>
        by_cases hk : k2 = k
        · subst hk
          have h1' : ¬ ks <+: qs := fun h => h1 (List.cons_prefix_cons.2 ⟨rfl, h⟩)
          have h2' : ¬ qs <+: ks := fun h => h2 (List.cons_prefix_cons.2 ⟨rfl, h⟩)
          have hne : ks ≠ [] := fun e => h1' (e ▸ List.nil_prefix)
          rw [setPath_cons_ne nv kvs k2 ks hne]
          cases hl : lookup k2 kvs with
          | none => rfl
          | some c =>
            simp only [getPath_map_cons, lookup_insert_self, hl, Option.bind_some]
            exact ih qs c h1' h2'
        · cases ks with
          | nil =>
            simp only [setPath, getPath_map_cons, lookup_insert_ne k k2 nv hk]
          | cons k' ks' =>
            rw [setPath_cons_ne nv kvs k (k' :: ks') (by simp)]
            cases hl : lookup k kvs with
            | none => rfl
            | some c => simp only [getPath_map_cons, lookup_insert_ne k k2 _ hk]
      | _ => rw [setPath_notMap _ _ _ rfl]

theorem getPath_setPath_prefix (nv : Val) : ∀ (q r : List Str) (m : Val), r ≠ [] →
    getPath (setPath nv m (q ++ r)) q = (getPath m q).map (fun sub => setPath nv sub r) := by
  intro q
  induction q with
  | nil => intro r m _; simp [getPath_nil]
  | cons k q ih =>
    intro r m hr
    cases m with
    | map kvs =>
      rw [List.cons_append, setPath_cons_ne nv kvs k (q ++ r) (by simp [hr])]
      cases hl : lookup k kvs with
      | none => simp [getPath_map_cons, hl]
      | some c =>
        simp only [getPath_map_cons, lookup_insert_self, hl, Option.bind_some]
        exact ih r c hr
    | _ => rw [setPath_notMap _ _ _ rfl, getPath_notMap_cons _ _ _ rfl]; rfl

theorem getPath_erasePath_ext : ∀ (segs : List Str) (m : Val) (r : List Str),
    segs ≠ [] → m.wf = true → getPath (erasePath m segs) (segs ++ r) = none := by
  intro segs
  induction segs with
  | nil => intro m r h; exact absurd rfl h
  | cons k ks ih =>
    intro m r _ hw
    cases m with
    | map kvs =>
      cases ks with
      | nil =>
        simp [erasePath, getPath_map_cons, lookup_erase_self k kvs (wf_distinct kvs hw)]
      | cons k' ks' =>
        rw [erasePath_cons_ne kvs k (k' :: ks') (by simp)]
        cases hl : lookup k kvs with
        | none => simp [getPath_map_cons, hl]
        | some c =>
          simp only [List.cons_append, getPath_map_cons, lookup_insert_self, Option.bind_some]
          exact ih c r (by simp) (wf_lookup kvs k c hw hl)
    | _ => rw [erasePath_notMap _ _ rfl]; exact getPath_notMap_cons _ _ _ rfl

theorem getPath_erasePath_frame : ∀ (segs q : List Str) (m : Val),
    ¬ segs <+: q → ¬ q <+: segs → getPath (erasePath m segs) q = getPath m q := by
  intro segs
  induction segs with
  | nil => intro q m h; exact absurd List.nil_prefix h
  | cons k ks ih =>
    intro q m h1 h2
    cases q with
    | nil => exact absurd List.nil_prefix h2
    | cons k2 qs =>
      cases m with
      | map kvs =>
        by_cases hk : k2 = k
        · subst hk
          have h1' : ¬ ks <+: qs := fun h => h1 (List.cons_prefix_cons.2 ⟨rfl, h⟩)
          have h2' : ¬ qs <+: ks := fun h => h2 (List.cons_prefix_cons.2 ⟨rfl, h⟩)
          have hne : ks ≠ [] := fun e => h1' (e ▸ List.nil_prefix)
          rw [erasePath_cons_ne kvs k2 ks hne]
          cases hl : lookup k2 kvs with
          | none => rfl
          | some c =>
            simp only [getPath_map_cons, lookup_insert_self, hl, Option.bind_some]
            exact ih qs c h1' h2'
        · cases ks with
          | nil =>
            simp only [erasePath, getPath_map_cons, lookup_erase_ne k k2 hk]
          | cons k' ks' =>
            rw [erasePath_cons_ne kvs k (k' :: ks') (by simp)]
            cases hl : lookup k kvs with
            | none => rfl
            | some c => simp only [getPath_map_cons, lookup_insert_ne k k2 _ hk]
      | _ => rw [erasePath_notMap _ _ rfl]

theorem getPath_erasePath_prefix : ∀ (q r : List Str) (m : Val), r ≠ [] →
    getPath (erasePath m (q ++ r)) q = (getPath m q).map (fun sub => erasePath sub r) := by
  intro q
  induction q with
  | nil => intro r m _; simp [getPath_nil]
  | cons k q ih =>
    intro r m hr
    cases m with
    | map kvs =>
      rw [List.cons_append, erasePath_cons_ne kvs k (q ++ r) (by simp [hr])]
      cases hl : lookup k kvs with
      | none => simp [getPath_map_cons, hl]
      | some c =>
        simp only [getPath_map_cons, lookup_insert_self, hl, Option.bind_some]
        exact ih r c hr
    | _ => rw [erasePath_notMap _ _ rfl, getPath_notMap_cons _ _ _ rfl]; rfl

/-! ### the walker (`valuesForKeyPath`) on a pure map path -/

theorem walk_getPath_some (subs : Option SubKeys) : ∀ (ks : List Str) (m v : Val),
    (∀ k ∈ ks, k ≠ ['*']) → getPath m ks = some v → walk subs m ks = loadLeaf subs v := by
  intro ks
  induction ks with
  | nil => intro m v _ h; rw [getPath_nil] at h; cases h; exact walk_nil subs m
  | cons k ks ih =>
    intro m v hs h
    have hk : ¬ k = ['*'] := hs k (by simp)
    cases m with
    | map kvs =>
      rw [getPath_map_cons] at h
      cases hl : lookup k kvs with
      | none => simp [hl] at h
      | some c =>
        simp only [hl, Option.bind_some] at h
        simp only [walk, hk, if_false, hl]
        exact ih c v (fun k' hk' => hs k' (by simp [hk'])) h
    | _ => simp [getPath] at h

theorem walk_getPath_none (subs : Option SubKeys) : ∀ (ks : List Str) (m : Val),
    (∀ k ∈ ks, k ≠ ['*']) → noListBefore m ks → getPath m ks = none → walk subs m ks = [] := by
  intro ks
  induction ks with
  | nil => intro m _ _ h; simp [getPath_nil] at h
  | cons k ks ih =>
    intro m hs hn h
    have hk : ¬ k = ['*'] := hs k (by simp)
    cases m with
    | map kvs =>
      rw [getPath_map_cons] at h
      simp only [walk, hk, if_false]
      cases hl : lookup k kvs with
      | none => rfl
      | some c =>
        simp only [hl, Option.bind_some] at h
        exact ih c (fun k' hk' => hs k' (by simp [hk']))
          ((noListBefore_map_cons kvs k ks).1 hn c hl) h
    | list xs => exact absurd hn (noListBefore_list_cons xs k ks)
    | _ => simp [walk]

/-! ### locations: `walkLoc`, `getLoc`, `updLoc`, `prevLoc` on a pure map path -/

theorem walkLoc_getPath_some : ∀ (ks : List Str) (m v : Val),
    getPath m ks = some v → v.isList = false → walkLoc m ks = [ks.map Seg.key] := by
  intro ks
  induction ks with
  | nil =>
    intro m v h hv
    rw [getPath_nil] at h; cases h
    cases m <;> first | (simp [Val.isList] at hv; done) | simp [walkLoc]
  | cons k ks ih =>
    intro m v h hv
    cases m with
    | map kvs =>
      rw [getPath_map_cons] at h
      cases hl : lookup k kvs with
      | none => simp [hl] at h
      | some c =>
        simp only [hl, Option.bind_some] at h
        simp only [walkLoc, hl, ih c v h hv, List.map_cons, List.map_nil]
    | _ => simp [getPath] at h

theorem walkLoc_getPath_list : ∀ (ks : List Str) (m : Val) (xs : List Val),
    getPath m ks = some (.list xs) →
    walkLoc m ks = (List.range xs.length).map fun i => ks.map Seg.key ++ [Seg.idx i] := by
  intro ks
  induction ks with
  | nil =>
    intro m xs h
    rw [getPath_nil] at h; cases h
    simp [walkLoc]
  | cons k ks ih =>
    intro m xs h
    cases m with
    | map kvs =>
      rw [getPath_map_cons] at h
      cases hl : lookup k kvs with
      | none => simp [hl] at h
      | some c =>
        simp only [hl, Option.bind_some] at h
        simp only [walkLoc, hl, ih c xs h, List.map_map, List.map_cons, List.cons_append]
        rfl
    | _ => simp [getPath] at h

theorem walkLoc_getPath_none : ∀ (ks : List Str) (m : Val),
    noListBefore m ks → getPath m ks = none → walkLoc m ks = [] := by
  intro ks
  induction ks with
  | nil => intro m _ h; simp [getPath_nil] at h
  | cons k ks ih =>
    intro m hn h
    cases m with
    | map kvs =>
      rw [getPath_map_cons] at h
      cases hl : lookup k kvs with
      | none => simp [walkLoc, hl]
      | some c =>
        simp only [hl, Option.bind_some] at h
        simp only [walkLoc, hl, ih c ((noListBefore_map_cons kvs k ks).1 hn c hl) h, List.map_nil]
    | list xs => exact absurd hn (noListBefore_list_cons xs k ks)
    | _ => simp [walkLoc]

theorem getLoc_nil (m : Val) : getLoc m [] = some m := by
  cases m <;> rfl

theorem getLoc_keys_append : ∀ (ks : List Str) (m : Val) (rest : List Seg),
    getLoc m (ks.map Seg.key ++ rest) = (getPath m ks).bind (fun v => getLoc v rest) := by
  intro ks
  induction ks with
  | nil => intro m rest; simp [getPath_nil]
  | cons k ks ih =>
    intro m rest
    cases m with
    | map kvs =>
      simp only [List.map_cons, List.cons_append, getLoc, getPath_map_cons]
      cases lookup k kvs with
      | none => rfl
      | some c => simp [ih]
    | _ => simp [getLoc, getPath]

theorem getLoc_keys (ks : List Str) (m : Val) : getLoc m (ks.map Seg.key) = getPath m ks := by
  have := getLoc_keys_append ks m []
  simp only [List.append_nil] at this
  rw [this]
  cases getPath m ks <;> simp [getLoc_nil]

theorem updLoc_notMap (f : Entries → Entries) (m : Val) (ks : List Str) (h : m.isMap = false) :
    updLoc f m (ks.map Seg.key) = m := by
  cases m <;> first | (simp [Val.isMap] at h; done) | (cases ks <;> simp [updLoc])

/-- `cVal[key] = value` in the inner map at the end of `ks` is `setPath` -/
theorem updLoc_insert (nv : Val) (key : Str) : ∀ (ks : List Str) (m : Val),
    updLoc (insert key nv) m (ks.map Seg.key) = setPath nv m (ks ++ [key]) := by
  intro ks
  induction ks with
  | nil => intro m; cases m <;> simp [updLoc, setPath]
  | cons k ks ih =>
    intro m
    cases m with
    | map kvs =>
      rw [List.cons_append, setPath_cons_ne nv kvs k (ks ++ [key]) (by simp)]
      simp only [List.map_cons, updLoc]
      cases lookup k kvs with
      | none => rfl
      | some c => simp only [ih]
    | _ => rw [updLoc_notMap _ _ _ rfl, setPath_notMap _ _ _ rfl]

/-- `delete(m, key)` in the inner map at the end of `ks` is `erasePath` -/
theorem updLoc_erase (key : Str) : ∀ (ks : List Str) (m : Val),
    updLoc (erase key) m (ks.map Seg.key) = erasePath m (ks ++ [key]) := by
  intro ks
  induction ks with
  | nil => intro m; cases m <;> simp [updLoc, erasePath]
  | cons k ks ih =>
    intro m
    cases m with
    | map kvs =>
      rw [List.cons_append, erasePath_cons_ne kvs k (ks ++ [key]) (by simp)]
      simp only [List.map_cons, updLoc]
      cases lookup k kvs with
      | none => rfl
      | some c => simp only [ih]
    | _ => rw [updLoc_notMap _ _ _ rfl, erasePath_notMap _ _ rfl]

/-- the in-place rename in the inner map = erase the old entry, then set the new one -/
theorem updLoc_rename (old nn : Str) (v : Val) (hne : old ≠ nn) : ∀ (ks : List Str) (m : Val),
    getPath m (ks ++ [old]) = some v →
    updLoc (renameEntries old nn) m (ks.map Seg.key)
      = setPath v (erasePath m (ks ++ [old])) (ks ++ [nn]) := by
  intro ks
  induction ks with
  | nil =>
    intro m h
    cases m with
    | map kvs =>
      simp only [List.nil_append, getPath_map_cons] at h
      cases hl : lookup old kvs with
      | none => simp [hl] at h
      | some c =>
        simp only [hl, Option.bind_some, getPath_nil, Option.some.injEq] at h
        subst h
        simp only [List.map_nil, updLoc, renameEntries, hl, List.nil_append, erasePath, setPath,
          erase_insert_comm old nn c hne]
    | _ => simp [getPath] at h
  | cons k ks ih =>
    intro m h
    cases m with
    | map kvs =>
      rw [List.cons_append, getPath_map_cons] at h
      cases hl : lookup k kvs with
      | none => simp [hl] at h
      | some c =>
        simp only [hl, Option.bind_some] at h
        rw [List.cons_append, erasePath_cons_ne kvs k (ks ++ [old]) (by simp)]
        simp only [hl]
        rw [List.cons_append, setPath_cons_ne v _ k (ks ++ [nn]) (by simp)]
        simp only [lookup_insert_self, insert_insert, List.map_cons, updLoc, hl, ih c h]
    | _ => simp [getPath] at h

theorem prevLoc_notMap (m : Val) (ks : List Str) (h : m.isMap = false) : prevLoc m ks = none := by
  cases m <;> first | (simp [Val.isMap] at h; done) | (unfold prevLoc; rfl)

theorem prevLoc_cons_ne (kvs : Entries) (k : Str) (ks : List Str) (h : ks ≠ []) :
    prevLoc (.map kvs) (k :: ks) = match lookup k kvs with
      | some v => (prevLoc v ks).map (Seg.key k :: ·)
      | none => none := by
  cases ks with
  | nil => exact absurd rfl h
  | cons k' ks' => simp only [prevLoc]; cases lookup k kvs <;> rfl

/-- `prevValueByPath` finds the parent exactly when the path resolves through maps -/
theorem prevLoc_eq : ∀ (ks : List Str) (key : Str) (m : Val),
    prevLoc m (ks ++ [key])
      = if (getPath m (ks ++ [key])).isSome then some (ks.map Seg.key) else none := by
  intro ks
  induction ks with
  | nil =>
    intro key m
    cases m with
    | map kvs =>
      simp only [List.nil_append, prevLoc, getPath_map_cons, List.map_nil]
      cases lookup key kvs <;> simp [getPath_nil]
    | _ => rw [prevLoc_notMap _ _ rfl, List.nil_append, getPath_notMap_cons _ _ _ rfl]; rfl
  | cons k ks ih =>
    intro key m
    cases m with
    | map kvs =>
      rw [List.cons_append, prevLoc_cons_ne kvs k (ks ++ [key]) (by simp), getPath_map_cons]
      cases hl : lookup k kvs with
      | none => rfl
      | some c =>
        simp only [Option.bind_some, ih key c]
        split <;> simp
    | _ => rw [prevLoc_notMap _ _ rfl, List.cons_append, getPath_notMap_cons _ _ _ rfl]; rfl

/-! ### dot-paths built from safe keys -/

theorem keySafe_iff (k : Str) :
    KeySpec.keySafe k = true ↔ k ≠ [] ∧ '.' ∉ k ∧ '[' ∉ k ∧ '*' ∉ k := by
  unfold KeySpec.keySafe
  cases k <;> simp [and_assoc]

theorem keySafe_nameOk (k : Str) (h : KeySpec.keySafe k = true) : nameOk k = true := by
  rw [keySafe_iff] at h
  exact (nameOk_iff k).2 ⟨h.1, h.2.1⟩

theorem keySafe_ne_star (k : Str) (h : KeySpec.keySafe k = true) : k ≠ ['*'] := by
  rw [keySafe_iff] at h
  intro e; subst e
  exact h.2.2.2 (by simp)

theorem mem_joinWith (sep : Str) (c : Char) : ∀ xs : List Str,
    c ∈ joinWith sep xs → c ∈ sep ∨ ∃ x ∈ xs, c ∈ x := by
  intro xs
  induction xs with
  | nil => intro h; simp [joinWith] at h
  | cons x rest ih =>
    intro h
    cases rest with
    | nil => exact Or.inr ⟨x, by simp, by simpa [joinWith] using h⟩
    | cons y rest' =>
      simp only [joinWith, List.mem_append] at h
      rcases h with (h | h) | h
      · exact Or.inr ⟨x, by simp, h⟩
      · exact Or.inl h
      · rcases ih h with h' | ⟨z, hz, hc⟩
        · exact Or.inl h'
        · exact Or.inr ⟨z, List.mem_cons_of_mem _ hz, hc⟩

theorem joinDot_no_bracket_mem (segs : List Str) (h : ∀ s ∈ segs, KeySpec.keySafe s = true) :
    '[' ∉ joinDot segs := by
  intro hm
  rcases mem_joinWith ['.'] '[' segs hm with h' | ⟨x, hx, hcx⟩
  · simp at h'
  · exact ((keySafe_iff x).1 (h x hx)).2.2.1 hcx

theorem joinDot_no_bracket (segs : List Str) (h : ∀ s ∈ segs, KeySpec.keySafe s = true) :
    (joinDot segs).contains '[' = false := by
  simpa using joinDot_no_bracket_mem segs h

theorem splitDot_joinDot (segs : List Str) (hne : segs ≠ [])
    (h : ∀ s ∈ segs, KeySpec.keySafe s = true) : splitDot (joinDot segs) = segs :=
  splitOn_joinWith '.' segs hne (fun x hx => ((keySafe_iff x).1 (h x hx)).2.1)

theorem pathKeys_joinDot_safe (segs : List Str) (h : ∀ s ∈ segs, KeySpec.keySafe s = true) :
    pathKeys (joinDot segs) = segs := by
  cases segs with
  | nil => simp [pathKeys, joinDot, joinWith, splitDot, splitOn, splitGo, dropTrailingEmpty]
  | cons a as =>
    exact pathKeys_joinDot (a :: as) (by simp) (fun n hn => keySafe_nameOk n (h n hn))

theorem joinDot_isEmpty (segs : List Str) (h : ∀ s ∈ segs, s ≠ []) :
    (joinDot segs).isEmpty = segs.isEmpty := by
  cases segs with
  | nil => rfl
  | cons a as =>
    have ha : a ≠ [] := h a (by simp)
    cases as with
    | nil => cases a <;> simp_all [joinDot, joinWith]
    | cons b bs => cases a <;> simp_all [joinDot, joinWith]

/-- the sibling path `RenameKey` probes: parent path + "." + newName (or newName alone at the top) -/
theorem renameProbe_eq (ks : List Str) (nn : Str) (h : ∀ s ∈ ks, s ≠ []) :
    (if (joinDot ks).isEmpty then nn else joinDot ks ++ ['.'] ++ nn) = joinDot (ks ++ [nn]) := by
  rw [joinDot_isEmpty ks h]
  cases ks with
  | nil => rfl
  | cons a as =>
    simp only [List.isEmpty_cons, Bool.false_eq_true, if_false]
    exact (joinWith_snoc ['.'] (a :: as) nn (by simp)).symm

/-! ### evaluating the Go-level operations on a safe dot-path -/

theorem existsNoSubs_joinDot (m : Val) (segs : List Str)
    (h : ∀ s ∈ segs, KeySpec.keySafe s = true) :
    existsNoSubs m (joinDot segs) = .ok (!(walk none m segs).isEmpty) := by
  simp [existsNoSubs, pathExists, valuesForPath, joinDot_no_bracket_mem segs h, subKeyArg,
    oldValues, pathKeys_joinDot_safe segs h]

theorem valueForPath_joinDot (m : Val) (segs : List Str)
    (h : ∀ s ∈ segs, KeySpec.keySafe s = true) :
    valueForPath m (joinDot segs) = match walk none m segs with
      | [] => .error .pathNotExist
      | v :: _ => .ok v := by
  simp only [valueForPath, valuesForPath, joinDot_no_bracket segs h, subKeyArg, oldValues,
    pathKeys_joinDot_safe segs h, List.isEmpty_nil, Bool.not_false, if_true]
  cases walk none m segs <;> rfl

theorem setValueForPath_joinDot (m nv : Val) (ks : List Str) (key : Str)
    (h : ∀ s ∈ ks ++ [key], KeySpec.keySafe s = true) :
    setValueForPath m nv (joinDot (ks ++ [key])) =
      match (walkLoc m ks).head? with
      | none => .error .pathNotExist
      | some loc =>
        match getLoc m loc with
        | some .null => .ok m
        | some (.map _) => .ok (updLoc (insert key nv) m loc)
        | _ => .error .notAMap := by
  have hks : ∀ s ∈ ks, KeySpec.keySafe s = true := fun s hs => h s (by simp [hs])
  simp only [setValueForPath, splitDot_joinDot (ks ++ [key]) (by simp) h, List.dropLast_concat,
    pathKeys_joinDot_safe ks hks, List.getLast?_concat, Option.getD_some]
  rfl

theorem removePath_joinDot (m : Val) (ks : List Str) (key : Str)
    (h : ∀ s ∈ ks ++ [key], KeySpec.keySafe s = true) :
    removePath m (joinDot (ks ++ [key])) =
      if (getPath m (ks ++ [key])).isSome then .ok (erasePath m (ks ++ [key]))
      else .error .prevNotFound := by
  simp only [removePath, splitDot_joinDot (ks ++ [key]) (by simp) h, prevLoc_eq,
    List.getLast?_concat, Option.getD_some]
  by_cases hs : (getPath m (ks ++ [key])).isSome = true
  · simp only [hs, if_true, updLoc_erase]
  · simp only [hs]; rfl

theorem renameKey_joinDot (m : Val) (ks : List Str) (key nn : Str)
    (h : ∀ s ∈ ks ++ [key], KeySpec.keySafe s = true) (hnn : KeySpec.keySafe nn = true) :
    renameKey existsNoSubs m (joinDot (ks ++ [key])) nn =
      match (walk none m (ks ++ [key])).isEmpty, (walk none m (ks ++ [nn])).isEmpty with
      | true, _ => .error .renameNotFound
      | false, false => .error .renameExists
      | false, true =>
          if (getPath m (ks ++ [key])).isSome
          then .ok (updLoc (renameEntries key nn) m (ks.map Seg.key))
          else .error .prevNotFound := by
  have hks : ∀ s ∈ ks, KeySpec.keySafe s = true := fun s hs => h s (by simp [hs])
  have hks' : ∀ s ∈ ks, s ≠ [] := fun s hs => ((keySafe_iff s).1 (hks s hs)).1
  have hnew : ∀ s ∈ ks ++ [nn], KeySpec.keySafe s = true := by
    intro s hs
    rcases List.mem_append.1 hs with h1 | h1
    · exact hks s h1
    · simp only [List.mem_singleton] at h1; subst h1; exact hnn
  simp only [renameKey, parentPathOf, lastKeyOf, splitDot_joinDot (ks ++ [key]) (by simp) h,
    List.dropLast_concat, renameProbe_eq ks nn hks', existsNoSubs_joinDot m _ h,
    existsNoSubs_joinDot m _ hnew, prevLoc_eq, List.getLast?_concat, Option.getD_some]
  cases (walk none m (ks ++ [key])).isEmpty <;> cases (walk none m (ks ++ [nn])).isEmpty <;>
    simp only [Bool.not_true, Bool.not_false] <;>
    first | rfl | (by_cases hs : (getPath m (ks ++ [key])).isSome = true <;> simp only [hs] <;> rfl)

/-! ### SetValueForPath by what the parent path resolves to -/

theorem exists_snoc (segs : List Str) (h : segs ≠ []) : ∃ ks key, segs = ks ++ [key] :=
  ⟨segs.dropLast, segs.getLast h, (List.dropLast_concat_getLast h).symm⟩

theorem setValueForPath_map_parent (m nv : Val) (ks : List Str) (key : Str) (pk : Entries)
    (h : ∀ s ∈ ks ++ [key], KeySpec.keySafe s = true) (hp : getPath m ks = some (.map pk)) :
    setValueForPath m nv (joinDot (ks ++ [key])) = .ok (setPath nv m (ks ++ [key])) := by
  rw [setValueForPath_joinDot m nv ks key h, walkLoc_getPath_some ks m _ hp rfl]
  simp only [List.head?_cons, getLoc_keys, hp, updLoc_insert]

theorem setValueForPath_missing_parent (m nv : Val) (ks : List Str) (key : Str)
    (h : ∀ s ∈ ks ++ [key], KeySpec.keySafe s = true) (hn : noListBefore m ks)
    (hp : getPath m ks = none) :
    setValueForPath m nv (joinDot (ks ++ [key])) = .error .pathNotExist := by
  rw [setValueForPath_joinDot m nv ks key h, walkLoc_getPath_none ks m hn hp]
  rfl

theorem setValueForPath_nil_parent (m nv : Val) (ks : List Str) (key : Str)
    (h : ∀ s ∈ ks ++ [key], KeySpec.keySafe s = true) (hp : getPath m ks = some .null) :
    setValueForPath m nv (joinDot (ks ++ [key])) = .ok m := by
  rw [setValueForPath_joinDot m nv ks key h, walkLoc_getPath_some ks m _ hp rfl]
  simp only [List.head?_cons, getLoc_keys, hp]

theorem setValueForPath_scalar_parent (m nv pm : Val) (ks : List Str) (key : Str)
    (h : ∀ s ∈ ks ++ [key], KeySpec.keySafe s = true) (hp : getPath m ks = some pm)
    (hm : pm.isMap = false) (hl : pm.isList = false) (hnull : pm ≠ .null) :
    setValueForPath m nv (joinDot (ks ++ [key])) = .error .notAMap := by
  rw [setValueForPath_joinDot m nv ks key h, walkLoc_getPath_some ks m _ hp hl]
  simp only [List.head?_cons, getLoc_keys, hp]
  cases pm <;> first | rfl | (simp [Val.isMap] at hm; done) | exact absurd rfl hnull

/-- updating below a key path = `setPath` of the updated subtree -/
theorem updLoc_keys_append (f : Entries → Entries) (rest : List Seg) : ∀ (ks : List Str) (m sub : Val),
    ks ≠ [] → getPath m ks = some sub →
    updLoc f m (ks.map Seg.key ++ rest) = setPath (updLoc f sub rest) m ks := by
  intro ks
  induction ks with
  | nil => intro m sub h; exact absurd rfl h
  | cons k ks ih =>
    intro m sub _ hp
    cases m with
    | map kvs =>
      rw [getPath_map_cons] at hp
      cases hl : lookup k kvs with
      | none => simp [hl] at hp
      | some c =>
        simp only [hl, Option.bind_some] at hp
        simp only [List.map_cons, List.cons_append, updLoc, hl]
        cases ks with
        | nil =>
          rw [getPath_nil] at hp; cases hp
          simp [setPath]
        | cons k' ks' =>
          rw [setPath_cons_ne _ kvs k (k' :: ks') (by simp)]
          simp only [hl]
          rw [← ih c sub (by simp) hp]
    | _ => simp [getPath] at hp

/-- a list parent: `ValueForPath(parent)` hands back the list's first member, so the model (like
    the Go code) works on that member -/
theorem setValueForPath_list_parent (m nv : Val) (ks : List Str) (key : Str) (xs : List Val)
    (h : ∀ s ∈ ks ++ [key], KeySpec.keySafe s = true) (hks : ks ≠ [])
    (hp : getPath m ks = some (.list xs)) :
    setValueForPath m nv (joinDot (ks ++ [key])) =
      match (generalizing := false) xs with
      | [] => .error .pathNotExist
      | .null :: _ => .ok m
      | .map e :: rest => .ok (setPath (.list (.map (insert key nv e) :: rest)) m ks)
      | _ :: _ => .error .notAMap := by
  rw [setValueForPath_joinDot m nv ks key h, walkLoc_getPath_list ks m xs hp]
  cases xs with
  | nil => rfl
  | cons x rest =>
    simp only [List.length_cons, List.range_succ_eq_map, List.map_cons, List.head?_cons,
      getLoc_keys_append, hp, Option.bind_some, getLoc, List.getElem?_cons_zero]
    cases x with
    | map e =>
      simp only [updLoc_keys_append _ _ ks m _ hks hp, updLoc, List.getElem?_cons_zero,
        List.set_cons_zero]
    | _ => rfl

/-! ### RenameKey / Remove at the (ks, key) level -/

theorem noListBefore_snoc (m pm : Val) (ks : List Str) (x : Str) (hp : getPath m ks = some pm)
    (hl : pm.isList = false) : noListBefore m (ks ++ [x]) := by
  intro pre xs hpre hne hg
  rcases List.prefix_concat_iff.1 hpre with e | hpre'
  · exact hne e
  · by_cases e : pre = ks
    · subst e
      rw [hp] at hg
      cases hg
      simp [Val.isList] at hl
    · exact noListBefore_of_getPath_some ks m pm hp pre xs hpre' e hg

theorem noListBefore_erasePath (m : Val) (segs : List Str) (h : noListBefore m segs) :
    noListBefore (erasePath m segs) segs := by
  intro pre xs hpre hne hg
  obtain ⟨r, hr⟩ := hpre
  have hrne : r ≠ [] := by
    intro e; subst e; simp at hr; exact hne hr
  subst hr
  rw [getPath_erasePath_prefix pre r m hrne] at hg
  cases hsub : getPath m pre with
  | none => simp [hsub] at hg
  | some sub =>
    simp only [hsub, Option.map_some, Option.some.injEq] at hg
    have hl : sub.isList = true := by
      rw [← erasePath_isList sub r, hg]; rfl
    cases sub with
    | list ys => exact h pre ys (List.prefix_append pre r) hne hsub
    | _ => simp [Val.isList] at hl

theorem safe_ne_star (segs : List Str) (h : ∀ s ∈ segs, KeySpec.keySafe s = true) :
    ∀ k ∈ segs, k ≠ ['*'] := fun k hk => keySafe_ne_star k (h k hk)

theorem existsNoSubs_erasePath (m : Val) (segs : List Str) (hne : segs ≠ [])
    (h : ∀ s ∈ segs, KeySpec.keySafe s = true) (hw : m.wf = true) (hn : noListBefore m segs) :
    existsNoSubs (erasePath m segs) (joinDot segs) = .ok false := by
  rw [existsNoSubs_joinDot _ segs h,
    walk_getPath_none none segs _ (safe_ne_star segs h) (noListBefore_erasePath m segs hn)
      (by simpa using getPath_erasePath_ext segs m [] hne hw)]
  rfl

theorem renameKey_not_found (m : Val) (path nn : Str) (h : existsNoSubs m path = .ok false) :
    renameKey existsNoSubs m path nn = .error .renameNotFound := by
  simp only [renameKey, h]

theorem renameKey_missing (m : Val) (segs : List Str) (nn : Str)
    (h : ∀ s ∈ segs, KeySpec.keySafe s = true) (hn : noListBefore m segs)
    (hg : getPath m segs = none) :
    renameKey existsNoSubs m (joinDot segs) nn = .error .renameNotFound := by
  apply renameKey_not_found
  rw [existsNoSubs_joinDot _ segs h, walk_getPath_none none segs m (safe_ne_star segs h) hn hg]
  rfl

theorem safe_snoc (ks : List Str) (key nn : Str) (h : ∀ s ∈ ks ++ [key], KeySpec.keySafe s = true)
    (hnn : KeySpec.keySafe nn = true) : ∀ s ∈ ks ++ [nn], KeySpec.keySafe s = true := by
  intro s hs
  rcases List.mem_append.1 hs with h1 | h1
  · exact h s (by simp [h1])
  · simp only [List.mem_singleton] at h1; subst h1; exact hnn

theorem getPath_snoc (m : Val) (ks : List Str) (x : Str) (pk : Entries)
    (hp : getPath m ks = some (.map pk)) : getPath m (ks ++ [x]) = lookup x pk := by
  rw [getPath_append, hp, Option.bind_some, getPath_map_cons]
  cases lookup x pk <;> simp [getPath_nil]

theorem isEmpty_false_of_ne_nil {α} (l : List α) (h : l ≠ []) : l.isEmpty = false := by
  cases l with
  | nil => exact absurd rfl h
  | cons a l => rfl

theorem renameKey_moves (m v : Val) (ks : List Str) (key nn : Str) (pk : Entries)
    (h : ∀ s ∈ ks ++ [key], KeySpec.keySafe s = true) (hnn : KeySpec.keySafe nn = true)
    (hv : getPath m (ks ++ [key]) = some v) (hparent : getPath m ks = some (.map pk))
    (hfresh : lookup nn pk = none) (hne : noEmptyList m = true) :
    renameKey existsNoSubs m (joinDot (ks ++ [key])) nn
      = .ok (setPath v (erasePath m (ks ++ [key])) (ks ++ [nn])) := by
  have hnew := safe_snoc ks key nn h hnn
  have hold : lookup key pk = some v := by rw [← getPath_snoc m ks key pk hparent]; exact hv
  have hkn : key ≠ nn := by
    intro e; subst e; rw [hfresh] at hold; cases hold
  have hgn : getPath m (ks ++ [nn]) = none := by rw [getPath_snoc m ks nn pk hparent]; exact hfresh
  have hw1 : (walk none m (ks ++ [key])).isEmpty = false := by
    rw [walk_getPath_some none _ m v (safe_ne_star _ h) hv]
    exact isEmpty_false_of_ne_nil _ (loadLeaf_none_ne_nil v (noEmptyList_getPath _ m v hne hv))
  have hw2 : (walk none m (ks ++ [nn])).isEmpty = true := by
    rw [walk_getPath_none none _ m (safe_ne_star _ hnew)
      (noListBefore_snoc m _ ks nn hparent rfl) hgn]
    rfl
  rw [renameKey_joinDot m ks key nn h hnn, hw1, hw2]
  simp only [hv, Option.isSome_some, if_true, updLoc_rename key nn v hkn ks m hv]

theorem renameKey_refuses (m v w : Val) (ks : List Str) (key nn : Str) (pk : Entries)
    (h : ∀ s ∈ ks ++ [key], KeySpec.keySafe s = true) (hnn : KeySpec.keySafe nn = true)
    (hv : getPath m (ks ++ [key]) = some v) (hparent : getPath m ks = some (.map pk))
    (hsib : lookup nn pk = some w) (hne : noEmptyList m = true) :
    renameKey existsNoSubs m (joinDot (ks ++ [key])) nn = .error .renameExists := by
  have hnew := safe_snoc ks key nn h hnn
  have hgn : getPath m (ks ++ [nn]) = some w := by rw [getPath_snoc m ks nn pk hparent]; exact hsib
  have hw1 : (walk none m (ks ++ [key])).isEmpty = false := by
    rw [walk_getPath_some none _ m v (safe_ne_star _ h) hv]
    exact isEmpty_false_of_ne_nil _ (loadLeaf_none_ne_nil v (noEmptyList_getPath _ m v hne hv))
  have hw2 : (walk none m (ks ++ [nn])).isEmpty = false := by
    rw [walk_getPath_some none _ m w (safe_ne_star _ hnew) hgn]
    exact isEmpty_false_of_ne_nil _ (loadLeaf_none_ne_nil w (noEmptyList_getPath _ m w hne hgn))
  rw [renameKey_joinDot m ks key nn h hnn, hw1, hw2]

/-! ### well-formedness is preserved -/

theorem wfEntries_insert (k : Str) (v : Val) (hv : v.wf = true) : ∀ kvs : Entries,
    Val.wfEntries kvs = true → Val.wfEntries (insert k v kvs) = true := by
  intro kvs
  induction kvs with
  | nil => intro _; simp [insert, Val.wfEntries, hv]
  | cons e rest ih =>
    obtain ⟨k₀, v₀⟩ := e
    intro hw
    simp only [Val.wfEntries, Bool.and_eq_true] at hw
    by_cases h : k = k₀
    · simp [insert, h, Val.wfEntries, hv, hw.2]
    · simp [insert, h, Val.wfEntries, hw.1, ih hw.2]

theorem wfEntries_erase (k : Str) : ∀ kvs : Entries,
    Val.wfEntries kvs = true → Val.wfEntries (erase k kvs) = true := by
  intro kvs
  induction kvs with
  | nil => intro _; rfl
  | cons e rest ih =>
    obtain ⟨k₀, v₀⟩ := e
    intro hw
    simp only [Val.wfEntries, Bool.and_eq_true] at hw
    by_cases h : k = k₀
    · simp [erase, h, hw.2]
    · simp [erase, h, Val.wfEntries, hw.1, ih hw.2]

theorem wf_map_insert (kvs : Entries) (k : Str) (v : Val) (hw : (Val.map kvs).wf = true)
    (hv : v.wf = true) : (Val.map (insert k v kvs)).wf = true := by
  simp only [Val.wf, Bool.and_eq_true] at hw ⊢
  exact ⟨wfEntries_insert k v hv kvs hw.1, distinctKeys_insert k v kvs hw.2⟩

theorem wf_map_erase (kvs : Entries) (k : Str) (hw : (Val.map kvs).wf = true) :
    (Val.map (erase k kvs)).wf = true := by
  simp only [Val.wf, Bool.and_eq_true] at hw ⊢
  exact ⟨wfEntries_erase k kvs hw.1, distinctKeys_erase k kvs hw.2⟩

theorem wf_setPath (nv : Val) (hnv : nv.wf = true) : ∀ (segs : List Str) (m : Val),
    m.wf = true → (setPath nv m segs).wf = true := by
  intro segs
  induction segs with
  | nil => intro m hw; rw [setPath_nil]; exact hw
  | cons k ks ih =>
    intro m hw
    cases m with
    | map kvs =>
      cases ks with
      | nil => exact wf_map_insert kvs k nv hw hnv
      | cons k' ks' =>
        rw [setPath_cons_ne nv kvs k (k' :: ks') (by simp)]
        cases hl : lookup k kvs with
        | none => exact hw
        | some c => exact wf_map_insert kvs k _ hw (ih c (wf_lookup kvs k c hw hl))
    | _ => rw [setPath_notMap _ _ _ rfl]; exact hw

theorem wf_erasePath : ∀ (segs : List Str) (m : Val),
    m.wf = true → (erasePath m segs).wf = true := by
  intro segs
  induction segs with
  | nil => intro m hw; rw [erasePath_nil]; exact hw
  | cons k ks ih =>
    intro m hw
    cases m with
    | map kvs =>
      cases ks with
      | nil => exact wf_map_erase kvs k hw
      | cons k' ks' =>
        rw [erasePath_cons_ne kvs k (k' :: ks') (by simp)]
        cases hl : lookup k kvs with
        | none => exact hw
        | some c => exact wf_map_insert kvs k _ hw (ih c (wf_lookup kvs k c hw hl))
    | _ => rw [erasePath_notMap _ _ rfl]; exact hw

/-! ### a decidable form of `noListBefore` (for concrete instances) -/

def noListBeforeB : Val → List Str → Bool
  | _, [] => true
  | .map kvs, k :: ks => match lookup k kvs with
      | some c => noListBeforeB c ks
      | none => true
  | .list _, _ :: _ => false
  | _, _ :: _ => true

theorem noListBefore_scalar (m : Val) (ks : List Str) (hm : m.isMap = false)
    (hl : m.isList = false) : noListBefore m ks := by
  intro pre xs _ _ hg
  cases pre with
  | nil =>
    rw [getPath_nil] at hg
    cases hg
    simp [Val.isList] at hl
  | cons k pre' => rw [getPath_notMap_cons _ _ _ hm] at hg; cases hg

theorem noListBefore_of_B : ∀ (ks : List Str) (m : Val),
    noListBeforeB m ks = true → noListBefore m ks := by
  intro ks
  induction ks with
  | nil => intro m _; exact noListBefore_nil m
  | cons k ks ih =>
    intro m h
    cases m with
    | map kvs =>
      rw [noListBefore_map_cons]
      intro c hl
      simp only [noListBeforeB, hl] at h
      exact ih c h
    | list xs => simp [noListBeforeB] at h
    | _ => exact noListBefore_scalar _ _ rfl rfl

end Mxj
