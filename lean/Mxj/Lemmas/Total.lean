/-
  Mxj.Lemmas.Total — helper lemmas for C15 (Props/C15.lean): totality of the decoders.
  (1) `closeRest` / `rootCloses`: a decoder-independent nesting-depth scan of the token list;
      with fuel > #tokens `parseElem` / `decodeTop` succeed exactly when the scan finds the
      matching end tag, and otherwise return the error kind of the stream end;
  (2) `seqScan` / `seqClass`: the same for the sequence decoder (which also compares end-tag
      names), giving a complete outcome classification of `newMapXmlSeq`;
  (3) `EncOK`: the shape invariant that makes the compact Map encoder succeed, established by
      the Map decoder when no element key is read as an attribute key / the text key;
  (4) `SeqShaped`: the shape invariant under which `seqEnc` reaches none of its `.panic`
      sites, established by the sequence decoder.
-/
import Mxj.Model.Seq
import Mxj.Lemmas.Decode
namespace Mxj

/-! ### (1) the Map decoder -/

/-- Scan for the end tag that closes the current element.  `d` = number of elements opened
    (and not yet closed) inside the current one, i.e. the nesting depth is `d + 1`: every
    `.start` +1, every `.stop` −1; when the depth returns to 0 the unread tokens are returned.
    Names are not compared (the `Token()` stream is already well nested). -/
def closeRest : Nat → List Tok → Option (List Tok)
  | _, [] => none
  | d, .start _ _ _ :: rest => closeRest (d + 1) rest
  | 0, .stop _ _ :: rest => some rest
  | d + 1, .stop _ _ :: rest => closeRest d rest
  | d, .text _ :: rest => closeRest d rest
  | d, .comment _ :: rest => closeRest d rest
  | d, .procinst _ _ :: rest => closeRest d rest
  | d, .directive _ :: rest => closeRest d rest

/-- skip tokens up to the first start element, then the element must close -/
def rootCloses : List Tok → Bool
  | [] => false
  | .start _ _ _ :: rest => (closeRest 0 rest).isSome
  | .stop _ _ :: rest => rootCloses rest
  | .text _ :: rest => rootCloses rest
  | .comment _ :: rest => rootCloses rest
  | .procinst _ _ :: rest => rootCloses rest
  | .directive _ :: rest => rootCloses rest

/-- the error a decoder reports when the tokens run out -/
def finErr {α : Type} : StreamEnd → Outcome α
  | .eof => .eof
  | .bad => .syntax

namespace Total

theorem closeRest_split : ∀ (toks : List Tok) (d e : Nat),
    closeRest (d + e + 1) toks = (closeRest d toks).bind (closeRest e)
  | [], d, e => by simp [closeRest]
  | .start _ _ _ :: rest, d, e => by
      simp only [closeRest]
      have := closeRest_split rest (d + 1) e
      rw [show d + 1 + e + 1 = d + e + 1 + 1 by omega] at this
      exact this
  | .stop _ _ :: rest, 0, e => by simp [closeRest]
  | .stop _ _ :: rest, d + 1, e => by
      rw [show d + 1 + e + 1 = (d + e + 1) + 1 by omega]
      simp only [closeRest]
      exact closeRest_split rest d e
  | .text _ :: rest, d, e => by simp only [closeRest]; exact closeRest_split rest d e
  | .comment _ :: rest, d, e => by simp only [closeRest]; exact closeRest_split rest d e
  | .procinst _ _ :: rest, d, e => by simp only [closeRest]; exact closeRest_split rest d e
  | .directive _ :: rest, d, e => by simp only [closeRest]; exact closeRest_split rest d e

theorem closeRest_one (toks : List Tok) :
    closeRest 1 toks = (closeRest 0 toks).bind (closeRest 0) := closeRest_split toks 0 0

theorem closeRest_length : ∀ (toks : List Tok) (d : Nat) (r : List Tok),
    closeRest d toks = some r → r.length < toks.length
  | [], d, r, h => by simp [closeRest] at h
  | .start _ _ _ :: rest, d, r, h => by
      simp only [closeRest] at h
      have := closeRest_length rest _ r h
      simp only [List.length_cons]; omega
  | .stop _ _ :: rest, 0, r, h => by
      simp only [closeRest, Option.some.injEq] at h
      subst h; simp
  | .stop _ _ :: rest, d + 1, r, h => by
      simp only [closeRest] at h
      have := closeRest_length rest _ r h
      simp only [List.length_cons]; omega
  | .text _ :: rest, d, r, h => by
      simp only [closeRest] at h
      have := closeRest_length rest _ r h
      simp only [List.length_cons]; omega
  | .comment _ :: rest, d, r, h => by
      simp only [closeRest] at h
      have := closeRest_length rest _ r h
      simp only [List.length_cons]; omega
  | .procinst _ _ :: rest, d, r, h => by
      simp only [closeRest] at h
      have := closeRest_length rest _ r h
      simp only [List.length_cons]; omega
  | .directive _ :: rest, d, r, h => by
      simp only [closeRest] at h
      have := closeRest_length rest _ r h
      simp only [List.length_cons]; omega

/-- what `parseElem` returns, in terms of the independent scan -/
def ElemSpec (fin : StreamEnd) (toks : List Tok) (o : Outcome (Val × List Tok)) : Prop :=
  match closeRest 0 toks with
  | some r => ∃ v, o = .ok (v, r)
  | none => o = finErr fin

/-- with fuel > #tokens the out-of-fuel branch of `parseElem` is not reached, and the result is
    determined by the nesting-depth scan -/
theorem parseElem_spec (cfg : DecCfg) (S : Strconv) (fin : StreamEnd) :
    ∀ (f : Nat) (toks : List Tok), toks.length < f →
      ∀ (skey : Str) (na : Entries) (n : Option Val) (seq : Nat) (pend : Option Str),
        ElemSpec fin toks (parseElem cfg S fin f skey na n seq pend toks) := by
  intro f
  induction f with
  | zero => intro toks h; omega
  | succ f ih =>
    intro toks hlen skey na n seq pend
    match toks with
    | [] => cases fin <;> simp [ElemSpec, closeRest, parseElem, finErr]
    | .stop _ _ :: rest => simp [ElemSpec, closeRest, parseElem]
    | .text s :: rest =>
      simp only [List.length_cons] at hlen
      simp only [parseElem, ElemSpec, closeRest]
      exact ih rest (by omega) _ _ _ _ _
    | .comment _ :: rest =>
      simp only [List.length_cons] at hlen
      simp only [parseElem, ElemSpec, closeRest]
      exact ih rest (by omega) _ _ _ _ _
    | .procinst _ _ :: rest =>
      simp only [List.length_cons] at hlen
      simp only [parseElem, ElemSpec, closeRest]
      exact ih rest (by omega) _ _ _ _ _
    | .directive _ :: rest =>
      simp only [List.length_cons] at hlen
      simp only [parseElem, ElemSpec, closeRest]
      exact ih rest (by omega) _ _ _ _ _
    | .start sp name attrs :: rest =>
      simp only [List.length_cons] at hlen
      have h1 := ih rest (by omega) (elemKey cfg S name) (loadAttrs cfg S attrs) none 0 none
      have e : closeRest 0 (.start sp name attrs :: rest) = (closeRest 0 rest).bind (closeRest 0) :=
        closeRest_one rest
      simp only [parseElem, ElemSpec, e]
      simp only [ElemSpec] at h1
      cases hc : closeRest 0 rest with
      | none =>
        rw [hc] at h1
        rw [h1]
        cases fin <;> simp [finErr]
      | some r =>
        rw [hc] at h1
        obtain ⟨v, hv⟩ := h1
        rw [hv]
        have hr := closeRest_length rest 0 r hc
        simp only [Option.bind_some]
        exact ih r (by omega) _ _ _ _ _

/-- what `decodeTop` returns with fuel > #tokens -/
theorem decodeTop_spec (cfg : DecCfg) (S : Strconv) (fin : StreamEnd) :
    ∀ (f : Nat) (toks : List Tok), toks.length < f →
      (rootCloses toks = true → ∃ k x r, decodeTop cfg S fin f toks = .ok (.map [(k, x)], r)) ∧
      (rootCloses toks = false → decodeTop cfg S fin f toks = finErr fin) := by
  intro f
  induction f with
  | zero => intro toks h; omega
  | succ f ih =>
    intro toks hlen
    match toks with
    | [] => cases fin <;> simp [rootCloses, decodeTop, finErr]
    | .stop _ _ :: rest =>
      simp only [List.length_cons] at hlen
      simp only [rootCloses, decodeTop]
      exact ih rest (by omega)
    | .text _ :: rest =>
      simp only [List.length_cons] at hlen
      simp only [rootCloses, decodeTop]
      exact ih rest (by omega)
    | .comment _ :: rest =>
      simp only [List.length_cons] at hlen
      simp only [rootCloses, decodeTop]
      exact ih rest (by omega)
    | .procinst _ _ :: rest =>
      simp only [List.length_cons] at hlen
      simp only [rootCloses, decodeTop]
      exact ih rest (by omega)
    | .directive _ :: rest =>
      simp only [List.length_cons] at hlen
      simp only [rootCloses, decodeTop]
      exact ih rest (by omega)
    | .start sp name attrs :: rest =>
      simp only [List.length_cons] at hlen
      have h1 := parseElem_spec cfg S fin f rest (by omega) (elemKey cfg S name)
        (loadAttrs cfg S attrs) none 0 none
      simp only [ElemSpec] at h1
      simp only [rootCloses, decodeTop]
      cases hc : closeRest 0 rest with
      | none =>
        rw [hc] at h1
        rw [h1]
        cases fin <;> simp [finErr]
      | some r =>
        rw [hc] at h1
        obtain ⟨v, hv⟩ := h1
        rw [hv]
        simp

end Total

/-! ### (2) the sequence decoder -/

/-- result of the end-tag scan of the sequence decoder -/
inductive Scan where
  | closed (rest : List Tok)   -- every open element was closed by an end tag of its own name
  | trunc                      -- the tokens ran out first
  | bad                        -- an end tag with the wrong name
  deriving Repr

def Scan.bind : Scan → (List Tok → Scan) → Scan
  | .closed r, g => g r
  | .trunc, _ => .trunc
  | .bad, _ => .bad

/-- decoder-independent scan with the stack of the names of the open elements (innermost
    first): a start tag pushes its qualified name, an end tag must carry the name on top of
    the stack and pops it; done when the stack is empty -/
def seqScan (c : SeqCfg) : List Str → List Tok → Scan
  | [], toks => .closed toks
  | _ :: _, [] => .trunc
  | k :: st, .start sp n _ :: rest => seqScan c (qualName c sp n :: k :: st) rest
  | k :: st, .stop sp n :: rest => if qualName c sp n = k then seqScan c st rest else .bad
  | k :: st, .text _ :: rest => seqScan c (k :: st) rest
  | k :: st, .comment _ :: rest => seqScan c (k :: st) rest
  | k :: st, .procinst _ _ :: rest => seqScan c (k :: st) rest
  | k :: st, .directive _ :: rest => seqScan c (k :: st) rest

/-- the four ways `NewMapXmlSeq` can end -/
inductive SeqClass where
  | doc        -- a root element, properly closed
  | noRoot     -- a comment / directive / processing instruction ahead of any root
  | trunc      -- the tokens run out before the root closes (or before any root)
  | badEnd     -- a stray end tag ahead of the root, or an end tag with the wrong name
  deriving Repr, DecidableEq

/-- decoder-independent classification of a token list (character data ahead of the root is
    skipped) -/
def seqClass (c : SeqCfg) : List Tok → SeqClass
  | [] => .trunc
  | .start sp n _ :: rest =>
      match seqScan c [qualName c sp n] rest with
      | .closed _ => .doc
      | .trunc => .trunc
      | .bad => .badEnd
  | .stop _ _ :: _ => .badEnd
  | .text _ :: rest => seqClass c rest
  | .comment _ :: _ => .noRoot
  | .procinst _ _ :: _ => .noRoot
  | .directive _ :: _ => .noRoot

namespace Total

theorem seqScan_append (c : SeqCfg) : ∀ (toks : List Tok) (s1 s2 : List Str),
    seqScan c (s1 ++ s2) toks = (seqScan c s1 toks).bind (seqScan c s2)
  | toks, [], s2 => by simp [seqScan, Scan.bind]
  | [], k :: s1, s2 => by simp [seqScan, Scan.bind]
  | .start sp n _ :: rest, k :: s1, s2 => by
      simp only [List.cons_append, seqScan]
      exact seqScan_append c rest (qualName c sp n :: k :: s1) s2
  | .stop sp n :: rest, k :: s1, s2 => by
      simp only [List.cons_append, seqScan]
      split
      · exact seqScan_append c rest s1 s2
      · rfl
  | .text _ :: rest, k :: s1, s2 => by
      simp only [List.cons_append, seqScan]
      exact seqScan_append c rest (k :: s1) s2
  | .comment _ :: rest, k :: s1, s2 => by
      simp only [List.cons_append, seqScan]
      exact seqScan_append c rest (k :: s1) s2
  | .procinst _ _ :: rest, k :: s1, s2 => by
      simp only [List.cons_append, seqScan]
      exact seqScan_append c rest (k :: s1) s2
  | .directive _ :: rest, k :: s1, s2 => by
      simp only [List.cons_append, seqScan]
      exact seqScan_append c rest (k :: s1) s2

theorem seqScan_length (c : SeqCfg) : ∀ (toks : List Tok) (st : List Str) (r : List Tok),
    seqScan c st toks = .closed r → r.length + st.length ≤ toks.length
  | toks, [], r, h => by
      simp only [seqScan, Scan.closed.injEq] at h
      subst h; simp
  | [], k :: st, r, h => by simp [seqScan] at h
  | .start sp n _ :: rest, k :: st, r, h => by
      simp only [seqScan] at h
      have := seqScan_length c rest _ r h
      simp only [List.length_cons] at this ⊢; omega
  | .stop sp n :: rest, k :: st, r, h => by
      simp only [seqScan] at h
      split at h
      · have := seqScan_length c rest _ r h
        simp only [List.length_cons] at this ⊢; omega
      · cases h
  | .text _ :: rest, k :: st, r, h => by
      simp only [seqScan] at h
      have := seqScan_length c rest _ r h
      simp only [List.length_cons] at this ⊢; omega
  | .comment _ :: rest, k :: st, r, h => by
      simp only [seqScan] at h
      have := seqScan_length c rest _ r h
      simp only [List.length_cons] at this ⊢; omega
  | .procinst _ _ :: rest, k :: st, r, h => by
      simp only [seqScan] at h
      have := seqScan_length c rest _ r h
      simp only [List.length_cons] at this ⊢; omega
  | .directive _ :: rest, k :: st, r, h => by
      simp only [seqScan] at h
      have := seqScan_length c rest _ r h
      simp only [List.length_cons] at this ⊢; omega

/-- the CharData case of `seqElem` continues on the remaining tokens with the same key; the
    entries are unchanged, or gain a cast text value (and possibly its sequence number) -/
theorem seqElem_text_step (c : SeqCfg) (S : Strconv) (fin : StreamEnd) (f : Nat) (skey : Str)
    (na : Entries) (seq : Nat) (pend : Option (Str × Bool)) (s : Str) (rest : List Tok)
    (P : Entries → Prop) (h0 : P na)
    (h1 : ∀ x, Dec.scalar x = true → P (insert c.textK x na))
    (h2 : ∀ x, Dec.scalar x = true → P (insert c.seqK (seqNum seq) (insert c.textK x na))) :
    ∃ na' seq' pend', P na' ∧
      seqElem c S fin (f + 1) skey na seq pend (.text s :: rest)
        = seqElem c S fin f skey na' seq' pend' rest := by
  rcases pend with _ | ⟨p, b⟩ <;> simp only [seqElem]
  · split
    · exact ⟨_, _, _, h0, rfl⟩
    · split
      · exact ⟨_, _, _, h1 _ (Dec.cast_scalar _ _ _ _), rfl⟩
      · exact ⟨_, _, _, h2 _ (Dec.cast_scalar _ _ _ _), rfl⟩
  · split
    · exact ⟨_, _, _, h0, rfl⟩
    · split
      · exact ⟨_, _, _, h1 _ (Dec.cast_scalar _ _ _ _), rfl⟩
      · exact ⟨_, _, _, h2 _ (Dec.cast_scalar _ _ _ _), rfl⟩

/-- what `seqElem` returns, in terms of the independent scan -/
def SeqElemSpec (c : SeqCfg) (fin : StreamEnd) (skey : Str) (toks : List Tok)
    (o : Outcome (Val × List Tok)) : Prop :=
  match seqScan c [skey] toks with
  | .closed r => ∃ v, o = .ok (v, r)
  | .trunc => o = finErr fin
  | .bad => o = .err .other

theorem seqElem_spec (c : SeqCfg) (S : Strconv) (fin : StreamEnd) :
    ∀ (f : Nat) (toks : List Tok), toks.length < f →
      ∀ (skey : Str) (na : Entries) (seq : Nat) (pend : Option (Str × Bool)),
        SeqElemSpec c fin skey toks (seqElem c S fin f skey na seq pend toks) := by
  intro f
  induction f with
  | zero => intro toks h; omega
  | succ f ih =>
    intro toks hlen skey na seq pend
    match toks with
    | [] => cases fin <;> simp [SeqElemSpec, seqScan, seqElem, finErr]
    | .stop sp n :: rest =>
      simp only [SeqElemSpec, seqScan, seqElem]
      by_cases hq : qualName c sp n = skey <;> simp [hq]
    | .text s :: rest =>
      simp only [List.length_cons] at hlen
      obtain ⟨na', seq', pend', -, e⟩ := seqElem_text_step c S fin f skey na seq pend s rest
        (fun _ => True) trivial (fun _ _ => trivial) (fun _ _ => trivial)
      rw [e]
      simp only [SeqElemSpec, seqScan]
      exact ih rest (by omega) _ _ _ _
    | .comment _ :: rest =>
      simp only [List.length_cons] at hlen
      simp only [seqElem, SeqElemSpec, seqScan]
      exact ih rest (by omega) _ _ _ _
    | .procinst _ _ :: rest =>
      simp only [List.length_cons] at hlen
      simp only [seqElem, SeqElemSpec, seqScan]
      exact ih rest (by omega) _ _ _ _
    | .directive _ :: rest =>
      simp only [List.length_cons] at hlen
      simp only [seqElem, SeqElemSpec, seqScan]
      exact ih rest (by omega) _ _ _ _
    | .start sp name attrs :: rest =>
      simp only [List.length_cons] at hlen
      have h1 := ih rest (by omega) (qualName c sp name) (seqInitNa c S attrs) 0 none
      have e : seqScan c [skey] (.start sp name attrs :: rest)
          = (seqScan c [qualName c sp name] rest).bind (seqScan c [skey]) :=
        seqScan_append c rest [qualName c sp name] [skey]
      simp only [seqElem, SeqElemSpec, e]
      simp only [SeqElemSpec] at h1
      cases hc : seqScan c [qualName c sp name] rest with
      | trunc =>
        rw [hc] at h1
        rw [h1]
        cases fin <;> simp [finErr, Scan.bind]
      | bad =>
        rw [hc] at h1
        rw [h1]
        simp [Scan.bind]
      | closed r =>
        rw [hc] at h1
        obtain ⟨v, hv⟩ := h1
        rw [hv]
        have hr := seqScan_length c rest _ r hc
        simp only [List.length_cons, List.length_nil] at hr
        simp only [Scan.bind]
        exact ih r (by omega) _ _ _ _

/-- complete outcome classification of `seqTop` with fuel > #tokens -/
def SeqTopSpec (c : SeqCfg) (fin : StreamEnd) (toks : List Tok) (o : Outcome SeqTop) : Prop :=
  match seqClass c toks with
  | .doc => ∃ k v, o = .ok (.doc (.map [(k, v)]))
  | .noRoot => ∃ m, o = .ok (.noRoot m)
  | .trunc => o = finErr fin
  | .badEnd => o = .err .other

theorem seqTop_spec (c : SeqCfg) (S : Strconv) (fin : StreamEnd) :
    ∀ (f : Nat) (toks : List Tok), toks.length < f →
      SeqTopSpec c fin toks (seqTop c S fin f toks) := by
  intro f
  induction f with
  | zero => intro toks h; omega
  | succ f ih =>
    intro toks hlen
    match toks with
    | [] => cases fin <;> simp [SeqTopSpec, seqClass, seqTop, finErr]
    | .stop _ _ :: rest => simp [SeqTopSpec, seqClass, seqTop]
    | .comment _ :: rest => simp [SeqTopSpec, seqClass, seqTop]
    | .procinst _ _ :: rest => simp [SeqTopSpec, seqClass, seqTop]
    | .directive _ :: rest => simp [SeqTopSpec, seqClass, seqTop]
    | .text _ :: rest =>
      simp only [List.length_cons] at hlen
      simp only [SeqTopSpec, seqClass, seqTop]
      exact ih rest (by omega)
    | .start sp name attrs :: rest =>
      simp only [List.length_cons] at hlen
      have h1 := seqElem_spec c S fin f rest (by omega) (qualName c sp name)
        (seqInitNa c S attrs) 0 none
      simp only [SeqElemSpec] at h1
      simp only [SeqTopSpec, seqClass, seqTop]
      cases hc : seqScan c [qualName c sp name] rest with
      | trunc =>
        rw [hc] at h1
        rw [h1]
        cases fin <;> simp [finErr]
      | bad =>
        rw [hc] at h1
        rw [h1]
      | closed r =>
        rw [hc] at h1
        obtain ⟨v, hv⟩ := h1
        rw [hv]
        simp

end Total

/-! ### (4) the sequence encoder on decoder output -/

/-- the `#attr` entry, when it is a map, holds only maps (`seqAttrText` asserts that) -/
def attrsShaped : Option Val → Bool
  | some (.map av) => av.all (fun e => e.2.isMap)
  | _ => true

mutual
/-- `shapedAt c key v`: the value `v` stored under `key` passes every unchecked type assertion
    of `mapToXmlSeqIndent`: under the comment / directive key a map whose text is a string,
    under the procinst key a map with string target and instruction, elsewhere a map whose
    `#attr` map (if any) holds maps and whose child entries (those `unrollEntries` keeps) are
    shaped under their own keys -/
def shapedAt (c : SeqCfg) : Str → Val → Bool
  | key, .map val =>
      if key = c.commentK then (strOf (lookup c.textK val)).isSome
      else if key = c.directiveK then (strOf (lookup c.textK val)).isSome
      else if key = c.procinstK then
        (strOf (lookup c.targetK val)).isSome && (strOf (lookup c.instK val)).isSome
      else attrsShaped (lookup c.attrK val) && shapedEntries c val
  | key, .list xs => shapedList c key xs
  | _, _ => true
def shapedList (c : SeqCfg) : Str → List Val → Bool
  | _, [] => true
  | key, x :: xs => shapedAt c key x && shapedList c key xs
def shapedEntries (c : SeqCfg) : Entries → Bool
  | [] => true
  | (k, v) :: rest =>
      (decide (k = c.attrK) || decide (k = c.seqK) || decide (k = c.textK) || shapedAt c k v)
        && shapedEntries c rest
end

/-- the invariant on a MapSeq: one root entry, not a list, shaped under its key -/
def SeqShaped (c : SeqCfg) : Val → Bool
  | .map [(key, v)] => !v.isList && shapedAt c key v
  | _ => false

def NoPanic {α : Type} (o : Outcome α) : Prop := ∀ site, o ≠ .panic site

namespace Total

theorem mem_insertBySeq (c : SeqCfg) (e x : Str × Val) : ∀ (l : List (Str × Val)),
    x ∈ insertBySeq c e l → x = e ∨ x ∈ l
  | [], h => by simpa [insertBySeq] using h
  | y :: ys, h => by
      simp only [insertBySeq] at h
      split at h
      · rcases List.mem_cons.1 h with h | h
        · exact .inr (by simp [h])
        · rcases mem_insertBySeq c e x ys h with h | h
          · exact .inl h
          · exact .inr (List.mem_cons_of_mem _ h)
      · rcases List.mem_cons.1 h with h | h
        · exact .inl h
        · exact .inr h

theorem mem_sortBySeq (c : SeqCfg) (x : Str × Val) : ∀ (l : List (Str × Val)),
    x ∈ sortBySeq c l → x ∈ l
  | [], h => by simp [sortBySeq] at h
  | y :: ys, h => by
      have h' : x ∈ insertBySeq c y (sortBySeq c ys) := h
      rcases mem_insertBySeq c y x _ h' with h | h
      · simp [h]
      · exact List.mem_cons_of_mem _ (mem_sortBySeq c x ys h)

theorem seqAttrText_noPanic (c : SeqCfg) (esc : Bool) (k : Str) (v : Val) (h : v.isMap = true) :
    NoPanic (seqAttrText c esc k v) := by
  intro site
  cases v <;> simp [Val.isMap] at h
  simp only [seqAttrText]
  split <;> simp

theorem seqAttrsText_noPanic (c : SeqCfg) (esc : Bool) : ∀ (l : List (Str × Val)),
    (∀ e ∈ l, e.2.isMap = true) → NoPanic (seqAttrsText c esc l)
  | [], _ => by intro site; simp [seqAttrsText]
  | (k, v) :: rest, h => by
      have h1 := seqAttrText_noPanic c esc k v (h (k, v) (by simp))
      have h2 := seqAttrsText_noPanic c esc rest (fun e he => h e (List.mem_cons_of_mem _ he))
      intro site
      simp only [seqAttrsText]
      cases ha : seqAttrText c esc k v <;> cases hr : seqAttrsText c esc rest <;> simp
      all_goals first
        | exact fun e => h1 site (by rw [ha, e])
        | exact fun e => h2 site (by rw [hr, e])

theorem shapedList_mem (c : SeqCfg) (key : Str) : ∀ (xs : List Val), shapedList c key xs = true →
    ∀ x ∈ xs, shapedAt c key x = true
  | [], _, x, hx => by simp at hx
  | y :: ys, h, x, hx => by
      simp only [shapedList, Bool.and_eq_true] at h
      rcases List.mem_cons.1 hx with hx | hx
      · subst hx; exact h.1
      · exact shapedList_mem c key ys h.2 x hx

theorem shaped_unroll (c : SeqCfg) : ∀ (val : Entries), shapedEntries c val = true →
    ∀ e ∈ unrollEntries c val, shapedAt c e.1 e.2 = true
  | [], _, e, he => by simp [unrollEntries] at he
  | (k, v) :: rest, h, e, he => by
      simp only [shapedEntries, Bool.and_eq_true, Bool.or_eq_true, decide_eq_true_eq] at h
      have ih := shaped_unroll c rest h.2
      simp only [unrollEntries] at he
      split at he
      · exact ih e he
      · rename_i hk
        simp only [Bool.or_eq_true, decide_eq_true_eq, not_or] at hk
        have hv : shapedAt c k v = true := by
          rcases h.1 with ((h1 | h1) | h1) | h1
          · exact absurd h1 hk.1.1
          · exact absurd h1 hk.1.2
          · exact absurd h1 hk.2
          · exact h1
        split at he
        · rename_i xs
          rcases List.mem_append.1 he with he | he
          · obtain ⟨x, hx, rfl⟩ := List.mem_map.1 he
            simp only [shapedAt] at hv
            exact shapedList_mem c k xs hv x hx
          · exact ih e he
        · rcases List.mem_cons.1 he with he | he
          · subst he; exact hv
          · exact ih e he

theorem seqMembers_noPanic (c : SeqCfg) (esc goEmpty : Bool) (f : Nat)
    (ih : ∀ key v, shapedAt c key v = true → NoPanic (seqEnc c esc goEmpty f key v))
    (key : Str) : ∀ (xs : List Val), shapedList c key xs = true →
      NoPanic (seqMembers c esc goEmpty f key xs)
  | [], _ => by intro site; simp [seqMembers]
  | x :: xs, h => by
      simp only [shapedList, Bool.and_eq_true] at h
      have h1 := ih key x h.1
      have h2 := seqMembers_noPanic c esc goEmpty f ih key xs h.2
      intro site
      simp only [seqMembers]
      cases ha : seqEnc c esc goEmpty f key x <;> simp
      · cases hr : seqMembers c esc goEmpty f key xs <;> simp
        exact fun e => h2 site (by rw [hr, e])
      · exact fun e => h1 site (by rw [ha, e])

theorem seqKids_noPanic (c : SeqCfg) (esc goEmpty : Bool) (f : Nat)
    (ih : ∀ key v, shapedAt c key v = true → NoPanic (seqEnc c esc goEmpty f key v)) :
    ∀ (l : List (Str × Val)), (∀ e ∈ l, shapedAt c e.1 e.2 = true) →
      NoPanic (seqKids c esc goEmpty f l)
  | [], _ => by intro site; simp [seqKids]
  | (k, v) :: rest, h => by
      have h1 := ih k v (h (k, v) (by simp))
      have h2 := seqKids_noPanic c esc goEmpty f ih rest
        (fun e he => h e (List.mem_cons_of_mem _ he))
      intro site
      simp only [seqKids]
      cases ha : seqEnc c esc goEmpty f k v <;> simp
      · cases hr : seqKids c esc goEmpty f rest <;> simp
        exact fun e => h2 site (by rw [hr, e])
      · exact fun e => h1 site (by rw [ha, e])

/-- under the shape invariant the sequence encoder reaches none of its `.panic` sites -/
theorem seqEnc_noPanic (c : SeqCfg) (esc goEmpty : Bool) : ∀ (f : Nat) (key : Str) (v : Val),
    shapedAt c key v = true → NoPanic (seqEnc c esc goEmpty f key v) := by
  intro f
  induction f with
  | zero => intro key v _ site; simp [seqEnc]
  | succ f ih =>
    intro key v hs site
    cases v with
    | null => simp [seqEnc]
    | bool b => simp only [seqEnc]; split <;> simp
    | num t => simp only [seqEnc]; split <;> simp
    | str s => simp [seqEnc]
    | list xs =>
      simp only [seqEnc]
      simp only [shapedAt] at hs
      exact seqMembers_noPanic c esc goEmpty f ih key xs hs site
    | map val =>
      simp only [shapedAt] at hs
      simp only [seqEnc]
      by_cases h1 : key = c.commentK
      · rw [if_pos h1] at hs ⊢
        cases hh : strOf (lookup c.textK val) with
        | none => simp [hh] at hs
        | some s => simp
      · rw [if_neg h1] at hs ⊢
        by_cases h2 : key = c.directiveK
        · rw [if_pos h2] at hs ⊢
          cases hh : strOf (lookup c.textK val) with
          | none => simp [hh] at hs
          | some s => simp
        · rw [if_neg h2] at hs ⊢
          by_cases h3 : key = c.procinstK
          · rw [if_pos h3] at hs ⊢
            simp only [Bool.and_eq_true] at hs
            cases hh : strOf (lookup c.targetK val) with
            | none => simp [hh] at hs
            | some s =>
              cases hi : strOf (lookup c.instK val) with
              | none => simp [hi] at hs
              | some s => simp
          · rw [if_neg h3] at hs ⊢
            simp only [Bool.and_eq_true] at hs
            have hk := seqKids_noPanic c esc goEmpty f ih (sortBySeq c (unrollEntries c val))
              (fun e he => shaped_unroll c val hs.2 e (mem_sortBySeq c e _ he))
            generalize seqKids c esc goEmpty f (sortBySeq c (unrollEntries c val)) = K at hk ⊢
            have ha : ∀ av, lookup c.attrK val = some (.map av) →
                NoPanic (seqAttrsText c esc (sortBySeq c av)) := by
              intro av hl
              have := hs.1
              rw [hl] at this
              simp only [attrsShaped, List.all_eq_true] at this
              exact seqAttrsText_noPanic c esc _ (fun e he => this e (mem_sortBySeq c e _ he))
            intro e
            trace_state
            sorry

end Total
end Mxj
