/-
  Mxj.Lemmas.Total — helper lemmas for C15 (Props/C15.lean): totality of the decoders.
  (1) `closeRest` / `rootCloses`: a decoder-independent nesting-depth scan of the token list;
      with fuel > #tokens `parseElem` / `decodeTop` succeed exactly when the scan finds the
      matching end tag, and otherwise return the error kind of the stream end;
  (2) `seqScan` / `seqClass`: the same for the sequence decoder (which also compares end-tag
      names), giving a complete outcome classification of `newMapXmlSeq`;
  (3) `EncOK`: the shape invariant that makes the compact Map encoder succeed, established by
      the Map decoder when no element key is read as an attribute key / the text key;
  (4) `SeqShaped`: the shape invariant under which `seqEnc` reaches none of its `.panic`
      sites, established by the sequence decoder;
  (5) `getJson` (total by structural recursion on the schedule) returns `.doc` only in the
      form `{ … }`.
-/
import Mxj.Model.Seq
import Mxj.Lemmas.Decode
import Mxj.Lemmas.Stream
namespace Mxj

/-! ### (1) the Map decoder -/

/-- Scan for the end tag that closes the current element.  `d` = number of elements opened
    (and not yet closed) inside the current one, i.e. the nesting depth is `d + 1`: every
    `.start` +1, every `.stop` −1; when the depth returns to 0 the unread tokens are returned.
    Names are not compared (the `Token()` stream is already well nested). -/
def closeRest : Nat → List Tok → Option (List Tok)
  | _, [] => none
  | d, .start _ _ _ :: rest => closeRest (d + 1) rest
  | 0, .stop _ _ :: rest => some rest
  | d + 1, .stop _ _ :: rest => closeRest d rest
  | d, .text _ :: rest => closeRest d rest
  | d, .comment _ :: rest => closeRest d rest
  | d, .procinst _ _ :: rest => closeRest d rest
  | d, .directive _ :: rest => closeRest d rest

/-- skip tokens up to the first start element, then the element must close -/
def rootCloses : List Tok → Bool
  | [] => false
  | .start _ _ _ :: rest => (closeRest 0 rest).isSome
  | .stop _ _ :: rest => rootCloses rest
  | .text _ :: rest => rootCloses rest
  | .comment _ :: rest => rootCloses rest
  | .procinst _ _ :: rest => rootCloses rest
  | .directive _ :: rest => rootCloses rest

/-- the error a decoder reports when the tokens run out -/
def finErr {α : Type} : StreamEnd → Outcome α
  | .eof => .eof
  | .bad => .syntax

namespace Total

theorem closeRest_split : ∀ (toks : List Tok) (d e : Nat),
    closeRest (d + e + 1) toks = (closeRest d toks).bind (closeRest e)
  | [], d, e => by simp [closeRest]
  | .start _ _ _ :: rest, d, e => by
      simp only [closeRest]
      have := closeRest_split rest (d + 1) e
      rw [show d + 1 + e + 1 = d + e + 1 + 1 by omega] at this
      exact this
  | .stop _ _ :: rest, 0, e => by simp [closeRest]
  | .stop _ _ :: rest, d + 1, e => by
      rw [show d + 1 + e + 1 = (d + e + 1) + 1 by omega]
      simp only [closeRest]
      exact closeRest_split rest d e
  | .text _ :: rest, d, e => by simp only [closeRest]; exact closeRest_split rest d e
  | .comment _ :: rest, d, e => by simp only [closeRest]; exact closeRest_split rest d e
  | .procinst _ _ :: rest, d, e => by simp only [closeRest]; exact closeRest_split rest d e
  | .directive _ :: rest, d, e => by simp only [closeRest]; exact closeRest_split rest d e

theorem closeRest_one (toks : List Tok) :
    closeRest 1 toks = (closeRest 0 toks).bind (closeRest 0) := closeRest_split toks 0 0

theorem closeRest_length : ∀ (toks : List Tok) (d : Nat) (r : List Tok),
    closeRest d toks = some r → r.length < toks.length
  | [], d, r, h => by simp [closeRest] at h
  | .start _ _ _ :: rest, d, r, h => by
      simp only [closeRest] at h
      have := closeRest_length rest _ r h
      simp only [List.length_cons]; omega
  | .stop _ _ :: rest, 0, r, h => by
      simp only [closeRest, Option.some.injEq] at h
      subst h; simp
  | .stop _ _ :: rest, d + 1, r, h => by
      simp only [closeRest] at h
      have := closeRest_length rest _ r h
      simp only [List.length_cons]; omega
  | .text _ :: rest, d, r, h => by
      simp only [closeRest] at h
      have := closeRest_length rest _ r h
      simp only [List.length_cons]; omega
  | .comment _ :: rest, d, r, h => by
      simp only [closeRest] at h
      have := closeRest_length rest _ r h
      simp only [List.length_cons]; omega
  | .procinst _ _ :: rest, d, r, h => by
      simp only [closeRest] at h
      have := closeRest_length rest _ r h
      simp only [List.length_cons]; omega
  | .directive _ :: rest, d, r, h => by
      simp only [closeRest] at h
      have := closeRest_length rest _ r h
      simp only [List.length_cons]; omega

/-- what `parseElem` returns, in terms of the independent scan -/
def ElemSpec (fin : StreamEnd) (toks : List Tok) (o : Outcome (Val × List Tok)) : Prop :=
  match closeRest 0 toks with
  | some r => ∃ v, o = .ok (v, r)
  | none => o = finErr fin

/-- with fuel > #tokens the out-of-fuel branch of `parseElem` is not reached, and the result is
    determined by the nesting-depth scan -/
theorem parseElem_spec (cfg : DecCfg) (S : Strconv) (fin : StreamEnd) :
    ∀ (f : Nat) (toks : List Tok), toks.length < f →
      ∀ (skey : Str) (na : Entries) (n : Option Val) (seq : Nat) (pend : Option Str),
        ElemSpec fin toks (parseElem cfg S fin f skey na n seq pend toks) := by
  intro f
  induction f with
  | zero => intro toks h; omega
  | succ f ih =>
    intro toks hlen skey na n seq pend
    match toks with
    | [] => cases fin <;> simp [ElemSpec, closeRest, parseElem, finErr]
    | .stop _ _ :: rest => simp [ElemSpec, closeRest, parseElem]
    | .text s :: rest =>
      simp only [List.length_cons] at hlen
      simp only [parseElem, ElemSpec, closeRest]
      exact ih rest (by omega) _ _ _ _ _
    | .comment _ :: rest =>
      simp only [List.length_cons] at hlen
      simp only [parseElem, ElemSpec, closeRest]
      exact ih rest (by omega) _ _ _ _ _
    | .procinst _ _ :: rest =>
      simp only [List.length_cons] at hlen
      simp only [parseElem, ElemSpec, closeRest]
      exact ih rest (by omega) _ _ _ _ _
    | .directive _ :: rest =>
      simp only [List.length_cons] at hlen
      simp only [parseElem, ElemSpec, closeRest]
      exact ih rest (by omega) _ _ _ _ _
    | .start sp name attrs :: rest =>
      simp only [List.length_cons] at hlen
      have h1 := ih rest (by omega) (elemKey cfg S name) (loadAttrs cfg S attrs) none 0 none
      have e : closeRest 0 (.start sp name attrs :: rest) = (closeRest 0 rest).bind (closeRest 0) :=
        closeRest_one rest
      simp only [parseElem, ElemSpec, e]
      simp only [ElemSpec] at h1
      cases hc : closeRest 0 rest with
      | none =>
        rw [hc] at h1
        rw [h1]
        cases fin <;> simp [finErr]
      | some r =>
        rw [hc] at h1
        obtain ⟨v, hv⟩ := h1
        rw [hv]
        have hr := closeRest_length rest 0 r hc
        simp only [Option.bind_some]
        exact ih r (by omega) _ _ _ _ _

/-- what `decodeTop` returns with fuel > #tokens -/
theorem decodeTop_spec (cfg : DecCfg) (S : Strconv) (fin : StreamEnd) :
    ∀ (f : Nat) (toks : List Tok), toks.length < f →
      (rootCloses toks = true → ∃ k x r, decodeTop cfg S fin f toks = .ok (.map [(k, x)], r)) ∧
      (rootCloses toks = false → decodeTop cfg S fin f toks = finErr fin) := by
  intro f
  induction f with
  | zero => intro toks h; omega
  | succ f ih =>
    intro toks hlen
    match toks with
    | [] => cases fin <;> simp [rootCloses, decodeTop, finErr]
    | .stop _ _ :: rest =>
      simp only [List.length_cons] at hlen
      simp only [rootCloses, decodeTop]
      exact ih rest (by omega)
    | .text _ :: rest =>
      simp only [List.length_cons] at hlen
      simp only [rootCloses, decodeTop]
      exact ih rest (by omega)
    | .comment _ :: rest =>
      simp only [List.length_cons] at hlen
      simp only [rootCloses, decodeTop]
      exact ih rest (by omega)
    | .procinst _ _ :: rest =>
      simp only [List.length_cons] at hlen
      simp only [rootCloses, decodeTop]
      exact ih rest (by omega)
    | .directive _ :: rest =>
      simp only [List.length_cons] at hlen
      simp only [rootCloses, decodeTop]
      exact ih rest (by omega)
    | .start sp name attrs :: rest =>
      simp only [List.length_cons] at hlen
      have h1 := parseElem_spec cfg S fin f rest (by omega) (elemKey cfg S name)
        (loadAttrs cfg S attrs) none 0 none
      simp only [ElemSpec] at h1
      simp only [rootCloses, decodeTop]
      cases hc : closeRest 0 rest with
      | none =>
        rw [hc] at h1
        rw [h1]
        cases fin <;> simp [finErr]
      | some r =>
        rw [hc] at h1
        obtain ⟨v, hv⟩ := h1
        rw [hv]
        simp

end Total

/-! ### (2) the sequence decoder -/

/-- result of the end-tag scan of the sequence decoder -/
inductive Scan where
  | closed (rest : List Tok)   -- every open element was closed by an end tag of its own name
  | trunc                      -- the tokens ran out first
  | bad                        -- an end tag with the wrong name
  deriving Repr

def Scan.bind : Scan → (List Tok → Scan) → Scan
  | .closed r, g => g r
  | .trunc, _ => .trunc
  | .bad, _ => .bad

/-- decoder-independent scan with the stack of the names of the open elements (innermost
    first): a start tag pushes its qualified name, an end tag must carry the name on top of
    the stack and pops it; done when the stack is empty -/
def seqScan (c : SeqCfg) : List Str → List Tok → Scan
  | [], toks => .closed toks
  | _ :: _, [] => .trunc
  | k :: st, .start sp n _ :: rest => seqScan c (qualName c sp n :: k :: st) rest
  | k :: st, .stop sp n :: rest => if qualName c sp n = k then seqScan c st rest else .bad
  | k :: st, .text _ :: rest => seqScan c (k :: st) rest
  | k :: st, .comment _ :: rest => seqScan c (k :: st) rest
  | k :: st, .procinst _ _ :: rest => seqScan c (k :: st) rest
  | k :: st, .directive _ :: rest => seqScan c (k :: st) rest

/-- the four ways `NewMapXmlSeq` can end -/
inductive SeqClass where
  | doc        -- a root element, properly closed
  | noRoot     -- a comment / directive / processing instruction ahead of any root
  | trunc      -- the tokens run out before the root closes (or before any root)
  | badEnd     -- a stray end tag ahead of the root, or an end tag with the wrong name
  deriving Repr, DecidableEq

/-- decoder-independent classification of a token list (character data ahead of the root is
    skipped) -/
def seqClass (c : SeqCfg) : List Tok → SeqClass
  | [] => .trunc
  | .start sp n _ :: rest =>
      match seqScan c [qualName c sp n] rest with
      | .closed _ => .doc
      | .trunc => .trunc
      | .bad => .badEnd
  | .stop _ _ :: _ => .badEnd
  | .text _ :: rest => seqClass c rest
  | .comment _ :: _ => .noRoot
  | .procinst _ _ :: _ => .noRoot
  | .directive _ :: _ => .noRoot

namespace Total

theorem seqScan_append (c : SeqCfg) : ∀ (toks : List Tok) (s1 s2 : List Str),
    seqScan c (s1 ++ s2) toks = (seqScan c s1 toks).bind (seqScan c s2)
  | toks, [], s2 => by simp [seqScan, Scan.bind]
  | [], k :: s1, s2 => by simp [seqScan, Scan.bind]
  | .start sp n _ :: rest, k :: s1, s2 => by
      simp only [List.cons_append, seqScan]
      exact seqScan_append c rest (qualName c sp n :: k :: s1) s2
  | .stop sp n :: rest, k :: s1, s2 => by
      simp only [List.cons_append, seqScan]
      split
      · exact seqScan_append c rest s1 s2
      · rfl
  | .text _ :: rest, k :: s1, s2 => by
      simp only [List.cons_append, seqScan]
      exact seqScan_append c rest (k :: s1) s2
  | .comment _ :: rest, k :: s1, s2 => by
      simp only [List.cons_append, seqScan]
      exact seqScan_append c rest (k :: s1) s2
  | .procinst _ _ :: rest, k :: s1, s2 => by
      simp only [List.cons_append, seqScan]
      exact seqScan_append c rest (k :: s1) s2
  | .directive _ :: rest, k :: s1, s2 => by
      simp only [List.cons_append, seqScan]
      exact seqScan_append c rest (k :: s1) s2

theorem seqScan_length (c : SeqCfg) : ∀ (toks : List Tok) (st : List Str) (r : List Tok),
    seqScan c st toks = .closed r → r.length + st.length ≤ toks.length
  | toks, [], r, h => by
      simp only [seqScan, Scan.closed.injEq] at h
      subst h; simp
  | [], k :: st, r, h => by simp [seqScan] at h
  | .start sp n _ :: rest, k :: st, r, h => by
      simp only [seqScan] at h
      have := seqScan_length c rest _ r h
      simp only [List.length_cons] at this ⊢; omega
  | .stop sp n :: rest, k :: st, r, h => by
      simp only [seqScan] at h
      split at h
      · have := seqScan_length c rest _ r h
        simp only [List.length_cons] at this ⊢; omega
      · cases h
  | .text _ :: rest, k :: st, r, h => by
      simp only [seqScan] at h
      have := seqScan_length c rest _ r h
      simp only [List.length_cons] at this ⊢; omega
  | .comment _ :: rest, k :: st, r, h => by
      simp only [seqScan] at h
      have := seqScan_length c rest _ r h
      simp only [List.length_cons] at this ⊢; omega
  | .procinst _ _ :: rest, k :: st, r, h => by
      simp only [seqScan] at h
      have := seqScan_length c rest _ r h
      simp only [List.length_cons] at this ⊢; omega
  | .directive _ :: rest, k :: st, r, h => by
      simp only [seqScan] at h
      have := seqScan_length c rest _ r h
      simp only [List.length_cons] at this ⊢; omega

/-- the CharData case of `seqElem` continues on the remaining tokens with the same key; the
    entries are unchanged, or gain a cast text value (and possibly its sequence number) -/
theorem seqElem_text_step (c : SeqCfg) (S : Strconv) (fin : StreamEnd) (f : Nat) (skey : Str)
    (na : Entries) (seq : Nat) (pend : Option (Str × Bool)) (s : Str) (rest : List Tok)
    (P : Entries → Prop) (h0 : P na)
    (h1 : ∀ x, Dec.scalar x = true → P (insert c.textK x na))
    (h2 : ∀ x, Dec.scalar x = true → P (insert c.seqK (seqNum seq) (insert c.textK x na))) :
    ∃ na' seq' pend', P na' ∧
      seqElem c S fin (f + 1) skey na seq pend (.text s :: rest)
        = seqElem c S fin f skey na' seq' pend' rest := by
  rcases pend with _ | ⟨p, b⟩ <;> simp only [seqElem]
  · split
    · exact ⟨_, _, _, h0, rfl⟩
    · split
      · exact ⟨_, _, _, h1 _ (Dec.cast_scalar _ _ _ _), rfl⟩
      · exact ⟨_, _, _, h2 _ (Dec.cast_scalar _ _ _ _), rfl⟩
  · split
    · exact ⟨_, _, _, h0, rfl⟩
    · split
      · exact ⟨_, _, _, h1 _ (Dec.cast_scalar _ _ _ _), rfl⟩
      · exact ⟨_, _, _, h2 _ (Dec.cast_scalar _ _ _ _), rfl⟩

/-- what `seqElem` returns, in terms of the independent scan -/
def SeqElemSpec (c : SeqCfg) (fin : StreamEnd) (skey : Str) (toks : List Tok)
    (o : Outcome (Val × List Tok)) : Prop :=
  match seqScan c [skey] toks with
  | .closed r => ∃ v, o = .ok (v, r)
  | .trunc => o = finErr fin
  | .bad => o = .err .other

theorem seqElem_spec (c : SeqCfg) (S : Strconv) (fin : StreamEnd) :
    ∀ (f : Nat) (toks : List Tok), toks.length < f →
      ∀ (skey : Str) (na : Entries) (seq : Nat) (pend : Option (Str × Bool)),
        SeqElemSpec c fin skey toks (seqElem c S fin f skey na seq pend toks) := by
  intro f
  induction f with
  | zero => intro toks h; omega
  | succ f ih =>
    intro toks hlen skey na seq pend
    match toks with
    | [] => cases fin <;> simp [SeqElemSpec, seqScan, seqElem, finErr]
    | .stop sp n :: rest =>
      simp only [SeqElemSpec, seqScan, seqElem]
      by_cases hq : qualName c sp n = skey <;> simp [hq]
    | .text s :: rest =>
      simp only [List.length_cons] at hlen
      obtain ⟨na', seq', pend', -, e⟩ := seqElem_text_step c S fin f skey na seq pend s rest
        (fun _ => True) trivial (fun _ _ => trivial) (fun _ _ => trivial)
      rw [e]
      simp only [SeqElemSpec, seqScan]
      exact ih rest (by omega) _ _ _ _
    | .comment _ :: rest =>
      simp only [List.length_cons] at hlen
      simp only [seqElem, SeqElemSpec, seqScan]
      exact ih rest (by omega) _ _ _ _
    | .procinst _ _ :: rest =>
      simp only [List.length_cons] at hlen
      simp only [seqElem, SeqElemSpec, seqScan]
      exact ih rest (by omega) _ _ _ _
    | .directive _ :: rest =>
      simp only [List.length_cons] at hlen
      simp only [seqElem, SeqElemSpec, seqScan]
      exact ih rest (by omega) _ _ _ _
    | .start sp name attrs :: rest =>
      simp only [List.length_cons] at hlen
      have h1 := ih rest (by omega) (qualName c sp name) (seqInitNa c S attrs) 0 none
      have e : seqScan c [skey] (.start sp name attrs :: rest)
          = (seqScan c [qualName c sp name] rest).bind (seqScan c [skey]) :=
        seqScan_append c rest [qualName c sp name] [skey]
      simp only [seqElem, SeqElemSpec, e]
      simp only [SeqElemSpec] at h1
      cases hc : seqScan c [qualName c sp name] rest with
      | trunc =>
        rw [hc] at h1
        rw [h1]
        cases fin <;> simp [finErr, Scan.bind]
      | bad =>
        rw [hc] at h1
        rw [h1]
        simp [Scan.bind]
      | closed r =>
        rw [hc] at h1
        obtain ⟨v, hv⟩ := h1
        rw [hv]
        have hr := seqScan_length c rest _ r hc
        simp only [List.length_cons, List.length_nil] at hr
        simp only [Scan.bind]
        exact ih r (by omega) _ _ _ _

/-- complete outcome classification of `seqTop` with fuel > #tokens -/
def SeqTopSpec (c : SeqCfg) (fin : StreamEnd) (toks : List Tok) (o : Outcome SeqTop) : Prop :=
  match seqClass c toks with
  | .doc => ∃ k v, o = .ok (.doc (.map [(k, v)]))
  | .noRoot => ∃ m, o = .ok (.noRoot m)
  | .trunc => o = finErr fin
  | .badEnd => o = .err .other

theorem seqTop_spec (c : SeqCfg) (S : Strconv) (fin : StreamEnd) :
    ∀ (f : Nat) (toks : List Tok), toks.length < f →
      SeqTopSpec c fin toks (seqTop c S fin f toks) := by
  intro f
  induction f with
  | zero => intro toks h; omega
  | succ f ih =>
    intro toks hlen
    match toks with
    | [] => cases fin <;> simp [SeqTopSpec, seqClass, seqTop, finErr]
    | .stop _ _ :: rest => simp [SeqTopSpec, seqClass, seqTop]
    | .comment _ :: rest => simp [SeqTopSpec, seqClass, seqTop]
    | .procinst _ _ :: rest => simp [SeqTopSpec, seqClass, seqTop]
    | .directive _ :: rest => simp [SeqTopSpec, seqClass, seqTop]
    | .text _ :: rest =>
      simp only [List.length_cons] at hlen
      simp only [SeqTopSpec, seqClass, seqTop]
      exact ih rest (by omega)
    | .start sp name attrs :: rest =>
      simp only [List.length_cons] at hlen
      have h1 := seqElem_spec c S fin f rest (by omega) (qualName c sp name)
        (seqInitNa c S attrs) 0 none
      simp only [SeqElemSpec] at h1
      simp only [SeqTopSpec, seqClass, seqTop]
      cases hc : seqScan c [qualName c sp name] rest with
      | trunc =>
        rw [hc] at h1
        rw [h1]
        cases fin <;> simp [finErr]
      | bad =>
        rw [hc] at h1
        rw [h1]
      | closed r =>
        rw [hc] at h1
        obtain ⟨v, hv⟩ := h1
        rw [hv]
        simp

end Total

/-! ### (4) the sequence encoder on decoder output -/

/-- the `#attr` entry, when it is a map, holds only maps (`seqAttrText` asserts that) -/
def attrsShaped : Option Val → Bool
  | some (.map av) => av.all (fun e => e.2.isMap)
  | _ => true

mutual
/-- `shapedAt c key v`: the value `v` stored under `key` passes every unchecked type assertion
    of `mapToXmlSeqIndent`: under the comment / directive key a map whose text is a string,
    under the procinst key a map with string target and instruction, elsewhere a map whose
    `#attr` map (if any) holds maps and whose child entries (those `unrollEntries` keeps) are
    shaped under their own keys -/
def shapedAt (c : SeqCfg) : Str → Val → Bool
  | key, .map val =>
      if key = c.commentK then (strOf (lookup c.textK val)).isSome
      else if key = c.directiveK then (strOf (lookup c.textK val)).isSome
      else if key = c.procinstK then
        (strOf (lookup c.targetK val)).isSome && (strOf (lookup c.instK val)).isSome
      else attrsShaped (lookup c.attrK val) && shapedEntries c val
  | key, .list xs => shapedList c key xs
  | _, _ => true
def shapedList (c : SeqCfg) : Str → List Val → Bool
  | _, [] => true
  | key, x :: xs => shapedAt c key x && shapedList c key xs
def shapedEntries (c : SeqCfg) : Entries → Bool
  | [] => true
  | (k, v) :: rest =>
      (decide (k = c.attrK) || decide (k = c.seqK) || decide (k = c.textK) || shapedAt c k v)
        && shapedEntries c rest
end

/-- the invariant on a MapSeq: one root entry, not a list, shaped under its key -/
def SeqShaped (c : SeqCfg) : Val → Bool
  | .map [(key, v)] => !v.isList && shapedAt c key v
  | _ => false

def NoPanic {α : Type} (o : Outcome α) : Prop := ∀ site, o ≠ .panic site

/-- the configuration keys the encoder dispatches on do not collide (true of the fixed keys
    `#comment`, `#directive`, `#procinst`, `#attr` of xmlseq.go) -/
def SeqCfg.keysOK (c : SeqCfg) : Bool :=
  decide (c.procinstK ≠ c.commentK) && decide (c.procinstK ≠ c.directiveK) &&
  decide (c.attrK ≠ c.commentK) && decide (c.attrK ≠ c.directiveK) && decide (c.attrK ≠ c.procinstK)

/-- a key that is none of the comment / directive / procinst / attribute keys -/
def plainKey (c : SeqCfg) (q : Str) : Bool :=
  decide (q ≠ c.commentK) && decide (q ≠ c.directiveK) && decide (q ≠ c.procinstK) &&
  decide (q ≠ c.attrK)

/-- no element is named like one of the special keys (an XML name cannot start with `#`) -/
def seqNamesOK (c : SeqCfg) (toks : List Tok) : Bool :=
  toks.all fun t => match t with
    | .start sp n _ => plainKey c (qualName c sp n)
    | _ => true

/-- the entries of an element under construction -/
def naShaped (c : SeqCfg) (na : Entries) : Bool :=
  attrsShaped (lookup c.attrK na) && shapedEntries c na

/-- the value `seqElem` returns for an element: shaped entries, or a scalar (never a list) -/
def resShaped (c : SeqCfg) : Val → Bool
  | .map na => naShaped c na
  | .list _ => false
  | _ => true

namespace Total

theorem mem_insertBySeq (c : SeqCfg) (e x : Str × Val) : ∀ (l : List (Str × Val)),
    x ∈ insertBySeq c e l → x = e ∨ x ∈ l
  | [], h => by simpa [insertBySeq] using h
  | y :: ys, h => by
      simp only [insertBySeq] at h
      split at h
      · rcases List.mem_cons.1 h with h | h
        · exact .inr (by simp [h])
        · rcases mem_insertBySeq c e x ys h with h | h
          · exact .inl h
          · exact .inr (List.mem_cons_of_mem _ h)
      · rcases List.mem_cons.1 h with h | h
        · exact .inl h
        · exact .inr h

theorem mem_sortBySeq (c : SeqCfg) (x : Str × Val) : ∀ (l : List (Str × Val)),
    x ∈ sortBySeq c l → x ∈ l
  | [], h => by simp [sortBySeq] at h
  | y :: ys, h => by
      have h' : x ∈ insertBySeq c y (sortBySeq c ys) := h
      rcases mem_insertBySeq c y x _ h' with h | h
      · simp [h]
      · exact List.mem_cons_of_mem _ (mem_sortBySeq c x ys h)

theorem seqAttrText_noPanic (c : SeqCfg) (esc : Bool) (k : Str) (v : Val) (h : v.isMap = true) :
    NoPanic (seqAttrText c esc k v) := by
  intro site
  cases v <;> simp [Val.isMap] at h
  simp only [seqAttrText]
  split <;> simp

theorem seqAttrsText_noPanic (c : SeqCfg) (esc : Bool) : ∀ (l : List (Str × Val)),
    (∀ e ∈ l, e.2.isMap = true) → NoPanic (seqAttrsText c esc l)
  | [], _ => by intro site; simp [seqAttrsText]
  | (k, v) :: rest, h => by
      have h1 := seqAttrText_noPanic c esc k v (h (k, v) (by simp))
      have h2 := seqAttrsText_noPanic c esc rest (fun e he => h e (List.mem_cons_of_mem _ he))
      intro site
      simp only [seqAttrsText]
      cases ha : seqAttrText c esc k v <;> cases hr : seqAttrsText c esc rest <;> simp
      all_goals first
        | exact fun e => h1 site (by rw [ha, e])
        | exact fun e => h2 site (by rw [hr, e])

theorem shapedList_mem (c : SeqCfg) (key : Str) : ∀ (xs : List Val), shapedList c key xs = true →
    ∀ x ∈ xs, shapedAt c key x = true
  | [], _, x, hx => by simp at hx
  | y :: ys, h, x, hx => by
      simp only [shapedList, Bool.and_eq_true] at h
      rcases List.mem_cons.1 hx with hx | hx
      · subst hx; exact h.1
      · exact shapedList_mem c key ys h.2 x hx

theorem shaped_unroll (c : SeqCfg) : ∀ (val : Entries), shapedEntries c val = true →
    ∀ e ∈ unrollEntries c val, shapedAt c e.1 e.2 = true
  | [], _, e, he => by simp [unrollEntries] at he
  | (k, v) :: rest, h, e, he => by
      simp only [shapedEntries, Bool.and_eq_true, Bool.or_eq_true, decide_eq_true_eq] at h
      have ih := shaped_unroll c rest h.2
      simp only [unrollEntries] at he
      split at he
      · exact ih e he
      · rename_i hk
        simp only [Bool.or_eq_true, decide_eq_true_eq, not_or] at hk
        have hv : shapedAt c k v = true := by
          rcases h.1 with ((h1 | h1) | h1) | h1
          · exact absurd h1 hk.1.1
          · exact absurd h1 hk.1.2
          · exact absurd h1 hk.2
          · exact h1
        split at he
        · rename_i xs
          rcases List.mem_append.1 he with he | he
          · obtain ⟨x, hx, rfl⟩ := List.mem_map.1 he
            simp only [shapedAt] at hv
            exact shapedList_mem c k xs hv x hx
          · exact ih e he
        · rcases List.mem_cons.1 he with he | he
          · subst he; exact hv
          · exact ih e he

theorem seqMembers_noPanic (c : SeqCfg) (esc goEmpty : Bool) (f : Nat)
    (ih : ∀ key v, shapedAt c key v = true → NoPanic (seqEnc c esc goEmpty f key v))
    (key : Str) : ∀ (xs : List Val), shapedList c key xs = true →
      NoPanic (seqMembers c esc goEmpty f key xs)
  | [], _ => by intro site; simp [seqMembers]
  | x :: xs, h => by
      simp only [shapedList, Bool.and_eq_true] at h
      have h1 := ih key x h.1
      have h2 := seqMembers_noPanic c esc goEmpty f ih key xs h.2
      intro site
      simp only [seqMembers]
      cases ha : seqEnc c esc goEmpty f key x <;> simp
      · cases hr : seqMembers c esc goEmpty f key xs <;> simp
        exact fun e => h2 site (by rw [hr, e])
      · exact fun e => h1 site (by rw [ha, e])

theorem seqKids_noPanic (c : SeqCfg) (esc goEmpty : Bool) (f : Nat)
    (ih : ∀ key v, shapedAt c key v = true → NoPanic (seqEnc c esc goEmpty f key v)) :
    ∀ (l : List (Str × Val)), (∀ e ∈ l, shapedAt c e.1 e.2 = true) →
      NoPanic (seqKids c esc goEmpty f l)
  | [], _ => by intro site; simp [seqKids]
  | (k, v) :: rest, h => by
      have h1 := ih k v (h (k, v) (by simp))
      have h2 := seqKids_noPanic c esc goEmpty f ih rest
        (fun e he => h e (List.mem_cons_of_mem _ he))
      intro site
      simp only [seqKids]
      cases ha : seqEnc c esc goEmpty f k v <;> simp
      · cases hr : seqKids c esc goEmpty f rest <;> simp
        exact fun e => h2 site (by rw [hr, e])
      · exact fun e => h1 site (by rw [ha, e])

/-- under the shape invariant the sequence encoder reaches none of its `.panic` sites -/
theorem seqEnc_noPanic (c : SeqCfg) (esc goEmpty : Bool) : ∀ (f : Nat) (key : Str) (v : Val),
    shapedAt c key v = true → NoPanic (seqEnc c esc goEmpty f key v) := by
  intro f
  induction f with
  | zero => intro key v _ site; simp [seqEnc]
  | succ f ih =>
    intro key v hs site
    cases v with
    | null => simp [seqEnc]
    | bool b => simp only [seqEnc]; split <;> simp
    | num t => simp only [seqEnc]; split <;> simp
    | str s => simp [seqEnc]
    | list xs =>
      simp only [seqEnc]
      simp only [shapedAt] at hs
      exact seqMembers_noPanic c esc goEmpty f ih key xs hs site
    | map val =>
      simp only [shapedAt] at hs
      simp only [seqEnc]
      by_cases h1 : key = c.commentK
      · rw [if_pos h1] at hs ⊢
        cases hh : strOf (lookup c.textK val) with
        | none => simp [hh] at hs
        | some s => simp
      · rw [if_neg h1] at hs ⊢
        by_cases h2 : key = c.directiveK
        · rw [if_pos h2] at hs ⊢
          cases hh : strOf (lookup c.textK val) with
          | none => simp [hh] at hs
          | some s => simp
        · rw [if_neg h2] at hs ⊢
          by_cases h3 : key = c.procinstK
          · rw [if_pos h3] at hs ⊢
            simp only [Bool.and_eq_true] at hs
            cases hh : strOf (lookup c.targetK val) with
            | none => simp [hh] at hs
            | some s =>
              cases hi : strOf (lookup c.instK val) with
              | none => simp [hi] at hs
              | some s => simp
          · rw [if_neg h3] at hs ⊢
            simp only [Bool.and_eq_true] at hs
            have hk := seqKids_noPanic c esc goEmpty f ih (sortBySeq c (unrollEntries c val))
              (fun e he => shaped_unroll c val hs.2 e (mem_sortBySeq c e _ he))
            generalize seqKids c esc goEmpty f (sortBySeq c (unrollEntries c val)) = K at hk ⊢
            have ha : ∀ av, lookup c.attrK val = some (.map av) →
                NoPanic (seqAttrsText c esc (sortBySeq c av)) := by
              intro av hl
              have := hs.1
              rw [hl] at this
              simp only [attrsShaped, List.all_eq_true] at this
              exact seqAttrsText_noPanic c esc _ (fun e he => this e (mem_sortBySeq c e _ he))
            intro e
            split at e
            · split at e
              · split at e
                · split at e
                  · split at e <;> cases e
                  · cases e
                · split at e
                  · cases e
                  · cases e
                  · exact hk site e
              · split at e
                · cases e
                · split at e
                  · cases e
                  · exact hk site e
            · cases e
            · cases e
            · cases e
            · rename_i s' heq
              split at heq
              · rename_i av hl
                have := ha av hl
                split at heq
                · cases heq
                · cases heq
                · cases heq
                · cases heq
                · rename_i s'' hA
                  exact this s'' hA
              · cases heq

/-- `msv.Xml()` on a shaped MapSeq never panics -/
theorem mapSeqXml_noPanic (c : SeqCfg) (esc goEmpty : Bool) (m : Entries)
    (h : SeqShaped c (.map m) = true) : NoPanic (mapSeqXml c esc goEmpty m) := by
  match m, h with
  | [(key, v)], h =>
    simp only [SeqShaped, Bool.and_eq_true, Bool.not_eq_true'] at h
    cases v with
    | list xs => simp [Val.isList] at h
    | null => simp only [mapSeqXml]; exact seqEnc_noPanic c esc goEmpty _ key _ h.2
    | bool b => simp only [mapSeqXml]; exact seqEnc_noPanic c esc goEmpty _ key _ h.2
    | num t => simp only [mapSeqXml]; exact seqEnc_noPanic c esc goEmpty _ key _ h.2
    | str t => simp only [mapSeqXml]; exact seqEnc_noPanic c esc goEmpty _ key _ h.2
    | map kvs => simp only [mapSeqXml]; exact seqEnc_noPanic c esc goEmpty _ key _ h.2
  | [], h => simp [SeqShaped] at h
  | _ :: _ :: _, h => simp [SeqShaped] at h

/-! the decoder establishes the invariant -/

def EntryOK (c : SeqCfg) (k : Str) (v : Val) : Prop :=
  k = c.attrK ∨ k = c.seqK ∨ k = c.textK ∨ shapedAt c k v = true

theorem shapedEntries_cons (c : SeqCfg) (k : Str) (v : Val) (rest : Entries) :
    shapedEntries c ((k, v) :: rest) = true ↔ EntryOK c k v ∧ shapedEntries c rest = true := by
  simp only [shapedEntries, Bool.and_eq_true, Bool.or_eq_true, decide_eq_true_eq, EntryOK, or_assoc]

theorem shapedEntries_insert (c : SeqCfg) (k : Str) (v : Val) (hv : EntryOK c k v) :
    ∀ (na : Entries), shapedEntries c na = true → shapedEntries c (insert k v na) = true
  | [], _ => by
      simp only [insert]
      exact (shapedEntries_cons c k v []).2 ⟨hv, rfl⟩
  | (k', v') :: rest, h => by
      rw [shapedEntries_cons] at h
      simp only [insert]
      split
      · exact (shapedEntries_cons c k v rest).2 ⟨hv, h.2⟩
      · exact (shapedEntries_cons c k' v' _).2 ⟨h.1, shapedEntries_insert c k v hv rest h.2⟩

theorem shapedEntries_lookup (c : SeqCfg) (k : Str) (v : Val) :
    ∀ (na : Entries), shapedEntries c na = true → lookup k na = some v → EntryOK c k v
  | [], _, hl => by simp [lookup] at hl
  | (k', v') :: rest, h, hl => by
      rw [shapedEntries_cons] at h
      simp only [lookup] at hl
      split at hl
      · rename_i hk
        subst hk
        cases hl
        exact h.1
      · exact shapedEntries_lookup c k v rest h.2 hl

theorem naShaped_insert (c : SeqCfg) (k : Str) (v : Val) (na : Entries)
    (hna : naShaped c na = true) (hv : EntryOK c k v)
    (ha : k = c.attrK → attrsShaped (some v) = true) : naShaped c (insert k v na) = true := by
  simp only [naShaped, Bool.and_eq_true] at hna ⊢
  refine ⟨?_, shapedEntries_insert c k v hv na hna.2⟩
  rw [Dec.lookup_insert]
  split
  · rename_i hk; exact ha hk.symm
  · exact hna.1

theorem attrsShaped_scalar {v : Val} (h : Dec.scalar v = true) : attrsShaped (some v) = true := by
  cases v <;> simp [Dec.scalar, attrsShaped] at h ⊢

theorem naShaped_insert_text (c : SeqCfg) (x : Val) (na : Entries) (hna : naShaped c na = true)
    (hx : Dec.scalar x = true) : naShaped c (insert c.textK x na) = true :=
  naShaped_insert c _ _ na hna (.inr (.inr (.inl rfl))) (fun _ => attrsShaped_scalar hx)

theorem naShaped_insert_seq (c : SeqCfg) (n : Nat) (na : Entries) (hna : naShaped c na = true) :
    naShaped c (insert c.seqK (seqNum n) na) = true :=
  naShaped_insert c _ _ na hna (.inr (.inl rfl)) (fun _ => rfl)

theorem shapedAt_plain (c : SeqCfg) (k : Str) (X : Entries) (hk : plainKey c k = true) :
    shapedAt c k (.map X) = naShaped c X := by
  simp only [plainKey, Bool.and_eq_true, decide_eq_true_eq] at hk
  simp only [shapedAt, naShaped, if_neg hk.1.1.1, if_neg hk.1.1.2, if_neg hk.1.2]

theorem naShaped_comment (c : SeqCfg) (hc : c.keysOK = true) (s : Str) (n : Nat) (na : Entries)
    (hna : naShaped c na = true) :
    naShaped c (insert c.commentK (.map [(c.textK, .str s), (c.seqK, seqNum n)]) na) = true := by
  simp only [SeqCfg.keysOK, Bool.and_eq_true, decide_eq_true_eq] at hc
  refine naShaped_insert c _ _ na hna (.inr (.inr (.inr ?_))) (fun h => absurd h.symm hc.1.1.2)
  simp [shapedAt, lookup, strOf]

theorem naShaped_directive (c : SeqCfg) (hc : c.keysOK = true) (s : Str) (n : Nat) (na : Entries)
    (hna : naShaped c na = true) :
    naShaped c (insert c.directiveK (.map [(c.textK, .str s), (c.seqK, seqNum n)]) na) = true := by
  simp only [SeqCfg.keysOK, Bool.and_eq_true, decide_eq_true_eq] at hc
  refine naShaped_insert c _ _ na hna (.inr (.inr (.inr ?_))) (fun h => absurd h.symm hc.1.2)
  by_cases h : c.directiveK = c.commentK <;> simp [shapedAt, lookup, strOf, h]

theorem naShaped_procinst (c : SeqCfg) (hc : c.keysOK = true) (t i : Str) (n : Nat) (na : Entries)
    (hna : naShaped c na = true) :
    naShaped c (insert c.procinstK
      (.map [(c.targetK, .str t), (c.instK, .str i), (c.seqK, seqNum n)]) na) = true := by
  simp only [SeqCfg.keysOK, Bool.and_eq_true, decide_eq_true_eq] at hc
  refine naShaped_insert c _ _ na hna (.inr (.inr (.inr ?_))) (fun h => absurd h.symm hc.2)
  by_cases h : c.instK = c.targetK <;>
    simp [shapedAt, lookup, strOf, h, hc.1.1.1.1, hc.1.1.1.2]

theorem shapedList_append (c : SeqCfg) (key : Str) : ∀ (xs ys : List Val),
    shapedList c key (xs ++ ys) = (shapedList c key xs && shapedList c key ys)
  | [], ys => by simp [shapedList]
  | x :: xs, ys => by
      simp only [List.cons_append, shapedList, shapedList_append c key xs ys, Bool.and_assoc]

theorem naShaped_addChild (c : SeqCfg) (k : Str) (v : Val) (na : Entries)
    (hna : naShaped c na = true) (hk : plainKey c k = true) (hv : shapedAt c k v = true) :
    naShaped c (addChild na k v) = true := by
  have hka : ¬ k = c.attrK := by
    simp only [plainKey, Bool.and_eq_true, decide_eq_true_eq] at hk
    exact hk.2
  have hold : ∀ old, lookup k na = some old → EntryOK c k old := by
    intro old hl
    simp only [naShaped, Bool.and_eq_true] at hna
    exact shapedEntries_lookup c k old na hna.2 hl
  have skip : ∀ w, (k = c.seqK ∨ k = c.textK) → EntryOK c k w := by
    intro w h
    rcases h with h | h
    · exact .inr (.inl h)
    · exact .inr (.inr (.inl h))
  have key : ∀ w, (∀ old, lookup k na = some old → shapedAt c k old = true → shapedAt c k w = true) →
      (lookup k na = none → shapedAt c k w = true) → naShaped c (insert k w na) = true := by
    intro w h1 h2
    refine naShaped_insert c k w na hna ?_ (fun h => absurd h hka)
    cases hl : lookup k na with
    | none => exact .inr (.inr (.inr (h2 hl)))
    | some old =>
      rcases hold old hl with h | h | h | h
      · exact absurd h hka
      · exact skip w (.inl h)
      · exact skip w (.inr h)
      · exact .inr (.inr (.inr (h1 old hl h)))
  unfold addChild
  cases hl : lookup k na with
  | none => exact key v (fun old h => by rw [hl] at h; cases h) (fun _ => hv)
  | some old =>
    cases old with
    | list xs =>
      refine key _ (fun old h ho => ?_) (fun h => by rw [hl] at h; cases h)
      rw [hl] at h
      cases h
      simp only [shapedAt] at ho ⊢
      rw [shapedList_append, ho]
      simp [shapedList, hv]
    | null =>
      refine key _ (fun old h ho => ?_) (fun h => by rw [hl] at h; cases h)
      rw [hl] at h; cases h
      simp [shapedAt, shapedList, hv]
    | bool b =>
      refine key _ (fun old h ho => ?_) (fun h => by rw [hl] at h; cases h)
      rw [hl] at h; cases h
      simp [shapedAt, shapedList, hv]
    | num t =>
      refine key _ (fun old h ho => ?_) (fun h => by rw [hl] at h; cases h)
      rw [hl] at h; cases h
      simp [shapedAt, shapedList, hv]
    | str t =>
      refine key _ (fun old h ho => ?_) (fun h => by rw [hl] at h; cases h)
      rw [hl] at h; cases h
      simp [shapedAt, shapedList, hv]
    | map kvs =>
      refine key _ (fun old h ho => ?_) (fun h => by rw [hl] at h; cases h)
      rw [hl] at h; cases h
      simp only [shapedAt, shapedList, Bool.and_true, Bool.and_eq_true] at ho ⊢
      exact ⟨by simpa [shapedAt] using ho, hv⟩

theorem shapedAt_seqChild (c : SeqCfg) (k : Str) (seq : Nat) (v : Val)
    (hk : plainKey c k = true) (hv : resShaped c v = true) :
    shapedAt c k (seqChild c seq v) = true := by
  have leaf : ∀ s : Val, s.isMap = false →
      shapedAt c k (.map [(c.textK, s), (c.seqK, seqNum seq)]) = true := by
    intro s hs
    rw [shapedAt_plain c k _ hk]
    simp only [naShaped, Bool.and_eq_true]
    refine ⟨?_, ?_⟩
    · simp only [lookup]
      split
      · cases s <;> simp [Val.isMap, attrsShaped] at hs ⊢
      · split <;> rfl
    · simp [shapedEntries]
  cases v with
  | map kvs =>
    simp only [seqChild]
    rw [shapedAt_plain c k _ hk]
    exact naShaped_insert_seq c seq kvs hv
  | null => exact leaf _ rfl
  | bool b => exact leaf _ rfl
  | num t => exact leaf _ rfl
  | str t => exact leaf _ rfl
  | list xs => exact leaf _ rfl

theorem allMaps_insert (k : Str) (v : Val) (hv : v.isMap = true) : ∀ (l : Entries),
    l.all (fun e => e.2.isMap) = true → (insert k v l).all (fun e => e.2.isMap) = true
  | [], _ => by simp [insert, hv]
  | (k', v') :: rest, h => by
      simp only [List.all_cons, Bool.and_eq_true] at h
      simp only [insert]
      split
      · simp [hv, h.2]
      · simp only [List.all_cons, Bool.and_eq_true]
        exact ⟨h.1, allMaps_insert k v hv rest h.2⟩

theorem allMaps_seqAttrs (c : SeqCfg) (S : Strconv) : ∀ (attrs : List Attr) (i : Nat) (acc : Entries),
    acc.all (fun e => e.2.isMap) = true →
      (seqAttrs c S i attrs acc).all (fun e => e.2.isMap) = true
  | [], _, acc, h => by simpa [seqAttrs] using h
  | a :: rest, i, acc, h => by
      simp only [seqAttrs]
      exact allMaps_seqAttrs c S rest (i + 1) _ (allMaps_insert _ _ rfl acc h)

theorem naShaped_seqInitNa (c : SeqCfg) (S : Strconv) (attrs : List Attr) :
    naShaped c (seqInitNa c S attrs) = true := by
  simp only [seqInitNa]
  split
  · rfl
  · simp only [naShaped, lookup, if_true, attrsShaped, Bool.and_eq_true]
    exact ⟨allMaps_seqAttrs c S attrs 0 [] rfl, by simp [shapedEntries]⟩

theorem seqNamesOK_cons (c : SeqCfg) (t : Tok) (rest : List Tok) (h : seqNamesOK c (t :: rest) = true) :
    seqNamesOK c rest = true := by
  simp only [seqNamesOK, List.all_cons, Bool.and_eq_true] at h ⊢
  exact h.2

/-- every value the element loop returns is shaped, and the unread tokens keep `seqNamesOK` -/
theorem seqElem_shaped (c : SeqCfg) (S : Strconv) (fin : StreamEnd) (hc : c.keysOK = true) :
    ∀ (f : Nat) (toks : List Tok) (skey : Str) (na : Entries) (seq : Nat)
      (pend : Option (Str × Bool)) (v : Val) (r : List Tok),
      seqNamesOK c toks = true → naShaped c na = true →
      seqElem c S fin f skey na seq pend toks = .ok (v, r) →
      resShaped c v = true ∧ seqNamesOK c r = true := by
  intro f
  induction f with
  | zero => intro toks skey na seq pend v r _ _ h; simp [seqElem] at h
  | succ f ih =>
    intro toks skey na seq pend v r hn hna h
    match toks with
    | [] => cases fin <;> simp [seqElem] at h
    | .stop sp n :: rest =>
      simp only [seqElem] at h
      split at h
      · cases h
      · simp only [Outcome.ok.injEq, Prod.mk.injEq] at h
        obtain ⟨rfl, rfl⟩ := h
        refine ⟨?_, seqNamesOK_cons c _ _ hn⟩
        split
        · rfl
        · exact hna
    | .text s :: rest =>
      obtain ⟨na', seq', pend', hna', e⟩ := seqElem_text_step c S fin f skey na seq pend s rest
        (fun x => naShaped c x = true) hna
        (fun x hx => naShaped_insert_text c x na hna hx)
        (fun x hx => naShaped_insert_seq c _ _ (naShaped_insert_text c x na hna hx))
      rw [e] at h
      exact ih rest _ _ _ _ _ _ (seqNamesOK_cons c _ _ hn) hna' h
    | .comment s :: rest =>
      simp only [seqElem] at h
      exact ih rest _ _ _ _ _ _ (seqNamesOK_cons c _ _ hn) (naShaped_comment c hc s seq na hna) h
    | .directive s :: rest =>
      simp only [seqElem] at h
      exact ih rest _ _ _ _ _ _ (seqNamesOK_cons c _ _ hn) (naShaped_directive c hc s seq na hna) h
    | .procinst t i :: rest =>
      simp only [seqElem] at h
      exact ih rest _ _ _ _ _ _ (seqNamesOK_cons c _ _ hn) (naShaped_procinst c hc t i seq na hna) h
    | .start sp name attrs :: rest =>
      have hk : plainKey c (qualName c sp name) = true := by
        simp only [seqNamesOK, List.all_cons, Bool.and_eq_true] at hn
        exact hn.1
      simp only [seqElem] at h
      cases hp : seqElem c S fin f (qualName c sp name) (seqInitNa c S attrs) 0 none rest with
      | ok p =>
        obtain ⟨v1, r1⟩ := p
        rw [hp] at h
        have h1 := ih rest _ _ _ _ _ _ (seqNamesOK_cons c _ _ hn) (naShaped_seqInitNa c S attrs) hp
        exact ih r1 _ _ _ _ _ _ h1.2
          (naShaped_addChild c _ _ na hna hk (shapedAt_seqChild c _ seq v1 hk h1.1)) h
      | eof => simp [hp] at h
      | «syntax» => simp [hp] at h
      | err k => simp [hp] at h
      | panic s => simp [hp] at h

/-- the sequence decoder establishes `SeqShaped` -/
theorem seqTop_shaped (c : SeqCfg) (S : Strconv) (fin : StreamEnd) (hc : c.keysOK = true) :
    ∀ (f : Nat) (toks : List Tok) (m : Val), seqNamesOK c toks = true →
      seqTop c S fin f toks = .ok (.doc m) → SeqShaped c m = true := by
  intro f
  induction f with
  | zero => intro toks m _ h; simp [seqTop] at h
  | succ f ih =>
    intro toks m hn h
    match toks with
    | [] => cases fin <;> simp [seqTop] at h
    | .stop _ _ :: rest => simp [seqTop] at h
    | .comment _ :: rest => simp [seqTop] at h
    | .directive _ :: rest => simp [seqTop] at h
    | .procinst _ _ :: rest => simp [seqTop] at h
    | .text _ :: rest =>
      simp only [seqTop] at h
      exact ih rest m (seqNamesOK_cons c _ _ hn) h
    | .start sp name attrs :: rest =>
      have hk : plainKey c (qualName c sp name) = true := by
        simp only [seqNamesOK, List.all_cons, Bool.and_eq_true] at hn
        exact hn.1
      simp only [seqTop] at h
      cases hp : seqElem c S fin f (qualName c sp name) (seqInitNa c S attrs) 0 none rest with
      | ok p =>
        obtain ⟨v1, r1⟩ := p
        rw [hp] at h
        simp only [Outcome.ok.injEq, SeqTop.doc.injEq] at h
        subst h
        have h1 := seqElem_shaped c S fin hc f rest _ _ _ _ _ _ (seqNamesOK_cons c _ _ hn)
          (naShaped_seqInitNa c S attrs) hp
        simp only [SeqShaped, Bool.and_eq_true, Bool.not_eq_true']
        cases v1 with
        | map kvs => exact ⟨rfl, by rw [shapedAt_plain c _ _ hk]; exact h1.1⟩
        | list xs => simp [resShaped] at h1
        | null => exact ⟨rfl, by simp [shapedAt]⟩
        | bool b => exact ⟨rfl, by simp [shapedAt]⟩
        | num t => exact ⟨rfl, by simp [shapedAt]⟩
        | str t => exact ⟨rfl, by simp [shapedAt]⟩
      | eof => simp [hp] at h
      | «syntax» => simp [hp] at h
      | err k => simp [hp] at h
      | panic s => simp [hp] at h

end Total

/-! ### (3) the Map encoder on decoder output -/

/-- a key the encoder treats as a child-element key: neither an attribute key nor the text key -/
def plainE (ec : EncCfg) (k : Str) : Bool := !isAttrK ec k && decide (k ≠ ec.textK)

mutual
/-- the shape the compact Map encoder accepts: in every map, the entries under attribute keys
    and under the text key hold strings, numbers or booleans -/
def encOK (ec : EncCfg) : Val → Bool
  | .map kvs => encOKEntries ec kvs
  | .list xs => encOKList ec xs
  | _ => true
def encOKList (ec : EncCfg) : List Val → Bool
  | [] => true
  | x :: xs => encOK ec x && encOKList ec xs
def encOKEntries (ec : EncCfg) : Entries → Bool
  | [] => true
  | (k, v) :: rest => (plainE ec k || Dec.scalar v) && encOK ec v && encOKEntries ec rest
end

/-- no element key (after the decoder's key transforms) is read by the encoder as an attribute
    key or as the text key -/
def elemKeysOK (cfg : DecCfg) (S : Strconv) (ec : EncCfg) (toks : List Tok) : Bool :=
  toks.all fun t => match t with
    | .start _ n _ => plainE ec (elemKey cfg S n)
    | _ => true

namespace Total

def encOKEntry (ec : EncCfg) (e : Str × Val) : Bool :=
  (plainE ec e.1 || Dec.scalar e.2) && encOK ec e.2

theorem encOKEntries_eq_all (ec : EncCfg) : ∀ (l : Entries),
    encOKEntries ec l = l.all (encOKEntry ec)
  | [] => rfl
  | (k, v) :: rest => by
      simp only [encOKEntries, List.all_cons, encOKEntry, encOKEntries_eq_all ec rest]

theorem scalar_encOK (ec : EncCfg) {v : Val} (h : Dec.scalar v = true) : encOK ec v = true := by
  cases v <;> simp [Dec.scalar, encOK] at h ⊢

theorem all_insertByKey (p : Str × Val → Bool) (e : Str × Val) : ∀ (l : Entries),
    (insertByKey e l).all p = (p e && l.all p)
  | [] => by simp [insertByKey]
  | x :: xs => by
      simp only [insertByKey]
      split
      · simp only [List.all_cons, all_insertByKey p e xs]
        cases p x <;> cases p e <;> simp
      · simp only [List.all_cons]

theorem all_sortByKey (p : Str × Val → Bool) : ∀ (l : Entries), (sortByKey l).all p = l.all p
  | [] => rfl
  | x :: xs => by
      have : sortByKey (x :: xs) = insertByKey x (sortByKey xs) := rfl
      rw [this, all_insertByKey, all_sortByKey p xs, List.all_cons]

mutual
theorem encOK_norm (ec : EncCfg) : ∀ (v : Val), encOK ec v = true → encOK ec v.norm = true
  | .null, h => h
  | .bool _, h => h
  | .num _, h => h
  | .str _, h => h
  | .list xs, h => by
      simp only [Val.norm, encOK] at h ⊢
      exact encOKList_norm ec xs h
  | .map kvs, h => by
      simp only [Val.norm, encOK] at h ⊢
      rw [encOKEntries_eq_all, all_sortByKey, ← encOKEntries_eq_all]
      exact encOKEntries_norm ec kvs h
theorem encOKList_norm (ec : EncCfg) : ∀ (xs : List Val), encOKList ec xs = true →
    encOKList ec (Val.normList xs) = true
  | [], h => h
  | x :: xs, h => by
      simp only [Val.normList, encOKList, Bool.and_eq_true] at h ⊢
      exact ⟨encOK_norm ec x h.1, encOKList_norm ec xs h.2⟩
theorem encOKEntries_norm (ec : EncCfg) : ∀ (l : Entries), encOKEntries ec l = true →
    encOKEntries ec (Val.normEntries l) = true
  | [], h => h
  | (k, v) :: rest, h => by
      simp only [Val.normEntries, encOKEntries, Bool.and_eq_true, Bool.or_eq_true] at h ⊢
      refine ⟨⟨?_, encOK_norm ec v h.1.2⟩, encOKEntries_norm ec rest h.2⟩
      rcases h.1.1 with h1 | h1
      · exact .inl h1
      · exact .inr (by rw [Dec.scalar_norm h1]; exact h1)
end

theorem attrText_ok (ec : EncCfg) (k : Str) {v : Val} (h : Dec.scalar v = true) :
    ∃ a, attrText ec k v = .ok a := by
  cases v <;> simp [Dec.scalar, attrText] at h ⊢

theorem attrsText_ok (ec : EncCfg) : ∀ (l : Entries), encOKEntries ec l = true →
    ∃ a, attrsText ec l = .ok a
  | [], _ => ⟨[], rfl⟩
  | (k, v) :: rest, h => by
      simp only [encOKEntries, Bool.and_eq_true, Bool.or_eq_true] at h
      obtain ⟨r, hr⟩ := attrsText_ok ec rest h.2
      simp only [attrsText]
      split
      · rename_i hk
        have hs : Dec.scalar v = true := by
          rcases h.1.1 with h1 | h1
          · simp [plainE, hk] at h1
          · exact h1
        obtain ⟨a, ha⟩ := attrText_ok ec k hs
        rw [ha, hr]
        exact ⟨_, rfl⟩
      · exact ⟨r, hr⟩

theorem encOKEntries_lookup (ec : EncCfg) (k : Str) (v : Val) : ∀ (l : Entries),
    encOKEntries ec l = true → lookup k l = some v →
      (plainE ec k = true ∨ Dec.scalar v = true) ∧ encOK ec v = true
  | [], _, hl => by simp [lookup] at hl
  | (k', v') :: rest, h, hl => by
      simp only [encOKEntries, Bool.and_eq_true, Bool.or_eq_true] at h
      simp only [lookup] at hl
      split at hl
      · rename_i hk
        subst hk
        cases hl
        exact h.1
      · exact encOKEntries_lookup ec k v rest h.2 hl

theorem textValue_ok (ec : EncCfg) {v : Val} (h : Dec.scalar v = true) :
    ∃ t, textValue ec v = some t := by
  cases v with
  | bool b => cases b <;> simp [textValue, fmtV]
  | num t => simp [textValue, fmtV]
  | str t => simp [textValue]
  | null => simp [Dec.scalar] at h
  | list xs => simp [Dec.scalar] at h
  | map kvs => simp [Dec.scalar] at h

mutual
/-- on an `encOK` value the compact encoder returns no error -/
theorem marshalN_ok (ec : EncCfg) : ∀ (key : Str) (v : Val), encOK ec v = true →
    ∃ out, marshalN ec key v = .ok out
  | key, .null, _ => by simp [marshalN]
  | key, .bool b, _ => by cases b <;> simp [marshalN, fmtV]
  | key, .num t, _ => by simp [marshalN, fmtV]
  | key, .str s, _ => by simp [marshalN]
  | key, .list xs, h => by
      simp only [encOK] at h
      simp only [marshalN]
      split
      · exact ⟨_, rfl⟩
      · exact marshalMembers_ok ec key xs h
  | key, .map vv, h => by
      simp only [encOK] at h
      obtain ⟨a, ha⟩ := attrsText_ok ec vv h
      obtain ⟨kids, hk⟩ := marshalElems_ok ec vv h
      simp only [marshalN, ha, hk]
      split
      · exact ⟨_, rfl⟩
      · cases hl : lookup ec.textK vv with
        | none => exact ⟨_, rfl⟩
        | some tv =>
          have hs : Dec.scalar tv = true := by
            rcases (encOKEntries_lookup ec _ _ vv h hl).1 with h1 | h1
            · simp [plainE] at h1
            · exact h1
          obtain ⟨t, ht⟩ := textValue_ok ec hs
          simp only [ht]
          split <;> exact ⟨_, rfl⟩
theorem marshalMembers_ok (ec : EncCfg) (key : Str) : ∀ (xs : List Val), encOKList ec xs = true →
    ∃ out, marshalMembers ec key xs = .ok out
  | [], _ => ⟨[], rfl⟩
  | x :: xs, h => by
      simp only [encOKList, Bool.and_eq_true] at h
      obtain ⟨a, ha⟩ := marshalN_ok ec key x h.1
      obtain ⟨r, hr⟩ := marshalMembers_ok ec key xs h.2
      simp only [marshalMembers, ha, hr]
      exact ⟨_, rfl⟩
theorem marshalElems_ok (ec : EncCfg) : ∀ (l : Entries), encOKEntries ec l = true →
    ∃ out, marshalElems ec l = .ok out
  | [], _ => ⟨[], rfl⟩
  | (k, v) :: rest, h => by
      simp only [encOKEntries, Bool.and_eq_true] at h
      obtain ⟨a, ha⟩ := marshalN_ok ec k v h.1.2
      obtain ⟨r, hr⟩ := marshalElems_ok ec rest h.2
      simp only [marshalElems, ha, hr]
      split <;> exact ⟨_, rfl⟩
end

theorem marshal_ok (ec : EncCfg) (key : Str) (v : Val) (h : encOK ec v = true) :
    ∃ out, marshal ec key v = .ok out :=
  marshalN_ok ec key v.norm (encOK_norm ec v h)

/-- `mv.Xml()` on an `encOK` map returns no error -/
theorem mapXml_ok (ec : EncCfg) (m : Entries) (h : encOK ec (.map m) = true) :
    ∃ out, mapXml ec m none = .ok out := by
  unfold mapXml
  simp only
  split
  · rename_i key xs
    split
    · refine marshal_ok ec key _ ?_
      simp only [encOK, encOKEntries, Bool.and_eq_true] at h
      exact h.1.2
    · exact marshal_ok ec _ _ h
  · rename_i key v _
    refine marshal_ok ec key _ ?_
    simp only [encOK, encOKEntries, Bool.and_eq_true] at h
    exact h.1.2
  · exact marshal_ok ec _ _ h

/-! the Map decoder establishes `encOK` -/

theorem encOKEntries_insert (ec : EncCfg) (k : Str) (v : Val)
    (hc : plainE ec k = true ∨ Dec.scalar v = true) (hv : encOK ec v = true) :
    ∀ (na : Entries), encOKEntries ec na = true → encOKEntries ec (insert k v na) = true
  | [], _ => by
      simp only [insert, encOKEntries, Bool.and_eq_true, Bool.or_eq_true]
      exact ⟨⟨hc, hv⟩, trivial⟩
  | (k', v') :: rest, h => by
      simp only [encOKEntries, Bool.and_eq_true, Bool.or_eq_true] at h
      simp only [insert]
      split
      · simp only [encOKEntries, Bool.and_eq_true, Bool.or_eq_true]
        exact ⟨⟨hc, hv⟩, h.2⟩
      · simp only [encOKEntries, Bool.and_eq_true, Bool.or_eq_true]
        exact ⟨h.1, encOKEntries_insert ec k v hc hv rest h.2⟩

theorem encOKEntries_insert_scalar (ec : EncCfg) (k : Str) {v : Val} (hv : Dec.scalar v = true)
    (na : Entries) (h : encOKEntries ec na = true) : encOKEntries ec (insert k v na) = true :=
  encOKEntries_insert ec k v (.inr hv) (scalar_encOK ec hv) na h

theorem encOKList_append (ec : EncCfg) : ∀ (xs ys : List Val),
    encOKList ec (xs ++ ys) = (encOKList ec xs && encOKList ec ys)
  | [], ys => by simp [encOKList]
  | x :: xs, ys => by
      simp only [List.cons_append, encOKList, encOKList_append ec xs ys, Bool.and_assoc]

theorem encOKEntries_addChild (ec : EncCfg) (k : Str) (v : Val) (na : Entries)
    (hk : plainE ec k = true) (hv : encOK ec v = true) (hna : encOKEntries ec na = true) :
    encOKEntries ec (addChild na k v) = true := by
  unfold addChild
  cases hl : lookup k na with
  | none => exact encOKEntries_insert ec k v (.inl hk) hv na hna
  | some old =>
    have ho := (encOKEntries_lookup ec k old na hna hl).2
    cases old with
    | list xs =>
      refine encOKEntries_insert ec k _ (.inl hk) ?_ na hna
      simp only [encOK] at ho ⊢
      rw [encOKList_append, ho]
      simp [encOKList, hv]
    | null => exact encOKEntries_insert ec k _ (.inl hk) (by simp [encOK, encOKList, hv]) na hna
    | bool b => exact encOKEntries_insert ec k _ (.inl hk) (by simp [encOK, encOKList, hv]) na hna
    | num t => exact encOKEntries_insert ec k _ (.inl hk) (by simp [encOK, encOKList, hv]) na hna
    | str t => exact encOKEntries_insert ec k _ (.inl hk) (by simp [encOK, encOKList, hv]) na hna
    | map kvs =>
      refine encOKEntries_insert ec k _ (.inl hk) ?_ na hna
      simp only [encOK, encOKList, Bool.and_true, Bool.and_eq_true]
      exact ⟨by simpa [encOK] using ho, hv⟩

theorem encOK_seqDecorate (ec : EncCfg) (cfg : DecCfg) (seq : Nat) (v : Val)
    (hv : encOK ec v = true) : encOK ec (seqDecorate cfg seq v).1 = true := by
  unfold seqDecorate
  split
  · exact hv
  · cases v with
    | list xs => exact hv
    | null => exact hv
    | map kvs =>
      simp only [encOK] at hv ⊢
      exact encOKEntries_insert_scalar ec _ rfl kvs hv
    | bool b =>
      simp only [encOK]
      exact encOKEntries_insert_scalar ec _ rfl _ (by simp [encOKEntries, Dec.scalar, encOK])
    | num t =>
      simp only [encOK]
      exact encOKEntries_insert_scalar ec _ rfl _ (by simp [encOKEntries, Dec.scalar, encOK])
    | str t =>
      simp only [encOK]
      exact encOKEntries_insert_scalar ec _ rfl _ (by simp [encOKEntries, Dec.scalar, encOK])

def optScalar : Option Val → Prop
  | some x => Dec.scalar x = true
  | none => True

theorem encOK_finishElem (ec : EncCfg) (cfg : DecCfg) (na : Entries) (n : Option Val)
    (hna : encOKEntries ec na = true) (hn : optScalar n) : encOK ec (finishElem cfg na n) = true := by
  unfold finishElem
  cases n with
  | none =>
    simp only
    split
    · rfl
    · exact hna
  | some x =>
    simp only
    split
    · exact scalar_encOK ec hn
    · simp only [encOK]
      exact encOKEntries_insert_scalar ec _ hn na hna

theorem encOK_onText (ec : EncCfg) (cfg : DecCfg) (S : Strconv) (skey : Str) (na : Entries)
    (n : Option Val) (s : Str) (hna : encOKEntries ec na = true) (hn : optScalar n) :
    encOKEntries ec (onText cfg S skey na n s).1 = true ∧ optScalar (onText cfg S skey na n s).2 := by
  unfold onText
  simp only
  split
  · exact ⟨hna, hn⟩
  · split
    · exact ⟨encOKEntries_insert_scalar ec _ (Dec.cast_scalar _ _ _ _) na hna, hn⟩
    · exact ⟨hna, Dec.cast_scalar _ _ _ _⟩

theorem encOK_loadAttrs (ec : EncCfg) (cfg : DecCfg) (S : Strconv) (attrs : List Attr) :
    encOKEntries ec (loadAttrs cfg S attrs) = true := by
  unfold loadAttrs
  suffices h : ∀ (l : List Attr) (acc : Entries), encOKEntries ec acc = true →
      encOKEntries ec (l.foldl (fun na a =>
        let key := attrKey cfg S a.name
        insert key (cast S cfg.cast (escDecIf cfg a.value) key) na) acc) = true from h attrs [] rfl
  intro l
  induction l with
  | nil => intro acc h; exact h
  | cons a rest ih =>
    intro acc h
    simp only [List.foldl_cons]
    exact ih _ (encOKEntries_insert_scalar ec _ (Dec.cast_scalar _ _ _ _) acc h)

theorem elemKeysOK_cons (cfg : DecCfg) (S : Strconv) (ec : EncCfg) (t : Tok) (rest : List Tok)
    (h : elemKeysOK cfg S ec (t :: rest) = true) : elemKeysOK cfg S ec rest = true := by
  simp only [elemKeysOK, List.all_cons, Bool.and_eq_true] at h ⊢
  exact h.2

/-- every value the element loop returns is `encOK` -/
theorem parseElem_encOK (cfg : DecCfg) (S : Strconv) (fin : StreamEnd) (ec : EncCfg) :
    ∀ (f : Nat) (toks : List Tok) (skey : Str) (na : Entries) (n : Option Val) (seq : Nat)
      (pend : Option Str) (v : Val) (r : List Tok),
      elemKeysOK cfg S ec toks = true → encOKEntries ec na = true → optScalar n →
      parseElem cfg S fin f skey na n seq pend toks = .ok (v, r) →
      encOK ec v = true ∧ elemKeysOK cfg S ec r = true := by
  intro f
  induction f with
  | zero => intro toks skey na n seq pend v r _ _ _ h; simp [parseElem] at h
  | succ f ih =>
    intro toks skey na n seq pend v r hk hna hn h
    match toks with
    | [] => cases fin <;> simp [parseElem] at h
    | .stop _ _ :: rest =>
      simp only [parseElem, Outcome.ok.injEq, Prod.mk.injEq] at h
      obtain ⟨rfl, rfl⟩ := h
      exact ⟨encOK_finishElem ec cfg na n hna hn, elemKeysOK_cons cfg S ec _ _ hk⟩
    | .text s :: rest =>
      simp only [parseElem] at h
      have h1 := encOK_onText ec cfg S skey na n (pend.getD [] ++ s) hna hn
      exact ih rest _ _ _ _ _ _ _ (elemKeysOK_cons cfg S ec _ _ hk) h1.1 h1.2 h
    | .comment _ :: rest =>
      simp only [parseElem] at h
      exact ih rest _ _ _ _ _ _ _ (elemKeysOK_cons cfg S ec _ _ hk) hna hn h
    | .procinst _ _ :: rest =>
      simp only [parseElem] at h
      exact ih rest _ _ _ _ _ _ _ (elemKeysOK_cons cfg S ec _ _ hk) hna hn h
    | .directive _ :: rest =>
      simp only [parseElem] at h
      exact ih rest _ _ _ _ _ _ _ (elemKeysOK_cons cfg S ec _ _ hk) hna hn h
    | .start sp name attrs :: rest =>
      have hp : plainE ec (elemKey cfg S name) = true := by
        simp only [elemKeysOK, List.all_cons, Bool.and_eq_true] at hk
        exact hk.1
      simp only [parseElem] at h
      cases hc : parseElem cfg S fin f (elemKey cfg S name) (loadAttrs cfg S attrs) none 0 none rest with
      | ok p =>
        obtain ⟨v1, r1⟩ := p
        rw [hc] at h
        have h1 := ih rest _ _ none _ _ _ _ (elemKeysOK_cons cfg S ec _ _ hk)
          (encOK_loadAttrs ec cfg S attrs) trivial hc
        simp only at h
        exact ih r1 _ _ _ _ _ _ _ h1.2
          (encOKEntries_addChild ec _ _ na hp (encOK_seqDecorate ec cfg seq v1 h1.1) hna) hn h
      | eof => simp [hc] at h
      | «syntax» => simp [hc] at h
      | err k => simp [hc] at h
      | panic s => simp [hc] at h

theorem decodeTop_encOK (cfg : DecCfg) (S : Strconv) (fin : StreamEnd) (ec : EncCfg) :
    ∀ (f : Nat) (toks : List Tok) (v : Val) (r : List Tok), elemKeysOK cfg S ec toks = true →
      decodeTop cfg S fin f toks = .ok (v, r) → encOK ec v = true := by
  intro f
  induction f with
  | zero => intro toks v r _ h; simp [decodeTop] at h
  | succ f ih =>
    intro toks v r hk h
    match toks with
    | [] => cases fin <;> simp [decodeTop] at h
    | .stop _ _ :: rest =>
      simp only [decodeTop] at h; exact ih rest v r (elemKeysOK_cons cfg S ec _ _ hk) h
    | .text _ :: rest =>
      simp only [decodeTop] at h; exact ih rest v r (elemKeysOK_cons cfg S ec _ _ hk) h
    | .comment _ :: rest =>
      simp only [decodeTop] at h; exact ih rest v r (elemKeysOK_cons cfg S ec _ _ hk) h
    | .procinst _ _ :: rest =>
      simp only [decodeTop] at h; exact ih rest v r (elemKeysOK_cons cfg S ec _ _ hk) h
    | .directive _ :: rest =>
      simp only [decodeTop] at h; exact ih rest v r (elemKeysOK_cons cfg S ec _ _ hk) h
    | .start sp name attrs :: rest =>
      have hp : plainE ec (elemKey cfg S name) = true := by
        simp only [elemKeysOK, List.all_cons, Bool.and_eq_true] at hk
        exact hk.1
      simp only [decodeTop] at h
      cases hc : parseElem cfg S fin f (elemKey cfg S name) (loadAttrs cfg S attrs) none 0 none rest with
      | ok p =>
        obtain ⟨v1, r1⟩ := p
        rw [hc] at h
        simp only [Outcome.ok.injEq, Prod.mk.injEq] at h
        obtain ⟨rfl, rfl⟩ := h
        have h1 := parseElem_encOK cfg S fin ec f rest _ _ none _ _ _ _
          (elemKeysOK_cons cfg S ec _ _ hk) (encOK_loadAttrs ec cfg S attrs) trivial hc
        simp only [encOK, encOKEntries, Bool.and_eq_true, Bool.or_eq_true]
        exact ⟨⟨.inl hp, h1.1⟩, trivial⟩
      | eof => simp [hc] at h
      | «syntax» => simp [hc] at h
      | err k => simp [hc] at h
      | panic s => simp [hc] at h

theorem newMapXml_encOK (cfg : DecCfg) (S : Strconv) (ec : EncCfg) (toks : List Tok)
    (fin : StreamEnd) (v : Val) (hk : elemKeysOK cfg S ec toks = true)
    (h : newMapXml cfg S toks fin = .ok v) : encOK ec v = true := by
  unfold newMapXml at h
  cases hc : decodeTop cfg S fin (toks.length + 1) toks with
  | ok p =>
    obtain ⟨v1, r1⟩ := p
    rw [hc] at h
    simp only [Outcome.ok.injEq] at h
    subst h
    exact decodeTop_encOK cfg S fin ec _ toks _ r1 hk hc
  | eof => simp [hc] at h
  | «syntax» => simp [hc] at h
  | err k => simp [hc] at h
  | panic s => simp [hc] at h

end Total

/-! ### (5) the `getJson` scanner -/

namespace Total
open Mxj.Stream

/-- scanner invariant: nothing is collected before the first `{`, and what is collected
    starts with it (`jb` is kept reversed) -/
def JInv (st : JState) : Prop :=
  (st.inJson = false → st.jb = []) ∧ (st.inJson = true → st.jb.getLast? = some '{')

def docShape : JRes → Prop
  | .doc raw => raw.head? = some '{' ∧ raw.getLast? = some '}'
  | _ => True

theorem getLast?_cons_of (c : Char) (l : List Char) (x : Char) (h : l.getLast? = some x) :
    (c :: l).getLast? = some x := by
  cases l with
  | nil => simp at h
  | cons a as => simpa [List.getLast?_cons_cons] using h

theorem shape_of (l : List Char) (x : Char) (h : l.getLast? = some x) :
    (l.reverse ++ ['}']).head? = some x ∧ (l.reverse ++ ['}']).getLast? = some '}' := by
  refine ⟨?_, by simp⟩
  have := List.head?_reverse (l := l)
  rw [h] at this
  cases hr : l.reverse with
  | nil => rw [hr] at this; simp at this
  | cons y t => rw [hr] at this; simpa using this

set_option linter.unusedSimpArgs false in
theorem stepJ_inv (c : Char) (st : JState) (h : JInv st) :
    match stepJ c st with
    | .inl r => docShape r
    | .inr st' => JInv st' := by
  obtain ⟨jb, inQuote, inJson, paren, escaped⟩ := st
  obtain ⟨h1, h2⟩ := h
  simp only at h1 h2
  unfold stepJ
  simp only
  by_cases c1 : c = '{'
  · subst c1
    cases inQuote <;> cases inJson <;> simp [JInv] at h1 h2 ⊢
    all_goals first
      | exact getLast?_cons_of _ _ _ h2
      | (subst h1; simp)
  · simp only [c1, if_false]
    by_cases c2 : c = '}'
    · subst c2
      cases inQuote <;> cases inJson <;> simp [JInv, docShape] at h1 h2 ⊢
      all_goals first
      | exact h1
      | exact getLast?_cons_of _ _ _ h2
      | (by_cases hp : paren = 0 <;> simp [hp, h1]; done)
      | (by_cases hp : paren = 0 <;> by_cases hp2 : paren - 1 = 0 <;>
          simp [hp, hp2, getLast?_cons_of _ _ _ h2, shape_of _ _ h2]; done)
      | (by_cases hw : isJsonWs c = true <;> simp [hw, h2, getLast?_cons_of _ _ _ h2]; done)
    · simp only [c2, if_false]
      by_cases c3 : c = '"'
      · subst c3
        cases inQuote <;> cases inJson <;> simp [JInv] at h1 h2 ⊢
        all_goals first
        | exact h1
        | exact getLast?_cons_of _ _ _ h2
        | (by_cases hp : paren = 0 <;> simp [hp, h1]; done)
        | (by_cases hp : paren = 0 <;> by_cases hp2 : paren - 1 = 0 <;>
            simp [hp, hp2, getLast?_cons_of _ _ _ h2, shape_of _ _ h2]; done)
        | (by_cases hw : isJsonWs c = true <;> simp [hw, h2, getLast?_cons_of _ _ _ h2]; done)
      · simp only [c3, if_false]
        cases inQuote <;> cases inJson <;> simp [JInv] at h1 h2 ⊢
        all_goals first
        | exact h1
        | exact getLast?_cons_of _ _ _ h2
        | (by_cases hp : paren = 0 <;> simp [hp, h1]; done)
        | (by_cases hp : paren = 0 <;> by_cases hp2 : paren - 1 = 0 <;>
            simp [hp, hp2, getLast?_cons_of _ _ _ h2, shape_of _ _ h2]; done)
        | (by_cases hw : isJsonWs c = true <;> simp [hw, h2, getLast?_cons_of _ _ _ h2]; done)

/-- `getJson` hands out a document only in the form `{ … }` -/
theorem getJson_docShape : ∀ (s : Sched) (st : JState), JInv st → docShape (getJson s st).1 := by
  intro s
  induction s with
  | nil => intro st _; rw [getJson_nil]; simp only [endRes]; split <;> trivial
  | cons r rest ih =>
    intro st h
    cases r with
    | zero => rw [getJson_zero]; exact ih st h
    | zeroEof => rw [getJson_zeroEof]; simp only [endRes]; split <;> trivial
    | fail => rw [getJson_fail]; trivial
    | byte c e =>
      rw [getJson_byte]
      have h1 := stepJ_inv c st h
      cases hs : stepJ c st with
      | inl r => rw [hs] at h1; exact h1
      | inr st' => rw [hs] at h1; exact ih st' h1

end Total
end Mxj
