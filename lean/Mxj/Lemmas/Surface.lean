/-
  Mxj.Lemmas.Surface — the tokenizer model on the surface renderings of `Model/Surface.lean`:
  `tokenize (renderS n) = some (flatten (toNode n))` for every well-formed surface tree
  (`surfOk`), by one-step lemmas (here: attributes in either quote style with white space,
  end tags with white space, CDATA sections, comments; from `Lemmas/Tokenizer.lean`: names,
  `tokF_step'`) and the continuation form of compositionality.
-/
import Mxj.Model.Surface
import Mxj.Lemmas.TokenizerCatGen
namespace Mxj.Surf
open Mxj Mxj.Enc Mxj.EscDec Mxj.Tokz

/-- raw character data / a raw attribute value between quotes `q`: no `<`, `>`, `\r`, no `q` -/
def rawOk (q : Char) (r : Str) : Bool :=
  r.all (fun c => c != '<' && c != '>' && c != '\r' && c != q)

def allSp (w : Str) : Bool := w.all isSp

/-- one attribute: an XML name, white space where white space is written, the raw value free of
    its quote character and of `<`, `>`, `\r`, expanding to `val`, a round-trippable value -/
def sattrOk (a : SAttr) : Bool :=
  xmlNameOk a.name && allSp a.w1 && allSp a.w2 && allSp a.w3 && rawOk (quoteOf a.single) a.raw
    && decide (unesc a.raw = some a.val) && xmlCharsOk a.val

/-- a comment body: no `--` inside, no `-` at the end -/
def cmtOk : Str → Bool
  | [] => true
  | c :: r => !(['-', '-'].isPrefixOf (c :: (r ++ ['-']))) && cmtOk r

/-- the next sibling does not begin a run of raw character data -/
def nextNotRaw : List SNode → Bool
  | [] => true
  | k :: _ => !isRaw k

mutual
/-- well-formed surface trees: XML names; attribute values and raw text runs well-formed
    (`unesc raw = some val`), without raw `<`, `>`, `\r` (text: `<` is what ends the run, so a
    quote character may stand in text); CDATA content without `]]>`; comments without `--`;
    white space where white space is written; no raw run directly after another raw run (the two
    would be ONE run) -/
def surfOk : SNode → Bool
  | .elem name attrs wt ws kids =>
      xmlNameOk name && attrs.all sattrOk && allSp wt && allSp ws && surfOkKids kids
  | .empty name attrs wt => xmlNameOk name && attrs.all sattrOk && allSp wt
  | .text raw v => !raw.isEmpty && rawOk '<' raw && decide (unesc raw = some v) && xmlCharsOk v
  | .cdata s => !hasCDEnd s && xmlCharsOk s
  | .comment s => cmtOk s
def surfOkKids : List SNode → Bool
  | [] => true
  | k :: ks => surfOk k && (!isRaw k || nextNotRaw ks) && surfOkKids ks
end

theorem tokenize_step (s rest : Str) (tk ts : List Tok) (hs : step s = some (tk, rest))
    (hlen : rest.length < s.length) (ht : tokenize rest = some ts) :
    tokenize s = some (tk ++ ts) :=
  tokenize_of_tokF _ _ _ (tokF_step' _ s rest tk ts hs hlen ht)

/-! ### white space -/

theorem allSp_mem {w : Str} (h : allSp w = true) : ∀ x ∈ w, isSp x = true := by
  simpa [allSp] using h

theorem isSp_nameStop {c : Char} (h : isSp c = true) : (!isNmCh c && decide (c.toNat < 128)) = true := by
  simp only [isSp, Bool.or_eq_true, decide_eq_true_eq] at h
  rcases h with ((rfl | rfl) | rfl) | rfl <;> decide

/-- white space, then a non-name ASCII character: a name ends before it -/
theorem nameStop_ws (w : Str) (c : Char) (x : Str) (hw : allSp w = true)
    (hc : (!isNmCh c && decide (c.toNat < 128)) = true) : nameStop (w ++ c :: x) = true := by
  cases w with
  | nil => simpa [nameStop] using hc
  | cons d w' =>
    simp only [List.cons_append, nameStop]
    exact isSp_nameStop (allSp_mem hw d (List.mem_cons_self ..))

theorem dropSp_ws (w s : Str) (hw : allSp w = true) : dropSp (w ++ s) = dropSp s :=
  List.dropWhile_append_of_pos (allSp_mem hw)

theorem dropSp_ws_cons (w : Str) (c : Char) (s : Str) (hw : allSp w = true) (hc : isSp c = false) :
    dropSp (w ++ c :: s) = c :: s := by
  rw [dropSp_ws w _ hw, dropSp_cons hc]

theorem lexAttrs_ws (f : Nat) (w s : Str) (hw : allSp w = true) :
    lexAttrs (f + 1) (w ++ s) = lexAttrs (f + 1) s := by
  simp only [lexAttrs, dropSp_ws w s hw]

/-- an end tag with white space before `>` -/
theorem step_stop_ws (name ws rest : Str) (hn : xmlNameOk name = true)
    (hw : allSp ws = true) :
    step ('<' :: '/' :: (name ++ (ws ++ '>' :: rest))) = some ([Tok.stop [] name], rest) := by
  have hl := lexName_ok name (ws ++ '>' :: rest) hn (nameStop_ws ws '>' rest hw (by decide))
  have hd := dropSp_ws_cons ws '>' rest hw (by decide)
  simp [step, endTag, hl, hd]

/-! ### character data and attribute values -/

theorem rawOk_mem {q : Char} {r : Str} (h : rawOk q r = true) {c : Char} (hc : c ∈ r) :
    c ≠ '<' ∧ c ≠ '>' ∧ c ≠ '\r' ∧ c ≠ q := by
  have := (List.all_eq_true.mp h) c hc
  simp only [Bool.and_eq_true, bne_iff_ne, ne_eq] at this
  exact ⟨this.1.1.1, this.1.1.2, this.1.2, this.2⟩

theorem lexChars_rawOk (q : Char) (r v : Str) (hr : rawOk q r = true) (hu : unesc r = some v)
    (hv : xmlCharsOk v = true) : lexChars r = some v := by
  have h1 := hasCDEnd_false r (fun c hc => (rawOk_mem hr hc).2.1)
  have h2 : normCR r = r := normCRa_id r (fun c hc => (rawOk_mem hr hc).2.2.1)
  simp [lexChars, h1, h2, hu, charsOk_of_xml hv]

theorem step_text_raw (r v rest : Str) (hne : r ≠ []) (hr : rawOk '<' r = true)
    (hl : lexChars r = some v) (hrest : startsLt rest = true) :
    step (r ++ rest) = some ([Tok.text v], rest) := by
  have hq : ∀ x ∈ r, (x != '<') = true := fun x hx => by simp [(rawOk_mem hr hx).1]
  have h1 := takeWhile_stop (· != '<') r rest hq hrest
  have h2 := dropWhile_stop (· != '<') r rest hq hrest
  cases r with
  | nil => exact absurd rfl hne
  | cons c r' =>
    have hc : c ≠ '<' := (rawOk_mem hr (List.mem_cons_self ..)).1
    simp only [List.cons_append] at h1 h2 ⊢
    simp only [step, hc, if_false, textRun, h1, h2, hl]

/-- one attribute in either quote style, white space around `=` -/
theorem lexAttr_surf (name raw val : Str) (single : Bool) (w2 w3 tl : Str)
    (hn : xmlNameOk name = true) (hw2 : allSp w2 = true) (hw3 : allSp w3 = true)
    (hr : rawOk (quoteOf single) raw = true) (hu : unesc raw = some val)
    (hv : xmlCharsOk val = true) :
    lexAttr (name ++ (w2 ++ ('=' :: (w3 ++ (quoteOf single :: (raw ++ (quoteOf single :: tl)))))))
      = some (⟨[], name, val⟩, tl) := by
  have hl := lexName_ok name (w2 ++ ('=' :: (w3 ++ (quoteOf single :: (raw ++ (quoteOf single :: tl))))))
    hn (nameStop_ws w2 '=' _ hw2 (by decide))
  have hd2 := dropSp_ws_cons w2 '=' (w3 ++ (quoteOf single :: (raw ++ (quoteOf single :: tl)))) hw2
    (by decide)
  have hlc := lexChars_rawOk _ raw val hr hu hv
  cases single with
  | false =>
    simp only [quoteOf, Bool.false_eq_true, if_false] at hr hl hd2 ⊢
    have hq : ∀ x ∈ raw, (x != '"') = true := fun x hx => by simp [(rawOk_mem hr hx).2.2.2]
    have h1 := takeWhile_stop (· != '"') raw ('"' :: tl) hq (by simp [stops])
    have h2 := dropWhile_stop (· != '"') raw ('"' :: tl) hq (by simp [stops])
    have hd3 := dropSp_ws_cons w3 '"' (raw ++ '"' :: tl) hw3 (by decide)
    simp only [lexAttr, hl, hd2, hd3, if_true, decide_true, Bool.true_or, h1, h2, hlc]
  | true =>
    simp only [quoteOf, if_true] at hr hl hd2 ⊢
    have hq : ∀ x ∈ raw, (x != '\'') = true := fun x hx => by simp [(rawOk_mem hr hx).2.2.2]
    have h1 := takeWhile_stop (· != '\'') raw ('\'' :: tl) hq (by simp [stops])
    have h2 := dropWhile_stop (· != '\'') raw ('\'' :: tl) hq (by simp [stops])
    have hd3 := dropSp_ws_cons w3 '\'' (raw ++ '\'' :: tl) hw3 (by decide)
    simp only [lexAttr, hl, hd2, hd3, if_true, decide_true, Bool.or_true, h1, h2, hlc]

/-- the attribute loop on the surface attributes, white space before the end of the tag -/
theorem lexAttrs_surf (wt : Str) (hwt : allSp wt = true) (e : Bool) (rest : Str) :
    ∀ (as : List SAttr) (f : Nat), as.all sattrOk = true → as.length < f →
    lexAttrs f (renderSAttrs as ++ (wt ++ (tagEnd e ++ rest))) = some (valsOf as, e, rest)
  | [], f, _, hf => by
      obtain ⟨f', rfl⟩ : ∃ f', f = f' + 1 := ⟨f - 1, by simp at hf; omega⟩
      simp only [renderSAttrs, List.nil_append, valsOf]
      rw [lexAttrs_ws f' wt _ hwt]
      exact lexAttrs_end f' e rest
  | a :: as, f, hok, hf => by
      obtain ⟨f', rfl⟩ : ∃ f', f = f' + 1 := ⟨f - 1, by simp at hf; omega⟩
      simp only [List.all_cons, Bool.and_eq_true] at hok
      obtain ⟨ha, has⟩ := hok
      have ih := lexAttrs_surf wt hwt e rest as f' has (by simp at hf; omega)
      simp only [sattrOk, Bool.and_eq_true, decide_eq_true_eq] at ha
      obtain ⟨⟨⟨⟨⟨⟨hn, hw1⟩, hw2⟩, hw3⟩, hr⟩, hu⟩, hv⟩ := ha
      have hla := lexAttr_surf a.name a.raw a.val a.single a.w2 a.w3
        (renderSAttrs as ++ (wt ++ (tagEnd e ++ rest))) hn hw2 hw3 hr hu hv
      obtain ⟨c, nm, hname, hc⟩ := name_head hn
      have hfc := nameStart_facts hc
      have hsp : allSp (' ' :: a.w1) = true := by
        simp only [allSp, List.all_cons, Bool.and_eq_true]
        exact ⟨by decide, hw1⟩
      have hren : renderSAttrs (a :: as) ++ (wt ++ (tagEnd e ++ rest))
          = (' ' :: a.w1) ++ (a.name ++ (a.w2 ++ ('=' :: (a.w3 ++ (quoteOf a.single :: (a.raw ++
              (quoteOf a.single :: (renderSAttrs as ++ (wt ++ (tagEnd e ++ rest)))))))))) := by
        simp [renderSAttrs, List.append_assoc]
      rw [hren, lexAttrs_ws f' _ _ hsp]
      rw [hname] at hla ⊢
      simp only [List.cons_append] at hla ⊢
      simp only [lexAttrs, dropSp_cons hfc.1, hfc.2.1, hfc.2.2.1, if_false, hla, ih, valsOf, hname]

theorem renderSAttrs_length : ∀ (as : List SAttr), as.length ≤ (renderSAttrs as).length
  | [] => Nat.le_refl _
  | a :: as => by
      have := renderSAttrs_length as
      simp only [renderSAttrs, List.length_cons, List.length_append]
      omega

theorem nameStop_sattrs (as : List SAttr) (wt : Str) (hwt : allSp wt = true) (e : Bool) (rest : Str) :
    nameStop (renderSAttrs as ++ (wt ++ (tagEnd e ++ rest))) = true := by
  cases as with
  | nil =>
    cases e
    · simpa [renderSAttrs, tagEnd] using nameStop_ws wt '>' rest hwt (by decide)
    · simpa [renderSAttrs, tagEnd] using nameStop_ws wt '/' ('>' :: rest) hwt (by decide)
  | cons a as => simp [renderSAttrs, nameStop]; decide

/-- a start tag (`e = false`) or an empty-element tag (`e = true`) with surface attributes -/
theorem step_start_surf (name : Str) (as : List SAttr) (wt : Str) (e : Bool) (rest : Str)
    (hn : xmlNameOk name = true) (has : as.all sattrOk = true) (hwt : allSp wt = true) :
    step ('<' :: (name ++ (renderSAttrs as ++ (wt ++ (tagEnd e ++ rest)))))
      = some (if e then [Tok.start [] name (valsOf as), Tok.stop [] name]
              else [Tok.start [] name (valsOf as)], rest) := by
  have hl := lexName_ok name _ hn (nameStop_sattrs as wt hwt e rest)
  have ha := lexAttrs_surf wt hwt e rest as
    ((renderSAttrs as ++ (wt ++ (tagEnd e ++ rest))).length + 1) has (by
      have := renderSAttrs_length as
      simp only [List.length_append]; omega)
  obtain ⟨c, nm, hname, hc⟩ := name_head hn
  have hfc := nameStart_facts hc
  rw [hname] at hl ⊢
  simp only [List.cons_append] at hl ⊢
  simp only [step, if_true, hfc.2.2.1, hfc.2.2.2.2.1, hfc.2.2.2.2.2, if_false, startTag, hl, ha]

/-! ### CDATA sections -/

theorem isPrefix_cdEnd (c : Char) (r rest : Str)
    (h : cdClose.isPrefixOf (c :: r) = false) :
    cdClose.isPrefixOf (c :: (r ++ (cdClose ++ rest))) = false := by
  match r, h with
  | [], _ => simp [cdClose, List.isPrefixOf]
  | [d], _ => simp [cdClose, List.isPrefixOf]
  | d :: e :: r', h => simpa [cdClose, List.isPrefixOf] using h

theorem breakOn_cdEnd : ∀ (s rest : Str), hasCDEnd s = false →
    breakOn cdClose (s ++ (cdClose ++ rest)) = some (s, rest)
  | [], rest, _ => by simp [breakOn, cdClose, List.isPrefixOf]
  | c :: r, rest, h => by
      simp only [hasCDEnd, Bool.or_eq_false_iff] at h
      have hp := isPrefix_cdEnd c r rest h.1
      have ih := breakOn_cdEnd r rest h.2
      simp only [List.cons_append, breakOn, hp, ih]
      simp

theorem step_cdata (s rest : Str) (hc : hasCDEnd s = false) (hx : xmlCharsOk s = true) :
    step (cdOpen ++ (s ++ (cdClose ++ rest))) = some ([Tok.text s], rest) := by
  have hcr : ∀ c ∈ s, c ≠ '\r' := by
    intro c hm
    have := (List.all_eq_true.mp hx) c hm
    simp only [Bool.and_eq_true, bne_iff_ne, ne_eq] at this
    exact this.2
  have hn : normCR s = s := normCRa_id s hcr
  have hcd : cdataChars s = some s := by simp [cdataChars, hn, charsOk_of_xml hx]
  have hb := breakOn_cdEnd s rest hc
  have hb' : breakOn [']', ']', '>'] (s ++ (cdClose ++ rest)) = some (s, rest) := hb
  simp only [cdOpen, List.cons_append, List.nil_append, step]
  simp [bang, List.isPrefixOf, hb', hcd]

/-! ### comments -/

theorem isPrefix_dd (c : Char) (r x : Str)
    (h : ['-', '-'].isPrefixOf (c :: (r ++ ['-'])) = false) :
    ['-', '-'].isPrefixOf (c :: (r ++ ('-' :: x))) = false := by
  match r, h with
  | [], h => simpa [List.isPrefixOf] using h
  | d :: r', h => simpa [List.isPrefixOf] using h

theorem breakOn_dd : ∀ (s x : Str), cmtOk s = true →
    breakOn ['-', '-'] (s ++ ('-' :: '-' :: x)) = some (s, x)
  | [], x, _ => by simp [breakOn, List.isPrefixOf]
  | c :: r, x, h => by
      simp only [cmtOk, Bool.and_eq_true, Bool.not_eq_true'] at h
      have hp := isPrefix_dd c r ('-' :: x) h.1
      have ih := breakOn_dd r x h.2
      simp only [List.cons_append, breakOn, hp, ih]
      simp

theorem step_comment (s rest : Str) (hc : cmtOk s = true) :
    step ('<' :: '!' :: '-' :: '-' :: (s ++ ('-' :: '-' :: '>' :: rest)))
      = some ([Tok.comment s], rest) := by
  have hb := breakOn_dd s ('>' :: rest) hc
  simp [step, bang, List.isPrefixOf, hb]

/-! ### the token loop on a surface tree -/

theorem startsLt_notRaw (k : SNode) (x : Str) (h : isRaw k = false) :
    startsLt (renderS k ++ x) = true := by
  cases k <;> simp [isRaw] at h <;> simp [renderS, startsLt, stops, cdOpen]

theorem startsLt_next (ks : List SNode) (rest : Str) (h : nextNotRaw ks = true)
    (hr : startsLt rest = true) : startsLt (renderSKids ks ++ rest) = true := by
  cases ks with
  | nil => simpa [renderSKids] using hr
  | cons k ks' =>
    simp only [nextNotRaw, Bool.not_eq_true'] at h
    simp only [renderSKids, List.append_assoc]
    exact startsLt_notRaw k _ h

mutual
theorem tok_node : ∀ (n : SNode), surfOk n = true → ∀ (rest : Str) (us : List Tok),
    tokenize rest = some us → (isRaw n = true → startsLt rest = true) →
    tokenize (renderS n ++ rest) = some (flatten (toNode n) ++ us)
  | .elem name attrs wt ws kids, hok, rest, us, hr, _ => by
      simp only [surfOk, Bool.and_eq_true] at hok
      obtain ⟨⟨⟨⟨hn, ha⟩, hwt⟩, hw⟩, hk⟩ := hok
      -- the end tag
      have hstop := step_stop_ws name ws rest hn hw
      have hend : tokenize ('<' :: '/' :: (name ++ (ws ++ '>' :: rest)))
          = some ([Tok.stop [] name] ++ us) :=
        tokenize_step _ rest _ us hstop (by simp [List.length_append]; omega) hr
      -- the children
      have hkids := tok_kids kids hk _ _ hend (by simp [startsLt, stops])
      -- the start tag
      have hstart := step_start_surf name attrs wt false
        (renderSKids kids ++ ('<' :: '/' :: (name ++ (ws ++ '>' :: rest)))) hn ha hwt
      have hall := tokenize_step _ _ _ _ hstart (by simp [List.length_append]; omega) hkids
      have he : renderS (.elem name attrs wt ws kids) ++ rest
          = '<' :: (name ++ (renderSAttrs attrs ++ (wt ++ (tagEnd false ++
              (renderSKids kids ++ ('<' :: '/' :: (name ++ (ws ++ '>' :: rest)))))))) := by
        simp [renderS, tagEnd, List.append_assoc]
      rw [he, hall]
      simp [toNode, flatten]
  | .empty name attrs wt, hok, rest, us, hr, _ => by
      simp only [surfOk, Bool.and_eq_true] at hok
      obtain ⟨⟨hn, ha⟩, hwt⟩ := hok
      have hstart := step_start_surf name attrs wt true rest hn ha hwt
      have hall := tokenize_step _ _ _ _ hstart (by simp [List.length_append, tagEnd]; omega) hr
      have he : renderS (.empty name attrs wt) ++ rest
          = '<' :: (name ++ (renderSAttrs attrs ++ (wt ++ (tagEnd true ++ rest)))) := by
        simp [renderS, tagEnd, List.append_assoc]
      rw [he, hall]
      simp [toNode, flatten, flattenKids]
  | .text raw v, hok, rest, us, hr, hlt => by
      simp only [surfOk, Bool.and_eq_true, decide_eq_true_eq, Bool.not_eq_true',
        List.isEmpty_eq_false_iff] at hok
      obtain ⟨⟨⟨hne, hv⟩, hu⟩, hx⟩ := hok
      have hl := lexChars_rawOk _ raw v hv hu hx
      have hs := step_text_raw raw v rest hne hv hl (hlt rfl)
      have hlen : rest.length < (raw ++ rest).length := by
        cases raw with
        | nil => exact absurd rfl hne
        | cons c r => simp; omega
      have := tokenize_step _ _ _ _ hs hlen hr
      simpa [renderS, toNode, flatten] using this
  | .cdata s, hok, rest, us, hr, _ => by
      simp only [surfOk, Bool.and_eq_true, Bool.not_eq_true'] at hok
      have hs := step_cdata s rest hok.1 hok.2
      have := tokenize_step _ _ _ _ hs (by simp [cdOpen, cdClose]; omega) hr
      simpa [renderS, toNode, flatten, List.append_assoc] using this
  | .comment s, hok, rest, us, hr, _ => by
      simp only [surfOk] at hok
      have hs := step_comment s rest hok
      have := tokenize_step _ _ _ _ hs (by simp; omega) hr
      simpa [renderS, toNode, flatten, List.append_assoc] using this
theorem tok_kids : ∀ (ks : List SNode), surfOkKids ks = true → ∀ (rest : Str) (us : List Tok),
    tokenize rest = some us → startsLt rest = true →
    tokenize (renderSKids ks ++ rest) = some (flattenKids (toNodes ks) ++ us)
  | [], _, rest, us, hr, _ => by simpa [renderSKids, toNodes, flattenKids] using hr
  | k :: ks, hok, rest, us, hr, hlt => by
      simp only [surfOkKids, Bool.and_eq_true, Bool.or_eq_true, Bool.not_eq_true'] at hok
      obtain ⟨⟨hk, hj⟩, hks⟩ := hok
      have ih := tok_kids ks hks rest us hr hlt
      have hn := tok_node k hk (renderSKids ks ++ rest) _ ih (by
        intro hraw
        rcases hj with hj | hj
        · rw [hraw] at hj; cases hj
        · exact startsLt_next ks rest hj hlt)
      simpa [renderSKids, toNodes, flattenKids, List.append_assoc] using hn
end

/-- a surface tree on its own -/
theorem tokenize_renderS (n : SNode) (hok : surfOk n = true) :
    tokenize (renderS n) = some (flatten (toNode n)) := by
  have := tok_node n hok [] [] (by decide) (fun _ => rfl)
  simpa using this

/-! ### documents: the root is an element -/

/-- the root of a document is an element -/
def isElemS : SNode → Bool
  | .elem .. => true
  | .empty .. => true
  | _ => false

theorem startsLt_elemS (n : SNode) (x : Str) (h : isElemS n = true) :
    startsLt (renderS n ++ x) = true := by
  cases n <;> simp [isElemS] at h <;> simp [renderS, startsLt, stops]

theorem toNode_elemS (n : SNode) (h : isElemS n = true) :
    ∃ name vals kids, toNode n = .elem [] name vals kids := by
  cases n <;> simp [isElemS] at h <;> simp [toNode]

end Mxj.Surf
