/-
  Mxj.Lemmas.Seq — helper lemmas for C04 (Props/C04.lean), namespace `Mxj.SeqL`:
  (1) `sortBySeq` is a permutation, sorted, and canonical on lists with distinct `#seq`;
  (2) the streaming decoder `seqElem`/`seqTop` is monotone in fuel and, on the tokens of a
      tree, computes `SeqFold.value`/`SeqFold.doc`;
  (3) the normal form of the decoded value of an in-domain element (`SeqFold.value`):
      `#attr` entry, text entries, then the grouped children — whose unrolled entries are a
      permutation of the decorated children in document order (`items`), numbered consecutively;
  (4) the tree-form encoder `seqEncTree` undoes the decoder on the domain.
-/
import Mxj.Model.SeqTree
import Mxj.Lemmas.Decode
import Mxj.Lemmas.Leaf
namespace Mxj
namespace SeqL
open Mxj.Dec

/-! ### (1) sorting by `#seq` -/

theorem insertBySeq_perm (c : SeqCfg) (e : Str × Val) : ∀ (l : List (Str × Val)),
    (insertBySeq c e l).Perm (e :: l)
  | [] => by simp [insertBySeq]
  | x :: xs => by
      simp only [insertBySeq]
      split
      · exact ((insertBySeq_perm c e xs).cons x).trans (List.Perm.swap e x xs)
      · exact List.Perm.refl _

theorem sortBySeq_cons (c : SeqCfg) (x : Str × Val) (xs : List (Str × Val)) :
    sortBySeq c (x :: xs) = insertBySeq c x (sortBySeq c xs) := rfl

theorem sortBySeq_perm (c : SeqCfg) : ∀ (l : List (Str × Val)), (sortBySeq c l).Perm l
  | [] => by simp [sortBySeq]
  | x :: xs => by
      rw [sortBySeq_cons]
      exact (insertBySeq_perm c x _).trans ((sortBySeq_perm c xs).cons x)

def SeqSorted (c : SeqCfg) (l : List (Str × Val)) : Prop :=
  l.Pairwise (fun a b => seqOf c a.2 ≤ seqOf c b.2)

theorem insertBySeq_sorted (c : SeqCfg) (e : Str × Val) : ∀ (l : List (Str × Val)),
    SeqSorted c l → SeqSorted c (insertBySeq c e l)
  | [], _ => by simp [insertBySeq, SeqSorted]
  | x :: xs, h => by
      unfold SeqSorted at h ⊢
      rw [List.pairwise_cons] at h
      simp only [insertBySeq]
      split
      · rename_i hx
        rw [List.pairwise_cons]
        refine ⟨?_, insertBySeq_sorted c e xs h.2⟩
        intro y hy
        rcases List.mem_cons.1 ((insertBySeq_perm c e xs).mem_iff.1 hy) with rfl | hy
        · exact hx
        · exact h.1 y hy
      · rename_i hx
        have hex : seqOf c e.2 ≤ seqOf c x.2 := by omega
        rw [List.pairwise_cons]
        refine ⟨?_, List.pairwise_cons.2 h⟩
        intro y hy
        rcases List.mem_cons.1 hy with rfl | hy
        · exact hex
        · exact Nat.le_trans hex (h.1 y hy)

theorem sortBySeq_sorted (c : SeqCfg) : ∀ (l : List (Str × Val)), SeqSorted c (sortBySeq c l)
  | [] => by simp [sortBySeq, SeqSorted]
  | x :: xs => by
      rw [sortBySeq_cons]
      exact insertBySeq_sorted c x _ (sortBySeq_sorted c xs)

/-- two members of a strictly increasing list with the same key are the same -/
theorem eq_of_pairwise_lt {α : Type} (k : α → Nat) : ∀ (l : List α),
    l.Pairwise (fun a b => k a < k b) → ∀ a ∈ l, ∀ b ∈ l, k a = k b → a = b
  | [], _, a, ha, _, _, _ => by simp at ha
  | x :: xs, h, a, ha, b, hb, e => by
      rw [List.pairwise_cons] at h
      rcases List.mem_cons.1 ha with ha1 | ha1 <;> rcases List.mem_cons.1 hb with hb1 | hb1
      · rw [ha1, hb1]
      · subst ha1; have := h.1 b hb1; omega
      · subst hb1; have := h.1 a ha1; omega
      · exact eq_of_pairwise_lt k xs h.2 a ha1 b hb1 e

theorem sortBySeq_inverts_perm (c : SeqCfg) (l p : List (Str × Val)) (hp : List.Perm p l)
    (hsorted : List.Pairwise (fun a b => seqOf c a.2 < seqOf c b.2) l) : sortBySeq c p = l := by
  have hle : SeqSorted c l := hsorted.imp (fun h => Nat.le_of_lt h)
  refine List.Perm.eq_of_pairwise ?_ (sortBySeq_sorted c p) hle ((sortBySeq_perm c p).trans hp)
  intro a b ha hb hab hba
  have ha' : a ∈ l := ((sortBySeq_perm c p).trans hp).mem_iff.1 ha
  exact eq_of_pairwise_lt (fun e => seqOf c e.2) l hsorted a ha' b hb (Nat.le_antisymm hab hba)

theorem sortBySeq_of_sorted (c : SeqCfg) (l : List (Str × Val))
    (hsorted : List.Pairwise (fun a b => seqOf c a.2 < seqOf c b.2) l) : sortBySeq c l = l :=
  sortBySeq_inverts_perm c l l (List.Perm.refl _) hsorted

/-! ### (2) fuel monotonicity; the stream decoder computes the tree fold -/

theorem seqElem_text (c : SeqCfg) (S : Strconv) (fin : StreamEnd) (f : Nat) (skey : Str)
    (na : Entries) (seq : Nat) (pend : Option (Str × Bool)) (s : Str) (rest : List Tok) :
    seqElem c S fin (f + 1) skey na seq pend (.text s :: rest)
      = seqElem c S fin f skey (SeqFold.onText c S na seq pend s).1
          (SeqFold.onText c S na seq pend s).2.1 (SeqFold.onText c S na seq pend s).2.2 rest := by
  rcases pend with _ | ⟨p, b⟩
  · simp only [seqElem, SeqFold.onText]
    by_cases h1 : (escDecIf c.dec (trimChars (trimSet c.dec) ([] ++ s))).isEmpty = true
    · simp only [h1, if_true]
    · simp only [h1, if_false, Bool.false_eq_true]
  · simp only [seqElem, SeqFold.onText]
    by_cases h1 : (escDecIf c.dec (trimChars (trimSet c.dec) (p ++ s))).isEmpty = true
    · simp only [h1, if_true]
    · cases b <;> simp only [h1, if_false, if_true, Bool.false_eq_true]

theorem seqElem_mono (c : SeqCfg) (S : Strconv) (fin : StreamEnd) :
    ∀ (f : Nat) (skey : Str) (na : Entries) (seq : Nat) (pend : Option (Str × Bool))
      (toks : List Tok) (r : Val × List Tok),
      seqElem c S fin f skey na seq pend toks = .ok r →
      seqElem c S fin (f + 1) skey na seq pend toks = .ok r := by
  intro f
  induction f with
  | zero => intro skey na seq pend toks r h; simp [seqElem] at h
  | succ f ih =>
    intro skey na seq pend toks r h
    match toks with
    | [] => cases fin <;> simp [seqElem] at h
    | .stop _ _ :: rest => simpa [seqElem] using h
    | .text s :: rest =>
      rw [seqElem_text] at h ⊢
      exact ih _ _ _ _ _ _ h
    | .comment _ :: rest =>
      simp only [seqElem] at h ⊢
      exact ih _ _ _ _ _ _ h
    | .procinst _ _ :: rest =>
      simp only [seqElem] at h ⊢
      exact ih _ _ _ _ _ _ h
    | .directive _ :: rest =>
      simp only [seqElem] at h ⊢
      exact ih _ _ _ _ _ _ h
    | .start sp name attrs :: rest =>
      simp only [seqElem] at h ⊢
      cases hp : seqElem c S fin f (qualName c sp name) (seqInitNa c S attrs) 0 none rest with
      | ok p =>
        obtain ⟨v, rest'⟩ := p
        simp only [hp] at h
        rw [ih _ _ _ _ _ _ hp]
        exact ih _ _ _ _ _ _ h
      | eof => simp [hp] at h
      | «syntax» => simp [hp] at h
      | err k => simp [hp] at h
      | panic s => simp [hp] at h

theorem seqElem_mono_le (c : SeqCfg) (S : Strconv) (fin : StreamEnd) {f g : Nat} (hfg : f ≤ g)
    {skey : Str} {na : Entries} {seq : Nat} {pend : Option (Str × Bool)}
    {toks : List Tok} {r : Val × List Tok}
    (h : seqElem c S fin f skey na seq pend toks = .ok r) :
    seqElem c S fin g skey na seq pend toks = .ok r := by
  induction hfg with
  | refl => exact h
  | step _ ih => exact seqElem_mono c S fin _ _ _ _ _ _ _ ih

theorem seqTop_mono (c : SeqCfg) (S : Strconv) (fin : StreamEnd) :
    ∀ (f : Nat) (toks : List Tok) (r : SeqTop),
      seqTop c S fin f toks = .ok r → seqTop c S fin (f + 1) toks = .ok r := by
  intro f
  induction f with
  | zero => intro toks r h; simp [seqTop] at h
  | succ f ih =>
    intro toks r h
    match toks with
    | [] => cases fin <;> simp [seqTop] at h
    | .stop _ _ :: rest => simp [seqTop] at h
    | .text s :: rest => simp only [seqTop] at h ⊢; exact ih _ _ h
    | .comment _ :: rest => simpa only [seqTop] using h
    | .procinst _ _ :: rest => simpa only [seqTop] using h
    | .directive _ :: rest => simpa only [seqTop] using h
    | .start sp name attrs :: rest =>
      simp only [seqTop] at h ⊢
      cases hp : seqElem c S fin f (qualName c sp name) (seqInitNa c S attrs) 0 none rest with
      | ok p =>
        obtain ⟨v, rest'⟩ := p
        simp only [hp] at h
        rw [seqElem_mono c S fin _ _ _ _ _ _ _ hp]
        exact h
      | eof => simp [hp] at h
      | «syntax» => simp [hp] at h
      | err k => simp [hp] at h
      | panic s => simp [hp] at h

theorem seqTop_mono_le (c : SeqCfg) (S : Strconv) (fin : StreamEnd) {f g : Nat} (hfg : f ≤ g)
    {toks : List Tok} {r : SeqTop} (h : seqTop c S fin f toks = .ok r) :
    seqTop c S fin g toks = .ok r := by
  induction hfg with
  | refl => exact h
  | step _ ih => exact seqTop_mono c S fin _ _ _ ih

mutual
theorem seq_parse_tree (c : SeqCfg) (S : Strconv) (fin : StreamEnd) : ∀ (t : Node),
    match t with
    | .elem sp name attrs ks => ∀ (rest : List Tok) (f : Nat), (flattenKids ks).length + 1 ≤ f →
        seqElem c S fin f (qualName c sp name) (seqInitNa c S attrs) 0 none
          (flattenKids ks ++ Tok.stop sp name :: rest) = .ok (SeqFold.value c S t, rest)
    | _ => True
  | .elem sp name attrs ks => by
      intro rest f hf
      have := seq_parse_kids c S fin ks sp name (seqInitNa c S attrs) 0 none rest f hf
      simpa [SeqFold.value] using this
  | .text _ => trivial
  | .comment _ => trivial
  | .procinst _ _ => trivial
  | .directive _ => trivial
theorem seq_parse_kids (c : SeqCfg) (S : Strconv) (fin : StreamEnd) : ∀ (ks : List Node)
    (sp nm : Str) (na : Entries) (seq : Nat) (pend : Option (Str × Bool))
    (rest : List Tok) (f : Nat), (flattenKids ks).length + 1 ≤ f →
    seqElem c S fin f (qualName c sp nm) na seq pend (flattenKids ks ++ Tok.stop sp nm :: rest) =
      .ok (SeqFold.finish (SeqFold.kids' c S (na, seq, pend) ks).1, rest)
  | [], sp, nm, na, seq, pend, rest, f, hf => by
      obtain ⟨f, rfl⟩ : ∃ g, f = g + 1 := ⟨f - 1, by simp [flattenKids] at hf; omega⟩
      simp [flattenKids, seqElem, SeqFold.kids', SeqFold.finish]
  | .text s :: ks, sp, nm, na, seq, pend, rest, f, hf => by
      simp only [flattenKids, flatten, List.length_append, List.length_cons, List.length_nil] at hf
      obtain ⟨f, rfl⟩ : ∃ g, f = g + 1 := ⟨f - 1, by omega⟩
      have ih := seq_parse_kids c S fin ks sp nm
        (SeqFold.onText c S na seq pend s).1 (SeqFold.onText c S na seq pend s).2.1
        (SeqFold.onText c S na seq pend s).2.2 rest f (by omega)
      simp only [flattenKids, flatten, List.cons_append, List.nil_append, SeqFold.kids']
      rw [seqElem_text]
      exact ih
  | .comment s :: ks, sp, nm, na, seq, pend, rest, f, hf => by
      simp only [flattenKids, flatten, List.length_append, List.length_cons, List.length_nil] at hf
      obtain ⟨f, rfl⟩ : ∃ g, f = g + 1 := ⟨f - 1, by omega⟩
      have ih := seq_parse_kids c S fin ks sp nm
        (insert c.commentK (.map [(c.textK, .str s), (c.seqK, seqNum seq)]) na) (seq + 1) none
        rest f (by omega)
      simp only [flattenKids, flatten, List.cons_append, List.nil_append, seqElem, SeqFold.kids']
      exact ih
  | .procinst a b :: ks, sp, nm, na, seq, pend, rest, f, hf => by
      simp only [flattenKids, flatten, List.length_append, List.length_cons, List.length_nil] at hf
      obtain ⟨f, rfl⟩ : ∃ g, f = g + 1 := ⟨f - 1, by omega⟩
      have ih := seq_parse_kids c S fin ks sp nm
        (insert c.procinstK (.map [(c.targetK, .str a), (c.instK, .str b), (c.seqK, seqNum seq)]) na)
        (seq + 1) none rest f (by omega)
      simp only [flattenKids, flatten, List.cons_append, List.nil_append, seqElem, SeqFold.kids']
      exact ih
  | .directive s :: ks, sp, nm, na, seq, pend, rest, f, hf => by
      simp only [flattenKids, flatten, List.length_append, List.length_cons, List.length_nil] at hf
      obtain ⟨f, rfl⟩ : ∃ g, f = g + 1 := ⟨f - 1, by omega⟩
      have ih := seq_parse_kids c S fin ks sp nm
        (insert c.directiveK (.map [(c.textK, .str s), (c.seqK, seqNum seq)]) na) (seq + 1) none
        rest f (by omega)
      simp only [flattenKids, flatten, List.cons_append, List.nil_append, seqElem, SeqFold.kids']
      exact ih
  | .elem sp' name attrs ks' :: ks, sp, nm, na, seq, pend, rest, f, hf => by
      simp only [flattenKids, flatten, List.length_append, List.length_cons, List.length_nil] at hf
      obtain ⟨f, rfl⟩ : ∃ g, f = g + 1 := ⟨f - 1, by omega⟩
      have h1 := seq_parse_tree c S fin (.elem sp' name attrs ks')
      simp only at h1
      have h1' := h1 (flattenKids ks ++ Tok.stop sp nm :: rest) f (by omega)
      have h2 := seq_parse_kids c S fin ks sp nm
        (addChild na (qualName c sp' name)
          (seqChild c seq (SeqFold.value c S (.elem sp' name attrs ks'))))
        (seq + 1) none rest f (by omega)
      simp only [flattenKids, flatten, List.cons_append, List.nil_append, List.append_assoc, seqElem,
        SeqFold.kids']
      rw [h1']
      exact h2
end

/-- the first call on the tokens of an element: explicit fuel bound -/
theorem seqTop_tree (c : SeqCfg) (S : Strconv) (fin : StreamEnd)
    (sp name : Str) (attrs : List Attr) (kids : List Node) (rest : List Tok) (f : Nat)
    (hf : (flattenKids kids).length + 2 ≤ f) :
    seqTop c S fin f (flatten (.elem sp name attrs kids) ++ rest)
      = .ok (.doc (SeqFold.doc c S (.elem sp name attrs kids))) := by
  obtain ⟨f, rfl⟩ : ∃ g, f = g + 1 := ⟨f - 1, by omega⟩
  have h := seq_parse_tree c S fin (.elem sp name attrs kids)
  simp only at h
  have h' := h rest f (by omega)
  simp only [flatten, List.cons_append, List.append_assoc, List.nil_append, seqTop, h', SeqFold.doc]

def isText : Tok → Bool
  | .text _ => true
  | _ => false

/-- leading character data (BOM, white space) costs one unit of fuel per token -/
theorem seqTop_skip (c : SeqCfg) (S : Strconv) (fin : StreamEnd) :
    ∀ (pre : List Tok), (∀ t ∈ pre, isText t = true) → ∀ (f : Nat) (toks : List Tok),
      seqTop c S fin (pre.length + f) (pre ++ toks) = seqTop c S fin f toks
  | [], _, f, toks => by simp
  | t :: pre, h, f, toks => by
      have ih := seqTop_skip c S fin pre (fun t ht => h t (List.mem_cons_of_mem _ ht)) f toks
      have ht := h t (List.mem_cons_self ..)
      have e : (t :: pre).length + f = (pre.length + f) + 1 := by simp; omega
      rw [e]
      cases t with
      | text _ => simpa only [List.cons_append, seqTop] using ih
      | start _ _ _ => simp [isText] at ht
      | stop _ _ => simp [isText] at ht
      | comment _ => simp [isText] at ht
      | procinst _ _ => simp [isText] at ht
      | directive _ => simp [isText] at ht

theorem newMapXmlSeq_tree (c : SeqCfg) (S : Strconv) (fin : StreamEnd) (pre post : List Tok)
    (hpre : ∀ t ∈ pre, isText t = true) (sp name : Str) (attrs : List Attr) (kids : List Node) :
    newMapXmlSeq c S (pre ++ flatten (.elem sp name attrs kids) ++ post) fin
      = .ok (.doc (SeqFold.doc c S (.elem sp name attrs kids))) := by
  have e : (pre ++ flatten (.elem sp name attrs kids) ++ post).length + 1
      = pre.length + ((flatten (.elem sp name attrs kids)).length + post.length + 1) := by
    simp only [List.length_append]; omega
  unfold newMapXmlSeq
  rw [e, List.append_assoc, seqTop_skip c S fin pre hpre,
    seqTop_tree c S fin sp name attrs kids post _ (by rw [length_flatten_elem]; omega)]

/-! ### (3a) association lists: prefixes, `addAll`, `unrollEntries` -/

theorem keys_nil : keys ([] : Entries) = [] := rfl
theorem keys_cons' (e : Str × Val) (l : Entries) : keys (e :: l) = e.1 :: keys l := rfl
theorem keys_append' (a b : Entries) : keys (a ++ b) = keys a ++ keys b := by
  simp [keys]

theorem insert_append_left (k : Str) (v : Val) : ∀ (P G : Entries), k ∉ keys P →
    insert k v (P ++ G) = P ++ insert k v G
  | [], G, _ => rfl
  | (k', v') :: P, G, h => by
      have h' : k ≠ k' ∧ k ∉ keys P := by simpa [keys] using h
      simp only [List.cons_append, insert, h'.1, if_false]
      rw [insert_append_left k v P G h'.2]

theorem insert_append_right (k : Str) (v : Val) : ∀ (P G : Entries), k ∈ keys P →
    insert k v (P ++ G) = insert k v P ++ G
  | [], G, h => by simp [keys] at h
  | (k', v') :: P, G, h => by
      by_cases e : k = k'
      · simp only [List.cons_append, insert, e, if_true]
      · have h' : k ∈ keys P := by
          rw [keys_cons', List.mem_cons] at h
          rcases h with h | h
          · exact absurd h e
          · exact h
        simp only [List.cons_append, insert, e, if_false]
        rw [insert_append_right k v P G h']

theorem insert_absent (k : Str) (v : Val) : ∀ (P : Entries), k ∉ keys P →
    insert k v P = P ++ [(k, v)] := by
  intro P h
  have := insert_append_left k v P [] h
  simpa [insert] using this

theorem lookup_append_left (k : Str) : ∀ (P G : Entries), k ∉ keys P →
    lookup k (P ++ G) = lookup k G
  | [], G, _ => rfl
  | (k', v') :: P, G, h => by
      have h' : k ≠ k' ∧ k ∉ keys P := by simpa [keys] using h
      simp only [List.cons_append, lookup, h'.1, if_false]
      exact lookup_append_left k P G h'.2

theorem lookup_append_some (k : Str) (v : Val) : ∀ (P G : Entries), lookup k P = some v →
    lookup k (P ++ G) = some v
  | [], G, h => by simp [lookup] at h
  | (k', v') :: P, G, h => by
      by_cases e : k = k'
      · simpa only [List.cons_append, lookup, e, if_true] using h
      · simp only [List.cons_append, lookup, e, if_false] at h ⊢
        exact lookup_append_some k v P G h

theorem not_mem_keys_of_lookup {k : Str} {l : Entries} (h : lookup k l = none) : k ∉ keys l :=
  (Dec.lookup_eq_none_iff k l).1 h

theorem lookup_none_of_not_mem {k : Str} {l : Entries} (h : k ∉ keys l) : lookup k l = none :=
  (Dec.lookup_eq_none_iff k l).2 h

theorem addChild_append_left (k : Str) (v : Val) (P G : Entries) (h : k ∉ keys P) :
    addChild (P ++ G) k v = P ++ addChild G k v := by
  rw [addChild_eq, addChild_eq, lookup_append_left k P G h, insert_append_left k _ P G h]

theorem addAll_append_left (P : Entries) : ∀ (cs : List (Str × Val)) (G : Entries),
    (∀ e ∈ cs, e.1 ∉ keys P) → addAll (P ++ G) cs = P ++ addAll G cs
  | [], G, _ => rfl
  | e :: cs, G, h => by
      rw [addAll_cons, addAll_cons, addChild_append_left _ _ _ _ (h e (List.mem_cons_self ..))]
      exact addAll_append_left P cs _ (fun e' he' => h e' (List.mem_cons_of_mem _ he'))

theorem addAll_isEmpty : ∀ (cs : List (Str × Val)) (G : Entries),
    (addAll G cs).isEmpty = (G.isEmpty && cs.isEmpty)
  | [], G => by simp [addAll_nil]
  | e :: cs, G => by
      rw [addAll_cons, addAll_isEmpty cs, addChild_ne_nil]
      simp

theorem lookup_addAll_none (k : Str) (cs : List (Str × Val)) (G : Entries)
    (h1 : lookup k G = none) (h2 : ∀ e ∈ cs, e.1 ≠ k) : lookup k (addAll G cs) = none := by
  rw [lookup_addAll, h1]
  have : valsOf k cs = [] := by
    apply valsOf_eq_nil
    intro hm
    obtain ⟨e, he, hk⟩ := List.mem_map.1 hm
    exact h2 e he hk
  rw [this]; rfl

/-- the keys `unrollEntries` skips -/
def dropK (c : SeqCfg) (k : Str) : Bool := k = c.attrK || k = c.seqK || k = c.textK

/-- what one entry unrolls to -/
def unroll1 (k : Str) (v : Val) : List (Str × Val) :=
  match v with
  | .list xs => xs.map (fun x => (k, x))
  | v => [(k, v)]

theorem unrollEntries_cons (c : SeqCfg) (k : Str) (v : Val) (rest : Entries) :
    unrollEntries c ((k, v) :: rest)
      = (if dropK c k then [] else unroll1 k v) ++ unrollEntries c rest := by
  unfold dropK
  by_cases h : (k = c.attrK || k = c.seqK || k = c.textK) = true
  · cases v <;> simp only [unrollEntries, h, if_true, List.nil_append]
  · cases v <;> simp only [unrollEntries, h, if_false, Bool.false_eq_true, unroll1, List.cons_append,
      List.nil_append]

theorem unrollEntries_append (c : SeqCfg) : ∀ (X Y : Entries),
    unrollEntries c (X ++ Y) = unrollEntries c X ++ unrollEntries c Y
  | [], Y => by simp [unrollEntries]
  | (k, v) :: X, Y => by
      rw [List.cons_append, unrollEntries_cons, unrollEntries_cons, unrollEntries_append c X Y,
        List.append_assoc]

theorem unrollEntries_dropped (c : SeqCfg) : ∀ (X : Entries), (∀ k ∈ keys X, dropK c k = true) →
    unrollEntries c X = []
  | [], _ => by simp [unrollEntries]
  | (k, v) :: X, h => by
      rw [unrollEntries_cons, h k (by simp [keys]), if_pos rfl,
        unrollEntries_dropped c X (fun k' hk' => h k' (by simp [keys] at hk' ⊢; exact .inr hk'))]
      rfl

theorem unroll1_promote (k : Str) (old v : Val) :
    unroll1 k (promote (some old) v) = unroll1 k old ++ [(k, v)] := by
  cases old <;> simp [promote, unroll1]

theorem unroll1_nonlist (k : Str) (v : Val) (hv : v.isList = false) : unroll1 k v = [(k, v)] := by
  cases v <;> simp [unroll1, Val.isList] at hv ⊢

theorem unrollEntries_addChild (c : SeqCfg) (k : Str) (v : Val) (hk : dropK c k = false)
    (hv : v.isList = false) : ∀ (na : Entries),
    (unrollEntries c (addChild na k v)).Perm (unrollEntries c na ++ [(k, v)])
  | [] => by
      simp only [addChild, lookup, insert, unrollEntries_cons, hk, unroll1_nonlist k v hv]
      simp [unrollEntries]
  | (k', v') :: rest => by
      rw [addChild_eq]
      by_cases e : k = k'
      · subst e
        simp only [lookup, insert, if_true, unrollEntries_cons, hk, Bool.false_eq_true, if_false,
          unroll1_promote k v' v, List.append_assoc]
        exact List.Perm.append_left _ List.perm_append_comm
      · have ih := unrollEntries_addChild c k v hk hv rest
        rw [addChild_eq] at ih
        simp only [lookup, insert, e, if_false, unrollEntries_cons, List.append_assoc]
        exact List.Perm.append_left _ ih

theorem unrollEntries_addAll (c : SeqCfg) : ∀ (cs : List (Str × Val)) (na : Entries),
    (∀ e ∈ cs, dropK c e.1 = false ∧ e.2.isList = false) →
    (unrollEntries c (addAll na cs)).Perm (unrollEntries c na ++ cs)
  | [], na, _ => by simp [addAll_nil]
  | e :: cs, na, h => by
      rw [addAll_cons]
      have h1 := h e (List.mem_cons_self ..)
      refine (unrollEntries_addAll c cs _ (fun e' he' => h e' (List.mem_cons_of_mem _ he'))).trans ?_
      have := (unrollEntries_addChild c e.1 e.2 h1.1 h1.2 na).append_right cs
      simpa [List.append_assoc] using this

/-! ### (3b) configurations; the decorated children of an element -/

/-- what the round trip needs of a configuration: no decoder-side escaping, no cast, and the
    reserved keys pairwise distinct (the default configuration qualifies: `cfgOk_dflt`) -/
structure CfgOk (c : SeqCfg) : Prop where
  escDec : c.escDec = false
  castOff : c.cast.r = false
  ts : c.textK ≠ c.seqK
  ta : c.textK ≠ c.attrK
  tc : c.textK ≠ c.commentK
  td : c.textK ≠ c.directiveK
  tp : c.textK ≠ c.procinstK
  sa : c.seqK ≠ c.attrK
  sc : c.seqK ≠ c.commentK
  sd : c.seqK ≠ c.directiveK
  sp : c.seqK ≠ c.procinstK
  ac : c.attrK ≠ c.commentK
  ad : c.attrK ≠ c.directiveK
  ap : c.attrK ≠ c.procinstK
  cd : c.commentK ≠ c.directiveK
  cp : c.commentK ≠ c.procinstK
  dp : c.directiveK ≠ c.procinstK
  ti : c.targetK ≠ c.instK
  st : c.seqK ≠ c.targetK
  si : c.seqK ≠ c.instK

theorem cfgOk_dflt : CfgOk seqDflt := by
  constructor <;> decide

theorem cast_off (S : Strconv) (cc : CastCfg) (h : cc.r = false) (s t : Str) :
    cast S cc s t = .str s := by
  unfold cast
  split
  · rfl
  · simp [h]

theorem escDecIf_off (c : SeqCfg) (h : c.escDec = false) (s : Str) : escDecIf c.dec s = s := by
  simp [escDecIf, SeqCfg.dec, h]

theorem seqOf_of_lookup (c : SeqCfg) (kvs : Entries) (n : Nat)
    (h : lookup c.seqK kvs = some (seqNum n)) : seqOf c (.map kvs) = n := by
  have e : seqNum n = .num ('i' :: ':' :: natToStr n) := rfl
  rw [e] at h
  simp only [seqOf, h, natToStr_all, Bool.true_and]
  have : (natToStr n).isEmpty = false := by
    cases hn : natToStr n with
    | nil => exact absurd hn (natToStr_ne_nil n)
    | cons _ _ => rfl
  simp [this, digitsVal_natToStr]

theorem seqChild_form (c : SeqCfg) (hts : c.textK ≠ c.seqK) (seq : Nat) (v : Val) :
    ∃ kvs, seqChild c seq v = .map kvs ∧ lookup c.seqK kvs = some (seqNum seq) := by
  have hst : ¬ c.seqK = c.textK := fun e => hts e.symm
  cases v with
  | map kvs => exact ⟨_, rfl, by rw [lookup_insert]; simp⟩
  | null => exact ⟨_, rfl, by simp [lookup, hst]⟩
  | bool _ => exact ⟨_, rfl, by simp [lookup, hst]⟩
  | num _ => exact ⟨_, rfl, by simp [lookup, hst]⟩
  | str _ => exact ⟨_, rfl, by simp [lookup, hst]⟩
  | list _ => exact ⟨_, rfl, by simp [lookup, hst]⟩

theorem seqOf_seqChild (c : SeqCfg) (hts : c.textK ≠ c.seqK) (seq : Nat) (v : Val) :
    seqOf c (seqChild c seq v) = seq := by
  obtain ⟨kvs, e, h⟩ := seqChild_form c hts seq v
  rw [e]; exact seqOf_of_lookup c kvs seq h

theorem seqChild_not_list (c : SeqCfg) (seq : Nat) (v : Val) : (seqChild c seq v).isList = false := by
  cases v <;> rfl

/-- the value stored for a comment / directive -/
def noteVal (c : SeqCfg) (s : Str) (seq : Nat) : Val := .map [(c.textK, .str s), (c.seqK, seqNum seq)]
/-- the value stored for a processing instruction -/
def piVal (c : SeqCfg) (t i : Str) (seq : Nat) : Val :=
  .map [(c.targetK, .str t), (c.instK, .str i), (c.seqK, seqNum seq)]

theorem seqOf_noteVal (c : SeqCfg) (hts : c.textK ≠ c.seqK) (s : Str) (seq : Nat) :
    seqOf c (noteVal c s seq) = seq := by
  have hst : ¬ c.seqK = c.textK := fun e => hts e.symm
  exact seqOf_of_lookup c _ seq (by simp [lookup, hst])

theorem seqOf_piVal (c : SeqCfg) (h1 : c.seqK ≠ c.targetK) (h2 : c.seqK ≠ c.instK) (t i : Str)
    (seq : Nat) : seqOf c (piVal c t i seq) = seq :=
  seqOf_of_lookup c _ seq (by simp [lookup, h1, h2])

/-- the entries the non-text children of an element contribute, in document order, numbered
    consecutively from `seq` -/
def items (c : SeqCfg) (S : Strconv) : Nat → List Node → List (Str × Val)
  | _, [] => []
  | seq, .elem sp name attrs ks :: rest =>
      (qualName c sp name, seqChild c seq (SeqFold.value c S (.elem sp name attrs ks)))
        :: items c S (seq + 1) rest
  | seq, .text _ :: rest => items c S seq rest
  | seq, .comment s :: rest => (c.commentK, noteVal c s seq) :: items c S (seq + 1) rest
  | seq, .directive s :: rest => (c.directiveK, noteVal c s seq) :: items c S (seq + 1) rest
  | seq, .procinst t i :: rest => (c.procinstK, piVal c t i seq) :: items c S (seq + 1) rest

/-- numbering: the k-th non-text child carries `#seq` = `seq + k` -/
theorem items_seqs (c : SeqCfg) (S : Strconv) (hc : CfgOk c) : ∀ (kids : List Node) (seq : Nat),
    (items c S seq kids).map (fun e => seqOf c e.2) = List.range' seq (items c S seq kids).length
  | [], seq => by simp [items]
  | .elem sp name attrs ks :: rest, seq => by
      simp only [items, List.map_cons, List.length_cons, List.range'_succ, seqOf_seqChild c hc.ts,
        items_seqs c S hc rest (seq + 1)]
  | .text _ :: rest, seq => by simp only [items]; exact items_seqs c S hc rest seq
  | .comment s :: rest, seq => by
      simp only [items, List.map_cons, List.length_cons, List.range'_succ, seqOf_noteVal c hc.ts,
        items_seqs c S hc rest (seq + 1)]
  | .directive s :: rest, seq => by
      simp only [items, List.map_cons, List.length_cons, List.range'_succ, seqOf_noteVal c hc.ts,
        items_seqs c S hc rest (seq + 1)]
  | .procinst t i :: rest, seq => by
      simp only [items, List.map_cons, List.length_cons, List.range'_succ,
        seqOf_piVal c hc.st hc.si, items_seqs c S hc rest (seq + 1)]

theorem items_pairwise (c : SeqCfg) (S : Strconv) (hc : CfgOk c) (kids : List Node) (seq : Nat) :
    (items c S seq kids).Pairwise (fun a b => seqOf c a.2 < seqOf c b.2) := by
  have h : ((items c S seq kids).map (fun e => seqOf c e.2)).Pairwise (· < ·) := by
    rw [items_seqs c S hc]; exact List.pairwise_lt_range'
  exact List.pairwise_map.1 h

theorem items_not_list (c : SeqCfg) (S : Strconv) : ∀ (kids : List Node) (seq : Nat),
    ∀ e ∈ items c S seq kids, e.2.isList = false
  | [], seq, e, h => by simp [items] at h
  | .elem sp name attrs ks :: rest, seq, e, h => by
      simp only [items, List.mem_cons] at h
      rcases h with rfl | h
      · exact seqChild_not_list ..
      · exact items_not_list c S rest _ e h
  | .text _ :: rest, seq, e, h => by
      simp only [items] at h; exact items_not_list c S rest _ e h
  | .comment _ :: rest, seq, e, h => by
      simp only [items, List.mem_cons] at h
      rcases h with rfl | h
      · rfl
      · exact items_not_list c S rest _ e h
  | .directive _ :: rest, seq, e, h => by
      simp only [items, List.mem_cons] at h
      rcases h with rfl | h
      · rfl
      · exact items_not_list c S rest _ e h
  | .procinst _ _ :: rest, seq, e, h => by
      simp only [items, List.mem_cons] at h
      rcases h with rfl | h
      · rfl
      · exact items_not_list c S rest _ e h

/-- the element's own key is not reserved -/
theorem seqDomain_key {c : SeqCfg} {sp name : Str} {attrs : List Attr} {kids : List Node}
    (h : seqDomain c (.elem sp name attrs kids) = true) :
    qualName c sp name ∉ hashKeys c := by
  simp only [seqDomain, Bool.and_eq_true, Bool.not_eq_true', List.contains_eq_mem,
    decide_eq_false_iff_not] at h
  exact h.1.1.1.1.1.1.1

theorem not_hash {c : SeqCfg} {k : Str} (h : k ∉ hashKeys c) :
    k ≠ c.textK ∧ k ≠ c.seqK ∧ k ≠ c.attrK ∧ k ≠ c.commentK ∧ k ≠ c.directiveK ∧ k ≠ c.procinstK := by
  simpa [hashKeys] using h

/-- no child entry sits under the text, sequence or attribute key -/
theorem items_keys (c : SeqCfg) (S : Strconv) (hc : CfgOk c) : ∀ (kids : List Node) (seq : Nat),
    seqDomainKids c kids = true →
    ∀ e ∈ items c S seq kids, e.1 ≠ c.textK ∧ e.1 ≠ c.seqK ∧ e.1 ≠ c.attrK
  | [], seq, _, e, h => by simp [items] at h
  | .elem sp name attrs ks :: rest, seq, hd, e, h => by
      simp only [seqDomainKids, Bool.and_eq_true] at hd
      simp only [items, List.mem_cons] at h
      rcases h with rfl | h
      · have := not_hash (seqDomain_key hd.1)
        exact ⟨this.1, this.2.1, this.2.2.1⟩
      · exact items_keys c S hc rest _ hd.2 e h
  | .text _ :: rest, seq, hd, e, h => by
      simp only [seqDomainKids] at hd
      simp only [items] at h; exact items_keys c S hc rest _ hd e h
  | .comment _ :: rest, seq, hd, e, h => by
      simp only [seqDomainKids] at hd
      simp only [items, List.mem_cons] at h
      rcases h with rfl | h
      · exact ⟨hc.tc.symm, hc.sc.symm, hc.ac.symm⟩
      · exact items_keys c S hc rest _ hd e h
  | .directive _ :: rest, seq, hd, e, h => by
      simp only [seqDomainKids] at hd
      simp only [items, List.mem_cons] at h
      rcases h with rfl | h
      · exact ⟨hc.td.symm, hc.sd.symm, hc.ad.symm⟩
      · exact items_keys c S hc rest _ hd e h
  | .procinst _ _ :: rest, seq, hd, e, h => by
      simp only [seqDomainKids] at hd
      simp only [items, List.mem_cons] at h
      rcases h with rfl | h
      · exact ⟨hc.tp.symm, hc.sp.symm, hc.ap.symm⟩
      · exact items_keys c S hc rest _ hd e h

/-! ### (3c) the fold over children without (non-blank) text is `addAll` of the items -/

def startsText : List Node → Bool
  | .text _ :: _ => true
  | _ => false

theorem onText_blank (c : SeqCfg) (S : Strconv) (hc : CfgOk c) (na : Entries) (seq : Nat) (s : Str)
    (hb : isBlankText c s = true) :
    SeqFold.onText c S na seq none s = (na, seq, some (s, false)) := by
  have : (escDecIf c.dec (trimChars (trimSet c.dec) s)).isEmpty = true := by
    rw [escDecIf_off c hc.escDec]; exact hb
  simp only [SeqFold.onText, List.nil_append, this, if_true]

theorem onText_first (c : SeqCfg) (S : Strconv) (hc : CfgOk c) (na : Entries) (seq : Nat) (s : Str)
    (hb : isBlankText c s = false) :
    SeqFold.onText c S na seq none s
      = (insert c.seqK (seqNum seq) (insert c.textK (.str (seqTrim c s)) na), seq + 1,
          some (s, true)) := by
  have : (trimChars (trimSet c.dec) s).isEmpty = false := hb
  simp only [SeqFold.onText, List.nil_append, escDecIf_off c hc.escDec, this, Bool.false_eq_true,
    if_false, cast_off S c.cast hc.castOff, seqTrim]

theorem addChild_of_none (na : Entries) (k : Str) (v : Val) (h : lookup k na = none) :
    addChild na k v = insert k v na := by
  simp [addChild, h]

theorem noAdjTop_text {s : Str} {rest : List Node} (h : noAdjTop (.text s :: rest) = true) :
    startsText rest = false ∧ noAdjTop rest = true := by
  cases rest with
  | nil => simp [startsText, noAdjTop]
  | cons k r => cases k <;> simp_all [startsText, noAdjTop]

theorem noAdjTop_tail {k : Node} {rest : List Node} (h : noAdjTop (k :: rest) = true) :
    noAdjTop rest = true := by
  cases k with
  | text s => exact (noAdjTop_text h).2
  | elem _ _ _ _ => simpa [noAdjTop] using h
  | comment _ => simpa [noAdjTop] using h
  | directive _ => simpa [noAdjTop] using h
  | procinst _ _ => simpa [noAdjTop] using h

theorem kids'_items (c : SeqCfg) (S : Strconv) (hc : CfgOk c) : ∀ (kids : List Node) (na : Entries)
    (seq : Nat) (pend : Option (Str × Bool)),
    noText c kids = true → noAdjTop kids = true → (pend = none ∨ startsText kids = false) →
    seqDomainKids c kids = true →
    nComments kids ≤ 1 → (0 < nComments kids → lookup c.commentK na = none) →
    nDirectives kids ≤ 1 → (0 < nDirectives kids → lookup c.directiveK na = none) →
    nProcinsts kids ≤ 1 → (0 < nProcinsts kids → lookup c.procinstK na = none) →
    (SeqFold.kids' c S (na, seq, pend) kids).1 = addAll na (items c S seq kids)
  | [], na, seq, pend, _, _, _, _, _, _, _, _, _, _ => by simp [SeqFold.kids', items, addAll_nil]
  | .text s :: rest, na, seq, pend, ht, ha, hp, hd, c1, c2, d1, d2, p1, p2 => by
      simp only [noText, Bool.and_eq_true] at ht
      have hpn : pend = none := by
        rcases hp with h | h
        · exact h
        · simp [startsText] at h
      subst hpn
      have hr := noAdjTop_text ha
      simp only [SeqFold.kids', items, onText_blank c S hc na seq s ht.1]
      exact kids'_items c S hc rest na seq _ ht.2 hr.2 (.inr hr.1) (by simpa [seqDomainKids] using hd)
        (by simpa [nComments] using c1) (by simpa [nComments] using c2)
        (by simpa [nDirectives] using d1) (by simpa [nDirectives] using d2)
        (by simpa [nProcinsts] using p1) (by simpa [nProcinsts] using p2)
  | .elem sp name attrs ks :: rest, na, seq, pend, ht, ha, hp, hd, c1, c2, d1, d2, p1, p2 => by
      simp only [seqDomainKids, Bool.and_eq_true] at hd
      have hk := not_hash (seqDomain_key hd.1)
      simp only [SeqFold.kids', items, addAll_cons]
      refine kids'_items c S hc rest _ (seq + 1) none (by simpa [noText] using ht) (noAdjTop_tail ha)
        (.inl rfl) hd.2 (by simpa [nComments] using c1) ?_ (by simpa [nDirectives] using d1) ?_
        (by simpa [nProcinsts] using p1) ?_
      · intro h; rw [lookup_addChild, if_neg (fun e => hk.2.2.2.1 e.symm)]
        exact c2 (by simpa [nComments] using h)
      · intro h; rw [lookup_addChild, if_neg (fun e => hk.2.2.2.2.1 e.symm)]
        exact d2 (by simpa [nDirectives] using h)
      · intro h; rw [lookup_addChild, if_neg (fun e => hk.2.2.2.2.2 e.symm)]
        exact p2 (by simpa [nProcinsts] using h)
  | .comment t :: rest, na, seq, pend, ht, ha, hp, hd, c1, c2, d1, d2, p1, p2 => by
      simp only [nComments] at c1 c2
      have c0 : nComments rest = 0 := by omega
      simp only [SeqFold.kids', items, addAll_cons, addChild_of_none na _ _ (c2 (by omega)), noteVal]
      refine kids'_items c S hc rest _ (seq + 1) none (by simpa [noText] using ht) (noAdjTop_tail ha)
        (.inl rfl) (by simpa [seqDomainKids] using hd) (by omega) (by omega)
        (by simpa [nDirectives] using d1) ?_ (by simpa [nProcinsts] using p1) ?_
      · intro h; rw [lookup_insert, if_neg hc.cd.symm]
        exact d2 (by simpa [nDirectives] using h)
      · intro h; rw [lookup_insert, if_neg hc.cp.symm]
        exact p2 (by simpa [nProcinsts] using h)
  | .directive t :: rest, na, seq, pend, ht, ha, hp, hd, c1, c2, d1, d2, p1, p2 => by
      simp only [nDirectives] at d1 d2
      have d0 : nDirectives rest = 0 := by omega
      simp only [SeqFold.kids', items, addAll_cons, addChild_of_none na _ _ (d2 (by omega)), noteVal]
      refine kids'_items c S hc rest _ (seq + 1) none (by simpa [noText] using ht) (noAdjTop_tail ha)
        (.inl rfl) (by simpa [seqDomainKids] using hd) (by simpa [nComments] using c1) ?_
        (by omega) (by omega) (by simpa [nProcinsts] using p1) ?_
      · intro h; rw [lookup_insert, if_neg hc.cd]
        exact c2 (by simpa [nComments] using h)
      · intro h; rw [lookup_insert, if_neg hc.dp.symm]
        exact p2 (by simpa [nProcinsts] using h)
  | .procinst t i :: rest, na, seq, pend, ht, ha, hp, hd, c1, c2, d1, d2, p1, p2 => by
      simp only [nProcinsts] at p1 p2
      have p0 : nProcinsts rest = 0 := by omega
      simp only [SeqFold.kids', items, addAll_cons, addChild_of_none na _ _ (p2 (by omega)), piVal]
      refine kids'_items c S hc rest _ (seq + 1) none (by simpa [noText] using ht) (noAdjTop_tail ha)
        (.inl rfl) (by simpa [seqDomainKids] using hd) (by simpa [nComments] using c1) ?_
        (by simpa [nDirectives] using d1) ?_ (by omega) (by omega)
      · intro h; rw [lookup_insert, if_neg hc.cp]
        exact c2 (by simpa [nComments] using h)
      · intro h; rw [lookup_insert, if_neg hc.dp]
        exact d2 (by simpa [nDirectives] using h)

/-! ### (3d) attributes -/

/-- the `#attr` map of an element whose attributes have distinct qualified names -/
def attrEntries (c : SeqCfg) : Nat → List Attr → Entries
  | _, [] => []
  | i, a :: as =>
      (qualName c a.space a.name, .map [(c.textK, .str a.value), (c.seqK, seqNum i)])
        :: attrEntries c (i + 1) as

theorem keys_attrEntries (c : SeqCfg) : ∀ (attrs : List Attr) (i : Nat),
    keys (attrEntries c i attrs) = attrQNames c attrs
  | [], _ => rfl
  | a :: as, i => by
      simp only [attrEntries, keys_cons', attrQNames, List.map_cons, List.cons.injEq, true_and]
      exact keys_attrEntries c as (i + 1)

theorem seqAttrs_eq (c : SeqCfg) (S : Strconv) (hc : CfgOk c) : ∀ (attrs : List Attr) (i : Nat)
    (acc : Entries), distinctStrs (attrQNames c attrs) = true →
    (∀ k ∈ attrQNames c attrs, k ∉ keys acc) →
    seqAttrs c S i attrs acc = acc ++ attrEntries c i attrs
  | [], i, acc, _, _ => by simp [seqAttrs, attrEntries]
  | a :: as, i, acc, hd, hk => by
      simp only [attrQNames, List.map_cons, distinctStrs, Bool.and_eq_true, Bool.not_eq_true',
        List.contains_eq_mem, decide_eq_false_iff_not] at hd
      have h1 : qualName c a.space a.name ∉ keys acc := hk _ (by simp [attrQNames])
      simp only [seqAttrs, attrEntries, escDecIf_off c hc.escDec, cast_off S c.cast hc.castOff,
        insert_absent _ _ acc h1]
      rw [seqAttrs_eq c S hc as (i + 1) _ hd.2]
      · simp
      · intro k hk' hm
        rw [keys_append', List.mem_append] at hm
        rcases hm with hm | hm
        · exact hk k (by simp only [attrQNames, List.map_cons, List.mem_cons]; exact .inr hk') hm
        · simp only [keys, List.map_cons, List.map_nil, List.mem_singleton] at hm
          subst hm
          exact hd.1 hk'

theorem seqInitNa_eq (c : SeqCfg) (S : Strconv) (hc : CfgOk c) (attrs : List Attr)
    (hd : distinctStrs (attrQNames c attrs) = true) :
    seqInitNa c S attrs
      = if attrs.isEmpty then [] else [(c.attrK, .map (attrEntries c 0 attrs))] := by
  unfold seqInitNa
  rw [seqAttrs_eq c S hc attrs 0 [] hd (by simp [keys])]
  simp

theorem attrEntries_seqs (c : SeqCfg) (hc : CfgOk c) : ∀ (attrs : List Attr) (i : Nat),
    (attrEntries c i attrs).map (fun e => seqOf c e.2) = List.range' i attrs.length
  | [], _ => by simp [attrEntries]
  | a :: as, i => by
      have h := seqOf_noteVal c hc.ts a.value i
      unfold noteVal at h
      simp only [attrEntries, List.map_cons, List.length_cons, List.range'_succ, h,
        attrEntries_seqs c hc as (i + 1)]

theorem attrEntries_pairwise (c : SeqCfg) (hc : CfgOk c) (attrs : List Attr) (i : Nat) :
    (attrEntries c i attrs).Pairwise (fun a b => seqOf c a.2 < seqOf c b.2) := by
  have h : ((attrEntries c i attrs).map (fun e => seqOf c e.2)).Pairwise (· < ·) := by
    rw [attrEntries_seqs c hc]; exact List.pairwise_lt_range'
  exact List.pairwise_map.1 h

theorem seqAttrNodes_attrEntries (c : SeqCfg) : ∀ (attrs : List Attr) (i : Nat),
    seqAttrNodes c (attrEntries c i attrs) = .ok (attrs.map (qualAttr c))
  | [], _ => rfl
  | a :: as, i => by
      simp only [attrEntries, seqAttrNodes, seqAttrNode, lookup, if_true,
        seqAttrNodes_attrEntries c as (i + 1), List.map_cons, qualAttr]

/-! ### (3e) the normal form of a decoded element -/

/-- the element's text: the trimmed leading text node, if not blank -/
def leadText (c : SeqCfg) : List Node → Option Str
  | .text s :: _ => if isBlankText c s then none else some (seqTrim c s)
  | _ => none

def textPart (c : SeqCfg) (kids : List Node) : Entries :=
  match leadText c kids with
  | some t => [(c.textK, .str t), (c.seqK, seqNum 0)]
  | none => []

/-- the decorated non-text children: numbered from 1 behind a text, from 0 otherwise -/
def itemsOf (c : SeqCfg) (S : Strconv) (kids : List Node) : List (Str × Val) :=
  items c S (if (leadText c kids).isSome then 1 else 0) kids

structure DomParts (c : SeqCfg) (sp name : Str) (attrs : List Attr) (kids : List Node) : Prop where
  key : qualName c sp name ∉ hashKeys c
  attrs : distinctStrs (attrQNames c attrs) = true
  nc : nComments kids ≤ 1
  nd : nDirectives kids ≤ 1
  np : nProcinsts kids ≤ 1
  adj : noAdjTop kids = true
  tf : textFirst c kids = true
  kids : seqDomainKids c kids = true

theorem seqDomain_parts {c : SeqCfg} {sp name : Str} {attrs : List Attr} {kids : List Node}
    (h : seqDomain c (.elem sp name attrs kids) = true) : DomParts c sp name attrs kids := by
  simp only [seqDomain, Bool.and_eq_true, Bool.not_eq_true', List.contains_eq_mem,
    decide_eq_false_iff_not, decide_eq_true_eq] at h
  obtain ⟨⟨⟨⟨⟨⟨⟨h1, h2⟩, h3⟩, h4⟩, h5⟩, h6⟩, h7⟩, h8⟩ := h
  exact ⟨h1, h2, h3, h4, h5, h6, h7, h8⟩

theorem form_core (c : SeqCfg) (S : Strconv) (hc : CfgOk c) (P : Entries)
    (hP : ∀ k ∈ keys P, k = c.attrK ∨ k = c.textK ∨ k = c.seqK)
    (kids : List Node) (seq : Nat) (pend : Option (Str × Bool))
    (ht : noText c kids = true) (ha : noAdjTop kids = true)
    (hp : pend = none ∨ startsText kids = false) (hd : seqDomainKids c kids = true)
    (c1 : nComments kids ≤ 1) (d1 : nDirectives kids ≤ 1) (p1 : nProcinsts kids ≤ 1) :
    (SeqFold.kids' c S (P, seq, pend) kids).1 = P ++ addAll [] (items c S seq kids) := by
  have hnone : ∀ k, k ≠ c.attrK → k ≠ c.textK → k ≠ c.seqK → lookup k P = none := by
    intro k h1 h2 h3
    apply lookup_none_of_not_mem
    intro hm
    rcases hP k hm with h | h | h
    · exact h1 h
    · exact h2 h
    · exact h3 h
  rw [kids'_items c S hc kids P seq pend ht ha hp hd c1
    (fun _ => hnone _ hc.ac.symm hc.tc.symm hc.sc.symm) d1
    (fun _ => hnone _ hc.ad.symm hc.td.symm hc.sd.symm) p1
    (fun _ => hnone _ hc.ap.symm hc.tp.symm hc.sp.symm)]
  have := addAll_append_left P (items c S seq kids) [] (by
    intro e he hm
    have hk := items_keys c S hc kids seq hd e he
    rcases hP _ hm with h | h | h
    · exact hk.2.2 h
    · exact hk.1 h
    · exact hk.2.1 h)
  rwa [List.append_nil] at this

theorem keys_seqInitNa (c : SeqCfg) (S : Strconv) (attrs : List Attr) :
    ∀ k ∈ keys (seqInitNa c S attrs), k = c.attrK := by
  intro k hk
  unfold seqInitNa at hk
  split at hk
  · simp [keys] at hk
  · simpa [keys] using hk

theorem items_text (c : SeqCfg) (S : Strconv) (seq : Nat) (s : Str) (rest : List Node) :
    items c S seq (.text s :: rest) = items c S seq rest := rfl

/-- goal 2, structural part: `#attr` entry, text entries, grouped children -/
theorem entries_form (c : SeqCfg) (S : Strconv) (hc : CfgOk c) (sp name : Str) (attrs : List Attr)
    (kids : List Node) (hd : seqDomain c (.elem sp name attrs kids) = true) :
    (SeqFold.kids' c S (seqInitNa c S attrs, 0, none) kids).1
      = seqInitNa c S attrs ++ textPart c kids ++ addAll [] (itemsOf c S kids) := by
  have dp := seqDomain_parts hd
  have hA := keys_seqInitNa c S attrs
  have hA' : ∀ k ∈ keys (seqInitNa c S attrs), k = c.attrK ∨ k = c.textK ∨ k = c.seqK :=
    fun k hk => .inl (hA k hk)
  have generic : startsText kids = false →
      (SeqFold.kids' c S (seqInitNa c S attrs, 0, none) kids).1
        = seqInitNa c S attrs ++ textPart c kids ++ addAll [] (itemsOf c S kids) := by
    intro hs
    have hl : leadText c kids = none := by
      cases kids with
      | nil => rfl
      | cons k r => cases k <;> simp_all [startsText, leadText]
    have htf : noText c kids = true := by
      have := dp.tf
      cases kids with
      | nil => rfl
      | cons k r => cases k <;> simp_all [startsText, textFirst]
    rw [form_core c S hc _ hA' kids 0 none htf dp.adj (.inl rfl) dp.kids dp.nc dp.nd dp.np]
    simp [textPart, itemsOf, hl]
  cases kids with
  | nil => exact generic rfl
  | cons k rest =>
    cases k with
    | elem _ _ _ _ => exact generic rfl
    | comment _ => exact generic rfl
    | directive _ => exact generic rfl
    | procinst _ _ => exact generic rfl
    | text s =>
      have htf : noText c rest = true := by simpa [textFirst] using dp.tf
      have hadj := noAdjTop_text dp.adj
      have hk : seqDomainKids c rest = true := by simpa [seqDomainKids] using dp.kids
      have c1 : nComments rest ≤ 1 := by simpa [nComments] using dp.nc
      have d1 : nDirectives rest ≤ 1 := by simpa [nDirectives] using dp.nd
      have p1 : nProcinsts rest ≤ 1 := by simpa [nProcinsts] using dp.np
      by_cases hb : isBlankText c s = true
      · simp only [SeqFold.kids', onText_blank c S hc _ 0 s hb]
        rw [form_core c S hc _ hA' rest 0 _ htf hadj.2 (.inr hadj.1) hk c1 d1 p1]
        simp [textPart, itemsOf, leadText, hb, items_text]
      · have hb' : isBlankText c s = false := by simpa using hb
        have ht1 : c.textK ∉ keys (seqInitNa c S attrs) := fun hm => hc.ta (hA _ hm)
        have hs1 : c.seqK ∉ keys (seqInitNa c S attrs ++ [(c.textK, .str (seqTrim c s))]) := by
          rw [keys_append', List.mem_append]
          rintro (hm | hm)
          · exact hc.sa (hA _ hm)
          · simp only [keys, List.map_cons, List.map_nil, List.mem_singleton] at hm
            exact hc.ts hm.symm
        simp only [SeqFold.kids', onText_first c S hc _ 0 s hb', insert_absent _ _ _ ht1,
          insert_absent _ _ _ hs1]
        rw [form_core c S hc _ ?_ rest 1 _ htf hadj.2 (.inr hadj.1) hk c1 d1 p1]
        · simp [textPart, itemsOf, leadText, hb', items_text]
        · intro k hm
          rw [keys_append', keys_append', List.mem_append, List.mem_append] at hm
          rcases hm with (hm | hm) | hm
          · exact .inl (hA k hm)
          · exact .inr (.inl (by simpa [keys] using hm))
          · exact .inr (.inr (by simpa [keys] using hm))

/-! ### (4a) the encoder on a map, staged -/

/-- `seqEncTree` on a map after the attributes have been read -/
def encBody (key : Str) (as : List Attr) (hv seqOK : Bool) (n : Nat) (ot : Option Val)
    (ko : Outcome (List Node)) : Outcome (List Node) :=
  match ot with
  | some tv =>
    if ((n = 3 && hv) || (n = 2 && !hv)) && seqOK then
      match fmtV tv with
      | some t => .ok [.elem [] key as (textKid t)]
      | none => .err .other
    else
      match fmtV tv, ko with
      | some t, .ok kids => .ok [.elem [] key as (textKid t ++ kids)]
      | none, _ => .err .other
      | _, o => o
  | none =>
    if ((n = 2 && hv) || (n = 1 && !hv)) && seqOK then .ok [.elem [] key as []]
    else match ko with
      | .ok kids => .ok [.elem [] key as kids]
      | o => o

theorem seqEncTree_map_noattr (c : SeqCfg) (f : Nat) (key : Str) (val : Entries)
    (h1 : key ≠ c.commentK) (h2 : key ≠ c.directiveK) (h3 : key ≠ c.procinstK)
    (ha : lookup c.attrK val = none) :
    seqEncTree c (f + 1) key (.map val)
      = encBody key [] false (lookup c.seqK val).isSome val.length (lookup c.textK val)
          (seqKidsTree c f (sortBySeq c (unrollEntries c val))) := by
  simp only [seqEncTree, h1, h2, h3, if_false, ha, encBody]
  rfl

theorem seqEncTree_map_attr (c : SeqCfg) (f : Nat) (key : Str) (val av : Entries) (as : List Attr)
    (h1 : key ≠ c.commentK) (h2 : key ≠ c.directiveK) (h3 : key ≠ c.procinstK)
    (ha : lookup c.attrK val = some (.map av))
    (has : seqAttrNodes c (sortBySeq c av) = .ok as) :
    seqEncTree c (f + 1) key (.map val)
      = encBody key as true (lookup c.seqK val).isSome val.length (lookup c.textK val)
          (seqKidsTree c f (sortBySeq c (unrollEntries c val))) := by
  simp only [seqEncTree, h1, h2, h3, if_false, ha, has, encBody]
  rfl

theorem encBody_text (key : Str) (as : List Attr) (hv : Bool) (a g : Nat) (t : Str)
    (K : List Node) (ha : a = 0 ∨ a = 1) (hh : hv = decide (a = 1)) (ht : t ≠ [])
    (hK : g = 0 → K = []) :
    encBody key as hv true (a + 2 + g) (some (.str t)) (.ok K)
      = .ok [.elem [] key as (.text t :: K)] := by
  have hte : t.isEmpty = false := by cases t <;> simp_all
  rcases ha with rfl | rfl <;> subst hh <;> rcases g with _ | g
  · simp [encBody, fmtV, textKid, hte, hK rfl]
  · simp [encBody, fmtV, textKid, hte]
  · simp [encBody, fmtV, textKid, hte, hK rfl]
  · simp [encBody, fmtV, textKid, hte]

theorem encBody_none (key : Str) (as : List Attr) (hv sq : Bool) (a g : Nat)
    (K : List Node) (ha : a = 0 ∨ a = 1) (hh : hv = decide (a = 1)) (hK : g = 0 → K = []) :
    encBody key as hv sq (a + g + (if sq then 1 else 0)) none (.ok K)
      = .ok [.elem [] key as K] := by
  rcases ha with rfl | rfl <;> subst hh <;> rcases g with _ | g <;> cases sq <;>
    simp [encBody] <;> first | exact (hK rfl) | exact (hK rfl).symm | omega

theorem encBody_empty (key : Str) (ko : Outcome (List Node)) :
    encBody key [] false true 2 (some (.str [])) ko = .ok [.elem [] key [] []] := by
  simp [encBody, fmtV, textKid]

/-! ### (4b) what the encoder sees of a decoded element's map -/

theorem lookup_append_none (k : Str) : ∀ (P G : Entries), lookup k G = none →
    lookup k (P ++ G) = lookup k P
  | [], G, h => by simpa [lookup] using h
  | (k', v') :: P, G, h => by
      by_cases e : k = k'
      · simp only [List.cons_append, lookup, e, if_true]
      · simp only [List.cons_append, lookup, e, if_false]
        exact lookup_append_none k P G h

theorem length_insert (k : Str) (v : Val) : ∀ (l : Entries),
    (insert k v l).length = l.length + (if (lookup k l).isSome then 0 else 1)
  | [] => by simp [insert, lookup]
  | (k', v') :: l => by
      by_cases e : k = k'
      · simp [insert, lookup, e]
      · simp only [insert, lookup, e, if_false, List.length_cons, length_insert k v l]
        omega

theorem unrollEntries_insert_dropped (c : SeqCfg) (k : Str) (v : Val) (hk : dropK c k = true) :
    ∀ (l : Entries), unrollEntries c (insert k v l) = unrollEntries c l
  | [] => by simp [insert, unrollEntries_cons, hk]
  | (k', v') :: l => by
      by_cases e : k = k'
      · subst e
        simp only [insert, if_true, unrollEntries_cons, hk]
      · simp only [insert, e, if_false, unrollEntries_cons,
          unrollEntries_insert_dropped c k v hk l]

structure View (c : SeqCfg) (val P G : Entries) (sq : Bool) (n : Nat) : Prop where
  attr : lookup c.attrK val = lookup c.attrK P
  text : lookup c.textK val = lookup c.textK P
  seq : (lookup c.seqK val).isSome = sq
  len : val.length = n
  unroll : unrollEntries c val = unrollEntries c G

theorem view_root (c : SeqCfg) (P G : Entries)
    (hGt : lookup c.textK G = none) (hGs : lookup c.seqK G = none) (hGa : lookup c.attrK G = none)
    (hP : ∀ k ∈ keys P, dropK c k = true) :
    View c (P ++ G) P G (lookup c.seqK P).isSome (P.length + G.length) where
  attr := lookup_append_none _ P G hGa
  text := lookup_append_none _ P G hGt
  seq := by rw [lookup_append_none _ P G hGs]
  len := by simp
  unroll := by rw [unrollEntries_append, unrollEntries_dropped c P hP]; rfl

theorem view_child (c : SeqCfg) (hc : CfgOk c) (P G : Entries) (v : Val)
    (hGt : lookup c.textK G = none) (hGs : lookup c.seqK G = none) (hGa : lookup c.attrK G = none)
    (hP : ∀ k ∈ keys P, dropK c k = true) :
    View c (insert c.seqK v (P ++ G)) P G true
      (P.length + G.length + (if (lookup c.seqK P).isSome then 0 else 1)) where
  attr := by rw [lookup_insert, if_neg hc.sa.symm]; exact lookup_append_none _ P G hGa
  text := by rw [lookup_insert, if_neg hc.ts]; exact lookup_append_none _ P G hGt
  seq := by rw [lookup_insert]; simp
  len := by rw [length_insert, lookup_append_none _ P G hGs]; simp
  unroll := by
    rw [unrollEntries_insert_dropped c _ _ (by simp [dropK]), unrollEntries_append,
      unrollEntries_dropped c P hP]; rfl

theorem enc_of_view (c : SeqCfg) (f : Nat) (key : Str) (val P G : Entries) (sq : Bool) (n : Nat)
    (h1 : key ≠ c.commentK) (h2 : key ≠ c.directiveK) (h3 : key ≠ c.procinstK)
    (V : View c val P G sq n) (as : List Attr) (hv : Bool)
    (hAttr : (lookup c.attrK P = none ∧ as = [] ∧ hv = false)
      ∨ (∃ av, lookup c.attrK P = some (.map av) ∧ seqAttrNodes c (sortBySeq c av) = .ok as
          ∧ hv = true))
    (its : List (Str × Val)) (K : List Node)
    (hsort : sortBySeq c (unrollEntries c G) = its) (hK : seqKidsTree c f its = .ok K) :
    seqEncTree c (f + 1) key (.map val) = encBody key as hv sq n (lookup c.textK P) (.ok K) := by
  rcases hAttr with ⟨ha, rfl, rfl⟩ | ⟨av, ha, has, rfl⟩
  · rw [seqEncTree_map_noattr c f key val h1 h2 h3 (V.attr.trans ha), V.seq, V.len, V.text,
      V.unroll, hsort, hK]
  · rw [seqEncTree_map_attr c f key val av as h1 h2 h3 (V.attr.trans ha) has, V.seq, V.len, V.text,
      V.unroll, hsort, hK]

/-- the text entries of a decoded element -/
def textEntries (c : SeqCfg) (ot : Option Str) : Entries :=
  match ot with
  | some t => [(c.textK, .str t), (c.seqK, seqNum 0)]
  | none => []

def textNodes (ot : Option Str) : List Node :=
  match ot with
  | some t => [.text t]
  | none => []

/-- the encoder on the normal form `A ++ T ++ G` of a decoded element (as the root and as a
    child carrying sequence number `n`) -/
theorem enc_val (c : SeqCfg) (hc : CfgOk c) (f : Nat) (key : Str) (hkey : key ∉ hashKeys c)
    (A : Entries) (as : List Attr)
    (hA : (A = [] ∧ as = [])
      ∨ (∃ av, A = [(c.attrK, .map av)] ∧ seqAttrNodes c (sortBySeq c av) = .ok as))
    (ot : Option Str) (hot : ∀ t, ot = some t → t ≠ [])
    (G : Entries) (its : List (Str × Val)) (K : List Node)
    (hGt : lookup c.textK G = none) (hGs : lookup c.seqK G = none) (hGa : lookup c.attrK G = none)
    (hsort : sortBySeq c (unrollEntries c G) = its)
    (hK : seqKidsTree c f its = .ok K) (hGe : G = [] → its = []) :
    seqEncTree c (f + 1) key (SeqFold.finish (A ++ textEntries c ot ++ G))
        = .ok [.elem [] key as (textNodes ot ++ K)]
    ∧ ∀ n, seqEncTree c (f + 1) key (seqChild c n (SeqFold.finish (A ++ textEntries c ot ++ G)))
        = .ok [.elem [] key as (textNodes ot ++ K)] := by
  have hk := not_hash hkey
  have hK0 : G.length = 0 → K = [] := by
    intro h
    have hG : G = [] := List.eq_nil_of_length_eq_zero h
    rw [hGe hG] at hK
    simp only [seqKidsTree] at hK
    cases hK; rfl
  -- the prefix P = A ++ T
  have hP : ∀ k ∈ keys (A ++ textEntries c ot), dropK c k = true := by
    intro k hm
    rw [keys_append', List.mem_append] at hm
    rcases hm with hm | hm
    · rcases hA with ⟨rfl, _⟩ | ⟨av, rfl, _⟩
      · simp [keys] at hm
      · simp only [keys, List.map_cons, List.map_nil, List.mem_singleton] at hm
        simp [dropK, hm]
    · cases ot with
      | none => simp [textEntries, keys] at hm
      | some t =>
        simp only [textEntries, keys, List.map_cons, List.map_nil, List.mem_cons,
          List.not_mem_nil, or_false] at hm
        rcases hm with hm | hm <;> simp [dropK, hm]
  -- the attribute view
  obtain ⟨a, ha01, hlen, hAttr⟩ : ∃ a : Nat, (a = 0 ∨ a = 1) ∧ A.length = a ∧
      ((lookup c.attrK (A ++ textEntries c ot) = none ∧ as = [] ∧ decide (a = 1) = false)
      ∨ (∃ av, lookup c.attrK (A ++ textEntries c ot) = some (.map av)
          ∧ seqAttrNodes c (sortBySeq c av) = .ok as ∧ decide (a = 1) = true)) := by
    rcases hA with ⟨rfl, rfl⟩ | ⟨av, rfl, has⟩
    · refine ⟨0, .inl rfl, rfl, .inl ⟨?_, rfl, by decide⟩⟩
      cases ot <;> simp [textEntries, lookup, hc.ta.symm, hc.sa.symm]
    · exact ⟨1, .inr rfl, rfl, .inr ⟨av, by simp [lookup], has, by decide⟩⟩
  rw [List.append_assoc] at *
  cases ot with
  | some t =>
    have ht := hot t rfl
    have hne : (A ++ (textEntries c (some t) ++ G)).isEmpty = false := by
      cases A <;> simp [textEntries]
    have hlt : lookup c.textK (A ++ textEntries c (some t)) = some (.str t) := by
      rcases hA with ⟨rfl, _⟩ | ⟨av, rfl, _⟩ <;> simp [textEntries, lookup, hc.ta]
    have hls : (lookup c.seqK (A ++ textEntries c (some t))).isSome = true := by
      rcases hA with ⟨rfl, _⟩ | ⟨av, rfl, _⟩ <;>
        simp [textEntries, lookup, hc.sa, hc.ts.symm]
    have hPl : (A ++ textEntries c (some t)).length = a + 2 := by
      simp [textEntries, hlen]
    simp only [SeqFold.finish, hne, Bool.false_eq_true, if_false, seqChild]
    rw [← List.append_assoc]
    constructor
    · have V := view_root c (A ++ textEntries c (some t)) G hGt hGs hGa hP
      rw [enc_of_view c f key _ _ _ _ _ hk.2.2.2.1 hk.2.2.2.2.1 hk.2.2.2.2.2 V as _ hAttr its K
        hsort hK, hlt, hls, hPl]
      exact encBody_text key as _ a G.length t K ha01 rfl ht hK0
    · intro n
      have V := view_child c hc (A ++ textEntries c (some t)) G (seqNum n) hGt hGs hGa hP
      rw [enc_of_view c f key _ _ _ _ _ hk.2.2.2.1 hk.2.2.2.2.1 hk.2.2.2.2.2 V as _ hAttr its K
        hsort hK, hlt, hls, hPl]
      exact encBody_text key as _ a G.length t K ha01 rfl ht hK0
  | none =>
    have hlt : lookup c.textK (A ++ textEntries c none) = none := by
      rcases hA with ⟨rfl, _⟩ | ⟨av, rfl, _⟩ <;> simp [textEntries, lookup, hc.ta]
    have hls : (lookup c.seqK (A ++ textEntries c none)).isSome = false := by
      rcases hA with ⟨rfl, _⟩ | ⟨av, rfl, _⟩ <;> simp [textEntries, lookup, hc.sa]
    have hPl : (A ++ textEntries c none).length = a := by simp [textEntries, hlen]
    by_cases hne : (A ++ (textEntries c none ++ G)).isEmpty = true
    · -- nothing at all: the empty string
      have hAG : A = [] ∧ G = [] := by
        simpa [textEntries] using hne
      have hfin : SeqFold.finish (A ++ (textEntries c none ++ G)) = .str [] := by
        simp only [SeqFold.finish, hne, if_true]
      rw [hfin]
      obtain ⟨rfl, rfl⟩ := hAG
      have has : as = [] := by
        rcases hA with ⟨_, h⟩ | ⟨av, h, _⟩
        · exact h
        · cases h
      subst has
      have hK' : K = [] := hK0 rfl
      subst hK'
      simp only [seqChild, textNodes, List.append_nil]
      constructor
      · simp [seqEncTree, textKid]
      · intro n
        rw [seqEncTree_map_noattr c f key _ hk.2.2.2.1 hk.2.2.2.2.1 hk.2.2.2.2.2
          (by simp [lookup, hc.ta.symm, hc.sa.symm])]
        simp [lookup, hc.ts.symm, encBody_empty]
    · simp only [SeqFold.finish, hne, Bool.false_eq_true, if_false, seqChild]
      rw [← List.append_assoc]
      constructor
      · have V := view_root c (A ++ textEntries c none) G hGt hGs hGa hP
        rw [enc_of_view c f key _ _ _ _ _ hk.2.2.2.1 hk.2.2.2.2.1 hk.2.2.2.2.2 V as _ hAttr its K
          hsort hK, hlt, hls, hPl]
        have := encBody_none key as (decide (a = 1)) false a G.length K ha01 rfl hK0
        simpa [textNodes] using this
      · intro n
        have V := view_child c hc (A ++ textEntries c none) G (seqNum n) hGt hGs hGa hP
        rw [enc_of_view c f key _ _ _ _ _ hk.2.2.2.1 hk.2.2.2.2.1 hk.2.2.2.2.2 V as _ hAttr its K
          hsort hK, hlt, hls, hPl]
        have := encBody_none key as (decide (a = 1)) true a G.length K ha01 rfl hK0
        simpa [textNodes] using this

/-! ### (4c) normal forms of trees -/

/-- the children that are not text nodes -/
def dropText : List Node → List Node
  | [] => []
  | .text _ :: r => dropText r
  | k :: r => k :: dropText r

theorem norm_noText (c : SeqCfg) : ∀ (ks : List Node), noText c ks = true →
    normalizeKidsC c ks = normalizeKidsC c (dropText ks)
  | [], _ => rfl
  | .text s :: r, h => by
      simp only [noText, Bool.and_eq_true, isBlankText] at h
      simp only [normalizeKidsC, h.1, if_true, dropText]
      exact norm_noText c r h.2
  | .elem _ _ _ _ :: r, h => by
      simp only [noText] at h
      simp only [normalizeKidsC, dropText, norm_noText c r h]
  | .comment _ :: r, h => by
      simp only [noText] at h
      simp only [normalizeKidsC, dropText, norm_noText c r h]
  | .directive _ :: r, h => by
      simp only [noText] at h
      simp only [normalizeKidsC, dropText, norm_noText c r h]
  | .procinst _ _ :: r, h => by
      simp only [noText] at h
      simp only [normalizeKidsC, dropText, norm_noText c r h]

theorem norm_split (c : SeqCfg) (kids : List Node) (h : textFirst c kids = true) :
    normalizeKidsC c kids = textNodes (leadText c kids) ++ normalizeKidsC c (dropText kids) := by
  cases kids with
  | nil => rfl
  | cons k r =>
    cases k with
    | text s =>
      simp only [textFirst] at h
      by_cases hb : isBlankText c s = true
      · have hb' := hb
        simp only [isBlankText] at hb'
        simp only [normalizeKidsC, hb', if_true, leadText, hb, textNodes, dropText, List.nil_append]
        exact norm_noText c r h
      · have hb1 : isBlankText c s = false := by simpa using hb
        have hb' := hb1
        simp only [isBlankText] at hb'
        simp only [normalizeKidsC, hb', Bool.false_eq_true, if_false, leadText, hb1, textNodes,
          dropText, List.cons_append, List.nil_append, norm_noText c r h]
    | elem _ _ _ _ => simpa [leadText, textNodes] using norm_noText c _ (by simpa [textFirst] using h)
    | comment _ => simpa [leadText, textNodes] using norm_noText c _ (by simpa [textFirst] using h)
    | directive _ => simpa [leadText, textNodes] using norm_noText c _ (by simpa [textFirst] using h)
    | procinst _ _ => simpa [leadText, textNodes] using norm_noText c _ (by simpa [textFirst] using h)

theorem qualifyKids_append (c : SeqCfg) : ∀ (X Y : List Node),
    qualifyKids c (X ++ Y) = qualifyKids c X ++ qualifyKids c Y
  | [], _ => rfl
  | x :: X, Y => by simp only [List.cons_append, qualifyKids, qualifyKids_append c X Y]

theorem qualifyKids_textNodes (c : SeqCfg) (ot : Option Str) :
    qualifyKids c (textNodes ot) = textNodes ot := by
  cases ot <;> simp [textNodes, qualifyKids, qualify]

theorem leadText_ne_nil (c : SeqCfg) (kids : List Node) (t : Str) (h : leadText c kids = some t) :
    t ≠ [] := by
  cases kids with
  | nil => simp [leadText] at h
  | cons k r =>
    cases k with
    | text s =>
      simp only [leadText] at h
      split at h
      · cases h
      · rename_i hb
        cases h
        intro e
        apply hb
        simp [isBlankText, e]
    | elem _ _ _ _ => simp [leadText] at h
    | comment _ => simp [leadText] at h
    | directive _ => simp [leadText] at h
    | procinst _ _ => simp [leadText] at h

theorem height_pos : ∀ (t : Node), 1 ≤ t.height
  | .elem _ _ _ _ => by simp [Node.height]
  | .text _ => by simp [Node.height]
  | .comment _ => by simp [Node.height]
  | .directive _ => by simp [Node.height]
  | .procinst _ _ => by simp [Node.height]

theorem seqKidsTree_cons_ok (c : SeqCfg) (f : Nat) (k : Str) (v : Val) (rest : List (Str × Val))
    (a r : List Node) (h1 : seqEncTree c f k v = .ok a) (h2 : seqKidsTree c f rest = .ok r) :
    seqKidsTree c f ((k, v) :: rest) = .ok (a ++ r) := by
  simp only [seqKidsTree, h1, h2]

/-! ### (4d) the round trip along the tree -/

mutual
theorem enc_tree (c : SeqCfg) (S : Strconv) (hc : CfgOk c) : ∀ (t : Node),
    match t with
    | .elem sp name _ _ => seqDomain c t = true → ∀ f, t.height + 1 ≤ f →
        seqEncTree c f (qualName c sp name) (SeqFold.value c S t)
            = .ok [qualify c (normalizeC c t)]
        ∧ ∀ n, seqEncTree c f (qualName c sp name) (seqChild c n (SeqFold.value c S t))
            = .ok [qualify c (normalizeC c t)]
    | _ => True
  | .elem sp name attrs kids => by
      intro hd f hf
      have dp := seqDomain_parts hd
      simp only [Node.height] at hf
      obtain ⟨f, rfl⟩ : ∃ g, f = g + 1 := ⟨f - 1, by omega⟩
      have hKids := enc_kids c S hc kids dp.kids
        (if (leadText c kids).isSome then 1 else 0) f (by omega)
      have hkeys := items_keys c S hc kids (if (leadText c kids).isSome then 1 else 0) dp.kids
      have hnone : ∀ k, (∀ e ∈ itemsOf c S kids, e.1 ≠ k) →
          lookup k (addAll [] (itemsOf c S kids)) = none :=
        fun k h => lookup_addAll_none k _ [] rfl h
      have hperm : (unrollEntries c (addAll [] (itemsOf c S kids))).Perm (itemsOf c S kids) := by
        have := unrollEntries_addAll c (itemsOf c S kids) [] (fun e he =>
          ⟨by have := hkeys e he; simp [dropK, this.1, this.2.1, this.2.2],
           items_not_list c S kids _ e he⟩)
        simpa [unrollEntries] using this
      have hA : (seqInitNa c S attrs = [] ∧ attrs.map (qualAttr c) = [])
          ∨ (∃ av, seqInitNa c S attrs = [(c.attrK, .map av)]
              ∧ seqAttrNodes c (sortBySeq c av) = .ok (attrs.map (qualAttr c))) := by
        rw [seqInitNa_eq c S hc attrs dp.attrs]
        cases attrs with
        | nil => exact .inl ⟨rfl, rfl⟩
        | cons a as =>
          refine .inr ⟨_, rfl, ?_⟩
          rw [sortBySeq_of_sorted c _ (attrEntries_pairwise c hc _ 0), seqAttrNodes_attrEntries]
      have main := enc_val c hc f (qualName c sp name) dp.key (seqInitNa c S attrs)
        (attrs.map (qualAttr c)) hA (leadText c kids) (leadText_ne_nil c kids)
        (addAll [] (itemsOf c S kids)) (itemsOf c S kids)
        (qualifyKids c (normalizeKidsC c (dropText kids)))
        (hnone _ (fun e he => (hkeys e he).1)) (hnone _ (fun e he => (hkeys e he).2.1))
        (hnone _ (fun e he => (hkeys e he).2.2))
        (sortBySeq_inverts_perm c _ _ hperm (items_pairwise c S hc kids _))
        hKids
        (by
          intro hG
          have := addAll_isEmpty (itemsOf c S kids) []
          rw [hG] at this
          simpa using this.symm)
      have hval : SeqFold.value c S (.elem sp name attrs kids)
          = SeqFold.finish (seqInitNa c S attrs ++ textEntries c (leadText c kids)
              ++ addAll [] (itemsOf c S kids)) := by
        simp only [SeqFold.value]
        rw [entries_form c S hc sp name attrs kids hd]
        rfl
      have hout : qualify c (normalizeC c (.elem sp name attrs kids))
          = .elem [] (qualName c sp name) (attrs.map (qualAttr c))
              (textNodes (leadText c kids) ++ qualifyKids c (normalizeKidsC c (dropText kids))) := by
        simp only [normalizeC, qualify, norm_split c kids dp.tf, qualifyKids_append,
          qualifyKids_textNodes]
      rw [hval, hout]
      exact main
  | .text _ => trivial
  | .comment _ => trivial
  | .procinst _ _ => trivial
  | .directive _ => trivial
theorem enc_kids (c : SeqCfg) (S : Strconv) (hc : CfgOk c) : ∀ (kids : List Node),
    seqDomainKids c kids = true → ∀ (seq f : Nat), Node.heightKids kids + 1 ≤ f →
    seqKidsTree c f (items c S seq kids)
      = .ok (qualifyKids c (normalizeKidsC c (dropText kids)))
  | [], _, seq, f, _ => by simp [items, seqKidsTree, dropText, normalizeKidsC, qualifyKids]
  | .text s :: rest, hd, seq, f, hf => by
      simp only [Node.heightKids] at hf
      simp only [items, dropText]
      exact enc_kids c S hc rest (by simpa [seqDomainKids] using hd) seq f (by omega)
  | .elem sp name attrs ks :: rest, hd, seq, f, hf => by
      simp only [Node.heightKids] at hf
      simp only [seqDomainKids, Bool.and_eq_true] at hd
      have h1 := enc_tree c S hc (.elem sp name attrs ks)
      simp only at h1
      have h1' := (h1 hd.1 f (by omega)).2 seq
      have h2 := enc_kids c S hc rest hd.2 (seq + 1) f (by omega)
      simp only [items, dropText, normalizeKidsC, qualifyKids]
      exact seqKidsTree_cons_ok c f _ _ _ _ _ h1' h2
  | .comment s :: rest, hd, seq, f, hf => by
      simp only [Node.heightKids, Node.height] at hf
      obtain ⟨f, rfl⟩ : ∃ g, f = g + 1 := ⟨f - 1, by omega⟩
      have h2 := enc_kids c S hc rest (by simpa [seqDomainKids] using hd) (seq + 1) (f + 1) (by omega)
      simp only [items, dropText, normalizeKidsC, qualifyKids, normalizeC, qualify]
      refine seqKidsTree_cons_ok c (f + 1) _ _ _ [.comment s] _ ?_ h2
      simp [seqEncTree, noteVal, lookup, strOf]
  | .directive s :: rest, hd, seq, f, hf => by
      simp only [Node.heightKids, Node.height] at hf
      obtain ⟨f, rfl⟩ : ∃ g, f = g + 1 := ⟨f - 1, by omega⟩
      have h2 := enc_kids c S hc rest (by simpa [seqDomainKids] using hd) (seq + 1) (f + 1) (by omega)
      simp only [items, dropText, normalizeKidsC, qualifyKids, normalizeC, qualify]
      refine seqKidsTree_cons_ok c (f + 1) _ _ _ [.directive s] _ ?_ h2
      simp [seqEncTree, noteVal, lookup, strOf, hc.cd.symm]
  | .procinst t i :: rest, hd, seq, f, hf => by
      simp only [Node.heightKids, Node.height] at hf
      obtain ⟨f, rfl⟩ : ∃ g, f = g + 1 := ⟨f - 1, by omega⟩
      have h2 := enc_kids c S hc rest (by simpa [seqDomainKids] using hd) (seq + 1) (f + 1) (by omega)
      simp only [items, dropText, normalizeKidsC, qualifyKids, normalizeC, qualify]
      refine seqKidsTree_cons_ok c (f + 1) _ _ _ [.procinst t i] _ ?_ h2
      simp [seqEncTree, piVal, lookup, strOf, hc.cp.symm, hc.dp.symm, hc.ti.symm]
end

/-! ### (5) the decoded form, stated for Props -/

/-- the entries of the map the decoder builds for an element (before `finish`) -/
def decodedEntries (c : SeqCfg) (S : Strconv) (attrs : List Attr) (kids : List Node) : Entries :=
  (SeqFold.kids' c S (seqInitNa c S attrs, 0, none) kids).1

theorem value_eq_finish (c : SeqCfg) (S : Strconv) (sp name : Str) (attrs : List Attr)
    (kids : List Node) :
    SeqFold.value c S (.elem sp name attrs kids) = SeqFold.finish (decodedEntries c S attrs kids) := by
  simp only [SeqFold.value, decodedEntries]

theorem decodedEntries_form (c : SeqCfg) (S : Strconv) (hc : CfgOk c) (sp name : Str)
    (attrs : List Attr) (kids : List Node) (hd : seqDomain c (.elem sp name attrs kids) = true) :
    decodedEntries c S attrs kids
      = (if attrs.isEmpty then [] else [(c.attrK, .map (attrEntries c 0 attrs))])
        ++ textEntries c (leadText c kids) ++ addAll [] (itemsOf c S kids) := by
  unfold decodedEntries
  rw [entries_form c S hc sp name attrs kids hd, seqInitNa_eq c S hc attrs (seqDomain_parts hd).attrs]
  rfl

theorem itemsOf_unrolled (c : SeqCfg) (S : Strconv) (hc : CfgOk c) (sp name : Str)
    (attrs : List Attr) (kids : List Node) (hd : seqDomain c (.elem sp name attrs kids) = true) :
    (unrollEntries c (decodedEntries c S attrs kids)).Perm (itemsOf c S kids) := by
  have dp := seqDomain_parts hd
  have hkeys := items_keys c S hc kids (if (leadText c kids).isSome then 1 else 0) dp.kids
  rw [decodedEntries_form c S hc sp name attrs kids hd, unrollEntries_append, unrollEntries_append]
  have h1 : unrollEntries c (if attrs.isEmpty then [] else [(c.attrK, .map (attrEntries c 0 attrs))])
      = [] := by
    split
    · rfl
    · simp [unrollEntries]
  have h2 : unrollEntries c (textEntries c (leadText c kids)) = [] := by
    cases leadText c kids <;> simp [textEntries, unrollEntries_cons, dropK, unrollEntries]
  rw [h1, h2]
  have := unrollEntries_addAll c (itemsOf c S kids) [] (fun e he =>
    ⟨by have := hkeys e he; simp [dropK, this.1, this.2.1, this.2.2],
     items_not_list c S kids _ e he⟩)
  simpa [unrollEntries] using this

theorem sorted_children (c : SeqCfg) (S : Strconv) (hc : CfgOk c) (sp name : Str)
    (attrs : List Attr) (kids : List Node) (hd : seqDomain c (.elem sp name attrs kids) = true) :
    sortBySeq c (unrollEntries c (decodedEntries c S attrs kids)) = itemsOf c S kids :=
  sortBySeq_inverts_perm c _ _ (itemsOf_unrolled c S hc sp name attrs kids hd)
    (items_pairwise c S hc kids _)

theorem insert_perm_of_absent (k : Str) (v : Val) (l : Entries) (h : lookup k l = none) :
    (insert k v l).Perm ((k, v) :: l) := by
  rw [insert_absent k v l (not_mem_keys_of_lookup h)]
  exact List.perm_append_comm

/-! ### (6) qualified names split again at the colon -/

theorem takeWhile_sep (p : Char → Bool) (d : Char) (hd : p d = false) : ∀ (sp rest : Str),
    (∀ x ∈ sp, p x = true) →
    (sp ++ d :: rest).takeWhile p = sp ∧ (sp ++ d :: rest).dropWhile p = d :: rest
  | [], rest, _ => by simp [hd]
  | x :: xs, rest, h => by
      have hx : p x = true := h x (List.mem_cons_self ..)
      have ih := takeWhile_sep p d hd xs rest (fun y hy => h y (List.mem_cons_of_mem _ hy))
      simp only [List.cons_append, List.takeWhile_cons, List.dropWhile_cons, hx, if_true, ih.1, ih.2,
        and_self]

theorem takeWhile_all (p : Char → Bool) : ∀ (n : Str), (∀ x ∈ n, p x = true) →
    n.takeWhile p = n ∧ n.dropWhile p = []
  | [], _ => by simp
  | x :: xs, h => by
      have hx : p x = true := h x (List.mem_cons_self ..)
      have ih := takeWhile_all p xs (fun y hy => h y (List.mem_cons_of_mem _ hy))
      simp only [List.takeWhile_cons, List.dropWhile_cons, hx, if_true, ih.1, ih.2, and_self]

theorem colonFree_mem {s : Str} (h : colonFree s = true) :
    ∀ x ∈ s, (fun (y : Char) => decide (y ≠ ':')) x = true := by
  intro x hx
  simp only [colonFree, Bool.not_eq_true', List.contains_eq_mem, decide_eq_false_iff_not] at h
  simp only [ne_eq, decide_not, Bool.not_eq_true', decide_eq_false_iff_not]
  intro e; subst e; exact h hx

theorem splitQual_qualName (c : SeqCfg) (hs : c.snake = false) (sp n : Str)
    (h1 : colonFree sp = true) (h2 : colonFree n = true) (h3 : n.isEmpty = false) :
    splitQual (qualName c sp n) = (sp, n) := by
  unfold qualName
  simp only [hs, Bool.false_eq_true, if_false]
  cases sp with
  | nil =>
    have := takeWhile_all (fun (y : Char) => decide (y ≠ ':')) n (colonFree_mem h2)
    simp only [List.isEmpty_nil, if_true, splitQual, this.2]
  | cons x xs =>
    have := takeWhile_sep (fun (y : Char) => decide (y ≠ ':')) ':' (by decide) (x :: xs) n
      (colonFree_mem h1)
    simp only [List.isEmpty_cons, Bool.false_eq_true, if_false, List.append_assoc,
      List.singleton_append]
    simp only [splitQual, this.1, this.2, List.isEmpty_cons, h3, Bool.or_self, Bool.false_eq_true,
      if_false]

theorem unqual_qualAttr (c : SeqCfg) (hs : c.snake = false) (a : Attr)
    (h : (colonFree a.space && colonFree a.name && !a.name.isEmpty) = true) :
    unqualAttr (qualAttr c a) = a := by
  simp only [Bool.and_eq_true, Bool.not_eq_true'] at h
  have := splitQual_qualName c hs a.space a.name h.1.1 h.1.2 h.2
  cases a
  simp_all [unqualAttr, qualAttr]

theorem unqual_qualAttrs (c : SeqCfg) (hs : c.snake = false) : ∀ (as : List Attr),
    as.all (fun a => colonFree a.space && colonFree a.name && !a.name.isEmpty) = true →
    (as.map (qualAttr c)).map unqualAttr = as
  | [], _ => rfl
  | a :: as, h => by
      simp only [List.all_cons, Bool.and_eq_true] at h
      simp only [List.map_cons, unqual_qualAttr c hs a (by simpa using h.1),
        unqual_qualAttrs c hs as h.2]

mutual
theorem unqualify_qualify (c : SeqCfg) (hs : c.snake = false) : ∀ (t : Node),
    plainNames t = true → unqualify (qualify c t) = t
  | .elem sp n as ks, h => by
      simp only [plainNames, Bool.and_eq_true, Bool.not_eq_true'] at h
      simp only [qualify, unqualify, splitQual_qualName c hs sp n h.1.1.1.1 h.1.1.1.2 h.1.1.2,
        unqual_qualAttrs c hs as h.1.2, unqualifyKids_qualifyKids c hs ks h.2]
  | .text _, _ => rfl
  | .comment _, _ => rfl
  | .directive _, _ => rfl
  | .procinst _ _, _ => rfl
theorem unqualifyKids_qualifyKids (c : SeqCfg) (hs : c.snake = false) : ∀ (ks : List Node),
    plainNamesKids ks = true → unqualifyKids (qualifyKids c ks) = ks
  | [], _ => rfl
  | k :: ks, h => by
      simp only [plainNamesKids, Bool.and_eq_true] at h
      simp only [qualifyKids, unqualifyKids, unqualify_qualify c hs k h.1,
        unqualifyKids_qualifyKids c hs ks h.2]
end

mutual
theorem plainNames_normalize (c : SeqCfg) : ∀ (t : Node),
    plainNames t = true → plainNames (normalizeC c t) = true
  | .elem sp n as ks, h => by
      simp only [plainNames, Bool.and_eq_true] at h
      simp only [normalizeC, plainNames, Bool.and_eq_true]
      exact ⟨h.1, plainNamesKids_normalize c ks h.2⟩
  | .text _, _ => rfl
  | .comment _, _ => rfl
  | .directive _, _ => rfl
  | .procinst _ _, _ => rfl
theorem plainNamesKids_normalize (c : SeqCfg) : ∀ (ks : List Node),
    plainNamesKids ks = true → plainNamesKids (normalizeKidsC c ks) = true
  | [], _ => rfl
  | .text s :: ks, h => by
      simp only [plainNamesKids, Bool.and_eq_true] at h
      simp only [normalizeKidsC]
      split
      · exact plainNamesKids_normalize c ks h.2
      · simp only [plainNamesKids, plainNames, Bool.true_and]
        exact plainNamesKids_normalize c ks h.2
  | .elem sp n as ks' :: ks, h => by
      simp only [plainNamesKids, Bool.and_eq_true] at h
      simp only [normalizeKidsC, plainNamesKids, Bool.and_eq_true]
      exact ⟨plainNames_normalize c _ h.1, plainNamesKids_normalize c ks h.2⟩
  | .comment _ :: ks, h => by
      simp only [plainNamesKids, Bool.and_eq_true] at h
      simp only [normalizeKidsC, normalizeC, plainNamesKids, plainNames, Bool.true_and]
      exact plainNamesKids_normalize c ks h.2
  | .directive _ :: ks, h => by
      simp only [plainNamesKids, Bool.and_eq_true] at h
      simp only [normalizeKidsC, normalizeC, plainNamesKids, plainNames, Bool.true_and]
      exact plainNamesKids_normalize c ks h.2
  | .procinst _ _ :: ks, h => by
      simp only [plainNamesKids, Bool.and_eq_true] at h
      simp only [normalizeKidsC, normalizeC, plainNamesKids, plainNames, Bool.true_and]
      exact plainNamesKids_normalize c ks h.2
end

/-! ### (7) Go ranges over the map in arbitrary order: permuting the entries changes nothing -/

theorem mem_of_lookup {k : Str} {v : Val} : ∀ {l : Entries}, lookup k l = some v → (k, v) ∈ l
  | [], h => by simp [lookup] at h
  | (k', v') :: rest, h => by
      by_cases e : k = k'
      · subst e
        simp only [lookup, if_true, Option.some.injEq] at h
        subst h
        exact List.mem_cons_self ..
      · simp only [lookup, e, if_false] at h
        exact List.mem_cons_of_mem _ (mem_of_lookup h)

theorem lookup_of_mem {k : Str} {v : Val} : ∀ {l : Entries}, (keys l).Nodup → (k, v) ∈ l →
    lookup k l = some v
  | [], _, h => by simp at h
  | (k', v') :: rest, hn, h => by
      rw [keys_cons', List.nodup_cons] at hn
      rcases List.mem_cons.1 h with h | h
      · cases h; simp [lookup]
      · have hk : k ∈ keys rest := List.mem_map.2 ⟨(k, v), h, rfl⟩
        have e : ¬ k = k' := fun e => hn.1 (e ▸ hk)
        simp only [lookup, e, if_false]
        exact lookup_of_mem hn.2 h

theorem lookup_perm {l l' : Entries} (hp : l'.Perm l) (hn : (keys l).Nodup) (k : Str) :
    lookup k l' = lookup k l := by
  have hn' : (keys l').Nodup := (keys_nodup_perm hp).2 hn
  cases h : lookup k l with
  | some v => exact lookup_of_mem hn' (hp.mem_iff.2 (mem_of_lookup h))
  | none =>
    cases h' : lookup k l' with
    | none => rfl
    | some v =>
      have := lookup_of_mem hn (hp.mem_iff.1 (mem_of_lookup h'))
      rw [h] at this; cases this

theorem unrollEntries_eq_flatMap (c : SeqCfg) : ∀ (l : Entries),
    unrollEntries c l = l.flatMap (fun e => if dropK c e.1 then [] else unroll1 e.1 e.2)
  | [] => by simp [unrollEntries]
  | (k, v) :: rest => by
      rw [unrollEntries_cons, unrollEntries_eq_flatMap c rest, List.flatMap_cons]

theorem unrollEntries_perm (c : SeqCfg) {l l' : Entries} (hp : l'.Perm l) :
    (unrollEntries c l').Perm (unrollEntries c l) := by
  rw [unrollEntries_eq_flatMap, unrollEntries_eq_flatMap]
  exact hp.flatMap_right _

/-- sorting two permutations of a list with pairwise distinct `#seq` gives the same result -/
theorem sortBySeq_congr (c : SeqCfg) {l p : List (Str × Val)} (hp : p.Perm l)
    (hn : (l.map (fun e => seqOf c e.2)).Nodup) : sortBySeq c p = sortBySeq c l := by
  have hs := sortBySeq_sorted c l
  have hn' : ((sortBySeq c l).map (fun e => seqOf c e.2)).Nodup :=
    (((sortBySeq_perm c l).map _).nodup_iff).2 hn
  have hlt : (sortBySeq c l).Pairwise (fun a b => seqOf c a.2 < seqOf c b.2) := by
    have h2 : (sortBySeq c l).Pairwise (fun a b => seqOf c a.2 ≠ seqOf c b.2) :=
      List.pairwise_map.1 hn'
    exact (hs.and h2).imp (fun h => Nat.lt_of_le_of_ne h.1 h.2)
  exact sortBySeq_inverts_perm c _ p (hp.trans (sortBySeq_perm c l).symm) hlt

/-- one level: the encoder's result does not depend on the order of the map's entries, as long
    as the keys are distinct and so are the sequence numbers of the (unrolled) children -/
theorem seqEncTree_perm (c : SeqCfg) (f : Nat) (key : Str) {val val' : Entries}
    (hp : val'.Perm val) (hk : (keys val).Nodup)
    (hs : ((unrollEntries c val).map (fun e => seqOf c e.2)).Nodup) :
    seqEncTree c f key (.map val') = seqEncTree c f key (.map val) := by
  cases f with
  | zero => simp [seqEncTree]
  | succ f =>
    simp only [seqEncTree, lookup_perm hp hk, hp.length_eq,
      sortBySeq_congr c (unrollEntries_perm c hp) hs]

theorem seqEnc_perm (c : SeqCfg) (esc goEmpty : Bool) (f : Nat) (key : Str) {val val' : Entries}
    (hp : val'.Perm val) (hk : (keys val).Nodup)
    (hs : ((unrollEntries c val).map (fun e => seqOf c e.2)).Nodup) :
    seqEnc c esc goEmpty f key (.map val') = seqEnc c esc goEmpty f key (.map val) := by
  cases f with
  | zero => simp [seqEnc]
  | succ f =>
    simp only [seqEnc, lookup_perm hp hk, hp.length_eq,
      sortBySeq_congr c (unrollEntries_perm c hp) hs]

/-! ### (8) the decoded map has distinct keys and distinct sequence numbers -/

theorem decoded_seqs_nodup (c : SeqCfg) (S : Strconv) (hc : CfgOk c) (sp name : Str)
    (attrs : List Attr) (kids : List Node) (hd : seqDomain c (.elem sp name attrs kids) = true) :
    ((unrollEntries c (decodedEntries c S attrs kids)).map (fun e => seqOf c e.2)).Nodup := by
  rw [((itemsOf_unrolled c S hc sp name attrs kids hd).map _).nodup_iff]
  unfold itemsOf
  rw [items_seqs c S hc]
  exact List.nodup_range'

theorem decoded_keys_nodup (c : SeqCfg) (S : Strconv) (hc : CfgOk c) (sp name : Str)
    (attrs : List Attr) (kids : List Node) (hd : seqDomain c (.elem sp name attrs kids) = true) :
    (keys (decodedEntries c S attrs kids)).Nodup := by
  have dp := seqDomain_parts hd
  have hkeys := items_keys c S hc kids (if (leadText c kids).isSome then 1 else 0) dp.kids
  have hG : ∀ k, (k = c.attrK ∨ k = c.textK ∨ k = c.seqK) →
      k ∉ keys (addAll [] (itemsOf c S kids)) := by
    intro k hk
    apply not_mem_keys_of_lookup
    apply lookup_addAll_none k _ [] rfl
    intro e he
    have := hkeys e he
    rcases hk with rfl | rfl | rfl
    · exact this.2.2
    · exact this.1
    · exact this.2.1
  rw [decodedEntries_form c S hc sp name attrs kids hd, keys_append', keys_append']
  have hAT : (keys (if attrs.isEmpty then [] else [(c.attrK, Val.map (attrEntries c 0 attrs))])
      ++ keys (textEntries c (leadText c kids))).Nodup
      ∧ ∀ k ∈ (keys (if attrs.isEmpty then [] else [(c.attrK, Val.map (attrEntries c 0 attrs))])
      ++ keys (textEntries c (leadText c kids))), k = c.attrK ∨ k = c.textK ∨ k = c.seqK := by
    cases leadText c kids <;> cases attrs <;>
      simp [textEntries, keys, hc.ta.symm, hc.sa.symm, hc.ts]
  rw [List.nodup_append]
  refine ⟨hAT.1, nodup_keys_addAll _ [] (by simp [keys]), ?_⟩
  intro a ha b hb e
  subst e
  exact hG a (hAT.2 a ha) hb

end SeqL
end Mxj
