/-
  Mxj.Lemmas.Seq — helper lemmas for C04 (Props/C04.lean), namespace `Mxj.SeqL`:
  (1) `sortBySeq` is a permutation, sorted, and canonical on lists with distinct `#seq`;
  (2) the streaming decoder `seqElem`/`seqTop` is monotone in fuel and, on the tokens of a
      tree, computes `SeqFold.value`/`SeqFold.doc`;
  (3) the normal form of the decoded value of an in-domain element (`SeqFold.value`):
      `#attr` entry, text entries, then the grouped children — whose unrolled entries are a
      permutation of the decorated children in document order (`items`), numbered consecutively;
  (4) the tree-form encoder `seqEncTree` undoes the decoder on the domain.
-/
import Mxj.Model.SeqTree
import Mxj.Lemmas.Decode
import Mxj.Lemmas.Leaf
namespace Mxj
namespace SeqL
open Mxj.Dec

/-! ### (1) sorting by `#seq` -/

theorem insertBySeq_perm (c : SeqCfg) (e : Str × Val) : ∀ (l : List (Str × Val)),
    (insertBySeq c e l).Perm (e :: l)
  | [] => by simp [insertBySeq]
  | x :: xs => by
      simp only [insertBySeq]
      split
      · exact ((insertBySeq_perm c e xs).cons x).trans (List.Perm.swap e x xs)
      · exact List.Perm.refl _

theorem sortBySeq_cons (c : SeqCfg) (x : Str × Val) (xs : List (Str × Val)) :
    sortBySeq c (x :: xs) = insertBySeq c x (sortBySeq c xs) := rfl

theorem sortBySeq_perm (c : SeqCfg) : ∀ (l : List (Str × Val)), (sortBySeq c l).Perm l
  | [] => by simp [sortBySeq]
  | x :: xs => by
      rw [sortBySeq_cons]
      exact (insertBySeq_perm c x _).trans ((sortBySeq_perm c xs).cons x)

def SeqSorted (c : SeqCfg) (l : List (Str × Val)) : Prop :=
  l.Pairwise (fun a b => seqOf c a.2 ≤ seqOf c b.2)

theorem insertBySeq_sorted (c : SeqCfg) (e : Str × Val) : ∀ (l : List (Str × Val)),
    SeqSorted c l → SeqSorted c (insertBySeq c e l)
  | [], _ => by simp [insertBySeq, SeqSorted]
  | x :: xs, h => by
      unfold SeqSorted at h ⊢
      rw [List.pairwise_cons] at h
      simp only [insertBySeq]
      split
      · rename_i hx
        rw [List.pairwise_cons]
        refine ⟨?_, insertBySeq_sorted c e xs h.2⟩
        intro y hy
        rcases List.mem_cons.1 ((insertBySeq_perm c e xs).mem_iff.1 hy) with rfl | hy
        · exact hx
        · exact h.1 y hy
      · rename_i hx
        have hex : seqOf c e.2 ≤ seqOf c x.2 := by omega
        rw [List.pairwise_cons]
        refine ⟨?_, List.pairwise_cons.2 h⟩
        intro y hy
        rcases List.mem_cons.1 hy with rfl | hy
        · exact hex
        · exact Nat.le_trans hex (h.1 y hy)

theorem sortBySeq_sorted (c : SeqCfg) : ∀ (l : List (Str × Val)), SeqSorted c (sortBySeq c l)
  | [] => by simp [sortBySeq, SeqSorted]
  | x :: xs => by
      rw [sortBySeq_cons]
      exact insertBySeq_sorted c x _ (sortBySeq_sorted c xs)

/-- two members of a strictly increasing list with the same key are the same -/
theorem eq_of_pairwise_lt {α : Type} (k : α → Nat) : ∀ (l : List α),
    l.Pairwise (fun a b => k a < k b) → ∀ a ∈ l, ∀ b ∈ l, k a = k b → a = b
  | [], _, a, ha, _, _, _ => by simp at ha
  | x :: xs, h, a, ha, b, hb, e => by
      rw [List.pairwise_cons] at h
      rcases List.mem_cons.1 ha with ha1 | ha1 <;> rcases List.mem_cons.1 hb with hb1 | hb1
      · rw [ha1, hb1]
      · subst ha1; have := h.1 b hb1; omega
      · subst hb1; have := h.1 a ha1; omega
      · exact eq_of_pairwise_lt k xs h.2 a ha1 b hb1 e

theorem sortBySeq_inverts_perm (c : SeqCfg) (l p : List (Str × Val)) (hp : List.Perm p l)
    (hsorted : List.Pairwise (fun a b => seqOf c a.2 < seqOf c b.2) l) : sortBySeq c p = l := by
  have hle : SeqSorted c l := hsorted.imp (fun h => Nat.le_of_lt h)
  refine List.Perm.eq_of_pairwise ?_ (sortBySeq_sorted c p) hle ((sortBySeq_perm c p).trans hp)
  intro a b ha hb hab hba
  have ha' : a ∈ l := ((sortBySeq_perm c p).trans hp).mem_iff.1 ha
  exact eq_of_pairwise_lt (fun e => seqOf c e.2) l hsorted a ha' b hb (Nat.le_antisymm hab hba)

theorem sortBySeq_of_sorted (c : SeqCfg) (l : List (Str × Val))
    (hsorted : List.Pairwise (fun a b => seqOf c a.2 < seqOf c b.2) l) : sortBySeq c l = l :=
  sortBySeq_inverts_perm c l l (List.Perm.refl _) hsorted

/-! ### (2) fuel monotonicity; the stream decoder computes the tree fold -/

theorem seqElem_text (c : SeqCfg) (S : Strconv) (fin : StreamEnd) (f : Nat) (skey : Str)
    (na : Entries) (seq : Nat) (pend : Option (Str × Bool)) (s : Str) (rest : List Tok) :
    seqElem c S fin (f + 1) skey na seq pend (.text s :: rest)
      = seqElem c S fin f skey (SeqFold.onText c S na seq pend s).1
          (SeqFold.onText c S na seq pend s).2.1 (SeqFold.onText c S na seq pend s).2.2 rest := by
  rcases pend with _ | ⟨p, b⟩
  · simp only [seqElem, SeqFold.onText]
    by_cases h1 : (escDecIf c.dec (trimChars (trimSet c.dec) ([] ++ s))).isEmpty = true
    · simp only [h1, if_true]
    · simp only [h1, if_false, Bool.false_eq_true]
  · simp only [seqElem, SeqFold.onText]
    by_cases h1 : (escDecIf c.dec (trimChars (trimSet c.dec) (p ++ s))).isEmpty = true
    · simp only [h1, if_true]
    · cases b <;> simp only [h1, if_false, if_true, Bool.false_eq_true]

theorem seqElem_mono (c : SeqCfg) (S : Strconv) (fin : StreamEnd) :
    ∀ (f : Nat) (skey : Str) (na : Entries) (seq : Nat) (pend : Option (Str × Bool))
      (toks : List Tok) (r : Val × List Tok),
      seqElem c S fin f skey na seq pend toks = .ok r →
      seqElem c S fin (f + 1) skey na seq pend toks = .ok r := by
  intro f
  induction f with
  | zero => intro skey na seq pend toks r h; simp [seqElem] at h
  | succ f ih =>
    intro skey na seq pend toks r h
    match toks with
    | [] => cases fin <;> simp [seqElem] at h
    | .stop _ _ :: rest => simpa [seqElem] using h
    | .text s :: rest =>
      rw [seqElem_text] at h ⊢
      exact ih _ _ _ _ _ _ h
    | .comment _ :: rest =>
      simp only [seqElem] at h ⊢
      exact ih _ _ _ _ _ _ h
    | .procinst _ _ :: rest =>
      simp only [seqElem] at h ⊢
      exact ih _ _ _ _ _ _ h
    | .directive _ :: rest =>
      simp only [seqElem] at h ⊢
      exact ih _ _ _ _ _ _ h
    | .start sp name attrs :: rest =>
      simp only [seqElem] at h ⊢
      cases hp : seqElem c S fin f (qualName c sp name) (seqInitNa c S attrs) 0 none rest with
      | ok p =>
        obtain ⟨v, rest'⟩ := p
        simp only [hp] at h
        rw [ih _ _ _ _ _ _ hp]
        exact ih _ _ _ _ _ _ h
      | eof => simp [hp] at h
      | «syntax» => simp [hp] at h
      | err k => simp [hp] at h
      | panic s => simp [hp] at h

theorem seqElem_mono_le (c : SeqCfg) (S : Strconv) (fin : StreamEnd) {f g : Nat} (hfg : f ≤ g)
    {skey : Str} {na : Entries} {seq : Nat} {pend : Option (Str × Bool)}
    {toks : List Tok} {r : Val × List Tok}
    (h : seqElem c S fin f skey na seq pend toks = .ok r) :
    seqElem c S fin g skey na seq pend toks = .ok r := by
  induction hfg with
  | refl => exact h
  | step _ ih => exact seqElem_mono c S fin _ _ _ _ _ _ _ ih

theorem seqTop_mono (c : SeqCfg) (S : Strconv) (fin : StreamEnd) :
    ∀ (f : Nat) (toks : List Tok) (r : SeqTop),
      seqTop c S fin f toks = .ok r → seqTop c S fin (f + 1) toks = .ok r := by
  intro f
  induction f with
  | zero => intro toks r h; simp [seqTop] at h
  | succ f ih =>
    intro toks r h
    match toks with
    | [] => cases fin <;> simp [seqTop] at h
    | .stop _ _ :: rest => simp [seqTop] at h
    | .text s :: rest => simp only [seqTop] at h ⊢; exact ih _ _ h
    | .comment _ :: rest => simpa only [seqTop] using h
    | .procinst _ _ :: rest => simpa only [seqTop] using h
    | .directive _ :: rest => simpa only [seqTop] using h
    | .start sp name attrs :: rest =>
      simp only [seqTop] at h ⊢
      cases hp : seqElem c S fin f (qualName c sp name) (seqInitNa c S attrs) 0 none rest with
      | ok p =>
        obtain ⟨v, rest'⟩ := p
        simp only [hp] at h
        rw [seqElem_mono c S fin _ _ _ _ _ _ _ hp]
        exact h
      | eof => simp [hp] at h
      | «syntax» => simp [hp] at h
      | err k => simp [hp] at h
      | panic s => simp [hp] at h

theorem seqTop_mono_le (c : SeqCfg) (S : Strconv) (fin : StreamEnd) {f g : Nat} (hfg : f ≤ g)
    {toks : List Tok} {r : SeqTop} (h : seqTop c S fin f toks = .ok r) :
    seqTop c S fin g toks = .ok r := by
  induction hfg with
  | refl => exact h
  | step _ ih => exact seqTop_mono c S fin _ _ _ ih

mutual
theorem seq_parse_tree (c : SeqCfg) (S : Strconv) (fin : StreamEnd) : ∀ (t : Node),
    match t with
    | .elem sp name attrs ks => ∀ (rest : List Tok) (f : Nat), (flattenKids ks).length + 1 ≤ f →
        seqElem c S fin f (qualName c sp name) (seqInitNa c S attrs) 0 none
          (flattenKids ks ++ Tok.stop sp name :: rest) = .ok (SeqFold.value c S t, rest)
    | _ => True
  | .elem sp name attrs ks => by
      intro rest f hf
      have := seq_parse_kids c S fin ks sp name (seqInitNa c S attrs) 0 none rest f hf
      simpa [SeqFold.value] using this
  | .text _ => trivial
  | .comment _ => trivial
  | .procinst _ _ => trivial
  | .directive _ => trivial
theorem seq_parse_kids (c : SeqCfg) (S : Strconv) (fin : StreamEnd) : ∀ (ks : List Node)
    (sp nm : Str) (na : Entries) (seq : Nat) (pend : Option (Str × Bool))
    (rest : List Tok) (f : Nat), (flattenKids ks).length + 1 ≤ f →
    seqElem c S fin f (qualName c sp nm) na seq pend (flattenKids ks ++ Tok.stop sp nm :: rest) =
      .ok (SeqFold.finish (SeqFold.kids' c S (na, seq, pend) ks).1, rest)
  | [], sp, nm, na, seq, pend, rest, f, hf => by
      obtain ⟨f, rfl⟩ : ∃ g, f = g + 1 := ⟨f - 1, by simp [flattenKids] at hf; omega⟩
      simp [flattenKids, seqElem, SeqFold.kids', SeqFold.finish]
  | .text s :: ks, sp, nm, na, seq, pend, rest, f, hf => by
      simp only [flattenKids, flatten, List.length_append, List.length_cons, List.length_nil] at hf
      obtain ⟨f, rfl⟩ : ∃ g, f = g + 1 := ⟨f - 1, by omega⟩
      have ih := seq_parse_kids c S fin ks sp nm
        (SeqFold.onText c S na seq pend s).1 (SeqFold.onText c S na seq pend s).2.1
        (SeqFold.onText c S na seq pend s).2.2 rest f (by omega)
      simp only [flattenKids, flatten, List.cons_append, List.nil_append, SeqFold.kids']
      rw [seqElem_text]
      exact ih
  | .comment s :: ks, sp, nm, na, seq, pend, rest, f, hf => by
      simp only [flattenKids, flatten, List.length_append, List.length_cons, List.length_nil] at hf
      obtain ⟨f, rfl⟩ : ∃ g, f = g + 1 := ⟨f - 1, by omega⟩
      have ih := seq_parse_kids c S fin ks sp nm
        (insert c.commentK (.map [(c.textK, .str s), (c.seqK, seqNum seq)]) na) (seq + 1) none
        rest f (by omega)
      simp only [flattenKids, flatten, List.cons_append, List.nil_append, seqElem, SeqFold.kids']
      exact ih
  | .procinst a b :: ks, sp, nm, na, seq, pend, rest, f, hf => by
      simp only [flattenKids, flatten, List.length_append, List.length_cons, List.length_nil] at hf
      obtain ⟨f, rfl⟩ : ∃ g, f = g + 1 := ⟨f - 1, by omega⟩
      have ih := seq_parse_kids c S fin ks sp nm
        (insert c.procinstK (.map [(c.targetK, .str a), (c.instK, .str b), (c.seqK, seqNum seq)]) na)
        (seq + 1) none rest f (by omega)
      simp only [flattenKids, flatten, List.cons_append, List.nil_append, seqElem, SeqFold.kids']
      exact ih
  | .directive s :: ks, sp, nm, na, seq, pend, rest, f, hf => by
      simp only [flattenKids, flatten, List.length_append, List.length_cons, List.length_nil] at hf
      obtain ⟨f, rfl⟩ : ∃ g, f = g + 1 := ⟨f - 1, by omega⟩
      have ih := seq_parse_kids c S fin ks sp nm
        (insert c.directiveK (.map [(c.textK, .str s), (c.seqK, seqNum seq)]) na) (seq + 1) none
        rest f (by omega)
      simp only [flattenKids, flatten, List.cons_append, List.nil_append, seqElem, SeqFold.kids']
      exact ih
  | .elem sp' name attrs ks' :: ks, sp, nm, na, seq, pend, rest, f, hf => by
      simp only [flattenKids, flatten, List.length_append, List.length_cons, List.length_nil] at hf
      obtain ⟨f, rfl⟩ : ∃ g, f = g + 1 := ⟨f - 1, by omega⟩
      have h1 := seq_parse_tree c S fin (.elem sp' name attrs ks')
      simp only at h1
      have h1' := h1 (flattenKids ks ++ Tok.stop sp nm :: rest) f (by omega)
      have h2 := seq_parse_kids c S fin ks sp nm
        (addChild na (qualName c sp' name)
          (seqChild c seq (SeqFold.value c S (.elem sp' name attrs ks'))))
        (seq + 1) none rest f (by omega)
      simp only [flattenKids, flatten, List.cons_append, List.nil_append, List.append_assoc, seqElem,
        SeqFold.kids']
      rw [h1']
      exact h2
end

/-- the first call on the tokens of an element: explicit fuel bound -/
theorem seqTop_tree (c : SeqCfg) (S : Strconv) (fin : StreamEnd)
    (sp name : Str) (attrs : List Attr) (kids : List Node) (rest : List Tok) (f : Nat)
    (hf : (flattenKids kids).length + 2 ≤ f) :
    seqTop c S fin f (flatten (.elem sp name attrs kids) ++ rest)
      = .ok (.doc (SeqFold.doc c S (.elem sp name attrs kids))) := by
  obtain ⟨f, rfl⟩ : ∃ g, f = g + 1 := ⟨f - 1, by omega⟩
  have h := seq_parse_tree c S fin (.elem sp name attrs kids)
  simp only at h
  have h' := h rest f (by omega)
  simp only [flatten, List.cons_append, List.append_assoc, List.nil_append, seqTop, h', SeqFold.doc]

def isText : Tok → Bool
  | .text _ => true
  | _ => false

/-- leading character data (BOM, white space) costs one unit of fuel per token -/
theorem seqTop_skip (c : SeqCfg) (S : Strconv) (fin : StreamEnd) :
    ∀ (pre : List Tok), (∀ t ∈ pre, isText t = true) → ∀ (f : Nat) (toks : List Tok),
      seqTop c S fin (pre.length + f) (pre ++ toks) = seqTop c S fin f toks
  | [], _, f, toks => by simp
  | t :: pre, h, f, toks => by
      have ih := seqTop_skip c S fin pre (fun t ht => h t (List.mem_cons_of_mem _ ht)) f toks
      have ht := h t (List.mem_cons_self ..)
      have e : (t :: pre).length + f = (pre.length + f) + 1 := by simp; omega
      rw [e]
      cases t with
      | text _ => simpa only [List.cons_append, seqTop] using ih
      | start _ _ _ => simp [isText] at ht
      | stop _ _ => simp [isText] at ht
      | comment _ => simp [isText] at ht
      | procinst _ _ => simp [isText] at ht
      | directive _ => simp [isText] at ht

theorem newMapXmlSeq_tree (c : SeqCfg) (S : Strconv) (fin : StreamEnd) (pre post : List Tok)
    (hpre : ∀ t ∈ pre, isText t = true) (sp name : Str) (attrs : List Attr) (kids : List Node) :
    newMapXmlSeq c S (pre ++ flatten (.elem sp name attrs kids) ++ post) fin
      = .ok (.doc (SeqFold.doc c S (.elem sp name attrs kids))) := by
  have e : (pre ++ flatten (.elem sp name attrs kids) ++ post).length + 1
      = pre.length + ((flatten (.elem sp name attrs kids)).length + post.length + 1) := by
    simp only [List.length_append]; omega
  unfold newMapXmlSeq
  rw [e, List.append_assoc, seqTop_skip c S fin pre hpre,
    seqTop_tree c S fin sp name attrs kids post _ (by rw [length_flatten_elem]; omega)]

end SeqL
end Mxj
