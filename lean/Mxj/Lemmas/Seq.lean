/-
  Mxj.Lemmas.Seq — helper lemmas for C04 (Props/C04.lean), namespace `Mxj.SeqL`:
  (1) `sortBySeq` is a permutation, sorted, and canonical on lists with distinct `#seq`;
  (2) the streaming decoder `seqElem`/`seqTop` is monotone in fuel and, on the tokens of a
      tree, computes `SeqFold.value`/`SeqFold.doc`;
  (3) the normal form of the decoded value of an in-domain element (`SeqFold.value`):
      `#attr` entry, text entries, then the grouped children — whose unrolled entries are a
      permutation of the decorated children in document order (`items`), numbered consecutively;
  (4) the tree-form encoder `seqEncTree` undoes the decoder on the domain.
-/
import Mxj.Model.SeqTree
import Mxj.Lemmas.Decode
import Mxj.Lemmas.Leaf
namespace Mxj
namespace SeqL
open Mxj.Dec

/-! ### (1) sorting by `#seq` -/

theorem insertBySeq_perm (c : SeqCfg) (e : Str × Val) : ∀ (l : List (Str × Val)),
    (insertBySeq c e l).Perm (e :: l)
  | [] => by simp [insertBySeq]
  | x :: xs => by
      simp only [insertBySeq]
      split
      · exact ((insertBySeq_perm c e xs).cons x).trans (List.Perm.swap e x xs)
      · exact List.Perm.refl _

theorem sortBySeq_cons (c : SeqCfg) (x : Str × Val) (xs : List (Str × Val)) :
    sortBySeq c (x :: xs) = insertBySeq c x (sortBySeq c xs) := rfl

theorem sortBySeq_perm (c : SeqCfg) : ∀ (l : List (Str × Val)), (sortBySeq c l).Perm l
  | [] => by simp [sortBySeq]
  | x :: xs => by
      rw [sortBySeq_cons]
      exact (insertBySeq_perm c x _).trans ((sortBySeq_perm c xs).cons x)

def SeqSorted (c : SeqCfg) (l : List (Str × Val)) : Prop :=
  l.Pairwise (fun a b => seqOf c a.2 ≤ seqOf c b.2)

theorem insertBySeq_sorted (c : SeqCfg) (e : Str × Val) : ∀ (l : List (Str × Val)),
    SeqSorted c l → SeqSorted c (insertBySeq c e l)
  | [], _ => by simp [insertBySeq, SeqSorted]
  | x :: xs, h => by
      unfold SeqSorted at h ⊢
      rw [List.pairwise_cons] at h
      simp only [insertBySeq]
      split
      · rename_i hx
        rw [List.pairwise_cons]
        refine ⟨?_, insertBySeq_sorted c e xs h.2⟩
        intro y hy
        rcases List.mem_cons.1 ((insertBySeq_perm c e xs).mem_iff.1 hy) with rfl | hy
        · exact hx
        · exact h.1 y hy
      · rename_i hx
        have hex : seqOf c e.2 ≤ seqOf c x.2 := by omega
        rw [List.pairwise_cons]
        refine ⟨?_, List.pairwise_cons.2 h⟩
        intro y hy
        rcases List.mem_cons.1 hy with rfl | hy
        · exact hex
        · exact Nat.le_trans hex (h.1 y hy)

theorem sortBySeq_sorted (c : SeqCfg) : ∀ (l : List (Str × Val)), SeqSorted c (sortBySeq c l)
  | [] => by simp [sortBySeq, SeqSorted]
  | x :: xs => by
      rw [sortBySeq_cons]
      exact insertBySeq_sorted c x _ (sortBySeq_sorted c xs)

/-- two members of a strictly increasing list with the same key are the same -/
theorem eq_of_pairwise_lt {α : Type} (k : α → Nat) : ∀ (l : List α),
    l.Pairwise (fun a b => k a < k b) → ∀ a ∈ l, ∀ b ∈ l, k a = k b → a = b
  | [], _, a, ha, _, _, _ => by simp at ha
  | x :: xs, h, a, ha, b, hb, e => by
      rw [List.pairwise_cons] at h
      rcases List.mem_cons.1 ha with ha1 | ha1 <;> rcases List.mem_cons.1 hb with hb1 | hb1
      · rw [ha1, hb1]
      · subst ha1; have := h.1 b hb1; omega
      · subst hb1; have := h.1 a ha1; omega
      · exact eq_of_pairwise_lt k xs h.2 a ha1 b hb1 e

theorem sortBySeq_inverts_perm (c : SeqCfg) (l p : List (Str × Val)) (hp : List.Perm p l)
    (hsorted : List.Pairwise (fun a b => seqOf c a.2 < seqOf c b.2) l) : sortBySeq c p = l := by
  have hle : SeqSorted c l := hsorted.imp (fun h => Nat.le_of_lt h)
  refine List.Perm.eq_of_pairwise ?_ (sortBySeq_sorted c p) hle ((sortBySeq_perm c p).trans hp)
  intro a b ha hb hab hba
  have ha' : a ∈ l := ((sortBySeq_perm c p).trans hp).mem_iff.1 ha
  exact eq_of_pairwise_lt (fun e => seqOf c e.2) l hsorted a ha' b hb (Nat.le_antisymm hab hba)

theorem sortBySeq_of_sorted (c : SeqCfg) (l : List (Str × Val))
    (hsorted : List.Pairwise (fun a b => seqOf c a.2 < seqOf c b.2) l) : sortBySeq c l = l :=
  sortBySeq_inverts_perm c l l (List.Perm.refl _) hsorted

end SeqL
end Mxj
