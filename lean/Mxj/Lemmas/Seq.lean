/-
  Mxj.Lemmas.Seq — helper lemmas for C04 (Props/C04.lean), namespace `Mxj.SeqL`:
  (1)  `sortBySeq` is a permutation, sorted, and canonical on lists with distinct `#seq`;
  (2)  the streaming decoder `seqElem`/`seqTop` is monotone in fuel and, on the tokens of a
       tree, computes `SeqFold.value`/`SeqFold.doc`;
  (3)  the normal form of the decoded value of an in-domain element (`entries_form`): `#attr`
       entry, text entries, then the grouped children — whose unrolled entries are a permutation
       of the decorated children in document order (`items`), numbered consecutively;
  (4)  the tree-form encoder `seqEncTree` undoes the decoder on the domain (`enc_val`: the
       encoder on the normal form; `enc_tree`/`enc_kids`: along the tree);
  (5)-(6) the decoded form restated for Props; qualified names split again at the colon;
  (7)-(8) one-level order independence (`seqEncTree_perm`, `seqEnc_perm`); decoded maps have
       distinct keys and distinct sequence numbers;
  (9)-(11) bytes = rendering of the tree with `goEmpty` (`seqEnc_link`); decoded values are in
       the plain domain; the fuel `mapSeqXml` supplies is enough (`mapSeqXml_roundtrip`);
  (12) children in place;
  (13)-(14) order independence at every level (`VPerm`, `GoodAt`, `seqEncTree_vperm`); decoded
       values are good at every level (`good_value`).
-/
import Mxj.Model.SeqTree
import Mxj.Lemmas.Decode
import Mxj.Lemmas.Leaf
import Mxj.Lemmas.Escape
namespace Mxj
namespace SeqL
open Mxj.Dec

/-! ### (1) sorting by `#seq` -/

theorem insertBySeq_perm (c : SeqCfg) (e : Str × Val) : ∀ (l : List (Str × Val)),
    (insertBySeq c e l).Perm (e :: l)
  | [] => by simp [insertBySeq]
  | x :: xs => by
      simp only [insertBySeq]
      split
      · exact ((insertBySeq_perm c e xs).cons x).trans (List.Perm.swap e x xs)
      · exact List.Perm.refl _

theorem sortBySeq_cons (c : SeqCfg) (x : Str × Val) (xs : List (Str × Val)) :
    sortBySeq c (x :: xs) = insertBySeq c x (sortBySeq c xs) := rfl

theorem sortBySeq_perm (c : SeqCfg) : ∀ (l : List (Str × Val)), (sortBySeq c l).Perm l
  | [] => by simp [sortBySeq]
  | x :: xs => by
      rw [sortBySeq_cons]
      exact (insertBySeq_perm c x _).trans ((sortBySeq_perm c xs).cons x)

def SeqSorted (c : SeqCfg) (l : List (Str × Val)) : Prop :=
  l.Pairwise (fun a b => seqOf c a.2 ≤ seqOf c b.2)

theorem insertBySeq_sorted (c : SeqCfg) (e : Str × Val) : ∀ (l : List (Str × Val)),
    SeqSorted c l → SeqSorted c (insertBySeq c e l)
  | [], _ => by simp [insertBySeq, SeqSorted]
  | x :: xs, h => by
      unfold SeqSorted at h ⊢
      rw [List.pairwise_cons] at h
      simp only [insertBySeq]
      split
      · rename_i hx
        rw [List.pairwise_cons]
        refine ⟨?_, insertBySeq_sorted c e xs h.2⟩
        intro y hy
        rcases List.mem_cons.1 ((insertBySeq_perm c e xs).mem_iff.1 hy) with rfl | hy
        · exact hx
        · exact h.1 y hy
      · rename_i hx
        have hex : seqOf c e.2 ≤ seqOf c x.2 := by omega
        rw [List.pairwise_cons]
        refine ⟨?_, List.pairwise_cons.2 h⟩
        intro y hy
        rcases List.mem_cons.1 hy with rfl | hy
        · exact hex
        · exact Nat.le_trans hex (h.1 y hy)

theorem sortBySeq_sorted (c : SeqCfg) : ∀ (l : List (Str × Val)), SeqSorted c (sortBySeq c l)
  | [] => by simp [sortBySeq, SeqSorted]
  | x :: xs => by
      rw [sortBySeq_cons]
      exact insertBySeq_sorted c x _ (sortBySeq_sorted c xs)

/-- two members of a strictly increasing list with the same key are the same -/
theorem eq_of_pairwise_lt {α : Type} (k : α → Nat) : ∀ (l : List α),
    l.Pairwise (fun a b => k a < k b) → ∀ a ∈ l, ∀ b ∈ l, k a = k b → a = b
  | [], _, a, ha, _, _, _ => by simp at ha
  | x :: xs, h, a, ha, b, hb, e => by
      rw [List.pairwise_cons] at h
      rcases List.mem_cons.1 ha with ha1 | ha1 <;> rcases List.mem_cons.1 hb with hb1 | hb1
      · rw [ha1, hb1]
      · subst ha1; have := h.1 b hb1; omega
      · subst hb1; have := h.1 a ha1; omega
      · exact eq_of_pairwise_lt k xs h.2 a ha1 b hb1 e

theorem sortBySeq_inverts_perm (c : SeqCfg) (l p : List (Str × Val)) (hp : List.Perm p l)
    (hsorted : List.Pairwise (fun a b => seqOf c a.2 < seqOf c b.2) l) : sortBySeq c p = l := by
  have hle : SeqSorted c l := hsorted.imp (fun h => Nat.le_of_lt h)
  refine List.Perm.eq_of_pairwise ?_ (sortBySeq_sorted c p) hle ((sortBySeq_perm c p).trans hp)
  intro a b ha hb hab hba
  have ha' : a ∈ l := ((sortBySeq_perm c p).trans hp).mem_iff.1 ha
  exact eq_of_pairwise_lt (fun e => seqOf c e.2) l hsorted a ha' b hb (Nat.le_antisymm hab hba)

theorem sortBySeq_of_sorted (c : SeqCfg) (l : List (Str × Val))
    (hsorted : List.Pairwise (fun a b => seqOf c a.2 < seqOf c b.2) l) : sortBySeq c l = l :=
  sortBySeq_inverts_perm c l l (List.Perm.refl _) hsorted

/-! ### (2) fuel monotonicity; the stream decoder computes the tree fold -/

theorem seqElem_text (c : SeqCfg) (S : Strconv) (fin : StreamEnd) (f : Nat) (skey : Str)
    (na : Entries) (seq : Nat) (pend : Option (Str × Bool)) (s : Str) (rest : List Tok) :
    seqElem c S fin (f + 1) skey na seq pend (.text s :: rest)
      = seqElem c S fin f skey (SeqFold.onText c S na seq pend s).1
          (SeqFold.onText c S na seq pend s).2.1 (SeqFold.onText c S na seq pend s).2.2 rest := by
  rcases pend with _ | ⟨p, b⟩
  · simp only [seqElem, SeqFold.onText]
    by_cases h1 : (escDecIf c.dec (trimChars (trimSet c.dec) ([] ++ s))).isEmpty = true
    · simp only [h1, if_true]
    · simp only [h1, if_false, Bool.false_eq_true]
  · simp only [seqElem, SeqFold.onText]
    by_cases h1 : (escDecIf c.dec (trimChars (trimSet c.dec) (p ++ s))).isEmpty = true
    · simp only [h1, if_true]
    · cases b <;> simp only [h1, if_false, if_true, Bool.false_eq_true]

theorem seqElem_mono (c : SeqCfg) (S : Strconv) (fin : StreamEnd) :
    ∀ (f : Nat) (skey : Str) (na : Entries) (seq : Nat) (pend : Option (Str × Bool))
      (toks : List Tok) (r : Val × List Tok),
      seqElem c S fin f skey na seq pend toks = .ok r →
      seqElem c S fin (f + 1) skey na seq pend toks = .ok r := by
  intro f
  induction f with
  | zero => intro skey na seq pend toks r h; simp [seqElem] at h
  | succ f ih =>
    intro skey na seq pend toks r h
    match toks with
    | [] => cases fin <;> simp [seqElem] at h
    | .stop _ _ :: rest => simpa [seqElem] using h
    | .text s :: rest =>
      rw [seqElem_text] at h ⊢
      exact ih _ _ _ _ _ _ h
    | .comment _ :: rest =>
      simp only [seqElem] at h ⊢
      exact ih _ _ _ _ _ _ h
    | .procinst _ _ :: rest =>
      simp only [seqElem] at h ⊢
      exact ih _ _ _ _ _ _ h
    | .directive _ :: rest =>
      simp only [seqElem] at h ⊢
      exact ih _ _ _ _ _ _ h
    | .start sp name attrs :: rest =>
      simp only [seqElem] at h ⊢
      cases hp : seqElem c S fin f (qualName c sp name) (seqInitNa c S attrs) 0 none rest with
      | ok p =>
        obtain ⟨v, rest'⟩ := p
        simp only [hp] at h
        rw [ih _ _ _ _ _ _ hp]
        exact ih _ _ _ _ _ _ h
      | eof => simp [hp] at h
      | «syntax» => simp [hp] at h
      | err k => simp [hp] at h
      | panic s => simp [hp] at h

theorem seqElem_mono_le (c : SeqCfg) (S : Strconv) (fin : StreamEnd) {f g : Nat} (hfg : f ≤ g)
    {skey : Str} {na : Entries} {seq : Nat} {pend : Option (Str × Bool)}
    {toks : List Tok} {r : Val × List Tok}
    (h : seqElem c S fin f skey na seq pend toks = .ok r) :
    seqElem c S fin g skey na seq pend toks = .ok r := by
  induction hfg with
  | refl => exact h
  | step _ ih => exact seqElem_mono c S fin _ _ _ _ _ _ _ ih

theorem seqTop_mono (c : SeqCfg) (S : Strconv) (fin : StreamEnd) :
    ∀ (f : Nat) (toks : List Tok) (r : SeqTop),
      seqTop c S fin f toks = .ok r → seqTop c S fin (f + 1) toks = .ok r := by
  intro f
  induction f with
  | zero => intro toks r h; simp [seqTop] at h
  | succ f ih =>
    intro toks r h
    match toks with
    | [] => cases fin <;> simp [seqTop] at h
    | .stop _ _ :: rest => simp [seqTop] at h
    | .text s :: rest => simp only [seqTop] at h ⊢; exact ih _ _ h
    | .comment _ :: rest => simpa only [seqTop] using h
    | .procinst _ _ :: rest => simpa only [seqTop] using h
    | .directive _ :: rest => simpa only [seqTop] using h
    | .start sp name attrs :: rest =>
      simp only [seqTop] at h ⊢
      cases hp : seqElem c S fin f (qualName c sp name) (seqInitNa c S attrs) 0 none rest with
      | ok p =>
        obtain ⟨v, rest'⟩ := p
        simp only [hp] at h
        rw [seqElem_mono c S fin _ _ _ _ _ _ _ hp]
        exact h
      | eof => simp [hp] at h
      | «syntax» => simp [hp] at h
      | err k => simp [hp] at h
      | panic s => simp [hp] at h

theorem seqTop_mono_le (c : SeqCfg) (S : Strconv) (fin : StreamEnd) {f g : Nat} (hfg : f ≤ g)
    {toks : List Tok} {r : SeqTop} (h : seqTop c S fin f toks = .ok r) :
    seqTop c S fin g toks = .ok r := by
  induction hfg with
  | refl => exact h
  | step _ ih => exact seqTop_mono c S fin _ _ _ ih

mutual
theorem seq_parse_tree (c : SeqCfg) (S : Strconv) (fin : StreamEnd) : ∀ (t : Node),
    match t with
    | .elem sp name attrs ks => ∀ (rest : List Tok) (f : Nat), (flattenKids ks).length + 1 ≤ f →
        seqElem c S fin f (qualName c sp name) (seqInitNa c S attrs) 0 none
          (flattenKids ks ++ Tok.stop sp name :: rest) = .ok (SeqFold.value c S t, rest)
    | _ => True
  | .elem sp name attrs ks => by
      intro rest f hf
      have := seq_parse_kids c S fin ks sp name (seqInitNa c S attrs) 0 none rest f hf
      simpa [SeqFold.value] using this
  | .text _ => trivial
  | .comment _ => trivial
  | .procinst _ _ => trivial
  | .directive _ => trivial
theorem seq_parse_kids (c : SeqCfg) (S : Strconv) (fin : StreamEnd) : ∀ (ks : List Node)
    (sp nm : Str) (na : Entries) (seq : Nat) (pend : Option (Str × Bool))
    (rest : List Tok) (f : Nat), (flattenKids ks).length + 1 ≤ f →
    seqElem c S fin f (qualName c sp nm) na seq pend (flattenKids ks ++ Tok.stop sp nm :: rest) =
      .ok (SeqFold.finish (SeqFold.kids' c S (na, seq, pend) ks).1, rest)
  | [], sp, nm, na, seq, pend, rest, f, hf => by
      obtain ⟨f, rfl⟩ : ∃ g, f = g + 1 := ⟨f - 1, by simp [flattenKids] at hf; omega⟩
      simp [flattenKids, seqElem, SeqFold.kids', SeqFold.finish]
  | .text s :: ks, sp, nm, na, seq, pend, rest, f, hf => by
      simp only [flattenKids, flatten, List.length_append, List.length_cons, List.length_nil] at hf
      obtain ⟨f, rfl⟩ : ∃ g, f = g + 1 := ⟨f - 1, by omega⟩
      have ih := seq_parse_kids c S fin ks sp nm
        (SeqFold.onText c S na seq pend s).1 (SeqFold.onText c S na seq pend s).2.1
        (SeqFold.onText c S na seq pend s).2.2 rest f (by omega)
      simp only [flattenKids, flatten, List.cons_append, List.nil_append, SeqFold.kids']
      rw [seqElem_text]
      exact ih
  | .comment s :: ks, sp, nm, na, seq, pend, rest, f, hf => by
      simp only [flattenKids, flatten, List.length_append, List.length_cons, List.length_nil] at hf
      obtain ⟨f, rfl⟩ : ∃ g, f = g + 1 := ⟨f - 1, by omega⟩
      have ih := seq_parse_kids c S fin ks sp nm
        (insert c.commentK (.map [(c.textK, .str s), (c.seqK, seqNum seq)]) na) (seq + 1) none
        rest f (by omega)
      simp only [flattenKids, flatten, List.cons_append, List.nil_append, seqElem, SeqFold.kids']
      exact ih
  | .procinst a b :: ks, sp, nm, na, seq, pend, rest, f, hf => by
      simp only [flattenKids, flatten, List.length_append, List.length_cons, List.length_nil] at hf
      obtain ⟨f, rfl⟩ : ∃ g, f = g + 1 := ⟨f - 1, by omega⟩
      have ih := seq_parse_kids c S fin ks sp nm
        (insert c.procinstK (.map [(c.targetK, .str a), (c.instK, .str b), (c.seqK, seqNum seq)]) na)
        (seq + 1) none rest f (by omega)
      simp only [flattenKids, flatten, List.cons_append, List.nil_append, seqElem, SeqFold.kids']
      exact ih
  | .directive s :: ks, sp, nm, na, seq, pend, rest, f, hf => by
      simp only [flattenKids, flatten, List.length_append, List.length_cons, List.length_nil] at hf
      obtain ⟨f, rfl⟩ : ∃ g, f = g + 1 := ⟨f - 1, by omega⟩
      have ih := seq_parse_kids c S fin ks sp nm
        (insert c.directiveK (.map [(c.textK, .str s), (c.seqK, seqNum seq)]) na) (seq + 1) none
        rest f (by omega)
      simp only [flattenKids, flatten, List.cons_append, List.nil_append, seqElem, SeqFold.kids']
      exact ih
  | .elem sp' name attrs ks' :: ks, sp, nm, na, seq, pend, rest, f, hf => by
      simp only [flattenKids, flatten, List.length_append, List.length_cons, List.length_nil] at hf
      obtain ⟨f, rfl⟩ : ∃ g, f = g + 1 := ⟨f - 1, by omega⟩
      have h1 := seq_parse_tree c S fin (.elem sp' name attrs ks')
      simp only at h1
      have h1' := h1 (flattenKids ks ++ Tok.stop sp nm :: rest) f (by omega)
      have h2 := seq_parse_kids c S fin ks sp nm
        (addChild na (qualName c sp' name)
          (seqChild c seq (SeqFold.value c S (.elem sp' name attrs ks'))))
        (seq + 1) none rest f (by omega)
      simp only [flattenKids, flatten, List.cons_append, List.nil_append, List.append_assoc, seqElem,
        SeqFold.kids']
      rw [h1']
      exact h2
end

/-- the first call on the tokens of an element: explicit fuel bound -/
theorem seqTop_tree (c : SeqCfg) (S : Strconv) (fin : StreamEnd)
    (sp name : Str) (attrs : List Attr) (kids : List Node) (rest : List Tok) (f : Nat)
    (hf : (flattenKids kids).length + 2 ≤ f) :
    seqTop c S fin f (flatten (.elem sp name attrs kids) ++ rest)
      = .ok (.doc (SeqFold.doc c S (.elem sp name attrs kids))) := by
  obtain ⟨f, rfl⟩ : ∃ g, f = g + 1 := ⟨f - 1, by omega⟩
  have h := seq_parse_tree c S fin (.elem sp name attrs kids)
  simp only at h
  have h' := h rest f (by omega)
  simp only [flatten, List.cons_append, List.append_assoc, List.nil_append, seqTop, h', SeqFold.doc]

def isText : Tok → Bool
  | .text _ => true
  | _ => false

/-- leading character data (BOM, white space) costs one unit of fuel per token -/
theorem seqTop_skip (c : SeqCfg) (S : Strconv) (fin : StreamEnd) :
    ∀ (pre : List Tok), (∀ t ∈ pre, isText t = true) → ∀ (f : Nat) (toks : List Tok),
      seqTop c S fin (pre.length + f) (pre ++ toks) = seqTop c S fin f toks
  | [], _, f, toks => by simp
  | t :: pre, h, f, toks => by
      have ih := seqTop_skip c S fin pre (fun t ht => h t (List.mem_cons_of_mem _ ht)) f toks
      have ht := h t (List.mem_cons_self ..)
      have e : (t :: pre).length + f = (pre.length + f) + 1 := by simp; omega
      rw [e]
      cases t with
      | text _ => simpa only [List.cons_append, seqTop] using ih
      | start _ _ _ => simp [isText] at ht
      | stop _ _ => simp [isText] at ht
      | comment _ => simp [isText] at ht
      | procinst _ _ => simp [isText] at ht
      | directive _ => simp [isText] at ht

theorem newMapXmlSeq_tree (c : SeqCfg) (S : Strconv) (fin : StreamEnd) (pre post : List Tok)
    (hpre : ∀ t ∈ pre, isText t = true) (sp name : Str) (attrs : List Attr) (kids : List Node) :
    newMapXmlSeq c S (pre ++ flatten (.elem sp name attrs kids) ++ post) fin
      = .ok (.doc (SeqFold.doc c S (.elem sp name attrs kids))) := by
  have e : (pre ++ flatten (.elem sp name attrs kids) ++ post).length + 1
      = pre.length + ((flatten (.elem sp name attrs kids)).length + post.length + 1) := by
    simp only [List.length_append]; omega
  unfold newMapXmlSeq
  rw [e, List.append_assoc, seqTop_skip c S fin pre hpre,
    seqTop_tree c S fin sp name attrs kids post _ (by rw [length_flatten_elem]; omega)]

/-! ### (3a) association lists: prefixes, `addAll`, `unrollEntries` -/

theorem keys_nil : keys ([] : Entries) = [] := rfl
theorem keys_cons' (e : Str × Val) (l : Entries) : keys (e :: l) = e.1 :: keys l := rfl
theorem keys_append' (a b : Entries) : keys (a ++ b) = keys a ++ keys b := by
  simp [keys]

theorem insert_append_left (k : Str) (v : Val) : ∀ (P G : Entries), k ∉ keys P →
    insert k v (P ++ G) = P ++ insert k v G
  | [], G, _ => rfl
  | (k', v') :: P, G, h => by
      have h' : k ≠ k' ∧ k ∉ keys P := by simpa [keys] using h
      simp only [List.cons_append, insert, h'.1, if_false]
      rw [insert_append_left k v P G h'.2]

theorem insert_append_right (k : Str) (v : Val) : ∀ (P G : Entries), k ∈ keys P →
    insert k v (P ++ G) = insert k v P ++ G
  | [], G, h => by simp [keys] at h
  | (k', v') :: P, G, h => by
      by_cases e : k = k'
      · simp only [List.cons_append, insert, e, if_true]
      · have h' : k ∈ keys P := by
          rw [keys_cons', List.mem_cons] at h
          rcases h with h | h
          · exact absurd h e
          · exact h
        simp only [List.cons_append, insert, e, if_false]
        rw [insert_append_right k v P G h']

theorem insert_absent (k : Str) (v : Val) : ∀ (P : Entries), k ∉ keys P →
    insert k v P = P ++ [(k, v)] := by
  intro P h
  have := insert_append_left k v P [] h
  simpa [insert] using this

theorem lookup_append_left (k : Str) : ∀ (P G : Entries), k ∉ keys P →
    lookup k (P ++ G) = lookup k G
  | [], G, _ => rfl
  | (k', v') :: P, G, h => by
      have h' : k ≠ k' ∧ k ∉ keys P := by simpa [keys] using h
      simp only [List.cons_append, lookup, h'.1, if_false]
      exact lookup_append_left k P G h'.2

theorem lookup_append_some (k : Str) (v : Val) : ∀ (P G : Entries), lookup k P = some v →
    lookup k (P ++ G) = some v
  | [], G, h => by simp [lookup] at h
  | (k', v') :: P, G, h => by
      by_cases e : k = k'
      · simpa only [List.cons_append, lookup, e, if_true] using h
      · simp only [List.cons_append, lookup, e, if_false] at h ⊢
        exact lookup_append_some k v P G h

theorem not_mem_keys_of_lookup {k : Str} {l : Entries} (h : lookup k l = none) : k ∉ keys l :=
  (Dec.lookup_eq_none_iff k l).1 h

theorem lookup_none_of_not_mem {k : Str} {l : Entries} (h : k ∉ keys l) : lookup k l = none :=
  (Dec.lookup_eq_none_iff k l).2 h

theorem addChild_append_left (k : Str) (v : Val) (P G : Entries) (h : k ∉ keys P) :
    addChild (P ++ G) k v = P ++ addChild G k v := by
  rw [addChild_eq, addChild_eq, lookup_append_left k P G h, insert_append_left k _ P G h]

theorem addAll_append_left (P : Entries) : ∀ (cs : List (Str × Val)) (G : Entries),
    (∀ e ∈ cs, e.1 ∉ keys P) → addAll (P ++ G) cs = P ++ addAll G cs
  | [], G, _ => rfl
  | e :: cs, G, h => by
      rw [addAll_cons, addAll_cons, addChild_append_left _ _ _ _ (h e (List.mem_cons_self ..))]
      exact addAll_append_left P cs _ (fun e' he' => h e' (List.mem_cons_of_mem _ he'))

theorem addAll_isEmpty : ∀ (cs : List (Str × Val)) (G : Entries),
    (addAll G cs).isEmpty = (G.isEmpty && cs.isEmpty)
  | [], G => by simp [addAll_nil]
  | e :: cs, G => by
      rw [addAll_cons, addAll_isEmpty cs, addChild_ne_nil]
      simp

theorem lookup_addAll_none (k : Str) (cs : List (Str × Val)) (G : Entries)
    (h1 : lookup k G = none) (h2 : ∀ e ∈ cs, e.1 ≠ k) : lookup k (addAll G cs) = none := by
  rw [lookup_addAll, h1]
  have : valsOf k cs = [] := by
    apply valsOf_eq_nil
    intro hm
    obtain ⟨e, he, hk⟩ := List.mem_map.1 hm
    exact h2 e he hk
  rw [this]; rfl

/-- the keys `unrollEntries` skips -/
def dropK (c : SeqCfg) (k : Str) : Bool := k = c.attrK || k = c.seqK || k = c.textK

/-- what one entry unrolls to -/
def unroll1 (k : Str) (v : Val) : List (Str × Val) :=
  match v with
  | .list xs => xs.map (fun x => (k, x))
  | v => [(k, v)]

theorem unrollEntries_cons (c : SeqCfg) (k : Str) (v : Val) (rest : Entries) :
    unrollEntries c ((k, v) :: rest)
      = (if dropK c k then [] else unroll1 k v) ++ unrollEntries c rest := by
  unfold dropK
  by_cases h : (k = c.attrK || k = c.seqK || k = c.textK) = true
  · cases v <;> simp only [unrollEntries, h, if_true, List.nil_append]
  · cases v <;> simp only [unrollEntries, h, if_false, Bool.false_eq_true, unroll1, List.cons_append,
      List.nil_append]

theorem unrollEntries_append (c : SeqCfg) : ∀ (X Y : Entries),
    unrollEntries c (X ++ Y) = unrollEntries c X ++ unrollEntries c Y
  | [], Y => by simp [unrollEntries]
  | (k, v) :: X, Y => by
      rw [List.cons_append, unrollEntries_cons, unrollEntries_cons, unrollEntries_append c X Y,
        List.append_assoc]

theorem unrollEntries_dropped (c : SeqCfg) : ∀ (X : Entries), (∀ k ∈ keys X, dropK c k = true) →
    unrollEntries c X = []
  | [], _ => by simp [unrollEntries]
  | (k, v) :: X, h => by
      rw [unrollEntries_cons, h k (by simp [keys]), if_pos rfl,
        unrollEntries_dropped c X (fun k' hk' => h k' (by simp [keys] at hk' ⊢; exact .inr hk'))]
      rfl

theorem unroll1_promote (k : Str) (old v : Val) :
    unroll1 k (promote (some old) v) = unroll1 k old ++ [(k, v)] := by
  cases old <;> simp [promote, unroll1]

theorem unroll1_nonlist (k : Str) (v : Val) (hv : v.isList = false) : unroll1 k v = [(k, v)] := by
  cases v <;> simp [unroll1, Val.isList] at hv ⊢

theorem unrollEntries_addChild (c : SeqCfg) (k : Str) (v : Val) (hk : dropK c k = false)
    (hv : v.isList = false) : ∀ (na : Entries),
    (unrollEntries c (addChild na k v)).Perm (unrollEntries c na ++ [(k, v)])
  | [] => by
      simp only [addChild, lookup, insert, unrollEntries_cons, hk, unroll1_nonlist k v hv]
      simp [unrollEntries]
  | (k', v') :: rest => by
      rw [addChild_eq]
      by_cases e : k = k'
      · subst e
        simp only [lookup, insert, if_true, unrollEntries_cons, hk, Bool.false_eq_true, if_false,
          unroll1_promote k v' v, List.append_assoc]
        exact List.Perm.append_left _ List.perm_append_comm
      · have ih := unrollEntries_addChild c k v hk hv rest
        rw [addChild_eq] at ih
        simp only [lookup, insert, e, if_false, unrollEntries_cons, List.append_assoc]
        exact List.Perm.append_left _ ih

theorem unrollEntries_addAll (c : SeqCfg) : ∀ (cs : List (Str × Val)) (na : Entries),
    (∀ e ∈ cs, dropK c e.1 = false ∧ e.2.isList = false) →
    (unrollEntries c (addAll na cs)).Perm (unrollEntries c na ++ cs)
  | [], na, _ => by simp [addAll_nil]
  | e :: cs, na, h => by
      rw [addAll_cons]
      have h1 := h e (List.mem_cons_self ..)
      refine (unrollEntries_addAll c cs _ (fun e' he' => h e' (List.mem_cons_of_mem _ he'))).trans ?_
      have := (unrollEntries_addChild c e.1 e.2 h1.1 h1.2 na).append_right cs
      simpa [List.append_assoc] using this

/-! ### (3b) configurations; the decorated children of an element -/

/-- what the round trip needs of a configuration: no decoder-side escaping, no cast, and the
    reserved keys pairwise distinct (the default configuration qualifies: `cfgOk_dflt`) -/
structure CfgOk (c : SeqCfg) : Prop where
  escDec : c.escDec = false
  castOff : c.cast.r = false
  ts : c.textK ≠ c.seqK
  ta : c.textK ≠ c.attrK
  tc : c.textK ≠ c.commentK
  td : c.textK ≠ c.directiveK
  tp : c.textK ≠ c.procinstK
  sa : c.seqK ≠ c.attrK
  sc : c.seqK ≠ c.commentK
  sd : c.seqK ≠ c.directiveK
  sp : c.seqK ≠ c.procinstK
  ac : c.attrK ≠ c.commentK
  ad : c.attrK ≠ c.directiveK
  ap : c.attrK ≠ c.procinstK
  cd : c.commentK ≠ c.directiveK
  cp : c.commentK ≠ c.procinstK
  dp : c.directiveK ≠ c.procinstK
  ti : c.targetK ≠ c.instK
  st : c.seqK ≠ c.targetK
  si : c.seqK ≠ c.instK

theorem cfgOk_dflt : CfgOk seqDflt := by
  constructor <;> decide

theorem cast_off (S : Strconv) (cc : CastCfg) (h : cc.r = false) (s t : Str) :
    cast S cc s t = .str s := by
  unfold cast
  split
  · rfl
  · simp [h]

theorem escDecIf_off (c : SeqCfg) (h : c.escDec = false) (s : Str) : escDecIf c.dec s = s := by
  simp [escDecIf, SeqCfg.dec, h]

theorem seqOf_of_lookup (c : SeqCfg) (kvs : Entries) (n : Nat)
    (h : lookup c.seqK kvs = some (seqNum n)) : seqOf c (.map kvs) = n := by
  have e : seqNum n = .num ('i' :: ':' :: natToStr n) := rfl
  rw [e] at h
  simp only [seqOf, h, natToStr_all, Bool.true_and]
  have : (natToStr n).isEmpty = false := by
    cases hn : natToStr n with
    | nil => exact absurd hn (natToStr_ne_nil n)
    | cons _ _ => rfl
  simp [this, digitsVal_natToStr]

theorem seqChild_form (c : SeqCfg) (hts : c.textK ≠ c.seqK) (seq : Nat) (v : Val) :
    ∃ kvs, seqChild c seq v = .map kvs ∧ lookup c.seqK kvs = some (seqNum seq) := by
  have hst : ¬ c.seqK = c.textK := fun e => hts e.symm
  cases v with
  | map kvs => exact ⟨_, rfl, by rw [lookup_insert]; simp⟩
  | null => exact ⟨_, rfl, by simp [lookup, hst]⟩
  | bool _ => exact ⟨_, rfl, by simp [lookup, hst]⟩
  | num _ => exact ⟨_, rfl, by simp [lookup, hst]⟩
  | str _ => exact ⟨_, rfl, by simp [lookup, hst]⟩
  | list _ => exact ⟨_, rfl, by simp [lookup, hst]⟩

theorem seqOf_seqChild (c : SeqCfg) (hts : c.textK ≠ c.seqK) (seq : Nat) (v : Val) :
    seqOf c (seqChild c seq v) = seq := by
  obtain ⟨kvs, e, h⟩ := seqChild_form c hts seq v
  rw [e]; exact seqOf_of_lookup c kvs seq h

theorem seqChild_not_list (c : SeqCfg) (seq : Nat) (v : Val) : (seqChild c seq v).isList = false := by
  cases v <;> rfl

/-- the value stored for a comment / directive -/
def noteVal (c : SeqCfg) (s : Str) (seq : Nat) : Val := .map [(c.textK, .str s), (c.seqK, seqNum seq)]
/-- the value stored for a processing instruction -/
def piVal (c : SeqCfg) (t i : Str) (seq : Nat) : Val :=
  .map [(c.targetK, .str t), (c.instK, .str i), (c.seqK, seqNum seq)]

theorem seqOf_noteVal (c : SeqCfg) (hts : c.textK ≠ c.seqK) (s : Str) (seq : Nat) :
    seqOf c (noteVal c s seq) = seq := by
  have hst : ¬ c.seqK = c.textK := fun e => hts e.symm
  exact seqOf_of_lookup c _ seq (by simp [lookup, hst])

theorem seqOf_piVal (c : SeqCfg) (h1 : c.seqK ≠ c.targetK) (h2 : c.seqK ≠ c.instK) (t i : Str)
    (seq : Nat) : seqOf c (piVal c t i seq) = seq :=
  seqOf_of_lookup c _ seq (by simp [lookup, h1, h2])

/-- the entries the non-text children of an element contribute, in document order, numbered
    consecutively from `seq` -/
def items (c : SeqCfg) (S : Strconv) : Nat → List Node → List (Str × Val)
  | _, [] => []
  | seq, .elem sp name attrs ks :: rest =>
      (qualName c sp name, seqChild c seq (SeqFold.value c S (.elem sp name attrs ks)))
        :: items c S (seq + 1) rest
  | seq, .text _ :: rest => items c S seq rest
  | seq, .comment s :: rest => (c.commentK, noteVal c s seq) :: items c S (seq + 1) rest
  | seq, .directive s :: rest => (c.directiveK, noteVal c s seq) :: items c S (seq + 1) rest
  | seq, .procinst t i :: rest => (c.procinstK, piVal c t i seq) :: items c S (seq + 1) rest

/-- numbering: the k-th non-text child carries `#seq` = `seq + k` -/
theorem items_seqs (c : SeqCfg) (S : Strconv) (hc : CfgOk c) : ∀ (kids : List Node) (seq : Nat),
    (items c S seq kids).map (fun e => seqOf c e.2) = List.range' seq (items c S seq kids).length
  | [], seq => by simp [items]
  | .elem sp name attrs ks :: rest, seq => by
      simp only [items, List.map_cons, List.length_cons, List.range'_succ, seqOf_seqChild c hc.ts,
        items_seqs c S hc rest (seq + 1)]
  | .text _ :: rest, seq => by simp only [items]; exact items_seqs c S hc rest seq
  | .comment s :: rest, seq => by
      simp only [items, List.map_cons, List.length_cons, List.range'_succ, seqOf_noteVal c hc.ts,
        items_seqs c S hc rest (seq + 1)]
  | .directive s :: rest, seq => by
      simp only [items, List.map_cons, List.length_cons, List.range'_succ, seqOf_noteVal c hc.ts,
        items_seqs c S hc rest (seq + 1)]
  | .procinst t i :: rest, seq => by
      simp only [items, List.map_cons, List.length_cons, List.range'_succ,
        seqOf_piVal c hc.st hc.si, items_seqs c S hc rest (seq + 1)]

theorem items_pairwise (c : SeqCfg) (S : Strconv) (hc : CfgOk c) (kids : List Node) (seq : Nat) :
    (items c S seq kids).Pairwise (fun a b => seqOf c a.2 < seqOf c b.2) := by
  have h : ((items c S seq kids).map (fun e => seqOf c e.2)).Pairwise (· < ·) := by
    rw [items_seqs c S hc]; exact List.pairwise_lt_range'
  exact List.pairwise_map.1 h

theorem items_not_list (c : SeqCfg) (S : Strconv) : ∀ (kids : List Node) (seq : Nat),
    ∀ e ∈ items c S seq kids, e.2.isList = false
  | [], seq, e, h => by simp [items] at h
  | .elem sp name attrs ks :: rest, seq, e, h => by
      simp only [items, List.mem_cons] at h
      rcases h with rfl | h
      · exact seqChild_not_list ..
      · exact items_not_list c S rest _ e h
  | .text _ :: rest, seq, e, h => by
      simp only [items] at h; exact items_not_list c S rest _ e h
  | .comment _ :: rest, seq, e, h => by
      simp only [items, List.mem_cons] at h
      rcases h with rfl | h
      · rfl
      · exact items_not_list c S rest _ e h
  | .directive _ :: rest, seq, e, h => by
      simp only [items, List.mem_cons] at h
      rcases h with rfl | h
      · rfl
      · exact items_not_list c S rest _ e h
  | .procinst _ _ :: rest, seq, e, h => by
      simp only [items, List.mem_cons] at h
      rcases h with rfl | h
      · rfl
      · exact items_not_list c S rest _ e h

/-- the element's own key is not reserved -/
theorem seqDomain_key {c : SeqCfg} {sp name : Str} {attrs : List Attr} {kids : List Node}
    (h : seqDomain c (.elem sp name attrs kids) = true) :
    qualName c sp name ∉ hashKeys c := by
  simp only [seqDomain, Bool.and_eq_true, Bool.not_eq_true', List.contains_eq_mem,
    decide_eq_false_iff_not] at h
  exact h.1.1.1.1.1.1.1

theorem not_hash {c : SeqCfg} {k : Str} (h : k ∉ hashKeys c) :
    k ≠ c.textK ∧ k ≠ c.seqK ∧ k ≠ c.attrK ∧ k ≠ c.commentK ∧ k ≠ c.directiveK ∧ k ≠ c.procinstK := by
  simpa [hashKeys] using h

/-- no child entry sits under the text, sequence or attribute key -/
theorem items_keys (c : SeqCfg) (S : Strconv) (hc : CfgOk c) : ∀ (kids : List Node) (seq : Nat),
    seqDomainKids c kids = true →
    ∀ e ∈ items c S seq kids, e.1 ≠ c.textK ∧ e.1 ≠ c.seqK ∧ e.1 ≠ c.attrK
  | [], seq, _, e, h => by simp [items] at h
  | .elem sp name attrs ks :: rest, seq, hd, e, h => by
      simp only [seqDomainKids, Bool.and_eq_true] at hd
      simp only [items, List.mem_cons] at h
      rcases h with rfl | h
      · have := not_hash (seqDomain_key hd.1)
        exact ⟨this.1, this.2.1, this.2.2.1⟩
      · exact items_keys c S hc rest _ hd.2 e h
  | .text _ :: rest, seq, hd, e, h => by
      simp only [seqDomainKids] at hd
      simp only [items] at h; exact items_keys c S hc rest _ hd e h
  | .comment _ :: rest, seq, hd, e, h => by
      simp only [seqDomainKids] at hd
      simp only [items, List.mem_cons] at h
      rcases h with rfl | h
      · exact ⟨hc.tc.symm, hc.sc.symm, hc.ac.symm⟩
      · exact items_keys c S hc rest _ hd e h
  | .directive _ :: rest, seq, hd, e, h => by
      simp only [seqDomainKids] at hd
      simp only [items, List.mem_cons] at h
      rcases h with rfl | h
      · exact ⟨hc.td.symm, hc.sd.symm, hc.ad.symm⟩
      · exact items_keys c S hc rest _ hd e h
  | .procinst _ _ :: rest, seq, hd, e, h => by
      simp only [seqDomainKids] at hd
      simp only [items, List.mem_cons] at h
      rcases h with rfl | h
      · exact ⟨hc.tp.symm, hc.sp.symm, hc.ap.symm⟩
      · exact items_keys c S hc rest _ hd e h

/-! ### (3c) the fold over children without (non-blank) text is `addAll` of the items -/

def startsText : List Node → Bool
  | .text _ :: _ => true
  | _ => false

theorem onText_blank (c : SeqCfg) (S : Strconv) (hc : CfgOk c) (na : Entries) (seq : Nat) (s : Str)
    (hb : isBlankText c s = true) :
    SeqFold.onText c S na seq none s = (na, seq, some (s, false)) := by
  have : (escDecIf c.dec (trimChars (trimSet c.dec) s)).isEmpty = true := by
    rw [escDecIf_off c hc.escDec]; exact hb
  simp only [SeqFold.onText, List.nil_append, this, if_true]

theorem onText_first (c : SeqCfg) (S : Strconv) (hc : CfgOk c) (na : Entries) (seq : Nat) (s : Str)
    (hb : isBlankText c s = false) :
    SeqFold.onText c S na seq none s
      = (insert c.seqK (seqNum seq) (insert c.textK (.str (seqTrim c s)) na), seq + 1,
          some (s, true)) := by
  have : (trimChars (trimSet c.dec) s).isEmpty = false := hb
  simp only [SeqFold.onText, List.nil_append, escDecIf_off c hc.escDec, this, Bool.false_eq_true,
    if_false, cast_off S c.cast hc.castOff, seqTrim]

theorem addChild_of_none (na : Entries) (k : Str) (v : Val) (h : lookup k na = none) :
    addChild na k v = insert k v na := by
  simp [addChild, h]

theorem noAdjTop_text {s : Str} {rest : List Node} (h : noAdjTop (.text s :: rest) = true) :
    startsText rest = false ∧ noAdjTop rest = true := by
  cases rest with
  | nil => simp [startsText, noAdjTop]
  | cons k r => cases k <;> simp_all [startsText, noAdjTop]

theorem noAdjTop_tail {k : Node} {rest : List Node} (h : noAdjTop (k :: rest) = true) :
    noAdjTop rest = true := by
  cases k with
  | text s => exact (noAdjTop_text h).2
  | elem _ _ _ _ => simpa [noAdjTop] using h
  | comment _ => simpa [noAdjTop] using h
  | directive _ => simpa [noAdjTop] using h
  | procinst _ _ => simpa [noAdjTop] using h

theorem kids'_items (c : SeqCfg) (S : Strconv) (hc : CfgOk c) : ∀ (kids : List Node) (na : Entries)
    (seq : Nat) (pend : Option (Str × Bool)),
    noText c kids = true → noAdjTop kids = true → (pend = none ∨ startsText kids = false) →
    seqDomainKids c kids = true →
    nComments kids ≤ 1 → (0 < nComments kids → lookup c.commentK na = none) →
    nDirectives kids ≤ 1 → (0 < nDirectives kids → lookup c.directiveK na = none) →
    nProcinsts kids ≤ 1 → (0 < nProcinsts kids → lookup c.procinstK na = none) →
    (SeqFold.kids' c S (na, seq, pend) kids).1 = addAll na (items c S seq kids)
  | [], na, seq, pend, _, _, _, _, _, _, _, _, _, _ => by simp [SeqFold.kids', items, addAll_nil]
  | .text s :: rest, na, seq, pend, ht, ha, hp, hd, c1, c2, d1, d2, p1, p2 => by
      simp only [noText, Bool.and_eq_true] at ht
      have hpn : pend = none := by
        rcases hp with h | h
        · exact h
        · simp [startsText] at h
      subst hpn
      have hr := noAdjTop_text ha
      simp only [SeqFold.kids', items, onText_blank c S hc na seq s ht.1]
      exact kids'_items c S hc rest na seq _ ht.2 hr.2 (.inr hr.1) (by simpa [seqDomainKids] using hd)
        (by simpa [nComments] using c1) (by simpa [nComments] using c2)
        (by simpa [nDirectives] using d1) (by simpa [nDirectives] using d2)
        (by simpa [nProcinsts] using p1) (by simpa [nProcinsts] using p2)
  | .elem sp name attrs ks :: rest, na, seq, pend, ht, ha, hp, hd, c1, c2, d1, d2, p1, p2 => by
      simp only [seqDomainKids, Bool.and_eq_true] at hd
      have hk := not_hash (seqDomain_key hd.1)
      simp only [SeqFold.kids', items, addAll_cons]
      refine kids'_items c S hc rest _ (seq + 1) none (by simpa [noText] using ht) (noAdjTop_tail ha)
        (.inl rfl) hd.2 (by simpa [nComments] using c1) ?_ (by simpa [nDirectives] using d1) ?_
        (by simpa [nProcinsts] using p1) ?_
      · intro h; rw [lookup_addChild, if_neg (fun e => hk.2.2.2.1 e.symm)]
        exact c2 (by simpa [nComments] using h)
      · intro h; rw [lookup_addChild, if_neg (fun e => hk.2.2.2.2.1 e.symm)]
        exact d2 (by simpa [nDirectives] using h)
      · intro h; rw [lookup_addChild, if_neg (fun e => hk.2.2.2.2.2 e.symm)]
        exact p2 (by simpa [nProcinsts] using h)
  | .comment t :: rest, na, seq, pend, ht, ha, hp, hd, c1, c2, d1, d2, p1, p2 => by
      simp only [nComments] at c1 c2
      have c0 : nComments rest = 0 := by omega
      simp only [SeqFold.kids', items, addAll_cons, addChild_of_none na _ _ (c2 (by omega)), noteVal]
      refine kids'_items c S hc rest _ (seq + 1) none (by simpa [noText] using ht) (noAdjTop_tail ha)
        (.inl rfl) (by simpa [seqDomainKids] using hd) (by omega) (by omega)
        (by simpa [nDirectives] using d1) ?_ (by simpa [nProcinsts] using p1) ?_
      · intro h; rw [lookup_insert, if_neg hc.cd.symm]
        exact d2 (by simpa [nDirectives] using h)
      · intro h; rw [lookup_insert, if_neg hc.cp.symm]
        exact p2 (by simpa [nProcinsts] using h)
  | .directive t :: rest, na, seq, pend, ht, ha, hp, hd, c1, c2, d1, d2, p1, p2 => by
      simp only [nDirectives] at d1 d2
      have d0 : nDirectives rest = 0 := by omega
      simp only [SeqFold.kids', items, addAll_cons, addChild_of_none na _ _ (d2 (by omega)), noteVal]
      refine kids'_items c S hc rest _ (seq + 1) none (by simpa [noText] using ht) (noAdjTop_tail ha)
        (.inl rfl) (by simpa [seqDomainKids] using hd) (by simpa [nComments] using c1) ?_
        (by omega) (by omega) (by simpa [nProcinsts] using p1) ?_
      · intro h; rw [lookup_insert, if_neg hc.cd]
        exact c2 (by simpa [nComments] using h)
      · intro h; rw [lookup_insert, if_neg hc.dp.symm]
        exact p2 (by simpa [nProcinsts] using h)
  | .procinst t i :: rest, na, seq, pend, ht, ha, hp, hd, c1, c2, d1, d2, p1, p2 => by
      simp only [nProcinsts] at p1 p2
      have p0 : nProcinsts rest = 0 := by omega
      simp only [SeqFold.kids', items, addAll_cons, addChild_of_none na _ _ (p2 (by omega)), piVal]
      refine kids'_items c S hc rest _ (seq + 1) none (by simpa [noText] using ht) (noAdjTop_tail ha)
        (.inl rfl) (by simpa [seqDomainKids] using hd) (by simpa [nComments] using c1) ?_
        (by simpa [nDirectives] using d1) ?_ (by omega) (by omega)
      · intro h; rw [lookup_insert, if_neg hc.cp]
        exact c2 (by simpa [nComments] using h)
      · intro h; rw [lookup_insert, if_neg hc.dp]
        exact d2 (by simpa [nDirectives] using h)

/-! ### (3d) attributes -/

/-- the `#attr` map of an element whose attributes have distinct qualified names -/
def attrEntries (c : SeqCfg) : Nat → List Attr → Entries
  | _, [] => []
  | i, a :: as =>
      (qualName c a.space a.name, .map [(c.textK, .str a.value), (c.seqK, seqNum i)])
        :: attrEntries c (i + 1) as

theorem keys_attrEntries (c : SeqCfg) : ∀ (attrs : List Attr) (i : Nat),
    keys (attrEntries c i attrs) = attrQNames c attrs
  | [], _ => rfl
  | a :: as, i => by
      simp only [attrEntries, keys_cons', attrQNames, List.map_cons, List.cons.injEq, true_and]
      exact keys_attrEntries c as (i + 1)

theorem seqAttrs_eq (c : SeqCfg) (S : Strconv) (hc : CfgOk c) : ∀ (attrs : List Attr) (i : Nat)
    (acc : Entries), distinctStrs (attrQNames c attrs) = true →
    (∀ k ∈ attrQNames c attrs, k ∉ keys acc) →
    seqAttrs c S i attrs acc = acc ++ attrEntries c i attrs
  | [], i, acc, _, _ => by simp [seqAttrs, attrEntries]
  | a :: as, i, acc, hd, hk => by
      simp only [attrQNames, List.map_cons, distinctStrs, Bool.and_eq_true, Bool.not_eq_true',
        List.contains_eq_mem, decide_eq_false_iff_not] at hd
      have h1 : qualName c a.space a.name ∉ keys acc := hk _ (by simp [attrQNames])
      simp only [seqAttrs, attrEntries, escDecIf_off c hc.escDec, cast_off S c.cast hc.castOff,
        insert_absent _ _ acc h1]
      rw [seqAttrs_eq c S hc as (i + 1) _ hd.2]
      · simp
      · intro k hk' hm
        rw [keys_append', List.mem_append] at hm
        rcases hm with hm | hm
        · exact hk k (by simp only [attrQNames, List.map_cons, List.mem_cons]; exact .inr hk') hm
        · simp only [keys, List.map_cons, List.map_nil, List.mem_singleton] at hm
          subst hm
          exact hd.1 hk'

theorem seqInitNa_eq (c : SeqCfg) (S : Strconv) (hc : CfgOk c) (attrs : List Attr)
    (hd : distinctStrs (attrQNames c attrs) = true) :
    seqInitNa c S attrs
      = if attrs.isEmpty then [] else [(c.attrK, .map (attrEntries c 0 attrs))] := by
  unfold seqInitNa
  rw [seqAttrs_eq c S hc attrs 0 [] hd (by simp [keys])]
  simp

theorem attrEntries_seqs (c : SeqCfg) (hc : CfgOk c) : ∀ (attrs : List Attr) (i : Nat),
    (attrEntries c i attrs).map (fun e => seqOf c e.2) = List.range' i attrs.length
  | [], _ => by simp [attrEntries]
  | a :: as, i => by
      have h := seqOf_noteVal c hc.ts a.value i
      unfold noteVal at h
      simp only [attrEntries, List.map_cons, List.length_cons, List.range'_succ, h,
        attrEntries_seqs c hc as (i + 1)]

theorem attrEntries_pairwise (c : SeqCfg) (hc : CfgOk c) (attrs : List Attr) (i : Nat) :
    (attrEntries c i attrs).Pairwise (fun a b => seqOf c a.2 < seqOf c b.2) := by
  have h : ((attrEntries c i attrs).map (fun e => seqOf c e.2)).Pairwise (· < ·) := by
    rw [attrEntries_seqs c hc]; exact List.pairwise_lt_range'
  exact List.pairwise_map.1 h

theorem seqAttrNodes_attrEntries (c : SeqCfg) : ∀ (attrs : List Attr) (i : Nat),
    seqAttrNodes c (attrEntries c i attrs) = .ok (attrs.map (qualAttr c))
  | [], _ => rfl
  | a :: as, i => by
      simp only [attrEntries, seqAttrNodes, seqAttrNode, lookup, if_true,
        seqAttrNodes_attrEntries c as (i + 1), List.map_cons, qualAttr]

/-! ### (3e) the normal form of a decoded element -/

/-- the element's text: the trimmed leading text node, if not blank -/
def leadText (c : SeqCfg) : List Node → Option Str
  | .text s :: _ => if isBlankText c s then none else some (seqTrim c s)
  | _ => none

def textPart (c : SeqCfg) (kids : List Node) : Entries :=
  match leadText c kids with
  | some t => [(c.textK, .str t), (c.seqK, seqNum 0)]
  | none => []

/-- the decorated non-text children: numbered from 1 behind a text, from 0 otherwise -/
def itemsOf (c : SeqCfg) (S : Strconv) (kids : List Node) : List (Str × Val) :=
  items c S (if (leadText c kids).isSome then 1 else 0) kids

structure DomParts (c : SeqCfg) (sp name : Str) (attrs : List Attr) (kids : List Node) : Prop where
  key : qualName c sp name ∉ hashKeys c
  attrs : distinctStrs (attrQNames c attrs) = true
  nc : nComments kids ≤ 1
  nd : nDirectives kids ≤ 1
  np : nProcinsts kids ≤ 1
  adj : noAdjTop kids = true
  tf : textFirst c kids = true
  kids : seqDomainKids c kids = true

theorem seqDomain_parts {c : SeqCfg} {sp name : Str} {attrs : List Attr} {kids : List Node}
    (h : seqDomain c (.elem sp name attrs kids) = true) : DomParts c sp name attrs kids := by
  simp only [seqDomain, Bool.and_eq_true, Bool.not_eq_true', List.contains_eq_mem,
    decide_eq_false_iff_not, decide_eq_true_eq] at h
  obtain ⟨⟨⟨⟨⟨⟨⟨h1, h2⟩, h3⟩, h4⟩, h5⟩, h6⟩, h7⟩, h8⟩ := h
  exact ⟨h1, h2, h3, h4, h5, h6, h7, h8⟩

theorem form_core (c : SeqCfg) (S : Strconv) (hc : CfgOk c) (P : Entries)
    (hP : ∀ k ∈ keys P, k = c.attrK ∨ k = c.textK ∨ k = c.seqK)
    (kids : List Node) (seq : Nat) (pend : Option (Str × Bool))
    (ht : noText c kids = true) (ha : noAdjTop kids = true)
    (hp : pend = none ∨ startsText kids = false) (hd : seqDomainKids c kids = true)
    (c1 : nComments kids ≤ 1) (d1 : nDirectives kids ≤ 1) (p1 : nProcinsts kids ≤ 1) :
    (SeqFold.kids' c S (P, seq, pend) kids).1 = P ++ addAll [] (items c S seq kids) := by
  have hnone : ∀ k, k ≠ c.attrK → k ≠ c.textK → k ≠ c.seqK → lookup k P = none := by
    intro k h1 h2 h3
    apply lookup_none_of_not_mem
    intro hm
    rcases hP k hm with h | h | h
    · exact h1 h
    · exact h2 h
    · exact h3 h
  rw [kids'_items c S hc kids P seq pend ht ha hp hd c1
    (fun _ => hnone _ hc.ac.symm hc.tc.symm hc.sc.symm) d1
    (fun _ => hnone _ hc.ad.symm hc.td.symm hc.sd.symm) p1
    (fun _ => hnone _ hc.ap.symm hc.tp.symm hc.sp.symm)]
  have := addAll_append_left P (items c S seq kids) [] (by
    intro e he hm
    have hk := items_keys c S hc kids seq hd e he
    rcases hP _ hm with h | h | h
    · exact hk.2.2 h
    · exact hk.1 h
    · exact hk.2.1 h)
  rwa [List.append_nil] at this

theorem keys_seqInitNa (c : SeqCfg) (S : Strconv) (attrs : List Attr) :
    ∀ k ∈ keys (seqInitNa c S attrs), k = c.attrK := by
  intro k hk
  unfold seqInitNa at hk
  split at hk
  · simp [keys] at hk
  · simpa [keys] using hk

theorem items_text (c : SeqCfg) (S : Strconv) (seq : Nat) (s : Str) (rest : List Node) :
    items c S seq (.text s :: rest) = items c S seq rest := rfl

/-- goal 2, structural part: `#attr` entry, text entries, grouped children -/
theorem entries_form (c : SeqCfg) (S : Strconv) (hc : CfgOk c) (sp name : Str) (attrs : List Attr)
    (kids : List Node) (hd : seqDomain c (.elem sp name attrs kids) = true) :
    (SeqFold.kids' c S (seqInitNa c S attrs, 0, none) kids).1
      = seqInitNa c S attrs ++ textPart c kids ++ addAll [] (itemsOf c S kids) := by
  have dp := seqDomain_parts hd
  have hA := keys_seqInitNa c S attrs
  have hA' : ∀ k ∈ keys (seqInitNa c S attrs), k = c.attrK ∨ k = c.textK ∨ k = c.seqK :=
    fun k hk => .inl (hA k hk)
  have generic : startsText kids = false →
      (SeqFold.kids' c S (seqInitNa c S attrs, 0, none) kids).1
        = seqInitNa c S attrs ++ textPart c kids ++ addAll [] (itemsOf c S kids) := by
    intro hs
    have hl : leadText c kids = none := by
      cases kids with
      | nil => rfl
      | cons k r => cases k <;> simp_all [startsText, leadText]
    have htf : noText c kids = true := by
      have := dp.tf
      cases kids with
      | nil => rfl
      | cons k r => cases k <;> simp_all [startsText, textFirst]
    rw [form_core c S hc _ hA' kids 0 none htf dp.adj (.inl rfl) dp.kids dp.nc dp.nd dp.np]
    simp [textPart, itemsOf, hl]
  cases kids with
  | nil => exact generic rfl
  | cons k rest =>
    cases k with
    | elem _ _ _ _ => exact generic rfl
    | comment _ => exact generic rfl
    | directive _ => exact generic rfl
    | procinst _ _ => exact generic rfl
    | text s =>
      have htf : noText c rest = true := by simpa [textFirst] using dp.tf
      have hadj := noAdjTop_text dp.adj
      have hk : seqDomainKids c rest = true := by simpa [seqDomainKids] using dp.kids
      have c1 : nComments rest ≤ 1 := by simpa [nComments] using dp.nc
      have d1 : nDirectives rest ≤ 1 := by simpa [nDirectives] using dp.nd
      have p1 : nProcinsts rest ≤ 1 := by simpa [nProcinsts] using dp.np
      by_cases hb : isBlankText c s = true
      · simp only [SeqFold.kids', onText_blank c S hc _ 0 s hb]
        rw [form_core c S hc _ hA' rest 0 _ htf hadj.2 (.inr hadj.1) hk c1 d1 p1]
        simp [textPart, itemsOf, leadText, hb, items_text]
      · have hb' : isBlankText c s = false := by simpa using hb
        have ht1 : c.textK ∉ keys (seqInitNa c S attrs) := fun hm => hc.ta (hA _ hm)
        have hs1 : c.seqK ∉ keys (seqInitNa c S attrs ++ [(c.textK, .str (seqTrim c s))]) := by
          rw [keys_append', List.mem_append]
          rintro (hm | hm)
          · exact hc.sa (hA _ hm)
          · simp only [keys, List.map_cons, List.map_nil, List.mem_singleton] at hm
            exact hc.ts hm.symm
        simp only [SeqFold.kids', onText_first c S hc _ 0 s hb', insert_absent _ _ _ ht1,
          insert_absent _ _ _ hs1]
        rw [form_core c S hc _ ?_ rest 1 _ htf hadj.2 (.inr hadj.1) hk c1 d1 p1]
        · simp [textPart, itemsOf, leadText, hb', items_text]
        · intro k hm
          rw [keys_append', keys_append', List.mem_append, List.mem_append] at hm
          rcases hm with (hm | hm) | hm
          · exact .inl (hA k hm)
          · exact .inr (.inl (by simpa [keys] using hm))
          · exact .inr (.inr (by simpa [keys] using hm))

/-! ### (4a) the encoder on a map, staged -/

/-- `seqEncTree` on a map after the attributes have been read -/
def encBody (key : Str) (as : List Attr) (hv seqOK : Bool) (n : Nat) (ot : Option Val)
    (ko : Outcome (List Node)) : Outcome (List Node) :=
  match ot with
  | some tv =>
    if ((n = 3 && hv) || (n = 2 && !hv)) && seqOK then
      match fmtV tv with
      | some t => .ok [.elem [] key as (textKid t)]
      | none => .err .other
    else
      match fmtV tv, ko with
      | some t, .ok kids => .ok [.elem [] key as (textKid t ++ kids)]
      | none, _ => .err .other
      | _, o => o
  | none =>
    if ((n = 2 && hv) || (n = 1 && !hv)) && seqOK then .ok [.elem [] key as []]
    else match ko with
      | .ok kids => .ok [.elem [] key as kids]
      | o => o

theorem seqEncTree_map_noattr (c : SeqCfg) (f : Nat) (key : Str) (val : Entries)
    (h1 : key ≠ c.commentK) (h2 : key ≠ c.directiveK) (h3 : key ≠ c.procinstK)
    (ha : lookup c.attrK val = none) :
    seqEncTree c (f + 1) key (.map val)
      = encBody key [] false (lookup c.seqK val).isSome val.length (lookup c.textK val)
          (seqKidsTree c f (sortBySeq c (unrollEntries c val))) := by
  simp only [seqEncTree, h1, h2, h3, if_false, ha, encBody]
  rfl

theorem seqEncTree_map_attr (c : SeqCfg) (f : Nat) (key : Str) (val av : Entries) (as : List Attr)
    (h1 : key ≠ c.commentK) (h2 : key ≠ c.directiveK) (h3 : key ≠ c.procinstK)
    (ha : lookup c.attrK val = some (.map av))
    (has : seqAttrNodes c (sortBySeq c av) = .ok as) :
    seqEncTree c (f + 1) key (.map val)
      = encBody key as true (lookup c.seqK val).isSome val.length (lookup c.textK val)
          (seqKidsTree c f (sortBySeq c (unrollEntries c val))) := by
  simp only [seqEncTree, h1, h2, h3, if_false, ha, has, encBody]
  rfl

theorem encBody_text (key : Str) (as : List Attr) (hv : Bool) (a g : Nat) (t : Str)
    (K : List Node) (ha : a = 0 ∨ a = 1) (hh : hv = decide (a = 1)) (ht : t ≠ [])
    (hK : g = 0 → K = []) :
    encBody key as hv true (a + 2 + g) (some (.str t)) (.ok K)
      = .ok [.elem [] key as (.text t :: K)] := by
  have hte : t.isEmpty = false := by cases t <;> simp_all
  rcases ha with rfl | rfl <;> subst hh <;> rcases g with _ | g
  · simp [encBody, fmtV, textKid, hte, hK rfl]
  · simp [encBody, fmtV, textKid, hte]
  · simp [encBody, fmtV, textKid, hte, hK rfl]
  · simp [encBody, fmtV, textKid, hte]

theorem encBody_none (key : Str) (as : List Attr) (hv sq : Bool) (a g : Nat)
    (K : List Node) (ha : a = 0 ∨ a = 1) (hh : hv = decide (a = 1)) (hK : g = 0 → K = []) :
    encBody key as hv sq (a + g + (if sq then 1 else 0)) none (.ok K)
      = .ok [.elem [] key as K] := by
  rcases ha with rfl | rfl <;> subst hh <;> rcases g with _ | g <;> cases sq <;>
    simp [encBody] <;> first | exact (hK rfl) | exact (hK rfl).symm | omega

theorem encBody_empty (key : Str) (ko : Outcome (List Node)) :
    encBody key [] false true 2 (some (.str [])) ko = .ok [.elem [] key [] []] := by
  simp [encBody, fmtV, textKid]

/-! ### (4b) what the encoder sees of a decoded element's map -/

theorem lookup_append_none (k : Str) : ∀ (P G : Entries), lookup k G = none →
    lookup k (P ++ G) = lookup k P
  | [], G, h => by simpa [lookup] using h
  | (k', v') :: P, G, h => by
      by_cases e : k = k'
      · simp only [List.cons_append, lookup, e, if_true]
      · simp only [List.cons_append, lookup, e, if_false]
        exact lookup_append_none k P G h

theorem length_insert (k : Str) (v : Val) : ∀ (l : Entries),
    (insert k v l).length = l.length + (if (lookup k l).isSome then 0 else 1)
  | [] => by simp [insert, lookup]
  | (k', v') :: l => by
      by_cases e : k = k'
      · simp [insert, lookup, e]
      · simp only [insert, lookup, e, if_false, List.length_cons, length_insert k v l]
        omega

theorem unrollEntries_insert_dropped (c : SeqCfg) (k : Str) (v : Val) (hk : dropK c k = true) :
    ∀ (l : Entries), unrollEntries c (insert k v l) = unrollEntries c l
  | [] => by simp [insert, unrollEntries_cons, hk]
  | (k', v') :: l => by
      by_cases e : k = k'
      · subst e
        simp only [insert, if_true, unrollEntries_cons, hk]
      · simp only [insert, e, if_false, unrollEntries_cons,
          unrollEntries_insert_dropped c k v hk l]

structure View (c : SeqCfg) (val P G : Entries) (sq : Bool) (n : Nat) : Prop where
  attr : lookup c.attrK val = lookup c.attrK P
  text : lookup c.textK val = lookup c.textK P
  seq : (lookup c.seqK val).isSome = sq
  len : val.length = n
  unroll : unrollEntries c val = unrollEntries c G

theorem view_root (c : SeqCfg) (P G : Entries)
    (hGt : lookup c.textK G = none) (hGs : lookup c.seqK G = none) (hGa : lookup c.attrK G = none)
    (hP : ∀ k ∈ keys P, dropK c k = true) :
    View c (P ++ G) P G (lookup c.seqK P).isSome (P.length + G.length) where
  attr := lookup_append_none _ P G hGa
  text := lookup_append_none _ P G hGt
  seq := by rw [lookup_append_none _ P G hGs]
  len := by simp
  unroll := by rw [unrollEntries_append, unrollEntries_dropped c P hP]; rfl

theorem view_child (c : SeqCfg) (hc : CfgOk c) (P G : Entries) (v : Val)
    (hGt : lookup c.textK G = none) (hGs : lookup c.seqK G = none) (hGa : lookup c.attrK G = none)
    (hP : ∀ k ∈ keys P, dropK c k = true) :
    View c (insert c.seqK v (P ++ G)) P G true
      (P.length + G.length + (if (lookup c.seqK P).isSome then 0 else 1)) where
  attr := by rw [lookup_insert, if_neg hc.sa.symm]; exact lookup_append_none _ P G hGa
  text := by rw [lookup_insert, if_neg hc.ts]; exact lookup_append_none _ P G hGt
  seq := by rw [lookup_insert]; simp
  len := by rw [length_insert, lookup_append_none _ P G hGs]; simp
  unroll := by
    rw [unrollEntries_insert_dropped c _ _ (by simp [dropK]), unrollEntries_append,
      unrollEntries_dropped c P hP]; rfl

theorem enc_of_view (c : SeqCfg) (f : Nat) (key : Str) (val P G : Entries) (sq : Bool) (n : Nat)
    (h1 : key ≠ c.commentK) (h2 : key ≠ c.directiveK) (h3 : key ≠ c.procinstK)
    (V : View c val P G sq n) (as : List Attr) (hv : Bool)
    (hAttr : (lookup c.attrK P = none ∧ as = [] ∧ hv = false)
      ∨ (∃ av, lookup c.attrK P = some (.map av) ∧ seqAttrNodes c (sortBySeq c av) = .ok as
          ∧ hv = true))
    (its : List (Str × Val)) (K : List Node)
    (hsort : sortBySeq c (unrollEntries c G) = its) (hK : seqKidsTree c f its = .ok K) :
    seqEncTree c (f + 1) key (.map val) = encBody key as hv sq n (lookup c.textK P) (.ok K) := by
  rcases hAttr with ⟨ha, rfl, rfl⟩ | ⟨av, ha, has, rfl⟩
  · rw [seqEncTree_map_noattr c f key val h1 h2 h3 (V.attr.trans ha), V.seq, V.len, V.text,
      V.unroll, hsort, hK]
  · rw [seqEncTree_map_attr c f key val av as h1 h2 h3 (V.attr.trans ha) has, V.seq, V.len, V.text,
      V.unroll, hsort, hK]

/-- the text entries of a decoded element -/
def textEntries (c : SeqCfg) (ot : Option Str) : Entries :=
  match ot with
  | some t => [(c.textK, .str t), (c.seqK, seqNum 0)]
  | none => []

def textNodes (ot : Option Str) : List Node :=
  match ot with
  | some t => [.text t]
  | none => []

/-- the encoder on the normal form `A ++ T ++ G` of a decoded element (as the root and as a
    child carrying sequence number `n`) -/
theorem enc_val (c : SeqCfg) (hc : CfgOk c) (f : Nat) (key : Str) (hkey : key ∉ hashKeys c)
    (A : Entries) (as : List Attr)
    (hA : (A = [] ∧ as = [])
      ∨ (∃ av, A = [(c.attrK, .map av)] ∧ seqAttrNodes c (sortBySeq c av) = .ok as))
    (ot : Option Str) (hot : ∀ t, ot = some t → t ≠ [])
    (G : Entries) (its : List (Str × Val)) (K : List Node)
    (hGt : lookup c.textK G = none) (hGs : lookup c.seqK G = none) (hGa : lookup c.attrK G = none)
    (hsort : sortBySeq c (unrollEntries c G) = its)
    (hK : seqKidsTree c f its = .ok K) (hGe : G = [] → its = []) :
    seqEncTree c (f + 1) key (SeqFold.finish (A ++ textEntries c ot ++ G))
        = .ok [.elem [] key as (textNodes ot ++ K)]
    ∧ ∀ n, seqEncTree c (f + 1) key (seqChild c n (SeqFold.finish (A ++ textEntries c ot ++ G)))
        = .ok [.elem [] key as (textNodes ot ++ K)] := by
  have hk := not_hash hkey
  have hK0 : G.length = 0 → K = [] := by
    intro h
    have hG : G = [] := List.eq_nil_of_length_eq_zero h
    rw [hGe hG] at hK
    simp only [seqKidsTree] at hK
    cases hK; rfl
  -- the prefix P = A ++ T
  have hP : ∀ k ∈ keys (A ++ textEntries c ot), dropK c k = true := by
    intro k hm
    rw [keys_append', List.mem_append] at hm
    rcases hm with hm | hm
    · rcases hA with ⟨rfl, _⟩ | ⟨av, rfl, _⟩
      · simp [keys] at hm
      · simp only [keys, List.map_cons, List.map_nil, List.mem_singleton] at hm
        simp [dropK, hm]
    · cases ot with
      | none => simp [textEntries, keys] at hm
      | some t =>
        simp only [textEntries, keys, List.map_cons, List.map_nil, List.mem_cons,
          List.not_mem_nil, or_false] at hm
        rcases hm with hm | hm <;> simp [dropK, hm]
  -- the attribute view
  obtain ⟨a, ha01, hlen, hAttr⟩ : ∃ a : Nat, (a = 0 ∨ a = 1) ∧ A.length = a ∧
      ((lookup c.attrK (A ++ textEntries c ot) = none ∧ as = [] ∧ decide (a = 1) = false)
      ∨ (∃ av, lookup c.attrK (A ++ textEntries c ot) = some (.map av)
          ∧ seqAttrNodes c (sortBySeq c av) = .ok as ∧ decide (a = 1) = true)) := by
    rcases hA with ⟨rfl, rfl⟩ | ⟨av, rfl, has⟩
    · refine ⟨0, .inl rfl, rfl, .inl ⟨?_, rfl, by decide⟩⟩
      cases ot <;> simp [textEntries, lookup, hc.ta.symm, hc.sa.symm]
    · exact ⟨1, .inr rfl, rfl, .inr ⟨av, by simp [lookup], has, by decide⟩⟩
  rw [List.append_assoc] at *
  cases ot with
  | some t =>
    have ht := hot t rfl
    have hne : (A ++ (textEntries c (some t) ++ G)).isEmpty = false := by
      cases A <;> simp [textEntries]
    have hlt : lookup c.textK (A ++ textEntries c (some t)) = some (.str t) := by
      rcases hA with ⟨rfl, _⟩ | ⟨av, rfl, _⟩ <;> simp [textEntries, lookup, hc.ta]
    have hls : (lookup c.seqK (A ++ textEntries c (some t))).isSome = true := by
      rcases hA with ⟨rfl, _⟩ | ⟨av, rfl, _⟩ <;>
        simp [textEntries, lookup, hc.sa, hc.ts.symm]
    have hPl : (A ++ textEntries c (some t)).length = a + 2 := by
      simp [textEntries, hlen]
    simp only [SeqFold.finish, hne, Bool.false_eq_true, if_false, seqChild]
    rw [← List.append_assoc]
    constructor
    · have V := view_root c (A ++ textEntries c (some t)) G hGt hGs hGa hP
      rw [enc_of_view c f key _ _ _ _ _ hk.2.2.2.1 hk.2.2.2.2.1 hk.2.2.2.2.2 V as _ hAttr its K
        hsort hK, hlt, hls, hPl]
      exact encBody_text key as _ a G.length t K ha01 rfl ht hK0
    · intro n
      have V := view_child c hc (A ++ textEntries c (some t)) G (seqNum n) hGt hGs hGa hP
      rw [enc_of_view c f key _ _ _ _ _ hk.2.2.2.1 hk.2.2.2.2.1 hk.2.2.2.2.2 V as _ hAttr its K
        hsort hK, hlt, hls, hPl]
      exact encBody_text key as _ a G.length t K ha01 rfl ht hK0
  | none =>
    have hlt : lookup c.textK (A ++ textEntries c none) = none := by
      rcases hA with ⟨rfl, _⟩ | ⟨av, rfl, _⟩ <;> simp [textEntries, lookup, hc.ta]
    have hls : (lookup c.seqK (A ++ textEntries c none)).isSome = false := by
      rcases hA with ⟨rfl, _⟩ | ⟨av, rfl, _⟩ <;> simp [textEntries, lookup, hc.sa]
    have hPl : (A ++ textEntries c none).length = a := by simp [textEntries, hlen]
    by_cases hne : (A ++ (textEntries c none ++ G)).isEmpty = true
    · -- nothing at all: the empty string
      have hAG : A = [] ∧ G = [] := by
        simpa [textEntries] using hne
      have hfin : SeqFold.finish (A ++ (textEntries c none ++ G)) = .str [] := by
        simp only [SeqFold.finish, hne, if_true]
      rw [hfin]
      obtain ⟨rfl, rfl⟩ := hAG
      have has : as = [] := by
        rcases hA with ⟨_, h⟩ | ⟨av, h, _⟩
        · exact h
        · cases h
      subst has
      have hK' : K = [] := hK0 rfl
      subst hK'
      simp only [seqChild, textNodes, List.append_nil]
      constructor
      · simp [seqEncTree, textKid]
      · intro n
        rw [seqEncTree_map_noattr c f key _ hk.2.2.2.1 hk.2.2.2.2.1 hk.2.2.2.2.2
          (by simp [lookup, hc.ta.symm, hc.sa.symm])]
        simp [lookup, hc.ts.symm, encBody_empty]
    · simp only [SeqFold.finish, hne, Bool.false_eq_true, if_false, seqChild]
      rw [← List.append_assoc]
      constructor
      · have V := view_root c (A ++ textEntries c none) G hGt hGs hGa hP
        rw [enc_of_view c f key _ _ _ _ _ hk.2.2.2.1 hk.2.2.2.2.1 hk.2.2.2.2.2 V as _ hAttr its K
          hsort hK, hlt, hls, hPl]
        have := encBody_none key as (decide (a = 1)) false a G.length K ha01 rfl hK0
        simpa [textNodes] using this
      · intro n
        have V := view_child c hc (A ++ textEntries c none) G (seqNum n) hGt hGs hGa hP
        rw [enc_of_view c f key _ _ _ _ _ hk.2.2.2.1 hk.2.2.2.2.1 hk.2.2.2.2.2 V as _ hAttr its K
          hsort hK, hlt, hls, hPl]
        have := encBody_none key as (decide (a = 1)) true a G.length K ha01 rfl hK0
        simpa [textNodes] using this

/-! ### (4c) normal forms of trees -/

/-- the children that are not text nodes -/
def dropText : List Node → List Node
  | [] => []
  | .text _ :: r => dropText r
  | k :: r => k :: dropText r

theorem norm_noText (c : SeqCfg) : ∀ (ks : List Node), noText c ks = true →
    normalizeKidsC c ks = normalizeKidsC c (dropText ks)
  | [], _ => rfl
  | .text s :: r, h => by
      simp only [noText, Bool.and_eq_true, isBlankText] at h
      simp only [normalizeKidsC, h.1, if_true, dropText]
      exact norm_noText c r h.2
  | .elem _ _ _ _ :: r, h => by
      simp only [noText] at h
      simp only [normalizeKidsC, dropText, norm_noText c r h]
  | .comment _ :: r, h => by
      simp only [noText] at h
      simp only [normalizeKidsC, dropText, norm_noText c r h]
  | .directive _ :: r, h => by
      simp only [noText] at h
      simp only [normalizeKidsC, dropText, norm_noText c r h]
  | .procinst _ _ :: r, h => by
      simp only [noText] at h
      simp only [normalizeKidsC, dropText, norm_noText c r h]

theorem norm_split (c : SeqCfg) (kids : List Node) (h : textFirst c kids = true) :
    normalizeKidsC c kids = textNodes (leadText c kids) ++ normalizeKidsC c (dropText kids) := by
  cases kids with
  | nil => rfl
  | cons k r =>
    cases k with
    | text s =>
      simp only [textFirst] at h
      by_cases hb : isBlankText c s = true
      · have hb' := hb
        simp only [isBlankText] at hb'
        simp only [normalizeKidsC, hb', if_true, leadText, hb, textNodes, dropText, List.nil_append]
        exact norm_noText c r h
      · have hb1 : isBlankText c s = false := by simpa using hb
        have hb' := hb1
        simp only [isBlankText] at hb'
        simp only [normalizeKidsC, hb', Bool.false_eq_true, if_false, leadText, hb1, textNodes,
          dropText, List.cons_append, List.nil_append, norm_noText c r h]
    | elem _ _ _ _ => simpa [leadText, textNodes] using norm_noText c _ (by simpa [textFirst] using h)
    | comment _ => simpa [leadText, textNodes] using norm_noText c _ (by simpa [textFirst] using h)
    | directive _ => simpa [leadText, textNodes] using norm_noText c _ (by simpa [textFirst] using h)
    | procinst _ _ => simpa [leadText, textNodes] using norm_noText c _ (by simpa [textFirst] using h)

theorem qualifyKids_append (c : SeqCfg) : ∀ (X Y : List Node),
    qualifyKids c (X ++ Y) = qualifyKids c X ++ qualifyKids c Y
  | [], _ => rfl
  | x :: X, Y => by simp only [List.cons_append, qualifyKids, qualifyKids_append c X Y]

theorem qualifyKids_textNodes (c : SeqCfg) (ot : Option Str) :
    qualifyKids c (textNodes ot) = textNodes ot := by
  cases ot <;> simp [textNodes, qualifyKids, qualify]

theorem leadText_ne_nil (c : SeqCfg) (kids : List Node) (t : Str) (h : leadText c kids = some t) :
    t ≠ [] := by
  cases kids with
  | nil => simp [leadText] at h
  | cons k r =>
    cases k with
    | text s =>
      simp only [leadText] at h
      split at h
      · cases h
      · rename_i hb
        cases h
        intro e
        apply hb
        simp [isBlankText, e]
    | elem _ _ _ _ => simp [leadText] at h
    | comment _ => simp [leadText] at h
    | directive _ => simp [leadText] at h
    | procinst _ _ => simp [leadText] at h

theorem height_pos : ∀ (t : Node), 1 ≤ t.height
  | .elem _ _ _ _ => by simp [Node.height]
  | .text _ => by simp [Node.height]
  | .comment _ => by simp [Node.height]
  | .directive _ => by simp [Node.height]
  | .procinst _ _ => by simp [Node.height]

theorem seqKidsTree_cons_ok (c : SeqCfg) (f : Nat) (k : Str) (v : Val) (rest : List (Str × Val))
    (a r : List Node) (h1 : seqEncTree c f k v = .ok a) (h2 : seqKidsTree c f rest = .ok r) :
    seqKidsTree c f ((k, v) :: rest) = .ok (a ++ r) := by
  simp only [seqKidsTree, h1, h2]

/-! ### (4d) the round trip along the tree -/

mutual
theorem enc_tree (c : SeqCfg) (S : Strconv) (hc : CfgOk c) : ∀ (t : Node),
    match t with
    | .elem sp name _ _ => seqDomain c t = true → ∀ f, t.height + 1 ≤ f →
        seqEncTree c f (qualName c sp name) (SeqFold.value c S t)
            = .ok [qualify c (normalizeC c t)]
        ∧ ∀ n, seqEncTree c f (qualName c sp name) (seqChild c n (SeqFold.value c S t))
            = .ok [qualify c (normalizeC c t)]
    | _ => True
  | .elem sp name attrs kids => by
      intro hd f hf
      have dp := seqDomain_parts hd
      simp only [Node.height] at hf
      obtain ⟨f, rfl⟩ : ∃ g, f = g + 1 := ⟨f - 1, by omega⟩
      have hKids := enc_kids c S hc kids dp.kids
        (if (leadText c kids).isSome then 1 else 0) f (by omega)
      have hkeys := items_keys c S hc kids (if (leadText c kids).isSome then 1 else 0) dp.kids
      have hnone : ∀ k, (∀ e ∈ itemsOf c S kids, e.1 ≠ k) →
          lookup k (addAll [] (itemsOf c S kids)) = none :=
        fun k h => lookup_addAll_none k _ [] rfl h
      have hperm : (unrollEntries c (addAll [] (itemsOf c S kids))).Perm (itemsOf c S kids) := by
        have := unrollEntries_addAll c (itemsOf c S kids) [] (fun e he =>
          ⟨by have := hkeys e he; simp [dropK, this.1, this.2.1, this.2.2],
           items_not_list c S kids _ e he⟩)
        simpa [unrollEntries] using this
      have hA : (seqInitNa c S attrs = [] ∧ attrs.map (qualAttr c) = [])
          ∨ (∃ av, seqInitNa c S attrs = [(c.attrK, .map av)]
              ∧ seqAttrNodes c (sortBySeq c av) = .ok (attrs.map (qualAttr c))) := by
        rw [seqInitNa_eq c S hc attrs dp.attrs]
        cases attrs with
        | nil => exact .inl ⟨rfl, rfl⟩
        | cons a as =>
          refine .inr ⟨_, rfl, ?_⟩
          rw [sortBySeq_of_sorted c _ (attrEntries_pairwise c hc _ 0), seqAttrNodes_attrEntries]
      have main := enc_val c hc f (qualName c sp name) dp.key (seqInitNa c S attrs)
        (attrs.map (qualAttr c)) hA (leadText c kids) (leadText_ne_nil c kids)
        (addAll [] (itemsOf c S kids)) (itemsOf c S kids)
        (qualifyKids c (normalizeKidsC c (dropText kids)))
        (hnone _ (fun e he => (hkeys e he).1)) (hnone _ (fun e he => (hkeys e he).2.1))
        (hnone _ (fun e he => (hkeys e he).2.2))
        (sortBySeq_inverts_perm c _ _ hperm (items_pairwise c S hc kids _))
        hKids
        (by
          intro hG
          have := addAll_isEmpty (itemsOf c S kids) []
          rw [hG] at this
          simpa using this.symm)
      have hval : SeqFold.value c S (.elem sp name attrs kids)
          = SeqFold.finish (seqInitNa c S attrs ++ textEntries c (leadText c kids)
              ++ addAll [] (itemsOf c S kids)) := by
        simp only [SeqFold.value]
        rw [entries_form c S hc sp name attrs kids hd]
        rfl
      have hout : qualify c (normalizeC c (.elem sp name attrs kids))
          = .elem [] (qualName c sp name) (attrs.map (qualAttr c))
              (textNodes (leadText c kids) ++ qualifyKids c (normalizeKidsC c (dropText kids))) := by
        simp only [normalizeC, qualify, norm_split c kids dp.tf, qualifyKids_append,
          qualifyKids_textNodes]
      rw [hval, hout]
      exact main
  | .text _ => trivial
  | .comment _ => trivial
  | .procinst _ _ => trivial
  | .directive _ => trivial
theorem enc_kids (c : SeqCfg) (S : Strconv) (hc : CfgOk c) : ∀ (kids : List Node),
    seqDomainKids c kids = true → ∀ (seq f : Nat), Node.heightKids kids + 1 ≤ f →
    seqKidsTree c f (items c S seq kids)
      = .ok (qualifyKids c (normalizeKidsC c (dropText kids)))
  | [], _, seq, f, _ => by simp [items, seqKidsTree, dropText, normalizeKidsC, qualifyKids]
  | .text s :: rest, hd, seq, f, hf => by
      simp only [Node.heightKids] at hf
      simp only [items, dropText]
      exact enc_kids c S hc rest (by simpa [seqDomainKids] using hd) seq f (by omega)
  | .elem sp name attrs ks :: rest, hd, seq, f, hf => by
      simp only [Node.heightKids] at hf
      simp only [seqDomainKids, Bool.and_eq_true] at hd
      have h1 := enc_tree c S hc (.elem sp name attrs ks)
      simp only at h1
      have h1' := (h1 hd.1 f (by omega)).2 seq
      have h2 := enc_kids c S hc rest hd.2 (seq + 1) f (by omega)
      simp only [items, dropText, normalizeKidsC, qualifyKids]
      exact seqKidsTree_cons_ok c f _ _ _ _ _ h1' h2
  | .comment s :: rest, hd, seq, f, hf => by
      simp only [Node.heightKids, Node.height] at hf
      obtain ⟨f, rfl⟩ : ∃ g, f = g + 1 := ⟨f - 1, by omega⟩
      have h2 := enc_kids c S hc rest (by simpa [seqDomainKids] using hd) (seq + 1) (f + 1) (by omega)
      simp only [items, dropText, normalizeKidsC, qualifyKids, normalizeC, qualify]
      refine seqKidsTree_cons_ok c (f + 1) _ _ _ [.comment s] _ ?_ h2
      simp [seqEncTree, noteVal, lookup, strOf]
  | .directive s :: rest, hd, seq, f, hf => by
      simp only [Node.heightKids, Node.height] at hf
      obtain ⟨f, rfl⟩ : ∃ g, f = g + 1 := ⟨f - 1, by omega⟩
      have h2 := enc_kids c S hc rest (by simpa [seqDomainKids] using hd) (seq + 1) (f + 1) (by omega)
      simp only [items, dropText, normalizeKidsC, qualifyKids, normalizeC, qualify]
      refine seqKidsTree_cons_ok c (f + 1) _ _ _ [.directive s] _ ?_ h2
      simp [seqEncTree, noteVal, lookup, strOf, hc.cd.symm]
  | .procinst t i :: rest, hd, seq, f, hf => by
      simp only [Node.heightKids, Node.height] at hf
      obtain ⟨f, rfl⟩ : ∃ g, f = g + 1 := ⟨f - 1, by omega⟩
      have h2 := enc_kids c S hc rest (by simpa [seqDomainKids] using hd) (seq + 1) (f + 1) (by omega)
      simp only [items, dropText, normalizeKidsC, qualifyKids, normalizeC, qualify]
      refine seqKidsTree_cons_ok c (f + 1) _ _ _ [.procinst t i] _ ?_ h2
      simp [seqEncTree, piVal, lookup, strOf, hc.cp.symm, hc.dp.symm, hc.ti.symm]
end

/-! ### (5) the decoded form, stated for Props -/

/-- the entries of the map the decoder builds for an element (before `finish`) -/
def decodedEntries (c : SeqCfg) (S : Strconv) (attrs : List Attr) (kids : List Node) : Entries :=
  (SeqFold.kids' c S (seqInitNa c S attrs, 0, none) kids).1

theorem value_eq_finish (c : SeqCfg) (S : Strconv) (sp name : Str) (attrs : List Attr)
    (kids : List Node) :
    SeqFold.value c S (.elem sp name attrs kids) = SeqFold.finish (decodedEntries c S attrs kids) := by
  simp only [SeqFold.value, decodedEntries]

theorem decodedEntries_form (c : SeqCfg) (S : Strconv) (hc : CfgOk c) (sp name : Str)
    (attrs : List Attr) (kids : List Node) (hd : seqDomain c (.elem sp name attrs kids) = true) :
    decodedEntries c S attrs kids
      = (if attrs.isEmpty then [] else [(c.attrK, .map (attrEntries c 0 attrs))])
        ++ textEntries c (leadText c kids) ++ addAll [] (itemsOf c S kids) := by
  unfold decodedEntries
  rw [entries_form c S hc sp name attrs kids hd, seqInitNa_eq c S hc attrs (seqDomain_parts hd).attrs]
  rfl

theorem itemsOf_unrolled (c : SeqCfg) (S : Strconv) (hc : CfgOk c) (sp name : Str)
    (attrs : List Attr) (kids : List Node) (hd : seqDomain c (.elem sp name attrs kids) = true) :
    (unrollEntries c (decodedEntries c S attrs kids)).Perm (itemsOf c S kids) := by
  have dp := seqDomain_parts hd
  have hkeys := items_keys c S hc kids (if (leadText c kids).isSome then 1 else 0) dp.kids
  rw [decodedEntries_form c S hc sp name attrs kids hd, unrollEntries_append, unrollEntries_append]
  have h1 : unrollEntries c (if attrs.isEmpty then [] else [(c.attrK, .map (attrEntries c 0 attrs))])
      = [] := by
    split
    · rfl
    · simp [unrollEntries]
  have h2 : unrollEntries c (textEntries c (leadText c kids)) = [] := by
    cases leadText c kids <;> simp [textEntries, unrollEntries_cons, dropK, unrollEntries]
  rw [h1, h2]
  have := unrollEntries_addAll c (itemsOf c S kids) [] (fun e he =>
    ⟨by have := hkeys e he; simp [dropK, this.1, this.2.1, this.2.2],
     items_not_list c S kids _ e he⟩)
  simpa [unrollEntries] using this

theorem sorted_children (c : SeqCfg) (S : Strconv) (hc : CfgOk c) (sp name : Str)
    (attrs : List Attr) (kids : List Node) (hd : seqDomain c (.elem sp name attrs kids) = true) :
    sortBySeq c (unrollEntries c (decodedEntries c S attrs kids)) = itemsOf c S kids :=
  sortBySeq_inverts_perm c _ _ (itemsOf_unrolled c S hc sp name attrs kids hd)
    (items_pairwise c S hc kids _)

theorem insert_perm_of_absent (k : Str) (v : Val) (l : Entries) (h : lookup k l = none) :
    (insert k v l).Perm ((k, v) :: l) := by
  rw [insert_absent k v l (not_mem_keys_of_lookup h)]
  exact List.perm_append_comm

/-! ### (6) qualified names split again at the colon -/

theorem takeWhile_sep (p : Char → Bool) (d : Char) (hd : p d = false) : ∀ (sp rest : Str),
    (∀ x ∈ sp, p x = true) →
    (sp ++ d :: rest).takeWhile p = sp ∧ (sp ++ d :: rest).dropWhile p = d :: rest
  | [], rest, _ => by simp [hd]
  | x :: xs, rest, h => by
      have hx : p x = true := h x (List.mem_cons_self ..)
      have ih := takeWhile_sep p d hd xs rest (fun y hy => h y (List.mem_cons_of_mem _ hy))
      simp only [List.cons_append, List.takeWhile_cons, List.dropWhile_cons, hx, if_true, ih.1, ih.2,
        and_self]

theorem takeWhile_all (p : Char → Bool) : ∀ (n : Str), (∀ x ∈ n, p x = true) →
    n.takeWhile p = n ∧ n.dropWhile p = []
  | [], _ => by simp
  | x :: xs, h => by
      have hx : p x = true := h x (List.mem_cons_self ..)
      have ih := takeWhile_all p xs (fun y hy => h y (List.mem_cons_of_mem _ hy))
      simp only [List.takeWhile_cons, List.dropWhile_cons, hx, if_true, ih.1, ih.2, and_self]

theorem colonFree_mem {s : Str} (h : colonFree s = true) :
    ∀ x ∈ s, (fun (y : Char) => decide (y ≠ ':')) x = true := by
  intro x hx
  simp only [colonFree, Bool.not_eq_true', List.contains_eq_mem, decide_eq_false_iff_not] at h
  simp only [ne_eq, decide_not, Bool.not_eq_true', decide_eq_false_iff_not]
  intro e; subst e; exact h hx

theorem splitQual_qualName (c : SeqCfg) (hs : c.snake = false) (sp n : Str)
    (h1 : colonFree sp = true) (h2 : colonFree n = true) (h3 : n.isEmpty = false) :
    splitQual (qualName c sp n) = (sp, n) := by
  unfold qualName
  simp only [hs, Bool.false_eq_true, if_false]
  cases sp with
  | nil =>
    have := takeWhile_all (fun (y : Char) => decide (y ≠ ':')) n (colonFree_mem h2)
    simp only [List.isEmpty_nil, if_true, splitQual, this.2]
  | cons x xs =>
    have := takeWhile_sep (fun (y : Char) => decide (y ≠ ':')) ':' (by decide) (x :: xs) n
      (colonFree_mem h1)
    simp only [List.isEmpty_cons, Bool.false_eq_true, if_false, List.append_assoc,
      List.singleton_append]
    simp only [splitQual, this.1, this.2, List.isEmpty_cons, h3, Bool.or_self, Bool.false_eq_true,
      if_false]

theorem unqual_qualAttr (c : SeqCfg) (hs : c.snake = false) (a : Attr)
    (h : (colonFree a.space && colonFree a.name && !a.name.isEmpty) = true) :
    unqualAttr (qualAttr c a) = a := by
  simp only [Bool.and_eq_true, Bool.not_eq_true'] at h
  have := splitQual_qualName c hs a.space a.name h.1.1 h.1.2 h.2
  cases a
  simp_all [unqualAttr, qualAttr]

theorem unqual_qualAttrs (c : SeqCfg) (hs : c.snake = false) : ∀ (as : List Attr),
    as.all (fun a => colonFree a.space && colonFree a.name && !a.name.isEmpty) = true →
    (as.map (qualAttr c)).map unqualAttr = as
  | [], _ => rfl
  | a :: as, h => by
      simp only [List.all_cons, Bool.and_eq_true] at h
      simp only [List.map_cons, unqual_qualAttr c hs a (by simpa using h.1),
        unqual_qualAttrs c hs as h.2]

mutual
theorem unqualify_qualify (c : SeqCfg) (hs : c.snake = false) : ∀ (t : Node),
    plainNames t = true → unqualify (qualify c t) = t
  | .elem sp n as ks, h => by
      simp only [plainNames, Bool.and_eq_true, Bool.not_eq_true'] at h
      simp only [qualify, unqualify, splitQual_qualName c hs sp n h.1.1.1.1 h.1.1.1.2 h.1.1.2,
        unqual_qualAttrs c hs as h.1.2, unqualifyKids_qualifyKids c hs ks h.2]
  | .text _, _ => rfl
  | .comment _, _ => rfl
  | .directive _, _ => rfl
  | .procinst _ _, _ => rfl
theorem unqualifyKids_qualifyKids (c : SeqCfg) (hs : c.snake = false) : ∀ (ks : List Node),
    plainNamesKids ks = true → unqualifyKids (qualifyKids c ks) = ks
  | [], _ => rfl
  | k :: ks, h => by
      simp only [plainNamesKids, Bool.and_eq_true] at h
      simp only [qualifyKids, unqualifyKids, unqualify_qualify c hs k h.1,
        unqualifyKids_qualifyKids c hs ks h.2]
end

mutual
theorem plainNames_normalize (c : SeqCfg) : ∀ (t : Node),
    plainNames t = true → plainNames (normalizeC c t) = true
  | .elem sp n as ks, h => by
      simp only [plainNames, Bool.and_eq_true] at h
      simp only [normalizeC, plainNames, Bool.and_eq_true]
      exact ⟨h.1, plainNamesKids_normalize c ks h.2⟩
  | .text _, _ => rfl
  | .comment _, _ => rfl
  | .directive _, _ => rfl
  | .procinst _ _, _ => rfl
theorem plainNamesKids_normalize (c : SeqCfg) : ∀ (ks : List Node),
    plainNamesKids ks = true → plainNamesKids (normalizeKidsC c ks) = true
  | [], _ => rfl
  | .text s :: ks, h => by
      simp only [plainNamesKids, Bool.and_eq_true] at h
      simp only [normalizeKidsC]
      split
      · exact plainNamesKids_normalize c ks h.2
      · simp only [plainNamesKids, plainNames, Bool.true_and]
        exact plainNamesKids_normalize c ks h.2
  | .elem sp n as ks' :: ks, h => by
      simp only [plainNamesKids, Bool.and_eq_true] at h
      simp only [normalizeKidsC, plainNamesKids, Bool.and_eq_true]
      exact ⟨plainNames_normalize c _ h.1, plainNamesKids_normalize c ks h.2⟩
  | .comment _ :: ks, h => by
      simp only [plainNamesKids, Bool.and_eq_true] at h
      simp only [normalizeKidsC, normalizeC, plainNamesKids, plainNames, Bool.true_and]
      exact plainNamesKids_normalize c ks h.2
  | .directive _ :: ks, h => by
      simp only [plainNamesKids, Bool.and_eq_true] at h
      simp only [normalizeKidsC, normalizeC, plainNamesKids, plainNames, Bool.true_and]
      exact plainNamesKids_normalize c ks h.2
  | .procinst _ _ :: ks, h => by
      simp only [plainNamesKids, Bool.and_eq_true] at h
      simp only [normalizeKidsC, normalizeC, plainNamesKids, plainNames, Bool.true_and]
      exact plainNamesKids_normalize c ks h.2
end

/-! ### (7) Go ranges over the map in arbitrary order: permuting the entries changes nothing -/

theorem mem_of_lookup {k : Str} {v : Val} : ∀ {l : Entries}, lookup k l = some v → (k, v) ∈ l
  | [], h => by simp [lookup] at h
  | (k', v') :: rest, h => by
      by_cases e : k = k'
      · subst e
        simp only [lookup, if_true, Option.some.injEq] at h
        subst h
        exact List.mem_cons_self ..
      · simp only [lookup, e, if_false] at h
        exact List.mem_cons_of_mem _ (mem_of_lookup h)

theorem lookup_of_mem {k : Str} {v : Val} : ∀ {l : Entries}, (keys l).Nodup → (k, v) ∈ l →
    lookup k l = some v
  | [], _, h => by simp at h
  | (k', v') :: rest, hn, h => by
      rw [keys_cons', List.nodup_cons] at hn
      rcases List.mem_cons.1 h with h | h
      · cases h; simp [lookup]
      · have hk : k ∈ keys rest := List.mem_map.2 ⟨(k, v), h, rfl⟩
        have e : ¬ k = k' := fun e => hn.1 (e ▸ hk)
        simp only [lookup, e, if_false]
        exact lookup_of_mem hn.2 h

theorem lookup_perm {l l' : Entries} (hp : l'.Perm l) (hn : (keys l).Nodup) (k : Str) :
    lookup k l' = lookup k l := by
  have hn' : (keys l').Nodup := (keys_nodup_perm hp).2 hn
  cases h : lookup k l with
  | some v => exact lookup_of_mem hn' (hp.mem_iff.2 (mem_of_lookup h))
  | none =>
    cases h' : lookup k l' with
    | none => rfl
    | some v =>
      have := lookup_of_mem hn (hp.mem_iff.1 (mem_of_lookup h'))
      rw [h] at this; cases this

theorem unrollEntries_eq_flatMap (c : SeqCfg) : ∀ (l : Entries),
    unrollEntries c l = l.flatMap (fun e => if dropK c e.1 then [] else unroll1 e.1 e.2)
  | [] => by simp [unrollEntries]
  | (k, v) :: rest => by
      rw [unrollEntries_cons, unrollEntries_eq_flatMap c rest, List.flatMap_cons]

theorem unrollEntries_perm (c : SeqCfg) {l l' : Entries} (hp : l'.Perm l) :
    (unrollEntries c l').Perm (unrollEntries c l) := by
  rw [unrollEntries_eq_flatMap, unrollEntries_eq_flatMap]
  exact hp.flatMap_right _

/-- sorting two permutations of a list with pairwise distinct `#seq` gives the same result -/
theorem sortBySeq_congr (c : SeqCfg) {l p : List (Str × Val)} (hp : p.Perm l)
    (hn : (l.map (fun e => seqOf c e.2)).Nodup) : sortBySeq c p = sortBySeq c l := by
  have hs := sortBySeq_sorted c l
  have hn' : ((sortBySeq c l).map (fun e => seqOf c e.2)).Nodup :=
    (((sortBySeq_perm c l).map _).nodup_iff).2 hn
  have hlt : (sortBySeq c l).Pairwise (fun a b => seqOf c a.2 < seqOf c b.2) := by
    have h2 : (sortBySeq c l).Pairwise (fun a b => seqOf c a.2 ≠ seqOf c b.2) :=
      List.pairwise_map.1 hn'
    exact (hs.and h2).imp (fun h => Nat.lt_of_le_of_ne h.1 h.2)
  exact sortBySeq_inverts_perm c _ p (hp.trans (sortBySeq_perm c l).symm) hlt

/-- one level: the encoder's result does not depend on the order of the map's entries, as long
    as the keys are distinct and so are the sequence numbers of the (unrolled) children -/
theorem seqEncTree_perm (c : SeqCfg) (f : Nat) (key : Str) {val val' : Entries}
    (hp : val'.Perm val) (hk : (keys val).Nodup)
    (hs : ((unrollEntries c val).map (fun e => seqOf c e.2)).Nodup) :
    seqEncTree c f key (.map val') = seqEncTree c f key (.map val) := by
  cases f with
  | zero => simp [seqEncTree]
  | succ f =>
    simp only [seqEncTree, lookup_perm hp hk, hp.length_eq,
      sortBySeq_congr c (unrollEntries_perm c hp) hs]

theorem seqEnc_perm (c : SeqCfg) (esc goEmpty : Bool) (f : Nat) (key : Str) {val val' : Entries}
    (hp : val'.Perm val) (hk : (keys val).Nodup)
    (hs : ((unrollEntries c val).map (fun e => seqOf c e.2)).Nodup) :
    seqEnc c esc goEmpty f key (.map val') = seqEnc c esc goEmpty f key (.map val) := by
  cases f with
  | zero => simp [seqEnc]
  | succ f =>
    simp only [seqEnc, lookup_perm hp hk, hp.length_eq,
      sortBySeq_congr c (unrollEntries_perm c hp) hs]

/-! ### (8) the decoded map has distinct keys and distinct sequence numbers -/

theorem decoded_seqs_nodup (c : SeqCfg) (S : Strconv) (hc : CfgOk c) (sp name : Str)
    (attrs : List Attr) (kids : List Node) (hd : seqDomain c (.elem sp name attrs kids) = true) :
    ((unrollEntries c (decodedEntries c S attrs kids)).map (fun e => seqOf c e.2)).Nodup := by
  rw [((itemsOf_unrolled c S hc sp name attrs kids hd).map _).nodup_iff]
  unfold itemsOf
  rw [items_seqs c S hc]
  exact List.nodup_range'

theorem decoded_keys_nodup (c : SeqCfg) (S : Strconv) (hc : CfgOk c) (sp name : Str)
    (attrs : List Attr) (kids : List Node) (hd : seqDomain c (.elem sp name attrs kids) = true) :
    (keys (decodedEntries c S attrs kids)).Nodup := by
  have dp := seqDomain_parts hd
  have hkeys := items_keys c S hc kids (if (leadText c kids).isSome then 1 else 0) dp.kids
  have hG : ∀ k, (k = c.attrK ∨ k = c.textK ∨ k = c.seqK) →
      k ∉ keys (addAll [] (itemsOf c S kids)) := by
    intro k hk
    apply not_mem_keys_of_lookup
    apply lookup_addAll_none k _ [] rfl
    intro e he
    have := hkeys e he
    rcases hk with rfl | rfl | rfl
    · exact this.2.2
    · exact this.1
    · exact this.2.1
  rw [decodedEntries_form c S hc sp name attrs kids hd, keys_append', keys_append']
  have hAT : (keys (if attrs.isEmpty then [] else [(c.attrK, Val.map (attrEntries c 0 attrs))])
      ++ keys (textEntries c (leadText c kids))).Nodup
      ∧ ∀ k ∈ (keys (if attrs.isEmpty then [] else [(c.attrK, Val.map (attrEntries c 0 attrs))])
      ++ keys (textEntries c (leadText c kids))), k = c.attrK ∨ k = c.textK ∨ k = c.seqK := by
    cases leadText c kids <;> cases attrs <;>
      simp [textEntries, keys, hc.ta.symm, hc.sa.symm, hc.ts]
  rw [List.nodup_append]
  refine ⟨hAT.1, nodup_keys_addAll _ [] (by simp [keys]), ?_⟩
  intro a ha b hb e
  subst e
  exact hG a (hAT.2 a ha) hb

/-! ### (9) bytes = rendering of the tree (with `goEmpty`) -/

theorem escapeChars_isEmpty' (s : Str) : (escapeChars s).isEmpty = s.isEmpty := by
  cases s with
  | nil => simp [escapeChars_nil]
  | cons x xs =>
    rw [escapeChars_cons]
    have := escOne_length_pos x
    cases h : escOne x with
    | nil => rw [h] at this; simp at this
    | cons _ _ => simp

def escB (esc : Bool) (s : Str) : Str := if esc then escapeChars s else s

theorem escB_isEmpty (esc : Bool) (s : Str) : (escB esc s).isEmpty = s.isEmpty := by
  cases esc <;> simp [escB, escapeChars_isEmpty']

theorem renderSeqKids_append (esc ge : Bool) : ∀ (a b : List Node),
    renderSeqKids esc ge (a ++ b) = renderSeqKids esc ge a ++ renderSeqKids esc ge b
  | [], b => rfl
  | x :: a, b => by simp only [List.cons_append, renderSeqKids, renderSeqKids_append esc ge a b,
      List.append_assoc]

theorem renderSeqAttrs_cons (esc : Bool) (a : Attr) (as : List Attr) :
    renderSeqAttrs esc (a :: as)
      = " ".toList ++ a.name ++ "=\"".toList ++ escB esc a.value ++ "\"".toList
          ++ renderSeqAttrs esc as := rfl

/-- an entry allowed in the plain domain: a plain value, or a number (under the sequence key) -/
def okVal (c : SeqCfg) (v : Val) : Bool := seqPlain c v || isNumVal v

theorem plain_of_lookup (c : SeqCfg) (k : Str) (hk : k ≠ c.seqK) : ∀ (l : Entries) (v : Val),
    seqPlainEntries c l = true → lookup k l = some v → seqPlain c v = true
  | [], v, _, h => by simp [lookup] at h
  | (k', v') :: rest, v, hp, h => by
      simp only [seqPlainEntries, Bool.and_eq_true, Bool.or_eq_true, decide_eq_true_eq] at hp
      by_cases e : k = k'
      · subst e
        simp only [lookup, if_true, Option.some.injEq] at h
        subst h
        rcases hp.1 with h1 | h1
        · exact absurd h1.1 hk
        · exact h1
      · simp only [lookup, e, if_false] at h
        exact plain_of_lookup c k hk rest v hp.2 h

theorem okVal_of_mem (c : SeqCfg) : ∀ (l : Entries), seqPlainEntries c l = true →
    ∀ e ∈ l, okVal c e.2 = true
  | [], _, e, h => by simp at h
  | (k', v') :: rest, hp, e, h => by
      simp only [seqPlainEntries, Bool.and_eq_true, Bool.or_eq_true, decide_eq_true_eq] at hp
      rcases List.mem_cons.1 h with rfl | h
      · rcases hp.1 with h1 | h1
        · simp [okVal, h1.2]
        · simp [okVal, h1]
      · exact okVal_of_mem c rest hp.2 e h

theorem seqPlainList_mem (c : SeqCfg) : ∀ (xs : List Val), seqPlainList c xs = true →
    ∀ x ∈ xs, seqPlain c x = true
  | [], _, x, h => by simp at h
  | y :: ys, hp, x, h => by
      simp only [seqPlainList, Bool.and_eq_true] at hp
      rcases List.mem_cons.1 h with rfl | h
      · exact hp.1
      · exact seqPlainList_mem c ys hp.2 x h

theorem plain_unroll (c : SeqCfg) : ∀ (l : Entries), seqPlainEntries c l = true →
    ∀ e ∈ unrollEntries c l, seqPlain c e.2 = true
  | [], _, e, h => by simp [unrollEntries] at h
  | (k, v) :: rest, hp, e, h => by
      simp only [seqPlainEntries, Bool.and_eq_true, Bool.or_eq_true, decide_eq_true_eq] at hp
      rw [unrollEntries_cons, List.mem_append] at h
      rcases h with h | h
      · by_cases hd : dropK c k = true
        · simp [hd] at h
        · simp only [hd, Bool.false_eq_true, if_false] at h
          have hpv : seqPlain c v = true := by
            rcases hp.1 with h1 | h1
            · exfalso; apply hd; simp [dropK, h1.1]
            · exact h1
          cases v with
          | list xs =>
            simp only [unroll1, List.mem_map] at h
            obtain ⟨x, hx, rfl⟩ := h
            simp only [seqPlain] at hpv
            exact seqPlainList_mem c xs hpv x hx
          | null => simp [seqPlain] at hpv
          | bool _ => simp [seqPlain] at hpv
          | num _ => simp [seqPlain] at hpv
          | str _ => simp only [unroll1, List.mem_singleton] at h; subst h; exact hpv
          | map _ => simp only [unroll1, List.mem_singleton] at h; subst h; exact hpv
      · exact plain_unroll c rest hp.2 e h

theorem seqAttrText_link (c : SeqCfg) (esc : Bool) (hts : c.textK ≠ c.seqK) (k : Str) (v : Val)
    (hv : okVal c v = true) :
    seqAttrText c esc k v = (seqAttrNode c k v).mapOk (fun a => renderSeqAttrs esc [a]) := by
  cases v with
  | map vv =>
    have hp : seqPlainEntries c vv = true := by simpa [okVal, seqPlain, isNumVal] using hv
    cases h : lookup c.textK vv with
    | none => simp [seqAttrText, seqAttrNode, h, Outcome.mapOk]
    | some x =>
      have hx := plain_of_lookup c c.textK hts vv x hp h
      cases x with
      | str s =>
        cases esc <;>
          simp [seqAttrText, seqAttrNode, h, Outcome.mapOk, renderSeqAttrs]
      | list _ => simp [seqAttrText, seqAttrNode, h, Outcome.mapOk]
      | map _ => simp [seqAttrText, seqAttrNode, h, Outcome.mapOk]
      | null => simp [seqPlain] at hx
      | bool _ => simp [seqPlain] at hx
      | num _ => simp [seqPlain] at hx
  | null => simp [seqAttrText, seqAttrNode, Outcome.mapOk]
  | bool _ => simp [seqAttrText, seqAttrNode, Outcome.mapOk]
  | num _ => simp [seqAttrText, seqAttrNode, Outcome.mapOk]
  | str _ => simp [seqAttrText, seqAttrNode, Outcome.mapOk]
  | list _ => simp [seqAttrText, seqAttrNode, Outcome.mapOk]

theorem seqAttrsText_link (c : SeqCfg) (esc : Bool) (hts : c.textK ≠ c.seqK) :
    ∀ (l : List (Str × Val)), (∀ e ∈ l, okVal c e.2 = true) →
    seqAttrsText c esc l = (seqAttrNodes c l).mapOk (renderSeqAttrs esc)
  | [], _ => by simp [seqAttrsText, seqAttrNodes, Outcome.mapOk, renderSeqAttrs]
  | (k, v) :: rest, h => by
      have h1 := seqAttrText_link c esc hts k v (h (k, v) (List.mem_cons_self ..))
      have h2 := seqAttrsText_link c esc hts rest (fun e he => h e (List.mem_cons_of_mem _ he))
      simp only [seqAttrsText, seqAttrNodes, h1, h2]
      cases seqAttrNode c k v <;> cases seqAttrNodes c rest <;>
        simp [Outcome.mapOk, renderSeqAttrs]

/-- the text the encoder writes for the text-key value -/
def txtOf (esc : Bool) (tv : Val) : Option Str :=
  match tv with
  | .str s => some (if esc then escapeChars s else s)
  | v => fmtV v

/-- `seqEnc` on a map after the attributes have been read -/
def encBodyB (esc ge : Bool) (key atext : Str) (hv seqOK : Bool) (n : Nat) (ot : Option Val)
    (ko : Outcome Str) : Outcome Str :=
  match ot with
  | some tv =>
    if ((n = 3 && hv) || (n = 2 && !hv)) && seqOK then
      match txtOf esc tv with
      | some t => if t.isEmpty then .ok ("<".toList ++ key ++ atext ++
                      (if ge then ">".toList ++ closeTag key else "/>".toList))
                  else .ok ("<".toList ++ key ++ atext ++ ">".toList ++ t ++ closeTag key)
      | none => .err .other
    else
      match txtOf esc tv, ko with
      | some t, .ok kids => .ok ("<".toList ++ key ++ atext ++ ">".toList ++ t ++ kids ++ closeTag key)
      | none, _ => .err .other
      | _, o => o
  | none =>
    if ((n = 2 && hv) || (n = 1 && !hv)) && seqOK then
      .ok ("<".toList ++ key ++ atext ++ (if ge then ">".toList ++ closeTag key else "/>".toList))
    else match ko with
      | .ok kids => .ok ("<".toList ++ key ++ atext ++ ">".toList ++ kids ++ closeTag key)
      | o => o

def attrsOutB (c : SeqCfg) (esc : Bool) (val : Entries) : Outcome (Str × Bool) :=
  match lookup c.attrK val with
  | some (.map av) => match seqAttrsText c esc (sortBySeq c av) with
      | .ok a => .ok (a, true)
      | .eof => .eof | .syntax => .syntax | .err k => .err k | .panic s => .panic s
  | _ => .ok ([], false)

def attrsOutT (c : SeqCfg) (val : Entries) : Outcome (List Attr × Bool) :=
  match lookup c.attrK val with
  | some (.map av) => match seqAttrNodes c (sortBySeq c av) with
      | .ok a => .ok (a, true)
      | .eof => .eof | .syntax => .syntax | .err k => .err k | .panic s => .panic s
  | _ => .ok ([], false)

theorem seqEnc_map_eq (c : SeqCfg) (esc ge : Bool) (f : Nat) (key : Str) (val : Entries)
    (h1 : key ≠ c.commentK) (h2 : key ≠ c.directiveK) (h3 : key ≠ c.procinstK) :
    seqEnc c esc ge (f + 1) key (.map val)
      = match attrsOutB c esc val with
        | .ok (atext, hv) => encBodyB esc ge key atext hv (lookup c.seqK val).isSome val.length
            (lookup c.textK val) (seqKids c esc ge f (sortBySeq c (unrollEntries c val)))
        | .eof => .eof | .syntax => .syntax | .err k => .err k | .panic s => .panic s := by
  simp only [seqEnc, h1, h2, h3, if_false]
  rfl

theorem seqEncTree_map_eq (c : SeqCfg) (f : Nat) (key : Str) (val : Entries)
    (h1 : key ≠ c.commentK) (h2 : key ≠ c.directiveK) (h3 : key ≠ c.procinstK) :
    seqEncTree c (f + 1) key (.map val)
      = match attrsOutT c val with
        | .ok (as, hv) => encBody key as hv (lookup c.seqK val).isSome val.length
            (lookup c.textK val) (seqKidsTree c f (sortBySeq c (unrollEntries c val)))
        | .eof => .eof | .syntax => .syntax | .err k => .err k | .panic s => .panic s := by
  simp only [seqEncTree, h1, h2, h3, if_false]
  rfl

theorem attrsOut_link (c : SeqCfg) (esc : Bool) (hts : c.textK ≠ c.seqK) (val : Entries)
    (hp : seqPlainEntries c val = true) :
    attrsOutB c esc val
      = (attrsOutT c val).mapOk (fun p => (renderSeqAttrs esc p.1, p.2)) := by
  unfold attrsOutB attrsOutT
  split
  · rename_i av hl
    have hav : okVal c (.map av) = true :=
      okVal_of_mem c val hp (c.attrK, .map av) (mem_of_lookup hl)
    have hav' : seqPlainEntries c av = true := by simpa [okVal, seqPlain, isNumVal] using hav
    rw [seqAttrsText_link c esc hts _ (fun e he =>
      okVal_of_mem c av hav' e ((sortBySeq_perm c av).mem_iff.1 he))]
    cases seqAttrNodes c (sortBySeq c av) <;> simp [Outcome.mapOk]
  · simp [Outcome.mapOk, renderSeqAttrs]

theorem renderSeqKids_elem (esc : Bool) (key : Str) (as : List Attr) (kids : List Node) :
    renderSeqKids esc true [.elem [] key as kids]
      = "<".toList ++ key ++ renderSeqAttrs esc as ++
          (if kids.isEmpty then ">".toList ++ closeTag key
           else ">".toList ++ renderSeqKids esc true kids ++ closeTag key) := by
  simp [renderSeqKids, renderSeq]

theorem body_link (esc : Bool) (key : Str) (as : List Attr) (hv sq : Bool) (n : Nat)
    (ot : Option Val) (ko : Outcome (List Node))
    (hot : ∀ tv, ot = some tv → (∃ s, tv = .str s) ∨ fmtV tv = none) :
    encBodyB esc true key (renderSeqAttrs esc as) hv sq n ot (ko.mapOk (renderSeqKids esc true))
      = (encBody key as hv sq n ot ko).mapOk (renderSeqKids esc true) := by
  cases ot with
  | none =>
    simp only [encBodyB, encBody]
    split
    · simp [Outcome.mapOk, renderSeqKids, renderSeq]
    · cases ko with
      | ok K => cases K <;> simp [Outcome.mapOk, renderSeqKids, renderSeq]
      | eof => rfl
      | «syntax» => rfl
      | err _ => rfl
      | panic _ => rfl
  | some tv =>
    rcases hot tv rfl with ⟨s, rfl⟩ | hnone
    · simp only [encBodyB, encBody, txtOf, fmtV]
      split
      · cases s with
        | nil => cases esc <;> simp [Outcome.mapOk, textKid, escapeChars_nil, renderSeqKids, renderSeq]
        | cons x xs =>
          have := escapeChars_isEmpty' (x :: xs)
          cases esc <;>
            simp_all [Outcome.mapOk, textKid, renderSeqKids, renderSeq]
      · cases ko with
        | ok K =>
          cases s with
          | nil =>
            cases K <;> cases esc <;>
              simp [Outcome.mapOk, textKid, escapeChars_nil, renderSeqKids, renderSeq]
          | cons x xs =>
            cases esc <;>
              simp [Outcome.mapOk, textKid, renderSeqKids, renderSeq]
        | eof => rfl
        | «syntax» => rfl
        | err _ => rfl
        | panic _ => rfl
    · have htx : txtOf esc tv = none := by
        cases tv <;> simp_all [txtOf, fmtV]
      simp only [encBodyB, encBody, htx, hnone]
      split
      · rfl
      · cases ko <;> rfl

theorem members_link (c : SeqCfg) (esc : Bool) (f : Nat)
    (P : ∀ key v, seqPlain c v = true →
      seqEnc c esc true f key v = (seqEncTree c f key v).mapOk (renderSeqKids esc true)) :
    ∀ (key : Str) (xs : List Val), (∀ x ∈ xs, seqPlain c x = true) →
      seqMembers c esc true f key xs
        = (seqMembersTree c f key xs).mapOk (renderSeqKids esc true)
  | key, [], _ => by simp [seqMembers, seqMembersTree, Outcome.mapOk, renderSeqKids]
  | key, x :: xs, h => by
      have h1 := P key x (h x (List.mem_cons_self ..))
      have h2 := members_link c esc f P key xs (fun y hy => h y (List.mem_cons_of_mem _ hy))
      simp only [seqMembers, seqMembersTree, h1, h2]
      cases seqEncTree c f key x <;> cases seqMembersTree c f key xs <;>
        simp [Outcome.mapOk, renderSeqKids_append]

theorem kids_link (c : SeqCfg) (esc : Bool) (f : Nat)
    (P : ∀ key v, seqPlain c v = true →
      seqEnc c esc true f key v = (seqEncTree c f key v).mapOk (renderSeqKids esc true)) :
    ∀ (l : List (Str × Val)), (∀ e ∈ l, seqPlain c e.2 = true) →
      seqKids c esc true f l = (seqKidsTree c f l).mapOk (renderSeqKids esc true)
  | [], _ => by simp [seqKids, seqKidsTree, Outcome.mapOk, renderSeqKids]
  | (k, v) :: rest, h => by
      have h1 := P k v (h (k, v) (List.mem_cons_self ..))
      have h2 := kids_link c esc f P rest (fun y hy => h y (List.mem_cons_of_mem _ hy))
      simp only [seqKids, seqKidsTree, h1, h2]
      cases seqEncTree c f k v <;> cases seqKidsTree c f rest <;>
        simp [Outcome.mapOk, renderSeqKids_append]

/-- bytes = rendering of the tree, for `goEmpty` and values whose leaves are strings -/
theorem seqEnc_link (c : SeqCfg) (esc : Bool) (hts : c.textK ≠ c.seqK) : ∀ (f : Nat) (key : Str)
    (v : Val), seqPlain c v = true →
    seqEnc c esc true f key v = (seqEncTree c f key v).mapOk (renderSeqKids esc true) := by
  intro f
  induction f with
  | zero => intro key v _; simp [seqEnc, seqEncTree, Outcome.mapOk]
  | succ f ih =>
    intro key v hv
    cases v with
    | null => simp [seqPlain] at hv
    | bool _ => simp [seqPlain] at hv
    | num _ => simp [seqPlain] at hv
    | str s =>
      cases s with
      | nil =>
        cases esc <;>
          simp [seqEnc, seqEncTree, Outcome.mapOk, renderSeqKids, renderSeq, textKid, endOf,
            escapeChars_nil, renderSeqAttrs]
      | cons x xs =>
        have h1 := escapeChars_isEmpty' (x :: xs)
        have h2 : (escapeChars (x :: xs)).length ≠ 0 := by
          intro h0
          have := List.eq_nil_of_length_eq_zero h0
          rw [this] at h1; simp at h1
        cases esc <;>
          simp_all [seqEnc, seqEncTree, Outcome.mapOk, renderSeqKids, renderSeq, textKid, endOf,
            renderSeqAttrs]
    | list xs =>
      simp only [seqEnc, seqEncTree]
      exact members_link c esc f ih key xs (seqPlainList_mem c xs (by simpa [seqPlain] using hv))
    | map val =>
      have hp : seqPlainEntries c val = true := by simpa [seqPlain] using hv
      by_cases h1 : key = c.commentK
      · subst h1
        simp only [seqEnc, seqEncTree, if_true]
        cases strOf (lookup c.textK val) <;> simp [Outcome.mapOk, renderSeqKids, renderSeq]
      by_cases h2 : key = c.directiveK
      · subst h2
        simp only [seqEnc, seqEncTree, h1, if_true, if_false]
        cases strOf (lookup c.textK val) <;> simp [Outcome.mapOk, renderSeqKids, renderSeq]
      by_cases h3 : key = c.procinstK
      · subst h3
        simp only [seqEnc, seqEncTree, h1, h2, if_true, if_false]
        cases strOf (lookup c.targetK val) <;> cases strOf (lookup c.instK val) <;>
          simp [Outcome.mapOk, renderSeqKids, renderSeq]
      rw [seqEnc_map_eq c esc true f key val h1 h2 h3, seqEncTree_map_eq c f key val h1 h2 h3,
        attrsOut_link c esc hts val hp,
        kids_link c esc f ih _ (fun e he =>
          plain_unroll c val hp e ((sortBySeq_perm c _).mem_iff.1 he))]
      cases attrsOutT c val with
      | ok p =>
        obtain ⟨as, hvb⟩ := p
        simp only [Outcome.mapOk]
        apply body_link
        intro tv htv
        have hpl := plain_of_lookup c c.textK hts val tv hp htv
        cases tv with
        | str s => exact .inl ⟨s, rfl⟩
        | list _ => exact .inr rfl
        | map _ => exact .inr rfl
        | null => simp [seqPlain] at hpl
        | bool _ => simp [seqPlain] at hpl
        | num _ => simp [seqPlain] at hpl
      | eof => rfl
      | «syntax» => rfl
      | err _ => rfl
      | panic _ => rfl

/-! ### (10) decoded values are in the plain domain -/

theorem seqPlainEntries_append (c : SeqCfg) : ∀ (X Y : Entries),
    seqPlainEntries c (X ++ Y) = (seqPlainEntries c X && seqPlainEntries c Y)
  | [], Y => by simp [seqPlainEntries]
  | (k, v) :: X, Y => by
      simp only [List.cons_append, seqPlainEntries, seqPlainEntries_append c X Y, Bool.and_assoc]

theorem seqPlainEntries_insert (c : SeqCfg) (k : Str) (v : Val)
    (hv : ((k = c.seqK && isNumVal v) || seqPlain c v) = true) : ∀ (l : Entries),
    seqPlainEntries c l = true → seqPlainEntries c (insert k v l) = true
  | [], _ => by simp only [insert, seqPlainEntries, hv, Bool.and_self]
  | (k', v') :: rest, h => by
      simp only [seqPlainEntries, Bool.and_eq_true] at h
      by_cases e : k = k'
      · simp only [insert, e, if_true, seqPlainEntries, Bool.and_eq_true]
        exact ⟨by rw [← e]; exact hv, h.2⟩
      · simp only [insert, e, if_false, seqPlainEntries, Bool.and_eq_true]
        exact ⟨h.1, seqPlainEntries_insert c k v hv rest h.2⟩

theorem seqPlainList_append (c : SeqCfg) : ∀ (X Y : List Val),
    seqPlainList c (X ++ Y) = (seqPlainList c X && seqPlainList c Y)
  | [], Y => by simp [seqPlainList]
  | x :: X, Y => by
      simp only [List.cons_append, seqPlainList, seqPlainList_append c X Y, Bool.and_assoc]

theorem plain_promote (c : SeqCfg) (o : Option Val) (v : Val)
    (ho : ∀ old, o = some old → seqPlain c old = true) (hv : seqPlain c v = true) :
    seqPlain c (promote o v) = true := by
  cases o with
  | none => exact hv
  | some old =>
    have h := ho old rfl
    cases old with
    | list xs =>
      simp only [seqPlain] at h
      simp [promote, seqPlain, seqPlainList_append, seqPlainList, h, hv]
    | null => simp [seqPlain] at h
    | bool _ => simp [seqPlain] at h
    | num _ => simp [seqPlain] at h
    | str _ => simp [promote, seqPlain, seqPlainList, hv]
    | map _ =>
      simp only [seqPlain] at h
      simp [promote, seqPlain, seqPlainList, hv, h]

theorem plainEntries_addChild (c : SeqCfg) (na : Entries) (k : Str) (v : Val) (hk : k ≠ c.seqK)
    (hv : seqPlain c v = true) (hna : seqPlainEntries c na = true) :
    seqPlainEntries c (addChild na k v) = true := by
  rw [addChild_eq]
  apply seqPlainEntries_insert c k _ _ na hna
  have := plain_promote c (lookup k na) v (fun old ho => plain_of_lookup c k hk na old hna ho) hv
  simp [this]

theorem plainEntries_addAll (c : SeqCfg) : ∀ (cs : List (Str × Val)) (na : Entries),
    (∀ e ∈ cs, e.1 ≠ c.seqK ∧ seqPlain c e.2 = true) → seqPlainEntries c na = true →
    seqPlainEntries c (addAll na cs) = true
  | [], na, _, h => h
  | e :: cs, na, he, h => by
      rw [addAll_cons]
      have h1 := he e (List.mem_cons_self ..)
      exact plainEntries_addAll c cs _ (fun e' he' => he e' (List.mem_cons_of_mem _ he'))
        (plainEntries_addChild c na e.1 e.2 h1.1 h1.2 h)

theorem isNumVal_seqNum (n : Nat) : isNumVal (seqNum n) = true := rfl

theorem plain_seqChild (c : SeqCfg) (n : Nat) (v : Val) (hv : seqPlain c v = true) :
    seqPlain c (seqChild c n v) = true := by
  cases v with
  | map kvs =>
    simp only [seqPlain] at hv
    simp only [seqChild, seqPlain]
    exact seqPlainEntries_insert c _ _ (by simp [isNumVal_seqNum]) kvs hv
  | str s => simp [seqChild, seqPlain, seqPlainEntries, isNumVal_seqNum]
  | list xs =>
    simp only [seqPlain] at hv
    simp [seqChild, seqPlain, seqPlainEntries, isNumVal_seqNum, hv]
  | null => simp [seqPlain] at hv
  | bool _ => simp [seqPlain] at hv
  | num _ => simp [seqPlain] at hv

theorem plain_attrEntries (c : SeqCfg) : ∀ (attrs : List Attr) (i : Nat),
    seqPlainEntries c (attrEntries c i attrs) = true
  | [], _ => rfl
  | a :: as, i => by
      simp [attrEntries, seqPlainEntries, seqPlain, isNumVal_seqNum, plain_attrEntries c as (i + 1)]

theorem plain_finish (c : SeqCfg) (na : Entries) (h : seqPlainEntries c na = true) :
    seqPlain c (SeqFold.finish na) = true := by
  unfold SeqFold.finish
  split
  · rfl
  · simpa [seqPlain] using h

mutual
theorem plain_value (c : SeqCfg) (S : Strconv) (hc : CfgOk c) : ∀ (t : Node),
    seqDomain c t = true → seqPlain c (SeqFold.value c S t) = true
  | .elem sp name attrs kids, hd => by
      have dp := seqDomain_parts hd
      have hkeys := items_keys c S hc kids (if (leadText c kids).isSome then 1 else 0) dp.kids
      have hit := plain_items c S hc kids dp.kids (if (leadText c kids).isSome then 1 else 0)
      rw [value_eq_finish, decodedEntries_form c S hc sp name attrs kids hd]
      apply plain_finish
      rw [seqPlainEntries_append, seqPlainEntries_append, Bool.and_eq_true, Bool.and_eq_true]
      refine ⟨⟨?_, ?_⟩, ?_⟩
      · split
        · rfl
        · simp [seqPlainEntries, seqPlain, plain_attrEntries]
      · cases leadText c kids <;>
          simp [textEntries, seqPlainEntries, seqPlain, isNumVal_seqNum]
      · exact plainEntries_addAll c _ [] (fun e he => ⟨(hkeys e he).2.1, hit e he⟩) rfl
  | .text _, h => by simp [seqDomain] at h
  | .comment _, h => by simp [seqDomain] at h
  | .directive _, h => by simp [seqDomain] at h
  | .procinst _ _, h => by simp [seqDomain] at h
theorem plain_items (c : SeqCfg) (S : Strconv) (hc : CfgOk c) : ∀ (kids : List Node),
    seqDomainKids c kids = true → ∀ (seq : Nat), ∀ e ∈ items c S seq kids, seqPlain c e.2 = true
  | [], _, seq, e, h => by simp [items] at h
  | .elem sp name attrs ks :: rest, hd, seq, e, h => by
      simp only [seqDomainKids, Bool.and_eq_true] at hd
      simp only [items, List.mem_cons] at h
      rcases h with rfl | h
      · exact plain_seqChild c seq _ (plain_value c S hc (.elem sp name attrs ks) hd.1)
      · exact plain_items c S hc rest hd.2 _ e h
  | .text _ :: rest, hd, seq, e, h => by
      simp only [seqDomainKids] at hd
      simp only [items] at h; exact plain_items c S hc rest hd _ e h
  | .comment _ :: rest, hd, seq, e, h => by
      simp only [seqDomainKids] at hd
      simp only [items, List.mem_cons] at h
      rcases h with rfl | h
      · simp [noteVal, seqPlain, seqPlainEntries, isNumVal_seqNum]
      · exact plain_items c S hc rest hd _ e h
  | .directive _ :: rest, hd, seq, e, h => by
      simp only [seqDomainKids] at hd
      simp only [items, List.mem_cons] at h
      rcases h with rfl | h
      · simp [noteVal, seqPlain, seqPlainEntries, isNumVal_seqNum]
      · exact plain_items c S hc rest hd _ e h
  | .procinst _ _ :: rest, hd, seq, e, h => by
      simp only [seqDomainKids] at hd
      simp only [items, List.mem_cons] at h
      rcases h with rfl | h
      · simp [piVal, seqPlain, seqPlainEntries, isNumVal_seqNum]
      · exact plain_items c S hc rest hd _ e h
end

/-! ### (11) the fuel `mapSeqXml` supplies is enough -/

theorem depth_le_entries {k : Str} {v : Val} : ∀ {l : Entries}, (k, v) ∈ l →
    Val.depth v ≤ Val.depthEntries l
  | [], h => by simp at h
  | (k', v') :: rest, h => by
      simp only [Val.depthEntries]
      rcases List.mem_cons.1 h with h | h
      · cases h; exact Nat.le_max_left _ _
      · exact Nat.le_trans (depth_le_entries h) (Nat.le_max_right _ _)

theorem depth_le_list {x : Val} : ∀ {xs : List Val}, x ∈ xs → Val.depth x ≤ Val.depthList xs
  | [], h => by simp at h
  | y :: ys, h => by
      simp only [Val.depthList]
      rcases List.mem_cons.1 h with h | h
      · cases h; exact Nat.le_max_left _ _
      · exact Nat.le_trans (depth_le_list h) (Nat.le_max_right _ _)

theorem depth_unroll (c : SeqCfg) : ∀ (l : Entries), ∀ e ∈ unrollEntries c l,
    Val.depth e.2 ≤ Val.depthEntries l
  | [], e, h => by simp [unrollEntries] at h
  | (k, v) :: rest, e, h => by
      rw [unrollEntries_cons, List.mem_append] at h
      simp only [Val.depthEntries]
      rcases h with h | h
      · refine Nat.le_trans ?_ (Nat.le_max_left _ _)
        split at h
        · simp at h
        · cases v with
          | list xs =>
            simp only [unroll1, List.mem_map] at h
            obtain ⟨x, hx, rfl⟩ := h
            simp only [Val.depth]
            exact Nat.le_succ_of_le (depth_le_list hx)
          | null => simp only [unroll1, List.mem_singleton] at h; subst h; exact Nat.le_refl _
          | bool _ => simp only [unroll1, List.mem_singleton] at h; subst h; exact Nat.le_refl _
          | num _ => simp only [unroll1, List.mem_singleton] at h; subst h; exact Nat.le_refl _
          | str _ => simp only [unroll1, List.mem_singleton] at h; subst h; exact Nat.le_refl _
          | map _ => simp only [unroll1, List.mem_singleton] at h; subst h; exact Nat.le_refl _
      · exact Nat.le_trans (depth_unroll c rest e h) (Nat.le_max_right _ _)

theorem unroll_insert_seq (c : SeqCfg) (v : Val) (l : Entries) :
    unrollEntries c (insert c.seqK v l) = unrollEntries c l :=
  unrollEntries_insert_dropped c _ _ (by simp [dropK]) l

mutual
theorem height_le_depth (c : SeqCfg) (S : Strconv) (hc : CfgOk c) : ∀ (t : Node),
    seqDomain c t = true →
      t.height ≤ Val.depth (SeqFold.value c S t) + 1
      ∧ ∀ n, t.height ≤ Val.depth (seqChild c n (SeqFold.value c S t)) + 1
  | .elem sp name attrs kids, hd => by
      have dp := seqDomain_parts hd
      have hperm := itemsOf_unrolled c S hc sp name attrs kids hd
      have hk := height_items c S hc kids dp.kids (if (leadText c kids).isSome then 1 else 0)
      rw [value_eq_finish]
      simp only [Node.height]
      by_cases he : (decodedEntries c S attrs kids).isEmpty = true
      · have hnil : decodedEntries c S attrs kids = [] := by
          cases h : decodedEntries c S attrs kids with
          | nil => rfl
          | cons _ _ => rw [h] at he; simp at he
        have hits : itemsOf c S kids = [] := by
          rw [hnil] at hperm
          simpa [unrollEntries] using hperm.symm
        have h0 := hk 0 (by
          intro e he'
          unfold itemsOf at hits
          rw [hits] at he'; simp at he')
        simp only [SeqFold.finish, he, if_true, seqChild, Val.depth, Val.depthEntries, seqNum]
        exact ⟨by omega, fun n => by omega⟩
      · have h1 := hk (Val.depthEntries (decodedEntries c S attrs kids)) (fun e he' =>
          depth_unroll c _ e (hperm.mem_iff.2 he'))
        have he' : (decodedEntries c S attrs kids).isEmpty = false := by simpa using he
        simp only [SeqFold.finish, he', Bool.false_eq_true, if_false, seqChild, Val.depth]
        refine ⟨by omega, fun n => ?_⟩
        have h2 := hk (Val.depthEntries (insert c.seqK (seqNum n) (decodedEntries c S attrs kids)))
          (fun e he' => depth_unroll c _ e (by
            rw [unroll_insert_seq]; exact hperm.mem_iff.2 he'))
        omega
  | .text _, h => by simp [seqDomain] at h
  | .comment _, h => by simp [seqDomain] at h
  | .directive _, h => by simp [seqDomain] at h
  | .procinst _ _, h => by simp [seqDomain] at h
theorem height_items (c : SeqCfg) (S : Strconv) (hc : CfgOk c) : ∀ (kids : List Node),
    seqDomainKids c kids = true → ∀ (seq D : Nat),
    (∀ e ∈ items c S seq kids, Val.depth e.2 ≤ D) → Node.heightKids kids ≤ D + 1
  | [], _, seq, D, _ => by simp [Node.heightKids]
  | .elem sp name attrs ks :: rest, hd, seq, D, h => by
      simp only [seqDomainKids, Bool.and_eq_true] at hd
      simp only [items, List.mem_cons, forall_eq_or_imp] at h
      have h1 := (height_le_depth c S hc (.elem sp name attrs ks) hd.1).2 seq
      have h2 := height_items c S hc rest hd.2 (seq + 1) D h.2
      simp only [Node.heightKids]
      have := h.1
      omega
  | .text _ :: rest, hd, seq, D, h => by
      simp only [seqDomainKids] at hd
      simp only [items] at h
      have h2 := height_items c S hc rest hd seq D h
      simp only [Node.heightKids, Node.height]
      omega
  | .comment _ :: rest, hd, seq, D, h => by
      simp only [seqDomainKids] at hd
      simp only [items, List.mem_cons, forall_eq_or_imp] at h
      have h2 := height_items c S hc rest hd (seq + 1) D h.2
      simp only [Node.heightKids, Node.height]
      omega
  | .directive _ :: rest, hd, seq, D, h => by
      simp only [seqDomainKids] at hd
      simp only [items, List.mem_cons, forall_eq_or_imp] at h
      have h2 := height_items c S hc rest hd (seq + 1) D h.2
      simp only [Node.heightKids, Node.height]
      omega
  | .procinst _ _ :: rest, hd, seq, D, h => by
      simp only [seqDomainKids] at hd
      simp only [items, List.mem_cons, forall_eq_or_imp] at h
      have h2 := height_items c S hc rest hd (seq + 1) D h.2
      simp only [Node.heightKids, Node.height]
      omega
end

theorem finish_cases (na : Entries) :
    SeqFold.finish na = .str [] ∨ SeqFold.finish na = .map na := by
  unfold SeqFold.finish
  split
  · exact .inl rfl
  · exact .inr rfl

/-- `mv.Xml()` on the one-key MapSeq of a document is `seqEnc` on the root with enough fuel -/
theorem mapSeqXml_root (c : SeqCfg) (esc ge : Bool) (key : Str) (na : Entries) :
    mapSeqXml c esc ge [(key, SeqFold.finish na)]
      = seqEnc c esc ge (2 * Val.depth (.map [(key, SeqFold.finish na)]) + 2) key
          (SeqFold.finish na) := by
  rcases finish_cases na with h | h <;> rw [h] <;> rfl

/-- end to end at byte level (with `goEmpty`): the decoded root re-encodes to the rendering of
    the normalised document -/
theorem mapSeqXml_roundtrip (c : SeqCfg) (S : Strconv) (hc : CfgOk c) (esc : Bool)
    (sp name : Str) (attrs : List Attr) (kids : List Node)
    (hd : seqDomain c (.elem sp name attrs kids) = true) :
    mapSeqXml c esc true [(qualName c sp name, SeqFold.value c S (.elem sp name attrs kids))]
      = .ok (renderSeq esc true (qualify c (normalizeC c (.elem sp name attrs kids)))) := by
  have hh := (height_le_depth c S hc _ hd).1
  have hp := plain_value c S hc _ hd
  have ht := enc_tree c S hc (.elem sp name attrs kids)
  simp only at ht
  rw [value_eq_finish] at *
  rw [mapSeqXml_root, seqEnc_link c esc hc.ts _ _ _ hp]
  rw [(ht hd _ (by
    simp only [Val.depth, Val.depthEntries]
    have := Nat.le_max_left (Val.depth (SeqFold.finish (decodedEntries c S attrs kids))) 0
    omega)).1]
  simp [Outcome.mapOk, renderSeqKids]

/-! ### (12) children in place -/

theorem qualifyKids_eq_map (c : SeqCfg) : ∀ (l : List Node), qualifyKids c l = l.map (qualify c)
  | [] => rfl
  | k :: l => by simp only [qualifyKids, List.map_cons, qualifyKids_eq_map c l]

theorem normalizeKids_dropText (c : SeqCfg) : ∀ (ks : List Node),
    normalizeKidsC c (dropText ks) = (dropText ks).map (normalizeC c)
  | [] => rfl
  | .text _ :: r => by simp only [dropText]; exact normalizeKids_dropText c r
  | .elem _ _ _ _ :: r => by
      simp only [dropText, normalizeKidsC, List.map_cons, normalizeKids_dropText c r]
  | .comment _ :: r => by
      simp only [dropText, normalizeKidsC, List.map_cons, normalizeKids_dropText c r]
  | .directive _ :: r => by
      simp only [dropText, normalizeKidsC, List.map_cons, normalizeKids_dropText c r]
  | .procinst _ _ :: r => by
      simp only [dropText, normalizeKidsC, List.map_cons, normalizeKids_dropText c r]

/-- the children of the normalised, qualified element: the text (if any), then every non-text
    child in its place -/
theorem normalized_children (c : SeqCfg) (kids : List Node) (h : textFirst c kids = true) :
    qualifyKids c (normalizeKidsC c kids)
      = textNodes (leadText c kids)
        ++ (dropText kids).map (fun k => qualify c (normalizeC c k)) := by
  rw [norm_split c kids h, qualifyKids_append, qualifyKids_textNodes, normalizeKids_dropText,
    qualifyKids_eq_map, List.map_map]
  rfl

/-! ### (13) Go's map order at EVERY level -/

mutual
/-- `VPerm w v`: `w` is `v` with the entries of every map, at every level, in some other order -/
def VPerm : Val → Val → Prop
  | .null, v => v = .null
  | .bool b, v => v = .bool b
  | .num t, v => v = .num t
  | .str s, v => v = .str s
  | .list xs, v => ∃ ys, v = .list ys ∧ LPerm xs ys
  | .map kvs, v => ∃ m b, v = .map b ∧ List.Perm m b ∧ EPerm kvs m
def LPerm : List Val → List Val → Prop
  | [], ys => ys = []
  | x :: xs, ys => ∃ y ys', ys = y :: ys' ∧ VPerm x y ∧ LPerm xs ys'
/-- same keys in the same order, values related -/
def EPerm : Entries → Entries → Prop
  | [], m => m = []
  | (k, x) :: xs, m => ∃ y ys, m = (k, y) :: ys ∧ VPerm x y ∧ EPerm xs ys
end

mutual
theorem VPerm.refl : ∀ (v : Val), VPerm v v
  | .null => by simp [VPerm]
  | .bool _ => by simp [VPerm]
  | .num _ => by simp [VPerm]
  | .str _ => by simp [VPerm]
  | .list xs => by simp only [VPerm]; exact ⟨xs, rfl, LPerm.refl xs⟩
  | .map kvs => by simp only [VPerm]; exact ⟨kvs, kvs, rfl, List.Perm.refl _, EPerm.refl kvs⟩
theorem LPerm.refl : ∀ (xs : List Val), LPerm xs xs
  | [] => by simp [LPerm]
  | x :: xs => by simp only [LPerm]; exact ⟨x, xs, rfl, VPerm.refl x, LPerm.refl xs⟩
theorem EPerm.refl : ∀ (kvs : Entries), EPerm kvs kvs
  | [] => by simp [EPerm]
  | (k, x) :: xs => by simp only [EPerm]; exact ⟨x, xs, rfl, VPerm.refl x, EPerm.refl xs⟩
end

/-- a map value has distinct keys -/
def keysOk : Val → Prop
  | .map kvs => (keys kvs).Nodup
  | _ => True

/-- the attribute map: distinct names, distinct sequence numbers, every entry a map with
    distinct keys -/
def GoodAttrs (c : SeqCfg) (av : Entries) : Prop :=
  (keys av).Nodup ∧ (av.map (fun e => seqOf c e.2)).Nodup ∧ ∀ e ∈ av, keysOk e.2

/-- the keys under which the encoder writes a comment, directive or processing instruction -/
def isNoteKey (c : SeqCfg) (k : Str) : Prop := k = c.commentK ∨ k = c.directiveK ∨ k = c.procinstK

mutual
/-- `GoodAt c key v`: `v`, stored under `key`, is what the encoder needs to be order-independent:
    every map, at every level, is what a Go map can be (distinct keys) and — unless it is a
    comment / directive / processing-instruction entry — its children and its attributes carry
    pairwise distinct sequence numbers -/
def GoodAt (c : SeqCfg) : Str → Val → Prop
  | key, .map kvs => (keys kvs).Nodup
      ∧ (isNoteKey c key ∨
          (((unrollEntries c kvs).map (fun e => seqOf c e.2)).Nodup
          ∧ (∀ av, lookup c.attrK kvs = some (.map av) → GoodAttrs c av)
          ∧ GoodE c kvs))
  | key, .list xs => GoodLAt c key xs
  | _, _ => True
def GoodLAt (c : SeqCfg) : Str → List Val → Prop
  | _, [] => True
  | key, x :: xs => GoodAt c key x ∧ GoodLAt c key xs
def GoodE (c : SeqCfg) : Entries → Prop
  | [] => True
  | (k, v) :: r => (k = c.attrK ∨ GoodAt c k v) ∧ GoodE c r
end

theorem GoodAt.keysOk {c : SeqCfg} {key : Str} : ∀ {v : Val}, GoodAt c key v → keysOk v
  | .map _, h => by simp only [GoodAt] at h; exact h.1
  | .null, _ => trivial
  | .bool _, _ => trivial
  | .num _, _ => trivial
  | .str _, _ => trivial
  | .list _, _ => trivial

theorem GoodE_iff (c : SeqCfg) : ∀ (l : Entries),
    GoodE c l ↔ ∀ e ∈ l, e.1 = c.attrK ∨ GoodAt c e.1 e.2
  | [] => by simp [GoodE]
  | (k, v) :: r => by simp [GoodE, GoodE_iff c r]

/-! shape preservation -/

theorem vperm_fmtV {w v : Val} (h : VPerm w v) : fmtV w = fmtV v := by
  cases w with
  | null => simp only [VPerm] at h; rw [h]
  | bool _ => simp only [VPerm] at h; rw [h]
  | num _ => simp only [VPerm] at h; rw [h]
  | str _ => simp only [VPerm] at h; rw [h]
  | list _ => simp only [VPerm] at h; obtain ⟨ys, rfl, _⟩ := h; rfl
  | map _ => simp only [VPerm] at h; obtain ⟨m, b, rfl, _, _⟩ := h; rfl

theorem vperm_strOf {w v : Val} (h : VPerm w v) : strOf (some w) = strOf (some v) := by
  cases w with
  | null => simp only [VPerm] at h; rw [h]
  | bool _ => simp only [VPerm] at h; rw [h]
  | num _ => simp only [VPerm] at h; rw [h]
  | str _ => simp only [VPerm] at h; rw [h]
  | list _ => simp only [VPerm] at h; obtain ⟨ys, rfl, _⟩ := h; rfl
  | map _ => simp only [VPerm] at h; obtain ⟨m, b, rfl, _, _⟩ := h; rfl

/-- lookups in pointwise-related entry lists are related -/
def LookRel (o' o : Option Val) : Prop :=
  (o' = none ∧ o = none) ∨ ∃ x y, o' = some x ∧ o = some y ∧ VPerm x y

theorem eperm_lookup (k : Str) : ∀ {a m : Entries}, EPerm a m → LookRel (lookup k a) (lookup k m)
  | [], m, h => by simp only [EPerm] at h; subst h; exact .inl ⟨rfl, rfl⟩
  | (k', x) :: xs, m, h => by
      simp only [EPerm] at h
      obtain ⟨y, ys, rfl, hv, hr⟩ := h
      by_cases e : k = k'
      · simp only [lookup, e, if_true]
        exact .inr ⟨x, y, rfl, rfl, hv⟩
      · simp only [lookup, e, if_false]
        exact eperm_lookup k hr

theorem eperm_length : ∀ {a m : Entries}, EPerm a m → a.length = m.length
  | [], m, h => by simp only [EPerm] at h; subst h; rfl
  | (k', x) :: xs, m, h => by
      simp only [EPerm] at h
      obtain ⟨y, ys, rfl, _, hr⟩ := h
      simp [eperm_length hr]

theorem lookRel_strOf {o' o : Option Val} (h : LookRel o' o) : strOf o' = strOf o := by
  rcases h with ⟨rfl, rfl⟩ | ⟨x, y, rfl, rfl, hv⟩
  · rfl
  · exact vperm_strOf hv

theorem lookRel_isSome {o' o : Option Val} (h : LookRel o' o) : o'.isSome = o.isSome := by
  rcases h with ⟨rfl, rfl⟩ | ⟨x, y, rfl, rfl, _⟩ <;> rfl

theorem seqOf_nonNum (c : SeqCfg) (kvs : Entries) (x : Val) (h : lookup c.seqK kvs = some x)
    (hx : isNumVal x = false) : seqOf c (.map kvs) = 9999999 := by
  cases x <;> simp_all [seqOf, isNumVal]

theorem seqOf_none (c : SeqCfg) (kvs : Entries) (h : lookup c.seqK kvs = none) :
    seqOf c (.map kvs) = 9999999 := by
  simp [seqOf, h]

theorem vperm_isNum {w v : Val} (h : VPerm w v) : isNumVal w = isNumVal v := by
  cases w with
  | null => simp only [VPerm] at h; rw [h]
  | bool _ => simp only [VPerm] at h; rw [h]
  | num _ => simp only [VPerm] at h; rw [h]
  | str _ => simp only [VPerm] at h; rw [h]
  | list _ => simp only [VPerm] at h; obtain ⟨ys, rfl, _⟩ := h; rfl
  | map _ => simp only [VPerm] at h; obtain ⟨m, b, rfl, _, _⟩ := h; rfl

theorem vperm_num_eq {w v : Val} (h : VPerm w v) (hn : isNumVal w = true) : w = v := by
  cases w with
  | num _ => simp only [VPerm] at h; rw [h]
  | null => simp [isNumVal] at hn
  | bool _ => simp [isNumVal] at hn
  | str _ => simp [isNumVal] at hn
  | list _ => simp [isNumVal] at hn
  | map _ => simp [isNumVal] at hn

/-- related values carry the same sequence number -/
theorem seqOf_congr (c : SeqCfg) {w v : Val} (h : VPerm w v) (hk : keysOk v) :
    seqOf c w = seqOf c v := by
  cases w with
  | null => simp only [VPerm] at h; rw [h]
  | bool _ => simp only [VPerm] at h; rw [h]
  | num _ => simp only [VPerm] at h; rw [h]
  | str _ => simp only [VPerm] at h; rw [h]
  | list _ => simp only [VPerm] at h; obtain ⟨ys, rfl, _⟩ := h; rfl
  | map a =>
    simp only [VPerm] at h
    obtain ⟨m, b, rfl, hp, he⟩ := h
    have hl : lookup c.seqK m = lookup c.seqK b := lookup_perm hp hk _
    rcases eperm_lookup c.seqK he with ⟨h1, h2⟩ | ⟨x, y, h1, h2, hv⟩
    · rw [seqOf_none c a h1, seqOf_none c b (hl ▸ h2)]
    · by_cases hn : isNumVal x = true
      · have := vperm_num_eq hv hn
        subst this
        simp only [seqOf, h1, ← hl, h2]
      · have hn' : isNumVal x = false := by simpa using hn
        rw [seqOf_nonNum c a x h1 hn', seqOf_nonNum c b y (hl ▸ h2) ((vperm_isNum hv) ▸ hn')]

/-- pointwise: same keys, related values, the right-hand values good -/
def PW (P : Str → Val → Prop) : List (Str × Val) → List (Str × Val) → Prop
  | [], l => l = []
  | e' :: r', l => ∃ e r, l = e :: r ∧ e'.1 = e.1 ∧ VPerm e'.2 e.2 ∧ P e.1 e.2 ∧ PW P r' r

theorem PW_of_EPerm (P : Str → Val → Prop) : ∀ {a m : Entries}, EPerm a m → (∀ e ∈ m, P e.1 e.2) → PW P a m
  | [], m, h, _ => by simp only [EPerm] at h; subst h; simp [PW]
  | (k, x) :: xs, m, h, hg => by
      simp only [EPerm] at h
      obtain ⟨y, ys, rfl, hv, hr⟩ := h
      simp only [PW]
      exact ⟨(k, y), ys, rfl, rfl, hv, hg _ (List.mem_cons_self ..),
        PW_of_EPerm P hr (fun e he => hg e (List.mem_cons_of_mem _ he))⟩

theorem PW_append (P : Str → Val → Prop) : ∀ {a' a b' b : List (Str × Val)}, PW P a' a → PW P b' b →
    PW P (a' ++ b') (a ++ b)
  | [], a, b', b, h1, h2 => by simp only [PW] at h1; subst h1; simpa using h2
  | e' :: r', a, b', b, h1, h2 => by
      simp only [PW] at h1
      obtain ⟨e, r, rfl, hk, hv, hg, hr⟩ := h1
      simp only [List.cons_append, PW]
      exact ⟨e, r ++ b, rfl, hk, hv, hg, PW_append P hr h2⟩

theorem PW_insertBySeq (c : SeqCfg) (P : Str → Val → Prop) (hP : ∀ k v, P k v → keysOk v)
    {e' e : Str × Val} (hk : e'.1 = e.1) (hv : VPerm e'.2 e.2) (hg : P e.1 e.2) :
    ∀ {l' l : List (Str × Val)}, PW P l' l → PW P (insertBySeq c e' l') (insertBySeq c e l)
  | [], l, h => by
      simp only [PW] at h; subst h
      simp only [insertBySeq, PW]
      exact ⟨e, [], rfl, hk, hv, hg, rfl⟩
  | x' :: r', l, h => by
      simp only [PW] at h
      obtain ⟨x, r, rfl, hxk, hxv, hxg, hr⟩ := h
      simp only [insertBySeq, seqOf_congr c hxv (hP _ _ hxg), seqOf_congr c hv (hP _ _ hg)]
      split
      · simp only [PW]
        exact ⟨x, _, rfl, hxk, hxv, hxg, PW_insertBySeq c P hP hk hv hg hr⟩
      · simp only [PW]
        exact ⟨e, _, rfl, hk, hv, hg, x, r, rfl, hxk, hxv, hxg, hr⟩

theorem PW_sortBySeq (c : SeqCfg) (P : Str → Val → Prop) (hP : ∀ k v, P k v → keysOk v) :
    ∀ {l' l : List (Str × Val)}, PW P l' l → PW P (sortBySeq c l') (sortBySeq c l)
  | [], l, h => by simp only [PW] at h; subst h; simp [sortBySeq, PW]
  | e' :: r', l, h => by
      simp only [PW] at h
      obtain ⟨e, r, rfl, hk, hv, hg, hr⟩ := h
      rw [sortBySeq_cons, sortBySeq_cons]
      exact PW_insertBySeq c P hP hk hv hg (PW_sortBySeq c P hP hr)

theorem PW_mapKey (c : SeqCfg) (k : Str) : ∀ {xs ys : List Val}, LPerm xs ys → GoodLAt c k ys →
    PW (GoodAt c) (xs.map (fun x => (k, x))) (ys.map (fun x => (k, x)))
  | [], ys, h, _ => by simp only [LPerm] at h; subst h; simp [PW]
  | x :: xs, ys, h, hg => by
      simp only [LPerm] at h
      obtain ⟨y, ys', rfl, hv, hr⟩ := h
      simp only [GoodLAt] at hg
      simp only [List.map_cons, PW]
      exact ⟨(k, y), _, rfl, rfl, hv, hg.1, PW_mapKey c k hr hg.2⟩

theorem PW_unroll1 (c : SeqCfg) (k : Str) {v' v : Val} (hv : VPerm v' v) (hg : GoodAt c k v) :
    PW (GoodAt c) (unroll1 k v') (unroll1 k v) := by
  cases v' with
  | list xs =>
    simp only [VPerm] at hv
    obtain ⟨ys, rfl, hl⟩ := hv
    simp only [GoodAt] at hg
    exact PW_mapKey c k hl hg
  | null =>
    have hv' := hv
    simp only [VPerm] at hv; subst hv
    simp only [unroll1, PW]
    exact ⟨_, [], rfl, rfl, hv', hg, rfl⟩
  | bool _ =>
    have hv' := hv
    simp only [VPerm] at hv; subst hv
    simp only [unroll1, PW]
    exact ⟨_, [], rfl, rfl, hv', hg, rfl⟩
  | num _ =>
    have hv' := hv
    simp only [VPerm] at hv; subst hv
    simp only [unroll1, PW]
    exact ⟨_, [], rfl, rfl, hv', hg, rfl⟩
  | str _ =>
    have hv' := hv
    simp only [VPerm] at hv; subst hv
    simp only [unroll1, PW]
    exact ⟨_, [], rfl, rfl, hv', hg, rfl⟩
  | map a =>
    have hv' := hv
    simp only [VPerm] at hv
    obtain ⟨m, b, rfl, _, _⟩ := hv
    simp only [unroll1, PW]
    exact ⟨(k, .map b), [], rfl, rfl, hv', hg, rfl⟩

/-- unrolling pointwise-related entries (attribute entries are skipped, so need not be good) -/
theorem PW_unroll (c : SeqCfg) : ∀ {a m : Entries}, EPerm a m → GoodE c m →
    PW (GoodAt c) (unrollEntries c a) (unrollEntries c m)
  | [], m, h, _ => by simp only [EPerm] at h; subst h; simp [unrollEntries, PW]
  | (k, x) :: xs, m, h, hg => by
      simp only [EPerm] at h
      obtain ⟨y, ys, rfl, hv, hr⟩ := h
      simp only [GoodE] at hg
      rw [unrollEntries_cons, unrollEntries_cons]
      refine PW_append _ ?_ (PW_unroll c hr hg.2)
      by_cases hd : dropK c k = true
      · simp [hd, PW]
      · simp only [hd, Bool.false_eq_true, if_false]
        rcases hg.1 with hka | hgy
        · exfalso; apply hd; simp [dropK, hka]
        · exact PW_unroll1 c k hv hgy

theorem seqAttrNode_congr (c : SeqCfg) (k : Str) {v' v : Val} (hv : VPerm v' v) (hk : keysOk v) :
    seqAttrNode c k v' = seqAttrNode c k v := by
  cases v' with
  | null => simp only [VPerm] at hv; rw [hv]
  | bool _ => simp only [VPerm] at hv; rw [hv]
  | num _ => simp only [VPerm] at hv; rw [hv]
  | str _ => simp only [VPerm] at hv; rw [hv]
  | list _ => simp only [VPerm] at hv; obtain ⟨ys, rfl, _⟩ := hv; rfl
  | map a =>
    simp only [VPerm] at hv
    obtain ⟨m, b, rfl, hp, he⟩ := hv
    have hl : lookup c.textK m = lookup c.textK b := lookup_perm hp hk _
    rcases eperm_lookup c.textK he with ⟨h1, h2⟩ | ⟨x, y, h1, h2, hxy⟩
    · simp only [seqAttrNode, h1, ← hl, h2]
    · simp only [seqAttrNode, h1, ← hl, h2]
      cases x with
      | null => simp only [VPerm] at hxy; rw [hxy]
      | bool _ => simp only [VPerm] at hxy; rw [hxy]
      | num _ => simp only [VPerm] at hxy; rw [hxy]
      | str _ => simp only [VPerm] at hxy; rw [hxy]
      | list _ => simp only [VPerm] at hxy; obtain ⟨ys, rfl, _⟩ := hxy; rfl
      | map _ => simp only [VPerm] at hxy; obtain ⟨_, _, rfl, _, _⟩ := hxy; rfl

theorem seqAttrNodes_congr (c : SeqCfg) : ∀ {l' l : List (Str × Val)},
    PW (fun _ v => keysOk v) l' l →
    seqAttrNodes c l' = seqAttrNodes c l
  | [], l, h => by simp only [PW] at h; subst h; rfl
  | (k', v') :: r', l, h => by
      simp only [PW] at h
      obtain ⟨⟨k, v⟩, r, rfl, hk, hv, hg, hr⟩ := h
      simp only at hk hv hg
      subst hk
      simp only [seqAttrNodes, seqAttrNode_congr c k' hv hg, seqAttrNodes_congr c hr]

theorem seqKidsTree_congr (c : SeqCfg) (f : Nat)
    (IH : ∀ key w v, VPerm w v → GoodAt c key v → seqEncTree c f key w = seqEncTree c f key v) :
    ∀ {l' l : List (Str × Val)}, PW (GoodAt c) l' l → seqKidsTree c f l' = seqKidsTree c f l
  | [], l, h => by simp only [PW] at h; subst h; rfl
  | (k', v') :: r', l, h => by
      simp only [PW] at h
      obtain ⟨⟨k, v⟩, r, rfl, hk, hv, hg, hr⟩ := h
      simp only at hk hv hg
      subst hk
      simp only [seqKidsTree, IH k' v' v hv hg, seqKidsTree_congr c f IH hr]

theorem seqMembersTree_congr (c : SeqCfg) (f : Nat) (key : Str)
    (IH : ∀ key w v, VPerm w v → GoodAt c key v → seqEncTree c f key w = seqEncTree c f key v) :
    ∀ {xs ys : List Val}, LPerm xs ys → GoodLAt c key ys →
      seqMembersTree c f key xs = seqMembersTree c f key ys
  | [], ys, h, _ => by simp only [LPerm] at h; subst h; rfl
  | x :: xs, ys, h, hg => by
      simp only [LPerm] at h
      obtain ⟨y, ys', rfl, hv, hr⟩ := h
      simp only [GoodLAt] at hg
      simp only [seqMembersTree, IH key x y hv hg.1, seqMembersTree_congr c f key IH hr hg.2]

theorem encBody_congr (key : Str) (as : List Attr) (hv sq : Bool) (n : Nat) {ot' ot : Option Val}
    (h : LookRel ot' ot) (ko : Outcome (List Node)) :
    encBody key as hv sq n ot' ko = encBody key as hv sq n ot ko := by
  rcases h with ⟨rfl, rfl⟩ | ⟨x, y, rfl, rfl, hxy⟩
  · rfl
  · simp only [encBody, vperm_fmtV hxy]

theorem PW_mono {P Q : Str → Val → Prop} (hPQ : ∀ k v, P k v → Q k v) : ∀ {l' l : List (Str × Val)},
    PW P l' l → PW Q l' l
  | [], l, h => by simpa [PW] using h
  | e' :: r', l, h => by
      simp only [PW] at h ⊢
      obtain ⟨e, r, rfl, hk, hv, hg, hr⟩ := h
      exact ⟨e, r, rfl, hk, hv, hPQ _ _ hg, PW_mono hPQ hr⟩

theorem attrsOutT_congr (c : SeqCfg) {a m : Entries} (he : EPerm a m)
    (hattr : ∀ av, lookup c.attrK m = some (.map av) → GoodAttrs c av) :
    attrsOutT c a = attrsOutT c m := by
  unfold attrsOutT
  rcases eperm_lookup c.attrK he with ⟨h1, h2⟩ | ⟨x, y, h1, h2, hxy⟩
  · rw [h1, h2]
  · rw [h1, h2]
    cases x with
    | null => simp only [VPerm] at hxy; rw [hxy]
    | bool _ => simp only [VPerm] at hxy; rw [hxy]
    | num _ => simp only [VPerm] at hxy; rw [hxy]
    | str _ => simp only [VPerm] at hxy; rw [hxy]
    | list _ => simp only [VPerm] at hxy; obtain ⟨ys, rfl, _⟩ := hxy; rfl
    | map a' =>
      simp only [VPerm] at hxy
      obtain ⟨m', b', rfl, hp', he'⟩ := hxy
      have hga := hattr b' h2
      have hgm : ∀ e ∈ m', keysOk e.2 := fun e hm => hga.2.2 e (hp'.mem_iff.1 hm)
      have h3 : seqAttrNodes c (sortBySeq c a') = seqAttrNodes c (sortBySeq c m') :=
        seqAttrNodes_congr c (PW_sortBySeq c (fun _ v => keysOk v) (fun _ _ h => h)
          (PW_of_EPerm (fun _ v => keysOk v) he' hgm))
      have h4 : sortBySeq c m' = sortBySeq c b' := sortBySeq_congr c hp' hga.2.1
      simp only [h3, h4]

/-- all levels: the encoder's tree does not depend on the order of the entries of ANY map of
    the value, if every map has distinct keys and its children / attributes distinct `#seq` -/
theorem seqEncTree_vperm (c : SeqCfg) : ∀ (f : Nat) (key : Str) (w v : Val), VPerm w v →
    GoodAt c key v → seqEncTree c f key w = seqEncTree c f key v := by
  intro f
  induction f with
  | zero => intro key w v _ _; simp [seqEncTree]
  | succ f ih =>
    intro key w v hwv hg
    cases w with
    | null => simp only [VPerm] at hwv; rw [hwv]
    | bool _ => simp only [VPerm] at hwv; rw [hwv]
    | num _ => simp only [VPerm] at hwv; rw [hwv]
    | str _ => simp only [VPerm] at hwv; rw [hwv]
    | list xs =>
      simp only [VPerm] at hwv
      obtain ⟨ys, rfl, hl⟩ := hwv
      simp only [GoodAt] at hg
      simp only [seqEncTree]
      exact seqMembersTree_congr c f key ih hl hg
    | map a =>
      simp only [VPerm] at hwv
      obtain ⟨m, b, rfl, hp, he⟩ := hwv
      simp only [GoodAt] at hg
      obtain ⟨hk, hrest⟩ := hg
      have hlk : ∀ k, strOf (lookup k a) = strOf (lookup k b) := by
        intro k
        rw [lookRel_strOf (eperm_lookup k he), lookup_perm hp hk]
      by_cases h1 : key = c.commentK
      · subst h1
        simp only [seqEncTree, if_true, hlk]
      by_cases h2 : key = c.directiveK
      · subst h2
        simp only [seqEncTree, h1, if_true, if_false, hlk]
      by_cases h3 : key = c.procinstK
      · subst h3
        simp only [seqEncTree, h1, h2, if_true, if_false, hlk]
      rcases hrest with hn | ⟨hs, hattr, hge⟩
      · rcases hn with hn | hn | hn
        · exact absurd hn h1
        · exact absurd hn h2
        · exact absurd hn h3
      rw [← seqEncTree_perm c (f + 1) key hp hk hs]
      have hgm : GoodE c m := by
        rw [GoodE_iff] at hge ⊢
        exact fun e hm => hge e (hp.mem_iff.1 hm)
      have hattrm : ∀ av, lookup c.attrK m = some (.map av) → GoodAttrs c av := by
        intro av h; exact hattr av (by rw [← lookup_perm hp hk]; exact h)
      rw [seqEncTree_map_eq c f key a h1 h2 h3, seqEncTree_map_eq c f key m h1 h2 h3,
        attrsOutT_congr c he hattrm, lookRel_isSome (eperm_lookup c.seqK he), eperm_length he,
        seqKidsTree_congr c f ih
          (PW_sortBySeq c (GoodAt c) (fun _ _ h => h.keysOk) (PW_unroll c he hgm))]
      cases attrsOutT c m with
      | ok p => exact encBody_congr key p.1 p.2 _ _ (eperm_lookup c.textK he) _
      | eof => rfl
      | «syntax» => rfl
      | err _ => rfl
      | panic _ => rfl

/-! ### (14) decoded values are good at every level -/

theorem nodup_of_distinctStrs : ∀ (l : List Str), distinctStrs l = true → l.Nodup
  | [], _ => List.nodup_nil
  | x :: xs, h => by
      simp only [distinctStrs, Bool.and_eq_true, Bool.not_eq_true', List.contains_eq_mem,
        decide_eq_false_iff_not] at h
      exact List.nodup_cons.2 ⟨h.1, nodup_of_distinctStrs xs h.2⟩

theorem attrEntries_keysOk (c : SeqCfg) (hts : c.textK ≠ c.seqK) : ∀ (attrs : List Attr) (i : Nat),
    ∀ e ∈ attrEntries c i attrs, keysOk e.2
  | [], _, e, h => by simp [attrEntries] at h
  | a :: as, i, e, h => by
      simp only [attrEntries, List.mem_cons] at h
      rcases h with rfl | h
      · simp [keysOk, keys, hts]
      · exact attrEntries_keysOk c hts as (i + 1) e h

theorem goodAttrs_attrEntries (c : SeqCfg) (hc : CfgOk c) (attrs : List Attr)
    (hd : distinctStrs (attrQNames c attrs) = true) : GoodAttrs c (attrEntries c 0 attrs) := by
  refine ⟨?_, ?_, attrEntries_keysOk c hc.ts attrs 0⟩
  · rw [keys_attrEntries]; exact nodup_of_distinctStrs _ hd
  · rw [attrEntries_seqs c hc]; exact List.nodup_range'

theorem goodE_insert (c : SeqCfg) (k : Str) (v : Val) (hv : k = c.attrK ∨ GoodAt c k v) :
    ∀ (l : Entries), GoodE c l → GoodE c (insert k v l)
  | [], _ => by simp only [insert, GoodE]; exact ⟨hv, trivial⟩
  | (k', v') :: rest, h => by
      simp only [GoodE] at h
      by_cases e : k = k'
      · subst e
        simp only [insert, if_true, GoodE]
        exact ⟨hv, h.2⟩
      · simp only [insert, e, if_false, GoodE]
        exact ⟨h.1, goodE_insert c k v hv rest h.2⟩

theorem goodLAt_append (c : SeqCfg) (k : Str) : ∀ (xs ys : List Val),
    GoodLAt c k xs → GoodLAt c k ys → GoodLAt c k (xs ++ ys)
  | [], ys, _, h => h
  | x :: xs, ys, h1, h2 => by
      simp only [GoodLAt] at h1
      simp only [List.cons_append, GoodLAt]
      exact ⟨h1.1, goodLAt_append c k xs ys h1.2 h2⟩

theorem goodAt_promote (c : SeqCfg) (k : Str) (o : Option Val) (v : Val)
    (ho : ∀ old, o = some old → GoodAt c k old) (hv : GoodAt c k v) :
    GoodAt c k (promote o v) := by
  cases o with
  | none => exact hv
  | some old =>
    have h := ho old rfl
    cases old with
    | list xs =>
      simp only [GoodAt] at h
      simp only [promote, GoodAt]
      exact goodLAt_append c k xs [v] h ⟨hv, trivial⟩
    | null => simp only [promote, GoodAt, GoodLAt]; exact ⟨trivial, hv, trivial⟩
    | bool _ => simp only [promote, GoodAt, GoodLAt]; exact ⟨trivial, hv, trivial⟩
    | num _ => simp only [promote, GoodAt, GoodLAt]; exact ⟨trivial, hv, trivial⟩
    | str _ => simp only [promote, GoodAt, GoodLAt]; exact ⟨trivial, hv, trivial⟩
    | map _ => simp only [promote, GoodAt, GoodLAt]; exact ⟨h, hv, trivial⟩

theorem goodE_addChild (c : SeqCfg) (na : Entries) (k : Str) (v : Val) (hk : k ≠ c.attrK)
    (hv : GoodAt c k v) (hna : GoodE c na) : GoodE c (addChild na k v) := by
  rw [addChild_eq]
  refine goodE_insert c k _ (.inr (goodAt_promote c k _ v ?_ hv)) na hna
  intro old ho
  rcases (GoodE_iff c na).1 hna (k, old) (mem_of_lookup ho) with h | h
  · exact absurd h hk
  · exact h

theorem goodE_addAll (c : SeqCfg) : ∀ (cs : List (Str × Val)) (na : Entries),
    (∀ e ∈ cs, e.1 ≠ c.attrK ∧ GoodAt c e.1 e.2) → GoodE c na → GoodE c (addAll na cs)
  | [], na, _, h => h
  | e :: cs, na, he, h => by
      rw [addAll_cons]
      have h1 := he e (List.mem_cons_self ..)
      exact goodE_addAll c cs _ (fun e' he' => he e' (List.mem_cons_of_mem _ he'))
        (goodE_addChild c na e.1 e.2 h1.1 h1.2 h)

theorem goodE_append (c : SeqCfg) : ∀ (X Y : Entries), GoodE c X → GoodE c Y → GoodE c (X ++ Y)
  | [], Y, _, h => h
  | (k, v) :: X, Y, h1, h2 => by
      simp only [GoodE] at h1
      simp only [List.cons_append, GoodE]
      exact ⟨h1.1, goodE_append c X Y h1.2 h2⟩

mutual
theorem good_value (c : SeqCfg) (S : Strconv) (hc : CfgOk c) : ∀ (t : Node),
    seqDomain c t = true → ∀ key,
      GoodAt c key (SeqFold.value c S t) ∧ ∀ n, GoodAt c key (seqChild c n (SeqFold.value c S t))
  | .elem sp name attrs kids, hd, key => by
      have dp := seqDomain_parts hd
      have hkeys := items_keys c S hc kids (if (leadText c kids).isSome then 1 else 0) dp.kids
      have hit := good_items c S hc kids dp.kids (if (leadText c kids).isSome then 1 else 0)
      have hk := decoded_keys_nodup c S hc sp name attrs kids hd
      have hs := decoded_seqs_nodup c S hc sp name attrs kids hd
      have hform := decodedEntries_form c S hc sp name attrs kids hd
      have hGa : lookup c.attrK (addAll [] (itemsOf c S kids)) = none :=
        lookup_addAll_none _ _ [] rfl (fun e he => (hkeys e he).2.2)
      have hattr : ∀ av, lookup c.attrK (decodedEntries c S attrs kids) = some (.map av) →
          GoodAttrs c av := by
        intro av h
        rw [hform, List.append_assoc, lookup_append_none _ _ _ (by
          rw [lookup_append_left _ _ _ (by
            cases leadText c kids <;> simp [textEntries, keys, hc.ta.symm, hc.sa.symm])]
          exact hGa)] at h
        cases attrs with
        | nil => simp [lookup] at h
        | cons a as =>
          simp only [List.isEmpty_cons, Bool.false_eq_true, if_false, lookup, if_true,
            Option.some.injEq, Val.map.injEq] at h
          subst h
          exact goodAttrs_attrEntries c hc _ dp.attrs
      have hge : GoodE c (decodedEntries c S attrs kids) := by
        rw [hform]
        refine goodE_append c _ _ (goodE_append c _ _ ?_ ?_) ?_
        · split
          · trivial
          · simp [GoodE]
        · cases leadText c kids <;> simp [textEntries, GoodE, GoodAt, seqNum]
        · exact goodE_addAll c _ [] (fun e he => ⟨(hkeys e he).2.2, hit e he⟩) trivial
      rw [value_eq_finish]
      by_cases he : (decodedEntries c S attrs kids).isEmpty = true
      · simp only [SeqFold.finish, he, if_true, seqChild, GoodAt, true_and]
        intro n
        refine ⟨by simp [keys, hc.ts], .inr ⟨by simp [unrollEntries], ?_,
          by simp [GoodE, GoodAt, seqNum]⟩⟩
        intro av h
        simp [lookup, hc.ta.symm, hc.sa.symm] at h
      · have he' : (decodedEntries c S attrs kids).isEmpty = false := by simpa using he
        simp only [SeqFold.finish, he', Bool.false_eq_true, if_false, seqChild, GoodAt]
        refine ⟨⟨hk, .inr ⟨hs, hattr, hge⟩⟩, fun n => ⟨nodup_keys_insert _ _ _ hk, .inr ⟨?_, ?_, ?_⟩⟩⟩
        · rw [unroll_insert_seq]; exact hs
        · intro av h
          rw [lookup_insert, if_neg hc.sa.symm] at h
          exact hattr av h
        · exact goodE_insert c _ _ (.inr (by simp [seqNum, GoodAt])) _ hge
  | .text _, h, _ => by simp [seqDomain] at h
  | .comment _, h, _ => by simp [seqDomain] at h
  | .directive _, h, _ => by simp [seqDomain] at h
  | .procinst _ _, h, _ => by simp [seqDomain] at h
theorem good_items (c : SeqCfg) (S : Strconv) (hc : CfgOk c) : ∀ (kids : List Node),
    seqDomainKids c kids = true → ∀ (seq : Nat), ∀ e ∈ items c S seq kids, GoodAt c e.1 e.2
  | [], _, seq, e, h => by simp [items] at h
  | .elem sp name attrs ks :: rest, hd, seq, e, h => by
      simp only [seqDomainKids, Bool.and_eq_true] at hd
      simp only [items, List.mem_cons] at h
      rcases h with rfl | h
      · exact (good_value c S hc (.elem sp name attrs ks) hd.1 _).2 seq
      · exact good_items c S hc rest hd.2 _ e h
  | .text _ :: rest, hd, seq, e, h => by
      simp only [seqDomainKids] at hd
      simp only [items] at h; exact good_items c S hc rest hd _ e h
  | .comment _ :: rest, hd, seq, e, h => by
      simp only [seqDomainKids] at hd
      simp only [items, List.mem_cons] at h
      rcases h with rfl | h
      · simp [noteVal, GoodAt, keys, hc.ts, isNoteKey]
      · exact good_items c S hc rest hd _ e h
  | .directive _ :: rest, hd, seq, e, h => by
      simp only [seqDomainKids] at hd
      simp only [items, List.mem_cons] at h
      rcases h with rfl | h
      · simp [noteVal, GoodAt, keys, hc.ts, isNoteKey]
      · exact good_items c S hc rest hd _ e h
  | .procinst _ _ :: rest, hd, seq, e, h => by
      simp only [seqDomainKids] at hd
      simp only [items, List.mem_cons] at h
      rcases h with rfl | h
      · simp [piVal, GoodAt, keys, hc.ti, hc.st.symm, hc.si.symm, isNoteKey]
      · exact good_items c S hc rest hd _ e h
end

/-- one level is a special case -/
theorem VPerm.of_perm {m b : Entries} (h : m.Perm b) : VPerm (.map m) (.map b) := by
  simp only [VPerm]
  exact ⟨m, b, rfl, h, EPerm.refl m⟩

end SeqL
end Mxj
