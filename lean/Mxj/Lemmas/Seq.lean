/-
  Mxj.Lemmas.Seq — helper lemmas for C04 (Props/C04.lean), namespace `Mxj.SeqL`:
  (1) `sortBySeq` is a permutation, sorted, and canonical on lists with distinct `#seq`;
  (2) the streaming decoder `seqElem`/`seqTop` is monotone in fuel and, on the tokens of a
      tree, computes `SeqFold.value`/`SeqFold.doc`;
  (3) the normal form of the decoded value of an in-domain element (`SeqFold.value`):
      `#attr` entry, text entries, then the grouped children — whose unrolled entries are a
      permutation of the decorated children in document order (`items`), numbered consecutively;
  (4) the tree-form encoder `seqEncTree` undoes the decoder on the domain.
-/
import Mxj.Model.SeqTree
import Mxj.Lemmas.Decode
import Mxj.Lemmas.Leaf
namespace Mxj
namespace SeqL
open Mxj.Dec

/-! ### (1) sorting by `#seq` -/

theorem insertBySeq_perm (c : SeqCfg) (e : Str × Val) : ∀ (l : List (Str × Val)),
    (insertBySeq c e l).Perm (e :: l)
  | [] => by simp [insertBySeq]
  | x :: xs => by
      simp only [insertBySeq]
      split
      · exact ((insertBySeq_perm c e xs).cons x).trans (List.Perm.swap e x xs)
      · exact List.Perm.refl _

theorem sortBySeq_cons (c : SeqCfg) (x : Str × Val) (xs : List (Str × Val)) :
    sortBySeq c (x :: xs) = insertBySeq c x (sortBySeq c xs) := rfl

theorem sortBySeq_perm (c : SeqCfg) : ∀ (l : List (Str × Val)), (sortBySeq c l).Perm l
  | [] => by simp [sortBySeq]
  | x :: xs => by
      rw [sortBySeq_cons]
      exact (insertBySeq_perm c x _).trans ((sortBySeq_perm c xs).cons x)

def SeqSorted (c : SeqCfg) (l : List (Str × Val)) : Prop :=
  l.Pairwise (fun a b => seqOf c a.2 ≤ seqOf c b.2)

theorem insertBySeq_sorted (c : SeqCfg) (e : Str × Val) : ∀ (l : List (Str × Val)),
    SeqSorted c l → SeqSorted c (insertBySeq c e l)
  | [], _ => by simp [insertBySeq, SeqSorted]
  | x :: xs, h => by
      unfold SeqSorted at h ⊢
      rw [List.pairwise_cons] at h
      simp only [insertBySeq]
      split
      · rename_i hx
        rw [List.pairwise_cons]
        refine ⟨?_, insertBySeq_sorted c e xs h.2⟩
        intro y hy
        rcases List.mem_cons.1 ((insertBySeq_perm c e xs).mem_iff.1 hy) with rfl | hy
        · exact hx
        · exact h.1 y hy
      · rename_i hx
        have hex : seqOf c e.2 ≤ seqOf c x.2 := by omega
        rw [List.pairwise_cons]
        refine ⟨?_, List.pairwise_cons.2 h⟩
        intro y hy
        rcases List.mem_cons.1 hy with rfl | hy
        · exact hex
        · exact Nat.le_trans hex (h.1 y hy)

theorem sortBySeq_sorted (c : SeqCfg) : ∀ (l : List (Str × Val)), SeqSorted c (sortBySeq c l)
  | [] => by simp [sortBySeq, SeqSorted]
  | x :: xs => by
      rw [sortBySeq_cons]
      exact insertBySeq_sorted c x _ (sortBySeq_sorted c xs)

/-- two members of a strictly increasing list with the same key are the same -/
theorem eq_of_pairwise_lt {α : Type} (k : α → Nat) : ∀ (l : List α),
    l.Pairwise (fun a b => k a < k b) → ∀ a ∈ l, ∀ b ∈ l, k a = k b → a = b
  | [], _, a, ha, _, _, _ => by simp at ha
  | x :: xs, h, a, ha, b, hb, e => by
      rw [List.pairwise_cons] at h
      rcases List.mem_cons.1 ha with ha1 | ha1 <;> rcases List.mem_cons.1 hb with hb1 | hb1
      · rw [ha1, hb1]
      · subst ha1; have := h.1 b hb1; omega
      · subst hb1; have := h.1 a ha1; omega
      · exact eq_of_pairwise_lt k xs h.2 a ha1 b hb1 e

theorem sortBySeq_inverts_perm (c : SeqCfg) (l p : List (Str × Val)) (hp : List.Perm p l)
    (hsorted : List.Pairwise (fun a b => seqOf c a.2 < seqOf c b.2) l) : sortBySeq c p = l := by
  have hle : SeqSorted c l := hsorted.imp (fun h => Nat.le_of_lt h)
  refine List.Perm.eq_of_pairwise ?_ (sortBySeq_sorted c p) hle ((sortBySeq_perm c p).trans hp)
  intro a b ha hb hab hba
  have ha' : a ∈ l := ((sortBySeq_perm c p).trans hp).mem_iff.1 ha
  exact eq_of_pairwise_lt (fun e => seqOf c e.2) l hsorted a ha' b hb (Nat.le_antisymm hab hba)

theorem sortBySeq_of_sorted (c : SeqCfg) (l : List (Str × Val))
    (hsorted : List.Pairwise (fun a b => seqOf c a.2 < seqOf c b.2) l) : sortBySeq c l = l :=
  sortBySeq_inverts_perm c l l (List.Perm.refl _) hsorted

/-! ### (2) fuel monotonicity; the stream decoder computes the tree fold -/

theorem seqElem_text (c : SeqCfg) (S : Strconv) (fin : StreamEnd) (f : Nat) (skey : Str)
    (na : Entries) (seq : Nat) (pend : Option (Str × Bool)) (s : Str) (rest : List Tok) :
    seqElem c S fin (f + 1) skey na seq pend (.text s :: rest)
      = seqElem c S fin f skey (SeqFold.onText c S na seq pend s).1
          (SeqFold.onText c S na seq pend s).2.1 (SeqFold.onText c S na seq pend s).2.2 rest := by
  rcases pend with _ | ⟨p, b⟩
  · simp only [seqElem, SeqFold.onText]
    by_cases h1 : (escDecIf c.dec (trimChars (trimSet c.dec) ([] ++ s))).isEmpty = true
    · simp only [h1, if_true]
    · simp only [h1, if_false, Bool.false_eq_true]
  · simp only [seqElem, SeqFold.onText]
    by_cases h1 : (escDecIf c.dec (trimChars (trimSet c.dec) (p ++ s))).isEmpty = true
    · simp only [h1, if_true]
    · cases b <;> simp only [h1, if_false, if_true, Bool.false_eq_true]

theorem seqElem_mono (c : SeqCfg) (S : Strconv) (fin : StreamEnd) :
    ∀ (f : Nat) (skey : Str) (na : Entries) (seq : Nat) (pend : Option (Str × Bool))
      (toks : List Tok) (r : Val × List Tok),
      seqElem c S fin f skey na seq pend toks = .ok r →
      seqElem c S fin (f + 1) skey na seq pend toks = .ok r := by
  intro f
  induction f with
  | zero => intro skey na seq pend toks r h; simp [seqElem] at h
  | succ f ih =>
    intro skey na seq pend toks r h
    match toks with
    | [] => cases fin <;> simp [seqElem] at h
    | .stop _ _ :: rest => simpa [seqElem] using h
    | .text s :: rest =>
      rw [seqElem_text] at h ⊢
      exact ih _ _ _ _ _ _ h
    | .comment _ :: rest =>
      simp only [seqElem] at h ⊢
      exact ih _ _ _ _ _ _ h
    | .procinst _ _ :: rest =>
      simp only [seqElem] at h ⊢
      exact ih _ _ _ _ _ _ h
    | .directive _ :: rest =>
      simp only [seqElem] at h ⊢
      exact ih _ _ _ _ _ _ h
    | .start sp name attrs :: rest =>
      simp only [seqElem] at h ⊢
      cases hp : seqElem c S fin f (qualName c sp name) (seqInitNa c S attrs) 0 none rest with
      | ok p =>
        obtain ⟨v, rest'⟩ := p
        simp only [hp] at h
        rw [ih _ _ _ _ _ _ hp]
        exact ih _ _ _ _ _ _ h
      | eof => simp [hp] at h
      | «syntax» => simp [hp] at h
      | err k => simp [hp] at h
      | panic s => simp [hp] at h

theorem seqElem_mono_le (c : SeqCfg) (S : Strconv) (fin : StreamEnd) {f g : Nat} (hfg : f ≤ g)
    {skey : Str} {na : Entries} {seq : Nat} {pend : Option (Str × Bool)}
    {toks : List Tok} {r : Val × List Tok}
    (h : seqElem c S fin f skey na seq pend toks = .ok r) :
    seqElem c S fin g skey na seq pend toks = .ok r := by
  induction hfg with
  | refl => exact h
  | step _ ih => exact seqElem_mono c S fin _ _ _ _ _ _ _ ih

theorem seqTop_mono (c : SeqCfg) (S : Strconv) (fin : StreamEnd) :
    ∀ (f : Nat) (toks : List Tok) (r : SeqTop),
      seqTop c S fin f toks = .ok r → seqTop c S fin (f + 1) toks = .ok r := by
  intro f
  induction f with
  | zero => intro toks r h; simp [seqTop] at h
  | succ f ih =>
    intro toks r h
    match toks with
    | [] => cases fin <;> simp [seqTop] at h
    | .stop _ _ :: rest => simp [seqTop] at h
    | .text s :: rest => simp only [seqTop] at h ⊢; exact ih _ _ h
    | .comment _ :: rest => simpa only [seqTop] using h
    | .procinst _ _ :: rest => simpa only [seqTop] using h
    | .directive _ :: rest => simpa only [seqTop] using h
    | .start sp name attrs :: rest =>
      simp only [seqTop] at h ⊢
      cases hp : seqElem c S fin f (qualName c sp name) (seqInitNa c S attrs) 0 none rest with
      | ok p =>
        obtain ⟨v, rest'⟩ := p
        simp only [hp] at h
        rw [seqElem_mono c S fin _ _ _ _ _ _ _ hp]
        exact h
      | eof => simp [hp] at h
      | «syntax» => simp [hp] at h
      | err k => simp [hp] at h
      | panic s => simp [hp] at h

theorem seqTop_mono_le (c : SeqCfg) (S : Strconv) (fin : StreamEnd) {f g : Nat} (hfg : f ≤ g)
    {toks : List Tok} {r : SeqTop} (h : seqTop c S fin f toks = .ok r) :
    seqTop c S fin g toks = .ok r := by
  induction hfg with
  | refl => exact h
  | step _ ih => exact seqTop_mono c S fin _ _ _ ih

mutual
theorem seq_parse_tree (c : SeqCfg) (S : Strconv) (fin : StreamEnd) : ∀ (t : Node),
    match t with
    | .elem sp name attrs ks => ∀ (rest : List Tok) (f : Nat), (flattenKids ks).length + 1 ≤ f →
        seqElem c S fin f (qualName c sp name) (seqInitNa c S attrs) 0 none
          (flattenKids ks ++ Tok.stop sp name :: rest) = .ok (SeqFold.value c S t, rest)
    | _ => True
  | .elem sp name attrs ks => by
      intro rest f hf
      have := seq_parse_kids c S fin ks sp name (seqInitNa c S attrs) 0 none rest f hf
      simpa [SeqFold.value] using this
  | .text _ => trivial
  | .comment _ => trivial
  | .procinst _ _ => trivial
  | .directive _ => trivial
theorem seq_parse_kids (c : SeqCfg) (S : Strconv) (fin : StreamEnd) : ∀ (ks : List Node)
    (sp nm : Str) (na : Entries) (seq : Nat) (pend : Option (Str × Bool))
    (rest : List Tok) (f : Nat), (flattenKids ks).length + 1 ≤ f →
    seqElem c S fin f (qualName c sp nm) na seq pend (flattenKids ks ++ Tok.stop sp nm :: rest) =
      .ok (SeqFold.finish (SeqFold.kids' c S (na, seq, pend) ks).1, rest)
  | [], sp, nm, na, seq, pend, rest, f, hf => by
      obtain ⟨f, rfl⟩ : ∃ g, f = g + 1 := ⟨f - 1, by simp [flattenKids] at hf; omega⟩
      simp [flattenKids, seqElem, SeqFold.kids', SeqFold.finish]
  | .text s :: ks, sp, nm, na, seq, pend, rest, f, hf => by
      simp only [flattenKids, flatten, List.length_append, List.length_cons, List.length_nil] at hf
      obtain ⟨f, rfl⟩ : ∃ g, f = g + 1 := ⟨f - 1, by omega⟩
      have ih := seq_parse_kids c S fin ks sp nm
        (SeqFold.onText c S na seq pend s).1 (SeqFold.onText c S na seq pend s).2.1
        (SeqFold.onText c S na seq pend s).2.2 rest f (by omega)
      simp only [flattenKids, flatten, List.cons_append, List.nil_append, SeqFold.kids']
      rw [seqElem_text]
      exact ih
  | .comment s :: ks, sp, nm, na, seq, pend, rest, f, hf => by
      simp only [flattenKids, flatten, List.length_append, List.length_cons, List.length_nil] at hf
      obtain ⟨f, rfl⟩ : ∃ g, f = g + 1 := ⟨f - 1, by omega⟩
      have ih := seq_parse_kids c S fin ks sp nm
        (insert c.commentK (.map [(c.textK, .str s), (c.seqK, seqNum seq)]) na) (seq + 1) none
        rest f (by omega)
      simp only [flattenKids, flatten, List.cons_append, List.nil_append, seqElem, SeqFold.kids']
      exact ih
  | .procinst a b :: ks, sp, nm, na, seq, pend, rest, f, hf => by
      simp only [flattenKids, flatten, List.length_append, List.length_cons, List.length_nil] at hf
      obtain ⟨f, rfl⟩ : ∃ g, f = g + 1 := ⟨f - 1, by omega⟩
      have ih := seq_parse_kids c S fin ks sp nm
        (insert c.procinstK (.map [(c.targetK, .str a), (c.instK, .str b), (c.seqK, seqNum seq)]) na)
        (seq + 1) none rest f (by omega)
      simp only [flattenKids, flatten, List.cons_append, List.nil_append, seqElem, SeqFold.kids']
      exact ih
  | .directive s :: ks, sp, nm, na, seq, pend, rest, f, hf => by
      simp only [flattenKids, flatten, List.length_append, List.length_cons, List.length_nil] at hf
      obtain ⟨f, rfl⟩ : ∃ g, f = g + 1 := ⟨f - 1, by omega⟩
      have ih := seq_parse_kids c S fin ks sp nm
        (insert c.directiveK (.map [(c.textK, .str s), (c.seqK, seqNum seq)]) na) (seq + 1) none
        rest f (by omega)
      simp only [flattenKids, flatten, List.cons_append, List.nil_append, seqElem, SeqFold.kids']
      exact ih
  | .elem sp' name attrs ks' :: ks, sp, nm, na, seq, pend, rest, f, hf => by
      simp only [flattenKids, flatten, List.length_append, List.length_cons, List.length_nil] at hf
      obtain ⟨f, rfl⟩ : ∃ g, f = g + 1 := ⟨f - 1, by omega⟩
      have h1 := seq_parse_tree c S fin (.elem sp' name attrs ks')
      simp only at h1
      have h1' := h1 (flattenKids ks ++ Tok.stop sp nm :: rest) f (by omega)
      have h2 := seq_parse_kids c S fin ks sp nm
        (addChild na (qualName c sp' name)
          (seqChild c seq (SeqFold.value c S (.elem sp' name attrs ks'))))
        (seq + 1) none rest f (by omega)
      simp only [flattenKids, flatten, List.cons_append, List.nil_append, List.append_assoc, seqElem,
        SeqFold.kids']
      rw [h1']
      exact h2
end

/-- the first call on the tokens of an element: explicit fuel bound -/
theorem seqTop_tree (c : SeqCfg) (S : Strconv) (fin : StreamEnd)
    (sp name : Str) (attrs : List Attr) (kids : List Node) (rest : List Tok) (f : Nat)
    (hf : (flattenKids kids).length + 2 ≤ f) :
    seqTop c S fin f (flatten (.elem sp name attrs kids) ++ rest)
      = .ok (.doc (SeqFold.doc c S (.elem sp name attrs kids))) := by
  obtain ⟨f, rfl⟩ : ∃ g, f = g + 1 := ⟨f - 1, by omega⟩
  have h := seq_parse_tree c S fin (.elem sp name attrs kids)
  simp only at h
  have h' := h rest f (by omega)
  simp only [flatten, List.cons_append, List.append_assoc, List.nil_append, seqTop, h', SeqFold.doc]

def isText : Tok → Bool
  | .text _ => true
  | _ => false

/-- leading character data (BOM, white space) costs one unit of fuel per token -/
theorem seqTop_skip (c : SeqCfg) (S : Strconv) (fin : StreamEnd) :
    ∀ (pre : List Tok), (∀ t ∈ pre, isText t = true) → ∀ (f : Nat) (toks : List Tok),
      seqTop c S fin (pre.length + f) (pre ++ toks) = seqTop c S fin f toks
  | [], _, f, toks => by simp
  | t :: pre, h, f, toks => by
      have ih := seqTop_skip c S fin pre (fun t ht => h t (List.mem_cons_of_mem _ ht)) f toks
      have ht := h t (List.mem_cons_self ..)
      have e : (t :: pre).length + f = (pre.length + f) + 1 := by simp; omega
      rw [e]
      cases t with
      | text _ => simpa only [List.cons_append, seqTop] using ih
      | start _ _ _ => simp [isText] at ht
      | stop _ _ => simp [isText] at ht
      | comment _ => simp [isText] at ht
      | procinst _ _ => simp [isText] at ht
      | directive _ => simp [isText] at ht

theorem newMapXmlSeq_tree (c : SeqCfg) (S : Strconv) (fin : StreamEnd) (pre post : List Tok)
    (hpre : ∀ t ∈ pre, isText t = true) (sp name : Str) (attrs : List Attr) (kids : List Node) :
    newMapXmlSeq c S (pre ++ flatten (.elem sp name attrs kids) ++ post) fin
      = .ok (.doc (SeqFold.doc c S (.elem sp name attrs kids))) := by
  have e : (pre ++ flatten (.elem sp name attrs kids) ++ post).length + 1
      = pre.length + ((flatten (.elem sp name attrs kids)).length + post.length + 1) := by
    simp only [List.length_append]; omega
  unfold newMapXmlSeq
  rw [e, List.append_assoc, seqTop_skip c S fin pre hpre,
    seqTop_tree c S fin sp name attrs kids post _ (by rw [length_flatten_elem]; omega)]

/-! ### (3a) association lists: prefixes, `addAll`, `unrollEntries` -/

theorem keys_nil : keys ([] : Entries) = [] := rfl
theorem keys_cons' (e : Str × Val) (l : Entries) : keys (e :: l) = e.1 :: keys l := rfl
theorem keys_append' (a b : Entries) : keys (a ++ b) = keys a ++ keys b := by
  simp [keys]

theorem insert_append_left (k : Str) (v : Val) : ∀ (P G : Entries), k ∉ keys P →
    insert k v (P ++ G) = P ++ insert k v G
  | [], G, _ => rfl
  | (k', v') :: P, G, h => by
      have h' : k ≠ k' ∧ k ∉ keys P := by simpa [keys] using h
      simp only [List.cons_append, insert, h'.1, if_false]
      rw [insert_append_left k v P G h'.2]

theorem insert_append_right (k : Str) (v : Val) : ∀ (P G : Entries), k ∈ keys P →
    insert k v (P ++ G) = insert k v P ++ G
  | [], G, h => by simp [keys] at h
  | (k', v') :: P, G, h => by
      by_cases e : k = k'
      · simp only [List.cons_append, insert, e, if_true]
      · have h' : k ∈ keys P := by
          rw [keys_cons', List.mem_cons] at h
          rcases h with h | h
          · exact absurd h e
          · exact h
        simp only [List.cons_append, insert, e, if_false]
        rw [insert_append_right k v P G h']

theorem insert_absent (k : Str) (v : Val) : ∀ (P : Entries), k ∉ keys P →
    insert k v P = P ++ [(k, v)] := by
  intro P h
  have := insert_append_left k v P [] h
  simpa [insert] using this

theorem lookup_append_left (k : Str) : ∀ (P G : Entries), k ∉ keys P →
    lookup k (P ++ G) = lookup k G
  | [], G, _ => rfl
  | (k', v') :: P, G, h => by
      have h' : k ≠ k' ∧ k ∉ keys P := by simpa [keys] using h
      simp only [List.cons_append, lookup, h'.1, if_false]
      exact lookup_append_left k P G h'.2

theorem lookup_append_some (k : Str) (v : Val) : ∀ (P G : Entries), lookup k P = some v →
    lookup k (P ++ G) = some v
  | [], G, h => by simp [lookup] at h
  | (k', v') :: P, G, h => by
      by_cases e : k = k'
      · simpa only [List.cons_append, lookup, e, if_true] using h
      · simp only [List.cons_append, lookup, e, if_false] at h ⊢
        exact lookup_append_some k v P G h

theorem not_mem_keys_of_lookup {k : Str} {l : Entries} (h : lookup k l = none) : k ∉ keys l :=
  (Dec.lookup_eq_none_iff k l).1 h

theorem lookup_none_of_not_mem {k : Str} {l : Entries} (h : k ∉ keys l) : lookup k l = none :=
  (Dec.lookup_eq_none_iff k l).2 h

theorem addChild_append_left (k : Str) (v : Val) (P G : Entries) (h : k ∉ keys P) :
    addChild (P ++ G) k v = P ++ addChild G k v := by
  rw [addChild_eq, addChild_eq, lookup_append_left k P G h, insert_append_left k _ P G h]

theorem addAll_append_left (P : Entries) : ∀ (cs : List (Str × Val)) (G : Entries),
    (∀ e ∈ cs, e.1 ∉ keys P) → addAll (P ++ G) cs = P ++ addAll G cs
  | [], G, _ => rfl
  | e :: cs, G, h => by
      rw [addAll_cons, addAll_cons, addChild_append_left _ _ _ _ (h e (List.mem_cons_self ..))]
      exact addAll_append_left P cs _ (fun e' he' => h e' (List.mem_cons_of_mem _ he'))

theorem addAll_isEmpty : ∀ (cs : List (Str × Val)) (G : Entries),
    (addAll G cs).isEmpty = (G.isEmpty && cs.isEmpty)
  | [], G => by simp [addAll_nil]
  | e :: cs, G => by
      rw [addAll_cons, addAll_isEmpty cs, addChild_ne_nil]
      simp

theorem lookup_addAll_none (k : Str) (cs : List (Str × Val)) (G : Entries)
    (h1 : lookup k G = none) (h2 : ∀ e ∈ cs, e.1 ≠ k) : lookup k (addAll G cs) = none := by
  rw [lookup_addAll, h1]
  have : valsOf k cs = [] := by
    apply valsOf_eq_nil
    intro hm
    obtain ⟨e, he, hk⟩ := List.mem_map.1 hm
    exact h2 e he hk
  rw [this]; rfl

/-- the keys `unrollEntries` skips -/
def dropK (c : SeqCfg) (k : Str) : Bool := k = c.attrK || k = c.seqK || k = c.textK

/-- what one entry unrolls to -/
def unroll1 (k : Str) (v : Val) : List (Str × Val) :=
  match v with
  | .list xs => xs.map (fun x => (k, x))
  | v => [(k, v)]

theorem unrollEntries_cons (c : SeqCfg) (k : Str) (v : Val) (rest : Entries) :
    unrollEntries c ((k, v) :: rest)
      = (if dropK c k then [] else unroll1 k v) ++ unrollEntries c rest := by
  unfold dropK
  by_cases h : (k = c.attrK || k = c.seqK || k = c.textK) = true
  · cases v <;> simp only [unrollEntries, h, if_true, List.nil_append]
  · cases v <;> simp only [unrollEntries, h, if_false, Bool.false_eq_true, unroll1, List.cons_append,
      List.nil_append]

theorem unrollEntries_append (c : SeqCfg) : ∀ (X Y : Entries),
    unrollEntries c (X ++ Y) = unrollEntries c X ++ unrollEntries c Y
  | [], Y => by simp [unrollEntries]
  | (k, v) :: X, Y => by
      rw [List.cons_append, unrollEntries_cons, unrollEntries_cons, unrollEntries_append c X Y,
        List.append_assoc]

theorem unrollEntries_dropped (c : SeqCfg) : ∀ (X : Entries), (∀ k ∈ keys X, dropK c k = true) →
    unrollEntries c X = []
  | [], _ => by simp [unrollEntries]
  | (k, v) :: X, h => by
      rw [unrollEntries_cons, h k (by simp [keys]), if_pos rfl,
        unrollEntries_dropped c X (fun k' hk' => h k' (by simp [keys] at hk' ⊢; exact .inr hk'))]
      rfl

theorem unroll1_promote (k : Str) (old v : Val) :
    unroll1 k (promote (some old) v) = unroll1 k old ++ [(k, v)] := by
  cases old <;> simp [promote, unroll1]

theorem unroll1_nonlist (k : Str) (v : Val) (hv : v.isList = false) : unroll1 k v = [(k, v)] := by
  cases v <;> simp [unroll1, Val.isList] at hv ⊢

theorem unrollEntries_addChild (c : SeqCfg) (k : Str) (v : Val) (hk : dropK c k = false)
    (hv : v.isList = false) : ∀ (na : Entries),
    (unrollEntries c (addChild na k v)).Perm (unrollEntries c na ++ [(k, v)])
  | [] => by
      simp only [addChild, lookup, insert, unrollEntries_cons, hk, unroll1_nonlist k v hv]
      simp [unrollEntries]
  | (k', v') :: rest => by
      rw [addChild_eq]
      by_cases e : k = k'
      · subst e
        simp only [lookup, insert, if_true, unrollEntries_cons, hk, Bool.false_eq_true, if_false,
          unroll1_promote k v' v, List.append_assoc]
        exact List.Perm.append_left _ List.perm_append_comm
      · have ih := unrollEntries_addChild c k v hk hv rest
        rw [addChild_eq] at ih
        simp only [lookup, insert, e, if_false, unrollEntries_cons, List.append_assoc]
        exact List.Perm.append_left _ ih

theorem unrollEntries_addAll (c : SeqCfg) : ∀ (cs : List (Str × Val)) (na : Entries),
    (∀ e ∈ cs, dropK c e.1 = false ∧ e.2.isList = false) →
    (unrollEntries c (addAll na cs)).Perm (unrollEntries c na ++ cs)
  | [], na, _ => by simp [addAll_nil]
  | e :: cs, na, h => by
      rw [addAll_cons]
      have h1 := h e (List.mem_cons_self ..)
      refine (unrollEntries_addAll c cs _ (fun e' he' => h e' (List.mem_cons_of_mem _ he'))).trans ?_
      have := (unrollEntries_addChild c e.1 e.2 h1.1 h1.2 na).append_right cs
      simpa [List.append_assoc] using this

/-! ### (3b) configurations; the decorated children of an element -/

/-- what the round trip needs of a configuration: no decoder-side escaping, no cast, and the
    reserved keys pairwise distinct (the default configuration qualifies: `cfgOk_dflt`) -/
structure CfgOk (c : SeqCfg) : Prop where
  escDec : c.escDec = false
  castOff : c.cast.r = false
  ts : c.textK ≠ c.seqK
  ta : c.textK ≠ c.attrK
  tc : c.textK ≠ c.commentK
  td : c.textK ≠ c.directiveK
  tp : c.textK ≠ c.procinstK
  sa : c.seqK ≠ c.attrK
  sc : c.seqK ≠ c.commentK
  sd : c.seqK ≠ c.directiveK
  sp : c.seqK ≠ c.procinstK
  ac : c.attrK ≠ c.commentK
  ad : c.attrK ≠ c.directiveK
  ap : c.attrK ≠ c.procinstK
  cd : c.commentK ≠ c.directiveK
  cp : c.commentK ≠ c.procinstK
  dp : c.directiveK ≠ c.procinstK
  ti : c.targetK ≠ c.instK
  st : c.seqK ≠ c.targetK
  si : c.seqK ≠ c.instK

theorem cfgOk_dflt : CfgOk seqDflt := by
  constructor <;> decide

theorem cast_off (S : Strconv) (cc : CastCfg) (h : cc.r = false) (s t : Str) :
    cast S cc s t = .str s := by
  unfold cast
  split
  · rfl
  · simp [h]

theorem escDecIf_off (c : SeqCfg) (h : c.escDec = false) (s : Str) : escDecIf c.dec s = s := by
  simp [escDecIf, SeqCfg.dec, h]

theorem seqOf_of_lookup (c : SeqCfg) (kvs : Entries) (n : Nat)
    (h : lookup c.seqK kvs = some (seqNum n)) : seqOf c (.map kvs) = n := by
  have e : seqNum n = .num ('i' :: ':' :: natToStr n) := rfl
  rw [e] at h
  simp only [seqOf, h, natToStr_all, Bool.true_and]
  have : (natToStr n).isEmpty = false := by
    cases hn : natToStr n with
    | nil => exact absurd hn (natToStr_ne_nil n)
    | cons _ _ => rfl
  simp [this, digitsVal_natToStr]

theorem seqChild_form (c : SeqCfg) (hts : c.textK ≠ c.seqK) (seq : Nat) (v : Val) :
    ∃ kvs, seqChild c seq v = .map kvs ∧ lookup c.seqK kvs = some (seqNum seq) := by
  have hst : ¬ c.seqK = c.textK := fun e => hts e.symm
  cases v with
  | map kvs => exact ⟨_, rfl, by rw [lookup_insert]; simp⟩
  | null => exact ⟨_, rfl, by simp [lookup, hst]⟩
  | bool _ => exact ⟨_, rfl, by simp [lookup, hst]⟩
  | num _ => exact ⟨_, rfl, by simp [lookup, hst]⟩
  | str _ => exact ⟨_, rfl, by simp [lookup, hst]⟩
  | list _ => exact ⟨_, rfl, by simp [lookup, hst]⟩

theorem seqOf_seqChild (c : SeqCfg) (hts : c.textK ≠ c.seqK) (seq : Nat) (v : Val) :
    seqOf c (seqChild c seq v) = seq := by
  obtain ⟨kvs, e, h⟩ := seqChild_form c hts seq v
  rw [e]; exact seqOf_of_lookup c kvs seq h

theorem seqChild_not_list (c : SeqCfg) (seq : Nat) (v : Val) : (seqChild c seq v).isList = false := by
  cases v <;> rfl

/-- the value stored for a comment / directive -/
def noteVal (c : SeqCfg) (s : Str) (seq : Nat) : Val := .map [(c.textK, .str s), (c.seqK, seqNum seq)]
/-- the value stored for a processing instruction -/
def piVal (c : SeqCfg) (t i : Str) (seq : Nat) : Val :=
  .map [(c.targetK, .str t), (c.instK, .str i), (c.seqK, seqNum seq)]

theorem seqOf_noteVal (c : SeqCfg) (hts : c.textK ≠ c.seqK) (s : Str) (seq : Nat) :
    seqOf c (noteVal c s seq) = seq := by
  have hst : ¬ c.seqK = c.textK := fun e => hts e.symm
  exact seqOf_of_lookup c _ seq (by simp [lookup, hst])

theorem seqOf_piVal (c : SeqCfg) (h1 : c.seqK ≠ c.targetK) (h2 : c.seqK ≠ c.instK) (t i : Str)
    (seq : Nat) : seqOf c (piVal c t i seq) = seq :=
  seqOf_of_lookup c _ seq (by simp [lookup, h1, h2])

/-- the entries the non-text children of an element contribute, in document order, numbered
    consecutively from `seq` -/
def items (c : SeqCfg) (S : Strconv) : Nat → List Node → List (Str × Val)
  | _, [] => []
  | seq, .elem sp name attrs ks :: rest =>
      (qualName c sp name, seqChild c seq (SeqFold.value c S (.elem sp name attrs ks)))
        :: items c S (seq + 1) rest
  | seq, .text _ :: rest => items c S seq rest
  | seq, .comment s :: rest => (c.commentK, noteVal c s seq) :: items c S (seq + 1) rest
  | seq, .directive s :: rest => (c.directiveK, noteVal c s seq) :: items c S (seq + 1) rest
  | seq, .procinst t i :: rest => (c.procinstK, piVal c t i seq) :: items c S (seq + 1) rest

/-- numbering: the k-th non-text child carries `#seq` = `seq + k` -/
theorem items_seqs (c : SeqCfg) (S : Strconv) (hc : CfgOk c) : ∀ (kids : List Node) (seq : Nat),
    (items c S seq kids).map (fun e => seqOf c e.2) = List.range' seq (items c S seq kids).length
  | [], seq => by simp [items]
  | .elem sp name attrs ks :: rest, seq => by
      simp only [items, List.map_cons, List.length_cons, List.range'_succ, seqOf_seqChild c hc.ts,
        items_seqs c S hc rest (seq + 1)]
  | .text _ :: rest, seq => by simp only [items]; exact items_seqs c S hc rest seq
  | .comment s :: rest, seq => by
      simp only [items, List.map_cons, List.length_cons, List.range'_succ, seqOf_noteVal c hc.ts,
        items_seqs c S hc rest (seq + 1)]
  | .directive s :: rest, seq => by
      simp only [items, List.map_cons, List.length_cons, List.range'_succ, seqOf_noteVal c hc.ts,
        items_seqs c S hc rest (seq + 1)]
  | .procinst t i :: rest, seq => by
      simp only [items, List.map_cons, List.length_cons, List.range'_succ,
        seqOf_piVal c hc.st hc.si, items_seqs c S hc rest (seq + 1)]

theorem items_pairwise (c : SeqCfg) (S : Strconv) (hc : CfgOk c) (kids : List Node) (seq : Nat) :
    (items c S seq kids).Pairwise (fun a b => seqOf c a.2 < seqOf c b.2) := by
  have h : ((items c S seq kids).map (fun e => seqOf c e.2)).Pairwise (· < ·) := by
    rw [items_seqs c S hc]; exact List.pairwise_lt_range'
  exact List.pairwise_map.1 h

theorem items_not_list (c : SeqCfg) (S : Strconv) : ∀ (kids : List Node) (seq : Nat),
    ∀ e ∈ items c S seq kids, e.2.isList = false
  | [], seq, e, h => by simp [items] at h
  | .elem sp name attrs ks :: rest, seq, e, h => by
      simp only [items, List.mem_cons] at h
      rcases h with rfl | h
      · exact seqChild_not_list ..
      · exact items_not_list c S rest _ e h
  | .text _ :: rest, seq, e, h => by
      simp only [items] at h; exact items_not_list c S rest _ e h
  | .comment _ :: rest, seq, e, h => by
      simp only [items, List.mem_cons] at h
      rcases h with rfl | h
      · rfl
      · exact items_not_list c S rest _ e h
  | .directive _ :: rest, seq, e, h => by
      simp only [items, List.mem_cons] at h
      rcases h with rfl | h
      · rfl
      · exact items_not_list c S rest _ e h
  | .procinst _ _ :: rest, seq, e, h => by
      simp only [items, List.mem_cons] at h
      rcases h with rfl | h
      · rfl
      · exact items_not_list c S rest _ e h

/-- the element's own key is not reserved -/
theorem seqDomain_key {c : SeqCfg} {sp name : Str} {attrs : List Attr} {kids : List Node}
    (h : seqDomain c (.elem sp name attrs kids) = true) :
    qualName c sp name ∉ hashKeys c := by
  simp only [seqDomain, Bool.and_eq_true, Bool.not_eq_true', List.contains_eq_mem,
    decide_eq_false_iff_not] at h
  exact h.1.1.1.1.1.1.1

theorem not_hash {c : SeqCfg} {k : Str} (h : k ∉ hashKeys c) :
    k ≠ c.textK ∧ k ≠ c.seqK ∧ k ≠ c.attrK ∧ k ≠ c.commentK ∧ k ≠ c.directiveK ∧ k ≠ c.procinstK := by
  simpa [hashKeys] using h

/-- no child entry sits under the text, sequence or attribute key -/
theorem items_keys (c : SeqCfg) (S : Strconv) (hc : CfgOk c) : ∀ (kids : List Node) (seq : Nat),
    seqDomainKids c kids = true →
    ∀ e ∈ items c S seq kids, e.1 ≠ c.textK ∧ e.1 ≠ c.seqK ∧ e.1 ≠ c.attrK
  | [], seq, _, e, h => by simp [items] at h
  | .elem sp name attrs ks :: rest, seq, hd, e, h => by
      simp only [seqDomainKids, Bool.and_eq_true] at hd
      simp only [items, List.mem_cons] at h
      rcases h with rfl | h
      · have := not_hash (seqDomain_key hd.1)
        exact ⟨this.1, this.2.1, this.2.2.1⟩
      · exact items_keys c S hc rest _ hd.2 e h
  | .text _ :: rest, seq, hd, e, h => by
      simp only [seqDomainKids] at hd
      simp only [items] at h; exact items_keys c S hc rest _ hd e h
  | .comment _ :: rest, seq, hd, e, h => by
      simp only [seqDomainKids] at hd
      simp only [items, List.mem_cons] at h
      rcases h with rfl | h
      · exact ⟨hc.tc.symm, hc.sc.symm, hc.ac.symm⟩
      · exact items_keys c S hc rest _ hd e h
  | .directive _ :: rest, seq, hd, e, h => by
      simp only [seqDomainKids] at hd
      simp only [items, List.mem_cons] at h
      rcases h with rfl | h
      · exact ⟨hc.td.symm, hc.sd.symm, hc.ad.symm⟩
      · exact items_keys c S hc rest _ hd e h
  | .procinst _ _ :: rest, seq, hd, e, h => by
      simp only [seqDomainKids] at hd
      simp only [items, List.mem_cons] at h
      rcases h with rfl | h
      · exact ⟨hc.tp.symm, hc.sp.symm, hc.ap.symm⟩
      · exact items_keys c S hc rest _ hd e h

/-! ### (3c) the fold over children without (non-blank) text is `addAll` of the items -/

def startsText : List Node → Bool
  | .text _ :: _ => true
  | _ => false

theorem onText_blank (c : SeqCfg) (S : Strconv) (hc : CfgOk c) (na : Entries) (seq : Nat) (s : Str)
    (hb : isBlankText c s = true) :
    SeqFold.onText c S na seq none s = (na, seq, some (s, false)) := by
  have : (escDecIf c.dec (trimChars (trimSet c.dec) ([] ++ s))).isEmpty = true := by
    rw [escDecIf_off c hc.escDec]; exact hb
  simp only [SeqFold.onText, this, if_true, List.nil_append]

theorem onText_first (c : SeqCfg) (S : Strconv) (hc : CfgOk c) (na : Entries) (seq : Nat) (s : Str)
    (hb : isBlankText c s = false) :
    SeqFold.onText c S na seq none s
      = (insert c.seqK (seqNum seq) (insert c.textK (.str (seqTrim c s)) na), seq + 1,
          some (s, true)) := by
  have : (escDecIf c.dec (trimChars (trimSet c.dec) ([] ++ s))).isEmpty = false := by
    rw [escDecIf_off c hc.escDec]; exact hb
  simp only [SeqFold.onText, this, Bool.false_eq_true, if_false, List.nil_append,
    cast_off S c.cast hc.castOff, escDecIf_off c hc.escDec, seqTrim]

theorem addChild_of_none (na : Entries) (k : Str) (v : Val) (h : lookup k na = none) :
    addChild na k v = insert k v na := by
  simp [addChild, h]

theorem noAdjTop_text {s : Str} {rest : List Node} (h : noAdjTop (.text s :: rest) = true) :
    startsText rest = false ∧ noAdjTop rest = true := by
  cases rest with
  | nil => simp [startsText, noAdjTop]
  | cons k r => cases k <;> simp_all [startsText, noAdjTop]

theorem noAdjTop_tail {k : Node} {rest : List Node} (h : noAdjTop (k :: rest) = true) :
    noAdjTop rest = true := by
  cases k with
  | text s => exact (noAdjTop_text h).2
  | elem _ _ _ _ => simpa [noAdjTop] using h
  | comment _ => simpa [noAdjTop] using h
  | directive _ => simpa [noAdjTop] using h
  | procinst _ _ => simpa [noAdjTop] using h

theorem kids'_items (c : SeqCfg) (S : Strconv) (hc : CfgOk c) : ∀ (kids : List Node) (na : Entries)
    (seq : Nat) (pend : Option (Str × Bool)),
    noText c kids = true → noAdjTop kids = true → (pend = none ∨ startsText kids = false) →
    seqDomainKids c kids = true →
    nComments kids ≤ 1 → (0 < nComments kids → lookup c.commentK na = none) →
    nDirectives kids ≤ 1 → (0 < nDirectives kids → lookup c.directiveK na = none) →
    nProcinsts kids ≤ 1 → (0 < nProcinsts kids → lookup c.procinstK na = none) →
    (SeqFold.kids' c S (na, seq, pend) kids).1 = addAll na (items c S seq kids)
  | [], na, seq, pend, _, _, _, _, _, _, _, _, _, _ => by simp [SeqFold.kids', items, addAll_nil]
  | .text s :: rest, na, seq, pend, ht, ha, hp, hd, c1, c2, d1, d2, p1, p2 => by
      simp only [noText, Bool.and_eq_true] at ht
      have hpn : pend = none := by
        rcases hp with h | h
        · exact h
        · simp [startsText] at h
      subst hpn
      have hr := noAdjTop_text ha
      simp only [SeqFold.kids', items, onText_blank c S hc na seq s ht.1]
      exact kids'_items c S hc rest na seq _ ht.2 hr.2 (.inr hr.1) (by simpa [seqDomainKids] using hd)
        (by simpa [nComments] using c1) (by simpa [nComments] using c2)
        (by simpa [nDirectives] using d1) (by simpa [nDirectives] using d2)
        (by simpa [nProcinsts] using p1) (by simpa [nProcinsts] using p2)
  | .elem sp name attrs ks :: rest, na, seq, pend, ht, ha, hp, hd, c1, c2, d1, d2, p1, p2 => by
      simp only [seqDomainKids, Bool.and_eq_true] at hd
      have hk := not_hash (seqDomain_key hd.1)
      simp only [SeqFold.kids', items, addAll_cons]
      refine kids'_items c S hc rest _ (seq + 1) none (by simpa [noText] using ht) (noAdjTop_tail ha)
        (.inl rfl) hd.2 (by simpa [nComments] using c1) ?_ (by simpa [nDirectives] using d1) ?_
        (by simpa [nProcinsts] using p1) ?_
      · intro h; rw [lookup_addChild, if_neg (fun e => hk.2.2.2.1 e.symm)]
        exact c2 (by simpa [nComments] using h)
      · intro h; rw [lookup_addChild, if_neg (fun e => hk.2.2.2.2.1 e.symm)]
        exact d2 (by simpa [nDirectives] using h)
      · intro h; rw [lookup_addChild, if_neg (fun e => hk.2.2.2.2.2 e.symm)]
        exact p2 (by simpa [nProcinsts] using h)
  | .comment t :: rest, na, seq, pend, ht, ha, hp, hd, c1, c2, d1, d2, p1, p2 => by
      simp only [nComments] at c1 c2
      have c0 : nComments rest = 0 := by omega
      simp only [SeqFold.kids', items, addAll_cons, addChild_of_none na _ _ (c2 (by omega)), noteVal]
      refine kids'_items c S hc rest _ (seq + 1) none (by simpa [noText] using ht) (noAdjTop_tail ha)
        (.inl rfl) (by simpa [seqDomainKids] using hd) (by omega) (by omega)
        (by simpa [nDirectives] using d1) ?_ (by simpa [nProcinsts] using p1) ?_
      · intro h; rw [lookup_insert, if_neg hc.cd.symm]
        exact d2 (by simpa [nDirectives] using h)
      · intro h; rw [lookup_insert, if_neg hc.cp.symm]
        exact p2 (by simpa [nProcinsts] using h)
  | .directive t :: rest, na, seq, pend, ht, ha, hp, hd, c1, c2, d1, d2, p1, p2 => by
      simp only [nDirectives] at d1 d2
      have d0 : nDirectives rest = 0 := by omega
      simp only [SeqFold.kids', items, addAll_cons, addChild_of_none na _ _ (d2 (by omega)), noteVal]
      refine kids'_items c S hc rest _ (seq + 1) none (by simpa [noText] using ht) (noAdjTop_tail ha)
        (.inl rfl) (by simpa [seqDomainKids] using hd) (by simpa [nComments] using c1) ?_
        (by omega) (by omega) (by simpa [nProcinsts] using p1) ?_
      · intro h; rw [lookup_insert, if_neg hc.cd]
        exact c2 (by simpa [nComments] using h)
      · intro h; rw [lookup_insert, if_neg hc.dp.symm]
        exact p2 (by simpa [nProcinsts] using h)
  | .procinst t i :: rest, na, seq, pend, ht, ha, hp, hd, c1, c2, d1, d2, p1, p2 => by
      simp only [nProcinsts] at p1 p2
      have p0 : nProcinsts rest = 0 := by omega
      simp only [SeqFold.kids', items, addAll_cons, addChild_of_none na _ _ (p2 (by omega)), piVal]
      refine kids'_items c S hc rest _ (seq + 1) none (by simpa [noText] using ht) (noAdjTop_tail ha)
        (.inl rfl) (by simpa [seqDomainKids] using hd) (by simpa [nComments] using c1) ?_
        (by simpa [nDirectives] using d1) ?_ (by omega) (by omega)
      · intro h; rw [lookup_insert, if_neg hc.cp]
        exact c2 (by simpa [nComments] using h)
      · intro h; rw [lookup_insert, if_neg hc.dp]
        exact d2 (by simpa [nDirectives] using h)

end SeqL
end Mxj
