/-
  Mxj.Lemmas.EncodeIndent — helper definitions and lemmas for Props/C02ExtIndent.lean:
  (1) `renderI`: the indented rendering of a tree; `marshalI` (Model/EncodeIndent.lean) writes
      `renderI` of the tree `encTree` builds, on `Regular` values;
  (2) `layI`: the same tree with the layout made explicit as extra text nodes; `renderI` is the
      canonical rendering (`render`) of `layI`; the tokens of `layI` are the tokens of the tree
      plus white-space text tokens (`WsExt`);
  (3) the decoder (`Fold.value`, hence `newMapXml`) does not see those extra text nodes when
      their characters are in the decoder's trim set.
  Namespace `Mxj.Enc`.
-/
import Mxj.Model.EncodeIndent
import Mxj.Lemmas.Encode
import Mxj.Lemmas.Decode
namespace Mxj.Enc
open Mxj

/-! ### the `pretty` state -/

@[simp] theorem Pretty.outdent_indent (p : Pretty) (ind : Str) :
    (p.indentP ind).outdentP ind = p := by
  cases p
  simp [Pretty.indentP, Pretty.outdentP]

@[simp] theorem Pretty.indentP_start (p : Pretty) (ind : Str) : (p.indentP ind).start = p.start := rfl
@[simp] theorem Pretty.indentP_cnt (p : Pretty) (ind : Str) : (p.indentP ind).cnt = p.cnt + 1 := rfl
@[simp] theorem Pretty.indentP_padding (p : Pretty) (ind : Str) :
    (p.indentP ind).padding = p.padding ++ ind := rfl
@[simp] theorem Pretty.deeper_start (p : Pretty) : p.deeper.start = p.start := rfl
@[simp] theorem Pretty.deeper_cnt (p : Pretty) : p.deeper.cnt = p.cnt := rfl
@[simp] theorem Pretty.deeper_padding (p : Pretty) : p.deeper.padding = p.padding := rfl

/-! ### the indented rendering of a tree -/

/-- the newline that ends everything below the root -/
def nlOf (cnt : Nat) : Str := if cnt > 0 then ['\n'] else []

theorem nlIf_eq (p : Pretty) (h : p.start = 0) : nlIf p = nlOf p.cnt := by
  simp [nlIf, nlOf, h]

mutual
/-- the indented rendering of an element at nesting count `cnt` with padding `pad`:
    `pad`, the start tag, the content, the end tag, and a newline when `cnt > 0`.
    * no children, or no ELEMENT child (text only): the content is written exactly as `render`
      writes it — nothing is inserted inside such an element;
    * at least one element child: a newline goes before the first element child (that is,
      directly after `>` or after the leading text), every element child is rendered one level
      deeper (`cnt + 1`, `pad ++ indent`), and `pad` goes before the end tag.
    Anything that is not an element is rendered as `render` does. -/
def renderI (cfg : EncCfg) (indent : Str) : Nat → Str → Node → Str
  | cnt, pad, .elem _ name attrs kids =>
      pad ++ "<".toList ++ name ++ renderAttrs cfg attrs ++
        (if kids.isEmpty then endOf cfg name 0
         else if kids.any isElem then
           ">".toList ++ renderBodyI cfg indent (cnt + 1) (pad ++ indent) true kids ++ pad ++ closeTag name
         else ">".toList ++ renderKids cfg kids ++ closeTag name) ++ nlOf cnt
  | _, _, .text s => escIf cfg s
  | _, _, _ => []
/-- the children of an element that has element children; `first`: no element child yet -/
def renderBodyI (cfg : EncCfg) (indent : Str) : Nat → Str → Bool → List Node → Str
  | _, _, _, [] => []
  | cnt, pad, first, k :: ks =>
      (if first && isElem k then ['\n'] else []) ++ renderI cfg indent cnt pad k
        ++ renderBodyI cfg indent cnt pad (first && !isElem k) ks
end

/-- siblings, all rendered at the same level -/
def renderSibsI (cfg : EncCfg) (indent : Str) (cnt : Nat) (pad : Str) (ns : List Node) : Str :=
  ns.flatMap (renderI cfg indent cnt pad)

/-! ### `Regular`: the values on which the layout is a function of the tree

  The tree does not tell an empty list from `nil`/`""` (all are `<key/>`), a list inside a list
  from its flattened members, or a map with two text-key entries (impossible for a Go map; the
  association-list model allows it) from a simple element — but the Go code lays these out
  differently (see Model/EncodeIndent.lean). -/

/-- the number of entries under the text key -/
def textCount (cfg : EncCfg) : Entries → Nat
  | [] => 0
  | (k, _) :: rest => (if k = cfg.textK then 1 else 0) + textCount cfg rest

/-- at most one entry under the text key (always so for a Go map) -/
def textOnce (cfg : EncCfg) (kvs : Entries) : Bool := decide (textCount cfg kvs ≤ 1)

mutual
/-- no empty list, no list directly inside a list, at most one text-key entry per map -/
def Regular (cfg : EncCfg) : Val → Bool
  | .list xs => !xs.isEmpty && RegularMembers cfg xs
  | .map kvs => textOnce cfg kvs && RegularEntries cfg kvs
  | _ => true
def RegularMembers (cfg : EncCfg) : List Val → Bool
  | [] => true
  | x :: xs => !x.isList && Regular cfg x && RegularMembers cfg xs
def RegularEntries (cfg : EncCfg) : Entries → Bool
  | [] => true
  | (_, v) :: rest => Regular cfg v && RegularEntries cfg rest
end

/-! ### the encoder's trees consist of elements -/

mutual
theorem encTree_all_elem (cfg : EncCfg) : ∀ (key : Str) (v : Val) (ns : List Node),
    encTree cfg key v = .ok ns → ∀ n ∈ ns, isElem n = true
  | key, .null, ns, h => by simp only [encTree, Except.ok.injEq] at h; subst h; simp [isElem]
  | key, .str s, ns, h => by simp only [encTree, Except.ok.injEq] at h; subst h; simp [isElem]
  | key, .bool b, ns, h => by
      cases b <;> simp only [encTree, fmtV, Except.ok.injEq] at h <;> subst h <;> simp [isElem]
  | key, .num t, ns, h => by simp only [encTree, fmtV, Except.ok.injEq] at h; subst h; simp [isElem]
  | key, .list xs, ns, h => by
      simp only [encTree] at h
      split at h
      · simp only [Except.ok.injEq] at h; subst h; simp [isElem]
      · exact encMembers_all_elem cfg key xs ns h
  | key, .map vv, ns, h => by
      simp only [encTree] at h
      repeat' split at h
      all_goals first
        | (simp only [Except.ok.injEq] at h; subst h; simp [isElem])
        | simp at h
theorem encMembers_all_elem (cfg : EncCfg) (key : Str) : ∀ (xs : List Val) (ns : List Node),
    encMembers cfg key xs = .ok ns → ∀ n ∈ ns, isElem n = true
  | [], ns, h => by simp only [encMembers, Except.ok.injEq] at h; subst h; simp
  | x :: xs, ns, h => by
      simp only [encMembers] at h
      split at h
      · simp at h
      · rename_i a ha
        split at h
        · simp at h
        · rename_i r hr
          simp only [Except.ok.injEq] at h
          subst h
          intro n hn
          rcases List.mem_append.1 hn with hn | hn
          · exact encTree_all_elem cfg key x a ha n hn
          · exact encMembers_all_elem cfg key xs r hr n hn
end

theorem encElems_all_elem (cfg : EncCfg) : ∀ (kvs : Entries) (ns : List Node),
    encElems cfg kvs = .ok ns → ∀ n ∈ ns, isElem n = true
  | [], ns, h => by simp only [encElems, Except.ok.injEq] at h; subst h; simp
  | (k, v) :: rest, ns, h => by
      simp only [encElems] at h
      split at h
      · exact encElems_all_elem cfg rest ns h
      · split at h
        · simp at h
        · rename_i a ha
          split at h
          · simp at h
          · rename_i r hr
            simp only [Except.ok.injEq] at h
            subst h
            intro n hn
            rcases List.mem_append.1 hn with hn | hn
            · exact encTree_all_elem cfg k v a ha n hn
            · exact encElems_all_elem cfg rest r hr n hn

/-- the number of entries that become child elements -/
def elemCount (cfg : EncCfg) : Entries → Nat
  | [] => 0
  | (k, _) :: rest => (if k = cfg.textK || isAttrK cfg k then 0 else 1) + elemCount cfg rest

theorem count_split (cfg : EncCfg) : ∀ (kvs : Entries),
    kvs.length ≤ countAttrs cfg kvs + textCount cfg kvs + elemCount cfg kvs
  | [] => Nat.le_refl _
  | (k, v) :: rest => by
      have ih := count_split cfg rest
      simp only [countAttrs] at ih ⊢
      simp only [List.filter_cons, textCount, elemCount, List.length_cons]
      by_cases ht : k = cfg.textK
      · subst ht
        by_cases ha : isAttrK cfg cfg.textK = true <;> simp [ha] <;> omega
      · by_cases ha : isAttrK cfg k = true <;> simp [ha, ht] <;> omega

theorem encElems_ne_nil' (cfg : EncCfg) : ∀ (vv : Entries) (ns : List Node),
    0 < elemCount cfg vv → encElems cfg vv = .ok ns → ns ≠ []
  | [], _, h, _ => by simp [elemCount] at h
  | (k, v) :: rest, ns, hc, h => by
      simp only [encElems] at h
      split at h
      · rename_i hk
        refine encElems_ne_nil' cfg rest ns ?_ h
        simpa [elemCount, hk] using hc
      · split at h
        · simp at h
        · rename_i a ha'
          split at h
          · simp at h
          · simp only [Except.ok.injEq] at h
            subst h
            have := encTree_ne_nil cfg k v a ha'
            simp [this]

theorem textCount_of_lookup_none (cfg : EncCfg) : ∀ (kvs : Entries),
    lookup cfg.textK kvs = none → textCount cfg kvs = 0
  | [], _ => rfl
  | (k, v) :: rest, h => by
      simp only [lookup] at h
      split at h
      · simp at h
      · rename_i hk
        have hk' : ¬ k = cfg.textK := fun e => hk e.symm
        simp [textCount, hk', textCount_of_lookup_none cfg rest h]

/-- a map with more entries than attributes and text-key entries has an element child -/
theorem encElems_any_isElem (cfg : EncCfg) (vv : Entries) (kids : List Node)
    (hlt : countAttrs cfg vv + textCount cfg vv < vv.length) (h : encElems cfg vv = .ok kids) :
    kids.isEmpty = false ∧ kids.any isElem = true := by
  have h1 := count_split cfg vv
  have hne := encElems_ne_nil' cfg vv kids (by omega) h
  have hall := encElems_all_elem cfg vv kids h
  cases kids with
  | nil => exact absurd rfl hne
  | cons k ks => simp [hall k (List.mem_cons_self ..)]

/-! ### bytes of the indented encoder = indented rendering of the encoder's tree -/

theorem flatMap_renderI_single (cfg : EncCfg) (ind : Str) (cnt : Nat) (pad : Str) (n : Node) :
    [n].flatMap (renderI cfg ind cnt pad) = renderI cfg ind cnt pad n := by simp

theorem renderBodyI_false_elems (cfg : EncCfg) (ind : Str) (cnt : Nat) (pad : Str) :
    ∀ (ks : List Node), (∀ k ∈ ks, isElem k = true) →
      renderBodyI cfg ind cnt pad false ks = ks.flatMap (renderI cfg ind cnt pad)
  | [], _ => rfl
  | k :: ks, h => by
      have ih := renderBodyI_false_elems cfg ind cnt pad ks (fun x hx => h x (List.mem_cons_of_mem _ hx))
      simp [renderBodyI, ih]

theorem renderBodyI_true_elems (cfg : EncCfg) (ind : Str) (cnt : Nat) (pad : Str) (ks : List Node)
    (h : ∀ k ∈ ks, isElem k = true) (hne : ks.isEmpty = false) :
    renderBodyI cfg ind cnt pad true ks = '\n' :: ks.flatMap (renderI cfg ind cnt pad) := by
  cases ks with
  | nil => simp at hne
  | cons k ks =>
    have hk := h k (List.mem_cons_self ..)
    have := renderBodyI_false_elems cfg ind cnt pad ks (fun x hx => h x (List.mem_cons_of_mem _ hx))
    simp [renderBodyI, hk, this]

theorem any_isElem_of_all {ks : List Node} (h : ∀ k ∈ ks, isElem k = true) (hne : ks.isEmpty = false) :
    ks.any isElem = true := by
  cases ks with
  | nil => simp at hne
  | cons k ks => simp [h k (List.mem_cons_self ..)]

mutual
/-- the indented encoder writes the indented rendering of the encoder's tree (and fails exactly
    when the tree builder fails), for a value that is not a list -/
theorem marshalI_eq (cfg : EncCfg) (ind : Str) : ∀ (p : Pretty) (key : Str) (v : Val),
    p.start = 0 → Plain cfg v = true → Regular cfg v = true → v.isList = false →
    marshalI cfg ind p key v
      = (encTree cfg key v).map (renderSibsI cfg ind p.cnt p.padding)
  | p, key, .null, hs, _, _, _ => by
      simp [marshalI, encTree, Except.map, renderSibsI, renderI, renderAttrs, nlIf_eq p hs]
  | p, key, .str s, hs, _, _, _ => by
      by_cases hs' : s = []
      · subst hs'
        have : escIf cfg [] = [] := by unfold escIf escapeChars; simp
        simp [marshalI, encTree, Except.map, renderSibsI, renderI, this, renderAttrs, nlIf_eq p hs]
      · have h1 : s.isEmpty = false := by cases s <;> simp_all
        have h2 : (escIf cfg s).isEmpty = false := by rw [escIf_isEmpty]; exact h1
        have h3 : (escIf cfg s).length > 0 := by
          cases h : escIf cfg s with
          | nil => rw [h] at h2; simp at h2
          | cons _ _ => simp
        have h4 : escIf cfg s ≠ [] := by intro e; rw [e] at h2; simp at h2
        simp [marshalI, encTree, Except.map, renderSibsI, renderI, renderKids, render, h1, h2, endOf,
          h3, h4, renderAttrs, nlIf_eq p hs, isElem]
  | p, key, .bool b, hs, _, _, _ => by
      cases b <;>
        simp [marshalI, encTree, fmtV, Except.map, renderSibsI, renderI, renderKids, render, endOf,
          renderAttrs, escIf_true, escIf_false, nlIf_eq p hs, isElem]
  | p, key, .num t, hs, hp, _, _ => by
      simp only [Plain, Bool.and_eq_true, Bool.not_eq_true'] at hp
      have h3 : (numText t).length > 0 := by
        cases h : numText t with
        | nil => rw [h] at hp; simp at hp
        | cons _ _ => simp
      have h4 : numText t ≠ [] := by intro e; rw [e] at h3; simp at h3
      simp [marshalI, encTree, fmtV, Except.map, renderSibsI, renderI, renderKids, render, endOf,
        renderAttrs, plainText_eq hp.2, h3, h4, nlIf_eq p hs, isElem]
  | p, key, .list xs, _, _, _, hl => by simp [Val.isList] at hl
  | p, key, .map vv, hs, hp, hr, _ => by
      simp only [Plain] at hp
      simp only [Regular, Bool.and_eq_true] at hr
      simp only [marshalI, encTree, attrsText_eq cfg vv hp, nlIf_eq p hs]
      cases hA : encAttrs cfg vv with
      | error e => rfl
      | ok attrs =>
        simp only [Except.map]
        by_cases hn : countAttrs cfg vv = vv.length
        · simp only [hn, if_true, renderSibsI, flatMap_renderI_single, renderI, List.isEmpty_nil, endOf]
          simp
        · simp only [hn, if_false]
          cases hl : lookup cfg.textK vv with
          | some tv =>
            simp only [textValue_eq cfg cfg.textK vv tv hp rfl hl]
            cases hf : fmtV tv with
            | none => rfl
            | some txt =>
              simp only [Option.map_some]
              by_cases hn1 : countAttrs cfg vv + 1 = vv.length
              · simp only [hn1, if_true, renderSibsI, flatMap_renderI_single, renderI, renderKids,
                  render, endOf]
                simp [isElem]
              · simp only [hn1, if_false, marshalElemsI_eq cfg ind p.deeper vv hs hp hr.2]
                cases hE : encElems cfg vv with
                | error e => rfl
                | ok kids =>
                  have h3 : textCount cfg vv ≤ 1 := by simpa [textOnce] using hr.1
                  have h4 := countAttrs_le cfg vv
                  obtain ⟨hne, hany⟩ := encElems_any_isElem cfg vv kids (by omega) hE
                  have hall := encElems_all_elem cfg vv kids hE
                  have ha : (Node.text txt :: kids).any isElem = true := by simp [hany]
                  have hb : renderBodyI cfg ind (p.cnt + 1) (p.padding ++ ind) true (.text txt :: kids)
                      = escIf cfg txt ++ '\n' :: kids.flatMap (renderI cfg ind (p.cnt + 1) (p.padding ++ ind)) := by
                    simp [renderBodyI, renderI, isElem, renderBodyI_true_elems cfg ind _ _ kids hall hne]
                  simp only [Except.map, renderSibsI, flatMap_renderI_single, renderI, ha, hb, endOf,
                    Pretty.deeper_cnt, Pretty.deeper_padding]
                  simp
          | none =>
            simp only [marshalElemsI_eq cfg ind p.deeper vv hs hp hr.2]
            cases hE : encElems cfg vv with
            | error e => rfl
            | ok kids =>
              have h3 := textCount_of_lookup_none cfg vv hl
              have h4 := countAttrs_le cfg vv
              obtain ⟨hne, hany⟩ := encElems_any_isElem cfg vv kids (by omega) hE
              have hall := encElems_all_elem cfg vv kids hE
              simp only [Except.map, renderSibsI, flatMap_renderI_single, renderI, hne, hany,
                renderBodyI_true_elems cfg ind _ _ kids hall hne, endOf,
                Pretty.deeper_cnt, Pretty.deeper_padding]
              simp
theorem marshalMembersI_eq (cfg : EncCfg) (ind : Str) : ∀ (p : Pretty) (key : Str) (xs : List Val),
    p.start = 0 → PlainList cfg xs = true → RegularMembers cfg xs = true →
    marshalMembersI cfg ind p key xs
      = (encMembers cfg key xs).map (renderSibsI cfg ind (p.cnt + 1) (p.padding ++ ind))
  | _, _, [], _, _, _ => rfl
  | p, key, x :: xs, hs, hp, hr => by
      simp only [PlainList, Bool.and_eq_true] at hp
      simp only [RegularMembers, Bool.and_eq_true, Bool.not_eq_true'] at hr
      simp only [marshalMembersI, encMembers, Pretty.outdent_indent,
        marshalI_eq cfg ind (p.indentP ind) key x hs hp.1 hr.1.2 hr.1.1,
        marshalMembersI_eq cfg ind p key xs hs hp.2 hr.2]
      cases encTree cfg key x <;> cases encMembers cfg key xs <;> simp [Except.map, renderSibsI]
theorem marshalElemsI_eq (cfg : EncCfg) (ind : Str) : ∀ (p : Pretty) (kvs : Entries),
    p.start = 0 → PlainEntries cfg kvs = true → RegularEntries cfg kvs = true →
    marshalElemsI cfg ind p kvs
      = (encElems cfg kvs).map (renderSibsI cfg ind (p.cnt + 1) (p.padding ++ ind))
  | _, [], _, _, _ => rfl
  | p, (k, v) :: rest, hs, hp, hr => by
      simp only [PlainEntries, Bool.and_eq_true] at hp
      simp only [RegularEntries, Bool.and_eq_true] at hr
      simp only [marshalElemsI, encElems]
      split
      · exact marshalElemsI_eq cfg ind p rest hs hp.2 hr.2
      · cases v with
        | list xs =>
          have hr1 := hr.1
          have hp1 := hp.1.2
          simp only [Regular, Bool.and_eq_true, Bool.not_eq_true'] at hr1
          simp only [Plain] at hp1
          simp only [Val.isList, if_true, marshalI, encTree, hr1.1, Bool.false_eq_true, if_false,
            marshalMembersI_eq cfg ind p k xs hs hp1 hr1.2,
            marshalElemsI_eq cfg ind p rest hs hp.2 hr.2]
          cases encMembers cfg k xs <;> cases encElems cfg rest <;> simp [Except.map, renderSibsI]
        | null | bool _ | num _ | str _ | map _ =>
          simp only [Val.isList, Bool.false_eq_true, if_false, Pretty.outdent_indent,
            marshalI_eq cfg ind (p.indentP ind) k _ hs hp.1.2 hr.1 rfl,
            marshalElemsI_eq cfg ind p rest hs hp.2 hr.2]
          cases encTree cfg k _ <;> cases encElems cfg rest <;> simp [Except.map, renderSibsI]
end

/-! ### the indented encoder fails exactly when the compact encoder fails (every value) -/

/-- forget the bytes, keep success / the error -/
def unitE (r : Except ErrKind Str) : Except ErrKind Unit := r.map (fun _ => ())

/-- the sequencing every loop of the encoders uses -/
def seqE (a b : Except ErrKind Str) : Except ErrKind Str :=
  match a with
  | .error e => .error e
  | .ok x => match b with
    | .error e => .error e
    | .ok r => .ok (x ++ r)

theorem unitE_seq {a a' b b' : Except ErrKind Str} (h1 : unitE a = unitE a') (h2 : unitE b = unitE b') :
    unitE (seqE a b) = unitE (seqE a' b') := by
  unfold unitE seqE at *
  cases a <;> cases a' <;> cases b <;> cases b' <;> simp only [Except.map] at h1 h2 ⊢ <;> simp_all

mutual
theorem marshalI_err (cfg : EncCfg) (ind : Str) : ∀ (p : Pretty) (key : Str) (v : Val),
    unitE (marshalI cfg ind p key v) = unitE (marshalN cfg key v)
  | p, key, .null => rfl
  | p, key, .str s => rfl
  | p, key, .bool b => by cases b <;> rfl
  | p, key, .num t => rfl
  | p, key, .list xs => by
      simp only [marshalI, marshalN]
      split
      · rfl
      · exact marshalMembersI_err cfg ind p key xs
  | p, key, .map vv => by
      have hE := marshalElemsI_err cfg ind p.deeper vv
      simp only [marshalI, marshalN]
      cases attrsText cfg vv with
      | error e => rfl
      | ok attrs =>
        simp only
        split
        · rfl
        · cases lookup cfg.textK vv with
          | none =>
            simp only
            revert hE
            cases marshalElemsI cfg ind p.deeper vv <;> cases marshalElems cfg vv <;>
              simp [unitE, Except.map]
          | some tv =>
            simp only
            cases textValue cfg tv with
            | none => rfl
            | some txt =>
              simp only
              split
              · rfl
              · revert hE
                cases marshalElemsI cfg ind p.deeper vv <;> cases marshalElems cfg vv <;>
                  simp [unitE, Except.map]
theorem marshalMembersI_err (cfg : EncCfg) (ind : Str) : ∀ (p : Pretty) (key : Str) (xs : List Val),
    unitE (marshalMembersI cfg ind p key xs) = unitE (marshalMembers cfg key xs)
  | _, _, [] => rfl
  | p, key, x :: xs => by
      simp only [marshalMembersI, marshalMembers]
      exact unitE_seq (marshalI_err cfg ind _ key x) (marshalMembersI_err cfg ind _ key xs)
theorem marshalElemsI_err (cfg : EncCfg) (ind : Str) : ∀ (p : Pretty) (kvs : Entries),
    unitE (marshalElemsI cfg ind p kvs) = unitE (marshalElems cfg kvs)
  | _, [] => rfl
  | p, (k, v) :: rest => by
      simp only [marshalElemsI, marshalElems]
      split
      · exact marshalElemsI_err cfg ind p rest
      · exact unitE_seq (marshalI_err cfg ind _ k v) (marshalElemsI_err cfg ind _ rest)
end

/-- `Map.XmlIndent` fails exactly when the compact encoder fails on the same root (and with
    the same error), for every Map -/
theorem mapXmlIndent_err (cfg : EncCfg) (pfx ind : Str) (m : Entries) (rt : Option Str) :
    unitE (mapXmlIndent cfg pfx ind m rt)
      = unitE (marshal cfg (mapXmlIndentRoot m rt).1 (mapXmlIndentRoot m rt).2) :=
  marshalI_err cfg ind _ _ _

/-! ### `Regular` is invariant under normalisation -/

theorem textCount_perm (cfg : EncCfg) {l l' : Entries} (h : l.Perm l') :
    textCount cfg l = textCount cfg l' := by
  induction h with
  | nil => rfl
  | cons x _ ih => obtain ⟨k, v⟩ := x; simp [textCount, ih]
  | swap x y l => obtain ⟨k, v⟩ := x; obtain ⟨k', v'⟩ := y; simp [textCount]; omega
  | trans _ _ ih1 ih2 => exact ih1.trans ih2

theorem textCount_normEntries (cfg : EncCfg) : ∀ (l : Entries),
    textCount cfg (Val.normEntries l) = textCount cfg l
  | [] => rfl
  | (k, v) :: rest => by simp [Val.normEntries, textCount, textCount_normEntries cfg rest]

theorem RegularEntries_iff (cfg : EncCfg) : ∀ (l : Entries),
    RegularEntries cfg l = true ↔ ∀ e ∈ l, Regular cfg e.2 = true
  | [] => by simp [RegularEntries]
  | (k, v) :: rest => by
      simp only [RegularEntries, Bool.and_eq_true, RegularEntries_iff cfg rest, List.mem_cons,
        forall_eq_or_imp]

mutual
theorem Regular_norm (cfg : EncCfg) : ∀ (v : Val), Regular cfg v = true → Regular cfg v.norm = true
  | .null, _ => rfl
  | .bool _, _ => rfl
  | .num _, _ => rfl
  | .str _, _ => rfl
  | .list xs, h => by
      simp only [Regular, Bool.and_eq_true, Bool.not_eq_true'] at h
      simp only [Val.norm, Regular, Bool.and_eq_true, Bool.not_eq_true']
      refine ⟨?_, RegularMembers_norm cfg xs h.2⟩
      cases xs with
      | nil => simp at h
      | cons _ _ => rfl
  | .map kvs, h => by
      simp only [Regular, Bool.and_eq_true] at h
      simp only [Val.norm, Regular, Bool.and_eq_true]
      constructor
      · have := h.1
        simp only [textOnce, decide_eq_true_eq] at this ⊢
        rw [textCount_perm cfg (sortByKey_perm _), textCount_normEntries]
        exact this
      · rw [RegularEntries_iff]
        intro e he
        exact (RegularEntries_iff cfg _).1 (RegularEntries_norm cfg kvs h.2) e
          ((sortByKey_perm _).mem_iff.1 he)
theorem RegularMembers_norm (cfg : EncCfg) : ∀ (xs : List Val), RegularMembers cfg xs = true →
    RegularMembers cfg (Val.normList xs) = true
  | [], _ => rfl
  | x :: xs, h => by
      simp only [RegularMembers, Bool.and_eq_true, Bool.not_eq_true'] at h
      simp only [Val.normList, RegularMembers, Bool.and_eq_true, Bool.not_eq_true', isList_norm]
      exact ⟨⟨h.1.1, Regular_norm cfg x h.1.2⟩, RegularMembers_norm cfg xs h.2⟩
theorem RegularEntries_norm (cfg : EncCfg) : ∀ (kvs : Entries), RegularEntries cfg kvs = true →
    RegularEntries cfg (Val.normEntries kvs) = true
  | [], _ => rfl
  | (k, v) :: rest, h => by
      simp only [RegularEntries, Bool.and_eq_true] at h
      simp only [Val.normEntries, RegularEntries, Bool.and_eq_true]
      exact ⟨Regular_norm cfg v h.1, RegularEntries_norm cfg rest h.2⟩
end

/-! ### `Map.XmlIndent` -/

/-- the root `XmlIndent` picks: the whole Map under some tag, or the single entry when its
    value is not a list -/
theorem mapXmlIndentRoot_cases (m : Entries) (rt : Option Str) :
    (∃ k, mapXmlIndentRoot m rt = (k, .map m))
    ∨ (∃ key v, m = [(key, v)] ∧ v.isList = false ∧ mapXmlIndentRoot m rt = (key, v)) := by
  unfold mapXmlIndentRoot
  split
  · exact .inl ⟨_, rfl⟩
  · split
    · exact .inl ⟨_, rfl⟩
    · rename_i key v hnl
      refine .inr ⟨key, v, rfl, ?_, rfl⟩
      cases v with
      | list xs => exact absurd rfl (hnl xs)
      | null | bool _ | num _ | str _ | map _ => rfl
    · exact .inl ⟨_, rfl⟩

/-- the root `XmlIndent` picks is never a list -/
theorem mapXmlIndentRoot_not_list (m : Entries) (rt : Option Str) :
    (mapXmlIndentRoot m rt).2.isList = false := by
  rcases mapXmlIndentRoot_cases m rt with ⟨k, h⟩ | ⟨key, v, _, hl, h⟩
  · rw [h]; rfl
  · rw [h]; exact hl

theorem mapXmlIndentRoot_plain (cfg : EncCfg) (m : Entries) (rt : Option Str)
    (h : Plain cfg (.map m) = true) : Plain cfg (mapXmlIndentRoot m rt).2 = true := by
  rcases mapXmlIndentRoot_cases m rt with ⟨k, e⟩ | ⟨key, v, hm, _, e⟩
  · rw [e]; exact h
  · rw [e]
    subst hm
    simp only [Plain, PlainEntries, Bool.and_eq_true] at h
    exact h.1.2

theorem mapXmlIndentRoot_regular (cfg : EncCfg) (m : Entries) (rt : Option Str)
    (h : Regular cfg (.map m) = true) : Regular cfg (mapXmlIndentRoot m rt).2 = true := by
  rcases mapXmlIndentRoot_cases m rt with ⟨k, e⟩ | ⟨key, v, hm, _, e⟩
  · rw [e]; exact h
  · rw [e]
    subst hm
    simp only [Regular, RegularEntries, Bool.and_eq_true] at h
    exact h.2.1

/-- `Map.XmlIndent` writes the indented rendering, at nesting count 0 with the prefix as
    padding, of the tree the encoder builds for the root `XmlIndent` picks -/
theorem mapXmlIndent_eq (cfg : EncCfg) (pfx ind : Str) (m : Entries) (rt : Option Str)
    (hp : Plain cfg (.map m) = true) (hr : Regular cfg (.map m) = true) :
    mapXmlIndent cfg pfx ind m rt
      = (encTree cfg (mapXmlIndentRoot m rt).1 (mapXmlIndentRoot m rt).2.norm).map
          (renderSibsI cfg ind 0 pfx) := by
  unfold mapXmlIndent
  exact marshalI_eq cfg ind (Pretty.init pfx) _ _ rfl
    (Plain_norm cfg _ (mapXmlIndentRoot_plain cfg m rt hp))
    (Regular_norm cfg _ (mapXmlIndentRoot_regular cfg m rt hr))
    (by rw [isList_norm]; exact mapXmlIndentRoot_not_list m rt)

/-! ### the layout as a tree: `layI` adds white-space text nodes, nothing else -/

/-- a white-space run as a text node; an empty run is no node at all -/
def wsNode (s : Str) : List Node := if s.isEmpty then [] else [.text s]

mutual
/-- the tree whose canonical rendering is the indented rendering (`renderI_eq_render_layI`):
    an element with at least one element child gets, among its children, a text node
    `"\n" ++ pad'` before its first element child, `pad'` before every later element child,
    `"\n"` after every element child, and `pad` after the last child (`pad' = pad ++ indent`);
    an element without element children is left exactly as it is. -/
def layI (indent : Str) : Nat → Str → Node → Node
  | cnt, pad, .elem sp name attrs kids =>
      if kids.any isElem then
        .elem sp name attrs (layBodyI indent (cnt + 1) (pad ++ indent) true kids ++ wsNode pad)
      else .elem sp name attrs kids
  | _, _, n => n
def layBodyI (indent : Str) : Nat → Str → Bool → List Node → List Node
  | _, _, _, [] => []
  | cnt, pad, first, k :: ks =>
      if isElem k then
        wsNode ((if first then ['\n'] else []) ++ pad)
          ++ layI indent cnt pad k :: (wsNode (nlOf cnt) ++ layBodyI indent cnt pad false ks)
      else k :: layBodyI indent cnt pad first ks
end

/-- nothing is put inside an element that has no element child (in particular: inside a
    text-only element) -/
theorem layI_simple (indent : Str) (cnt : Nat) (pad sp name : Str) (attrs : List Attr)
    (kids : List Node) (h : kids.any isElem = false) :
    layI indent cnt pad (.elem sp name attrs kids) = .elem sp name attrs kids := by
  simp [layI, h]

theorem layI_nonElem (indent : Str) (cnt : Nat) (pad : Str) (k : Node) (h : isElem k = false) :
    layI indent cnt pad k = k := by
  cases k with
  | elem _ _ _ _ => simp [isElem] at h
  | text _ | comment _ | procinst _ _ | directive _ => rfl

theorem escIf_nil (cfg : EncCfg) : escIf cfg [] = [] := by unfold escIf escapeChars; simp

theorem escIf_append (cfg : EncCfg) (a b : Str) : escIf cfg (a ++ b) = escIf cfg a ++ escIf cfg b := by
  unfold escIf; split
  · exact escapeChars_append a b
  · rfl

theorem escIf_nl (cfg : EncCfg) : escIf cfg ['\n'] = ['\n'] := by
  unfold escIf; split
  · rw [escapeChars_flatMap]; decide
  · rfl

theorem escIf_nlOf (cfg : EncCfg) (cnt : Nat) : escIf cfg (nlOf cnt) = nlOf cnt := by
  unfold nlOf; split
  · exact escIf_nl cfg
  · exact escIf_nil cfg

theorem renderKids_wsNode (cfg : EncCfg) (s : Str) (r : List Node) :
    renderKids cfg (wsNode s ++ r) = escIf cfg s ++ renderKids cfg r := by
  unfold wsNode
  cases s with
  | nil => simp [escIf_nil]
  | cons c t => simp [renderKids, render]

theorem renderKids_append (cfg : EncCfg) (a b : List Node) :
    renderKids cfg (a ++ b) = renderKids cfg a ++ renderKids cfg b := by
  simp [renderKids_eq]

theorem layBodyI_isEmpty (indent : Str) (cnt : Nat) (pad : Str) : ∀ (first : Bool) (ks : List Node),
    ks.isEmpty = false → (layBodyI indent cnt pad first ks).isEmpty = false
  | _, [], h => by simp at h
  | first, k :: ks, _ => by
      simp only [layBodyI]
      split <;> simp

mutual
/-- the indented rendering is the canonical rendering of the layout tree, between the padding
    and the final newline (white space that needs no escaping) -/
theorem renderI_eq_render_layI (cfg : EncCfg) (ind : Str) (hind : plainText cfg ind = true) :
    ∀ (n : Node) (cnt : Nat) (pad : Str), plainText cfg pad = true →
    renderI cfg ind cnt pad n
      = (if isElem n then pad else []) ++ render cfg (layI ind cnt pad n)
          ++ (if isElem n then nlOf cnt else [])
  | .elem sp name attrs kids, cnt, pad, hpad => by
      have hpad' : plainText cfg (pad ++ ind) = true := by
        unfold plainText at *
        rw [escIf_append, beq_iff_eq.1 hpad, beq_iff_eq.1 hind]; simp
      by_cases hany : kids.any isElem = true
      · have hne : kids.isEmpty = false := by cases kids <;> simp_all
        have hb := renderBodyI_eq_render cfg ind hind kids (cnt + 1) (pad ++ ind) true hpad'
        have hne' : (layBodyI ind (cnt + 1) (pad ++ ind) true kids ++ wsNode pad).isEmpty = false := by
          have := layBodyI_isEmpty ind (cnt + 1) (pad ++ ind) true kids hne
          cases h : layBodyI ind (cnt + 1) (pad ++ ind) true kids with
          | nil => rw [h] at this; simp at this
          | cons _ _ => simp
        have hw : renderKids cfg (wsNode pad) = pad := by
          have := renderKids_wsNode cfg pad []
          simpa [renderKids, plainText_eq hpad] using this
        simp only [renderI, layI, hany, hne, if_true, render, isElem, hne', hb, renderKids_append, hw]
        simp
      · have hany' : kids.any isElem = false := by simpa using hany
        simp only [renderI, layI, hany', isElem, if_true]
        by_cases hne : kids.isEmpty = true <;> simp [hne, render]
  | .text s, _, _, _ => by simp [renderI, layI, render, isElem]
  | .comment _, _, _, _ => by simp [renderI, layI, render, isElem]
  | .procinst _ _, _, _, _ => by simp [renderI, layI, render, isElem]
  | .directive _, _, _, _ => by simp [renderI, layI, render, isElem]
theorem renderBodyI_eq_render (cfg : EncCfg) (ind : Str) (hind : plainText cfg ind = true) :
    ∀ (ks : List Node) (cnt : Nat) (pad : Str) (first : Bool), plainText cfg pad = true →
    renderBodyI cfg ind cnt pad first ks = renderKids cfg (layBodyI ind cnt pad first ks)
  | [], _, _, _, _ => rfl
  | k :: ks, cnt, pad, first, hpad => by
      have h1 := renderI_eq_render_layI cfg ind hind k cnt pad hpad
      by_cases hk : isElem k = true
      · have h2 := renderBodyI_eq_render cfg ind hind ks cnt pad false hpad
        simp only [renderBodyI, layBodyI, hk, if_true, Bool.and_true, Bool.not_true, Bool.and_false,
          h1, h2, renderKids_wsNode, renderKids, escIf_append, plainText_eq hpad, escIf_nlOf]
        cases first <;> simp [escIf_nil, escIf_nl]
      · have hk' : isElem k = false := by simpa using hk
        have h2 := renderBodyI_eq_render cfg ind hind ks cnt pad first hpad
        simp only [renderBodyI, layBodyI, hk', Bool.and_false, Bool.false_eq_true, if_false,
          Bool.not_false, Bool.and_true, h1, h2, renderKids, layI_nonElem ind cnt pad k hk']
        simp
end

/-! ### tokens: the layout adds white-space text tokens only -/

/-- `WsExt ok a b`: the token sequence `a` is `b` with extra text tokens, each satisfying `ok` -/
inductive WsExt (ok : Str → Prop) : List Tok → List Tok → Prop
  | nil : WsExt ok [] []
  | keep (t : Tok) {a b : List Tok} : WsExt ok a b → WsExt ok (t :: a) (t :: b)
  | ws (s : Str) {a b : List Tok} : ok s → WsExt ok a b → WsExt ok (Tok.text s :: a) b

theorem WsExt.refl (ok : Str → Prop) : ∀ (a : List Tok), WsExt ok a a
  | [] => .nil
  | t :: a => .keep t (WsExt.refl ok a)

theorem WsExt.append {ok : Str → Prop} {a b c d : List Tok} (h1 : WsExt ok a b) (h2 : WsExt ok c d) :
    WsExt ok (a ++ c) (b ++ d) := by
  induction h1 with
  | nil => exact h2
  | keep t _ ih => exact .keep t ih
  | ws s hs _ ih => exact .ws s hs ih

/-- removing the extra tokens gives back the original sequence: `b` is a subsequence of `a` -/
theorem WsExt.sublist {ok : Str → Prop} {a b : List Tok} (h : WsExt ok a b) : b.Sublist a := by
  induction h with
  | nil => exact .slnil
  | keep t _ ih => exact .cons_cons t ih
  | ws s _ _ ih => exact .cons _ ih

/-- a layout run: non-empty, newlines and characters of `cs` only -/
def wsOk (cs : List Char) (s : Str) : Prop := s ≠ [] ∧ ∀ c ∈ s, c = '\n' ∨ c ∈ cs

theorem flattenKids_append' : ∀ (a b : List Node), flattenKids (a ++ b) = flattenKids a ++ flattenKids b
  | [], _ => rfl
  | k :: a, b => by simp [flattenKids, flattenKids_append' a b]

theorem wsExt_wsNode {cs : List Char} (s : Str) (hs : ∀ c ∈ s, c = '\n' ∨ c ∈ cs) :
    WsExt (wsOk cs) (flattenKids (wsNode s)) [] := by
  unfold wsNode
  cases s with
  | nil => exact .nil
  | cons c t => exact .ws _ ⟨by simp, hs⟩ .nil

theorem nlOf_chars {cs : List Char} (cnt : Nat) : ∀ c ∈ nlOf cnt, c = '\n' ∨ c ∈ cs := by
  intro c hc
  unfold nlOf at hc
  split at hc
  · exact .inl (by simpa using hc)
  · simp at hc

mutual
theorem flatten_layI (ind : Str) (cs : List Char) (hind : ∀ c ∈ ind, c ∈ cs) :
    ∀ (n : Node) (cnt : Nat) (pad : Str), (∀ c ∈ pad, c ∈ cs) →
    WsExt (wsOk cs) (flatten (layI ind cnt pad n)) (flatten n)
  | .elem sp name attrs kids, cnt, pad, hpad => by
      by_cases hany : kids.any isElem = true
      · have hpad' : ∀ c ∈ pad ++ ind, c ∈ cs := by
          intro c hc
          rcases List.mem_append.1 hc with h | h
          · exact hpad c h
          · exact hind c h
        have hb := flattenKids_layBodyI ind cs hind kids (cnt + 1) (pad ++ ind) true hpad'
        have hw : WsExt (wsOk cs) (flattenKids (wsNode pad)) [] :=
          wsExt_wsNode pad (fun c hc => .inr (hpad c hc))
        have := (hb.append hw).append (WsExt.refl (wsOk cs) [Tok.stop sp name])
        simp only [layI, hany, if_true, flatten, flattenKids_append']
        refine .keep _ ?_
        simpa using this
      · have hany' : kids.any isElem = false := by simpa using hany
        rw [layI_simple ind cnt pad sp name attrs kids hany']
        exact WsExt.refl _ _
  | .text _, _, _, _ => WsExt.refl _ _
  | .comment _, _, _, _ => WsExt.refl _ _
  | .procinst _ _, _, _, _ => WsExt.refl _ _
  | .directive _, _, _, _ => WsExt.refl _ _
theorem flattenKids_layBodyI (ind : Str) (cs : List Char) (hind : ∀ c ∈ ind, c ∈ cs) :
    ∀ (ks : List Node) (cnt : Nat) (pad : Str) (first : Bool), (∀ c ∈ pad, c ∈ cs) →
    WsExt (wsOk cs) (flattenKids (layBodyI ind cnt pad first ks)) (flattenKids ks)
  | [], _, _, _, _ => .nil
  | k :: ks, cnt, pad, first, hpad => by
      by_cases hk : isElem k = true
      · have h1 := flatten_layI ind cs hind k cnt pad hpad
        have h2 := flattenKids_layBodyI ind cs hind ks cnt pad false hpad
        have hw1 : WsExt (wsOk cs) (flattenKids (wsNode ((if first then ['\n'] else []) ++ pad))) [] := by
          refine wsExt_wsNode _ ?_
          intro c hc
          rcases List.mem_append.1 hc with h | h
          · cases first
            · simp at h
            · exact .inl (by simpa using h)
          · exact .inr (hpad c h)
        have hw2 : WsExt (wsOk cs) (flattenKids (wsNode (nlOf cnt))) [] :=
          wsExt_wsNode _ (nlOf_chars cnt)
        have := hw1.append (h1.append (hw2.append h2))
        simp only [layBodyI, hk, if_true, flattenKids_append', flattenKids]
        simpa using this
      · have hk' : isElem k = false := by simpa using hk
        have h2 := flattenKids_layBodyI ind cs hind ks cnt pad first hpad
        simp only [layBodyI, hk', Bool.false_eq_true, if_false, flattenKids]
        exact (WsExt.refl _ (flatten k)).append h2
end

/-! ### the decoder does not see layout made of trimmed characters -/

/-- every character of `s` is in the decoder's trim set -/
def inTrim (cfg : DecCfg) (s : Str) : Prop := ∀ c ∈ s, (trimSet cfg).contains c = true

theorem inTrim_nil (cfg : DecCfg) : inTrim cfg [] := by intro c hc; simp at hc

theorem inTrim_append {cfg : DecCfg} {a b : Str} (ha : inTrim cfg a) (hb : inTrim cfg b) :
    inTrim cfg (a ++ b) := by
  intro c hc
  rcases List.mem_append.1 hc with h | h
  · exact ha c h
  · exact hb c h

theorem inTrim_nl (cfg : DecCfg) : inTrim cfg ['\n'] := by
  intro c hc
  have : c = '\n' := by simpa using hc
  subst this
  unfold trimSet
  cases cfg.keepSpace <;> decide

theorem inTrim_nlOf (cfg : DecCfg) (cnt : Nat) : inTrim cfg (nlOf cnt) := by
  unfold nlOf; split
  · exact inTrim_nl cfg
  · exact inTrim_nil cfg

/-- without `keepSpace`, blanks and tabs are trimmed -/
theorem inTrim_of_blank (cfg : DecCfg) (hk : cfg.keepSpace = false) (s : Str)
    (hs : ∀ c ∈ s, c = ' ' ∨ c = '\t') : inTrim cfg s := by
  intro c hc
  unfold trimSet
  rw [hk]
  rcases hs c hc with h | h <;> subst h <;> decide

theorem dropWhile_all {α : Type} (p : α → Bool) (w : List α) (h : ∀ a ∈ w, p a = true) :
    w.dropWhile p = [] := by
  have := List.dropWhile_append_of_pos (l₂ := []) h
  simpa using this

theorem trimChars_append_right (cut : List Char) (r w : Str) (hw : ∀ c ∈ w, cut.contains c = true) :
    trimChars cut (r ++ w) = trimChars cut r := by
  unfold trimChars
  rw [List.dropWhile_append]
  split
  · rename_i he
    have : r.dropWhile (cut.contains ·) = [] := by simpa using he
    rw [this, dropWhile_all _ w hw]
  · rw [List.reverse_append,
      List.dropWhile_append_of_pos (fun a ha => hw a (List.mem_reverse.1 ha))]

theorem trimChars_ws (cut : List Char) (w r w' : Str) (hw : ∀ c ∈ w, cut.contains c = true)
    (hw' : ∀ c ∈ w', cut.contains c = true) :
    trimChars cut (w ++ r ++ w') = trimChars cut r := by
  rw [trimChars_append_right cut (w ++ r) w' hw']
  unfold trimChars
  rw [List.dropWhile_append_of_pos hw]

theorem trimChars_blank (cut : List Char) (w : Str) (hw : ∀ c ∈ w, cut.contains c = true) :
    trimChars cut w = [] := by
  unfold trimChars
  rw [dropWhile_all _ w hw]; rfl

theorem onText_congr (cfg : DecCfg) (S : Strconv) (skey : Str) (na : Entries) (n : Option Val)
    {a b : Str} (h : trimChars (trimSet cfg) a = trimChars (trimSet cfg) b) :
    onText cfg S skey na n a = onText cfg S skey na n b := by
  unfold onText; rw [h]

theorem onText_blank (cfg : DecCfg) (S : Strconv) (skey : Str) (na : Entries) (n : Option Val)
    {a : Str} (h : inTrim cfg a) : onText cfg S skey na n a = (na, n) := by
  unfold onText
  rw [trimChars_blank _ a h]
  simp [escDecIf, escapeChars]

theorem insert_idem (k : Str) (v : Val) : ∀ (l : Entries), insert k v (insert k v l) = insert k v l
  | [] => by simp [insert]
  | (k', v') :: rest => by
      by_cases h : k = k'
      · simp [insert, h]
      · simp [insert, h, insert_idem k v rest]

theorem insert_isEmpty (k : Str) (v : Val) (l : Entries) : (insert k v l).isEmpty = false := by
  cases l with
  | nil => rfl
  | cons e rest =>
    obtain ⟨k', v'⟩ := e
    simp only [insert]
    split <;> rfl

/-- character data with the same trimmed text, seen again, changes nothing -/
theorem onText_idem (cfg : DecCfg) (S : Strconv) (skey : Str) (na : Entries) (n : Option Val)
    (a : Str) :
    onText cfg S skey (onText cfg S skey na n a).1 (onText cfg S skey na n a).2 a
      = onText cfg S skey na n a := by
  unfold onText
  simp only
  split
  · rename_i h; simp
  · rename_i h
    split
    · rename_i h2
      simp only [insert_isEmpty, Bool.not_false, Bool.true_or, if_true, insert_idem]
    · simp

/-- the pending character data of the laid-out run (`pend`) and of the original run (`pend0`):
    they differ by leading trimmed characters, and the original pending text, seen again, changes
    nothing (it has been processed already) -/
def PendRel (cfg : DecCfg) (S : Strconv) (skey : Str) (na : Entries) (n : Option Val)
    (pend pend0 : Option Str) : Prop :=
  match pend0 with
  | none => pend = none ∨ ∃ w, pend = some w ∧ inTrim cfg w
  | some r0 => (∃ w, pend = some (w ++ r0) ∧ inTrim cfg w) ∧ onText cfg S skey na n r0 = (na, n)

/-- a trimmed-characters run after the pending text is not seen -/
theorem ws_noop (cfg : DecCfg) (S : Strconv) (skey : Str) (na : Entries) (n : Option Val)
    (pend pend0 : Option Str) (h : PendRel cfg S skey na n pend pend0) (s : Str) (hs : inTrim cfg s) :
    onText cfg S skey na n (pend.getD [] ++ s) = (na, n) := by
  cases pend0 with
  | none =>
    rcases h with h | ⟨w, h, hw⟩
    · subst h; exact onText_blank cfg S skey na n (by simpa using hs)
    · subst h; exact onText_blank cfg S skey na n (inTrim_append hw hs)
  | some r0 =>
    obtain ⟨⟨w, h, hw⟩, hfix⟩ := h
    subst h
    have : trimChars (trimSet cfg) (w ++ r0 ++ s) = trimChars (trimSet cfg) r0 :=
      trimChars_ws _ w r0 s hw hs
    rw [show (some (w ++ r0)).getD [] ++ s = w ++ r0 ++ s from rfl, onText_congr cfg S skey na n this]
    exact hfix

/-- a text node: same result on both sides, and the relation is kept -/
theorem text_step (cfg : DecCfg) (S : Strconv) (skey : Str) (na : Entries) (n : Option Val)
    (pend pend0 : Option Str) (h : PendRel cfg S skey na n pend pend0) (s : Str) :
    onText cfg S skey na n (pend.getD [] ++ s) = onText cfg S skey na n (pend0.getD [] ++ s)
    ∧ PendRel cfg S skey (onText cfg S skey na n (pend0.getD [] ++ s)).1
        (onText cfg S skey na n (pend0.getD [] ++ s)).2
        (some (pend.getD [] ++ s)) (some (pend0.getD [] ++ s)) := by
  have key : ∃ w, pend.getD [] = w ++ pend0.getD [] ∧ inTrim cfg w := by
    cases pend0 with
    | none =>
      rcases h with h | ⟨w, h, hw⟩
      · subst h; exact ⟨[], rfl, inTrim_nil cfg⟩
      · subst h; exact ⟨w, by simp, hw⟩
    | some r0 =>
      obtain ⟨⟨w, h, hw⟩, _⟩ := h
      subst h; exact ⟨w, rfl, hw⟩
  obtain ⟨w, hw1, hw2⟩ := key
  have ht : trimChars (trimSet cfg) (pend.getD [] ++ s) = trimChars (trimSet cfg) (pend0.getD [] ++ s) := by
    rw [hw1]
    have := trimChars_ws (trimSet cfg) w (pend0.getD [] ++ s) [] hw2 (by intro c hc; simp at hc)
    simpa [List.append_assoc] using this
  refine ⟨onText_congr cfg S skey na n ht, ⟨w, ?_, hw2⟩, onText_idem cfg S skey na n _⟩
  rw [hw1, List.append_assoc]

theorem kids'_append (cfg : DecCfg) (S : Strconv) (skey : Str) : ∀ (a b : List Node)
    (st : Entries × Option Val × Nat × Option Str),
    Fold.kids' cfg S skey st (a ++ b) = Fold.kids' cfg S skey (Fold.kids' cfg S skey st a) b
  | [], _, _ => by simp [Fold.kids']
  | k :: a, b, (na, n, seq, pend) => by
      cases k <;> simp only [List.cons_append, Fold.kids', kids'_append cfg S skey a b]

/-- a layout run: only the pending text changes -/
theorem kids'_wsNode (cfg : DecCfg) (S : Strconv) (skey : Str) (na : Entries) (n : Option Val)
    (seq : Nat) (pend pend0 : Option Str) (h : PendRel cfg S skey na n pend pend0)
    (s : Str) (hs : inTrim cfg s) :
    ∃ pend', Fold.kids' cfg S skey (na, n, seq, pend) (wsNode s) = (na, n, seq, pend') := by
  unfold wsNode
  split
  · exact ⟨pend, by simp [Fold.kids']⟩
  · refine ⟨some (pend.getD [] ++ s), ?_⟩
    simp only [Fold.kids', ws_noop cfg S skey na n pend pend0 h s hs]

/-- … and after an element (nothing pending) the pending text stays trimmed characters -/
theorem kids'_wsNode_none (cfg : DecCfg) (S : Strconv) (skey : Str) (na : Entries) (n : Option Val)
    (seq : Nat) (s : Str) (hs : inTrim cfg s) :
    ∃ pend', Fold.kids' cfg S skey (na, n, seq, none) (wsNode s) = (na, n, seq, pend')
      ∧ PendRel cfg S skey na n pend' none := by
  unfold wsNode
  split
  · exact ⟨none, by simp [Fold.kids'], .inl rfl⟩
  · refine ⟨some s, ?_, .inr ⟨s, rfl, hs⟩⟩
    have := ws_noop cfg S skey na n none none (.inl rfl) s hs
    simp only [Option.getD_none, List.nil_append] at this
    simp only [Fold.kids', Option.getD_none, List.nil_append, this]

theorem layI_elem_shape (ind : Str) (cnt : Nat) (pad sp name : Str) (attrs : List Attr)
    (kids : List Node) : ∃ kids', layI ind cnt pad (.elem sp name attrs kids) = .elem sp name attrs kids' := by
  simp only [layI]
  split
  · exact ⟨_, rfl⟩
  · exact ⟨_, rfl⟩

mutual
/-- the decoder computes the same value for the layout tree as for the tree -/
theorem fold_layI (cfg : DecCfg) (S : Strconv) (ind : Str) (hind : inTrim cfg ind) :
    ∀ (t : Node) (cnt : Nat) (pad : Str), inTrim cfg pad →
    Fold.value cfg S (layI ind cnt pad t) = Fold.value cfg S t
  | .elem sp name attrs kids, cnt, pad, hpad => by
      by_cases hany : kids.any isElem = true
      · have hb := fold_layBodyI cfg S ind hind kids (cnt + 1) (pad ++ ind) true (elemKey cfg S name)
          (loadAttrs cfg S attrs) none 0 none none (inTrim_append hpad hind) (.inl rfl)
        simp only [layI, hany, if_true, Fold.value, kids'_append]
        generalize hr : Fold.kids' cfg S (elemKey cfg S name) (loadAttrs cfg S attrs, none, 0, none)
          (layBodyI ind (cnt + 1) (pad ++ ind) true kids) = r at hb
        generalize Fold.kids' cfg S (elemKey cfg S name) (loadAttrs cfg S attrs, none, 0, none) kids = r0 at hb
        obtain ⟨na, n, seq, pend⟩ := r
        obtain ⟨na0, n0, seq0, pend0⟩ := r0
        obtain ⟨h1, h2, h3, h4⟩ := hb
        simp only at h1 h2 h3 h4
        subst h1; subst h2; subst h3
        obtain ⟨pend', hw⟩ := kids'_wsNode cfg S (elemKey cfg S name) na n seq pend pend0 h4 pad hpad
        rw [hw]
      · have hany' : kids.any isElem = false := by simpa using hany
        rw [layI_simple ind cnt pad sp name attrs kids hany']
  | .text _, _, _, _ => rfl
  | .comment _, _, _, _ => rfl
  | .procinst _ _, _, _, _ => rfl
  | .directive _, _, _, _ => rfl
theorem fold_layBodyI (cfg : DecCfg) (S : Strconv) (ind : Str) (hind : inTrim cfg ind) :
    ∀ (ks : List Node) (cnt : Nat) (pad : Str) (first : Bool) (skey : Str) (na : Entries)
      (n : Option Val) (seq : Nat) (pend pend0 : Option Str), inTrim cfg pad →
      PendRel cfg S skey na n pend pend0 →
      (Fold.kids' cfg S skey (na, n, seq, pend) (layBodyI ind cnt pad first ks)).1
          = (Fold.kids' cfg S skey (na, n, seq, pend0) ks).1
      ∧ (Fold.kids' cfg S skey (na, n, seq, pend) (layBodyI ind cnt pad first ks)).2.1
          = (Fold.kids' cfg S skey (na, n, seq, pend0) ks).2.1
      ∧ (Fold.kids' cfg S skey (na, n, seq, pend) (layBodyI ind cnt pad first ks)).2.2.1
          = (Fold.kids' cfg S skey (na, n, seq, pend0) ks).2.2.1
      ∧ PendRel cfg S skey (Fold.kids' cfg S skey (na, n, seq, pend0) ks).1
          (Fold.kids' cfg S skey (na, n, seq, pend0) ks).2.1
          (Fold.kids' cfg S skey (na, n, seq, pend) (layBodyI ind cnt pad first ks)).2.2.2
          (Fold.kids' cfg S skey (na, n, seq, pend0) ks).2.2.2
  | [], _, _, _, _, _, _, _, _, _, _, h => by
      simpa only [layBodyI, Fold.kids', true_and] using h
  | .elem sp name attrs kids :: ks, cnt, pad, first, skey, na, n, seq, pend, pend0, hpad, h => by
      have hv := fold_layI cfg S ind hind (.elem sp name attrs kids) cnt pad hpad
      obtain ⟨kids', hshape⟩ := layI_elem_shape ind cnt pad sp name attrs kids
      rw [hshape] at hv
      have hw1 : inTrim cfg ((if first then ['\n'] else []) ++ pad) := by
        refine inTrim_append ?_ hpad
        cases first
        · exact inTrim_nil cfg
        · exact inTrim_nl cfg
      obtain ⟨p1, hp1⟩ := kids'_wsNode cfg S skey na n seq pend pend0 h _ hw1
      simp only [layBodyI, isElem, if_true, kids'_append, hp1, hshape]
      simp only [Fold.kids', hv]
      generalize addChild na (elemKey cfg S name)
        (seqDecorate cfg seq (Fold.value cfg S (.elem sp name attrs kids))).1 = na1
      generalize (seqDecorate cfg seq (Fold.value cfg S (.elem sp name attrs kids))).2 = seq1
      obtain ⟨p2, hp2, hrel⟩ := kids'_wsNode_none cfg S skey na1 n seq1 (nlOf cnt) (inTrim_nlOf cfg cnt)
      rw [kids'_append, hp2]
      exact fold_layBodyI cfg S ind hind ks cnt pad false skey na1 n seq1 p2 none hpad hrel
  | .text s :: ks, cnt, pad, first, skey, na, n, seq, pend, pend0, hpad, h => by
      obtain ⟨he, hrel⟩ := text_step cfg S skey na n pend pend0 h s
      simp only [layBodyI, isElem, Bool.false_eq_true, if_false, Fold.kids', he]
      exact fold_layBodyI cfg S ind hind ks cnt pad first skey _ _ seq _ _ hpad hrel
  | .comment _ :: ks, cnt, pad, first, skey, na, n, seq, pend, pend0, hpad, _ => by
      simp only [layBodyI, isElem, Bool.false_eq_true, if_false, Fold.kids']
      exact fold_layBodyI cfg S ind hind ks cnt pad first skey na n seq none none hpad (.inl rfl)
  | .procinst _ _ :: ks, cnt, pad, first, skey, na, n, seq, pend, pend0, hpad, _ => by
      simp only [layBodyI, isElem, Bool.false_eq_true, if_false, Fold.kids']
      exact fold_layBodyI cfg S ind hind ks cnt pad first skey na n seq none none hpad (.inl rfl)
  | .directive _ :: ks, cnt, pad, first, skey, na, n, seq, pend, pend0, hpad, _ => by
      simp only [layBodyI, isElem, Bool.false_eq_true, if_false, Fold.kids']
      exact fold_layBodyI cfg S ind hind ks cnt pad first skey na n seq none none hpad (.inl rfl)
end

/-- blanks and tabs need no escaping -/
theorem plainText_of_blank (cfg : EncCfg) : ∀ (s : Str), (∀ c ∈ s, c = ' ' ∨ c = '\t') →
    plainText cfg s = true
  | [], _ => by simp [plainText, escIf_nil]
  | c :: t, h => by
      have ih := plainText_of_blank cfg t (fun x hx => h x (List.mem_cons_of_mem _ hx))
      have hc : escIf cfg [c] = [c] := by
        unfold escIf; split
        · rw [escapeChars_flatMap]
          rcases h c (List.mem_cons_self ..) with e | e <;> subst e <;> decide
        · rfl
      unfold plainText at ih ⊢
      have : c :: t = [c] ++ t := rfl
      rw [this, escIf_append, hc, beq_iff_eq.1 ih]
      simp

/-- the token stream of the indented document: the prefix as a text token (if not empty), then
    the tokens of the layout tree (the root has no trailing newline) -/
def docToksI (pfx ind : Str) (t : Node) : List Tok :=
  flattenKids (wsNode pfx) ++ flatten (layI ind 0 pfx t)

theorem wsNode_not_start (s : Str) : ∀ t ∈ flattenKids (wsNode s), ¬ isStart t := by
  unfold wsNode
  split
  · intro t ht; simp [flattenKids] at ht
  · intro t ht
    simp only [flattenKids, flatten, List.append_nil, List.mem_singleton] at ht
    subst ht
    simp [isStart]

/-- decoding the indented token stream gives exactly what decoding the compact one gives -/
theorem newMapXml_docToksI (cfg : DecCfg) (S : Strconv) (fin : StreamEnd) (pfx ind : Str)
    (hpfx : inTrim cfg pfx) (hind : inTrim cfg ind) (sp name : Str) (attrs : List Attr)
    (kids : List Node) :
    newMapXml cfg S (docToksI pfx ind (.elem sp name attrs kids)) fin
      = newMapXml cfg S (flatten (.elem sp name attrs kids)) fin := by
  obtain ⟨kids', hshape⟩ := layI_elem_shape ind 0 pfx sp name attrs kids
  have hv := fold_layI cfg S ind hind (.elem sp name attrs kids) 0 pfx hpfx
  have h1 := Dec.newMapXml_tree cfg S fin (flattenKids (wsNode pfx)) [] (wsNode_not_start pfx)
    sp name attrs kids'
  have h2 := Dec.newMapXml_tree cfg S fin [] [] (by simp) sp name attrs kids
  simp only [List.append_nil, List.nil_append] at h1 h2
  unfold docToksI
  rw [hshape, h1, h2]
  rw [hshape] at hv
  simp only [Fold.doc, hv]

end Mxj.Enc
