import Mxj.Model.Conc
namespace Mxj.Conc

theorem runTh_stepTh {G L : Type} (g : G) (t : Th G L) : runTh g (stepTh g t) = runTh g t := by
  unfold stepTh runTh
  cases h : t.todo with
  | nil => simp [h]
  | cons s rest => simp

theorem map_modifyAt_of_inv {α β : Type} (f : α → α) (r : α → β) (h : ∀ a, r (f a) = r a) :
    ∀ (i : Nat) (xs : List α), (modifyAt f i xs).map r = xs.map r
  | 0, [] => rfl
  | _ + 1, [] => rfl
  | 0, x :: xs => by simp [modifyAt, h]
  | i + 1, x :: xs => by simp [modifyAt, map_modifyAt_of_inv f r h i xs]

theorem length_modifyAt {α : Type} (f : α → α) : ∀ (i : Nat) (xs : List α),
    (modifyAt f i xs).length = xs.length
  | 0, [] => rfl
  | _ + 1, [] => rfl
  | 0, _ :: _ => rfl
  | i + 1, _ :: xs => by simp [modifyAt, length_modifyAt f i xs]

theorem exec_results {G L : Type} (g : G) (schedule : List Nat) :
    ∀ ts : List (Th G L), (exec g ts schedule).map (runTh g) = ts.map (runTh g) := by
  induction schedule with
  | nil => intro ts; rfl
  | cons i rest ih =>
    intro ts
    show (exec g (pick g ts i) rest).map (runTh g) = _
    rw [ih, pick, map_modifyAt_of_inv _ _ (runTh_stepTh g)]

theorem exec_length {G L : Type} (g : G) (schedule : List Nat) :
    ∀ ts : List (Th G L), (exec g ts schedule).length = ts.length := by
  induction schedule with
  | nil => intro ts; rfl
  | cons i rest ih =>
    intro ts
    show (exec g (pick g ts i) rest).length = _
    rw [ih, pick, length_modifyAt]

theorem runTh_done {G L : Type} (g : G) (t : Th G L) (h : t.todo.isEmpty = true) : runTh g t = t.loc := by
  unfold runTh
  cases ht : t.todo with
  | nil => rfl
  | cons s r => simp [ht] at h

end Mxj.Conc
